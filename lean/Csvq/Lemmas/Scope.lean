/-
  Helper lemmas for C15 (block scoping): the association-list maps, the walks over the block stack,
  and three invariants of the reference semantics proved by induction on the fuel over all eight
  mutually recursive functions:
    * `lenInv`   — the block stack has the same depth after as before (every outcome, errors included);
    * `insInv`   — an empty block anywhere in the stack is transparent;
    * `leInv`    — no block below the current one ever gains a name.
-/
import Csvq.Model.Scope
namespace Csvq.Scope
open Csvq

/-! ## association lists -/

theorem aget_aset_same {α} (x : Nat) (v : α) : ∀ (l : List (Nat × α)), aget x l ≠ none → aget x (aset x v l) = some v
  | [], h => by simp [aget] at h
  | (y, w) :: rest, h => by
    by_cases hy : y = x
    · simp [aset, aget, hy]
    · simp [aget, hy] at h
      simp [aset, aget, hy, aget_aset_same x v rest h]

theorem aget_aset_isSome {α} (x y : Nat) (v : α) : ∀ (l : List (Nat × α)), (aget y (aset x v l)).isSome = (aget y l).isSome
  | [] => by simp [aset]
  | (z, w) :: rest => by
    simp only [aset]
    split
    · simp only [aget]; split <;> simp
    · simp only [aget]; split
      · simp
      · exact aget_aset_isSome x y v rest

theorem aget_adel_some {α} (x y : Nat) : ∀ (l : List (Nat × α)), (aget y (adel x l)).isSome → (aget y l).isSome
  | [] => by simp [adel]
  | (z, w) :: rest => by
    simp only [adel]
    split
    · simp only [aget]; split
      · simp
      · exact id
    · simp only [aget]; split
      · simp
      · exact aget_adel_some x y rest

/-! ## the walks keep the depth of the stack -/

theorem setVar_length {x v} : ∀ {bs bs'}, setVar x v bs = some bs' → bs'.length = bs.length := by
  intro bs
  induction bs with
  | nil => intro bs' h; simp [setVar] at h
  | cons b rest ih =>
    intro bs' h
    simp only [setVar] at h
    split at h
    · cases h; simp
    · split at h
      · rename_i r hr
        cases h
        simp [ih hr]
      · cases h

theorem disposeVar_length {x} : ∀ {bs bs'}, disposeVar x bs = some bs' → bs'.length = bs.length := by
  intro bs
  induction bs with
  | nil => intro bs' h; simp [disposeVar] at h
  | cons b rest ih =>
    intro bs' h
    simp only [disposeVar] at h
    split at h
    · cases h; simp
    · split at h
      · rename_i r hr
        cases h
        simp [ih hr]
      · cases h

theorem disposeFn_length {x} : ∀ {bs bs'}, disposeFn x bs = some bs' → bs'.length = bs.length := by
  intro bs
  induction bs with
  | nil => intro bs' h; simp [disposeFn] at h
  | cons b rest ih =>
    intro bs' h
    simp only [disposeFn] at h
    split at h
    · cases h; simp
    · split at h
      · rename_i r hr
        cases h
        simp [ih hr]
      · cases h

theorem declareVar_length {x v} : ∀ {bs bs'}, declareVar x v bs = some bs' → bs'.length = bs.length := by
  intro bs bs' h
  cases bs with
  | nil => simp [declareVar] at h
  | cons b rest =>
    simp only [declareVar] at h
    split at h
    · cases h
    · cases h; simp

theorem declareFn_length {f d} : ∀ {bs bs'}, declareFn f d bs = .ok bs' → bs'.length = bs.length := by
  intro bs bs' h
  cases bs with
  | nil => simp [declareFn] at h
  | cons b rest =>
    simp only [declareFn] at h
    split at h
    · cases h
    · split at h
      · cases h
      · cases h; simp

/-! ## `lenInv`: the stack is balanced -/

theorem cursorDo_length (op : CurOp) (c x : Nat) (bs : List Block) : (cursorDo op c x bs).2.length = bs.length := by
  unfold cursorDo
  split
  · rfl
  · split
    · rfl
    · split
      · rfl
      · rename_i bs1 h1
        have := setVar_length h1
        split
        · simpa using this
        · split
          · simpa using this
          · rename_i bs2 h2
            have := setVar_length h2
            simp_all

structure LenInv (fuel : Nat) : Prop where
  eval : ∀ e st, (evalS fuel e st).2.blocks.length = st.blocks.length
  args : ∀ es st, (evalArgsS fuel es st).2.blocks.length = st.blocks.length
  call : ∀ d as st, (callS fuel d as st).2.blocks.length = st.blocks.length
  callAgg : ∀ d c s0 as st, (callAggS fuel d c s0 as st).2.blocks.length = st.blocks.length
  bind : ∀ ps as st, (bindParamsS fuel ps as st).2.blocks.length = st.blocks.length
  stmt : ∀ s st, (stmtS fuel s st).2.blocks.length = st.blocks.length
  block : ∀ ss st, (blockS fuel ss st).2.blocks.length = st.blocks.length
  ifs : ∀ br els st, (ifS fuel br els st).2.blocks.length = st.blocks.length
  cs : ∀ v br els st, (caseS fuel v br els st).2.blocks.length = st.blocks.length
  whl : ∀ c body st, (whileS fuel c body st).2.blocks.length = st.blocks.length
  fe : ∀ x d vals body st, (foreachS fuel x d vals body st).2.blocks.length = st.blocks.length

theorem inBlockWith_length {α} (b : Block) (f : St → α × St) (st : St)
    (h : (f { st with blocks := b :: st.blocks }).2.blocks.length = st.blocks.length + 1) :
    (inBlockWith b f st).2.blocks.length = st.blocks.length := by
  unfold inBlockWith
  simp only [St.pop, List.length_tail]
  rw [h]
  simp

theorem inBlock_length {α} (f : St → α × St) (st : St)
    (h : (f st.push).2.blocks.length = st.push.blocks.length) :
    (inBlock f st).2.blocks.length = st.blocks.length := by
  unfold inBlock
  simp only [St.pop, List.length_tail]
  rw [h]
  simp [St.push]

theorem lenInv : ∀ fuel, LenInv fuel
  | 0 => by constructor <;> intros <;> simp [evalS, evalArgsS, callS, callAggS, bindParamsS, stmtS, blockS, ifS, caseS, whileS, foreachS]
  | fuel + 1 => by
    have ih := lenInv fuel
    constructor
    · -- eval
      intro e st
      cases e with
      | lit v => simp [evalS]
      | var x => simp only [evalS]; split <;> rfl
      | bin op a b =>
        simp only [evalS]
        have h1 := ih.eval a st
        split
        · grind
        · split
          · grind
          · have := ih.eval b
            split <;> grind
      | call f args =>
        simp only [evalS]
        have := ih.args
        have := ih.call
        have := ih.callAgg
        split
        · rfl
        · split
          · split
            · split <;> grind
            · rfl
          · split
            · rfl
            · split
              · split <;> grind
              · rfl
      | acall f s0 args =>
        simp only [evalS]
        have := ih.args
        have := ih.callAgg
        split
        · split <;> rfl
        · split
          · rfl
          · split
            · split <;> grind
            · rfl
    · -- args
      intro es st
      cases es with
      | nil => simp [evalArgsS]
      | cons e es =>
        simp only [evalArgsS]
        have := ih.eval e st
        have := ih.args es
        split
        · grind
        · split <;> grind
    · -- call
      intro d as st
      simp only [callS]
      apply inBlock_length
      split
      · have := ih.bind d.params as st.push
        have := ih.block d.body
        split
        · grind
        · split <;> grind
      · rfl
    · -- callAgg
      intro d c s0 as st
      simp only [callAggS]
      apply inBlockWith_length
      split
      · have hb := ih.bind d.params as { st with blocks := ⟨[(c, .int s0)], []⟩ :: st.blocks }
        have hk := ih.block d.body
        generalize bindParamsS fuel d.params as { st with blocks := ⟨[(c, .int s0)], []⟩ :: st.blocks } = r at hb ⊢
        rcases r with ⟨_ | e, s1⟩
        · simp only []
          have h2 := hk s1
          generalize blockS fuel d.body s1 = q at h2 ⊢
          rcases q with ⟨o, s2⟩
          cases o <;> simp_all
        · simpa using hb
      · simp
    · -- bind
      intro ps as st
      cases ps with
      | nil => simp [bindParamsS]
      | cons p ps =>
        cases as with
        | cons a as =>
          simp only [bindParamsS]
          split
          · rfl
          · rename_i bs hbs
            have := declareVar_length hbs
            have := ih.bind ps as { st with blocks := bs }
            grind
        | nil =>
          obtain ⟨pn, pd⟩ := p
          cases pd with
          | none =>
            simp only [bindParamsS]
            split
            · rfl
            · rename_i bs hbs
              have := declareVar_length hbs
              have := ih.bind ps [] { st with blocks := bs }
              grind
          | some e =>
            simp only [bindParamsS]
            have := ih.eval e st
            split
            · grind
            · split
              · grind
              · rename_i bs hbs
                have := declareVar_length hbs
                have := ih.bind ps []
                grind
    · -- stmt
      intro s st
      cases s with
      | decl x e =>
        simp only [stmtS]
        have := ih.eval e st
        split
        · grind
        · split
          · grind
          · rename_i bs hbs
            have := declareVar_length hbs
            grind
      | assign x e =>
        simp only [stmtS]
        have := ih.eval e st
        split
        · grind
        · split
          · grind
          · rename_i bs hbs
            have := setVar_length hbs
            grind
      | dispose x =>
        simp only [stmtS]
        split
        · rfl
        · rename_i bs hbs
          simp [disposeVar_length hbs]
      | print e =>
        simp only [stmtS]
        have := ih.eval e st
        split <;> grind
      | ifs br els => simp only [stmtS]; exact ih.ifs br els st
      | caseOf e br els =>
        simp only [stmtS]
        have := ih.eval e st
        have := ih.cs
        split <;> grind
      | raise forced => simp [stmtS]
      | «while» c body => simp only [stmtS]; exact ih.whl c body st
      | foreach x d vals body => simp only [stmtS]; exact ih.fe x d vals body st
      | inline ss => simp only [stmtS]; exact ih.block ss st
      | cursor op c x =>
        simp only [stmtS]
        have h := cursorDo_length op c x st.blocks
        generalize cursorDo op c x st.blocks = r at h ⊢
        rcases r with ⟨_ | e, bs⟩ <;> exact h
      | declT x =>
        simp only [stmtS]
        split
        · rfl
        · split
          · rfl
          · rename_i bs hbs
            simp [declareVar_length hbs]
      | brk => simp [stmtS]
      | cont => simp [stmtS]
      | exit => simp [stmtS]
      | ret e =>
        simp only [stmtS]
        have := ih.eval e st
        split <;> grind
      | declFn f ps body =>
        simp only [stmtS]
        split
        · rfl
        · rename_i bs hbs
          simp [declareFn_length hbs]
      | declAgg f c ps body =>
        simp only [stmtS]
        split
        · rfl
        · rename_i bs hbs
          simp [declareFn_length hbs]
      | disposeFn f =>
        simp only [stmtS]
        split
        · rfl
        · rename_i bs hbs
          simp [disposeFn_length hbs]
    · -- block
      intro ss st
      cases ss with
      | nil => simp [blockS]
      | cons s rest =>
        simp only [blockS]
        have := ih.stmt s st
        have := ih.block rest
        split <;> grind
    · -- ifs
      intro br els st
      cases br with
      | nil =>
        simp only [ifS]
        split
        · rfl
        · exact inBlock_length _ _ (ih.block _ _)
      | cons cb more =>
        obtain ⟨c, body⟩ := cb
        simp only [ifS]
        have := ih.eval c st
        split
        · grind
        · rename_i v st1 hv
          split
          · have := inBlock_length (blockS fuel body) st1 (ih.block _ _)
            grind
          · have := ih.ifs more els st1
            grind
    · -- case
      intro v0 br els st
      cases br with
      | nil =>
        simp only [caseS]
        split
        · rfl
        · exact inBlock_length _ _ (ih.block _ _)
      | cons cb more =>
        obtain ⟨c, body⟩ := cb
        simp only [caseS]
        have := ih.eval c st
        split
        · grind
        · rename_i v st1 hv
          split
          · have := inBlock_length (blockS fuel body) st1 (ih.block _ _)
            grind
          · have := ih.cs v0 more els st1
            grind
    · -- while
      intro c body st
      simp only [whileS]
      have := ih.eval c st
      split
      · grind
      · rename_i v st1 hv
        split
        · have h2 := inBlock_length (blockS fuel body) st1 (ih.block _ _)
          have := ih.whl c body
          split <;> grind
        · grind
    · -- foreach
      intro x d vals body st
      cases vals with
      | nil => cases d <;> simp [foreachS]
      | cons v rest =>
        cases d with
        | true =>
          simp only [foreachS]
          have h2 := inBlockWith_length ⟨[(x, v)], []⟩ (blockS fuel body) st ((ih.block body _).trans (by simp))
          have := ih.fe x true rest body
          split <;> grind
        | false =>
          simp only [foreachS]
          split
          · rfl
          · rename_i bs hbs
            have := setVar_length hbs
            have h2 := inBlock_length (blockS fuel body) { st with blocks := bs } (ih.block _ _)
            have := ih.fe x false rest body
            split <;> grind

/-! ## `insInv`: an empty block is transparent -/

/-- the stack with an empty block inserted below the first `n` blocks -/
def ins (n : Nat) (bs : List Block) : List Block := bs.take n ++ Block.empty :: bs.drop n
def St.ins (s : St) (n : Nat) : St := { s with blocks := Scope.ins n s.blocks }

@[simp] theorem ins_zero (bs : List Block) : ins 0 bs = Block.empty :: bs := by simp [ins]
@[simp] theorem ins_succ_cons (n : Nat) (b : Block) (bs : List Block) : ins (n + 1) (b :: bs) = b :: ins n bs := by
  simp [ins]
@[simp] theorem ins_nil (n : Nat) : ins n [] = [Block.empty] := by simp [ins]
@[simp] theorem aget_empty_vars (x : Nat) : aget x Block.empty.vars = none := rfl
@[simp] theorem aget_empty_funs (x : Nat) : aget x Block.empty.funs = none := rfl

theorem ins_ne_nil (n : Nat) (bs : List Block) : ins n bs ≠ [] := by simp [ins]

theorem ins_tail (n : Nat) : ∀ bs : List Block, bs ≠ [] → (ins (n + 1) bs).tail = ins n bs.tail
  | [], h => absurd rfl h
  | b :: bs, _ => by simp

theorem getVar_ins (x : Nat) : ∀ n bs, getVar x (ins n bs) = getVar x bs
  | 0, bs => by simp [getVar]
  | n + 1, [] => by simp [getVar]
  | n + 1, b :: bs => by simp [getVar, getVar_ins x n bs]

theorem getFn_ins (x : Nat) : ∀ n bs, getFn x (ins n bs) = getFn x bs
  | 0, bs => by simp [getFn]
  | n + 1, [] => by simp [getFn]
  | n + 1, b :: bs => by simp [getFn, getFn_ins x n bs]

theorem setVar_ins (x : Nat) (v : SVal) : ∀ n bs, setVar x v (ins n bs) = (setVar x v bs).map (ins n)
  | 0, bs => by cases h : setVar x v bs <;> simp [setVar, h]
  | n + 1, [] => by simp [setVar]
  | n + 1, b :: bs => by
    simp only [ins_succ_cons, setVar, setVar_ins x v n bs]
    cases aget x b.vars <;> simp
    cases setVar x v bs <;> simp

theorem disposeVar_ins (x : Nat) : ∀ n bs, disposeVar x (ins n bs) = (disposeVar x bs).map (ins n)
  | 0, bs => by cases h : disposeVar x bs <;> simp [disposeVar, h]
  | n + 1, [] => by simp [disposeVar]
  | n + 1, b :: bs => by
    simp only [ins_succ_cons, disposeVar, disposeVar_ins x n bs]
    cases aget x b.vars <;> simp
    cases disposeVar x bs <;> simp

theorem disposeFn_ins (x : Nat) : ∀ n bs, disposeFn x (ins n bs) = (disposeFn x bs).map (ins n)
  | 0, bs => by cases h : disposeFn x bs <;> simp [disposeFn, h]
  | n + 1, [] => by simp [disposeFn]
  | n + 1, b :: bs => by
    simp only [ins_succ_cons, disposeFn, disposeFn_ins x n bs]
    cases aget x b.funs <;> simp
    cases disposeFn x bs <;> simp

theorem declareVar_ins (x : Nat) (v : SVal) (n : Nat) : ∀ bs, bs ≠ [] →
    declareVar x v (ins (n + 1) bs) = (declareVar x v bs).map (ins (n + 1))
  | [], h => absurd rfl h
  | b :: bs, _ => by
    simp only [ins_succ_cons, declareVar]
    cases aget x b.vars <;> simp

theorem declareFn_ins (f : Nat) (d : FDecl) (n : Nat) : ∀ bs, bs ≠ [] →
    declareFn f d (ins (n + 1) bs) = (declareFn f d bs).map (ins (n + 1))
  | [], h => absurd rfl h
  | b :: bs, _ => by
    simp only [ins_succ_cons, declareFn]
    cases aget f b.funs <;> simp [Except.map]
    split <;> rfl

@[simp] theorem St.ins_blocks (s : St) (n : Nat) : (s.ins n).blocks = Scope.ins n s.blocks := rfl
@[simp] theorem St.ins_out (s : St) (n : Nat) : (s.ins n).out = s.out := rfl

theorem St.push_ins (s : St) (n : Nat) : (s.ins n).push = s.push.ins (n + 1) := by
  simp [St.push, St.ins]

theorem St.ins_pop (s : St) (n : Nat) (h : s.blocks ≠ []) : (s.ins (n + 1)).pop = s.pop.ins n := by
  simp [St.pop, St.ins, ins_tail n s.blocks h]

theorem cursorDo_ins (op : CurOp) (c x n : Nat) (bs : List Block) :
    cursorDo op c x (ins n bs) = ((cursorDo op c x bs).1, ins n (cursorDo op c x bs).2) := by
  unfold cursorDo
  rw [getVar_ins]
  cases getVar c bs with
  | none => rfl
  | some s =>
    simp only []
    cases curStep op s with
    | error e => rfl
    | ok r =>
      obtain ⟨s', ov⟩ := r
      simp only [setVar_ins]
      cases setVar c s' bs with
      | none => rfl
      | some bs1 =>
        simp only [Option.map]
        cases ov with
        | none => rfl
        | some v =>
          simp only [setVar_ins]
          cases setVar x v bs1 <;> rfl

structure InsInv (fuel : Nat) : Prop where
  eval : ∀ n e st, evalS fuel e (st.ins n) = ((evalS fuel e st).1, (evalS fuel e st).2.ins n)
  args : ∀ n es st, evalArgsS fuel es (st.ins n) = ((evalArgsS fuel es st).1, (evalArgsS fuel es st).2.ins n)
  call : ∀ n d as st, callS fuel d as (st.ins n) = ((callS fuel d as st).1, (callS fuel d as st).2.ins n)
  callAgg : ∀ n d c s0 as st,
    callAggS fuel d c s0 as (st.ins n) = ((callAggS fuel d c s0 as st).1, (callAggS fuel d c s0 as st).2.ins n)
  bind : ∀ n ps as st, st.blocks ≠ [] →
    bindParamsS fuel ps as (st.ins (n + 1)) = ((bindParamsS fuel ps as st).1, (bindParamsS fuel ps as st).2.ins (n + 1))
  stmt : ∀ n s st, st.blocks ≠ [] →
    stmtS fuel s (st.ins (n + 1)) = ((stmtS fuel s st).1, (stmtS fuel s st).2.ins (n + 1))
  block : ∀ n ss st, st.blocks ≠ [] →
    blockS fuel ss (st.ins (n + 1)) = ((blockS fuel ss st).1, (blockS fuel ss st).2.ins (n + 1))
  ifs : ∀ n br els st, st.blocks ≠ [] →
    ifS fuel br els (st.ins (n + 1)) = ((ifS fuel br els st).1, (ifS fuel br els st).2.ins (n + 1))
  cs : ∀ n v br els st, st.blocks ≠ [] →
    caseS fuel v br els (st.ins (n + 1)) = ((caseS fuel v br els st).1, (caseS fuel v br els st).2.ins (n + 1))
  whl : ∀ n c body st, st.blocks ≠ [] →
    whileS fuel c body (st.ins (n + 1)) = ((whileS fuel c body st).1, (whileS fuel c body st).2.ins (n + 1))
  fe : ∀ n x d vals body st, st.blocks ≠ [] →
    foreachS fuel x d vals body (st.ins (n + 1)) =
      ((foreachS fuel x d vals body st).1, (foreachS fuel x d vals body st).2.ins (n + 1))

theorem ne_nil_of_length_eq {α} {l l' : List α} (h : l'.length = l.length) (hl : l ≠ []) : l' ≠ [] := by
  cases l' with
  | nil => cases l with
    | nil => exact absurd rfl hl
    | cons _ _ => simp at h
  | cons _ _ => simp

/-- entering and leaving a block commutes with the insertion (one level deeper inside) -/
theorem inBlock_ins {α} (f : St → α × St) (st : St) (n : Nat)
    (hlen : (f st.push).2.blocks.length = st.push.blocks.length)
    (h : f (st.push.ins (n + 1)) = ((f st.push).1, (f st.push).2.ins (n + 1))) :
    inBlock f (st.ins n) = ((inBlock f st).1, (inBlock f st).2.ins n) := by
  unfold inBlock
  rw [St.push_ins, h]
  have hne : (f st.push).2.blocks ≠ [] := ne_nil_of_length_eq hlen (by simp [St.push])
  simp [St.ins_pop _ n hne]

theorem inBlockWith_ins {α} (b : Block) (f : St → α × St) (st : St) (n : Nat)
    (hlen : (f { st with blocks := b :: st.blocks }).2.blocks.length = st.blocks.length + 1)
    (h : f (St.ins { st with blocks := b :: st.blocks } (n + 1)) =
      ((f { st with blocks := b :: st.blocks }).1, (f { st with blocks := b :: st.blocks }).2.ins (n + 1))) :
    inBlockWith b f (st.ins n) = ((inBlockWith b f st).1, (inBlockWith b f st).2.ins n) := by
  unfold inBlockWith
  have e : ({ st.ins n with blocks := b :: (st.ins n).blocks } : St) = St.ins { st with blocks := b :: st.blocks } (n + 1) := by
    simp [St.ins]
  rw [e, h]
  have hne : (f { st with blocks := b :: st.blocks }).2.blocks ≠ [] := by
    intro h0; rw [h0] at hlen; simp at hlen
  simp [St.ins_pop _ n hne]

theorem insInv : ∀ fuel, InsInv fuel
  | 0 => by constructor <;> intros <;> simp [evalS, evalArgsS, callS, callAggS, bindParamsS, stmtS, blockS, ifS, caseS, whileS, foreachS]
  | fuel + 1 => by
    have ih := insInv fuel
    have il := lenInv fuel
    constructor
    · -- eval
      intro n e st
      cases e with
      | lit v => simp [evalS]
      | var x =>
        simp only [evalS, St.ins_blocks, getVar_ins]
        split <;> rfl
      | bin op a b =>
        simp only [evalS]
        rw [ih.eval n a st]
        rcases evalS fuel a st with ⟨_ | va, st1⟩
        · rfl
        · cases va with
          | null => rfl
          | int i =>
            simp only []
            rw [ih.eval n b st1]
            rcases evalS fuel b st1 with ⟨_ | vb, st2⟩ <;> rfl
          | tern t =>
            simp only []
            rw [ih.eval n b st1]
            rcases evalS fuel b st1 with ⟨_ | vb, st2⟩ <;> rfl
      | call f args =>
        simp only [evalS, St.ins_blocks, getFn_ins]
        cases getFn f st.blocks with
        | none => rfl
        | some d =>
          simp only []
          cases d.agg with
          | none =>
            simp only []
            split
            · rw [ih.args n args st]
              rcases evalArgsS fuel args st with ⟨_ | vs, st1⟩
              · rfl
              · simp only []
                rw [ih.call n d vs st1]
            · rfl
          | some c =>
            simp only []
            cases args with
            | nil => rfl
            | cons a rest =>
              simp only []
              split
              · rw [ih.args n rest st]
                rcases evalArgsS fuel rest st with ⟨_ | vs, st1⟩
                · rfl
                · simp only []
                  rw [ih.callAgg n d c emptyPseudo vs st1]
              · rfl
      | acall f s0 args =>
        simp only [evalS, St.ins_blocks, getFn_ins]
        cases getFn f st.blocks with
        | none => simp only []; split <;> rfl
        | some d =>
          simp only []
          cases d.agg with
          | none => rfl
          | some c =>
            simp only []
            split
            · rw [ih.args n args st]
              rcases evalArgsS fuel args st with ⟨_ | vs, st1⟩
              · rfl
              · simp only []
                rw [ih.callAgg n d c s0 vs st1]
            · rfl
    · -- args
      intro n es st
      cases es with
      | nil => simp [evalArgsS]
      | cons e es =>
        simp only [evalArgsS]
        rw [ih.eval n e st]
        rcases evalS fuel e st with ⟨_ | v, st1⟩
        · rfl
        · simp only []
          rw [ih.args n es st1]
          rcases evalArgsS fuel es st1 with ⟨_ | vs, st2⟩ <;> rfl
    · -- call
      intro n d as st
      simp only [callS]
      apply inBlock_ins
      · split
        · have := il.bind d.params as st.push
          have := il.block d.body
          split
          · grind
          · split <;> grind
        · rfl
      · split
        · rw [ih.bind n d.params as st.push (by simp [St.push])]
          have hb := il.bind d.params as st.push
          rcases hB : bindParamsS fuel d.params as st.push with ⟨_ | e, s1⟩
          · simp only []
            rw [hB] at hb
            have hne : s1.blocks ≠ [] := ne_nil_of_length_eq hb (by simp [St.push])
            rw [ih.block n d.body s1 hne]
            rcases blockS fuel d.body s1 with ⟨o, s2⟩
            cases o <;> rfl
          · rfl
        · rfl
    · -- callAgg
      intro n d c s0 as st
      simp only [callAggS]
      apply inBlockWith_ins
      · split
        · have hb := il.bind d.params as { st with blocks := ⟨[(c, .int s0)], []⟩ :: st.blocks }
          have hk := il.block d.body
          generalize bindParamsS fuel d.params as { st with blocks := ⟨[(c, .int s0)], []⟩ :: st.blocks } = r at hb ⊢
          rcases r with ⟨_ | e, s1⟩
          · simp only []
            have h2 := hk s1
            generalize blockS fuel d.body s1 = q at h2 ⊢
            rcases q with ⟨o, s2⟩
            cases o <;> simp_all
          · simpa using hb
        · simp
      · split
        · rw [ih.bind n d.params as { st with blocks := ⟨[(c, .int s0)], []⟩ :: st.blocks } (by simp)]
          have hb := il.bind d.params as { st with blocks := ⟨[(c, .int s0)], []⟩ :: st.blocks }
          rcases hB : bindParamsS fuel d.params as { st with blocks := ⟨[(c, .int s0)], []⟩ :: st.blocks } with ⟨_ | e, s1⟩
          · simp only []
            rw [hB] at hb
            have hne : s1.blocks ≠ [] := ne_nil_of_length_eq hb (by simp)
            rw [ih.block n d.body s1 hne]
            rcases blockS fuel d.body s1 with ⟨o, s2⟩
            cases o <;> rfl
          · rfl
        · rfl
    · -- bind
      intro n ps as st hne
      cases ps with
      | nil => simp [bindParamsS]
      | cons p ps =>
        cases as with
        | cons a as =>
          simp only [bindParamsS, St.ins_blocks, declareVar_ins _ _ n st.blocks hne]
          cases hd : declareVar p.name a st.blocks with
          | none => rfl
          | some bs =>
            simp only [Option.map]
            have := declareVar_length hd
            exact ih.bind n ps as { st with blocks := bs } (ne_nil_of_length_eq this hne)
        | nil =>
          obtain ⟨pn, pd⟩ := p
          cases pd with
          | none =>
            simp only [bindParamsS, St.ins_blocks, declareVar_ins _ _ n st.blocks hne]
            cases hd : declareVar pn (.tern .T) st.blocks with
            | none => rfl
            | some bs =>
              simp only [Option.map]
              have := declareVar_length hd
              exact ih.bind n ps [] { st with blocks := bs } (ne_nil_of_length_eq this hne)
          | some e =>
            simp only [bindParamsS]
            rw [ih.eval (n + 1) e st]
            have hl := il.eval e st
            rcases hE : evalS fuel e st with ⟨_ | v, st1⟩
            · rfl
            · rw [hE] at hl
              have hne1 : st1.blocks ≠ [] := ne_nil_of_length_eq hl hne
              simp only [St.ins_blocks, declareVar_ins _ _ n st1.blocks hne1]
              cases hd : declareVar pn v st1.blocks with
              | none => rfl
              | some bs =>
                simp only [Option.map]
                have := declareVar_length hd
                exact ih.bind n ps [] { st1 with blocks := bs } (ne_nil_of_length_eq this hne1)
    · -- stmt
      intro n s st hne
      cases s with
      | decl x e =>
        simp only [stmtS]
        rw [ih.eval (n + 1) e st]
        have hl := il.eval e st
        rcases hE : evalS fuel e st with ⟨_ | v, st1⟩
        · rfl
        · rw [hE] at hl
          have hne1 : st1.blocks ≠ [] := ne_nil_of_length_eq hl hne
          simp only [St.ins_blocks, declareVar_ins _ _ n st1.blocks hne1]
          cases declareVar x v st1.blocks <;> rfl
      | assign x e =>
        simp only [stmtS]
        rw [ih.eval (n + 1) e st]
        rcases evalS fuel e st with ⟨_ | v, st1⟩
        · rfl
        · simp only [St.ins_blocks, setVar_ins]
          cases setVar x v st1.blocks <;> rfl
      | dispose x =>
        simp only [stmtS, St.ins_blocks, disposeVar_ins]
        cases disposeVar x st.blocks <;> rfl
      | print e =>
        simp only [stmtS]
        rw [ih.eval (n + 1) e st]
        rcases evalS fuel e st with ⟨_ | v, st1⟩ <;> rfl
      | ifs br els => simp only [stmtS]; exact ih.ifs n br els st hne
      | caseOf e br els =>
        simp only [stmtS]
        rw [ih.eval (n + 1) e st]
        have hl := il.eval e st
        rcases hE : evalS fuel e st with ⟨_ | v, st1⟩
        · rfl
        · rw [hE] at hl
          exact ih.cs n v br els st1 (ne_nil_of_length_eq hl hne)
      | raise forced => simp [stmtS]
      | «while» c body => simp only [stmtS]; exact ih.whl n c body st hne
      | foreach x d vals body => simp only [stmtS]; exact ih.fe n x d vals body st hne
      | inline ss => simp only [stmtS]; exact ih.block n ss st hne
      | cursor op c x =>
        simp only [stmtS, St.ins_blocks, cursorDo_ins]
        rcases cursorDo op c x st.blocks with ⟨_ | e, bs⟩ <;> rfl
      | declT x =>
        simp only [stmtS, St.ins_blocks, getVar_ins, declareVar_ins _ _ n st.blocks hne]
        cases getVar x st.blocks with
        | some _ => rfl
        | none =>
          simp only []
          cases declareVar x (.int 0) st.blocks <;> rfl
      | brk => simp [stmtS]
      | cont => simp [stmtS]
      | exit => simp [stmtS]
      | ret e =>
        simp only [stmtS]
        rw [ih.eval (n + 1) e st]
        rcases evalS fuel e st with ⟨_ | v, st1⟩ <;> rfl
      | declFn f ps body =>
        simp only [stmtS, St.ins_blocks, declareFn_ins _ _ n st.blocks hne]
        cases declareFn f ⟨ps, body, none⟩ st.blocks <;> rfl
      | declAgg f c ps body =>
        simp only [stmtS, St.ins_blocks, declareFn_ins _ _ n st.blocks hne]
        cases declareFn f ⟨ps, body, some c⟩ st.blocks <;> rfl
      | disposeFn f =>
        simp only [stmtS, St.ins_blocks, disposeFn_ins]
        cases disposeFn f st.blocks <;> rfl
    · -- block
      intro n ss st hne
      cases ss with
      | nil => simp [blockS]
      | cons s rest =>
        simp only [blockS]
        rw [ih.stmt n s st hne]
        have hl := il.stmt s st
        rcases hS : stmtS fuel s st with ⟨o, st1⟩
        rw [hS] at hl
        have hne1 : st1.blocks ≠ [] := ne_nil_of_length_eq hl hne
        cases o <;> first | rfl | exact ih.block n rest st1 hne1
    · -- ifs
      intro n br els st hne
      cases br with
      | nil =>
        simp only [ifS]
        cases els with
        | nil => rfl
        | cons s ss =>
          simp only []
          exact inBlock_ins _ st (n + 1) (il.block _ _) (ih.block (n + 1) _ st.push (by simp [St.push]))
      | cons cb more =>
        obtain ⟨c, body⟩ := cb
        simp only [ifS]
        rw [ih.eval (n + 1) c st]
        have hl := il.eval c st
        rcases hE : evalS fuel c st with ⟨_ | v, st1⟩
        · rfl
        · rw [hE] at hl
          have hne1 : st1.blocks ≠ [] := ne_nil_of_length_eq hl hne
          simp only []
          cases v.ternary with
          | T => exact inBlock_ins _ st1 (n + 1) (il.block _ _) (ih.block (n + 1) _ st1.push (by simp [St.push]))
          | F => exact ih.ifs n more els st1 hne1
          | U => exact ih.ifs n more els st1 hne1
    · -- case
      intro n v0 br els st hne
      cases br with
      | nil =>
        simp only [caseS]
        cases els with
        | nil => rfl
        | cons s ss =>
          simp only []
          exact inBlock_ins _ st (n + 1) (il.block _ _) (ih.block (n + 1) _ st.push (by simp [St.push]))
      | cons cb more =>
        obtain ⟨c, body⟩ := cb
        simp only [caseS]
        rw [ih.eval (n + 1) c st]
        have hl := il.eval c st
        rcases hE : evalS fuel c st with ⟨_ | v, st1⟩
        · rfl
        · rw [hE] at hl
          have hne1 : st1.blocks ≠ [] := ne_nil_of_length_eq hl hne
          simp only []
          cases caseHit v0 v with
          | T => exact inBlock_ins _ st1 (n + 1) (il.block _ _) (ih.block (n + 1) _ st1.push (by simp [St.push]))
          | F => exact ih.cs n v0 more els st1 hne1
          | U => exact ih.cs n v0 more els st1 hne1
    · -- while
      intro n c body st hne
      simp only [whileS]
      rw [ih.eval (n + 1) c st]
      have hl := il.eval c st
      rcases hE : evalS fuel c st with ⟨_ | v, st1⟩
      · rfl
      · rw [hE] at hl
        have hne1 : st1.blocks ≠ [] := ne_nil_of_length_eq hl hne
        simp only []
        cases v.ternary with
        | T =>
          simp only []
          rw [inBlock_ins _ st1 (n + 1) (il.block _ _) (ih.block (n + 1) _ st1.push (by simp [St.push]))]
          have hl2 := inBlock_length (blockS fuel body) st1 (il.block _ _)
          rcases hB : inBlock (blockS fuel body) st1 with ⟨o, st2⟩
          rw [hB] at hl2
          have hne2 : st2.blocks ≠ [] := ne_nil_of_length_eq hl2 hne1
          cases o <;> first | rfl | exact ih.whl n c body st2 hne2
        | F => rfl
        | U => rfl
    · -- foreach
      intro n x d vals body st hne
      cases vals with
      | nil => cases d <;> simp [foreachS]
      | cons v rest =>
        cases d with
        | true =>
          simp only [foreachS]
          have hlen : (blockS fuel body { st with blocks := ⟨[(x, v)], []⟩ :: st.blocks }).2.blocks.length = st.blocks.length + 1 :=
            (il.block body _).trans (by simp)
          rw [inBlockWith_ins _ _ st (n + 1) hlen (ih.block (n + 1) body _ (by simp))]
          have hl2 := inBlockWith_length ⟨[(x, v)], []⟩ (blockS fuel body) st hlen
          rcases hB : inBlockWith ⟨[(x, v)], []⟩ (blockS fuel body) st with ⟨o, st2⟩
          rw [hB] at hl2
          have hne2 : st2.blocks ≠ [] := ne_nil_of_length_eq hl2 hne
          cases o <;> first | rfl | exact ih.fe n x true rest body st2 hne2
        | false =>
          simp only [foreachS, St.ins_blocks, setVar_ins]
          cases hs : setVar x v st.blocks with
          | none => rfl
          | some bs =>
            simp only [Option.map]
            have hneb : bs ≠ [] := ne_nil_of_length_eq (setVar_length hs) hne
            have e : ({ st.ins (n + 1) with blocks := ins (n + 1) bs } : St) = St.ins { st with blocks := bs } (n + 1) := rfl
            rw [e, inBlock_ins _ { st with blocks := bs } (n + 1) (il.block _ _)
              (ih.block (n + 1) _ (St.push { st with blocks := bs }) (by simp [St.push]))]
            have hl2 := inBlock_length (blockS fuel body) { st with blocks := bs } (il.block _ _)
            rcases hB : inBlock (blockS fuel body) { st with blocks := bs } with ⟨o, st2⟩
            rw [hB] at hl2
            have hne2 : st2.blocks ≠ [] := ne_nil_of_length_eq hl2 hneb
            cases o <;> first | rfl | exact ih.fe n x false rest body st2 hne2

/-! ## `refInv`: the implementation-shaped interpreter refines the reference semantics -/

/-- what the caller of a Processor method relies on about the processor's `returnVal` -/
structure RvOk (rv : Option SVal) (r : PRes) : Prop where
  keep : r.err = none → r.flow ≠ .ret → r.rv = rv
  set : r.err = none → r.flow = .ret → r.rv ≠ none
  twe : r.err = none → r.flow ≠ .terminateWithError

/-- a result of the implementation-shaped interpreter agrees with a result of the reference semantics -/
structure Sim (rv : Option SVal) (r : PRes) (p : Outcome × St) : Prop where
  st : r.st = p.2
  out : r.outcome = p.1
  rvok : RvOk rv r

theorem Sim.fail (e : Err) (rv : Option SVal) (st : St) : Sim rv (PRes.fail e rv st) (.err e, st) :=
  ⟨rfl, rfl, ⟨by simp [PRes.fail], by simp [PRes.fail], by simp [PRes.fail]⟩⟩

theorem Sim.ok (rv : Option SVal) (st : St) : Sim rv (PRes.ok rv st) (.normal, st) :=
  ⟨rfl, rfl, ⟨by simp [PRes.ok], by simp [PRes.ok], by simp [PRes.ok]⟩⟩

/-- executeChild: the child's block is dropped, its returnVal copied when set -/
theorem Sim.child {rv : Option SVal} {r : PRes} {p : Outcome × St} (h : Sim none r p) :
    Sim rv { r with rv := (match r.rv with | some v => some v | none => rv), st := r.st.pop } (p.1, p.2.pop) := by
  obtain ⟨hst, hout, hk, hs, ht⟩ := h
  obtain ⟨flow, err, rv', st'⟩ := r
  simp only at hst hout hk hs ht
  subst hst
  refine ⟨rfl, ?_, ⟨?_, ?_, ?_⟩⟩
  · rw [← hout]
    cases err with
    | some e => rfl
    | none =>
      cases flow <;> try rfl
      have := hs rfl rfl
      cases rv' with
      | none => exact absurd rfl this
      | some v => rfl
  · intro he hf
    simp only at he hf ⊢
    rw [hk he hf]
  · intro he hf
    simp only at he hf ⊢
    have := hs he hf
    cases rv' with
    | none => exact absurd rfl this
    | some v => simp
  · intro he
    exact ht he

structure RefInv (fuel : Nat) : Prop where
  eval : ∀ e st, evalI fuel e st = evalS fuel e st
  args : ∀ es st, evalArgsI fuel es st = evalArgsS fuel es st
  call : ∀ d as st, callI fuel d as st = callS fuel d as st
  callAgg : ∀ d c s0 as st, callAggI fuel d c s0 as st = callAggS fuel d c s0 as st
  bind : ∀ ps as st, bindParamsI fuel ps as st = bindParamsS fuel ps as st
  stmt : ∀ s rv st, Sim rv (stmtI fuel s rv st) (stmtS fuel s st)
  block : ∀ ss rv st, Sim rv (executeI fuel ss rv st) (blockS fuel ss st)
  ifs : ∀ br els rv st, Sim rv (ifI fuel br els rv st) (ifS fuel br els st)
  cs : ∀ v br els rv st, Sim rv (caseI fuel v br els rv st) (caseS fuel v br els st)
  whl : ∀ c body rv b bs out,
    let r := whileI fuel c body rv none ⟨b :: bs, out⟩
    let p := whileS fuel c body ⟨bs, out⟩
    r.st.blocks.tail = p.2.blocks ∧ r.st.blocks ≠ [] ∧ r.st.out = p.2.out ∧ r.outcome = p.1 ∧ RvOk rv r
  fe : ∀ x d vals body rv b bs out,
    let r := foreachI fuel x d vals body rv none ⟨b :: bs, out⟩
    let p := foreachS fuel x d vals body ⟨bs, out⟩
    r.st.blocks.tail = p.2.blocks ∧ r.st.blocks ≠ [] ∧ r.st.out = p.2.out ∧ r.outcome = p.1 ∧ RvOk rv r

theorem refInv : ∀ fuel, RefInv fuel
  | 0 => by
    constructor
    · intros; simp [evalI, evalS]
    · intros; simp [evalArgsI, evalArgsS]
    · intros; simp [callI, callS]
    · intros; simp [callAggI, callAggS]
    · intros; simp [bindParamsI, bindParamsS]
    · intros; simp only [stmtI, stmtS]; exact Sim.fail _ _ _
    · intros; simp only [executeI, blockS]; exact Sim.fail _ _ _
    · intros; simp only [ifI, ifS]; exact Sim.fail _ _ _
    · intros; simp only [caseI, caseS]; exact Sim.fail _ _ _
    · intro c body rv b bs out
      simp only [whileI, whileS]
      refine ⟨rfl, by simp [PRes.fail], rfl, rfl, (Sim.fail _ _ _).rvok⟩
    · intro x d vals body rv b bs out
      simp only [foreachI, foreachS]
      refine ⟨rfl, by simp [PRes.fail], rfl, rfl, (Sim.fail _ _ _).rvok⟩
  | fuel + 1 => by
    have ih := refInv fuel
    have il := lenInv fuel
    have ii := insInv fuel
    constructor
    · -- eval
      intro e st
      cases e with
      | lit v => simp [evalI, evalS]
      | var x => simp [evalI, evalS]
      | bin op a b => simp only [evalI, evalS, ih.eval]
      | call f args => simp only [evalI, evalS, ih.args, ih.call, ih.callAgg]
      | acall f s0 args => simp only [evalI, evalS, ih.args, ih.callAgg]
    · -- args
      intro es st
      cases es with
      | nil => simp [evalArgsI, evalArgsS]
      | cons e es => simp only [evalArgsI, evalArgsS, ih.eval, ih.args]
    · -- call
      intro d as st
      simp only [callI, callS, inBlock]
      split
      · rw [ih.bind]
        rcases bindParamsS fuel d.params as st.push with ⟨_ | e, s1⟩
        · simp only []
          have hsim := ih.block d.body none s1
          rcases hB : blockS fuel d.body s1 with ⟨o, s2⟩
          rw [hB] at hsim
          generalize executeI fuel d.body none s1 = p at hsim
          obtain ⟨hst, hout, hk, hs, ht⟩ := hsim
          obtain ⟨flow, err, rv', st'⟩ := p
          simp only at hst hout hk hs ht
          subst hst
          cases err with
          | some e => simp [PRes.outcome] at hout; subst hout; rfl
          | none =>
            cases flow with
            | ret =>
              have := hs rfl rfl
              cases rv' with
              | none => exact absurd rfl this
              | some v => simp [PRes.outcome] at hout; subst hout; rfl
            | terminateWithError => exact absurd rfl (ht rfl)
            | _ =>
              have := hk rfl (by simp)
              subst this
              simp [PRes.outcome] at hout
              subst hout
              rfl
        · rfl
      · rfl
    · -- callAgg
      intro d c s0 as st
      simp only [callAggI, callAggS, inBlockWith, St.push, Block.empty, declareVar, aget]
      split
      · rw [ih.bind]
        rcases bindParamsS fuel d.params as { st with blocks := ⟨[(c, .int s0)], []⟩ :: st.blocks } with ⟨_ | e, s1⟩
        · simp only []
          have hsim := ih.block d.body none s1
          rcases hB : blockS fuel d.body s1 with ⟨o, s2⟩
          rw [hB] at hsim
          generalize executeI fuel d.body none s1 = p at hsim
          obtain ⟨hst, hout, hk, hs, ht⟩ := hsim
          obtain ⟨flow, err, rv', st'⟩ := p
          simp only at hst hout hk hs ht
          subst hst
          cases err with
          | some e => simp [PRes.outcome] at hout; subst hout; rfl
          | none =>
            cases flow with
            | ret =>
              have := hs rfl rfl
              cases rv' with
              | none => exact absurd rfl this
              | some v => simp [PRes.outcome] at hout; subst hout; rfl
            | terminateWithError => exact absurd rfl (ht rfl)
            | _ =>
              have := hk rfl (by simp)
              subst this
              simp [PRes.outcome] at hout
              subst hout
              rfl
        · rfl
      · rfl
    · -- bind
      intro ps as st
      cases ps with
      | nil => simp [bindParamsI, bindParamsS]
      | cons p ps =>
        cases as with
        | cons a as => simp only [bindParamsI, bindParamsS, ih.bind]
        | nil => simp only [bindParamsI, bindParamsS, ih.eval, ih.bind]
    · -- stmt
      intro s rv st
      cases s with
      | decl x e =>
        simp only [stmtI, stmtS, ih.eval]
        rcases evalS fuel e st with ⟨_ | v, st1⟩
        · exact Sim.fail _ _ _
        · simp only []
          cases declareVar x v st1.blocks with
          | none => exact Sim.fail _ _ _
          | some bs => exact Sim.ok _ _
      | assign x e =>
        simp only [stmtI, stmtS, ih.eval]
        rcases evalS fuel e st with ⟨_ | v, st1⟩
        · exact Sim.fail _ _ _
        · simp only []
          cases setVar x v st1.blocks with
          | none => exact Sim.fail _ _ _
          | some bs => exact Sim.ok _ _
      | dispose x =>
        simp only [stmtI, stmtS]
        cases disposeVar x st.blocks with
        | none => exact Sim.fail _ _ _
        | some bs => exact Sim.ok _ _
      | print e =>
        simp only [stmtI, stmtS, ih.eval]
        rcases evalS fuel e st with ⟨_ | v, st1⟩
        · exact Sim.fail _ _ _
        · exact Sim.ok _ _
      | ifs br els => simp only [stmtI, stmtS]; exact ih.ifs br els rv st
      | caseOf e br els =>
        simp only [stmtI, stmtS, ih.eval]
        rcases evalS fuel e st with ⟨_ | v, st1⟩
        · exact Sim.fail _ _ _
        · exact ih.cs v br els rv st1
      | raise forced => simp only [stmtI, stmtS]; exact Sim.fail _ _ _
      | «while» c body =>
        obtain ⟨blocks, out⟩ := st
        simp only [stmtI, stmtS, St.push]
        have hw := ih.whl c body rv Block.empty blocks out
        simp only at hw
        generalize whileI fuel c body rv none ⟨Block.empty :: blocks, out⟩ = r at hw
        generalize whileS fuel c body ⟨blocks, out⟩ = p at hw
        obtain ⟨h1, _, h3, h4, hk, hs, ht⟩ := hw
        obtain ⟨flow, err, rv', st'⟩ := r
        obtain ⟨o, ⟨pb, po⟩⟩ := p
        simp only at h1 h3 h4 hk hs ht
        refine ⟨?_, h4, ⟨hk, hs, ht⟩⟩
        simp only [St.pop, h1, h3]
      | foreach x d vals body =>
        obtain ⟨blocks, out⟩ := st
        simp only [stmtI, stmtS, St.push]
        have hw := ih.fe x d vals body rv Block.empty blocks out
        simp only at hw
        generalize foreachI fuel x d vals body rv none ⟨Block.empty :: blocks, out⟩ = r at hw
        generalize foreachS fuel x d vals body ⟨blocks, out⟩ = p at hw
        obtain ⟨h1, _, h3, h4, hk, hs, ht⟩ := hw
        obtain ⟨flow, err, rv', st'⟩ := r
        obtain ⟨o, ⟨pb, po⟩⟩ := p
        simp only at h1 h3 h4 hk hs ht
        refine ⟨?_, h4, ⟨hk, hs, ht⟩⟩
        simp only [St.pop, h1, h3]
      | inline ss => simp only [stmtI, stmtS]; exact ih.block ss rv st
      | cursor op c x =>
        simp only [stmtI, stmtS]
        rcases cursorDo op c x st.blocks with ⟨_ | e, bs⟩
        · exact Sim.ok _ _
        · exact Sim.fail _ _ _
      | declT x =>
        simp only [stmtI, stmtS]
        cases getVar x st.blocks with
        | some _ => exact Sim.fail _ _ _
        | none =>
          simp only []
          cases declareVar x (.int 0) st.blocks with
          | none => exact Sim.fail _ _ _
          | some bs => exact Sim.ok _ _
      | brk => simp only [stmtI, stmtS]; exact ⟨rfl, rfl, ⟨by simp, by simp, by simp⟩⟩
      | cont => simp only [stmtI, stmtS]; exact ⟨rfl, rfl, ⟨by simp, by simp, by simp⟩⟩
      | exit => simp only [stmtI, stmtS]; exact ⟨rfl, rfl, ⟨by simp, by simp, by simp⟩⟩
      | ret e =>
        simp only [stmtI, stmtS, ih.eval]
        rcases evalS fuel e st with ⟨_ | v, st1⟩
        · exact Sim.fail _ _ _
        · exact ⟨rfl, rfl, ⟨by simp, by simp, by simp⟩⟩
      | declFn f ps body =>
        simp only [stmtI, stmtS]
        cases declareFn f ⟨ps, body, none⟩ st.blocks with
        | error e => exact Sim.fail _ _ _
        | ok bs => exact Sim.ok _ _
      | declAgg f c ps body =>
        simp only [stmtI, stmtS]
        cases declareFn f ⟨ps, body, some c⟩ st.blocks with
        | error e => exact Sim.fail _ _ _
        | ok bs => exact Sim.ok _ _
      | disposeFn f =>
        simp only [stmtI, stmtS]
        cases disposeFn f st.blocks with
        | none => exact Sim.fail _ _ _
        | some bs => exact Sim.ok _ _
    · -- block
      intro ss rv st
      cases ss with
      | nil => simp only [executeI, blockS]; exact Sim.ok _ _
      | cons s rest =>
        simp only [executeI, blockS]
        have hsim := ih.stmt s rv st
        generalize stmtI fuel s rv st = r at hsim
        rcases hS : stmtS fuel s st with ⟨o, st1⟩
        rw [hS] at hsim
        obtain ⟨hst, hout, hk, hs, ht⟩ := hsim
        obtain ⟨flow, err, rv', st'⟩ := r
        simp only at hst hout hk hs ht
        subst hst
        cases err with
        | some e =>
          simp [PRes.outcome] at hout; subst hout
          exact ⟨rfl, rfl, ⟨hk, hs, ht⟩⟩
        | none =>
          cases flow with
          | terminate =>
            simp [PRes.outcome] at hout; subst hout
            have := hk rfl (by simp); subst this
            exact ih.block rest rv' st'
          | terminateWithError => exact absurd rfl (ht rfl)
          | ret =>
            cases rv' with
            | none => exact absurd rfl (hs rfl rfl)
            | some v =>
              simp [PRes.outcome] at hout; subst hout
              exact ⟨rfl, rfl, ⟨hk, hs, ht⟩⟩
          | exit =>
            simp [PRes.outcome] at hout; subst hout
            exact ⟨rfl, rfl, ⟨hk, hs, ht⟩⟩
          | brk =>
            simp [PRes.outcome] at hout; subst hout
            exact ⟨rfl, rfl, ⟨hk, hs, ht⟩⟩
          | cont =>
            simp [PRes.outcome] at hout; subst hout
            exact ⟨rfl, rfl, ⟨hk, hs, ht⟩⟩
    · -- ifs
      intro br els rv st
      cases br with
      | nil =>
        simp only [ifI, ifS]
        cases els with
        | nil => exact Sim.ok _ _
        | cons s ss =>
          simp only [inBlock]
          exact Sim.child (ih.block (s :: ss) none st.push)
      | cons cb more =>
        obtain ⟨c, body⟩ := cb
        simp only [ifI, ifS, ih.eval]
        rcases evalS fuel c st with ⟨_ | v, st1⟩
        · exact Sim.fail _ _ _
        · simp only []
          cases v.ternary with
          | T => simp only [inBlock]; exact Sim.child (ih.block body none st1.push)
          | F => exact ih.ifs more els rv st1
          | U => exact ih.ifs more els rv st1
    · -- case
      intro v0 br els rv st
      cases br with
      | nil =>
        simp only [caseI, caseS]
        cases els with
        | nil => exact Sim.ok _ _
        | cons s ss =>
          simp only [inBlock]
          exact Sim.child (ih.block (s :: ss) none st.push)
      | cons cb more =>
        obtain ⟨c, body⟩ := cb
        simp only [caseI, caseS, ih.eval]
        rcases evalS fuel c st with ⟨_ | v, st1⟩
        · exact Sim.fail _ _ _
        · simp only []
          cases caseHit v0 v with
          | T => simp only [inBlock]; exact Sim.child (ih.block body none st1.push)
          | F => exact ih.cs v0 more els rv st1
          | U => exact ih.cs v0 more els rv st1
    · -- while
      intro c body rv b bs out
      simp only [whileI, whileS, St.clearCurrent]
      rw [ih.eval]
      have hins := ii.eval 0 c ⟨bs, out⟩
      simp only [St.ins, ins_zero] at hins
      rw [hins]
      rcases evalS fuel c ⟨bs, out⟩ with ⟨_ | v, st1⟩
      · exact ⟨rfl, by simp [PRes.fail], rfl, rfl, (Sim.fail _ _ _).rvok⟩
      · simp only []
        cases v.ternary with
        | F => exact ⟨rfl, by simp [PRes.ok], rfl, rfl, (Sim.ok _ _).rvok⟩
        | U => exact ⟨rfl, by simp [PRes.ok], rfl, rfl, (Sim.ok _ _).rvok⟩
        | T =>
          simp only [inBlock, St.push]
          have hsim := ih.block body none st1.push
          have hlen := il.block body st1.push
          simp only [St.push] at hsim hlen
          generalize executeI fuel body none ⟨Block.empty :: st1.blocks, st1.out⟩ = r at hsim
          rcases hB : blockS fuel body ⟨Block.empty :: st1.blocks, st1.out⟩ with ⟨o, s2⟩
          rw [hB] at hsim hlen
          obtain ⟨hst, hout, hk, hs, ht⟩ := hsim
          obtain ⟨flow, err, rv', st'⟩ := r
          simp only at hst hout hk hs ht hlen
          subst hst
          obtain ⟨blocks2, out2⟩ := st'
          simp only [List.length_cons] at hlen
          cases blocks2 with
          | nil => simp at hlen
          | cons b2 bs2 =>
            cases err with
            | some e =>
              simp [PRes.outcome] at hout; subst hout
              simp only [St.pop, List.tail_cons]
              exact ⟨rfl, by simp [PRes.fail], rfl, rfl, (Sim.fail _ _ _).rvok⟩
            | none =>
              cases flow with
              | terminate =>
                simp [PRes.outcome] at hout; subst hout
                have := hk rfl (by simp); subst this
                simp only [St.pop, List.tail_cons]
                exact ih.whl c body rv b2 bs2 out2
              | cont =>
                simp [PRes.outcome] at hout; subst hout
                have := hk rfl (by simp); subst this
                simp only [St.pop, List.tail_cons]
                exact ih.whl c body rv b2 bs2 out2
              | terminateWithError => exact absurd rfl (ht rfl)
              | brk =>
                simp [PRes.outcome] at hout; subst hout
                simp only [St.pop, List.tail_cons]
                exact ⟨rfl, by simp [PRes.ok], rfl, rfl, (Sim.ok _ _).rvok⟩
              | exit =>
                simp [PRes.outcome] at hout; subst hout
                simp only [St.pop, List.tail_cons]
                refine ⟨?_, ?_, ?_, ?_, ⟨?_, ?_, ?_⟩⟩ <;> simp [PRes.outcome]
              | ret =>
                cases rv' with
                | none => exact absurd rfl (hs rfl rfl)
                | some w =>
                  simp [PRes.outcome] at hout; subst hout
                  simp only [St.pop, List.tail_cons]
                  refine ⟨?_, ?_, ?_, ?_, ⟨?_, ?_, ?_⟩⟩ <;> simp [PRes.outcome]

    · -- foreach
      intro x d vals body rv b bs out
      cases d with
      | true =>
        cases vals with
        | nil =>
          simp only [foreachI, foreachS, St.clearCurrent, if_true, declareVar, aget_empty_vars]
          exact ⟨rfl, by simp [PRes.ok], rfl, rfl, (Sim.ok _ _).rvok⟩
        | cons v rest =>
          have hset : setVar x v ({ Block.empty with vars := (x, SVal.null) :: Block.empty.vars } :: bs) =
              some (⟨[(x, v)], []⟩ :: bs) := by
            simp [setVar, aget, aset, Block.empty]
          simp only [foreachI, foreachS, St.clearCurrent, if_true, declareVar, aget_empty_vars, hset, inBlockWith]
          have hsim := ih.block body none ⟨⟨[(x, v)], []⟩ :: bs, out⟩
          have hlen := il.block body ⟨⟨[(x, v)], []⟩ :: bs, out⟩
          simp only [] at hsim hlen
          generalize executeI fuel body none ⟨⟨[(x, v)], []⟩ :: bs, out⟩ = r at hsim
          rcases hB : blockS fuel body ⟨⟨[(x, v)], []⟩ :: bs, out⟩ with ⟨o, s2⟩
          rw [hB] at hsim hlen
          obtain ⟨hst, hout, hk, hs, ht⟩ := hsim
          obtain ⟨flow, err, rv', st'⟩ := r
          simp only at hst hout hk hs ht hlen
          subst hst
          obtain ⟨blocks2, out2⟩ := st'
          simp only [List.length_cons] at hlen
          cases blocks2 with
          | nil => simp at hlen
          | cons b2 bs2 =>
            cases err with
            | some e =>
              simp [PRes.outcome] at hout; subst hout
              simp only [St.pop, List.tail_cons]
              exact ⟨rfl, by simp [PRes.fail], rfl, rfl, (Sim.fail _ _ _).rvok⟩
            | none =>
              cases flow with
              | terminate =>
                simp [PRes.outcome] at hout; subst hout
                have := hk rfl (by simp); subst this
                simp only [St.pop, List.tail_cons]
                exact ih.fe x true rest body rv b2 bs2 out2
              | cont =>
                simp [PRes.outcome] at hout; subst hout
                have := hk rfl (by simp); subst this
                simp only [St.pop, List.tail_cons]
                exact ih.fe x true rest body rv b2 bs2 out2
              | terminateWithError => exact absurd rfl (ht rfl)
              | brk =>
                simp [PRes.outcome] at hout; subst hout
                simp only [St.pop, List.tail_cons]
                exact ⟨rfl, by simp [PRes.ok], rfl, rfl, (Sim.ok _ _).rvok⟩
              | exit =>
                simp [PRes.outcome] at hout; subst hout
                simp only [St.pop, List.tail_cons]
                refine ⟨?_, ?_, ?_, ?_, ⟨?_, ?_, ?_⟩⟩ <;> simp [PRes.outcome]
              | ret =>
                cases rv' with
                | none => exact absurd rfl (hs rfl rfl)
                | some w =>
                  simp [PRes.outcome] at hout; subst hout
                  simp only [St.pop, List.tail_cons]
                  refine ⟨?_, ?_, ?_, ?_, ⟨?_, ?_, ?_⟩⟩ <;> simp [PRes.outcome]
      | false =>
        cases vals with
        | nil =>
          simp only [foreachI, foreachS, St.clearCurrent, Bool.false_eq_true, if_false]
          exact ⟨rfl, by simp [PRes.ok], rfl, rfl, (Sim.ok _ _).rvok⟩
        | cons v rest =>
          have hset : setVar x v (Block.empty :: bs) = (setVar x v bs).map (Block.empty :: ·) := by
            cases h : setVar x v bs <;> simp [setVar, h]
          simp only [foreachI, foreachS, St.clearCurrent, Bool.false_eq_true, if_false, hset]
          cases hs : setVar x v bs with
          | none =>
            simp only [Option.map]
            exact ⟨rfl, by simp [PRes.fail], rfl, rfl, (Sim.fail _ _ _).rvok⟩
          | some bs1 =>
            simp only [Option.map, inBlock, St.push]
            have hsim := ih.block body none ⟨Block.empty :: bs1, out⟩
            have hlen := il.block body ⟨Block.empty :: bs1, out⟩
            simp only [] at hsim hlen
            generalize executeI fuel body none ⟨Block.empty :: bs1, out⟩ = r at hsim
            rcases hB : blockS fuel body ⟨Block.empty :: bs1, out⟩ with ⟨o, s2⟩
            rw [hB] at hsim hlen
            obtain ⟨hst, hout, hk, hs, ht⟩ := hsim
            obtain ⟨flow, err, rv', st'⟩ := r
            simp only at hst hout hk hs ht hlen
            subst hst
            obtain ⟨blocks2, out2⟩ := st'
            simp only [List.length_cons] at hlen
            cases blocks2 with
            | nil => simp at hlen
            | cons b2 bs2 =>
              cases err with
              | some e =>
                simp [PRes.outcome] at hout; subst hout
                simp only [St.pop, List.tail_cons]
                exact ⟨rfl, by simp [PRes.fail], rfl, rfl, (Sim.fail _ _ _).rvok⟩
              | none =>
                cases flow with
                | terminate =>
                  simp [PRes.outcome] at hout; subst hout
                  have := hk rfl (by simp); subst this
                  simp only [St.pop, List.tail_cons]
                  exact ih.fe x false rest body rv b2 bs2 out2
                | cont =>
                  simp [PRes.outcome] at hout; subst hout
                  have := hk rfl (by simp); subst this
                  simp only [St.pop, List.tail_cons]
                  exact ih.fe x false rest body rv b2 bs2 out2
                | terminateWithError => exact absurd rfl (ht rfl)
                | brk =>
                  simp [PRes.outcome] at hout; subst hout
                  simp only [St.pop, List.tail_cons]
                  exact ⟨rfl, by simp [PRes.ok], rfl, rfl, (Sim.ok _ _).rvok⟩
                | exit =>
                  simp [PRes.outcome] at hout; subst hout
                  simp only [St.pop, List.tail_cons]
                  refine ⟨?_, ?_, ?_, ?_, ⟨?_, ?_, ?_⟩⟩ <;> simp [PRes.outcome]
                | ret =>
                  cases rv' with
                  | none => exact absurd rfl (hs rfl rfl)
                  | some w =>
                    simp [PRes.outcome] at hout; subst hout
                    simp only [St.pop, List.tail_cons]
                    refine ⟨?_, ?_, ?_, ?_, ⟨?_, ?_, ?_⟩⟩ <;> simp [PRes.outcome]

/-! ## `leInv`: no block of the stack gains a name except the current one -/

/-- every name of `b'` is a name of `b` (variables and functions) -/
def BlockLE (b' b : Block) : Prop :=
  (∀ x, (aget x b'.vars).isSome → (aget x b.vars).isSome) ∧
  (∀ f, (aget f b'.funs).isSome → (aget f b.funs).isSome)

/-- block by block, the first stack declares no name the second does not declare -/
def StackLE : List Block → List Block → Prop
  | [], [] => True
  | b' :: r', b :: r => BlockLE b' b ∧ StackLE r' r
  | _, _ => False

theorem BlockLE.refl (b : Block) : BlockLE b b := ⟨fun _ h => h, fun _ h => h⟩
theorem BlockLE.trans {a b c : Block} (h1 : BlockLE a b) (h2 : BlockLE b c) : BlockLE a c :=
  ⟨fun x h => h2.1 x (h1.1 x h), fun x h => h2.2 x (h1.2 x h)⟩

theorem StackLE.refl : ∀ l : List Block, StackLE l l
  | [] => trivial
  | b :: r => ⟨BlockLE.refl b, StackLE.refl r⟩

theorem StackLE.trans : ∀ {a b c : List Block}, StackLE a b → StackLE b c → StackLE a c
  | [], [], [], _, _ => trivial
  | _ :: _, _ :: _, _ :: _, h1, h2 => ⟨h1.1.trans h2.1, StackLE.trans h1.2 h2.2⟩
  | [], [], _ :: _, _, h2 => h2.elim
  | [], _ :: _, _, h1, _ => h1.elim
  | _ :: _, [], _, h1, _ => h1.elim
  | _ :: _, _ :: _, [], _, h2 => h2.elim

theorem StackLE.tail : ∀ {a b : List Block}, StackLE a b → StackLE a.tail b.tail
  | [], [], _ => trivial
  | _ :: _, _ :: _, h => h.2
  | [], _ :: _, h => h.elim
  | _ :: _, [], h => h.elim

theorem StackLE.length : ∀ {a b : List Block}, StackLE a b → a.length = b.length
  | [], [], _ => rfl
  | _ :: _, _ :: _, h => by simp [StackLE.length h.2]
  | [], _ :: _, h => h.elim
  | _ :: _, [], h => h.elim

theorem StackLE.getVar {x : Nat} : ∀ {a b : List Block}, StackLE a b → (getVar x a).isSome → (getVar x b).isSome
  | [], [], _, h => by simp [Scope.getVar] at h
  | [], _ :: _, h, _ => h.elim
  | _ :: _, [], h, _ => h.elim
  | b' :: r', b :: r, h, hv => by
    simp only [Scope.getVar] at hv ⊢
    cases hb' : aget x b'.vars with
    | some v =>
      have := h.1.1 x (by simp [hb'])
      cases hb : aget x b.vars with
      | some w => simp
      | none => simp [hb] at this
    | none =>
      rw [hb'] at hv
      cases hb : aget x b.vars with
      | some w => simp
      | none => exact StackLE.getVar h.2 hv

theorem StackLE.getFn {x : Nat} : ∀ {a b : List Block}, StackLE a b → (getFn x a).isSome → (getFn x b).isSome
  | [], [], _, h => by simp [Scope.getFn] at h
  | [], _ :: _, h, _ => h.elim
  | _ :: _, [], h, _ => h.elim
  | b' :: r', b :: r, h, hv => by
    simp only [Scope.getFn] at hv ⊢
    cases hb' : aget x b'.funs with
    | some v =>
      have := h.1.2 x (by simp [hb'])
      cases hb : aget x b.funs with
      | some w => simp
      | none => simp [hb] at this
    | none =>
      rw [hb'] at hv
      cases hb : aget x b.funs with
      | some w => simp
      | none => exact StackLE.getFn h.2 hv

theorem setVar_le {x v} : ∀ {bs bs'}, setVar x v bs = some bs' → StackLE bs' bs := by
  intro bs
  induction bs with
  | nil => intro bs' h; simp [setVar] at h
  | cons b rest ih =>
    intro bs' h
    simp only [setVar] at h
    split at h
    · cases h
      exact ⟨⟨fun y hy => by rw [aget_aset_isSome] at hy; exact hy, fun _ hy => hy⟩, StackLE.refl _⟩
    · split at h
      · rename_i r hr
        cases h
        exact ⟨BlockLE.refl _, ih hr⟩
      · cases h

theorem disposeVar_le {x} : ∀ {bs bs'}, disposeVar x bs = some bs' → StackLE bs' bs := by
  intro bs
  induction bs with
  | nil => intro bs' h; simp [disposeVar] at h
  | cons b rest ih =>
    intro bs' h
    simp only [disposeVar] at h
    split at h
    · cases h
      exact ⟨⟨fun y hy => aget_adel_some x y _ hy, fun _ hy => hy⟩, StackLE.refl _⟩
    · split at h
      · rename_i r hr
        cases h
        exact ⟨BlockLE.refl _, ih hr⟩
      · cases h

theorem disposeFn_le {x} : ∀ {bs bs'}, disposeFn x bs = some bs' → StackLE bs' bs := by
  intro bs
  induction bs with
  | nil => intro bs' h; simp [disposeFn] at h
  | cons b rest ih =>
    intro bs' h
    simp only [disposeFn] at h
    split at h
    · cases h
      exact ⟨⟨fun _ hy => hy, fun y hy => aget_adel_some x y _ hy⟩, StackLE.refl _⟩
    · split at h
      · rename_i r hr
        cases h
        exact ⟨BlockLE.refl _, ih hr⟩
      · cases h

theorem declareVar_tail {x v} : ∀ {bs bs'}, declareVar x v bs = some bs' → bs'.tail = bs.tail := by
  intro bs bs' h
  cases bs with
  | nil => simp [declareVar] at h
  | cons b rest =>
    simp only [declareVar] at h
    split at h
    · cases h
    · cases h; rfl

theorem declareFn_tail {f d} : ∀ {bs bs'}, declareFn f d bs = .ok bs' → bs'.tail = bs.tail := by
  intro bs bs' h
  cases bs with
  | nil => simp [declareFn] at h
  | cons b rest =>
    simp only [declareFn] at h
    split at h
    · cases h
    · split at h
      · cases h
      · cases h; rfl

theorem cursorDo_le (op : CurOp) (c x : Nat) (bs : List Block) : StackLE (cursorDo op c x bs).2 bs := by
  unfold cursorDo
  cases getVar c bs with
  | none => exact StackLE.refl _
  | some s =>
    simp only []
    cases curStep op s with
    | error e => exact StackLE.refl _
    | ok r =>
      obtain ⟨s', ov⟩ := r
      simp only []
      cases h1 : setVar c s' bs with
      | none => exact StackLE.refl _
      | some bs1 =>
        simp only []
        cases ov with
        | none => exact setVar_le h1
        | some v =>
          simp only []
          cases h2 : setVar x v bs1 with
          | none => exact setVar_le h1
          | some bs2 => exact (setVar_le h2).trans (setVar_le h1)

structure LeInv (fuel : Nat) : Prop where
  eval : ∀ e st, StackLE (evalS fuel e st).2.blocks st.blocks
  args : ∀ es st, StackLE (evalArgsS fuel es st).2.blocks st.blocks
  call : ∀ d as st, StackLE (callS fuel d as st).2.blocks st.blocks
  callAgg : ∀ d c s0 as st, StackLE (callAggS fuel d c s0 as st).2.blocks st.blocks
  bind : ∀ ps as st, StackLE (bindParamsS fuel ps as st).2.blocks.tail st.blocks.tail
  stmt : ∀ s st, StackLE (stmtS fuel s st).2.blocks.tail st.blocks.tail
  block : ∀ ss st, StackLE (blockS fuel ss st).2.blocks.tail st.blocks.tail
  ifs : ∀ br els st, StackLE (ifS fuel br els st).2.blocks st.blocks
  cs : ∀ v br els st, StackLE (caseS fuel v br els st).2.blocks st.blocks
  whl : ∀ c body st, StackLE (whileS fuel c body st).2.blocks st.blocks
  fe : ∀ x d vals body st, StackLE (foreachS fuel x d vals body st).2.blocks st.blocks

theorem inBlockWith_le {α} (b : Block) (f : St → α × St) (st : St)
    (h : StackLE (f { st with blocks := b :: st.blocks }).2.blocks.tail st.blocks) :
    StackLE (inBlockWith b f st).2.blocks st.blocks := by
  unfold inBlockWith
  simpa [St.pop] using h

theorem inBlock_le {α} (f : St → α × St) (st : St)
    (h : StackLE (f st.push).2.blocks.tail st.push.blocks.tail) :
    StackLE (inBlock f st).2.blocks st.blocks := by
  unfold inBlock
  simpa [St.pop, St.push] using h

theorem leInv : ∀ fuel, LeInv fuel
  | 0 => by
    constructor <;> intros <;>
      simp only [evalS, evalArgsS, callS, callAggS, bindParamsS, stmtS, blockS, ifS, caseS, whileS, foreachS] <;> exact StackLE.refl _
  | fuel + 1 => by
    have ih := leInv fuel
    constructor
    · -- eval
      intro e st
      cases e with
      | lit v => simp only [evalS]; exact StackLE.refl _
      | var x => simp only [evalS]; split <;> exact StackLE.refl _
      | bin op a b =>
        simp only [evalS]
        have h1 := ih.eval a st
        generalize evalS fuel a st = r at h1 ⊢
        rcases r with ⟨_ | va, st1⟩
        · exact h1
        · cases va with
          | null => exact h1
          | int i =>
            simp only []
            have h2 := ih.eval b st1
            generalize evalS fuel b st1 = r at h2 ⊢
            rcases r with ⟨_ | vb, st2⟩ <;> exact h2.trans h1
          | tern t =>
            simp only []
            have h2 := ih.eval b st1
            generalize evalS fuel b st1 = r at h2 ⊢
            rcases r with ⟨_ | vb, st2⟩ <;> exact h2.trans h1
      | call f args =>
        simp only [evalS]
        cases getFn f st.blocks with
        | none => exact StackLE.refl _
        | some d =>
          simp only []
          cases d.agg with
          | none =>
            simp only []
            split
            · have h1 := ih.args args st
              generalize evalArgsS fuel args st = r at h1 ⊢
              rcases r with ⟨_ | vs, st1⟩
              · exact h1
              · exact (ih.call d vs st1).trans h1
            · exact StackLE.refl _
          | some c =>
            simp only []
            cases args with
            | nil => exact StackLE.refl _
            | cons a rest =>
              simp only []
              split
              · have h1 := ih.args rest st
                generalize evalArgsS fuel rest st = r at h1 ⊢
                rcases r with ⟨_ | vs, st1⟩
                · exact h1
                · exact (ih.callAgg d c emptyPseudo vs st1).trans h1
              · exact StackLE.refl _
      | acall f s0 args =>
        simp only [evalS]
        cases getFn f st.blocks with
        | none => simp only []; split <;> exact StackLE.refl _
        | some d =>
          simp only []
          cases d.agg with
          | none => exact StackLE.refl _
          | some c =>
            simp only []
            split
            · have h1 := ih.args args st
              generalize evalArgsS fuel args st = r at h1 ⊢
              rcases r with ⟨_ | vs, st1⟩
              · exact h1
              · exact (ih.callAgg d c s0 vs st1).trans h1
            · exact StackLE.refl _
    · -- args
      intro es st
      cases es with
      | nil => simp only [evalArgsS]; exact StackLE.refl _
      | cons e es =>
        simp only [evalArgsS]
        have h1 := ih.eval e st
        generalize evalS fuel e st = r at h1 ⊢
        rcases r with ⟨_ | v, st1⟩
        · exact h1
        · simp only []
          have h2 := ih.args es st1
          generalize evalArgsS fuel es st1 = r at h2 ⊢
          rcases r with ⟨_ | vs, st2⟩ <;> exact h2.trans h1
    · -- call
      intro d as st
      simp only [callS]
      apply inBlock_le
      split
      · have h1 := ih.bind d.params as st.push
        generalize bindParamsS fuel d.params as st.push = r at h1 ⊢
        rcases r with ⟨_ | e, s1⟩
        · simp only []
          have h2 := ih.block d.body s1
          generalize blockS fuel d.body s1 = r at h2 ⊢
          rcases r with ⟨o, s2⟩
          cases o <;> exact h2.trans h1
        · exact h1
      · exact StackLE.refl _
    · -- callAgg
      intro d c s0 as st
      simp only [callAggS]
      apply inBlockWith_le
      split
      · have h1 := ih.bind d.params as { st with blocks := ⟨[(c, .int s0)], []⟩ :: st.blocks }
        generalize bindParamsS fuel d.params as { st with blocks := ⟨[(c, .int s0)], []⟩ :: st.blocks } = r at h1 ⊢
        rcases r with ⟨_ | e, s1⟩
        · simp only []
          have h2 := ih.block d.body s1
          generalize blockS fuel d.body s1 = r at h2 ⊢
          rcases r with ⟨o, s2⟩
          cases o <;> exact h2.trans h1
        · exact h1
      · exact StackLE.refl _
    · -- bind
      intro ps as st
      cases ps with
      | nil => simp only [bindParamsS]; exact StackLE.refl _
      | cons p ps =>
        cases as with
        | cons a as =>
          simp only [bindParamsS]
          cases hd : declareVar p.name a st.blocks with
          | none => exact StackLE.refl _
          | some bs =>
            simp only []
            have h2 := ih.bind ps as { st with blocks := bs }
            simp only [declareVar_tail hd] at h2
            exact h2
        | nil =>
          obtain ⟨pn, pd⟩ := p
          cases pd with
          | none =>
            simp only [bindParamsS]
            cases hd : declareVar pn (.tern .T) st.blocks with
            | none => exact StackLE.refl _
            | some bs =>
              simp only []
              have h2 := ih.bind ps [] { st with blocks := bs }
              simp only [declareVar_tail hd] at h2
              exact h2
          | some e =>
            simp only [bindParamsS]
            have h1 := (ih.eval e st).tail
            generalize evalS fuel e st = r at h1 ⊢
            rcases r with ⟨_ | v, st1⟩
            · exact h1
            · simp only []
              cases hd : declareVar pn v st1.blocks with
              | none => exact h1
              | some bs =>
                simp only []
                have h2 := ih.bind ps [] { st1 with blocks := bs }
                simp only [declareVar_tail hd] at h2
                exact h2.trans h1
    · -- stmt
      intro s st
      cases s with
      | decl x e =>
        simp only [stmtS]
        have h1 := (ih.eval e st).tail
        generalize evalS fuel e st = r at h1 ⊢
        rcases r with ⟨_ | v, st1⟩
        · exact h1
        · simp only []
          cases hd : declareVar x v st1.blocks with
          | none => exact h1
          | some bs => simp only [declareVar_tail hd]; exact h1
      | assign x e =>
        simp only [stmtS]
        have h1 := (ih.eval e st).tail
        generalize evalS fuel e st = r at h1 ⊢
        rcases r with ⟨_ | v, st1⟩
        · exact h1
        · simp only []
          cases hd : setVar x v st1.blocks with
          | none => exact h1
          | some bs => exact (setVar_le hd).tail.trans h1
      | dispose x =>
        simp only [stmtS]
        cases hd : disposeVar x st.blocks with
        | none => exact StackLE.refl _
        | some bs => exact (disposeVar_le hd).tail
      | print e =>
        simp only [stmtS]
        have h1 := (ih.eval e st).tail
        generalize evalS fuel e st = r at h1 ⊢
        rcases r with ⟨_ | v, st1⟩ <;> exact h1
      | ifs br els => simp only [stmtS]; exact (ih.ifs br els st).tail
      | caseOf e br els =>
        simp only [stmtS]
        have h1 := (ih.eval e st).tail
        generalize evalS fuel e st = r at h1 ⊢
        rcases r with ⟨_ | v, st1⟩
        · exact h1
        · exact (ih.cs v br els st1).tail.trans h1
      | raise forced => simp only [stmtS]; exact StackLE.refl _
      | «while» c body => simp only [stmtS]; exact (ih.whl c body st).tail
      | foreach x d vals body => simp only [stmtS]; exact (ih.fe x d vals body st).tail
      | inline ss => simp only [stmtS]; exact ih.block ss st
      | cursor op c x =>
        simp only [stmtS]
        have h := (cursorDo_le op c x st.blocks).tail
        generalize cursorDo op c x st.blocks = r at h ⊢
        rcases r with ⟨_ | e, bs⟩ <;> exact h
      | declT x =>
        simp only [stmtS]
        cases getVar x st.blocks with
        | some _ => exact StackLE.refl _
        | none =>
          simp only []
          cases hd : declareVar x (.int 0) st.blocks with
          | none => exact StackLE.refl _
          | some bs => simp only [declareVar_tail hd]; exact StackLE.refl _
      | brk => simp only [stmtS]; exact StackLE.refl _
      | cont => simp only [stmtS]; exact StackLE.refl _
      | exit => simp only [stmtS]; exact StackLE.refl _
      | ret e =>
        simp only [stmtS]
        have h1 := (ih.eval e st).tail
        generalize evalS fuel e st = r at h1 ⊢
        rcases r with ⟨_ | v, st1⟩ <;> exact h1
      | declFn f ps body =>
        simp only [stmtS]
        cases hd : declareFn f ⟨ps, body, none⟩ st.blocks with
        | error e => exact StackLE.refl _
        | ok bs => simp only [declareFn_tail hd]; exact StackLE.refl _
      | declAgg f c ps body =>
        simp only [stmtS]
        cases hd : declareFn f ⟨ps, body, some c⟩ st.blocks with
        | error e => exact StackLE.refl _
        | ok bs => simp only [declareFn_tail hd]; exact StackLE.refl _
      | disposeFn f =>
        simp only [stmtS]
        cases hd : disposeFn f st.blocks with
        | none => exact StackLE.refl _
        | some bs => exact (disposeFn_le hd).tail
    · -- block
      intro ss st
      cases ss with
      | nil => simp only [blockS]; exact StackLE.refl _
      | cons s rest =>
        simp only [blockS]
        have h1 := ih.stmt s st
        generalize stmtS fuel s st = r at h1 ⊢
        rcases r with ⟨o, st1⟩
        cases o <;> first | exact h1 | exact (ih.block rest st1).trans h1
    · -- ifs
      intro br els st
      cases br with
      | nil =>
        simp only [ifS]
        cases els with
        | nil => exact StackLE.refl _
        | cons s ss => exact inBlock_le _ _ (ih.block _ _)
      | cons cb more =>
        obtain ⟨c, body⟩ := cb
        simp only [ifS]
        have h1 := ih.eval c st
        generalize evalS fuel c st = r at h1 ⊢
        rcases r with ⟨_ | v, st1⟩
        · exact h1
        · simp only []
          cases v.ternary with
          | T => exact (inBlock_le _ _ (ih.block body st1.push)).trans h1
          | F => exact (ih.ifs more els st1).trans h1
          | U => exact (ih.ifs more els st1).trans h1
    · -- case
      intro v0 br els st
      cases br with
      | nil =>
        simp only [caseS]
        cases els with
        | nil => exact StackLE.refl _
        | cons s ss => exact inBlock_le _ _ (ih.block _ _)
      | cons cb more =>
        obtain ⟨c, body⟩ := cb
        simp only [caseS]
        have h1 := ih.eval c st
        generalize evalS fuel c st = r at h1 ⊢
        rcases r with ⟨_ | v, st1⟩
        · exact h1
        · simp only []
          cases caseHit v0 v with
          | T => exact (inBlock_le _ _ (ih.block body st1.push)).trans h1
          | F => exact (ih.cs v0 more els st1).trans h1
          | U => exact (ih.cs v0 more els st1).trans h1
    · -- while
      intro c body st
      simp only [whileS]
      have h1 := ih.eval c st
      generalize evalS fuel c st = r at h1 ⊢
      rcases r with ⟨_ | v, st1⟩
      · exact h1
      · simp only []
        cases v.ternary with
        | T =>
          simp only []
          have h2 := (inBlock_le _ _ (ih.block body st1.push)).trans h1
          generalize inBlock (blockS fuel body) st1 = r at h2 ⊢
          rcases r with ⟨o, st2⟩
          cases o <;> first | exact h2 | exact (ih.whl c body st2).trans h2
        | F => exact h1
        | U => exact h1


    · -- foreach
      intro x d vals body st
      cases vals with
      | nil => cases d <;> simp only [foreachS] <;> exact StackLE.refl _
      | cons v rest =>
        cases d with
        | true =>
          simp only [foreachS]
          have h2 := inBlockWith_le ⟨[(x, v)], []⟩ (blockS fuel body) st (ih.block body _)
          generalize inBlockWith ⟨[(x, v)], []⟩ (blockS fuel body) st = r at h2 ⊢
          rcases r with ⟨o, st2⟩
          cases o <;> first | exact h2 | exact (ih.fe x true rest body st2).trans h2
        | false =>
          simp only [foreachS]
          cases hs : setVar x v st.blocks with
          | none => exact StackLE.refl _
          | some bs =>
            simp only []
            have h2 := (inBlock_le _ _ (ih.block body (St.push { st with blocks := bs }))).trans (setVar_le hs)
            generalize inBlock (blockS fuel body) { st with blocks := bs } = r at h2 ⊢
            rcases r with ⟨o, st2⟩
            cases o <;> first | exact h2 | exact (ih.fe x false rest body st2).trans h2

/-! ## assignments and lookups -/

theorem setVar_of_getVar {x : Nat} (v : SVal) : ∀ {bs : List Block} {w : SVal}, getVar x bs = some w →
    ∃ bs', setVar x v bs = some bs'
  | [], _, h => by simp [getVar] at h
  | b :: rest, w, h => by
    simp only [getVar] at h
    simp only [setVar]
    cases hb : aget x b.vars with
    | some u => exact ⟨_, rfl⟩
    | none =>
      rw [hb] at h
      obtain ⟨r, hr⟩ := setVar_of_getVar v h
      exact ⟨b :: r, by simp [hr]⟩

theorem getVar_setVar_same {x : Nat} {v : SVal} : ∀ {bs bs' : List Block}, setVar x v bs = some bs' →
    getVar x bs' = some v
  | [], _, h => by simp [setVar] at h
  | b :: rest, bs', h => by
    simp only [setVar] at h
    cases hb : aget x b.vars with
    | some u =>
      rw [hb] at h
      cases h
      simp [getVar, aget_aset_same x v b.vars (by simp [hb])]
    | none =>
      rw [hb] at h
      cases hr : setVar x v rest with
      | none => simp [hr] at h
      | some r =>
        simp [hr] at h
        subst h
        simp [getVar, hb, getVar_setVar_same hr]

theorem aget_aset_other {α} {x y : Nat} (v : α) (h : y ≠ x) : ∀ (l : List (Nat × α)), aget y (aset x v l) = aget y l
  | [] => rfl
  | (z, w) :: rest => by
    simp only [aset]
    split
    · rename_i hz
      subst hz
      simp [aget, Ne.symm h]
    · simp only [aget]
      split
      · rfl
      · exact aget_aset_other v h rest

theorem getVar_setVar_other {x y : Nat} {v : SVal} (hy : y ≠ x) : ∀ {bs bs' : List Block}, setVar x v bs = some bs' →
    getVar y bs' = getVar y bs
  | [], _, h => by simp [setVar] at h
  | b :: rest, bs', h => by
    simp only [setVar] at h
    cases hb : aget x b.vars with
    | some u =>
      rw [hb] at h
      cases h
      simp [getVar, aget_aset_other v hy]
    | none =>
      rw [hb] at h
      cases hr : setVar x v rest with
      | none => simp [hr] at h
      | some r =>
        simp [hr] at h
        subst h
        simp [getVar, getVar_setVar_other hy hr]

/-- an assignment to a name the current block declares touches only the current block -/
theorem setVar_current {x : Nat} (v : SVal) {b : Block} (rest : List Block) (h : (aget x b.vars).isSome) :
    setVar x v (b :: rest) = some ({ b with vars := aset x v b.vars } :: rest) := by
  simp only [setVar]
  cases hb : aget x b.vars with
  | some u => rfl
  | none => simp [hb] at h

/-! ## blocks nested `n` deep -/

/-- `body` inside `n` nested `IF TRUE THEN … END IF` -/
def nest : Nat → List Stmt → List Stmt
  | 0, body => body
  | n + 1, body => [.ifs [(.lit (.tern .T), nest n body)] []]

theorem nest_assign (x : Nat) (v : SVal) : ∀ (n k : Nat) (st : St) (bs' : List Block),
    setVar x v st.blocks = some bs' →
    blockS (k + 3 * n + 3) (nest n [.assign x (.lit v)]) st = (.normal, { st with blocks := bs' })
  | 0, k, st, bs', h => by
    simp [nest, blockS, stmtS, evalS, h]
  | n + 1, k, st, bs', h => by
    have hp : setVar x v st.push.blocks = some (Block.empty :: bs') := by
      simp [St.push, setVar, h]
    have ih := nest_assign x v n k st.push _ hp
    have e : k + 3 * (n + 1) + 3 = (k + 3 * n + 3) + 1 + 1 + 1 := by omega
    rw [e]
    simp only [nest, blockS, stmtS, ifS]
    have e2 : k + 3 * n + 3 = (k + 3 * n + 2) + 1 := by omega
    rw [e2] at ih ⊢
    simp only [evalS, SVal.ternary, inBlock, ih]
    simp [St.pop, St.push]


/-- WHILE turns BREAK into a normal end and CONTINUE into the next iteration: neither is ever its outcome -/
theorem whileS_catches : ∀ (fuel : Nat) (c : Expr) (body : List Stmt) (st : St),
    (whileS fuel c body st).1 ≠ .brk ∧ (whileS fuel c body st).1 ≠ .cont
  | 0, _, _, _ => by simp [whileS]
  | f + 1, c, body, st => by
    simp only [whileS]
    rcases evalS f c st with ⟨_ | v, st1⟩
    · simp
    · simp only []
      cases v.ternary with
      | F => simp
      | U => simp
      | T =>
        simp only []
        rcases inBlock (blockS f body) st1 with ⟨o, st2⟩
        cases o <;> first | exact whileS_catches f c body st2 | simp


theorem foreachS_catches : ∀ (fuel x : Nat) (d : Bool) (vals : List SVal) (body : List Stmt) (st : St),
    (foreachS fuel x d vals body st).1 ≠ .brk ∧ (foreachS fuel x d vals body st).1 ≠ .cont
  | 0, _, _, _, _, _ => by simp [foreachS]
  | f + 1, x, d, [], body, st => by cases d <;> simp [foreachS]
  | f + 1, x, true, v :: rest, body, st => by
    simp only [foreachS]
    rcases inBlockWith ⟨[(x, v)], []⟩ (blockS f body) st with ⟨o, st2⟩
    cases o <;> first | exact foreachS_catches f x true rest body st2 | simp
  | f + 1, x, false, v :: rest, body, st => by
    simp only [foreachS]
    cases setVar x v st.blocks with
    | none => simp
    | some bs =>
      simp only []
      rcases inBlock (blockS f body) { st with blocks := bs } with ⟨o, st2⟩
      cases o <;> first | exact foreachS_catches f x false rest body st2 | simp

end Csvq.Scope
