import Csvq.Model.Scope
namespace Csvq.Scope
end Csvq.Scope
