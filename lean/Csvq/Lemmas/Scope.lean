/-
  Helper lemmas for C15 (block scoping): the association-list maps, the walks over the block stack,
  and three invariants of the reference semantics proved by induction on the fuel over all eight
  mutually recursive functions:
    * `lenInv`   — the block stack has the same depth after as before (every outcome, errors included);
    * `insInv`   — an empty block anywhere in the stack is transparent;
    * `leInv`    — no block below the current one ever gains a name.
-/
import Csvq.Model.Scope
namespace Csvq.Scope
open Csvq

/-! ## association lists -/

theorem aget_aset_same {α} (x : Nat) (v : α) : ∀ (l : List (Nat × α)), aget x l ≠ none → aget x (aset x v l) = some v
  | [], h => by simp [aget] at h
  | (y, w) :: rest, h => by
    by_cases hy : y = x
    · simp [aset, aget, hy]
    · simp [aget, hy] at h
      simp [aset, aget, hy, aget_aset_same x v rest h]

theorem aget_aset_isSome {α} (x y : Nat) (v : α) : ∀ (l : List (Nat × α)), (aget y (aset x v l)).isSome = (aget y l).isSome
  | [] => by simp [aset]
  | (z, w) :: rest => by
    simp only [aset]
    split
    · simp only [aget]; split <;> simp
    · simp only [aget]; split
      · simp
      · exact aget_aset_isSome x y v rest

theorem aget_adel_some {α} (x y : Nat) : ∀ (l : List (Nat × α)), (aget y (adel x l)).isSome → (aget y l).isSome
  | [] => by simp [adel]
  | (z, w) :: rest => by
    simp only [adel]
    split
    · simp only [aget]; split
      · simp
      · exact id
    · simp only [aget]; split
      · simp
      · exact aget_adel_some x y rest

/-! ## the walks keep the depth of the stack -/

theorem setVar_length {x v} : ∀ {bs bs'}, setVar x v bs = some bs' → bs'.length = bs.length := by
  intro bs
  induction bs with
  | nil => intro bs' h; simp [setVar] at h
  | cons b rest ih =>
    intro bs' h
    simp only [setVar] at h
    split at h
    · cases h; simp
    · split at h
      · rename_i r hr
        cases h
        simp [ih hr]
      · cases h

theorem disposeVar_length {x} : ∀ {bs bs'}, disposeVar x bs = some bs' → bs'.length = bs.length := by
  intro bs
  induction bs with
  | nil => intro bs' h; simp [disposeVar] at h
  | cons b rest ih =>
    intro bs' h
    simp only [disposeVar] at h
    split at h
    · cases h; simp
    · split at h
      · rename_i r hr
        cases h
        simp [ih hr]
      · cases h

theorem disposeFn_length {x} : ∀ {bs bs'}, disposeFn x bs = some bs' → bs'.length = bs.length := by
  intro bs
  induction bs with
  | nil => intro bs' h; simp [disposeFn] at h
  | cons b rest ih =>
    intro bs' h
    simp only [disposeFn] at h
    split at h
    · cases h; simp
    · split at h
      · rename_i r hr
        cases h
        simp [ih hr]
      · cases h

theorem declareVar_length {x v} : ∀ {bs bs'}, declareVar x v bs = some bs' → bs'.length = bs.length := by
  intro bs bs' h
  cases bs with
  | nil => simp [declareVar] at h
  | cons b rest =>
    simp only [declareVar] at h
    split at h
    · cases h
    · cases h; simp

theorem declareFn_length {f d} : ∀ {bs bs'}, declareFn f d bs = .ok bs' → bs'.length = bs.length := by
  intro bs bs' h
  cases bs with
  | nil => simp [declareFn] at h
  | cons b rest =>
    simp only [declareFn] at h
    split at h
    · cases h
    · split at h
      · cases h
      · cases h; simp

/-! ## `lenInv`: the stack is balanced -/

structure LenInv (fuel : Nat) : Prop where
  eval : ∀ e st, (evalS fuel e st).2.blocks.length = st.blocks.length
  args : ∀ es st, (evalArgsS fuel es st).2.blocks.length = st.blocks.length
  call : ∀ d as st, (callS fuel d as st).2.blocks.length = st.blocks.length
  bind : ∀ ps as st, (bindParamsS fuel ps as st).2.blocks.length = st.blocks.length
  stmt : ∀ s st, (stmtS fuel s st).2.blocks.length = st.blocks.length
  block : ∀ ss st, (blockS fuel ss st).2.blocks.length = st.blocks.length
  ifs : ∀ br els st, (ifS fuel br els st).2.blocks.length = st.blocks.length
  whl : ∀ c body st, (whileS fuel c body st).2.blocks.length = st.blocks.length

theorem inBlock_length {α} (f : St → α × St) (st : St)
    (h : (f st.push).2.blocks.length = st.push.blocks.length) :
    (inBlock f st).2.blocks.length = st.blocks.length := by
  unfold inBlock
  simp only [St.pop, List.length_tail]
  rw [h]
  simp [St.push]

theorem lenInv : ∀ fuel, LenInv fuel
  | 0 => by constructor <;> intros <;> simp [evalS, evalArgsS, callS, bindParamsS, stmtS, blockS, ifS, whileS]
  | fuel + 1 => by
    have ih := lenInv fuel
    constructor
    · -- eval
      intro e st
      cases e with
      | lit v => simp [evalS]
      | var x => simp only [evalS]; split <;> rfl
      | bin op a b =>
        simp only [evalS]
        have h1 := ih.eval a st
        split
        · grind
        · split
          · grind
          · have := ih.eval b
            split <;> grind
      | call f args =>
        simp only [evalS]
        have := ih.args args st
        have := ih.call
        grind
    · -- args
      intro es st
      cases es with
      | nil => simp [evalArgsS]
      | cons e es =>
        simp only [evalArgsS]
        have := ih.eval e st
        have := ih.args es
        split
        · grind
        · split <;> grind
    · -- call
      intro d as st
      simp only [callS]
      apply inBlock_length
      split
      · have := ih.bind d.params as st.push
        have := ih.block d.body
        split
        · grind
        · split <;> grind
      · rfl
    · -- bind
      intro ps as st
      cases ps with
      | nil => simp [bindParamsS]
      | cons p ps =>
        cases as with
        | cons a as =>
          simp only [bindParamsS]
          split
          · rfl
          · rename_i bs hbs
            have := declareVar_length hbs
            have := ih.bind ps as { st with blocks := bs }
            grind
        | nil =>
          obtain ⟨pn, pd⟩ := p
          cases pd with
          | none =>
            simp only [bindParamsS]
            split
            · rfl
            · rename_i bs hbs
              have := declareVar_length hbs
              have := ih.bind ps [] { st with blocks := bs }
              grind
          | some e =>
            simp only [bindParamsS]
            have := ih.eval e st
            split
            · grind
            · split
              · grind
              · rename_i bs hbs
                have := declareVar_length hbs
                have := ih.bind ps []
                grind
    · -- stmt
      intro s st
      cases s with
      | decl x e =>
        simp only [stmtS]
        have := ih.eval e st
        split
        · grind
        · split
          · grind
          · rename_i bs hbs
            have := declareVar_length hbs
            grind
      | assign x e =>
        simp only [stmtS]
        have := ih.eval e st
        split
        · grind
        · split
          · grind
          · rename_i bs hbs
            have := setVar_length hbs
            grind
      | dispose x =>
        simp only [stmtS]
        split
        · rfl
        · rename_i bs hbs
          simp [disposeVar_length hbs]
      | print e =>
        simp only [stmtS]
        have := ih.eval e st
        split <;> grind
      | ifs br els => simp only [stmtS]; exact ih.ifs br els st
      | «while» c body => simp only [stmtS]; exact ih.whl c body st
      | brk => simp [stmtS]
      | cont => simp [stmtS]
      | exit => simp [stmtS]
      | ret e =>
        simp only [stmtS]
        have := ih.eval e st
        split <;> grind
      | declFn f ps body =>
        simp only [stmtS]
        split
        · rfl
        · rename_i bs hbs
          simp [declareFn_length hbs]
      | disposeFn f =>
        simp only [stmtS]
        split
        · rfl
        · rename_i bs hbs
          simp [disposeFn_length hbs]
    · -- block
      intro ss st
      cases ss with
      | nil => simp [blockS]
      | cons s rest =>
        simp only [blockS]
        have := ih.stmt s st
        have := ih.block rest
        split <;> grind
    · -- ifs
      intro br els st
      cases br with
      | nil =>
        simp only [ifS]
        split
        · rfl
        · exact inBlock_length _ _ (ih.block _ _)
      | cons cb more =>
        obtain ⟨c, body⟩ := cb
        simp only [ifS]
        have := ih.eval c st
        split
        · grind
        · rename_i v st1 hv
          split
          · have := inBlock_length (blockS fuel body) st1 (ih.block _ _)
            grind
          · have := ih.ifs more els st1
            grind
    · -- while
      intro c body st
      simp only [whileS]
      have := ih.eval c st
      split
      · grind
      · rename_i v st1 hv
        split
        · have h2 := inBlock_length (blockS fuel body) st1 (ih.block _ _)
          have := ih.whl c body
          split <;> grind
        · grind

/-! ## `insInv`: an empty block is transparent -/

/-- the stack with an empty block inserted below the first `n` blocks -/
def ins (n : Nat) (bs : List Block) : List Block := bs.take n ++ Block.empty :: bs.drop n
def St.ins (s : St) (n : Nat) : St := { s with blocks := Scope.ins n s.blocks }

@[simp] theorem ins_zero (bs : List Block) : ins 0 bs = Block.empty :: bs := by simp [ins]
@[simp] theorem ins_succ_cons (n : Nat) (b : Block) (bs : List Block) : ins (n + 1) (b :: bs) = b :: ins n bs := by
  simp [ins]
@[simp] theorem ins_nil (n : Nat) : ins n [] = [Block.empty] := by simp [ins]
@[simp] theorem aget_empty_vars (x : Nat) : aget x Block.empty.vars = none := rfl
@[simp] theorem aget_empty_funs (x : Nat) : aget x Block.empty.funs = none := rfl

theorem ins_ne_nil (n : Nat) (bs : List Block) : ins n bs ≠ [] := by simp [ins]

theorem ins_tail (n : Nat) : ∀ bs : List Block, bs ≠ [] → (ins (n + 1) bs).tail = ins n bs.tail
  | [], h => absurd rfl h
  | b :: bs, _ => by simp

theorem getVar_ins (x : Nat) : ∀ n bs, getVar x (ins n bs) = getVar x bs
  | 0, bs => by simp [getVar]
  | n + 1, [] => by simp [getVar]
  | n + 1, b :: bs => by simp [getVar, getVar_ins x n bs]

theorem getFn_ins (x : Nat) : ∀ n bs, getFn x (ins n bs) = getFn x bs
  | 0, bs => by simp [getFn]
  | n + 1, [] => by simp [getFn]
  | n + 1, b :: bs => by simp [getFn, getFn_ins x n bs]

theorem setVar_ins (x : Nat) (v : SVal) : ∀ n bs, setVar x v (ins n bs) = (setVar x v bs).map (ins n)
  | 0, bs => by cases h : setVar x v bs <;> simp [setVar, h]
  | n + 1, [] => by simp [setVar]
  | n + 1, b :: bs => by
    simp only [ins_succ_cons, setVar, setVar_ins x v n bs]
    cases aget x b.vars <;> simp
    cases setVar x v bs <;> simp

theorem disposeVar_ins (x : Nat) : ∀ n bs, disposeVar x (ins n bs) = (disposeVar x bs).map (ins n)
  | 0, bs => by cases h : disposeVar x bs <;> simp [disposeVar, h]
  | n + 1, [] => by simp [disposeVar]
  | n + 1, b :: bs => by
    simp only [ins_succ_cons, disposeVar, disposeVar_ins x n bs]
    cases aget x b.vars <;> simp
    cases disposeVar x bs <;> simp

theorem disposeFn_ins (x : Nat) : ∀ n bs, disposeFn x (ins n bs) = (disposeFn x bs).map (ins n)
  | 0, bs => by cases h : disposeFn x bs <;> simp [disposeFn, h]
  | n + 1, [] => by simp [disposeFn]
  | n + 1, b :: bs => by
    simp only [ins_succ_cons, disposeFn, disposeFn_ins x n bs]
    cases aget x b.funs <;> simp
    cases disposeFn x bs <;> simp

theorem declareVar_ins (x : Nat) (v : SVal) (n : Nat) : ∀ bs, bs ≠ [] →
    declareVar x v (ins (n + 1) bs) = (declareVar x v bs).map (ins (n + 1))
  | [], h => absurd rfl h
  | b :: bs, _ => by
    simp only [ins_succ_cons, declareVar]
    cases aget x b.vars <;> simp

theorem declareFn_ins (f : Nat) (d : FDecl) (n : Nat) : ∀ bs, bs ≠ [] →
    declareFn f d (ins (n + 1) bs) = (declareFn f d bs).map (ins (n + 1))
  | [], h => absurd rfl h
  | b :: bs, _ => by
    simp only [ins_succ_cons, declareFn]
    cases aget f b.funs <;> simp [Except.map]
    split <;> rfl

@[simp] theorem St.ins_blocks (s : St) (n : Nat) : (s.ins n).blocks = Scope.ins n s.blocks := rfl
@[simp] theorem St.ins_out (s : St) (n : Nat) : (s.ins n).out = s.out := rfl

theorem St.push_ins (s : St) (n : Nat) : (s.ins n).push = s.push.ins (n + 1) := by
  simp [St.push, St.ins]

theorem St.ins_pop (s : St) (n : Nat) (h : s.blocks ≠ []) : (s.ins (n + 1)).pop = s.pop.ins n := by
  simp [St.pop, St.ins, ins_tail n s.blocks h]

structure InsInv (fuel : Nat) : Prop where
  eval : ∀ n e st, evalS fuel e (st.ins n) = ((evalS fuel e st).1, (evalS fuel e st).2.ins n)
  args : ∀ n es st, evalArgsS fuel es (st.ins n) = ((evalArgsS fuel es st).1, (evalArgsS fuel es st).2.ins n)
  call : ∀ n d as st, callS fuel d as (st.ins n) = ((callS fuel d as st).1, (callS fuel d as st).2.ins n)
  bind : ∀ n ps as st, st.blocks ≠ [] →
    bindParamsS fuel ps as (st.ins (n + 1)) = ((bindParamsS fuel ps as st).1, (bindParamsS fuel ps as st).2.ins (n + 1))
  stmt : ∀ n s st, st.blocks ≠ [] →
    stmtS fuel s (st.ins (n + 1)) = ((stmtS fuel s st).1, (stmtS fuel s st).2.ins (n + 1))
  block : ∀ n ss st, st.blocks ≠ [] →
    blockS fuel ss (st.ins (n + 1)) = ((blockS fuel ss st).1, (blockS fuel ss st).2.ins (n + 1))
  ifs : ∀ n br els st, st.blocks ≠ [] →
    ifS fuel br els (st.ins (n + 1)) = ((ifS fuel br els st).1, (ifS fuel br els st).2.ins (n + 1))
  whl : ∀ n c body st, st.blocks ≠ [] →
    whileS fuel c body (st.ins (n + 1)) = ((whileS fuel c body st).1, (whileS fuel c body st).2.ins (n + 1))

theorem ne_nil_of_length_eq {α} {l l' : List α} (h : l'.length = l.length) (hl : l ≠ []) : l' ≠ [] := by
  cases l' with
  | nil => cases l with
    | nil => exact absurd rfl hl
    | cons _ _ => simp at h
  | cons _ _ => simp

/-- entering and leaving a block commutes with the insertion (one level deeper inside) -/
theorem inBlock_ins {α} (f : St → α × St) (st : St) (n : Nat)
    (hlen : (f st.push).2.blocks.length = st.push.blocks.length)
    (h : f (st.push.ins (n + 1)) = ((f st.push).1, (f st.push).2.ins (n + 1))) :
    inBlock f (st.ins n) = ((inBlock f st).1, (inBlock f st).2.ins n) := by
  unfold inBlock
  rw [St.push_ins, h]
  have hne : (f st.push).2.blocks ≠ [] := ne_nil_of_length_eq hlen (by simp [St.push])
  simp [St.ins_pop _ n hne]

theorem insInv : ∀ fuel, InsInv fuel
  | 0 => by constructor <;> intros <;> simp [evalS, evalArgsS, callS, bindParamsS, stmtS, blockS, ifS, whileS]
  | fuel + 1 => by
    have ih := insInv fuel
    have il := lenInv fuel
    constructor
    · -- eval
      intro n e st
      cases e with
      | lit v => simp [evalS]
      | var x =>
        simp only [evalS, St.ins_blocks, getVar_ins]
        split <;> rfl
      | bin op a b =>
        simp only [evalS]
        rw [ih.eval n a st]
        rcases evalS fuel a st with ⟨_ | va, st1⟩
        · rfl
        · cases va with
          | null => rfl
          | int i =>
            simp only []
            rw [ih.eval n b st1]
            rcases evalS fuel b st1 with ⟨_ | vb, st2⟩ <;> rfl
          | tern t =>
            simp only []
            rw [ih.eval n b st1]
            rcases evalS fuel b st1 with ⟨_ | vb, st2⟩ <;> rfl
      | call f args =>
        simp only [evalS, St.ins_blocks, getFn_ins]
        cases getFn f st.blocks with
        | none => rfl
        | some d =>
          simp only []
          split
          · rw [ih.args n args st]
            rcases evalArgsS fuel args st with ⟨_ | vs, st1⟩
            · rfl
            · simp only []
              rw [ih.call n d vs st1]
          · rfl
    · -- args
      intro n es st
      cases es with
      | nil => simp [evalArgsS]
      | cons e es =>
        simp only [evalArgsS]
        rw [ih.eval n e st]
        rcases evalS fuel e st with ⟨_ | v, st1⟩
        · rfl
        · simp only []
          rw [ih.args n es st1]
          rcases evalArgsS fuel es st1 with ⟨_ | vs, st2⟩ <;> rfl
    · -- call
      intro n d as st
      simp only [callS]
      apply inBlock_ins
      · split
        · have := il.bind d.params as st.push
          have := il.block d.body
          split
          · grind
          · split <;> grind
        · rfl
      · split
        · rw [ih.bind n d.params as st.push (by simp [St.push])]
          have hb := il.bind d.params as st.push
          rcases hB : bindParamsS fuel d.params as st.push with ⟨_ | e, s1⟩
          · simp only []
            rw [hB] at hb
            have hne : s1.blocks ≠ [] := ne_nil_of_length_eq hb (by simp [St.push])
            rw [ih.block n d.body s1 hne]
            rcases blockS fuel d.body s1 with ⟨o, s2⟩
            cases o <;> rfl
          · rfl
        · rfl
    · -- bind
      intro n ps as st hne
      cases ps with
      | nil => simp [bindParamsS]
      | cons p ps =>
        cases as with
        | cons a as =>
          simp only [bindParamsS, St.ins_blocks, declareVar_ins _ _ n st.blocks hne]
          cases hd : declareVar p.name a st.blocks with
          | none => rfl
          | some bs =>
            simp only [Option.map]
            have := declareVar_length hd
            exact ih.bind n ps as { st with blocks := bs } (ne_nil_of_length_eq this hne)
        | nil =>
          obtain ⟨pn, pd⟩ := p
          cases pd with
          | none =>
            simp only [bindParamsS, St.ins_blocks, declareVar_ins _ _ n st.blocks hne]
            cases hd : declareVar pn (.tern .T) st.blocks with
            | none => rfl
            | some bs =>
              simp only [Option.map]
              have := declareVar_length hd
              exact ih.bind n ps [] { st with blocks := bs } (ne_nil_of_length_eq this hne)
          | some e =>
            simp only [bindParamsS]
            rw [ih.eval (n + 1) e st]
            have hl := il.eval e st
            rcases hE : evalS fuel e st with ⟨_ | v, st1⟩
            · rfl
            · rw [hE] at hl
              have hne1 : st1.blocks ≠ [] := ne_nil_of_length_eq hl hne
              simp only [St.ins_blocks, declareVar_ins _ _ n st1.blocks hne1]
              cases hd : declareVar pn v st1.blocks with
              | none => rfl
              | some bs =>
                simp only [Option.map]
                have := declareVar_length hd
                exact ih.bind n ps [] { st1 with blocks := bs } (ne_nil_of_length_eq this hne1)
    · -- stmt
      intro n s st hne
      cases s with
      | decl x e =>
        simp only [stmtS]
        rw [ih.eval (n + 1) e st]
        have hl := il.eval e st
        rcases hE : evalS fuel e st with ⟨_ | v, st1⟩
        · rfl
        · rw [hE] at hl
          have hne1 : st1.blocks ≠ [] := ne_nil_of_length_eq hl hne
          simp only [St.ins_blocks, declareVar_ins _ _ n st1.blocks hne1]
          cases declareVar x v st1.blocks <;> rfl
      | assign x e =>
        simp only [stmtS]
        rw [ih.eval (n + 1) e st]
        rcases evalS fuel e st with ⟨_ | v, st1⟩
        · rfl
        · simp only [St.ins_blocks, setVar_ins]
          cases setVar x v st1.blocks <;> rfl
      | dispose x =>
        simp only [stmtS, St.ins_blocks, disposeVar_ins]
        cases disposeVar x st.blocks <;> rfl
      | print e =>
        simp only [stmtS]
        rw [ih.eval (n + 1) e st]
        rcases evalS fuel e st with ⟨_ | v, st1⟩ <;> rfl
      | ifs br els => simp only [stmtS]; exact ih.ifs n br els st hne
      | «while» c body => simp only [stmtS]; exact ih.whl n c body st hne
      | brk => simp [stmtS]
      | cont => simp [stmtS]
      | exit => simp [stmtS]
      | ret e =>
        simp only [stmtS]
        rw [ih.eval (n + 1) e st]
        rcases evalS fuel e st with ⟨_ | v, st1⟩ <;> rfl
      | declFn f ps body =>
        simp only [stmtS, St.ins_blocks, declareFn_ins _ _ n st.blocks hne]
        cases declareFn f ⟨ps, body⟩ st.blocks <;> rfl
      | disposeFn f =>
        simp only [stmtS, St.ins_blocks, disposeFn_ins]
        cases disposeFn f st.blocks <;> rfl
    · -- block
      intro n ss st hne
      cases ss with
      | nil => simp [blockS]
      | cons s rest =>
        simp only [blockS]
        rw [ih.stmt n s st hne]
        have hl := il.stmt s st
        rcases hS : stmtS fuel s st with ⟨o, st1⟩
        rw [hS] at hl
        have hne1 : st1.blocks ≠ [] := ne_nil_of_length_eq hl hne
        cases o <;> first | rfl | exact ih.block n rest st1 hne1
    · -- ifs
      intro n br els st hne
      cases br with
      | nil =>
        simp only [ifS]
        cases els with
        | nil => rfl
        | cons s ss =>
          simp only []
          exact inBlock_ins _ st (n + 1) (il.block _ _) (ih.block (n + 1) _ st.push (by simp [St.push]))
      | cons cb more =>
        obtain ⟨c, body⟩ := cb
        simp only [ifS]
        rw [ih.eval (n + 1) c st]
        have hl := il.eval c st
        rcases hE : evalS fuel c st with ⟨_ | v, st1⟩
        · rfl
        · rw [hE] at hl
          have hne1 : st1.blocks ≠ [] := ne_nil_of_length_eq hl hne
          simp only []
          cases v.ternary with
          | T => exact inBlock_ins _ st1 (n + 1) (il.block _ _) (ih.block (n + 1) _ st1.push (by simp [St.push]))
          | F => exact ih.ifs n more els st1 hne1
          | U => exact ih.ifs n more els st1 hne1
    · -- while
      intro n c body st hne
      simp only [whileS]
      rw [ih.eval (n + 1) c st]
      have hl := il.eval c st
      rcases hE : evalS fuel c st with ⟨_ | v, st1⟩
      · rfl
      · rw [hE] at hl
        have hne1 : st1.blocks ≠ [] := ne_nil_of_length_eq hl hne
        simp only []
        cases v.ternary with
        | T =>
          simp only []
          rw [inBlock_ins _ st1 (n + 1) (il.block _ _) (ih.block (n + 1) _ st1.push (by simp [St.push]))]
          have hl2 := inBlock_length (blockS fuel body) st1 (il.block _ _)
          rcases hB : inBlock (blockS fuel body) st1 with ⟨o, st2⟩
          rw [hB] at hl2
          have hne2 : st2.blocks ≠ [] := ne_nil_of_length_eq hl2 hne1
          cases o <;> first | rfl | exact ih.whl n c body st2 hne2
        | F => rfl
        | U => rfl

/-! ## `refInv`: the implementation-shaped interpreter refines the reference semantics -/

/-- what the caller of a Processor method relies on about the processor's `returnVal` -/
structure RvOk (rv : Option SVal) (r : PRes) : Prop where
  keep : r.err = none → r.flow ≠ .ret → r.rv = rv
  set : r.err = none → r.flow = .ret → r.rv ≠ none
  twe : r.err = none → r.flow ≠ .terminateWithError

/-- a result of the implementation-shaped interpreter agrees with a result of the reference semantics -/
structure Sim (rv : Option SVal) (r : PRes) (p : Outcome × St) : Prop where
  st : r.st = p.2
  out : r.outcome = p.1
  rvok : RvOk rv r

theorem Sim.fail (e : Err) (rv : Option SVal) (st : St) : Sim rv (PRes.fail e rv st) (.err e, st) :=
  ⟨rfl, rfl, ⟨by simp [PRes.fail], by simp [PRes.fail], by simp [PRes.fail]⟩⟩

theorem Sim.ok (rv : Option SVal) (st : St) : Sim rv (PRes.ok rv st) (.normal, st) :=
  ⟨rfl, rfl, ⟨by simp [PRes.ok], by simp [PRes.ok], by simp [PRes.ok]⟩⟩

/-- executeChild: the child's block is dropped, its returnVal copied when set -/
theorem Sim.child {rv : Option SVal} {r : PRes} {p : Outcome × St} (h : Sim none r p) :
    Sim rv { r with rv := (match r.rv with | some v => some v | none => rv), st := r.st.pop } (p.1, p.2.pop) := by
  obtain ⟨hst, hout, hk, hs, ht⟩ := h
  obtain ⟨flow, err, rv', st'⟩ := r
  simp only at hst hout hk hs ht
  subst hst
  refine ⟨rfl, ?_, ⟨?_, ?_, ?_⟩⟩
  · rw [← hout]
    cases err with
    | some e => rfl
    | none =>
      cases flow <;> try rfl
      have := hs rfl rfl
      cases rv' with
      | none => exact absurd rfl this
      | some v => rfl
  · intro he hf
    simp only at he hf ⊢
    rw [hk he hf]
  · intro he hf
    simp only at he hf ⊢
    have := hs he hf
    cases rv' with
    | none => exact absurd rfl this
    | some v => simp
  · intro he
    exact ht he

structure RefInv (fuel : Nat) : Prop where
  eval : ∀ e st, evalI fuel e st = evalS fuel e st
  args : ∀ es st, evalArgsI fuel es st = evalArgsS fuel es st
  call : ∀ d as st, callI fuel d as st = callS fuel d as st
  bind : ∀ ps as st, bindParamsI fuel ps as st = bindParamsS fuel ps as st
  stmt : ∀ s rv st, Sim rv (stmtI fuel s rv st) (stmtS fuel s st)
  block : ∀ ss rv st, Sim rv (executeI fuel ss rv st) (blockS fuel ss st)
  ifs : ∀ br els rv st, Sim rv (ifI fuel br els rv st) (ifS fuel br els st)
  whl : ∀ c body rv b bs out,
    let r := whileI fuel c body rv none ⟨b :: bs, out⟩
    let p := whileS fuel c body ⟨bs, out⟩
    r.st.blocks.tail = p.2.blocks ∧ r.st.blocks ≠ [] ∧ r.st.out = p.2.out ∧ r.outcome = p.1 ∧ RvOk rv r

theorem refInv : ∀ fuel, RefInv fuel
  | 0 => by
    constructor
    · intros; simp [evalI, evalS]
    · intros; simp [evalArgsI, evalArgsS]
    · intros; simp [callI, callS]
    · intros; simp [bindParamsI, bindParamsS]
    · intros; simp only [stmtI, stmtS]; exact Sim.fail _ _ _
    · intros; simp only [executeI, blockS]; exact Sim.fail _ _ _
    · intros; simp only [ifI, ifS]; exact Sim.fail _ _ _
    · intro c body rv b bs out
      simp only [whileI, whileS]
      refine ⟨rfl, by simp [PRes.fail], rfl, rfl, (Sim.fail _ _ _).rvok⟩
  | fuel + 1 => by
    have ih := refInv fuel
    have il := lenInv fuel
    have ii := insInv fuel
    constructor
    · -- eval
      intro e st
      cases e with
      | lit v => simp [evalI, evalS]
      | var x => simp [evalI, evalS]
      | bin op a b => simp only [evalI, evalS, ih.eval]
      | call f args => simp only [evalI, evalS, ih.args, ih.call]
    · -- args
      intro es st
      cases es with
      | nil => simp [evalArgsI, evalArgsS]
      | cons e es => simp only [evalArgsI, evalArgsS, ih.eval, ih.args]
    · -- call
      intro d as st
      simp only [callI, callS, inBlock]
      split
      · rw [ih.bind]
        rcases bindParamsS fuel d.params as st.push with ⟨_ | e, s1⟩
        · simp only []
          have hsim := ih.block d.body none s1
          rcases hB : blockS fuel d.body s1 with ⟨o, s2⟩
          rw [hB] at hsim
          generalize executeI fuel d.body none s1 = p at hsim
          obtain ⟨hst, hout, hk, hs, ht⟩ := hsim
          obtain ⟨flow, err, rv', st'⟩ := p
          simp only at hst hout hk hs ht
          subst hst
          cases err with
          | some e => simp [PRes.outcome] at hout; subst hout; rfl
          | none =>
            cases flow with
            | ret =>
              have := hs rfl rfl
              cases rv' with
              | none => exact absurd rfl this
              | some v => simp [PRes.outcome] at hout; subst hout; rfl
            | terminateWithError => exact absurd rfl (ht rfl)
            | _ =>
              have := hk rfl (by simp)
              subst this
              simp [PRes.outcome] at hout
              subst hout
              rfl
        · rfl
      · rfl
    · -- bind
      intro ps as st
      cases ps with
      | nil => simp [bindParamsI, bindParamsS]
      | cons p ps =>
        cases as with
        | cons a as => simp only [bindParamsI, bindParamsS, ih.bind]
        | nil => simp only [bindParamsI, bindParamsS, ih.eval, ih.bind]
    · -- stmt
      intro s rv st
      cases s with
      | decl x e =>
        simp only [stmtI, stmtS, ih.eval]
        rcases evalS fuel e st with ⟨_ | v, st1⟩
        · exact Sim.fail _ _ _
        · simp only []
          cases declareVar x v st1.blocks with
          | none => exact Sim.fail _ _ _
          | some bs => exact Sim.ok _ _
      | assign x e =>
        simp only [stmtI, stmtS, ih.eval]
        rcases evalS fuel e st with ⟨_ | v, st1⟩
        · exact Sim.fail _ _ _
        · simp only []
          cases setVar x v st1.blocks with
          | none => exact Sim.fail _ _ _
          | some bs => exact Sim.ok _ _
      | dispose x =>
        simp only [stmtI, stmtS]
        cases disposeVar x st.blocks with
        | none => exact Sim.fail _ _ _
        | some bs => exact Sim.ok _ _
      | print e =>
        simp only [stmtI, stmtS, ih.eval]
        rcases evalS fuel e st with ⟨_ | v, st1⟩
        · exact Sim.fail _ _ _
        · exact Sim.ok _ _
      | ifs br els => simp only [stmtI, stmtS]; exact ih.ifs br els rv st
      | «while» c body =>
        obtain ⟨blocks, out⟩ := st
        simp only [stmtI, stmtS, St.push]
        have hw := ih.whl c body rv Block.empty blocks out
        simp only at hw
        generalize whileI fuel c body rv none ⟨Block.empty :: blocks, out⟩ = r at hw
        generalize whileS fuel c body ⟨blocks, out⟩ = p at hw
        obtain ⟨h1, _, h3, h4, hk, hs, ht⟩ := hw
        obtain ⟨flow, err, rv', st'⟩ := r
        obtain ⟨o, ⟨pb, po⟩⟩ := p
        simp only at h1 h3 h4 hk hs ht
        refine ⟨?_, h4, ⟨hk, hs, ht⟩⟩
        simp only [St.pop, h1, h3]
      | brk => simp only [stmtI, stmtS]; exact ⟨rfl, rfl, ⟨by simp, by simp, by simp⟩⟩
      | cont => simp only [stmtI, stmtS]; exact ⟨rfl, rfl, ⟨by simp, by simp, by simp⟩⟩
      | exit => simp only [stmtI, stmtS]; exact ⟨rfl, rfl, ⟨by simp, by simp, by simp⟩⟩
      | ret e =>
        simp only [stmtI, stmtS, ih.eval]
        rcases evalS fuel e st with ⟨_ | v, st1⟩
        · exact Sim.fail _ _ _
        · exact ⟨rfl, rfl, ⟨by simp, by simp, by simp⟩⟩
      | declFn f ps body =>
        simp only [stmtI, stmtS]
        cases declareFn f ⟨ps, body⟩ st.blocks with
        | error e => exact Sim.fail _ _ _
        | ok bs => exact Sim.ok _ _
      | disposeFn f =>
        simp only [stmtI, stmtS]
        cases disposeFn f st.blocks with
        | none => exact Sim.fail _ _ _
        | some bs => exact Sim.ok _ _
    · -- block
      intro ss rv st
      cases ss with
      | nil => simp only [executeI, blockS]; exact Sim.ok _ _
      | cons s rest =>
        simp only [executeI, blockS]
        have hsim := ih.stmt s rv st
        generalize stmtI fuel s rv st = r at hsim
        rcases hS : stmtS fuel s st with ⟨o, st1⟩
        rw [hS] at hsim
        obtain ⟨hst, hout, hk, hs, ht⟩ := hsim
        obtain ⟨flow, err, rv', st'⟩ := r
        simp only at hst hout hk hs ht
        subst hst
        cases err with
        | some e =>
          simp [PRes.outcome] at hout; subst hout
          exact ⟨rfl, rfl, ⟨hk, hs, ht⟩⟩
        | none =>
          cases flow with
          | terminate =>
            simp [PRes.outcome] at hout; subst hout
            have := hk rfl (by simp); subst this
            exact ih.block rest rv' st'
          | terminateWithError => exact absurd rfl (ht rfl)
          | ret =>
            cases rv' with
            | none => exact absurd rfl (hs rfl rfl)
            | some v =>
              simp [PRes.outcome] at hout; subst hout
              exact ⟨rfl, rfl, ⟨hk, hs, ht⟩⟩
          | exit =>
            simp [PRes.outcome] at hout; subst hout
            exact ⟨rfl, rfl, ⟨hk, hs, ht⟩⟩
          | brk =>
            simp [PRes.outcome] at hout; subst hout
            exact ⟨rfl, rfl, ⟨hk, hs, ht⟩⟩
          | cont =>
            simp [PRes.outcome] at hout; subst hout
            exact ⟨rfl, rfl, ⟨hk, hs, ht⟩⟩
    · -- ifs
      intro br els rv st
      cases br with
      | nil =>
        simp only [ifI, ifS]
        cases els with
        | nil => exact Sim.ok _ _
        | cons s ss =>
          simp only [inBlock]
          exact Sim.child (ih.block (s :: ss) none st.push)
      | cons cb more =>
        obtain ⟨c, body⟩ := cb
        simp only [ifI, ifS, ih.eval]
        rcases evalS fuel c st with ⟨_ | v, st1⟩
        · exact Sim.fail _ _ _
        · simp only []
          cases v.ternary with
          | T => simp only [inBlock]; exact Sim.child (ih.block body none st1.push)
          | F => exact ih.ifs more els rv st1
          | U => exact ih.ifs more els rv st1
    · -- while
      intro c body rv b bs out
      simp only [whileI, whileS, St.clearCurrent]
      rw [ih.eval]
      have hins := ii.eval 0 c ⟨bs, out⟩
      simp only [St.ins, ins_zero] at hins
      rw [hins]
      rcases evalS fuel c ⟨bs, out⟩ with ⟨_ | v, st1⟩
      · exact ⟨rfl, by simp [PRes.fail], rfl, rfl, (Sim.fail _ _ _).rvok⟩
      · simp only []
        cases v.ternary with
        | F => exact ⟨rfl, by simp [PRes.ok], rfl, rfl, (Sim.ok _ _).rvok⟩
        | U => exact ⟨rfl, by simp [PRes.ok], rfl, rfl, (Sim.ok _ _).rvok⟩
        | T =>
          simp only [inBlock, St.push]
          have hsim := ih.block body none st1.push
          have hlen := il.block body st1.push
          simp only [St.push] at hsim hlen
          generalize executeI fuel body none ⟨Block.empty :: st1.blocks, st1.out⟩ = r at hsim
          rcases hB : blockS fuel body ⟨Block.empty :: st1.blocks, st1.out⟩ with ⟨o, s2⟩
          rw [hB] at hsim hlen
          obtain ⟨hst, hout, hk, hs, ht⟩ := hsim
          obtain ⟨flow, err, rv', st'⟩ := r
          simp only at hst hout hk hs ht hlen
          subst hst
          obtain ⟨blocks2, out2⟩ := st'
          simp only [List.length_cons] at hlen
          cases blocks2 with
          | nil => simp at hlen
          | cons b2 bs2 =>
            cases err with
            | some e =>
              simp [PRes.outcome] at hout; subst hout
              simp only [St.pop, List.tail_cons]
              exact ⟨rfl, by simp [PRes.fail], rfl, rfl, (Sim.fail _ _ _).rvok⟩
            | none =>
              cases flow with
              | terminate =>
                simp [PRes.outcome] at hout; subst hout
                have := hk rfl (by simp); subst this
                simp only [St.pop, List.tail_cons]
                exact ih.whl c body rv b2 bs2 out2
              | cont =>
                simp [PRes.outcome] at hout; subst hout
                have := hk rfl (by simp); subst this
                simp only [St.pop, List.tail_cons]
                exact ih.whl c body rv b2 bs2 out2
              | terminateWithError => exact absurd rfl (ht rfl)
              | brk =>
                simp [PRes.outcome] at hout; subst hout
                simp only [St.pop, List.tail_cons]
                exact ⟨rfl, by simp [PRes.ok], rfl, rfl, (Sim.ok _ _).rvok⟩
              | exit =>
                simp [PRes.outcome] at hout; subst hout
                simp only [St.pop, List.tail_cons]
                refine ⟨?_, ?_, ?_, ?_, ⟨?_, ?_, ?_⟩⟩ <;> simp [PRes.outcome]
              | ret =>
                cases rv' with
                | none => exact absurd rfl (hs rfl rfl)
                | some w =>
                  simp [PRes.outcome] at hout; subst hout
                  simp only [St.pop, List.tail_cons]
                  refine ⟨?_, ?_, ?_, ?_, ⟨?_, ?_, ?_⟩⟩ <;> simp [PRes.outcome]

end Csvq.Scope
