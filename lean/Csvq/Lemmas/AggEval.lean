/- Helper lemmas for Model/AggEval.lean: a grouped record turned back into records is the list of member rows;
   the member indices of a bucket select exactly the rows with that key. -/
import Csvq.Model.AggEval
import Csvq.Lemmas.Group
namespace Csvq.Agg
open Csvq

/-- all rows have `F` fields -/
def Rect (F : Nat) (M : List Row) : Prop := ∀ r ∈ M, r.length = F

theorem column_getElem? (F i : Nat) (hi : i < F) : ∀ (M : List Row), Rect F M → ∀ m : Nat,
    (M.filterMap fun r => r[i]?)[m]? = (M[m]?).bind fun r => r[i]?
  | [], _, m => by simp
  | r :: M, h, m => by
    have hr : r.length = F := h r List.mem_cons_self
    have hM : Rect F M := fun x hx => h x (List.mem_cons_of_mem _ hx)
    have hs : r[i]? = some (r[i]'(by omega)) := List.getElem?_eq_getElem (by omega)
    rw [List.filterMap_cons, hs]
    cases m with
    | zero => simp [hs]
    | succ m => simpa using column_getElem? F i hi M hM m

theorem column_length (F i : Nat) (hi : i < F) : ∀ (M : List Row), Rect F M →
    (M.filterMap fun r => r[i]?).length = M.length
  | [], _ => rfl
  | r :: M, h => by
    have hr : r.length = F := h r List.mem_cons_self
    have hM : Rect F M := fun x hx => h x (List.mem_cons_of_mem _ hx)
    have hs : r[i]? = some (r[i]'(by omega)) := List.getElem?_eq_getElem (by omega)
    rw [List.filterMap_cons, hs]
    simp [column_length F i hi M hM]

theorem groupLen_cellsOf (F : Nat) (hF : 0 < F) (M : List Row) (h : Rect F M) : groupLen (cellsOf F M) = M.length := by
  unfold cellsOf
  cases F with
  | zero => omega
  | succ n =>
    rw [List.range_succ_eq_map]
    simp only [List.map_cons, groupLen]
    exact column_length (n + 1) 0 (by omega) M h

/-- reading a row through its indices gives the row back -/
theorem range_filterMap_getElem? (r : Row) : (List.range r.length).filterMap (fun i => r[i]?) = r := by
  have e : ∀ (n : Nat), n ≤ r.length → (List.range n).filterMap (fun i => r[i]?) = r.take n := by
    intro n
    induction n with
    | zero => intro _; simp
    | succ n ih =>
      intro hn
      rw [List.range_succ, List.filterMap_append, ih (by omega)]
      have hs : r[n]? = some (r[n]'(by omega)) := List.getElem?_eq_getElem (by omega)
      simp only [List.filterMap_cons, hs, List.filterMap_nil]
      rw [List.take_add_one, hs]; rfl
  rw [e r.length (Nat.le_refl _), List.take_length]

theorem filterMap_congr_mem {α β} (f g : α → Option β) : ∀ (l : List α), (∀ x ∈ l, f x = g x) → l.filterMap f = l.filterMap g
  | [], _ => rfl
  | x :: l, h => by
    rw [List.filterMap_cons, List.filterMap_cons, h x List.mem_cons_self,
      filterMap_congr_mem f g l (fun y hy => h y (List.mem_cons_of_mem _ hy))]

/-- NewViewFromGroupedRecord undoes View.group's transposition: the records of the group's view are the member rows -/
theorem viewFromGrouped_cellsOf (F : Nat) (hF : 0 < F) (M : List Row) (h : Rect F M) :
    viewFromGrouped (cellsOf F M) = M := by
  unfold viewFromGrouped
  rw [groupLen_cellsOf F hF M h]
  apply List.ext_getElem?
  intro m
  by_cases hm : m < M.length
  · rw [List.getElem?_map, List.getElem?_range hm, Option.map_some, List.getElem?_eq_getElem hm]
    congr 1
    have hr : (M[m]).length = F := h _ (List.getElem_mem hm)
    unfold cellsOf
    rw [List.filterMap_map]
    have hcell : ∀ i ∈ List.range F,
        ((fun cell : List Profile => cell[pickIdx cell m]?) ∘ fun i => M.filterMap fun r => r[i]?) i = (M[m])[i]? := by
      intro i hi
      have hi' : i < F := List.mem_range.mp hi
      simp only [Function.comp]
      have hl := column_length F i hi' M h
      have hp : pickIdx (M.filterMap fun r => r[i]?) m = m := by
        unfold pickIdx
        rw [hl]
        split
        · omega
        · rfl
      rw [hp, column_getElem? F i hi' M h m, List.getElem?_eq_getElem hm]
      rfl
    rw [filterMap_congr_mem _ _ _ hcell, ← hr]
    exact range_filterMap_getElem? _
  · have h1 : M[m]? = none := List.getElem?_eq_none (by omega)
    rw [h1, List.getElem?_eq_none (by simp; omega)]

/-- the placeholder record of "aggregates over no record": a group without members -/
theorem viewFromGrouped_placeholder (F : Nat) : viewFromGrouped (placeholderRecord F) = [] ∧
    groupLen (placeholderRecord F) = 0 := by
  cases F with
  | zero => simp [placeholderRecord, viewFromGrouped, groupLen]
  | succ n => simp [placeholderRecord, viewFromGrouped, groupLen, List.replicate_succ]

/-- the member indices View.group collects for key `k` select exactly the rows with that key, in row order -/
theorem members_rows {κ : Type} [DecidableEq κ] (key : Row → κ) (k : κ) : ∀ (l pre : List Row),
    ((members k ((l.zipIdx pre.length).map fun ri => (key ri.1, ri.2))).filterMap fun i => (pre ++ l)[i]?)
      = l.filter fun r => key r = k
  | [], _ => by simp [members]
  | r :: l, pre => by
    have ih := members_rows key k l (pre ++ [r])
    simp only [List.length_append, List.length_cons, List.length_nil, Nat.zero_add, List.append_assoc,
      List.cons_append, List.nil_append] at ih
    simp only [List.zipIdx_cons, List.map_cons, members, List.filter_cons]
    by_cases hk : key r = k
    · simp only [hk, decide_true, if_true, List.map_cons, List.filterMap_cons]
      have hget : (pre ++ r :: l)[pre.length]? = some r := by simp
      rw [hget]
      simp only [members] at ih
      rw [ih]
    · simp only [hk, decide_false, Bool.false_eq_true, if_false]
      simp only [members] at ih
      rw [ih]

theorem members_keyedIdx {κ : Type} [DecidableEq κ] (key : Row → κ) (k : κ) (rows : List Row) :
    ((members k (keyedIdx key rows)).filterMap fun i => rows[i]?) = rows.filter fun r => key r = k := by
  have := members_rows key k rows []
  simpa [keyedIdx] using this

theorem keyedIdx_keys {κ : Type} (key : Row → κ) (rows : List Row) : (keyedIdx key rows).map Prod.fst = rows.map key := by
  unfold keyedIdx
  rw [List.map_map]
  have : ∀ (l : List Row) (n : Nat), (l.zipIdx n).map (Prod.fst ∘ fun ri => (key ri.1, ri.2)) = l.map key := by
    intro l
    induction l with
    | nil => intro n; rfl
    | cons r l ih => intro n; simp [List.zipIdx_cons, ih (n + 1)]
  exact this rows 0

/-- "keep the first of every key": a sublist whose keys are the distinct keys in order of first occurrence -/
theorem keepFirstBy_spec {α κ : Type} [DecidableEq κ] (keyf : α → κ) (ps : List α) :
    ((keepFirst (ps.map fun p => (keyf p, p))).map Prod.snd).Sublist ps ∧
    ((keepFirst (ps.map fun p => (keyf p, p))).map Prod.snd).map keyf = firstOcc (ps.map keyf) := by
  have hfst : ∀ r ∈ keepFirst (ps.map fun p => (keyf p, p)), keyf r.2 = r.1 := by
    intro r hr
    have := (keepFirst_sublist (ps.map fun p => (keyf p, p))).subset hr
    obtain ⟨p, _, rfl⟩ := List.mem_map.mp this
    rfl
  have h1 := keepFirst_keys (ps.map fun p => (keyf p, p))
  have hL : (ps.map fun p => (keyf p, p)).map Prod.fst = ps.map keyf := by rw [List.map_map]; rfl
  constructor
  · have := (keepFirst_sublist (ps.map fun p => (keyf p, p))).map Prod.snd
    simpa [List.map_map, Function.comp_def] using this
  · calc ((keepFirst (ps.map fun p => (keyf p, p))).map Prod.snd).map keyf
        = (keepFirst (ps.map fun p => (keyf p, p))).map (fun r => keyf r.2) := by rw [List.map_map]; rfl
      _ = (keepFirst (ps.map fun p => (keyf p, p))).map Prod.fst := List.map_congr_left hfst
      _ = firstOcc ((ps.map fun p => (keyf p, p)).map Prod.fst) := h1
      _ = firstOcc (ps.map keyf) := by rw [hL]

/-- DISTINCT over one value repeated: that value once -/
theorem distinguishBy_replicate {κ : Type} [DecidableEq κ] (key : Profile → κ) (v : Profile) (n : Nat) :
    distinguishBy key (List.replicate n v) = if n = 0 then [] else [v] := by
  cases n with
  | zero => rfl
  | succ n =>
    have aux : ∀ m, keepFirstAux ([key v], [(key v, v)]) (List.replicate m (key v, v)) = ([key v], [(key v, v)]) := by
      intro m
      induction m with
      | zero => rfl
      | succ m ih => simp [List.replicate_succ, keepFirstAux, ih]
    simp only [distinguishBy, List.map_replicate, List.replicate_succ, keepFirst, keepFirstAux, List.not_mem_nil,
      if_false, List.nil_append, aux, Nat.add_one_ne_zero, List.map_cons, List.map_nil]

end Csvq.Agg
