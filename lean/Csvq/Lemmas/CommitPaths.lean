/- Lemmas for Model/CommitPaths: one execution is one of the enumerated runs; the Bool check transfers. -/
import Csvq.Model.CommitPaths
import Csvq.Lemmas.Commit
namespace Csvq.CommitPaths
open Csvq.Commit

/-- whatever the unknown conditions turn out to be, the execution is one of `runs` -/
theorem exec_mem_runs (kn : String → Option Bool) (n : Node) (cs : List Bool) : (exec kn n cs).1 ∈ runs kn n := by
  induction n generalizing cs with
  | skip => simp [exec, runs]
  | eff s => simp [exec, runs]
  | set s => simp [exec, runs]
  | ret ok => simp [exec, runs]
  | seq a b iha ihb =>
    simp only [exec, runs, List.mem_flatMap]
    refine ⟨(exec kn a cs).1, iha cs, ?_⟩
    cases h : (exec kn a cs).1.fin
    · simp only [Bool.false_eq_true, if_false, List.mem_map]
      exact ⟨(exec kn b (exec kn a cs).2).1, ihb _, rfl⟩
    · simp
  | ite c isErr t e iht ihe =>
    simp only [exec, runs]
    cases hk : kn c with
    | some b =>
      cases b
      · simpa using ihe cs
      · simp only [List.mem_map]; exact ⟨_, iht cs, rfl⟩
    | none =>
      simp only [List.mem_append, List.mem_map]
      cases cs with
      | nil => exact Or.inr (ihe [])
      | cons c' cs' =>
        cases c'
        · exact Or.inr (ihe cs')
        · exact Or.inl ⟨_, iht cs', rfl⟩

/-- a tree accepted by the path check is clean in EVERY execution -/
theorem clean_of_check (n : Node) (h : cleanOnEveryPath n = true) (k : Kind) (closed : Bool) (cs : List Bool) :
    (exec (known k closed) n cs).1.ok = true →
      (exec (known k closed) n cs).1.failed = false ∧
      (finalState k closed (exec (known k closed) n cs).1).temp = none ∧
      (finalState k closed (exec (known k closed) n cs).1).lock = false ∧
      (finalState k closed (exec (known k closed) n cs).1).rlock = false ∧
      (finalState k closed (exec (known k closed) n cs).1).stuck = false := by
  intro hok
  have hm := exec_mem_runs (known k closed) n cs
  simp only [cleanOnEveryPath, List.all_eq_true] at h
  have hk : (k, closed) ∈ kinds := by cases k <;> cases closed <;> simp [kinds]
  have := h (k, closed) hk _ hm
  simp only [cleanRun, hok, if_true, Bool.and_eq_true, Bool.not_eq_true', beq_iff_eq] at this
  obtain ⟨⟨⟨⟨a, b⟩, c⟩, d⟩, e⟩ := this
  exact ⟨a, b, c, d, e⟩

end Csvq.CommitPaths
