/-
  Lemmas for Csvq.Model.FixedAuto, the general case (used by Csvq.Props.C02): what `Delimiter.Delimit` finds in
  a table whose columns are not necessarily left-aligned and whose inner cells may be empty.

  Part 1: blank runs only.  Every line is a list of blank runs `pre ++ h :: rest`: `pre` the runs the walk has
  passed, `h` the run that covers the next separator, `rest` what follows.  The walk goes through PHASES, one per
  separator: a phase `(q, F)` has the separator byte `q` and the largest end `F` of the runs that end in the
  column after it; in a phase the first round appends the largest run start (minus one), the further rounds —
  one for every other run end up to `F` — append nothing.
-/
import Csvq.Lemmas.FixedAuto
namespace Csvq.Fixed
open Csvq.Csv (LB Err DCell DTable endingChars nullCell autoNames autofill)

/-! ## the folds, in general -/

def neStep (pos : Int) (m : Int) (rs : List Space) : Int :=
  let e := nextEnd rs pos
  if e ≠ -1 then (if m = -1 ∨ e < m then e else m) else m

theorem nextSpaceEnd_fold (t : List (List Space)) (pos : Int) : nextSpaceEnd t pos = t.foldl (neStep pos) (-1) := rfl

theorem neStep_none (pos m : Int) (rs : List Space) (h : nextEnd rs pos = -1) : neStep pos m rs = m := by
  simp [neStep, h]

theorem neStep_take (pos m : Int) (rs : List Space) (h : nextEnd rs pos ≠ -1) (hm : m = -1 ∨ nextEnd rs pos < m) :
    neStep pos m rs = nextEnd rs pos := by
  simp [neStep, h, hm]

theorem neStep_keep (pos m : Int) (rs : List Space) (h : nextEnd rs pos ≠ -1) (hm : ¬ (m = -1 ∨ nextEnd rs pos < m)) :
    neStep pos m rs = m := by
  simp [neStep, h, hm]

theorem neFold_spec (pos : Int) : ∀ (t : List (List Space)) (m : Int),
    (t.foldl (neStep pos) m = m ∨ ∃ rs ∈ t, nextEnd rs pos = t.foldl (neStep pos) m ∧ t.foldl (neStep pos) m ≠ -1) ∧
    (m = -1 ∨ t.foldl (neStep pos) m ≤ m) ∧ (m ≠ -1 → t.foldl (neStep pos) m ≠ -1) ∧
    (∀ rs ∈ t, nextEnd rs pos = -1 ∨ (t.foldl (neStep pos) m ≠ -1 ∧ t.foldl (neStep pos) m ≤ nextEnd rs pos)) := by
  intro t
  induction t with
  | nil => intro m; simp
  | cons rs t ih =>
    intro m
    simp only [List.foldl_cons]
    by_cases he : nextEnd rs pos = -1
    · rw [neStep_none pos m rs he]
      obtain ⟨h1, h2, h3, h4⟩ := ih m
      refine ⟨?_, h2, h3, ?_⟩
      · rcases h1 with h | ⟨x, hx, hx2⟩
        · exact Or.inl h
        · exact Or.inr ⟨x, by simp [hx], hx2⟩
      · intro x hx
        rcases List.mem_cons.mp hx with rfl | hx
        · exact Or.inl he
        · exact h4 x hx
    · by_cases hm : m = -1 ∨ nextEnd rs pos < m
      · rw [neStep_take pos m rs he hm]
        obtain ⟨h1, h2, h3, h4⟩ := ih (nextEnd rs pos)
        have h3' := h3 he
        refine ⟨?_, ?_, fun _ => h3', ?_⟩
        · rcases h1 with h | ⟨x, hx, hx2⟩
          · exact Or.inr ⟨rs, by simp, h.symm, by rw [h]; exact he⟩
          · exact Or.inr ⟨x, by simp [hx], hx2⟩
        · rcases hm with hm | hm
          · exact Or.inl hm
          · rcases h2 with h2 | h2
            · exact absurd h2 he
            · exact Or.inr (by omega)
        · intro x hx
          rcases List.mem_cons.mp hx with rfl | hx
          · rcases h2 with h2 | h2
            · exact absurd h2 he
            · exact Or.inr ⟨h3', h2⟩
          · exact h4 x hx
      · rw [neStep_keep pos m rs he hm]
        have hm1 : m ≠ -1 := fun e => hm (Or.inl e)
        have hm2 : m ≤ nextEnd rs pos := by
          have : ¬ nextEnd rs pos < m := fun e => hm (Or.inr e)
          omega
        obtain ⟨h1, h2, h3, h4⟩ := ih m
        have h3' := h3 hm1
        refine ⟨?_, h2, h3, ?_⟩
        · rcases h1 with h | ⟨x, hx, hx2⟩
          · exact Or.inl h
          · exact Or.inr ⟨x, by simp [hx], hx2⟩
        · intro x hx
          rcases List.mem_cons.mp hx with rfl | hx
          · rcases h2 with h2 | h2
            · exact absurd h2 hm1
            · exact Or.inr ⟨h3', by omega⟩
          · exact h4 x hx

theorem nextSpaceEnd_spec (t : List (List Space)) (pos : Int) :
    (nextSpaceEnd t pos = -1 ∧ ∀ rs ∈ t, nextEnd rs pos = -1) ∨
    (nextSpaceEnd t pos ≠ -1 ∧ (∃ rs ∈ t, nextEnd rs pos = nextSpaceEnd t pos) ∧
      ∀ rs ∈ t, nextEnd rs pos = -1 ∨ nextSpaceEnd t pos ≤ nextEnd rs pos) := by
  rw [nextSpaceEnd_fold]
  obtain ⟨h1, _, _, h4⟩ := neFold_spec pos t (-1)
  by_cases hr : t.foldl (neStep pos) (-1) = -1
  · refine Or.inl ⟨hr, ?_⟩
    intro rs hrs
    rcases h4 rs hrs with h | ⟨h, _⟩
    · exact h
    · exact absurd hr h
  · refine Or.inr ⟨hr, ?_, ?_⟩
    · rcases h1 with h | ⟨x, hx, hx2, _⟩
      · exact absurd h hr
      · exact ⟨x, hx, hx2⟩
    · intro rs hrs
      rcases h4 rs hrs with h | ⟨_, h⟩
      · exact Or.inl h
      · exact Or.inr h

theorem countStatus_inValue (t : List (List Space)) (pos : Int) (rs : List Space) (hrs : rs ∈ t)
    (h : status rs pos = .inValue) : 1 ≤ (countStatus t pos).inValue := by
  unfold countStatus
  have mono : ∀ (t : List (List Space)) (c : Counts), c.inValue ≤ (t.foldl (countOne pos) c).inValue := by
    intro t
    induction t with
    | nil => intro c; exact Nat.le_refl _
    | cons x t ih =>
      intro c
      simp only [List.foldl_cons]
      refine Nat.le_trans ?_ (ih _)
      unfold countOne
      cases status x pos <;> simp
  have key : ∀ (t : List (List Space)) (c : Counts), rs ∈ t → 1 ≤ (t.foldl (countOne pos) c).inValue := by
    intro t
    induction t with
    | nil => intro c h; simp at h
    | cons x t ih =>
      intro c hx
      simp only [List.foldl_cons]
      rcases List.mem_cons.mp hx with rfl | hx
      · refine Nat.le_trans ?_ (mono t _)
        simp [countOne, h]
      · exact ih _ hx
  exact key t {} hrs

/-! ## lines -/

structure Ln where
  pre : List Space
  h : Space
  rest : List Space

def Ln.runs (l : Ln) : List Space := l.pre ++ l.h :: l.rest

/-- the walk has passed `F`: a line whose current run ended by then moves on to its next run -/
def advance (F : Int) (l : Ln) : Ln :=
  if l.h.fin ≤ F then
    match l.rest with
    | h' :: r' => ⟨l.pre ++ [l.h], h', r'⟩
    | [] => l
  else l

theorem advance_runs (F : Int) (l : Ln) : (advance F l).runs = l.runs := by
  unfold advance
  split
  · cases hr : l.rest with
    | nil => rfl
    | cons h' r' => simp [Ln.runs, hr]
  · rfl

def phaseMax (lines : List Ln) : Int := fmax 0 (lines.map fun l => l.h.start - 1)

/-- the positions, first to last -/
def outM : List (Int × Int) → List Ln → List Int
  | [], lines => [phaseMax lines]
  | (_, F) :: more, lines => phaseMax lines :: outM more (lines.map (advance F))

/-- what one line must look like in the phase `(q, F)` -/
def LnOK (lp q F : Int) (l : Ln) : Prop :=
  Dead l.pre lp ∧ 1 ≤ l.h.start ∧ l.h.start ≤ q ∧ q ≤ l.h.fin ∧ l.rest ≠ [] ∧
  ∀ r ∈ l.rest, F + 2 ≤ r.start ∧ l.h.fin + 2 ≤ r.start ∧ (r.fin = -1 ∨ r.start ≤ r.fin)

def TableOK : Int → List (Int × Int) → List Ln → Prop
  | lp, [], lines => ∀ l ∈ lines, Dead l.pre lp ∧ l.h.fin = -1 ∧ l.rest = []
  | lp, (q, F) :: more, lines =>
    lp ≤ q ∧ q ≤ F ∧ lp ≤ phaseMax lines ∧ (∃ l ∈ lines, l.h.fin = F) ∧ (∀ l ∈ lines, LnOK lp q F l) ∧
    TableOK (F + 1) more (lines.map (advance F))

/-! ## one line, during a phase -/

theorem ln_nextEnd_alive (lp q F pos : Int) (l : Ln) (h : LnOK lp q F l) (h1 : lp ≤ pos) (h2 : pos ≤ l.h.fin) :
    nextEnd l.runs pos = l.h.fin := by
  obtain ⟨hd, _, _, _, _, _⟩ := h
  unfold Ln.runs
  rw [nextEnd_dead l.pre _ lp pos hd h1]
  simp [nextEnd, h2]

theorem nextEnd_after (rs : List Space) (x pos : Int) (h : ∀ r ∈ rs, x ≤ r.start ∧ (r.fin = -1 ∨ r.start ≤ r.fin)) :
    nextEnd rs pos = -1 ∨ x ≤ nextEnd rs pos := by
  induction rs with
  | nil => exact Or.inl rfl
  | cons r rs ih =>
    simp only [nextEnd]
    split
    · rcases (h r (by simp)).2 with hf | hf
      · exact Or.inl hf
      · exact Or.inr (by have := (h r (by simp)).1; omega)
    · exact ih (fun y hy => h y (by simp [hy]))

theorem ln_nextEnd_passed (lp q F pos : Int) (l : Ln) (h : LnOK lp q F l) (h1 : lp ≤ pos)
    (h2 : l.h.fin < pos) : nextEnd l.runs pos = -1 ∨ F + 2 ≤ nextEnd l.runs pos := by
  obtain ⟨hd, _, _, _, _, hr⟩ := h
  unfold Ln.runs
  rw [nextEnd_dead l.pre _ lp pos hd h1]
  have : ¬ pos ≤ l.h.fin := by omega
  simp only [nextEnd, this, if_false]
  exact nextEnd_after l.rest (F + 2) pos (fun r hr' => ⟨(hr r hr').1, (hr r hr').2.2⟩)

theorem prevStartFrom_after (rs : List Space) (pos d : Int) (h : ∀ r ∈ rs, pos < r.start) :
    prevStartFrom d rs pos = d := by
  cases rs with
  | nil => rfl
  | cons r rs => simp [prevStartFrom, h r (by simp)]

theorem ln_prevStart (lp q F pos : Int) (l : Ln) (h : LnOK lp q F l) (h1 : q ≤ pos) (h2 : pos ≤ F) (h0 : lp ≤ q) :
    prevStart l.runs pos = l.h.start := by
  obtain ⟨hd, _, hs, _, _, hr⟩ := h
  unfold prevStart Ln.runs
  obtain ⟨d', hd'⟩ := prevStartFrom_dead l.pre (l.h :: l.rest) lp pos (-1) hd (by omega)
  rw [hd']
  have : ¬ pos < l.h.start := by omega
  simp only [prevStartFrom, this, if_false]
  exact prevStartFrom_after l.rest pos _ (fun r hr' => by have := (hr r hr').1; omega)

/-- at a position between (one before) the start of the current run and the separator -/
theorem ln_status_begin (lp q F m : Int) (l : Ln) (h : LnOK lp q F l) (h0 : lp ≤ m) (h1 : l.h.start - 1 ≤ m)
    (h2 : m + 1 ≤ q) :
    (status l.runs m = if l.h.start - 1 = m then .endOfValue else .inSpace) ∧
    status l.runs (m + 1) ≠ .out ∧ status l.runs (m + 1) ≠ .inValue := by
  obtain ⟨hd, _, hs, hf, _, _⟩ := h
  unfold Ln.runs
  rw [status_dead l.pre _ lp m hd h0, status_dead l.pre _ lp (m + 1) hd (by omega)]
  refine ⟨?_, ?_, ?_⟩
  · by_cases hem : l.h.start - 1 = m
    · simp [status, hem.symm]
    · have a1 : ¬ m = l.h.start - 1 := fun e => hem e.symm
      have a2 : ¬ m < l.h.start := by omega
      have a3 : ¬ m = l.h.fin := by omega
      have a4 : l.h.start ≤ m ∧ m < l.h.fin := by omega
      simp [status, a1, a2, a3, a4, hem]
  · have a1 : ¬ m + 1 = l.h.start - 1 := by omega
    have a2 : ¬ m + 1 < l.h.start := by omega
    simp only [status, a1, a2, if_false]
    by_cases a3 : m + 1 = l.h.fin
    · simp [a3]
    · have a4 : l.h.start ≤ m + 1 ∧ m + 1 < l.h.fin := by omega
      simp [a3, a4]
  · have a1 : ¬ m + 1 = l.h.start - 1 := by omega
    have a2 : ¬ m + 1 < l.h.start := by omega
    simp only [status, a1, a2, if_false]
    by_cases a3 : m + 1 = l.h.fin
    · simp [a3]
    · have a4 : l.h.start ≤ m + 1 ∧ m + 1 < l.h.fin := by omega
      simp [a3, a4]

/-- a line whose current run has been passed is inside its next value -/
theorem ln_status_passed (lp q F pos : Int) (l : Ln) (h : LnOK lp q F l) (h0 : lp ≤ pos) (h1 : l.h.fin < pos)
    (h2 : pos ≤ F) : status l.runs pos = .inValue := by
  obtain ⟨hd, _, hs, hf, hne, hr⟩ := h
  unfold Ln.runs
  rw [status_dead l.pre _ lp pos hd h0]
  have a1 : ¬ pos = l.h.start - 1 := by omega
  have a2 : ¬ pos < l.h.start := by omega
  have a3 : ¬ pos = l.h.fin := by omega
  have a4 : ¬ (l.h.start ≤ pos ∧ pos < l.h.fin) := by omega
  simp only [status, a1, a2, a3, a4, if_false]
  cases hrest : l.rest with
  | nil => exact absurd hrest hne
  | cons r rs =>
    have := (hr r (by rw [hrest]; simp)).1
    have b1 : ¬ pos = r.start - 1 := by omega
    have b2 : pos < r.start := by omega
    simp [status, b1, b2]

/-! ## rounds -/

theorem round_append (nh : Bool) (t : List (List Space)) (ps : List Int) (fuel : Nat) (lp E m : Int)
    (hne : nextSpaceEnd t lp = E) (hE : E ≠ -1) (hb : prevSpaceStart t E - 1 = m) (hl : lastPos ps < m)
    (hh : inHeaderValue t m = false)
    (hc : (countStatus t m).inValue = 0 ∧ (countStatus t m).endOfLine = 0 ∧ (countStatus t m).outOfLine = 0) :
    delimitLoop nh t (fuel + 1) lp ps = delimitLoop nh t fuel (E + 1) (m :: ps) := by
  simp only [delimitLoop, hne, hE, if_false, searchPosition_clean nh t ps E m hb hl hh hc]

theorem round_skip (nh : Bool) (t : List (List Space)) (ps : List Int) (fuel : Nat) (lp E : Int)
    (hne : nextSpaceEnd t lp = E) (hE : E ≠ -1) (hb : prevSpaceStart t E - 1 ≤ lastPos ps)
    (hv : 1 ≤ (countStatus t E).inValue) :
    delimitLoop nh t (fuel + 1) lp ps = delimitLoop nh t fuel (E + 1) ps := by
  have hsp : searchPosition nh t ps E = ps := by
    unfold searchPosition
    have : ¬ (countStatus t E).inValue < 1 := by omega
    simp [hb, this]
  simp only [delimitLoop, hne, hE, if_false, hsp]

theorem round_final (nh : Bool) (t : List (List Space)) (ps : List Int) (fuel : Nat) (lp : Int)
    (hne : nextSpaceEnd t lp = -1) : delimitLoop nh t (fuel + 1) lp ps = tableLen t :: ps := by
  simp [delimitLoop, hne]

/-! ## a phase -/

theorem phase_prevStart (lines : List Ln) (hne : lines ≠ []) (lp q F pos : Int) (hok : ∀ l ∈ lines, LnOK lp q F l)
    (hlq : lp ≤ q) (h1 : q ≤ pos) (h2 : pos ≤ F) :
    prevSpaceStart (lines.map Ln.runs) pos - 1 = phaseMax lines := by
  rw [prevSpaceStart_fmax lines Ln.runs (fun l => l.h.start) pos (by
    intro l hl
    have hs := (hok l hl).2.1
    exact ⟨ln_prevStart lp q F pos l (hok l hl) h1 h2 hlq, by omega⟩)]
  have e1 : (lines.map fun l => l.h.start) = (lines.map fun l => l.h.start - 1).map (· + 1) := by
    rw [List.map_map]
    apply List.map_congr_left
    intro l _
    simp only [Function.comp]
    omega
  have hne' : (lines.map fun l => l.h.start - 1) ≠ [] := by simpa using hne
  have hge : ∀ x ∈ (lines.map fun l => l.h.start - 1), (0 : Int) ≤ x := by
    intro x hx
    obtain ⟨l, hl, rfl⟩ := List.mem_map.mp hx
    have := (hok l hl).2.1
    omega
  have e2 := fmax_shift (-2) (lines.map fun l => l.h.start - 1)
  have e3 := fmax_init_irrelevant (-2) 0 _ hne' (fun x hx => by have := hge x hx; omega) hge
  unfold phaseMax
  rw [e1]
  have e2' : fmax (-1) ((lines.map fun l => l.h.start - 1).map (· + 1)) = fmax (-2) (lines.map fun l => l.h.start - 1) + 1 := e2
  rw [e2', e3]
  omega

theorem phaseMax_ge (lines : List Ln) (l : Ln) (hl : l ∈ lines) : l.h.start - 1 ≤ phaseMax lines :=
  fmax_ge_mem 0 _ _ (List.mem_map.mpr ⟨l, hl, rfl⟩)

theorem phaseMax_le (lines : List Ln) (b : Int) (hb : 0 ≤ b) (h : ∀ l ∈ lines, l.h.start - 1 ≤ b) : phaseMax lines ≤ b := by
  unfold phaseMax
  rcases fmax_mem_or_init 0 (lines.map fun l => l.h.start - 1) with h0 | h0
  · rw [h0]; exact hb
  · obtain ⟨l, hl, hx⟩ := List.mem_map.mp h0
    rw [← hx]; exact h l hl

theorem phase_skip (nh : Bool) (lines : List Ln) (hne : lines ≠ []) (lp q F : Int)
    (hok : ∀ l ∈ lines, LnOK lp q F l) (hF : ∃ l ∈ lines, l.h.fin = F) (hlq : lp ≤ q) (ps : List Int) (G : Int)
    (hG : F + 2 ≤ G) :
    ∀ (k : Nat) (lp' : Int) (fuel : Nat), (F + 1 - lp').toNat ≤ k → q < lp' → lp' ≤ F + 1 →
      (∃ w ∈ lines, w.h.fin < lp') → G - lp' ≤ fuel →
      ∃ fuel' : Nat, G - (F + 1) ≤ fuel' ∧
        delimitLoop nh (lines.map Ln.runs) fuel lp' (phaseMax lines :: ps)
          = delimitLoop nh (lines.map Ln.runs) fuel' (F + 1) (phaseMax lines :: ps) := by
  intro k
  induction k with
  | zero =>
    intro lp' fuel hk _ hle _ hfuel
    have : lp' = F + 1 := by omega
    subst this
    exact ⟨fuel, hfuel, rfl⟩
  | succ k ih =>
    intro lp' fuel hk hq hle hw hfuel
    by_cases hend : lp' = F + 1
    · subst hend; exact ⟨fuel, hfuel, rfl⟩
    · have hlF : lp' ≤ F := by omega
      obtain ⟨f, rfl⟩ : ∃ f, fuel = f + 1 := ⟨fuel - 1, by omega⟩
      obtain ⟨lF, hlF_mem, hlF_fin⟩ := hF
      obtain ⟨w, hw_mem, hw_fin⟩ := hw
      have hq1 : 1 ≤ q := by
        have := (hok lF hlF_mem).2.1
        have := (hok lF hlF_mem).2.2.1
        omega
      -- the next run end
      have hspec := nextSpaceEnd_spec (lines.map Ln.runs) lp'
      have hFline : nextEnd lF.runs lp' = F := by
        rw [ln_nextEnd_alive lp q F lp' lF (hok lF hlF_mem) (by omega) (by omega), hlF_fin]
      rcases hspec with ⟨_, hall⟩ | ⟨hE, ⟨rs, hrs, hrsE⟩, hmin⟩
      · have := hall lF.runs (List.mem_map.mpr ⟨lF, hlF_mem, rfl⟩)
        rw [hFline] at this
        omega
      · have hEF : nextSpaceEnd (lines.map Ln.runs) lp' ≤ F := by
          rcases hmin lF.runs (List.mem_map.mpr ⟨lF, hlF_mem, rfl⟩) with h | h
          · rw [hFline] at h; omega
          · rw [hFline] at h; exact h
        obtain ⟨x, hx_mem, rfl⟩ := List.mem_map.mp hrs
        have hElp : lp' ≤ nextSpaceEnd (lines.map Ln.runs) lp' := by
          by_cases hxa : lp' ≤ x.h.fin
          · rw [← hrsE, ln_nextEnd_alive lp q F lp' x (hok x hx_mem) (by omega) hxa]; exact hxa
          · rcases ln_nextEnd_passed lp q F lp' x (hok x hx_mem) (by omega) (by omega) with h | h
            · rw [hrsE] at h; exact absurd h hE
            · rw [hrsE] at h; omega
        have hprev := phase_prevStart lines hne lp q F _ hok hlq (by omega) hEF
        have hv := countStatus_inValue (lines.map Ln.runs) (nextSpaceEnd (lines.map Ln.runs) lp') w.runs
          (List.mem_map.mpr ⟨w, hw_mem, rfl⟩)
          (ln_status_passed lp q F _ w (hok w hw_mem) (by omega) (by omega) hEF)
        rw [round_skip nh _ (phaseMax lines :: ps) f lp' _ rfl hE (by rw [hprev]; simp [lastPos]) hv]
        exact ih _ f (by omega) (by omega) (by omega) ⟨w, hw_mem, by omega⟩ (by omega)

theorem phase_step (nh : Bool) (lines : List Ln) (hne : lines ≠ []) (lp q F : Int)
    (hok : ∀ l ∈ lines, LnOK lp q F l) (hF : ∃ l ∈ lines, l.h.fin = F) (hlq : lp ≤ q) (hqF : q ≤ F) (h0 : 0 ≤ lp)
    (hM : lp ≤ phaseMax lines) (ps : List Int) (hps : lastPos ps < lp) (G : Int) (hG : F + 2 ≤ G) (fuel : Nat)
    (hfuel : G - lp ≤ fuel) :
    ∃ fuel' : Nat, G - (F + 1) ≤ fuel' ∧
      delimitLoop nh (lines.map Ln.runs) fuel lp ps
        = delimitLoop nh (lines.map Ln.runs) fuel' (F + 1) (phaseMax lines :: ps) := by
  obtain ⟨f, rfl⟩ : ∃ f, fuel = f + 1 := ⟨fuel - 1, by omega⟩
  obtain ⟨lF, hlF_mem, hlF_fin⟩ := hF
  have hspec := nextSpaceEnd_spec (lines.map Ln.runs) lp
  have halive : ∀ l ∈ lines, nextEnd l.runs lp = l.h.fin := fun l hl =>
    ln_nextEnd_alive lp q F lp l (hok l hl) (Int.le_refl _) (by have := (hok l hl).2.2.2.1; omega)
  rcases hspec with ⟨_, hall⟩ | ⟨hE, ⟨rs, hrs, hrsE⟩, hmin⟩
  · have := hall lF.runs (List.mem_map.mpr ⟨lF, hlF_mem, rfl⟩)
    rw [halive lF hlF_mem, hlF_fin] at this
    omega
  · obtain ⟨x, hx_mem, rfl⟩ := List.mem_map.mp hrs
    have hEq : q ≤ nextSpaceEnd (lines.map Ln.runs) lp := by
      rw [← hrsE, halive x hx_mem]; exact (hok x hx_mem).2.2.2.1
    have hEF : nextSpaceEnd (lines.map Ln.runs) lp ≤ F := by
      rcases hmin lF.runs (List.mem_map.mpr ⟨lF, hlF_mem, rfl⟩) with h | h
      · rw [halive lF hlF_mem, hlF_fin] at h; omega
      · rw [halive lF hlF_mem, hlF_fin] at h; exact h
    have hprev := phase_prevStart lines hne lp q F _ hok hlq hEq hEF
    -- the largest run start, minus one
    have hq1 : 1 ≤ q := by
      have := (hok lF hlF_mem).2.1
      have := (hok lF hlF_mem).2.2.1
      omega
    have hMq : phaseMax lines + 1 ≤ q := by
      have := phaseMax_le lines (q - 1) (by omega) (fun l hl => by have := (hok l hl).2.2.1; omega)
      omega
    have hstat : ∀ l ∈ lines,
        (status l.runs (phaseMax lines) = if l.h.start - 1 = phaseMax lines then Status.endOfValue else Status.inSpace) ∧
        status l.runs (phaseMax lines + 1) ≠ Status.out ∧ status l.runs (phaseMax lines + 1) ≠ Status.inValue :=
      fun l hl => ln_status_begin lp q F _ l (hok l hl) hM (phaseMax_ge lines l hl) hMq
    have hcount := countStatus_clean (lines.map Ln.runs) (phaseMax lines) (by
      intro rs hrs
      obtain ⟨l, hl, rfl⟩ := List.mem_map.mp hrs
      obtain ⟨s1, s2, _⟩ := hstat l hl
      by_cases hh : l.h.start - 1 = phaseMax lines
      · rw [if_pos hh] at s1; exact Or.inl ⟨s1, s2⟩
      · rw [if_neg hh] at s1; exact Or.inr s1)
    have hhead : inHeaderValue (lines.map Ln.runs) (phaseMax lines) = false := by
      cases hls : lines with
      | nil => exact absurd hls hne
      | cons l ls =>
        obtain ⟨_, _, s3⟩ := hstat l (by rw [hls]; simp)
        rw [hls] at s3
        simp [inHeaderValue, s3]
    rw [round_append nh _ ps f lp _ (phaseMax lines) rfl hE hprev (by omega) hhead hcount]
    exact phase_skip nh lines hne lp q F hok ⟨lF, hlF_mem, hlF_fin⟩ hlq ps G hG
      ((F + 1 - (nextSpaceEnd (lines.map Ln.runs) lp + 1)).toNat) _ f (Nat.le_refl _) (by omega) (by omega)
      ⟨x, hx_mem, by rw [← hrsE, halive x hx_mem]; omega⟩ (by omega)

/-! ## all phases -/

theorem delimitLoop_general (nh : Bool) :
    ∀ (phases : List (Int × Int)) (lines : List Ln) (lp : Int) (ps : List Int) (fuel : Nat) (G : Int),
      lines ≠ [] → TableOK lp phases lines → 0 ≤ lp → lastPos ps < lp → (∀ p ∈ phases, p.2 + 2 ≤ G) → lp + 1 ≤ G →
      G - lp ≤ fuel →
      delimitLoop nh (lines.map Ln.runs) fuel lp ps = (outM phases lines).reverse ++ ps := by
  intro phases
  induction phases with
  | nil =>
    intro lines lp ps fuel G _ hok h0 _ _ hG hfuel
    obtain ⟨f, rfl⟩ : ∃ f, fuel = f + 1 := ⟨fuel - 1, by omega⟩
    simp only [TableOK] at hok
    have hne1 : ∀ rs ∈ lines.map Ln.runs, nextEnd rs lp = -1 := by
      intro rs hrs
      obtain ⟨l, hl, rfl⟩ := List.mem_map.mp hrs
      obtain ⟨hd, hf, hr⟩ := hok l hl
      unfold Ln.runs
      rw [nextEnd_dead l.pre _ lp lp hd (Int.le_refl _), hr]
      have : ¬ lp ≤ l.h.fin := by omega
      simp [nextEnd, this]
    have hlen := tableLen_fmax lines Ln.runs (fun l => l.h.start - 1) (by
      intro l hl
      obtain ⟨_, hf, hr⟩ := hok l hl
      unfold Ln.runs
      rw [hr, lineLen_append]
      simp [hf])
    rw [round_final nh _ ps f lp (nextSpaceEnd_none _ lp hne1), hlen]
    simp [outM, phaseMax]
  | cons p more ih =>
    intro lines lp ps fuel G hne hok h0 hps hG hlpG hfuel
    obtain ⟨q, F⟩ := p
    simp only [TableOK] at hok
    obtain ⟨hlq, hqF, hM, hF, hln, hnext⟩ := hok
    have hGF : F + 2 ≤ G := hG (q, F) (by simp)
    obtain ⟨fuel', hf', hstep⟩ := phase_step nh lines hne lp q F hln hF hlq hqF h0 hM ps hps G hGF fuel hfuel
    rw [hstep]
    have hruns : lines.map Ln.runs = (lines.map (advance F)).map Ln.runs := by
      rw [List.map_map]
      apply List.map_congr_left
      intro l _
      simp [Function.comp, advance_runs]
    have hq1 : 1 ≤ q := by
      obtain ⟨l, hl, _⟩ := hF
      have := (hln l hl).2.1
      have := (hln l hl).2.2.1
      omega
    have hMq : phaseMax lines ≤ q - 1 :=
      phaseMax_le lines (q - 1) (by omega) (fun l hl => by have := (hln l hl).2.2.1; omega)
    rw [hruns, ih (lines.map (advance F)) (F + 1) (phaseMax lines :: ps) fuel' G (by simpa using hne) hnext (by omega)
      (by simp only [lastPos]; omega) (fun p hp => hG p (by simp [hp])) (by omega) hf']
    simp [outM]

/-! ## Part 2: lines given by the byte intervals of their values

  `vs` has one entry per column after the first: `none` for an empty cell, `some (a, e)` for a value that
  occupies the bytes `a … e`; `g` is the byte after the last value so far. -/

abbrev Iv := Option (Int × Int)

def runsFrom (g : Int) : List Iv → List Space
  | [] => [⟨g, -1⟩]
  | none :: vs => runsFrom g vs
  | some (a, e) :: vs => ⟨g, a - 1⟩ :: runsFrom (e + 1) vs

theorem runsFrom_ne (g : Int) (vs : List Iv) : runsFrom g vs ≠ [] := by
  induction vs generalizing g with
  | nil => simp [runsFrom]
  | cons v vs ih =>
    cases v with
    | none => simpa [runsFrom] using ih g
    | some p => obtain ⟨a, e⟩ := p; simp [runsFrom]

/-- every value lies in its column: the column after `pos` bytes has its separating blank at byte `pos + 1`
    and its `w` bytes after it -/
def IvIn : Int → List Nat → List Iv → Prop
  | _, [], [] => True
  | pos, w :: ws, v :: vs =>
    (match v with
     | none => True
     | some (a, e) => pos + 2 ≤ a ∧ a ≤ e ∧ e ≤ pos + 1 + w) ∧ IvIn (pos + 1 + w) ws vs
  | _, _, _ => False

/-- the last cell of the line is not empty -/
def LastSome : List Iv → Prop
  | [] => True
  | [v] => v ≠ none
  | _ :: v :: vs => LastSome (v :: vs)

theorem runsFrom_props : ∀ (ws : List Nat) (vs : List Iv) (pos g : Int), IvIn pos ws vs → g ≤ pos + 1 →
    ∀ x ∈ runsFrom g vs, g ≤ x.start ∧ (x.fin = -1 ∨ x.start ≤ x.fin) := by
  intro ws
  induction ws with
  | nil =>
    intro vs pos g h _ x hx
    cases vs with
    | nil => simp only [runsFrom, List.mem_singleton] at hx; subst hx; exact ⟨Int.le_refl _, Or.inl rfl⟩
    | cons v vs => simp [IvIn] at h
  | cons w ws ih =>
    intro vs pos g h hg x hx
    cases vs with
    | nil => simp [IvIn] at h
    | cons v vs =>
      simp only [IvIn] at h
      cases v with
      | none =>
        simp only [runsFrom] at hx
        exact ih vs (pos + 1 + w) g h.2 (by omega) x hx
      | some p =>
        obtain ⟨a, e⟩ := p
        simp only at h
        simp only [runsFrom, List.mem_cons] at hx
        rcases hx with rfl | hx
        · exact ⟨Int.le_refl _, Or.inr (by simp only; omega)⟩
        · have := ih vs (pos + 1 + w) (e + 1) h.2 (by omega) x hx
          exact ⟨by omega, this.2⟩

/-- the run that covers the separator at `pos + 1`, and what follows it -/
theorem firstRun_spec : ∀ (ws : List Nat) (vs : List Iv) (pos g : Int), IvIn pos ws vs → LastSome vs → vs ≠ [] →
    g ≤ pos + 1 →
    ∃ h r, runsFrom g vs = h :: r ∧ h.start = g ∧ r ≠ [] ∧ pos + 1 ≤ h.fin ∧
      (∀ x ∈ r, h.fin + 2 ≤ x.start ∧ (x.fin = -1 ∨ x.start ≤ x.fin)) ∧
      (∀ a e vs', vs = some (a, e) :: vs' → h.fin = a - 1 ∧ r = runsFrom (e + 1) vs') ∧
      (∀ vs' w ws', vs = none :: vs' → ws = w :: ws' → pos + 1 + w + 1 ≤ h.fin ∧ runsFrom g vs' = h :: r) := by
  intro ws
  induction ws with
  | nil =>
    intro vs pos g h _ hne _
    cases vs with
    | nil => exact absurd rfl hne
    | cons v vs => simp [IvIn] at h
  | cons w ws ih =>
    intro vs pos g h hl hne hg
    cases vs with
    | nil => exact absurd rfl hne
    | cons v vs =>
      simp only [IvIn] at h
      cases v with
      | some p =>
        obtain ⟨a, e⟩ := p
        simp only at h
        obtain ⟨⟨h1, h2, h3⟩, h4⟩ := h
        refine ⟨⟨g, a - 1⟩, runsFrom (e + 1) vs, rfl, rfl, runsFrom_ne _ _, by simp only; omega, ?_, ?_, ?_⟩
        · intro x hx
          have := runsFrom_props ws vs (pos + 1 + w) (e + 1) h4 (by omega) x hx
          exact ⟨by simp only; omega, this.2⟩
        · intro a' e' vs' heq
          simp only [List.cons.injEq, Option.some.injEq, Prod.mk.injEq] at heq
          obtain ⟨⟨rfl, rfl⟩, rfl⟩ := heq
          exact ⟨rfl, rfl⟩
        · intro vs' w' ws' heq; simp at heq
      | none =>
        cases vs with
        | nil => simp [LastSome] at hl
        | cons v2 vs2 =>
          have hl' : LastSome (v2 :: vs2) := by simpa [LastSome] using hl
          obtain ⟨hh, r, e1, e2, e3, e4, e5, _, _⟩ := ih (v2 :: vs2) (pos + 1 + w) g h.2 hl' (by simp) (by omega)
          refine ⟨hh, r, by simpa [runsFrom] using e1, e2, e3, by omega, e5, ?_, ?_⟩
          · intro a e vs' heq; simp at heq
          · intro vs' w' ws' heq hw
            simp only [List.cons.injEq, true_and] at heq
            simp only [List.cons.injEq] at hw
            subst heq
            obtain ⟨rfl, _⟩ := hw
            exact ⟨by omega, e1⟩

/-- the state of a line in the walk: the runs passed, the start of the current run, the columns to come -/
structure LSt where
  pre : List Space
  g : Int
  vs : List Iv

def LSt.ln (st : LSt) : Ln :=
  match runsFrom st.g st.vs with
  | h :: r => ⟨st.pre, h, r⟩
  | [] => ⟨st.pre, ⟨st.g, -1⟩, []⟩

/-- the line after the column at the head of `vs` -/
def LSt.next (st : LSt) : LSt :=
  match st.vs with
  | some (a, e) :: vs => ⟨st.pre ++ [⟨st.g, a - 1⟩], e + 1, vs⟩
  | none :: vs => ⟨st.pre, st.g, vs⟩
  | [] => st

theorem LSt.ln_runs (st : LSt) : st.ln.runs = st.pre ++ runsFrom st.g st.vs := by
  unfold LSt.ln
  cases h : runsFrom st.g st.vs with
  | nil => exact absurd h (runsFrom_ne _ _)
  | cons x r => rfl

def headEnd : List Iv → Option Int
  | some (a, _) :: _ => some (a - 1)
  | _ => none

/-- the largest end of the blank runs that end in the next column -/
def Fof (pos : Int) (vss : List (List Iv)) : Int := fmax (pos + 1) (vss.filterMap headEnd)

def phasesOf : Int → List Nat → List (List Iv) → List (Int × Int)
  | _, [], _ => []
  | pos, w :: ws, vss => (pos + 1, Fof pos vss) :: phasesOf (pos + 1 + w) ws (vss.map List.tail)

/-- column by column: a value somewhere, and all values of the column share a byte -/
def ColsOK : Int → List Nat → List (List Iv) → Prop
  | _, [], _ => True
  | pos, w :: ws, vss =>
    (∃ vs ∈ vss, headEnd vs ≠ none) ∧
    (∀ vs ∈ vss, ∀ a e vs', vs = some (a, e) :: vs' → Fof pos vss + 1 ≤ e) ∧
    ColsOK (pos + 1 + w) ws (vss.map List.tail)

theorem dead_mono (pre : List Space) (x y : Int) (h : Dead pre x) (hxy : x ≤ y) : Dead pre y := by
  intro s hs
  have := h s hs
  exact ⟨this.1, by omega⟩

theorem ivIn_cons (pos : Int) (w : Nat) (ws : List Nat) (vs : List Iv) (h : IvIn pos (w :: ws) vs) :
    ∃ v vs', vs = v :: vs' ∧ IvIn (pos + 1 + w) ws vs' := by
  cases vs with
  | nil => simp [IvIn] at h
  | cons v vs' => simp only [IvIn] at h; exact ⟨v, vs', rfl, h.2⟩

theorem lastSome_tail (v : Iv) (vs : List Iv) (h : LastSome (v :: vs)) : LastSome vs := by
  cases vs with
  | nil => simp [LastSome]
  | cons v2 vs2 => simpa [LastSome] using h

theorem Fof_ge (pos : Int) (vss : List (List Iv)) (a e : Int) (vs' : List Iv) (h : some (a, e) :: vs' ∈ vss) :
    a - 1 ≤ Fof pos vss :=
  fmax_ge_mem _ _ _ (List.mem_filterMap.mpr ⟨_, h, rfl⟩)

theorem Fof_le (pos : Int) (w : Nat) (hw : 1 ≤ w) (ws : List Nat) (vss : List (List Iv)) (h : ∀ vs ∈ vss, IvIn pos (w :: ws) vs) :
    Fof pos vss ≤ pos + w := by
  unfold Fof
  rcases fmax_mem_or_init (pos + 1) (vss.filterMap headEnd) with h0 | h0
  · rw [h0]; omega
  · obtain ⟨vs, hvs, hx⟩ := List.mem_filterMap.mp h0
    have hin := h vs hvs
    cases vs with
    | nil => simp [headEnd] at hx
    | cons v vs' =>
      cases v with
      | none => simp [headEnd] at hx
      | some p =>
        obtain ⟨a, e⟩ := p
        simp only [headEnd, Option.some.injEq] at hx
        simp only [IvIn] at hin
        omega

theorem advance_ln (F pos : Int) (w : Nat) (ws : List Nat) (st : LSt) (hin : IvIn pos (w :: ws) st.vs) (hl : LastSome st.vs)
    (hg : st.g ≤ pos + 1) (hF1 : ∀ a e vs', st.vs = some (a, e) :: vs' → a - 1 ≤ F) (hF2 : F ≤ pos + w) :
    advance F st.ln = st.next.ln := by
  obtain ⟨v, vs', hvs, hin'⟩ := ivIn_cons pos w ws st.vs hin
  obtain ⟨pre, g, vs⟩ := st
  simp only at hvs hg hF1 hl hin
  subst hvs
  cases v with
  | some p =>
    obtain ⟨a, e⟩ := p
    have ha := hF1 a e vs' rfl
    simp only [LSt.ln, runsFrom, LSt.next]
    cases hr : runsFrom (e + 1) vs' with
    | nil => exact absurd hr (runsFrom_ne _ _)
    | cons h' r' => simp [advance, ha]
  | none =>
    have hne : vs' ≠ [] := by
      intro e; subst e; simp [LastSome] at hl
    obtain ⟨h, r, e1, _, _, _, _, _, e7⟩ := firstRun_spec (w :: ws) (none :: vs') pos g hin hl (by simp) hg
    obtain ⟨hfin, e1'⟩ := e7 vs' w ws rfl rfl
    simp only [LSt.ln, runsFrom, LSt.next, e1']
    have : ¬ h.fin ≤ F := by omega
    simp [advance, this]

theorem tableOK_cols : ∀ (ws : List Nat) (sts : List LSt) (pos lp : Int), sts ≠ [] → lp ≤ pos + 1 →
    (∀ st ∈ sts, Dead st.pre lp ∧ 1 ≤ st.g ∧ st.g ≤ pos + 1 ∧ IvIn pos ws st.vs ∧ LastSome st.vs) →
    (∃ st ∈ sts, lp ≤ st.g - 1) → (∀ w ∈ ws, 1 ≤ w) → ColsOK pos ws (sts.map (·.vs)) →
    TableOK lp (phasesOf pos ws (sts.map (·.vs))) (sts.map LSt.ln) := by
  intro ws
  induction ws with
  | nil =>
    intro sts pos lp _ _ hst _ _ _
    simp only [phasesOf, TableOK]
    intro l hl
    obtain ⟨st, hs, rfl⟩ := List.mem_map.mp hl
    obtain ⟨hd, _, _, hin, _⟩ := hst st hs
    have : st.vs = [] := by
      cases hv : st.vs with
      | nil => rfl
      | cons v vs => rw [hv] at hin; simp [IvIn] at hin
    simp [LSt.ln, this, runsFrom, hd]
  | cons w ws ih =>
    intro sts pos lp hne hlp hst hex hws hcols
    simp only [ColsOK] at hcols
    obtain ⟨hc1, hc2, hc3⟩ := hcols
    have hw1 : 1 ≤ w := hws w (by simp)
    have hFle : Fof pos (sts.map (·.vs)) ≤ pos + w :=
      Fof_le pos w hw1 ws _ (by
        intro vs hvs
        obtain ⟨st, hs, rfl⟩ := List.mem_map.mp hvs
        exact (hst st hs).2.2.2.1)
    have hspec : ∀ st ∈ sts, ∃ h r, runsFrom st.g st.vs = h :: r ∧ st.ln = ⟨st.pre, h, r⟩ ∧ h.start = st.g ∧ r ≠ [] ∧
        pos + 1 ≤ h.fin ∧ (∀ x ∈ r, h.fin + 2 ≤ x.start ∧ (x.fin = -1 ∨ x.start ≤ x.fin)) ∧
        (∀ a e vs', st.vs = some (a, e) :: vs' → h.fin = a - 1 ∧ r = runsFrom (e + 1) vs') ∧
        (∀ vs', st.vs = none :: vs' → pos + 1 + w + 1 ≤ h.fin) := by
      intro st hs
      obtain ⟨_, _, hg, hin, hl⟩ := hst st hs
      obtain ⟨v, vs', hvs, _⟩ := ivIn_cons pos w ws st.vs hin
      obtain ⟨h, r, e1, e2, e3, e4, e5, e6, e7⟩ := firstRun_spec (w :: ws) st.vs pos st.g hin hl (by rw [hvs]; simp) hg
      refine ⟨h, r, e1, by simp [LSt.ln, e1], e2, e3, e4, e5, e6, ?_⟩
      intro vs'' heq
      exact (e7 vs'' w ws heq rfl).1
    simp only [phasesOf, TableOK]
    refine ⟨hlp, fmax_ge_init _ _, ?_, ?_, ?_, ?_⟩
    · obtain ⟨st, hs, hg⟩ := hex
      obtain ⟨h, r, _, hln, hstart, _⟩ := hspec st hs
      have := phaseMax_ge (sts.map LSt.ln) st.ln (List.mem_map.mpr ⟨st, hs, rfl⟩)
      rw [hln] at this
      simp only [hstart] at this
      omega
    · -- a line whose current run ends at F
      obtain ⟨vs0, hvs0, hhe⟩ := hc1
      obtain ⟨st0, hs0, rfl⟩ := List.mem_map.mp hvs0
      have hmem : Fof pos (sts.map (·.vs)) = pos + 1 ∨ Fof pos (sts.map (·.vs)) ∈ (sts.map (·.vs)).filterMap headEnd :=
        fmax_mem_or_init _ _
      have pick : ∀ st ∈ sts, ∀ a e vs', st.vs = some (a, e) :: vs' → a - 1 = Fof pos (sts.map (·.vs)) →
          ∃ l ∈ sts.map LSt.ln, l.h.fin = Fof pos (sts.map (·.vs)) := by
        intro st hs a e vs' hv hF
        obtain ⟨h, r, _, hln, _, _, _, _, e6, _⟩ := hspec st hs
        exact ⟨st.ln, List.mem_map.mpr ⟨st, hs, rfl⟩, by rw [hln]; simp only; rw [(e6 a e vs' hv).1, hF]⟩
      rcases hmem with h0 | h0
      · cases hv : st0.vs with
        | nil => rw [hv] at hhe; simp [headEnd] at hhe
        | cons v vs' =>
          cases v with
          | none => rw [hv] at hhe; simp [headEnd] at hhe
          | some p =>
            obtain ⟨a, e⟩ := p
            have h1 := Fof_ge pos (sts.map (·.vs)) a e vs' (List.mem_map.mpr ⟨st0, hs0, hv⟩)
            have hin := (hst st0 hs0).2.2.2.1
            rw [hv] at hin
            simp only [IvIn] at hin
            exact pick st0 hs0 a e vs' hv (by omega)
      · obtain ⟨vs1, hvs1, hx⟩ := List.mem_filterMap.mp h0
        obtain ⟨st1, hs1, rfl⟩ := List.mem_map.mp hvs1
        cases hv : st1.vs with
        | nil => rw [hv] at hx; simp [headEnd] at hx
        | cons v vs' =>
          cases v with
          | none => rw [hv] at hx; simp [headEnd] at hx
          | some p =>
            obtain ⟨a, e⟩ := p
            rw [hv] at hx
            simp only [headEnd, Option.some.injEq] at hx
            exact pick st1 hs1 a e vs' hv hx
    · intro l hl
      obtain ⟨st, hs, rfl⟩ := List.mem_map.mp hl
      obtain ⟨hd, hg1, hg, hin, hlast⟩ := hst st hs
      obtain ⟨h, r, _, hln, hstart, hr, hfin, hrest, e6, e7⟩ := hspec st hs
      rw [hln]
      refine ⟨hd, by simp only [hstart]; exact hg1, by simp only [hstart]; exact hg, hfin, hr, ?_⟩
      intro x hx
      refine ⟨?_, (hrest x hx).1, (hrest x hx).2⟩
      obtain ⟨v, vs', hvs, hin'⟩ := ivIn_cons pos w ws st.vs hin
      cases v with
      | some p =>
        obtain ⟨a, e⟩ := p
        obtain ⟨_, hrr⟩ := e6 a e vs' hvs
        rw [hrr] at hx
        have h1 := (runsFrom_props ws vs' (pos + 1 + w) (e + 1) hin' (by
          have := hin; rw [hvs] at this; simp only [IvIn] at this; omega) x hx).1
        have h2 := hc2 st.vs (List.mem_map.mpr ⟨st, hs, rfl⟩) a e vs' hvs
        omega
      | none =>
        have := e7 vs' hvs
        have := (hrest x hx).1
        omega
    · -- the next column
      have hadv : (sts.map LSt.ln).map (advance (Fof pos (sts.map (·.vs)))) = (sts.map LSt.next).map LSt.ln := by
        rw [List.map_map, List.map_map]
        apply List.map_congr_left
        intro st hs
        obtain ⟨_, _, hg, hin, hlast⟩ := hst st hs
        exact advance_ln _ pos w ws st hin hlast hg
          (fun a e vs' hv => Fof_ge pos _ a e vs' (List.mem_map.mpr ⟨st, hs, hv⟩)) hFle
      have htail : (sts.map (·.vs)).map List.tail = (sts.map LSt.next).map (·.vs) := by
        rw [List.map_map, List.map_map]
        apply List.map_congr_left
        intro st hs
        obtain ⟨v, vs', hvs, _⟩ := ivIn_cons pos w ws st.vs (hst st hs).2.2.2.1
        cases v with
        | none => simp [LSt.next, hvs]
        | some p => obtain ⟨a, e⟩ := p; simp [LSt.next, hvs]
      rw [hadv, htail]
      apply ih (sts.map LSt.next) (pos + 1 + w) (Fof pos (sts.map (·.vs)) + 1) (by simpa using hne) (by omega)
      · intro st' hs'
        obtain ⟨st, hs, rfl⟩ := List.mem_map.mp hs'
        obtain ⟨hd, hg1, hg, hin, hlast⟩ := hst st hs
        obtain ⟨v, vs', hvs, hin'⟩ := ivIn_cons pos w ws st.vs hin
        have hlast' : LastSome vs' := by rw [hvs] at hlast; exact lastSome_tail v vs' hlast
        have hdm := dead_mono st.pre lp (Fof pos (sts.map (·.vs)) + 1) hd (by have := fmax_ge_init (pos + 1) ((sts.map (·.vs)).filterMap headEnd); unfold Fof; omega)
        cases v with
        | none =>
          simp only [LSt.next, hvs]
          exact ⟨hdm, hg1, by omega, hin', hlast'⟩
        | some p =>
          obtain ⟨a, e⟩ := p
          have hb := hin
          rw [hvs] at hb
          simp only [IvIn] at hb
          have hF := Fof_ge pos (sts.map (·.vs)) a e vs' (List.mem_map.mpr ⟨st, hs, hvs⟩)
          simp only [LSt.next, hvs]
          refine ⟨?_, by omega, by omega, hin', hlast'⟩
          intro x hx
          rcases List.mem_append.mp hx with h | h
          · exact hdm x h
          · simp only [List.mem_singleton] at h
            subst h
            simp only
            omega
      · obtain ⟨vs0, hvs0, hhe⟩ := hc1
        obtain ⟨st0, hs0, rfl⟩ := List.mem_map.mp hvs0
        cases hv : st0.vs with
        | nil => rw [hv] at hhe; simp [headEnd] at hhe
        | cons v vs' =>
          cases v with
          | none => rw [hv] at hhe; simp [headEnd] at hhe
          | some p =>
            obtain ⟨a, e⟩ := p
            have h2 := hc2 st0.vs (List.mem_map.mpr ⟨st0, hs0, rfl⟩) a e vs' hv
            exact ⟨st0.next, List.mem_map.mpr ⟨st0, hs0, rfl⟩, by simp only [LSt.next, hv]; omega⟩
      · exact fun x hx => hws x (by simp [hx])
      · rw [← htail]; exact hc3

end Csvq.Fixed
