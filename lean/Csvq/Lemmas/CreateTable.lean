/- Helper lemmas for Model/CreateTable.lean: table lookups, soundness of the finite agreement check, the tail rule. -/
import Csvq.Model.CreateTable
namespace Csvq.CreateTable

theorem look_some_mem {t : Table} {e : Ext} {f : Format} (h : look t e = some f) : (e, f) ∈ t := by
  induction t with
  | nil => simp [look] at h
  | cons kf t ih =>
    obtain ⟨k, g⟩ := kf
    simp only [look] at h
    split at h
    · next hk => cases h; subst hk; exact List.mem_cons_self ..
    · exact List.mem_cons_of_mem _ (ih h)

theorem agreeCheck_parts {c : Decision} {cd : Format} {l : Decision} (h : agreeCheck c cd l = true) :
    c.folds = l.folds ∧
    (∀ k f, (k, f) ∈ c.table → f.importable = true → look l.table k = some f) ∧
    (∀ k f, (k, f) ∈ l.table → look c.table k = some f ∨ (look c.table k = none ∧ f = cd)) := by
  simp only [agreeCheck, Bool.and_eq_true, List.all_eq_true, beq_iff_eq, Bool.or_eq_true, decide_eq_true_eq,
    Bool.not_eq_true'] at h
  obtain ⟨⟨h0, h1⟩, h2⟩ := h
  refine ⟨h0, ?_, ?_⟩
  · intro k f hm hi
    rcases h1 (k, f) hm with hni | hl
    · rw [hi] at hni; cases hni
    · exact hl
  · intro k f hm
    exact h2 (k, f) hm

/-- soundness of the finite check, for EVERY extension text: either both sides decide the same format, or the create
    side fell to its default on an extension the load side does not know either (then the load takes ITS default) -/
theorem agree_sound (c : Decision) (cd : Format) (l : Decision) (h : agreeCheck c cd l = true) (e : Ext) (dflt : Format)
    (hi : (c.format cd e).importable = true) :
    l.format dflt e = c.format cd e ∨ (l.format dflt e = dflt ∧ c.format cd e = cd) := by
  obtain ⟨hf, h1, h2⟩ := agreeCheck_parts h
  have hk : l.key e = c.key e := by simp [Decision.key, hf]
  unfold Decision.format at hi ⊢
  rw [hk]
  cases hc : look c.table (c.key e) with
  | some f =>
    rw [hc] at hi
    have := h1 _ f (look_some_mem hc) (by simpa using hi)
    left; simp [this]
  | none =>
    cases hl : look l.table (c.key e) with
    | none => right; simp
    | some g =>
      rcases h2 _ g (look_some_mem hl) with h3 | ⟨_, h4⟩
      · rw [hc] at h3; cases h3
      · left; simp [h4]

theorem agree_sound_default (c : Decision) (cd : Format) (l : Decision) (h : agreeCheck c cd l = true) (e : Ext)
    (hi : (c.format cd e).importable = true) : l.format cd e = c.format cd e := by
  rcases agree_sound c cd l h e cd hi with h1 | ⟨h1, h2⟩
  · exact h1
  · rw [h1, h2]

/-- a decision that folds the letter case gives every spelling of an extension the same format -/
theorem folds_spelling_irrelevant (d : Decision) (hf : d.folds = true) (dflt : Format) (e e' : Ext)
    (h : asciiLower e = asciiLower e') : d.format dflt e = d.format dflt e' := by
  simp [Decision.format, Decision.key, hf, h]

theorem appendsTail_eq (strip : Bool) (fmt : Format) (single : Bool) :
    appendsTail strip fmt single = (!strip && !(Format.eqb fmt .fixed && single)) := by
  cases strip <;> cases fmt <;> cases single <;> rfl

end Csvq.CreateTable
