/-
  Helper lemmas for Props/C05Tree.lean: Header.FieldIndex (`searchFrom`), the internal-id fields of the header of a join
  tree, the interpreter of the regenerated NATURAL loop.
-/
import Csvq.Model.JoinTree
import Csvq.Gen.JoinFacts
namespace Csvq.Dml

/-! ## the NATURAL loop -/

theorem naturalUsing_no_id (rh : List HField) : ∀ (lh : List HField) (U : List String),
    naturalUsing rh lh = .ok U → idColumn ∉ U := by
  intro lh
  induction lh with
  | nil => intro U h; simp [naturalUsing] at h; subst h; simp
  | cons f fs ih =>
    intro U h
    unfold naturalUsing at h
    by_cases hc : f.col = idColumn
    · simp only [hc, if_true] at h; exact ih U h
    · simp only [hc, if_false] at h
      cases hs : searchIdx rh "" f.col with
      | error e =>
        rw [hs] at h
        by_cases he : e = .fieldAmbiguous
        · subst he; simp at h
        · have h' : naturalUsing rh fs = .ok U := by
            cases e <;> first | exact absurd rfl he | exact h
          exact ih U h'
      | ok k =>
        rw [hs] at h
        simp only at h
        cases hr : naturalUsing rh fs with
        | error e => simp [hr] at h
        | ok U' =>
          simp only [hr] at h
          cases h
          intro hm
          rcases List.mem_cons.mp hm with h1 | h2
          · exact hc h1.symm
          · exact ih U' hr h2

def okB {α} : Except Err α → Bool
  | .ok _ => true
  | .error _ => false

/-- the keys of a NATURAL join: the columns of the left fields that are no internal-id column and that the right header
    has, in the order of the left header -/
theorem naturalUsing_eq_filter (rh : List HField) : ∀ (lh : List HField) (U : List String),
    naturalUsing rh lh = .ok U →
    U = (lh.filter fun f => decide (f.col ≠ idColumn) && okB (searchIdx rh "" f.col)).map (·.col) := by
  intro lh
  induction lh with
  | nil => intro U h; simp [naturalUsing] at h; subst h; simp
  | cons f fs ih =>
    intro U h
    unfold naturalUsing at h
    by_cases hc : f.col = idColumn
    · simp only [hc, if_true] at h
      rw [List.filter_cons]
      simp only [hc, ne_eq, not_true_eq_false, decide_false, Bool.false_and]
      exact ih U h
    · simp only [hc, if_false] at h
      rw [List.filter_cons]
      cases hs : searchIdx rh "" f.col with
      | error e =>
        have hok : okB (searchIdx rh "" f.col) = false := by rw [hs]; rfl
        rw [hs] at h
        by_cases he : e = .fieldAmbiguous
        · subst he; simp at h
        · have h' : naturalUsing rh fs = .ok U := by
            cases e <;> first | exact absurd rfl he | exact h
          simpa [okB] using ih U h'
      | ok k =>
        have hok : okB (searchIdx rh "" f.col) = true := by rw [hs]; rfl
        rw [hs] at h
        simp only at h
        cases hr : naturalUsing rh fs with
        | error e => simp [hr] at h
        | ok U' =>
          simp only [hr] at h
          cases h
          rw [ih U' hr]
          simp [okB, hc]

/-! ## the interpreter of the regenerated loop (Gen.JoinFacts.naturalLoop) -/

open Csvq.Gen.JoinFacts in
/-- the body of the loop for one left field: `none` = the field is passed over (`continue`), `some c` = c is a join key -/
def runNatBody (rh : List HField) (f : HField) : List NStep → Except Err (Option String)
  | [] => .ok none
  | .skipIfColumnIs c :: rest => if f.col = c then .ok none else runNatBody rh f rest
  | .bindRef :: rest => runNatBody rh f rest
  | .searchRight :: rest =>
    match searchIdx rh "" f.col with
    | .error .fieldAmbiguous => .error .fieldAmbiguous
    | .error _ => .ok none
    | .ok _ => runNatBody rh f rest
  | .appendKey :: _ => .ok (some f.col)
  | .other _ :: _ => .error (.other 1)

open Csvq.Gen.JoinFacts in
def runNatLoop (body : List NStep) (rh : List HField) : List HField → Except Err (List String)
  | [] => .ok []
  | f :: fs =>
    match runNatBody rh f body with
    | .error e => .error e
    | .ok none => runNatLoop body rh fs
    | .ok (some c) =>
      match runNatLoop body rh fs with
      | .error e => .error e
      | .ok U => .ok (c :: U)

open Csvq.Gen.JoinFacts in
/-- the regenerated NATURAL branch run on two headers: it must range over the WHOLE left header (`view.Header`), with nothing
    before or behind the loop -/
def interpNatural (lp : NaturalLoop) (lh rh : List HField) : Except Err (List String) :=
  if lp.pre = [] ∧ lp.post = [] ∧ lp.range = "view.Header" then runNatLoop lp.body rh lh else .error (.other 1)

/-! ## Header.FieldIndex -/

theorem searchFrom_no_hit (v c : String) (hv : v ≠ "") : ∀ (fs : List HField) (k : Nat) (found : Option Nat),
    (∀ f ∈ fs, ¬(f.view = v ∧ f.col = c)) →
    searchFrom v c fs k found = (match found with | some i => .ok i | none => .error .fieldNotExist) := by
  intro fs
  induction fs with
  | nil => intro k found _; cases found <;> rfl
  | cons f fs ih =>
    intro k found h
    unfold searchFrom
    have hf : ¬(f.view = v ∧ f.col = c) := h f List.mem_cons_self
    simp only [ne_eq, hv, not_false_eq_true, if_true, hf, if_false]
    exact ih (k + 1) found fun g hg => h g (List.mem_cons_of_mem _ hg)

/-- where a successful search ends: at a field with the searched column -/
theorem searchFrom_col (v c : String) : ∀ (fs : List HField) (k : Nat) (found : Option Nat) (r : Nat),
    searchFrom v c fs k found = .ok r →
    found = some r ∨ ∃ f, fs[r - k]? = some f ∧ k ≤ r ∧ f.col = c := by
  intro fs
  induction fs with
  | nil =>
    intro k found r h
    cases found with
    | none => simp [searchFrom] at h
    | some i => simp [searchFrom] at h; left; rw [h]
  | cons f fs ih =>
    intro k found r h
    have tail : ∀ fnd, searchFrom v c fs (k + 1) fnd = .ok r → fnd = some r ∨ ∃ g, (f :: fs)[r - k]? = some g ∧ k ≤ r ∧ g.col = c := by
      intro fnd h'
      rcases ih (k + 1) fnd r h' with h1 | ⟨g, hg, hk, hc⟩
      · exact Or.inl h1
      · refine Or.inr ⟨g, ?_, by omega, hc⟩
        have : r - k = (r - (k + 1)) + 1 := by omega
        rw [this, List.getElem?_cons_succ]; exact hg
    have here : ∀ (hc : f.col = c), searchFrom v c fs (k + 1) (some k) = .ok r →
        ∃ g, (f :: fs)[r - k]? = some g ∧ k ≤ r ∧ g.col = c := by
      intro hc h'
      rcases tail (some k) h' with h1 | h2
      · cases h1
        exact ⟨f, by simp, Nat.le_refl _, hc⟩
      · exact h2
    unfold searchFrom at h
    by_cases hv : v = ""
    · subst hv
      simp only [ne_eq, not_true_eq_false, if_false] at h
      by_cases hc : f.col = c
      · simp only [hc, if_true] at h
        by_cases hj : f.isJoin = true
        · simp only [hj, if_true] at h
          cases h
          exact Or.inr ⟨f, by simp, Nat.le_refl _, hc⟩
        · simp only [hj, Bool.false_eq_true, if_false] at h
          cases found with
          | some i => simp at h
          | none => simp only at h; exact Or.inr (here hc h)
      · simp only [hc, if_false] at h
        exact tail found h
    · simp only [ne_eq, hv, not_false_eq_true, if_true] at h
      by_cases hc : f.view = v ∧ f.col = c
      · simp only [hc, and_self, if_true] at h
        cases found with
        | some i => simp at h
        | none => simp only at h; exact Or.inr (here hc.2 h)
      · simp only [hc, if_false] at h
        exact tail found h

theorem searchIdx_col (h : List HField) (v c : String) (r : Nat) (hk : searchIdx h v c = .ok r) :
    ∃ f, h[r]? = some f ∧ f.col = c := by
  rcases searchFrom_col v c h 0 none r hk with h1 | ⟨f, hf, _, hc⟩
  · cases h1
  · exact ⟨f, by simpa using hf, hc⟩

/-! ## the internal-id fields of a header -/

/-- the internal-id columns of a header, in order: (view, accessor) -/
def idFields (h : List HField) : List (String × Get) :=
  (h.filter fun f => decide (f.col = idColumn)).map fun f => (f.view, f.get)

theorem idFields_append (a b : List HField) : idFields (a ++ b) = idFields a ++ idFields b := by
  simp [idFields]

theorem idFields_cons_id (f : HField) (fs : List HField) (h : f.col = idColumn) :
    idFields (f :: fs) = (f.view, f.get) :: idFields fs := by
  simp [idFields, h]

theorem idFields_cons_other (f : HField) (fs : List HField) (h : f.col ≠ idColumn) :
    idFields (f :: fs) = idFields fs := by
  simp [idFields, h]

theorem idFields_shift (n : Nat) (h : List HField) :
    idFields (shiftHeader n h) = (idFields h).map fun p => (p.1, p.2.shift n) := by
  induction h with
  | nil => rfl
  | cons f fs ih =>
    by_cases hc : f.col = idColumn
    · have : shiftHeader n (f :: fs) = { f with get := f.get.shift n } :: shiftHeader n fs := rfl
      rw [this, idFields_cons_id _ _ (by exact hc), idFields_cons_id _ _ hc, ih]; rfl
    · have : shiftHeader n (f :: fs) = { f with get := f.get.shift n } :: shiftHeader n fs := rfl
      rw [this, idFields_cons_other _ _ (by exact hc), idFields_cons_other _ _ hc, ih]

theorem idFields_colFields (view : String) : ∀ (cols : List String) (j : Nat), idColumn ∉ cols →
    idFields (colFields view cols j) = [] := by
  intro cols
  induction cols with
  | nil => intro j _; rfl
  | cons c cs ih =>
    intro j h
    have hc : c ≠ idColumn := fun e => h (by rw [e]; exact List.mem_cons_self)
    unfold colFields
    rw [idFields_cons_other _ _ (by exact hc)]
    exact ih (j + 1) fun hm => h (List.mem_cons_of_mem _ hm)

theorem idFields_dropIdx (d : List Nat) : ∀ (l : List HField) (k : Nat),
    (∀ j f, l[j]? = some f → (k + j) ∈ d → f.col ≠ idColumn) → idFields (dropIdx d l k) = idFields l := by
  intro l
  induction l with
  | nil => intro k _; rfl
  | cons a as ih =>
    intro k h
    have hrest : ∀ j f, as[j]? = some f → (k + 1 + j) ∈ d → f.col ≠ idColumn := by
      intro j f hj hm
      exact h (j + 1) f (by simpa using hj) (by have : k + (j + 1) = k + 1 + j := by omega
                                                rw [this]; exact hm)
    unfold dropIdx
    by_cases hk : k ∈ d
    · simp only [hk, if_true]
      have ha : a.col ≠ idColumn := h 0 a (by simp) (by simpa using hk)
      rw [idFields_cons_other _ _ ha]
      exact ih (k + 1) hrest
    · simp only [hk, if_false]
      by_cases hc : a.col = idColumn
      · rw [idFields_cons_id _ _ hc, idFields_cons_id _ _ hc, ih (k + 1) hrest]
      · rw [idFields_cons_other _ _ hc, idFields_cons_other _ _ hc, ih (k + 1) hrest]

/-- joinViews keeps every internal-id column when no included / excluded field is one -/
theorem idFields_mergeHeader (merged : List HField) (ie : List (Nat × Nat))
    (h : ∀ p ∈ ie, ∀ f, (merged[p.1]? = some f ∨ merged[p.2]? = some f) → f.col ≠ idColumn) :
    idFields (mergeHeader merged ie) = idFields merged := by
  unfold mergeHeader
  rw [idFields_append]
  have hfront : idFields (ie.filterMap (mergedField merged)) = [] := by
    induction ie with
    | nil => rfl
    | cons p ps ih =>
      have ih' := ih fun q hq => h q (List.mem_cons_of_mem _ hq)
      rw [List.filterMap_cons]
      split
      · exact ih'
      · rename_i g hg
        unfold mergedField at hg
        split at hg
        · rename_i fi fe h1 h2
          cases hg
          have : fi.col ≠ idColumn := h p List.mem_cons_self fi (Or.inl h1)
          rw [idFields_cons_other _ _ (by exact this)]
          exact ih'
        · cases hg
  rw [hfront, List.nil_append]
  apply idFields_dropIdx
  intro j f hj hm
  simp only [Nat.zero_add, List.mem_append, List.mem_map] at hm
  rcases hm with ⟨p, hp, rfl⟩ | ⟨p, hp, rfl⟩
  · exact h p hp f (Or.inl hj)
  · exact h p hp f (Or.inr hj)

/-- the expected internal-id fields of a tree: one per updatable leaf, in FROM order, with the leaf's position -/
def leafIds : List (Option String) → Nat → List (String × Get)
  | [], _ => []
  | some n :: r, p => (n, .id p) :: leafIds r (p + 1)
  | none :: r, p => leafIds r (p + 1)

theorem leafIds_append : ∀ (a b : List (Option String)) (p : Nat),
    leafIds (a ++ b) p = leafIds a p ++ leafIds b (p + a.length) := by
  intro a
  induction a with
  | nil => intro b p; simp [leafIds]
  | cons x xs ih =>
    intro b p
    have e : p + 1 + xs.length = p + (xs.length + 1) := by omega
    cases x with
    | none => simp only [List.cons_append, leafIds, ih, List.length_cons, e]
    | some n => simp only [List.cons_append, leafIds, ih, List.length_cons, e]

theorem leafIds_shift (n : Nat) : ∀ (l : List (Option String)) (p : Nat),
    (leafIds l p).map (fun q => (q.1, q.2.shift n)) = leafIds l (p + n) := by
  intro l
  induction l with
  | nil => intro p; rfl
  | cons x xs ih =>
    intro p
    have e : p + n + 1 = p + 1 + n := by omega
    cases x with
    | none => simp only [leafIds]; rw [ih (p + 1), e]
    | some m => simp only [leafIds, List.map_cons, Get.shift]; rw [ih (p + 1), e]

theorem leafIds_names : ∀ (l : List (Option String)) (p : Nat), (leafIds l p).map Prod.fst = l.filterMap id := by
  intro l
  induction l with
  | nil => intro p; rfl
  | cons x xs ih =>
    intro p
    cases x with
    | none => simp only [leafIds]; rw [ih (p + 1)]; rfl
    | some m => simp only [leafIds, List.map_cons]; rw [ih (p + 1)]; rfl

theorem leafIds_mem : ∀ (l : List (Option String)) (k p : Nat) (n : String), l[p]? = some (some n) →
    (n, Get.id (k + p)) ∈ leafIds l k := by
  intro l
  induction l with
  | nil => intro k p n h; simp at h
  | cons x xs ih =>
    intro k p n h
    cases p with
    | zero =>
      simp at h
      subst h
      simp [leafIds]
    | succ q =>
      have hq : xs[q]? = some (some n) := by simpa using h
      have := ih (k + 1) q n hq
      have e : k + 1 + q = k + (q + 1) := by omega
      rw [e] at this
      cases x with
      | none => simpa [leafIds] using this
      | some m => simp only [leafIds]; exact List.mem_cons_of_mem _ this

/-- a qualified search for the internal-id column of a view that has exactly one finds it -/
theorem searchFrom_idField (v : String) (hv : v ≠ "") : ∀ (h : List HField) (k : Nat) (g : Get),
    ((idFields h).map Prod.fst).Nodup → (v, g) ∈ idFields h →
    ∃ i f, searchFrom v idColumn h k none = .ok (k + i) ∧ h[i]? = some f ∧ f.get = g := by
  intro h
  induction h with
  | nil => intro k g _ hm; simp [idFields] at hm
  | cons f fs ih =>
    intro k g hn hm
    unfold searchFrom
    simp only [ne_eq, hv, not_false_eq_true, if_true]
    by_cases hc : f.col = idColumn
    · rw [idFields_cons_id _ _ hc] at hn hm
      simp only [List.map_cons, List.nodup_cons] at hn
      by_cases hvw : f.view = v
      · have hit : f.view = v ∧ f.col = idColumn := ⟨hvw, hc⟩
        simp only [hit, and_self, if_true]
        have hno : ∀ x ∈ fs, ¬(x.view = v ∧ x.col = idColumn) := by
          intro x hx hxx
          apply hn.1
          rw [hvw]
          have : (x.view, x.get) ∈ idFields fs := by
            simp only [idFields, List.mem_map, List.mem_filter, decide_eq_true_eq]
            exact ⟨x, ⟨hx, hxx.2⟩, rfl⟩
          have := List.mem_map_of_mem (f := Prod.fst) this
          rw [← hxx.1]; exact this
        rw [searchFrom_no_hit v idColumn hv fs (k + 1) (some k) hno]
        refine ⟨0, f, rfl, by simp, ?_⟩
        cases hm with
        | head => rfl
        | tail _ hm' =>
          exfalso
          apply hn.1
          rw [hvw]
          exact List.mem_map_of_mem (f := Prod.fst) hm'
      · have nohit : ¬(f.view = v ∧ f.col = idColumn) := fun hh => hvw hh.1
        simp only [nohit, if_false]
        have hm' : (v, g) ∈ idFields fs := by
          cases hm with
          | head => exact absurd rfl hvw
          | tail _ h' => exact h'
        obtain ⟨i, x, h1, h2, h3⟩ := ih (k + 1) g hn.2 hm'
        refine ⟨i + 1, x, ?_, by simpa using h2, h3⟩
        rw [h1]; congr 1; omega
    · rw [idFields_cons_other _ _ hc] at hn hm
      have nohit : ¬(f.view = v ∧ f.col = idColumn) := fun hh => hc hh.2
      simp only [nohit, if_false]
      obtain ⟨i, x, h1, h2, h3⟩ := ih (k + 1) g hn hm
      refine ⟨i + 1, x, ?_, by simpa using h2, h3⟩
      rw [h1]; congr 1; omega

/-! ## USING references point at USING columns -/

theorem usingRefs_cols (lh rh : List HField) : ∀ (U seen : List String) (refs : List ((String × String) × (String × String))),
    usingRefs lh rh seen U = .ok refs → ∀ r ∈ refs, r.1.2 ∈ U ∧ r.2.2 ∈ U := by
  intro U
  induction U with
  | nil => intro seen refs h r hr; simp [usingRefs] at h; subst h; cases hr
  | cons v vs ih =>
    intro seen refs h r hr
    unfold usingRefs at h
    split at h
    · cases h
    · split at h
      · cases h
      · split at h
        · cases h
        · split at h
          · cases h
          · rename_i rest hrest
            cases h
            cases hr with
            | head => exact ⟨List.mem_cons_self, List.mem_cons_self⟩
            | tail _ hm =>
              obtain ⟨a, b⟩ := ih (v :: seen) rest hrest r hm
              exact ⟨List.mem_cons_of_mem _ a, List.mem_cons_of_mem _ b⟩

theorem resolveRefs_cols (merged : List HField) (U : List String) :
    ∀ (refs : List ((String × String) × (String × String))) (pairs : List (Nat × Nat)),
    (∀ r ∈ refs, r.1.2 ∈ U ∧ r.2.2 ∈ U) → resolveRefs merged refs = .ok pairs →
    ∀ p ∈ pairs, ∀ f, (merged[p.1]? = some f ∨ merged[p.2]? = some f) → f.col ∈ U := by
  intro refs
  induction refs with
  | nil => intro pairs _ h p hp; simp [resolveRefs] at h; subst h; cases hp
  | cons r rs ih =>
    intro pairs hU h p hp f hf
    obtain ⟨l, rr⟩ := r
    unfold resolveRefs at h
    split at h
    · cases h
    · rename_i i hi
      split at h
      · cases h
      · rename_i j hj
        split at h
        · cases h
        · rename_i ps hps
          cases h
          cases hp with
          | head =>
            have hu := hU (l, rr) List.mem_cons_self
            rcases hf with hf | hf
            · obtain ⟨g, hg, hc⟩ := searchIdx_col merged l.1 l.2 i hi
              simp only at hf
              rw [hg] at hf; cases hf; rw [hc]; exact hu.1
            · obtain ⟨g, hg, hc⟩ := searchIdx_col merged rr.1 rr.2 j hj
              simp only at hf
              rw [hg] at hf; cases hf; rw [hc]; exact hu.2
          | tail _ hm =>
            exact ih ps (fun q hq => hU q (List.mem_cons_of_mem _ hq)) hps p hm f hf

/-! ## the internal-id fields of a joined view -/

/-- no table has a column with the name of the internal-id column -/
def NoIdCols (ts : Tables) : Prop := ∀ n t, lookupT ts n = some t → idColumn ∉ t.header

theorem getCopy_lookup' (ts : Tables) (n : String) (t : Table) (h : getCopy ts n = .ok t) : lookupT ts n = some t := by
  unfold getCopy at h
  split at h
  · cases h
  · cases h; assumption

theorem joinTViews_ids (eqv : Cell → Cell → Tern) (lv rv v : TView) (spec : JoinSpec)
    (hc : match spec with | .using _ (some U) => idColumn ∉ U | _ => True)
    (h : joinTViews eqv lv rv spec = .ok v) :
    idFields v.header = idFields lv.header ++ (idFields rv.header).map (fun p => (p.1, p.2.shift lv.widths.length)) ∧
    v.widths = lv.widths ++ rv.widths := by
  have base : idFields (lv.header ++ shiftHeader lv.widths.length rv.header) =
      idFields lv.header ++ (idFields rv.header).map (fun p => (p.1, p.2.shift lv.widths.length)) := by
    rw [idFields_append, idFields_shift]
  cases spec with
  | cross =>
    simp only [joinTViews] at h
    cases h
    exact ⟨base, rfl⟩
  | on dir f =>
    simp only [joinTViews] at h
    split at h
    · cases h
    · cases h; exact ⟨base, rfl⟩
  | «using» dir cols =>
    simp only [joinTViews] at h
    split at h
    · cases h
    · -- no common column
      split at h
      · cases h
      · cases h; exact ⟨base, rfl⟩
    · rename_i U hne hU
      have hclean : idColumn ∉ U := by
        cases cols with
        | some U' => simp only at hU; cases hU; exact hc
        | none => simp only at hU; exact naturalUsing_no_id _ _ _ hU
      split at h
      · cases h
      · rename_i refs hrefs
        split at h
        · cases h
        · rename_i pairs hpairs
          split at h
          · cases h
          · cases h
            refine ⟨?_, rfl⟩
            simp only
            rw [← base]
            apply idFields_mergeHeader
            have hcols := resolveRefs_cols _ U refs pairs (usingRefs_cols _ _ U [] refs hrefs) hpairs
            intro p hp f hf hfc
            have key : ∀ q ∈ pairs, ∀ g, ((lv.header ++ shiftHeader lv.widths.length rv.header)[q.1]? = some g ∨
                (lv.header ++ shiftHeader lv.widths.length rv.header)[q.2]? = some g) → g.col ≠ idColumn :=
              fun q hq g hg e => hclean (by rw [← e]; exact hcols q hq g hg)
            split at hp
            · obtain ⟨q, hq, rfl⟩ := List.mem_map.mp hp
              exact key q hq f (by simpa using hf.symm) hfc
            · exact key p hp f hf hfc

theorem leafView_ids (ts : Tables) (hn : NoIdCols ts) (s : Src) (v : TView) (h : leafView ts s = .ok v) :
    idFields v.header = leafIds (Tree.leaf s).leaves 0 ∧ v.widths.length = (Tree.leaf s).leaves.length := by
  cases s with
  | table n =>
    simp only [leafView] at h
    split at h
    · cases h
    · rename_i t ht
      cases h
      have := hn n t (getCopy_lookup' ts n t ht)
      refine ⟨?_, rfl⟩
      show idFields (_ :: colFields n t.header 0) = leafIds [some n] 0
      rw [idFields_cons_id _ _ rfl, idFields_colFields n t.header 0 this]; rfl
  | inline a src =>
    simp only [leafView] at h
    split at h
    · cases h
    · rename_i t ht
      cases h
      have := hn src t (getCopy_lookup' ts src t ht)
      refine ⟨?_, rfl⟩
      show idFields (colFields a t.header 0) = leafIds [none] 0
      rw [idFields_colFields a t.header 0 this]; rfl

theorem treeView_ids (ts : Tables) (eqv : Cell → Cell → Tern) (hn : NoIdCols ts) : ∀ (tree : Tree) (v : TView),
    tree.usingClean → treeView ts eqv tree = .ok v →
    idFields v.header = leafIds tree.leaves 0 ∧ v.widths.length = tree.leaves.length := by
  intro tree
  induction tree with
  | leaf s => intro v _ h; exact leafView_ids ts hn s v h
  | join l r spec ihl ihr =>
    intro v hc h
    simp only [treeView] at h
    split at h
    · cases h
    · rename_i lv hl
      split at h
      · cases h
      · rename_i rv hr
        obtain ⟨hcl, hcr, hcs⟩ := hc
        obtain ⟨il, wl⟩ := ihl lv hcl hl
        obtain ⟨ir, wr⟩ := ihr rv hcr hr
        obtain ⟨i, w⟩ := joinTViews_ids eqv lv rv v spec hcs h
        refine ⟨?_, ?_⟩
        · rw [i, il, ir, leafIds_shift, Tree.leaves, leafIds_append, wl, Nat.zero_add]
        · rw [w, Tree.leaves, List.length_append, List.length_append, wl, wr]

/-- THE INTERNAL IDS SURVIVE: in the header of the joined view of any tree the internal-id column of the updatable table at
    leaf `p` is found by its view name, unambiguously, and reads that leaf's id -/
theorem idOfRef_tree (ts : Tables) (eqv : Cell → Cell → Tern) (hn : NoIdCols ts) (tree : Tree) (v : TView)
    (hc : tree.usingClean) (hd : (tree.leaves.filterMap id).Nodup) (h : treeView ts eqv tree = .ok v)
    (p : Nat) (n : String) (hne : n ≠ "") (hp : tree.leaves[p]? = some (some n)) :
    (∃ k f, searchIdx v.header n idColumn = .ok k ∧ v.header[k]? = some f ∧ f.get = .id p) ∧
    ∀ jr, idOfRef v.header n jr = jid p jr := by
  obtain ⟨hi, _⟩ := treeView_ids ts eqv hn tree v hc h
  have hm : (n, Get.id p) ∈ idFields v.header := by
    rw [hi]
    have := leafIds_mem tree.leaves 0 p n hp
    simpa using this
  have hnd : ((idFields v.header).map Prod.fst).Nodup := by rw [hi, leafIds_names]; exact hd
  obtain ⟨i, f, h1, h2, h3⟩ := searchFrom_idField n hne v.header 0 (.id p) hnd hm
  rw [Nat.zero_add] at h1
  refine ⟨⟨i, f, h1, h2, h3⟩, ?_⟩
  intro jr
  unfold idOfRef
  have : searchIdx v.header n idColumn = .ok i := h1
  rw [this]
  simp only [h2, Option.bind_some, h3, Get.asId]

end Csvq.Dml
