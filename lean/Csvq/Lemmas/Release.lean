/- Invariants of the release side (Model/Release.lean): for every schedule of steps of the releasing process
   (succeeding or failing), of other processes entering / leaving and of a kill. -/
import Csvq.Model.Release
namespace Csvq.Release
open Csvq.Retry

theorem safeOrder_tail {st : RStep} {rest : List RStep} (h : safeOrder (st :: rest) = true) : safeOrder rest = true := by
  simp only [safeOrder, Bool.and_eq_true] at h; exact h.2

theorem safeOrder_after_lock {st : RStep} {rest : List RStep} (h : safeOrder (st :: rest) = true)
    (hl : st.op = .closeCF .lock) : ∀ r ∈ rest, touchesData true r.op = false ∧ tempOp r.op = false := by
  simp only [safeOrder, hl, if_true, Bool.and_eq_true, List.all_eq_true] at h
  intro r hr
  have := h.1 r hr
  simpa using this

theorem touchesData_mono (c : Bool) (op : RelOp) (h : touchesData true op = false) : touchesData c op = false := by
  cases op <;> simp_all [touchesData]

/-- the invariant of a release under way -/
structure Inv (s : St) : Prop where
  untouched : s.touchedUnlocked = false
  free : s.inTheWay = false
  since : s.otherSince = true → s.mine.lock = false
  noStale : s.mine.lock = false → s.mine.temp = true → s.tempFailed = true
  tempTodo : s.mine.lock = true → s.mine.temp = true → s.tempFailed = true ∨ s.pending = [] ∨ ∃ r ∈ s.pending, tempOp r.op = true
  dataDone : s.mine.lock = false → ∀ r ∈ s.pending, touchesData s.created r.op = false
  order : safeOrder s.pending = true

theorem inv_start (mine : Mine) (created : Bool) (prog : List RStep) (hwf : wellFormed mine created = true)
    (ho : safeOrder prog = true) (ht : mine.temp = true → disposesTemp prog = true)
    (hs : mine.lock = true ∨ prog.all (fun r => !touchesData created r.op) = true) : Inv (start mine created prog) := by
  simp only [wellFormed, Bool.and_eq_true, Bool.or_eq_true, Bool.not_eq_true'] at hwf
  refine ⟨rfl, rfl, by simp [start], ?_, ?_, ?_, ho⟩
  · intro hl htemp
    simp only [start] at hl htemp
    rcases hwf.1 with h | h <;> simp_all
  · intro _ htemp
    simp only [start] at htemp ⊢
    right; right
    have := ht htemp
    simpa [disposesTemp, List.any_eq_true] using this
  · intro hl r hr
    simp only [start] at hl hr ⊢
    rcases hs with h | h
    · simp_all
    · have := List.all_eq_true.mp h r hr
      simpa using this

theorem mine_set_lock (m : Mine) (f : CF) (b : Bool) (hf : f ≠ .lock) : (m.set f b).lock = m.lock := by
  cases f <;> simp_all [Mine.set]

theorem mine_set_temp (m : Mine) (f : CF) (b : Bool) (hf : f ≠ .temp) : (m.set f b).temp = m.temp := by
  cases f <;> simp_all [Mine.set]

theorem inv_step (s : St) (e : Ev) (h : Inv s) : Inv (step s e) := by
  cases e with
  | otherEnter =>
    simp only [step]
    by_cases hl : s.mine.lock = true
    · simp only [hl, if_true]; exact h
    · have hl' : s.mine.lock = false := by simpa using hl
      simp only [hl', Bool.false_eq_true, if_false]
      refine ⟨h.untouched, ?_, fun _ => hl', h.noStale, h.tempTodo, h.dataDone, h.order⟩
      simp only [h.free, Bool.false_or, Bool.and_eq_false_iff]
      by_cases ht : s.mine.temp = true
      · right; simp [h.noStale hl' ht]
      · left; simpa using ht
  | otherLeave => exact ⟨h.untouched, h.free, h.since, h.noStale, h.tempTodo, h.dataDone, h.order⟩
  | kill =>
    refine ⟨h.untouched, h.free, h.since, h.noStale, ?_, ?_, by simp [step, safeOrder]⟩
    · intro _ _; right; left; rfl
    · intro _ r hr; simp [step] at hr
  | stepA fails =>
    simp only [step]
    cases hp : s.pending with
    | nil => exact h
    | cons st rest =>
      simp only
      have hord : safeOrder (st :: rest) = true := by rw [← hp]; exact h.order
      have hord' := safeOrder_tail hord
      -- the table's file is not touched after another process could hold it
      have hunt : (s.touchedUnlocked || (s.otherSince && touchesData s.created st.op && !fails)) = false := by
        rw [h.untouched, Bool.false_or]
        cases hs : s.otherSince with
        | false => simp
        | true =>
          have hl := h.since hs
          have := h.dataDone hl st (by rw [hp]; exact List.mem_cons_self)
          simp [this]
      cases fails with
      | true =>
        simp only [if_true]
        cases hon : st.onErr with
        | stop =>
          simp only
          refine ⟨hunt, h.free, h.since, ?_, ?_, ?_, by simp [safeOrder]⟩
          · intro hl ht; simp only at hl ht ⊢; simp [h.noStale hl ht]
          · intro _ _; right; left; rfl
          · intro _ r hr; simp at hr
        | collect =>
          simp only
          refine ⟨hunt, h.free, h.since, ?_, ?_, ?_, hord'⟩
          · intro hl ht; simp only at hl ht ⊢; simp [h.noStale hl ht]
          · intro hl ht
            simp only at hl ht ⊢
            rcases h.tempTodo hl ht with a | a | ⟨r, hr, hr2⟩
            · left; simp [a]
            · rw [hp] at a; cases a
            · rw [hp] at hr
              rcases List.mem_cons.mp hr with e | e
              · subst e; left; simp [hr2]
              · right; right; exact ⟨r, e, hr2⟩
          · intro hl r hr
            exact h.dataDone hl r (by rw [hp]; exact List.mem_cons_of_mem _ hr)
        | ignore =>
          simp only
          refine ⟨hunt, h.free, h.since, ?_, ?_, ?_, hord'⟩
          · intro hl ht; simp only at hl ht ⊢; simp [h.noStale hl ht]
          · intro hl ht
            simp only at hl ht ⊢
            rcases h.tempTodo hl ht with a | a | ⟨r, hr, hr2⟩
            · left; simp [a]
            · rw [hp] at a; cases a
            · rw [hp] at hr
              rcases List.mem_cons.mp hr with e | e
              · subst e; left; simp [hr2]
              · right; right; exact ⟨r, e, hr2⟩
          · intro hl r hr
            exact h.dataDone hl r (by rw [hp]; exact List.mem_cons_of_mem _ hr)
      | false =>
        simp only [Bool.false_eq_true, if_false]
        -- what remains of the obligations about pending steps, for a step that is not the removal of `.lock`
        have todoRest : st.op ≠ .closeCF .lock → tempOp st.op = false → s.mine.lock = true → s.mine.temp = true →
            s.tempFailed = true ∨ rest = [] ∨ ∃ r ∈ rest, tempOp r.op = true := by
          intro _ hnt hl ht
          rcases h.tempTodo hl ht with a | a | ⟨r, hr, hr2⟩
          · left; exact a
          · rw [hp] at a; cases a
          · rw [hp] at hr
            rcases List.mem_cons.mp hr with e | e
            · subst e; rw [hnt] at hr2; cases hr2
            · right; right; exact ⟨r, e, hr2⟩
        have dataRest : s.mine.lock = false → ∀ r ∈ rest, touchesData s.created r.op = false := by
          intro hl r hr
          exact h.dataDone hl r (by rw [hp]; exact List.mem_cons_of_mem _ hr)
        cases hop : st.op with
        | closeFp =>
          rw [hop] at hunt
          simp only [applyOp]
          exact ⟨hunt, h.free, h.since, h.noStale, todoRest (by simp [hop]) (by simp [hop, tempOp]), dataRest, hord'⟩
        | closeTempFp =>
          rw [hop] at hunt
          simp only [applyOp]
          exact ⟨hunt, h.free, h.since, h.noStale, todoRest (by simp [hop]) (by simp [hop, tempOp]), dataRest, hord'⟩
        | removeCreated =>
          rw [hop] at hunt
          simp only [applyOp]
          refine ⟨hunt, h.free, h.since, h.noStale, todoRest (by simp [hop]) (by simp [hop, tempOp]), ?_, hord'⟩
          intro hl r hr
          have := dataRest hl r hr
          cases hr2 : r.op <;> simp_all [touchesData]
        | renameTemp =>
          rw [hop] at hunt
          simp only [applyOp]
          refine ⟨hunt, h.free, ?_, ?_, ?_, ?_, hord'⟩
          · intro hs; simpa [Mine.set] using h.since hs
          · intro _ ht; simp [Mine.set] at ht
          · intro _ ht; simp [Mine.set] at ht
          · intro hl r hr; exact dataRest (by simpa [Mine.set] using hl) r hr
        | closeCF f =>
          rw [hop] at hunt
          simp only [applyOp]
          cases f with
          | lock =>
            have hafter := safeOrder_after_lock hord hop
            refine ⟨hunt, h.free, ?_, ?_, ?_, ?_, hord'⟩
            · intro _; simp [Mine.set]
            · intro _ ht
              have ht' : s.mine.temp = true := by simpa [Mine.set] using ht
              by_cases hl : s.mine.lock = true
              · rcases h.tempTodo hl ht' with a | a | ⟨r, hr, hr2⟩
                · exact a
                · rw [hp] at a; cases a
                · rw [hp] at hr
                  rcases List.mem_cons.mp hr with e | e
                  · subst e; rw [hop] at hr2; simp [tempOp] at hr2
                  · have := (hafter r e).2; rw [this] at hr2; cases hr2
              · exact h.noStale (by simpa using hl) ht'
            · intro hl; simp [Mine.set] at hl
            · intro _ r hr
              exact touchesData_mono _ _ (hafter r hr).1
          | rlock =>
            refine ⟨hunt, h.free, ?_, ?_, ?_, ?_, hord'⟩
            · intro hs; simpa [Mine.set] using h.since hs
            · intro hl ht; exact h.noStale (by simpa [Mine.set] using hl) (by simpa [Mine.set] using ht)
            · intro hl ht
              exact todoRest (by simp [hop]) (by simp [hop, tempOp]) (by simpa [Mine.set] using hl) (by simpa [Mine.set] using ht)
            · intro hl r hr; exact dataRest (by simpa [Mine.set] using hl) r hr
          | temp =>
            refine ⟨hunt, h.free, ?_, ?_, ?_, ?_, hord'⟩
            · intro hs; simpa [Mine.set] using h.since hs
            · intro _ ht; simp [Mine.set] at ht
            · intro _ ht; simp [Mine.set] at ht
            · intro hl r hr; exact dataRest (by simpa [Mine.set] using hl) r hr

theorem inv_run (evs : List Ev) : ∀ (s : St), Inv s → Inv (run s evs) := by
  induction evs with
  | nil => intro s h; exact h
  | cons e es ih => intro s h; exact ih (step s e) (inv_step s e h)

/-! ### reporting -/

def noKill (evs : List Ev) : Bool := evs.all (fun e => e != .kill)

/-- nothing is dropped, and a control file that is still there has been reported or is still to be removed -/
structure Rep (s : St) : Prop where
  heard : s.dropped = 0
  noIgn : noIgnore s.pending = true
  lock : s.mine.lock = true → 0 < s.errs ∨ ∃ r ∈ s.pending, r.op = .closeCF .lock
  rlock : s.mine.rlock = true → 0 < s.errs ∨ ∃ r ∈ s.pending, r.op = .closeCF .rlock
  temp : s.mine.temp = true → 0 < s.errs ∨ ∃ r ∈ s.pending, tempOp r.op = true

theorem rep_start (mine : Mine) (created : Bool) (prog : List RStep) (hn : noIgnore prog = true)
    (ha : releasesAll prog = true) : Rep (start mine created prog) := by
  simp only [releasesAll, Bool.and_eq_true, List.any_eq_true, beq_iff_eq] at ha
  obtain ⟨⟨⟨r1, h1, e1⟩, ⟨r2, h2, e2⟩⟩, ⟨r3, h3, e3⟩⟩ := ha
  exact ⟨rfl, hn, fun _ => Or.inr ⟨r1, h1, e1⟩, fun _ => Or.inr ⟨r2, h2, e2⟩, fun _ => Or.inr ⟨r3, h3, e3⟩⟩

theorem rep_step (s : St) (e : Ev) (hk : e ≠ .kill) (h : Rep s) : Rep (step s e) := by
  cases e with
  | kill => exact absurd rfl hk
  | otherEnter =>
    simp only [step]
    split
    · exact h
    · exact ⟨h.heard, h.noIgn, h.lock, h.rlock, h.temp⟩
  | otherLeave => exact ⟨h.heard, h.noIgn, h.lock, h.rlock, h.temp⟩
  | stepA fails =>
    simp only [step]
    cases hp : s.pending with
    | nil => exact h
    | cons st rest =>
      simp only
      have hn : noIgnore (st :: rest) = true := by rw [← hp]; exact h.noIgn
      simp only [noIgnore, List.all_cons, Bool.and_eq_true] at hn
      have hn' : noIgnore rest = true := hn.2
      cases fails with
      | true =>
        simp only [if_true]
        cases hon : st.onErr with
        | stop =>
          exact ⟨h.heard, by simp [noIgnore], fun _ => Or.inl (by simp), fun _ => Or.inl (by simp), fun _ => Or.inl (by simp)⟩
        | collect =>
          exact ⟨h.heard, hn', fun _ => Or.inl (by simp), fun _ => Or.inl (by simp), fun _ => Or.inl (by simp)⟩
        | ignore => simp [hon] at hn
      | false =>
        simp only [Bool.false_eq_true, if_false]
        have keep : ∀ (P : RelOp → Prop), ¬ P st.op → (0 < s.errs ∨ ∃ r ∈ s.pending, P r.op) →
            (0 < s.errs ∨ ∃ r ∈ rest, P r.op) := by
          intro P hnp hh
          rcases hh with a | ⟨r, hr, hr2⟩
          · left; exact a
          · rw [hp] at hr
            rcases List.mem_cons.mp hr with e | e
            · subst e; exact absurd hr2 hnp
            · right; exact ⟨r, e, hr2⟩
        cases hop : st.op with
        | closeFp =>
          simp only [applyOp]
          exact ⟨h.heard, hn', fun a => keep (· = .closeCF .lock) (by simp [hop]) (h.lock a),
            fun a => keep (· = .closeCF .rlock) (by simp [hop]) (h.rlock a),
            fun a => keep (fun o => tempOp o = true) (by simp [hop, tempOp]) (h.temp a)⟩
        | closeTempFp =>
          simp only [applyOp]
          exact ⟨h.heard, hn', fun a => keep (· = .closeCF .lock) (by simp [hop]) (h.lock a),
            fun a => keep (· = .closeCF .rlock) (by simp [hop]) (h.rlock a),
            fun a => keep (fun o => tempOp o = true) (by simp [hop, tempOp]) (h.temp a)⟩
        | removeCreated =>
          simp only [applyOp]
          exact ⟨h.heard, hn', fun a => keep (· = .closeCF .lock) (by simp [hop]) (h.lock a),
            fun a => keep (· = .closeCF .rlock) (by simp [hop]) (h.rlock a),
            fun a => keep (fun o => tempOp o = true) (by simp [hop, tempOp]) (h.temp a)⟩
        | renameTemp =>
          simp only [applyOp]
          refine ⟨h.heard, hn', fun a => keep (· = .closeCF .lock) (by simp [hop]) (h.lock (by simpa [Mine.set] using a)),
            fun a => keep (· = .closeCF .rlock) (by simp [hop]) (h.rlock (by simpa [Mine.set] using a)), ?_⟩
          intro a; simp [Mine.set] at a
        | closeCF f =>
          simp only [applyOp]
          cases f with
          | lock =>
            refine ⟨h.heard, hn', ?_, fun a => keep (· = .closeCF .rlock) (by simp [hop]) (h.rlock (by simpa [Mine.set] using a)),
              fun a => keep (fun o => tempOp o = true) (by simp [hop, tempOp]) (h.temp (by simpa [Mine.set] using a))⟩
            intro a; simp [Mine.set] at a
          | rlock =>
            refine ⟨h.heard, hn', fun a => keep (· = .closeCF .lock) (by simp [hop]) (h.lock (by simpa [Mine.set] using a)), ?_,
              fun a => keep (fun o => tempOp o = true) (by simp [hop, tempOp]) (h.temp (by simpa [Mine.set] using a))⟩
            intro a; simp [Mine.set] at a
          | temp =>
            refine ⟨h.heard, hn', fun a => keep (· = .closeCF .lock) (by simp [hop]) (h.lock (by simpa [Mine.set] using a)),
              fun a => keep (· = .closeCF .rlock) (by simp [hop]) (h.rlock (by simpa [Mine.set] using a)), ?_⟩
            intro a; simp [Mine.set] at a

theorem rep_run (evs : List Ev) : ∀ (s : St), noKill evs = true → Rep s → Rep (run s evs) := by
  induction evs with
  | nil => intro s _ h; exact h
  | cons e es ih =>
    intro s hk h
    simp only [noKill, List.all_cons, Bool.and_eq_true, bne_iff_ne, ne_eq] at hk
    exact ih (step s e) (by simpa [noKill] using hk.2) (rep_step s e hk.1 h)

/-- a function all of whose steps collect their errors goes through ALL its steps, whatever fails -/
def countA : List Ev → Nat
  | [] => 0
  | .stepA _ :: es => countA es + 1
  | _ :: es => countA es

theorem collect_pending (evs : List Ev) : ∀ (s : St), allCollect s.pending = true → noKill evs = true →
    (run s evs).pending = s.pending.drop (countA evs) := by
  induction evs with
  | nil => intro s _ _; simp [run, countA]
  | cons e es ih =>
    intro s hc hk
    simp only [noKill, List.all_cons, Bool.and_eq_true, bne_iff_ne, ne_eq] at hk
    have hk2 : noKill es = true := by simpa [noKill] using hk.2
    simp only [run, List.foldl] at ih ⊢
    cases e with
    | kill => exact absurd rfl hk.1
    | otherEnter =>
      have hp : (step s .otherEnter).pending = s.pending := by simp only [step]; split <;> rfl
      have := ih (step s .otherEnter) (by rw [hp]; exact hc) hk2
      rw [this, hp]; simp [countA]
    | otherLeave =>
      have := ih (step s .otherLeave) hc hk2
      rw [this]; simp [countA, step]
    | stepA fails =>
      cases hp : s.pending with
      | nil =>
        have hs : step s (.stepA fails) = s := by simp [step, hp]
        rw [hs]
        have := ih s hc hk2
        rw [this, hp]; simp
      | cons st rest =>
        have hc' : allCollect (st :: rest) = true := by rw [← hp]; exact hc
        simp only [allCollect, List.all_cons, Bool.and_eq_true, beq_iff_eq] at hc'
        have hpend : (step s (.stepA fails)).pending = rest := by
          simp only [step, hp]
          cases fails with
          | true => simp [hc'.1]
          | false => cases st.op <;> simp [applyOp]
        have := ih (step s (.stepA fails)) (by rw [hpend]; exact hc'.2) hk2
        rw [this, hpend]; simp [countA]

end Csvq.Release
