/-
  What one call on one block's map is in the model of C15 (Csvq/Model/Scope.lean), as an interpretation
  `call : String → Block → OpRes Block P` of the walks regenerated from reference_scope.go
  (Csvq/Gen/ScopeFacts.lean), and the lemmas that the regenerated walks, run on it, are the model's
  getVar / setVar / disposeVar / declareVar / getFn / disposeFn / declareFn / cursor lookup.
-/
import Csvq.Lemmas.Scope
import Csvq.Gen.ScopeFacts
namespace Csvq.Scope
open Csvq Csvq.ScopeGen

private def miss {P : Type} (b : Block) (p : P) : OpRes Block P := ⟨b, false, false, false, p⟩

/-- VariableMap.Get / Set / Dispose / Add / Declare for the variable `x` (and the value `v`); a temporary table is
    the variable holding its rows: ViewMap.Exists / Set / DisposeTemporaryTable -/
def varCall (x : Nat) (v : SVal) : String → Block → OpRes Block (Option SVal)
  | "Variables.Get", b => ⟨b, (aget x b.vars).isSome, false, false, aget x b.vars⟩
  | "Variables.Set", b =>
    match aget x b.vars with
    | some _ => ⟨{ b with vars := aset x v b.vars }, true, false, false, none⟩
    | none => miss b none
  | "Variables.Dispose", b =>
    match aget x b.vars with
    | some _ => ⟨{ b with vars := adel x b.vars }, true, false, false, none⟩
    | none => miss b none
  | "Variables.Add", b =>
    match aget x b.vars with
    | some _ => miss b none
    | none => ⟨{ b with vars := (x, v) :: b.vars }, true, false, false, none⟩
  | "Variables.Declare", b =>
    match aget x b.vars with
    | some _ => miss b none
    | none => ⟨{ b with vars := (x, v) :: b.vars }, true, false, false, none⟩
  | "TemporaryTables.Exists", b => ⟨b, (aget x b.vars).isSome, false, false, none⟩
  | "TemporaryTables.Get", b => ⟨b, (aget x b.vars).isSome, false, false, aget x b.vars⟩
  | "TemporaryTables.Set", b =>
    match aget x b.vars with
    | some _ => ⟨{ b with vars := aset x v b.vars }, true, false, false, none⟩
    | none => ⟨{ b with vars := (x, v) :: b.vars }, true, false, false, none⟩
  | "TemporaryTables.DisposeTemporaryTable", b =>
    match aget x b.vars with
    | some _ => ⟨{ b with vars := adel x b.vars }, true, false, false, none⟩
    | none => miss b none
  | _, b => miss b none

/-- UserDefinedFunctionMap.Get / Dispose / Declare for the function `f` (declared as `d`) -/
def fnCall (f : Nat) (d : FDecl) : String → Block → OpRes Block (Option (FDecl ⊕ Err))
  | "Functions.Get", b => ⟨b, (aget f b.funs).isSome, false, false, (aget f b.funs).map .inl⟩
  | "Functions.Dispose", b =>
    match aget f b.funs with
    | some _ => ⟨{ b with funs := adel f b.funs }, true, false, false, none⟩
    | none => miss b none
  | "Functions.Declare", b =>
    match aget f b.funs with
    | some _ => miss b (some (.inr .redeclaredFn))
    | none => if dupParams d.params then miss b (some (.inr .dupParam))
              else ⟨{ b with funs := (f, d) :: b.funs }, true, false, false, none⟩
  | _, b => miss b none

/-- CursorMap.Open / Close / Fetch for the cursor `c` (a variable holding its state, `curStep`):
    "absent" when the block does not declare it, the cursor's own error otherwise -/
def curCall (c : Nat) : String → Block → OpRes Block (Option Err × Option SVal) :=
  fun name b =>
    let op : Option CurOp := match name with
      | "Cursors.Open" => some .open
      | "Cursors.Close" => some .close
      | "Cursors.Fetch" => some .fetch
      | _ => none
    match op with
    | none => miss b (none, none)
    | some op =>
      match aget c b.vars with
      | none => ⟨b, false, true, false, (none, none)⟩
      | some s =>
        match curStep op s with
        | .error e => ⟨b, false, false, false, (some e, none)⟩
        | .ok (s', ov) => ⟨{ b with vars := aset c s' b.vars }, true, false, false, (none, ov)⟩

/-- the lookup part of `cursorDo`: find the innermost declaration, take the step, store the new state -/
def cursorFind (op : CurOp) (c : Nat) (bs : List Block) : Walk Block (Option Err × Option SVal) :=
  match getVar c bs with
  | none => .raised bs "NewUndeclaredCursorError"
  | some s =>
    match curStep op s with
    | .error e => .failed bs (some e, none)
    | .ok (s', ov) =>
      match setVar c s' bs with
      | none => .raised bs "NewUndeclaredCursorError"
      | some bs1 => .found bs1 (none, ov)

/-- FetchCursor (query.go) after the walk: SubstituteVariableDirectly of the fetched value -/
def cursorFinish (x : Nat) : Walk Block (Option Err × Option SVal) → Option Err × List Block
  | .found bs1 (_, none) => (none, bs1)
  | .found bs1 (_, some v) =>
    match setVar x v bs1 with
    | none => (some .undeclaredVar, bs1)
    | some bs2 => (none, bs2)
  | .failed bs (some e, _) => (some e, bs)
  | .failed bs (none, _) => (some .undeclaredVar, bs)
  | .raised bs _ => (some .undeclaredVar, bs)

theorem cursorDo_eq_find (op : CurOp) (c x : Nat) (bs : List Block) :
    cursorDo op c x bs = cursorFinish x (cursorFind op c bs) := by
  unfold cursorDo cursorFind
  cases getVar c bs with
  | none => rfl
  | some s =>
    simp only []
    cases curStep op s with
    | error e => rfl
    | ok r =>
      obtain ⟨s', ov⟩ := r
      simp only []
      cases setVar c s' bs with
      | none => rfl
      | some bs1 => cases ov <;> rfl

end Csvq.Scope
