import Csvq.Model.TxCommit
namespace Csvq.TxCommit

theorem Fail.mem_all (f : Fail) : f ∈ Fail.all := by
  rcases f with ⟨a, b, c, d, e⟩
  cases a <;> cases b <;> cases c <;> cases d <;> cases e <;> decide

/-- what the check of an encode loop body says, for every way the steps of an iteration can fail -/
theorem encodeBodyOk_spec (body : List String) (h : encodeBodyOk body = true) (f : Fail) :
    "handler_commit" ∉ (runBody f body (.normal false)).1 ∧
    (f.encode = true → (runBody f body (.normal false)).2 = false) := by
  have := (List.all_eq_true.mp h) f (Fail.mem_all f)
  simp only [Bool.and_eq_true, Bool.not_eq_eq_eq_not, Bool.not_true, Bool.or_eq_true,
    List.contains_eq_mem, decide_eq_false_iff_not] at this
  refine ⟨this.1, fun he => ?_⟩
  rcases this.2 with h' | h'
  · rw [he] at h'; exact absurd h' (by decide)
  · exact h'

theorem runLoop_no_swap (body : List String) (h : encodeBodyOk body = true) (fail : Nat → Fail) (ts : List Nat) :
    ∀ ev ∈ (runLoop body fail ts).1, ev.2 ≠ "handler_commit" := by
  induction ts with
  | nil => intro ev hev; simp [runLoop] at hev
  | cons t ts ih =>
    intro ev hev
    have hb := (encodeBodyOk_spec body h (fail t)).1
    simp only [runLoop] at hev
    split at hev
    · simp only [List.mem_append, List.mem_map] at hev
      rcases hev with ⟨e, he, rfl⟩ | hev
      · intro heq; exact hb (heq ▸ he)
      · exact ih ev hev
    · simp only [List.mem_map] at hev
      obtain ⟨e, he, rfl⟩ := hev
      intro heq; exact hb (heq ▸ he)

theorem runLoop_aborts (body : List String) (h : encodeBodyOk body = true) (fail : Nat → Fail) (ts : List Nat)
    (hx : ∃ t ∈ ts, (fail t).encode = true) : (runLoop body fail ts).2 = false := by
  induction ts with
  | nil => obtain ⟨t, ht, _⟩ := hx; cases ht
  | cons t ts ih =>
    simp only [runLoop]
    split
    · rename_i hc
      obtain ⟨x, hx, hf⟩ := hx
      rcases List.mem_cons.mp hx with rfl | hx'
      · have := (encodeBodyOk_spec body h (fail x)).2 hf
        rw [this] at hc; exact absurd hc (by decide)
      · exact ih ⟨x, hx', hf⟩
    · rfl

/-- **An encoder error aborts the commit before any swap.**  If the two encode loop bodies pass the check, then for
    any created and updated tables and any way the steps fail: when the encoder fails for SOME table of the
    transaction, Transaction.Commit returns (does not run to its end) and NO table — not the failing one, not any
    other — has been swapped in: every existing table still holds its old contents, every temporary file is left to
    be discarded by the rollback. -/
theorem commit_aborts_of_encode_failure (bodies : List (List String))
    (h1 : encodeBodyOk (bodies.getD 0 []) = true) (h2 : encodeBodyOk (bodies.getD 1 []) = true)
    (created updated : List Nat) (fail : Nat → Fail)
    (h : ∃ t ∈ created ++ updated, (fail t).encode = true) :
    (commitRun bodies created updated fail).2 = false ∧
    ∀ ev ∈ (commitRun bodies created updated fail).1, ev.2 ≠ "handler_commit" := by
  have n1 := runLoop_no_swap _ h1 fail created
  have n2 := runLoop_no_swap _ h2 fail updated
  unfold commitRun
  simp only []
  cases hr1 : (runLoop (bodies.getD 0 []) fail created).2
  · simp only [Bool.not_false, if_true]
    exact ⟨hr1, n1⟩
  · simp only [Bool.not_true, Bool.false_eq_true, if_false]
    have hup : ∃ t ∈ updated, (fail t).encode = true := by
      obtain ⟨t, ht, hf⟩ := h
      rcases List.mem_append.mp ht with hc | hu
      · have := runLoop_aborts _ h1 fail created ⟨t, hc, hf⟩
        rw [this] at hr1; exact absurd hr1 (by decide)
      · exact ⟨t, hu, hf⟩
    have hr2 := runLoop_aborts _ h2 fail updated hup
    simp only [hr2, Bool.not_false, if_true, true_and]
    intro ev hev
    rcases List.mem_append.mp hev with h' | h'
    · exact n1 ev h'
    · exact n2 ev h'

/-- hence no table counts as swapped -/
theorem nothing_swapped_of_encode_failure (bodies : List (List String))
    (h1 : encodeBodyOk (bodies.getD 0 []) = true) (h2 : encodeBodyOk (bodies.getD 1 []) = true)
    (created updated : List Nat) (fail : Nat → Fail)
    (h : ∃ t ∈ created ++ updated, (fail t).encode = true) (t : Nat) :
    swapped (commitRun bodies created updated fail).1 fail t = false := by
  have := (commit_aborts_of_encode_failure bodies h1 h2 created updated fail h).2
  unfold swapped
  cases hc : (commitRun bodies created updated fail).1.contains (t, "handler_commit")
  · rfl
  · rw [List.contains_eq_mem, decide_eq_true_eq] at hc
    exact absurd rfl (this _ hc)

end Csvq.TxCommit
