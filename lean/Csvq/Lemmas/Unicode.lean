/-
  Lemmas for Csvq.Model.Unicode: outside `foldDom` the case mappings change nothing; what the table facts
  (`tablesOK`) say about every rune; EqualFold's walk decides membership in the fold orbit.
-/
import Csvq.Model.Unicode
namespace Csvq
namespace Uni
open Csvq.Gen.Uni

/-! ### everything the case mappings change lies in `foldDom` -/

theorem lookupCase_mem (t : CaseTree) (r : Nat) : ∀ e, lookupCase t r = some e → r ∈ treeDom t := by
  induction t with
  | leaf => intro e h; simp [lookupCase] at h
  | node l lo hi up low title rt ihl ihr =>
    intro e h
    unfold lookupCase at h
    unfold treeDom
    by_cases h1 : r < lo
    · rw [if_pos h1] at h
      exact List.mem_append_left _ (ihl e h)
    · rw [if_neg h1] at h
      by_cases h2 : hi < r
      · rw [if_pos h2] at h
        exact List.mem_append_right _ (List.mem_append_right _ (ihr e h))
      · apply List.mem_append_right
        apply List.mem_append_left
        rw [List.mem_range'_1]
        omega

theorem toCase_ne_mem (c r : Nat) (h : toCase c r ≠ r) : r ∈ treeDom caseTree := by
  unfold toCase at h
  cases hl : lookupCase caseTree r with
  | none => rw [hl] at h; exact absurd rfl h
  | some e => exact lookupCase_mem caseTree r e hl

theorem orbitLookup_mem (l : List (Nat × Nat)) (r t : Nat) (h : orbitLookup l r = some t) : r ∈ l.map Prod.fst := by
  induction l with
  | nil => simp [orbitLookup] at h
  | cons p ps ih =>
    obtain ⟨a, b⟩ := p
    unfold orbitLookup at h
    by_cases e : a = r
    · subst e; simp
    · rw [if_neg e] at h
      exact List.mem_cons_of_mem _ (ih h)

theorem toUpper_ne_mem (r : Nat) (h : toUpper r ≠ r) : r ∈ foldDom := by
  unfold foldDom
  unfold toUpper at h
  by_cases h1 : r ≤ 127
  · exact List.mem_append_left _ (List.mem_range.mpr (by omega))
  · rw [if_neg h1] at h
    exact List.mem_append_right _ (List.mem_append_right _ (toCase_ne_mem 0 r h))

theorem toLower_ne_mem (r : Nat) (h : toLower r ≠ r) : r ∈ foldDom := by
  unfold foldDom
  unfold toLower at h
  by_cases h1 : r ≤ 127
  · exact List.mem_append_left _ (List.mem_range.mpr (by omega))
  · rw [if_neg h1] at h
    exact List.mem_append_right _ (List.mem_append_right _ (toCase_ne_mem 1 r h))

theorem simpleFold_ne_mem (r : Nat) (h : simpleFold r ≠ r) : r ∈ foldDom := by
  unfold simpleFold at h
  by_cases h0 : r > maxRune
  · rw [if_pos h0] at h; exact absurd rfl h
  · rw [if_neg h0] at h
    by_cases h1 : r < 128
    · exact List.mem_append_left _ (List.mem_range.mpr h1)
    · rw [if_neg h1] at h
      cases ho : orbitLookup caseOrbit r with
      | some t => exact List.mem_append_right _ (List.mem_append_left _ (orbitLookup_mem _ r t ho))
      | none =>
        rw [ho] at h
        simp only [] at h
        by_cases hl : toLower r ≠ r
        · exact toLower_ne_mem r hl
        · rw [if_neg hl] at h
          exact toUpper_ne_mem r h

/-! ### what `tablesOK` says about every rune -/

/-- the orbit of `a`: closed under SimpleFold, leading back to `a`, accepted pairwise by EqualFold's walk -/
structure Good (a : Nat) : Prop where
  closed : ∀ x ∈ orbit4 a, simpleFold x ∈ orbit4 a
  back : ∀ x ∈ orbit4 a, a ∈ orbit4 x
  pairs : ∀ x ∈ orbit4 a, ∀ y ∈ orbit4 a, runeFoldEq x y = true

theorem orbit4_fixed (a : Nat) (h : simpleFold a = a) : orbit4 a = [a, a, a, a] := by
  unfold orbit4; simp only [h]

theorem runeFoldEq_self (a : Nat) : runeFoldEq a a = true := by simp [runeFoldEq]

theorem good_of_fixed (a : Nat) (h : simpleFold a = a) : Good a := by
  have e := orbit4_fixed a h
  refine ⟨?_, ?_, ?_⟩
  · intro x hx; rw [e] at hx ⊢; simp at hx; subst hx; rw [h]; simp
  · intro x hx; rw [e] at hx; simp at hx; subst hx; rw [e]; simp
  · intro x hx y hy; rw [e] at hx hy; simp at hx hy; subst hx; subst hy; exact runeFoldEq_self _

theorem good_of_goodB (a : Nat) (h : goodB a = true) : Good a := by
  unfold goodB at h
  simp only [Bool.and_eq_true, List.all_eq_true, List.contains_iff_mem] at h
  exact ⟨h.1.1, h.1.2, h.2⟩

theorem mem_tables (hT : tablesOK = true) (a : Nat) (h : a ∈ foldDom) : goodB a = true ∧ upperB a = true := by
  unfold tablesOK at hT
  rw [List.all_eq_true] at hT
  have := hT a h
  simpa using this

theorem good_all (hT : tablesOK = true) (a : Nat) : Good a := by
  by_cases h : simpleFold a = a
  · exact good_of_fixed a h
  · exact good_of_goodB a (mem_tables hT a (simpleFold_ne_mem a h)).1

/-! ### EqualFold on two runes = membership in the fold orbit -/

theorem foldWalk_mem (O : List Nat) (hc : ∀ x ∈ O, simpleFold x ∈ O) :
    ∀ (n lo hi r : Nat), r ∈ O → foldWalk n lo hi r = true → hi ∈ O := by
  intro n
  induction n with
  | zero =>
    intro lo hi r hr h
    simp [foldWalk] at h; subst h; exact hr
  | succ n ih =>
    intro lo hi r hr h
    unfold foldWalk at h
    by_cases c : r ≠ lo ∧ r < hi
    · rw [if_pos c] at h
      exact ih lo hi (simpleFold r) (hc r hr) h
    · rw [if_neg c] at h
      simp at h; subst h; exact hr

theorem asciiFold_upper : ∀ a, 65 ≤ a → a ≤ 90 → asciiFold.getD a a = a + 32 := by
  have h : (List.range' 65 26).all (fun a => asciiFold.getD a a == a + 32) = true := by decide
  intro a h1 h2
  rw [List.all_eq_true] at h
  have := h a (by rw [List.mem_range'_1]; omega)
  simpa using this

theorem self_mem_orbit4 (a : Nat) : a ∈ orbit4 a := by unfold orbit4; simp
theorem fold_mem_orbit4 (a : Nat) : simpleFold a ∈ orbit4 a := by unfold orbit4; simp

/-- one direction needs the smaller rune's orbit, the other the orbit of `a` -/
theorem mem_orbit_of_foldEq_lt (a b : Nat) (ga : Good a) (hab : a < b) (h : runeFoldEq a b = true) : b ∈ orbit4 a := by
  unfold runeFoldEq at h
  rw [if_neg (by omega)] at h
  simp only [hab, if_true] at h
  by_cases h128 : b < 128
  · rw [if_pos h128] at h
    simp at h
    have : simpleFold a = a + 32 := by
      unfold simpleFold
      rw [if_neg (by unfold maxRune; omega), if_pos (by omega)]
      exact asciiFold_upper a h.1 h.2.1
    rw [h.2.2, ← this]; exact fold_mem_orbit4 a
  · rw [if_neg h128] at h
    exact foldWalk_mem (orbit4 a) ga.closed 8 a b (simpleFold a) (fold_mem_orbit4 a) h

theorem runeFoldEq_comm (a b : Nat) : runeFoldEq a b = runeFoldEq b a := by
  unfold runeFoldEq
  by_cases e : a = b
  · subst e; rfl
  · have e' : ¬ b = a := fun h => e h.symm
    rw [if_neg e, if_neg e']
    by_cases lt : a < b
    · have nlt : ¬ b < a := by omega
      simp only [lt, nlt, if_true, if_false]
    · have gt : b < a := by omega
      simp only [lt, gt, if_true, if_false]

theorem runeFoldEq_iff (hT : tablesOK = true) (a b : Nat) : runeFoldEq a b = true ↔ b ∈ orbit4 a := by
  have ga := good_all hT a
  have gb := good_all hT b
  constructor
  · intro h
    by_cases e : a = b
    · subst e; exact self_mem_orbit4 a
    · by_cases lt : a < b
      · exact mem_orbit_of_foldEq_lt a b ga lt h
      · have h' : runeFoldEq b a = true := by rw [runeFoldEq_comm]; exact h
        have : a ∈ orbit4 b := mem_orbit_of_foldEq_lt b a gb (by omega) h'
        exact gb.back a this
  · intro h
    exact ga.pairs a (self_mem_orbit4 a) b h

theorem orbit4_subset (a b : Nat) (ga : Good a) (hb : b ∈ orbit4 a) : ∀ c ∈ orbit4 b, c ∈ orbit4 a := by
  intro c hc
  have h1 := ga.closed b hb
  have h2 := ga.closed _ h1
  have h3 := ga.closed _ h2
  unfold orbit4 at hc
  simp only [List.mem_cons, List.not_mem_nil, or_false] at hc
  rcases hc with rfl | rfl | rfl | rfl
  · exact hb
  · exact h1
  · exact h2
  · exact h3

theorem runeFoldEq_trans (hT : tablesOK = true) (a b c : Nat) (h1 : runeFoldEq a b = true) (h2 : runeFoldEq b c = true) :
    runeFoldEq a c = true := by
  rw [runeFoldEq_iff hT] at h1 h2 ⊢
  exact orbit4_subset a b (good_all hT a) h1 c h2

/-! ### rune lists -/

theorem runesFoldEq_refl : ∀ l, runesFoldEq l l = true
  | [] => rfl
  | a :: as => by simp [runesFoldEq, runeFoldEq_self, runesFoldEq_refl as]

theorem runesFoldEq_comm : ∀ l m, runesFoldEq l m = runesFoldEq m l
  | [], [] => rfl
  | [], _ :: _ => rfl
  | _ :: _, [] => rfl
  | a :: as, b :: bs => by simp [runesFoldEq, runeFoldEq_comm a b, runesFoldEq_comm as bs]

theorem runesFoldEq_trans (hT : tablesOK = true) : ∀ l m n, runesFoldEq l m = true → runesFoldEq m n = true → runesFoldEq l n = true
  | [], [], [], _, _ => rfl
  | [], [], _ :: _, _, h => by simp [runesFoldEq] at h
  | [], _ :: _, _, h, _ => by simp [runesFoldEq] at h
  | _ :: _, [], _, h, _ => by simp [runesFoldEq] at h
  | _ :: _, _ :: _, [], _, h => by simp [runesFoldEq] at h
  | a :: as, b :: bs, c :: cs, h1, h2 => by
    simp only [runesFoldEq, Bool.and_eq_true] at h1 h2 ⊢
    exact ⟨runeFoldEq_trans hT a b c h1.1 h2.1, runesFoldEq_trans hT as bs cs h1.2 h2.2⟩

/-! ### upper case -/

theorem toUpper_fixed_of_not_mem (r : Nat) (h : r ∉ foldDom) : toUpper r = r ∧ simpleFold r = r := by
  constructor
  · by_cases e : toUpper r = r
    · exact e
    · exact absurd (toUpper_ne_mem r e) h
  · by_cases e : simpleFold r = r
    · exact e
    · exact absurd (simpleFold_ne_mem r e) h

theorem toUpper_idem (hT : tablesOK = true) (r : Nat) : toUpper (toUpper r) = toUpper r := by
  by_cases h : r ∈ foldDom
  · have := (mem_tables hT r h).2
    unfold upperB at this
    simp only [Bool.and_eq_true, beq_iff_eq] at this
    exact this.1.1
  · have := (toUpper_fixed_of_not_mem r h).1
    rw [this, this]

/-- the members of a fold orbit share their upper case, outside the listed orbits -/
theorem upper_of_orbit (hT : tablesOK = true) (a : Nat) (ha : a ∉ foldUpperExc) : ∀ x ∈ orbit4 a, toUpper x = toUpper a := by
  by_cases h : a ∈ foldDom
  · have := (mem_tables hT a h).2
    unfold upperB at this
    simp only [Bool.and_eq_true, Bool.or_eq_true, List.contains_iff_mem, List.all_eq_true, beq_iff_eq] at this
    rcases this.2 with h1 | h1
    · exact absurd h1 ha
    · exact h1
  · have e := (toUpper_fixed_of_not_mem a h).2
    intro x hx
    rw [orbit4_fixed a e] at hx
    simp at hx; subst hx; rfl

/-- the upper case of a rune is in its fold orbit — but for ı (U+0131) -/
theorem upper_in_orbit (hT : tablesOK = true) (a : Nat) (ha : a ≠ 305) : toUpper a ∈ orbit4 a := by
  by_cases h : a ∈ foldDom
  · have := (mem_tables hT a h).2
    unfold upperB at this
    simp only [Bool.and_eq_true, Bool.or_eq_true, List.contains_iff_mem, beq_iff_eq] at this
    rcases this.1.2 with h1 | h1
    · exact absurd h1 ha
    · exact h1
  · rw [(toUpper_fixed_of_not_mem a h).1]; exact self_mem_orbit4 a

/-! ### range tables -/

theorem inRanges_mem (tbl : List (Nat × Nat × Nat)) (r : Nat) (h : inRanges tbl r = true) :
    ∃ e ∈ tbl, e.1 ≤ r ∧ r ≤ e.2.1 := by
  induction tbl with
  | nil => simp [inRanges] at h
  | cons e es ih =>
    obtain ⟨lo, hi, st⟩ := e
    unfold inRanges at h
    by_cases h1 : r < lo
    · rw [if_pos h1] at h; cases h
    · rw [if_neg h1] at h
      by_cases h2 : r ≤ hi
      · exact ⟨(lo, hi, st), by simp, by simp; omega, h2⟩
      · rw [if_neg h2] at h
        obtain ⟨e, he, hb⟩ := ih h
        exact ⟨e, List.mem_cons_of_mem _ he, hb⟩

/-- the runes of a range table, listed -/
def expand (tbl : List (Nat × Nat × Nat)) : List Nat :=
  tbl.flatMap fun e => (List.range' e.1 (e.2.1 + 1 - e.1)).filter fun r => (r - e.1) % e.2.2 == 0

theorem inRanges_expand (tbl : List (Nat × Nat × Nat)) (r : Nat) (h : inRanges tbl r = true) : r ∈ expand tbl := by
  induction tbl with
  | nil => simp [inRanges] at h
  | cons e es ih =>
    obtain ⟨lo, hi, st⟩ := e
    unfold inRanges at h
    unfold expand
    rw [List.flatMap_cons]
    by_cases h1 : r < lo
    · rw [if_pos h1] at h; cases h
    · rw [if_neg h1] at h
      by_cases h2 : r ≤ hi
      · rw [if_pos h2] at h
        apply List.mem_append_left
        rw [List.mem_filter, List.mem_range'_1]
        exact ⟨by simp; omega, h⟩
      · rw [if_neg h2] at h
        exact List.mem_append_right _ (ih h)

/-- membership in one range -/
def inRange (e : Nat × Nat × Nat) (r : Nat) : Bool := decide (e.1 ≤ r) && decide (r ≤ e.2.1) && (r - e.1) % e.2.2 == 0

theorem inRanges_entry (tbl : List (Nat × Nat × Nat)) (r : Nat) (h : inRanges tbl r = true) :
    ∃ e ∈ tbl, inRange e r = true := by
  induction tbl with
  | nil => simp [inRanges] at h
  | cons e es ih =>
    obtain ⟨lo, hi, st⟩ := e
    unfold inRanges at h
    by_cases h1 : r < lo
    · rw [if_pos h1] at h; cases h
    · rw [if_neg h1] at h
      by_cases h2 : r ≤ hi
      · rw [if_pos h2] at h
        refine ⟨(lo, hi, st), by simp, ?_⟩
        unfold inRange; simp; exact ⟨⟨by omega, h2⟩, by simpa using h⟩
      · rw [if_neg h2] at h
        obtain ⟨e, he, hb⟩ := ih h
        exact ⟨e, List.mem_cons_of_mem _ he, hb⟩

/-- two tables share no rune: every pair of ranges is apart, or no rune of the one range is in the other -/
def tablesApart (A B : List (Nat × Nat × Nat)) : Bool :=
  A.all fun a => B.all fun b =>
    decide (a.2.1 < b.1) || decide (b.2.1 < a.1) || (expand [b]).all (fun r => !inRange a r)

theorem letter_digit_apart : tablesApart letter digit = true := by decide +kernel

theorem not_both_of_apart (A B : List (Nat × Nat × Nat)) (h : tablesApart A B = true) (r : Nat)
    (ha : inRanges A r = true) (hb : inRanges B r = true) : False := by
  obtain ⟨a, ha1, ha2⟩ := inRanges_entry A r ha
  obtain ⟨b, hb1, hb2⟩ := inRanges_entry B r hb
  unfold tablesApart at h
  rw [List.all_eq_true] at h
  have h1 := h a ha1
  rw [List.all_eq_true] at h1
  have h2 := h1 b hb1
  have ia := ha2
  have ib := hb2
  unfold inRange at ia ib
  simp only [Bool.and_eq_true, decide_eq_true_eq, beq_iff_eq] at ia ib
  simp only [Bool.or_eq_true, decide_eq_true_eq, List.all_eq_true, Bool.not_eq_true'] at h2
  rcases h2 with (h3 | h3) | h3
  · omega
  · omega
  · have hr : r ∈ expand [b] := by
      unfold expand
      simp only [List.flatMap_cons, List.flatMap_nil, List.append_nil, List.mem_filter, List.mem_range'_1, beq_iff_eq]
      exact ⟨by omega, ib.2⟩
    have := h3 r hr
    rw [ha2] at this; cases this

/-- the White_Space runes, listed -/
theorem whiteSpace_expand : expand whiteSpace =
    [9, 10, 11, 12, 13, 32, 133, 160, 5760, 8192, 8193, 8194, 8195, 8196, 8197, 8198, 8199, 8200, 8201, 8202,
     8232, 8233, 8239, 8287, 12288] := by decide +kernel

end Uni
end Csvq
