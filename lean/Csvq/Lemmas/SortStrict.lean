/- Lemmas for ORDER BY under --strict-equal: on comparable columns (all texts, or all numbers, or all
   datetimes; plus NULLs) the strict row comparison is again the lexicographic order of per-column keys
   in a strict total order.  A text's key is the PAIR (upper-cased trimmed text, identical key), folded
   into one byte string by `encPair` so that the key type `K` and the lemmas of Lemmas/Sort.lean serve
   both modes. -/
import Csvq.Model.SortStrict
import Csvq.Lemmas.SortSpec
namespace Csvq

/-- (u, k) as one byte string: the bytes of `u` shifted up by one, a 0, then `k`; `bytesLt` on the images is the
    lexicographic order of the pairs (`bytesLt_encPair`) -/
def encPair : Bytes → Bytes → Bytes
  | [], k => 0 :: k
  | b :: u, k => (b + 1) :: encPair u k

theorem bytesLt_encPair : ∀ (u u' k k' : Bytes),
    bytesLt (encPair u k) (encPair u' k') = (bytesLt u u' || (decide (u = u') && bytesLt k k'))
  | [], [], k, k' => by simp [encPair, bytesLt]
  | [], b :: u', k, k' => by simp [encPair, bytesLt]
  | a :: u, [], k, k' => by simp [encPair, bytesLt]
  | a :: u, b :: u', k, k' => by
    simp only [encPair, bytesLt, Nat.add_lt_add_iff_right, List.cons.injEq]
    rw [bytesLt_encPair u u' k k']
    by_cases h1 : a < b
    · simp [h1]
    · by_cases h2 : b < a
      · have : ¬ a = b := by omega
        simp [h1, h2, this]
      · have e : a = b := by omega
        subst e; simp

theorem encPair_inj : ∀ (u u' k k' : Bytes), encPair u k = encPair u' k' → u = u' ∧ k = k'
  | [], [], k, k', h => by simp [encPair] at h; exact ⟨rfl, h⟩
  | [], b :: u', k, k', h => by simp [encPair] at h
  | a :: u, [], k, k', h => by simp [encPair] at h
  | a :: u, b :: u', k, k', h => by
    simp only [encPair, List.cons.injEq, Nat.add_right_cancel_iff] at h
    obtain ⟨r1, r2⟩ := encPair_inj u u' k k' h.2
    exact ⟨by rw [h.1, r1], r2⟩

/-- the key `[N]` of NULL -/
def nullKey : Bytes := [91, 78, 93]

/-- NULL — and nothing else — carries the key `[N]` (the ternary UNKNOWN, whose sort value is also of the NULL
    type but whose key is `[T]U`, is outside the property's domain) -/
def SSortVal.WF (a : SSortVal) : Prop := a.val = .null ↔ a.key = nullKey

instance (a : SSortVal) : Decidable a.WF := by unfold SSortVal.WF; infer_instance

/-- per-column sort key under --strict-equal -/
def skS (np : NullPos) (a : SSortVal) : K :=
  if a.val.isNull then (match np with | .first => .lo | .last => .hi)
  else if a.isText then .v 0 (encPair a.val.text a.key)
  else sk np a.val

/-- two values of one sort-key column are mutually comparable under --strict-equal: both texts (whatever they
    look like: under the flag two texts are compared as texts), or both no texts and comparable as in the default
    mode (both numbers, both datetimes), or at least one NULL; identical keys come with identical sort values
    (NewSortValue is a function of the value, and every conversion of a text starts from its trimmed form) -/
def CompatS (a b : SSortVal) : Prop :=
  a.WF ∧ b.WF ∧ (a.key = b.key → a.val = b.val) ∧
  (a.val = .null ∨ b.val = .null ∨ (a.isText = true ∧ b.isText = true) ∨
    (a.isText = false ∧ b.isText = false ∧ Compat a.val b.val))

/-- … and, in addition, numerically equal values are identical (a column of integers, or of datetimes, or of
    floats without a -0 next to a 0 — not: 1 next to 1.0).  Needed only where ties are compared with
    `EquivalentTo`; the order theorems hold without it. -/
def CompatSI (a b : SSortVal) : Prop :=
  CompatS a b ∧
  (a.isText = false → b.isText = false → a.val ≠ .null → b.val ≠ .null → a.val.less b.val = .U → a.key = b.key)

theorem isNull_iff (v : SortVal) : v.isNull = true ↔ v = .null := by
  cases v <;> simp [SortVal.isNull]

theorem isNull_false_iff (v : SortVal) : v.isNull = false ↔ v ≠ .null := by
  cases v <;> simp [SortVal.isNull]

theorem nullKey_not_text (a : SSortVal) (h : a.key = nullKey) : a.isText = false := by
  simp [SSortVal.isText, h, nullKey]

theorem less_null_left (b : SortVal) : SortVal.less .null b = .U := by cases b <;> rfl
theorem less_null_right (a : SortVal) : SortVal.less a .null = .U := by cases a <;> rfl

theorem lessS_null_left (a b : SSortVal) (wa : a.WF) (ha : a.val = .null) : a.less b = .U := by
  unfold SSortVal.less
  split
  · rfl
  · rw [nullKey_not_text a (wa.mp ha), ha]; simp [less_null_left]

theorem lessS_null_right (a b : SSortVal) (wb : b.WF) (hb : b.val = .null) : a.less b = .U := by
  unfold SSortVal.less
  split
  · rfl
  · rw [nullKey_not_text b (wb.mp hb), hb]; simp [less_null_right]

theorem skS_nonnull (np : NullPos) (a : SSortVal) (ha : a.val ≠ .null) : ∃ n s, skS np a = .v n s := by
  unfold skS
  rw [(isNull_false_iff _).mpr ha]
  simp only [Bool.false_eq_true, if_false]
  split
  · exact ⟨_, _, rfl⟩
  · exact sk_nonnull np a.val ha

theorem skS_null (np : NullPos) (a : SSortVal) (ha : a.val = .null) :
    skS np a = (match np with | .first => .lo | .last => .hi) := by
  simp [skS, (isNull_iff _).mpr ha]

theorem ofB_T (b : Bool) : ofB b = .T ↔ b = true := by cases b <;> simp [ofB]
theorem ofB_F (b : Bool) : ofB b = .F ↔ b = false := by cases b <;> simp [ofB]

theorem K.lt_v0 (s t : Bytes) : K.lt .asc (.v 0 s) (.v 0 t) = bytesLt s t := by simp [K.lt]

/-- for two non-NULL comparable values, the strict `Less` is exactly the order of their keys -/
theorem less_keyS (np : NullPos) (a b : SSortVal) (h : CompatS a b) (ha : a.val ≠ .null) (hb : b.val ≠ .null) :
    (a.less b = .T ↔ K.lt .asc (skS np a) (skS np b) = true) ∧
    (a.less b = .F ↔ K.lt .asc (skS np b) (skS np a) = true) ∧
    (a.less b = .U ↔ skS np a = skS np b) := by
  obtain ⟨_, _, hdet, hc⟩ := h
  have na := (isNull_false_iff _).mpr ha
  have nb := (isNull_false_iff _).mpr hb
  by_cases hk : a.key = b.key
  · have hv := hdet hk
    have e : skS np a = skS np b := by unfold skS SSortVal.isText; rw [hk, hv]
    have l : a.less b = .U := by simp [SSortVal.less, hk]
    rw [l, e, K.lt_irrefl]; simp
  · rcases hc with hc | hc | ⟨ta, tb⟩ | ⟨ta, tb, hc⟩
    · exact absurd hc ha
    · exact absurd hc hb
    · have ea : skS np a = .v 0 (encPair a.val.text a.key) := by simp [skS, na, ta]
      have eb : skS np b = .v 0 (encPair b.val.text b.key) := by simp [skS, nb, tb]
      have hne : encPair a.val.text a.key ≠ encPair b.val.text b.key := fun e => hk (encPair_inj _ _ _ _ e).2
      rw [ea, eb, K.lt_v0, K.lt_v0, bytesLt_encPair, bytesLt_encPair]
      simp only [SSortVal.less, hk, if_false, ta, tb, Bool.and_self, if_true]
      by_cases ht : a.val.text = b.val.text
      · have hk' : ¬ b.key = a.key := fun e => hk e.symm
        simp only [ht, ne_eq, not_true_eq_false, if_false, bytesLt_irrefl, decide_true, Bool.true_and, Bool.false_or,
          ofB_T, ofB_F, K.v.injEq, true_and]
        refine ⟨?_, ?_⟩
        · constructor
          · intro l; exact bytesLt_total _ _ hk l
          · intro l; exact bytesLt_asymm _ _ l
        · constructor
          · intro l; exact absurd l (ofB_ne_U _)
          · intro e; exact absurd (by rw [ht] at hne; exact e) (by rw [ht] at hne; exact hne)
      · have ht' : ¬ b.val.text = a.val.text := fun e => ht e.symm
        simp only [ne_eq, ht, not_false_eq_true, if_true, ht', decide_false, Bool.false_and, Bool.or_false, ofB_T, ofB_F,
          K.v.injEq, true_and]
        refine ⟨?_, ?_⟩
        · constructor
          · intro l; exact bytesLt_total _ _ ht l
          · intro l; exact bytesLt_asymm _ _ l
        · constructor
          · intro l; exact absurd l (ofB_ne_U _)
          · intro e; exact absurd e hne
    · have ea : skS np a = sk np a.val := by simp [skS, na, ta]
      have eb : skS np b = sk np b.val := by simp [skS, nb, tb]
      have l : a.less b = a.val.less b.val := by simp [SSortVal.less, hk, ta]
      rw [ea, eb, l]
      exact less_key np a.val b.val hc ha hb

/-- one column of SortValues.Less under --strict-equal decides exactly as the key order does, otherwise passes on -/
theorem col_stepS (it : OrdItem) (a b : SSortVal) (h : CompatS a b) (c : Bool) :
    (match a.less b with
      | .T => (match it.dir with | .asc => true | .desc => false)
      | .F => (match it.dir with | .asc => false | .desc => true)
      | .U =>
        if a.val.isNull && !b.val.isNull then (match it.np with | .first => true | .last => false)
        else if !a.val.isNull && b.val.isNull then (match it.np with | .first => false | .last => true)
        else c)
    = (if K.lt it.dir (skS it.np a) (skS it.np b) then true
       else if K.lt it.dir (skS it.np b) (skS it.np a) then false else c) := by
  have wa := h.1
  have wb := h.2.1
  by_cases ha : a.val = .null
  · have han : a.val.isNull = true := (isNull_iff _).mpr ha
    have ska : skS it.np a = (match it.np with | .first => .lo | .last => .hi) := by simp [skS, han]
    rw [lessS_null_left a b wa ha]
    by_cases hb : b.val = .null
    · have hbn : b.val.isNull = true := (isNull_iff _).mpr hb
      have skb : skS it.np b = (match it.np with | .first => .lo | .last => .hi) := by simp [skS, hbn]
      rw [ska, skb]
      cases hd : it.dir <;> cases hn : it.np <;> simp [han, hbn, K.lt]
    · obtain ⟨n, s, e⟩ := skS_nonnull it.np b hb
      have hbn : b.val.isNull = false := (isNull_false_iff _).mpr hb
      rw [ska, e]
      cases hd : it.dir <;> cases hn : it.np <;> simp [han, hbn, K.lt]
  · have han : a.val.isNull = false := (isNull_false_iff _).mpr ha
    by_cases hb : b.val = .null
    · have hbn : b.val.isNull = true := (isNull_iff _).mpr hb
      have skb : skS it.np b = (match it.np with | .first => .lo | .last => .hi) := by simp [skS, hbn]
      obtain ⟨n, s, e⟩ := skS_nonnull it.np a ha
      rw [lessS_null_right a b wb hb, skb, e]
      cases hd : it.dir <;> cases hn : it.np <;> simp [han, hbn, K.lt]
    · obtain ⟨k1, k2, k3⟩ := less_keyS it.np a b h ha hb
      obtain ⟨n, s, ea⟩ := skS_nonnull it.np a ha
      obtain ⟨m, t, eb⟩ := skS_nonnull it.np b hb
      have hbn : b.val.isNull = false := (isNull_false_iff _).mpr hb
      rw [ea, eb] at k1 k2 k3 ⊢
      cases hd : it.dir
      · cases hl : a.less b
        · have h2 := k2.mp hl
          have h1 := K.lt_asymm _ _ _ h2
          simp [h1, h2]
        · have e := k3.mp hl
          rw [e]; simp [K.lt_irrefl, han, hbn]
        · have h1 := k1.mp hl
          simp [h1]
      · rw [K.lt_desc_v, K.lt_desc_v]
        cases hl : a.less b
        · have h2 := k2.mp hl
          simp [h2]
        · have e := k3.mp hl
          rw [e]; simp [K.lt_irrefl, han, hbn]
        · have h1 := k1.mp hl
          have h2 := K.lt_asymm _ _ _ h1
          simp [h1, h2]

def keysOfS : List OrdItem → List SSortVal → List K
  | it :: its, a :: as => skS it.np a :: keysOfS its as
  | _, _ => []

/-- column-wise comparability of two rows under --strict-equal -/
def RowsCompatS : List SSortVal → List SSortVal → Prop
  | a :: as, b :: bs => CompatS a b ∧ RowsCompatS as bs
  | _, _ => True

/-- … where, in addition, numerically equal keys are identical -/
def RowsCompatSI : List SSortVal → List SSortVal → Prop
  | a :: as, b :: bs => CompatSI a b ∧ RowsCompatSI as bs
  | _, _ => True

theorem RowsCompatSI.toS : ∀ (r s : List SSortVal), RowsCompatSI r s → RowsCompatS r s
  | [], _, _ => by simp [RowsCompatS]
  | _ :: _, [], _ => by simp [RowsCompatS]
  | _ :: as, _ :: bs, h => ⟨h.1.1, RowsCompatSI.toS as bs h.2⟩

/-- SortValues.Less under --strict-equal is the lexicographic order of the key rows -/
theorem rowsLessS_eq_lex : ∀ (its : List OrdItem) (r s : List SSortVal), RowsCompatS r s →
    rowsLessS its r s = lexLt its (keysOfS its r) (keysOfS its s)
  | [], _, _, _ => by simp [rowsLessS, rowsLessWith, lexLt]
  | _ :: _, [], _, _ => by simp [rowsLessS, rowsLessWith, lexLt, keysOfS]
  | _ :: _, _ :: _, [], _ => by simp [rowsLessS, rowsLessWith, lexLt, keysOfS]
  | it :: its, a :: as, b :: bs, h => by
    have ih := rowsLessS_eq_lex its as bs h.2
    simp only [rowsLessS] at ih ⊢
    simp only [rowsLessWith, keysOfS, lexLt]
    rw [ih]
    exact col_stepS it a b h.1 _

theorem keysOfS_length : ∀ (its : List OrdItem) (r : List SSortVal), r.length = its.length →
    (keysOfS its r).length = its.length
  | [], _, _ => by simp [keysOfS]
  | _ :: _, [], h => by simp at h
  | it :: its, a :: as, h => by
    simp only [keysOfS, List.length_cons, Nat.add_right_cancel_iff] at h ⊢
    exact keysOfS_length its as h

/-- under --strict-equal two comparable values whose numerically equal readings are identical tie under `Less`
    exactly when `EquivalentTo` holds, and exactly when their keys coincide -/
theorem equivS_iff_key (np : NullPos) (a b : SSortVal) (h : CompatSI a b) :
    a.equiv b = true ↔ skS np a = skS np b := by
  obtain ⟨hc, hf⟩ := h
  have hc' := hc
  obtain ⟨wa, wb, hdet, hcase⟩ := hc
  simp only [SSortVal.equiv, beq_iff_eq]
  constructor
  · intro hk
    have hv := hdet hk
    unfold skS SSortVal.isText; rw [hk, hv]
  · intro e
    by_cases ha : a.val = .null
    · by_cases hb : b.val = .null
      · rw [wa.mp ha, wb.mp hb]
      · obtain ⟨n, s, eb⟩ := skS_nonnull np b hb
        rw [skS_null np a ha, eb] at e; cases np <;> simp at e
    · by_cases hb : b.val = .null
      · obtain ⟨n, s, ea⟩ := skS_nonnull np a ha
        rw [skS_null np b hb, ea] at e; cases np <;> simp at e
      · have l := (less_keyS np a b hc' ha hb).2.2.mpr e
        by_cases hk : a.key = b.key
        · exact hk
        · rcases hcase with q | q | ⟨ta, tb⟩ | ⟨ta, tb, _⟩
          · exact absurd q ha
          · exact absurd q hb
          · simp only [SSortVal.less, hk, if_false, ta, tb, Bool.and_self, if_true] at l
            split at l <;> exact absurd l (ofB_ne_U _)
          · have l' : a.val.less b.val = .U := by simpa [SSortVal.less, hk, ta] using l
            exact hf ta tb ha hb l'

theorem rowsEquivS_iff_keys_eq : ∀ (its : List OrdItem) (r s : List SSortVal), r.length = its.length →
    s.length = its.length → RowsCompatSI r s → (rowsEquivS r s = true ↔ keysOfS its r = keysOfS its s)
  | [], [], [], _, _, _ => by simp [rowsEquivS, keysOfS]
  | [], _ :: _, _, hr, _, _ => by simp at hr
  | [], [], _ :: _, _, hs, _ => by simp at hs
  | _ :: _, [], _, hr, _, _ => by simp at hr
  | _ :: _, _ :: _, [], _, hs, _ => by simp at hs
  | it :: its, a :: as, b :: bs, hr, hs, h => by
    simp only [List.length_cons, Nat.add_right_cancel_iff] at hr hs
    simp only [rowsEquivS, keysOfS, Bool.and_eq_true, List.cons.injEq]
    rw [equivS_iff_key it.np a b h.1, rowsEquivS_iff_keys_eq its as bs hr hs h.2]

end Csvq
