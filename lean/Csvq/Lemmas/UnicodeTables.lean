/-
  The table facts `Uni.tablesOK` (Model/Unicode.lean), discharged in the kernel.

  Outside `foldDom` there is nothing to check (Lemmas/Unicode.lean); for each of the ≈ 3000 runes of `foldDom` the
  kernel evaluates SimpleFold four times and ToUpper five times, each value once (`seqNat`), and everything else —
  closure of the orbit, the way back, EqualFold's walk on every pair — is decided on those values (`liteCore`) and
  shown here to be what `goodB` / `upperB` say.
-/
import Csvq.Lemmas.Unicode
import Csvq.Lemmas.Utf8
namespace Csvq
namespace Uni
open Csvq.Gen.Uni

/-- evaluate `x` first, then continue with its value -/
def seqNat {β : Type} (x : Nat) (k : Nat → β) : β :=
  match x with
  | 0 => k 0
  | n + 1 => k (n + 1)

theorem seqNat_eq {β : Type} (x : Nat) (k : Nat → β) : seqNat x k = k x := by
  cases x <;> rfl

/-- SimpleFold read off a table of already computed values -/
def nextT : List (Nat × Nat) → Nat → Nat
  | [], r => r
  | (x, y) :: t, r => if x = r then y else nextT t r

def foldWalkT (tbl : List (Nat × Nat)) : Nat → Nat → Nat → Nat → Bool
  | 0, _, hi, r => r == hi
  | n + 1, lo, hi, r => if r ≠ lo ∧ r < hi then foldWalkT tbl n lo hi (nextT tbl r) else r == hi

def runeFoldEqT (tbl : List (Nat × Nat)) (a b : Nat) : Bool :=
  if a = b then true
  else
    let lo := if a < b then a else b
    let hi := if a < b then b else a
    if hi < 128 then decide (65 ≤ lo ∧ lo ≤ 90 ∧ hi = lo + 32)
    else foldWalkT tbl 8 lo hi (nextT tbl lo)

def orbitT (tbl : List (Nat × Nat)) (x : Nat) : List Nat :=
  [x, nextT tbl x, nextT tbl (nextT tbl x), nextT tbl (nextT tbl (nextT tbl x))]

/-- the checks of `goodB` and `upperB` on the computed values b = f a, c = f b, d = f c, e = f d, u = upper a,
    uu = upper u, ub uc ud = upper b c d -/
def liteCore (a b c d e u uu ub uc ud : Nat) : Bool :=
  let S := [a, b, c, d]
  let tbl := [(a, b), (b, c), (c, d), (d, e)]
  S.contains e
    && S.all (fun x => (orbitT tbl x).contains a)
    && S.all (fun x => S.all (fun y => runeFoldEqT tbl x y))
    && uu == u
    && (a == 305 || S.contains u)
    && (foldUpperExc.contains a || (ub == u && uc == u && ud == u))

def liteB (a : Nat) : Bool :=
  seqNat (simpleFold a) fun b => seqNat (simpleFold b) fun c => seqNat (simpleFold c) fun d => seqNat (simpleFold d) fun e =>
  seqNat (toUpper a) fun u => seqNat (toUpper u) fun uu => seqNat (toUpper b) fun ub => seqNat (toUpper c) fun uc =>
  seqNat (toUpper d) fun ud => liteCore a b c d e u uu ub uc ud

theorem liteB_eq (a : Nat) : liteB a = liteCore a (simpleFold a) (simpleFold (simpleFold a)) (simpleFold (simpleFold (simpleFold a)))
    (simpleFold (simpleFold (simpleFold (simpleFold a)))) (toUpper a) (toUpper (toUpper a)) (toUpper (simpleFold a))
    (toUpper (simpleFold (simpleFold a))) (toUpper (simpleFold (simpleFold (simpleFold a)))) := by
  unfold liteB
  simp only [seqNat_eq]

/-! ### the table of computed values is SimpleFold on the orbit -/

theorem nextT_correct (tbl : List (Nat × Nat)) (h : ∀ p ∈ tbl, simpleFold p.1 = p.2) (r : Nat)
    (hr : ∃ p ∈ tbl, p.1 = r) : nextT tbl r = simpleFold r := by
  induction tbl with
  | nil => obtain ⟨p, hp, _⟩ := hr; simp at hp
  | cons p t ih =>
    obtain ⟨x, y⟩ := p
    unfold nextT
    by_cases e : x = r
    · rw [if_pos e]; have := h (x, y) (by simp); simp at this; rw [← e, this]
    · rw [if_neg e]
      apply ih (fun q hq => h q (by simp [hq]))
      obtain ⟨q, hq, hq2⟩ := hr
      rcases List.mem_cons.mp hq with rfl | hq
      · exact absurd hq2 e
      · exact ⟨q, hq, hq2⟩

theorem foldWalkT_eq (tbl : List (Nat × Nat)) (S : List Nat) (hc : ∀ x ∈ S, simpleFold x ∈ S)
    (hn : ∀ x ∈ S, nextT tbl x = simpleFold x) :
    ∀ (n lo hi r : Nat), r ∈ S → foldWalkT tbl n lo hi r = foldWalk n lo hi r := by
  intro n
  induction n with
  | zero => intro lo hi r _; rfl
  | succ n ih =>
    intro lo hi r hr
    unfold foldWalkT foldWalk
    by_cases c : r ≠ lo ∧ r < hi
    · rw [if_pos c, if_pos c, hn r hr]; exact ih lo hi _ (hc r hr)
    · rw [if_neg c, if_neg c]

theorem runeFoldEqT_eq (tbl : List (Nat × Nat)) (S : List Nat) (hc : ∀ x ∈ S, simpleFold x ∈ S)
    (hn : ∀ x ∈ S, nextT tbl x = simpleFold x) (a b : Nat) (ha : a ∈ S) (hb : b ∈ S) :
    runeFoldEqT tbl a b = runeFoldEq a b := by
  unfold runeFoldEqT runeFoldEq
  by_cases e : a = b
  · rw [if_pos e, if_pos e]
  · rw [if_neg e, if_neg e]
    simp only []
    by_cases lt : a < b
    · simp only [lt, if_true]
      by_cases h128 : b < 128
      · rw [if_pos h128, if_pos h128]
      · rw [if_neg h128, if_neg h128, hn a ha]; exact foldWalkT_eq tbl S hc hn 8 a b _ (hc a ha)
    · simp only [lt, if_false]
      by_cases h128 : a < 128
      · rw [if_pos h128, if_pos h128]
      · rw [if_neg h128, if_neg h128, hn b hb]; exact foldWalkT_eq tbl S hc hn 8 b a _ (hc b hb)

/-- what the check on the computed values says about the rune -/
theorem lite_sound (a : Nat) (h : liteB a = true) : goodB a = true ∧ upperB a = true := by
  rw [liteB_eq] at h
  generalize hb : simpleFold a = b at h
  generalize hc : simpleFold b = c at h
  generalize hd : simpleFold c = d at h
  generalize he : simpleFold d = e at h
  unfold liteCore at h
  simp only [Bool.and_eq_true, Bool.or_eq_true, beq_iff_eq, List.contains_iff_mem, List.all_eq_true] at h
  obtain ⟨⟨⟨⟨⟨hcl, hback⟩, hpairs⟩, hidem⟩, hin⟩, hsame⟩ := h
  have hS : orbit4 a = [a, b, c, d] := by unfold orbit4; rw [hb, hc, hd]
  have htbl : ∀ p ∈ [(a, b), (b, c), (c, d), (d, e)], simpleFold p.1 = p.2 := by
    intro p hp
    simp only [List.mem_cons, List.not_mem_nil, or_false] at hp
    rcases hp with rfl | rfl | rfl | rfl <;> assumption
  have hnext : ∀ x ∈ [a, b, c, d], nextT [(a, b), (b, c), (c, d), (d, e)] x = simpleFold x := by
    intro x hx
    apply nextT_correct _ htbl
    simp only [List.mem_cons, List.not_mem_nil, or_false] at hx
    rcases hx with rfl | rfl | rfl | rfl
    · exact ⟨(_, b), by simp, rfl⟩
    · exact ⟨(_, c), by simp, rfl⟩
    · exact ⟨(_, d), by simp, rfl⟩
    · exact ⟨(_, e), by simp, rfl⟩
  have hclosed : ∀ x ∈ [a, b, c, d], simpleFold x ∈ [a, b, c, d] := by
    intro x hx
    simp only [List.mem_cons, List.not_mem_nil, or_false] at hx
    rcases hx with rfl | rfl | rfl | rfl
    · rw [hb]; simp
    · rw [hc]; simp
    · rw [hd]; simp
    · rw [he]; exact hcl
  have horb : ∀ x ∈ [a, b, c, d], orbitT [(a, b), (b, c), (c, d), (d, e)] x = orbit4 x := by
    intro x hx
    have h1 := hclosed x hx
    have h2 := hclosed _ h1
    unfold orbitT orbit4
    rw [hnext x hx, hnext _ h1, hnext _ h2]
  constructor
  · unfold goodB
    rw [hS]
    simp only [Bool.and_eq_true, List.all_eq_true, List.contains_iff_mem]
    refine ⟨⟨hclosed, ?_⟩, ?_⟩
    · intro x hx; rw [← horb x hx]; exact hback x hx
    · intro x hx y hy; rw [← runeFoldEqT_eq _ _ hclosed hnext x y hx hy]; exact hpairs x hx y hy
  · unfold upperB
    rw [hS]
    simp only [Bool.and_eq_true, Bool.or_eq_true, beq_iff_eq, List.contains_iff_mem, List.all_eq_true]
    refine ⟨⟨hidem, hin⟩, ?_⟩
    rcases hsame with h1 | h1
    · exact Or.inl h1
    · right
      intro x hx
      simp only [List.mem_cons, List.not_mem_nil, or_false] at hx
      rcases hx with rfl | rfl | rfl | rfl
      · rfl
      · exact h1.1.1
      · exact h1.1.2
      · exact h1.2

/-! ### the kernel evaluates the check on every rune of `foldDom` (in four parts) -/

theorem lite_part1 : (foldDom.take 800).all liteB = true := by decide +kernel
theorem lite_part2 : ((foldDom.drop 800).take 800).all liteB = true := by decide +kernel
theorem lite_part3 : ((foldDom.drop 1600).take 800).all liteB = true := by decide +kernel
theorem lite_part4 : (foldDom.drop 2400).all liteB = true := by decide +kernel

theorem lite_all (a : Nat) (h : a ∈ foldDom) : liteB a = true := by
  have e1 : foldDom = foldDom.take 800 ++ foldDom.drop 800 := (List.take_append_drop 800 foldDom).symm
  have e2 : foldDom.drop 800 = (foldDom.drop 800).take 800 ++ foldDom.drop 1600 := by
    have := (List.take_append_drop 800 (foldDom.drop 800)).symm
    rw [List.drop_drop] at this; exact this
  have e3 : foldDom.drop 1600 = (foldDom.drop 1600).take 800 ++ foldDom.drop 2400 := by
    have := (List.take_append_drop 800 (foldDom.drop 1600)).symm
    rw [List.drop_drop] at this; exact this
  rw [e1, e2, e3] at h
  have p1 := lite_part1; have p2 := lite_part2; have p3 := lite_part3; have p4 := lite_part4
  rw [List.all_eq_true] at p1 p2 p3 p4
  simp only [List.mem_append] at h
  rcases h with h | h | h | h
  · exact p1 a h
  · exact p2 a h
  · exact p3 a h
  · exact p4 a h

/-- **the table facts hold** for the tables of this toolchain -/
theorem tables_ok : tablesOK = true := by
  unfold tablesOK
  rw [List.all_eq_true]
  intro a ha
  have := lite_sound a (lite_all a ha)
  simp [this.1, this.2]

/-! ### the upper case of a scalar value is a scalar value -/

theorem upper_valid_tbl : foldDom.all (fun r => decide (ValidScalar (toUpper r))) = true := by decide +kernel

theorem toUpper_valid (r : Nat) (h : ValidScalar r) : ValidScalar (toUpper r) := by
  by_cases e : toUpper r = r
  · rw [e]; exact h
  · have := upper_valid_tbl
    rw [List.all_eq_true] at this
    simpa using this r (toUpper_ne_mem r e)

/-- **strings.ToUpper is idempotent on every byte string** (invalid bytes become U+FFFD the first time) -/
theorem strToUpper_idem (s : Bytes) : strToUpper (strToUpper s) = strToUpper s := by
  unfold strToUpper
  rw [decodeRunes_encodeRunes, List.map_map, List.map_map]
  apply encodeRunes_congr
  intro r hr
  have hv := toUpper_valid r (decodeRunes_valid s r hr)
  have hs : sanitize (toUpper r) = toUpper r := by unfold sanitize; unfold ValidScalar at hv; rw [if_pos hv]
  simp only [Function.comp]
  rw [hs, toUpper_idem tables_ok]

/-- equal upper-cased texts have rune-wise equal upper cases -/
theorem upper_runes_of_strToUpper_eq (s t : Bytes) (h : strToUpper s = strToUpper t) :
    (decodeRunes s).map toUpper = (decodeRunes t).map toUpper := by
  unfold strToUpper at h
  have := congrArg decodeRunes h
  rw [decodeRunes_encodeRunes_valid _ (by
        intro r hr; obtain ⟨x, hx, rfl⟩ := List.mem_map.mp hr; exact toUpper_valid x (decodeRunes_valid s x hx)),
      decodeRunes_encodeRunes_valid _ (by
        intro r hr; obtain ⟨x, hx, rfl⟩ := List.mem_map.mp hr; exact toUpper_valid x (decodeRunes_valid t x hx))] at this
  exact this

theorem runesFoldEq_of_upper_eq : ∀ (l m : List Nat), l.map toUpper = m.map toUpper → (∀ r ∈ l, r ≠ 305) → (∀ r ∈ m, r ≠ 305) →
    runesFoldEq l m = true
  | [], [], _, _, _ => rfl
  | [], _ :: _, h, _, _ => by simp at h
  | _ :: _, [], h, _, _ => by simp at h
  | a :: as, b :: bs, h, hl, hm => by
    simp only [List.map_cons, List.cons.injEq] at h
    simp only [runesFoldEq, Bool.and_eq_true]
    refine ⟨?_, runesFoldEq_of_upper_eq as bs h.2 (fun r hr => hl r (by simp [hr])) (fun r hr => hm r (by simp [hr]))⟩
    have ha := hl a (by simp)
    have hb := hm b (by simp)
    have h1 : runeFoldEq a (toUpper a) = true := (runeFoldEq_iff tables_ok a _).mpr (upper_in_orbit tables_ok a ha)
    have h2 : runeFoldEq b (toUpper a) = true := by rw [h.1]; exact (runeFoldEq_iff tables_ok b _).mpr (upper_in_orbit tables_ok b hb)
    rw [runeFoldEq_comm] at h2
    exact runeFoldEq_trans tables_ok a _ b h1 h2

end Uni
end Csvq
