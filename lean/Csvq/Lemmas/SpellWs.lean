/-
  Lemmas for Props/C04Spell.lean, second part: option.TrimSpace on a text wrapped in runs of ANY of the 25 White_Space
  runes (UTF-8), with the guard of option.TrimSpace (only a text whose first or last BYTE is a blank is trimmed).
-/
import Csvq.Lemmas.Spell
import Csvq.Props.C06Text
namespace Csvq
namespace Spell
open PF Uni

/-- the runes are White_Space (unicode.IsSpace) -/
def AllSpace (rs : List Nat) : Prop := ∀ r ∈ rs, isSpace r = true

theorem allSpace_tail {r : Nat} {rs : List Nat} (h : AllSpace (r :: rs)) : AllSpace rs :=
  fun x hx => h x (List.mem_cons_of_mem _ hx)

theorem encodeRune_pos (r : Nat) : 0 < (encodeRune r).length := by
  unfold encodeRune
  split
  · simp
  · split
    · simp
    · split
      · simp
      · split <;> simp

theorem encodeRunes_length (rs : List Nat) : rs.length ≤ (encodeRunes rs).length := by
  induction rs with
  | nil => simp [encodeRunes]
  | cons r rs ih =>
    have := encodeRune_pos r
    simp only [encodeRunes, List.length_cons, List.length_append]
    omega

theorem encodeRunes_append (a b : List Nat) : encodeRunes (a ++ b) = encodeRunes a ++ encodeRunes b := by
  induction a with
  | nil => simp [encodeRunes]
  | cons r rs ih => simp [encodeRunes, ih]

/-- strings.TrimLeft's loop eats a run of White_Space runes -/
theorem trimLeft_ws : ∀ (rs : List Nat) (x : Bytes) (fuel : Nat), AllSpace rs → rs.length ≤ fuel → spaceLenHead x = 0 →
    trimLeft fuel (encodeRunes rs ++ x) = x := by
  intro rs
  induction rs with
  | nil =>
    intro x fuel _ _ hx
    cases fuel with
    | zero => rfl
    | succ f => simp only [encodeRunes, List.nil_append, trimLeft, hx]
  | cons r rs ih =>
    intro x fuel hr hf hx
    cases fuel with
    | zero => simp at hf
    | succ f =>
      have h1 : spaceLenHead (encodeRunes (r :: rs) ++ x) = (encodeRune r).length := by
        simp only [encodeRunes, List.append_assoc]
        exact C06.isSpace_tied_to_trimSpace r (hr r (by simp)) _
      have hp := encodeRune_pos r
      obtain ⟨k, hk⟩ : ∃ k, (encodeRune r).length = k + 1 := ⟨(encodeRune r).length - 1, by omega⟩
      simp only [trimLeft, h1, hk]
      have hd : (encodeRunes (r :: rs) ++ x).drop (k + 1) = encodeRunes rs ++ x := by
        simp only [encodeRunes, List.append_assoc]
        rw [← hk]
        exact List.drop_left
      rw [hd]
      exact ih x f (allSpace_tail hr) (by simpa using hf) hx

/-- the reversed text of a run, the runes listed from the END of the text -/
def revRun : List Nat → Bytes
  | [] => []
  | r :: rs => (encodeRune r).reverse ++ revRun rs

theorem revRun_append (a b : List Nat) : revRun (a ++ b) = revRun a ++ revRun b := by
  induction a with
  | nil => simp [revRun]
  | cons r rs ih => simp [revRun, ih]

theorem encodeRunes_reverse (rs : List Nat) : (encodeRunes rs).reverse = revRun rs.reverse := by
  induction rs with
  | nil => simp [encodeRunes, revRun]
  | cons r rs ih =>
    simp only [encodeRunes, List.reverse_append, List.reverse_cons, revRun_append, ih, revRun, List.append_nil]

/-- utf8.DecodeLastRune's side of the model recognises each of the 25 runes at the end of a text -/
theorem spaceLenLast_rune (r : Nat) (h : isSpace r = true) (rest : Bytes) :
    spaceLenLast ((encodeRune r).reverse ++ rest) = (encodeRune r).length := by
  have hm := (C06.isSpace_list r).mp h
  unfold C06.spaceRunes at hm
  simp only [List.mem_cons, List.not_mem_nil, or_false] at hm
  rcases hm with h | h | h | h | h | h | h | h | h | h | h | h | h | h | h | h | h | h | h | h | h | h | h | h | h <;> subst h <;> rfl

theorem trimRightRev_ws : ∀ (rs : List Nat) (x : Bytes) (fuel : Nat), AllSpace rs → rs.length ≤ fuel → spaceLenLast x = 0 →
    trimRightRev fuel (revRun rs ++ x) = x := by
  intro rs
  induction rs with
  | nil =>
    intro x fuel _ _ hx
    cases fuel with
    | zero => rfl
    | succ f => simp only [revRun, List.nil_append, trimRightRev, hx]
  | cons r rs ih =>
    intro x fuel hr hf hx
    cases fuel with
    | zero => simp at hf
    | succ f =>
      have h1 : spaceLenLast (revRun (r :: rs) ++ x) = (encodeRune r).length := by
        simp only [revRun, List.append_assoc]
        exact spaceLenLast_rune r (hr r (by simp)) _
      have hp := encodeRune_pos r
      obtain ⟨k, hk⟩ : ∃ k, (encodeRune r).length = k + 1 := ⟨(encodeRune r).length - 1, by omega⟩
      simp only [trimRightRev, h1, hk]
      have hd : (revRun (r :: rs) ++ x).drop (k + 1) = revRun rs ++ x := by
        simp only [revRun, List.append_assoc]
        rw [← hk, ← List.length_reverse]
        exact List.drop_left
      rw [hd]
      exact ih x f (allSpace_tail hr) (by simpa using hf) hx

/-- strings.TrimSpace takes runs of White_Space off both ends of a text whose first and last byte are ASCII non-blanks -/
theorem goTrimSpace_ws (lrs rrs : List Nat) (core : Bytes) (c e : Nat) (mid : Bytes) (hl : AllSpace lrs) (hr : AllSpace rrs)
    (hcore : core = c :: mid) (hlast : core.reverse = e :: (c :: mid).reverse.tail)
    (hc : c < 128) (hcs : isAsciiSpace c = false) (he : e < 128) (hes : isAsciiSpace e = false) :
    goTrimSpace (encodeRunes lrs ++ (core ++ encodeRunes rrs)) = core := by
  unfold goTrimSpace
  have h1 : trimLeft (encodeRunes lrs ++ (core ++ encodeRunes rrs)).length (encodeRunes lrs ++ (core ++ encodeRunes rrs))
      = core ++ encodeRunes rrs :=
    trimLeft_ws lrs (core ++ encodeRunes rrs) _ hl
      (by have := encodeRunes_length lrs; simp only [List.length_append]; omega)
      (by rw [hcore]; exact spaceLenHead_ascii c _ hc hcs)
  simp only [h1]
  have h2 : (core ++ encodeRunes rrs).reverse = revRun rrs.reverse ++ core.reverse := by
    rw [List.reverse_append, encodeRunes_reverse]
  rw [h2]
  have h3 : trimRightRev (core ++ encodeRunes rrs).length (revRun rrs.reverse ++ core.reverse) = core.reverse :=
    trimRightRev_ws rrs.reverse core.reverse _ (fun x hx => hr x (List.mem_reverse.mp hx))
      (by have := encodeRunes_length rrs; simp only [List.length_append, List.length_reverse]; omega)
      (by rw [hlast]; exact spaceLenLast_ascii e _ he hes)
  rw [h3, List.reverse_reverse]

/-- the guard of option.TrimSpace on a text: nothing to trim, or the first or the last BYTE is a blank
    (read as a Latin-1 rune: the ASCII blanks, 0x85, 0xA0) -/
def Guard (l r S : Bytes) : Prop :=
  (l = [] ∧ r = []) ∨ (∃ b t q, S = b :: t ∧ S.getLast? = some q ∧ (byteIsSpace b || byteIsSpace q) = true)

/-- option.TrimSpace takes the runs off whenever its guard lets it -/
theorem trimSpace_ws (lrs rrs : List Nat) (core : Bytes) (c e : Nat) (mid : Bytes) (hl : AllSpace lrs) (hr : AllSpace rrs)
    (hcore : core = c :: mid) (hlast : core.reverse = e :: (c :: mid).reverse.tail)
    (hc : c < 128) (hcs : isAsciiSpace c = false) (he : e < 128) (hes : isAsciiSpace e = false)
    (hg : Guard (encodeRunes lrs) (encodeRunes rrs) (encodeRunes lrs ++ (core ++ encodeRunes rrs))) :
    trimSpace (encodeRunes lrs ++ (core ++ encodeRunes rrs)) = core := by
  have hgo := goTrimSpace_ws lrs rrs core c e mid hl hr hcore hlast hc hcs he hes
  have key : ∀ (S : Bytes) (b : Nat) (t : Bytes) (q : Nat), S = b :: t → S.getLast? = some q →
      trimSpace S = if (byteIsSpace b || byteIsSpace q) = true then goTrimSpace S else S := by
    intro S b t q h1 h2
    subst h1
    unfold trimSpace
    rw [h2]
  rcases hg with ⟨h1, h2⟩ | ⟨b, t, q, hS, hq, hf⟩
  · -- nothing to trim: both branches of option.TrimSpace return the text
    rw [h1, h2] at hgo ⊢
    simp only [List.nil_append, List.append_nil] at hgo ⊢
    obtain ⟨q, hq⟩ : ∃ q, core.getLast? = some q := by
      rw [hcore]
      cases hq : (c :: mid).getLast? with
      | none => simp at hq
      | some q => exact ⟨q, rfl⟩
    rw [key core c mid q hcore hq]
    split
    · exact hgo
    · rfl
  · rw [key _ b t q hS hq, if_pos hf]
    exact hgo

/-- a run of ASCII blanks is a run of White_Space runes, written as itself -/
theorem blanks_are_ws (l : Bytes) (h : IsBlank l) : AllSpace l ∧ encodeRunes l = l := by
  induction l with
  | nil => exact ⟨fun x hx => (by cases hx), rfl⟩
  | cons b l ih =>
    have hb := h b (by simp)
    have hlt : b < 0x80 := by unfold isAsciiSpace at hb; simp at hb; omega
    obtain ⟨ih1, ih2⟩ := ih (isBlank_tail h)
    refine ⟨?_, ?_⟩
    · intro r hr
      rcases List.mem_cons.mp hr with rfl | hm
      · apply (C06.isSpace_list r).mpr
        unfold isAsciiSpace at hb
        simp at hb
        unfold C06.spaceRunes
        simp; omega
      · exact ih1 r hm
    · simp only [encodeRunes, ih2, encodeRune, if_pos hlt, List.cons_append, List.nil_append]

/-- … and around a non-empty text the guard always holds for them -/
theorem blanks_guard (l r core : Bytes) (hl : IsBlank l) (hr : IsBlank r) (hne : core ≠ []) :
    Guard l r (l ++ (core ++ r)) := by
  obtain ⟨b, t, hS⟩ : ∃ b t, l ++ (core ++ r) = b :: t := by
    cases hlc : l ++ (core ++ r) with
    | nil =>
      exfalso
      have h0 := congrArg List.length hlc
      simp only [List.length_append, List.length_nil] at h0
      exact hne (List.length_eq_zero_iff.mp (by omega))
    | cons b t => exact ⟨b, t, rfl⟩
  obtain ⟨q, hq⟩ : ∃ q, (l ++ (core ++ r)).getLast? = some q := by
    rw [hS]
    cases hq : (b :: t).getLast? with
    | none => simp at hq
    | some q => exact ⟨q, rfl⟩
  by_cases hl' : l = []
  · by_cases hr' : r = []
    · left; exact ⟨hl', hr'⟩
    · right
      refine ⟨b, t, q, hS, hq, ?_⟩
      have hne' : r ≠ [] := hr'
      have hlr : (l ++ (core ++ r)).getLast? = r.getLast? := by
        rw [List.getLast?_append, List.getLast?_append]
        cases hq' : r.getLast? with
        | none => exact absurd (List.getLast?_eq_none_iff.mp hq') hne'
        | some q' => simp
      have hmem : q ∈ r := by
        apply List.mem_of_getLast?
        rw [← hlr]; exact hq
      have := byteIsSpace_of_ascii (hr q hmem)
      rw [this]; simp
  · right
    refine ⟨b, t, q, hS, hq, ?_⟩
    cases hl'' : l with
    | nil => exact absurd hl'' hl'
    | cons x xs =>
      rw [hl''] at hS
      simp only [List.cons_append, List.cons.injEq] at hS
      have := byteIsSpace_of_ascii (hl x (by rw [hl'']; simp))
      rw [← hS.1, this]; rfl

end Spell
end Csvq
