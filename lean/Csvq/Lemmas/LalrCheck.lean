/-
  Csvq.Lemmas.LalrCheck — the Bool checker of the finite facts about the goyacc tables the driver invariant needs,
  and of the certificates the extractor ships with them (Gen.Lalr.belowChunks / depthBits / weightBits / rankBits).

  `check P C = true` is established for the regenerated tables by kernel evaluation (Props/C18Lalr.lean,
  `lalr_tables_wf`); Csvq/Lemmas/Lalr.lean derives the ∀-statements from it.  Nothing in the certificates is trusted:
  everything the proofs use goes through `check`.

  Style.  The kernel evaluates `Nat.add`, `Nat.sub`, `Nat.mul`, `Nat.div`, `Nat.mod`, `Nat.pow`, `Nat.land`, `Nat.lor`,
  `Nat.shiftRight`, `Nat.beq`, `Nat.ble` on literals directly (about a microsecond); going through `+`, `≤`, `decide`,
  `if … then … else`, `Int`, or a function compiled from structural recursion costs 20–400 times more per step, and
  `Nat.log2` is unfolded bit by bit.  With ~10^6 steps to do, the loops below are therefore written with the
  recursors and the raw operations, and the table entries are compared in their stored form (value + 32768).
  The kernel reduces lazily: `force` makes it compute a number once before it is used several times.
-/
import Csvq.Model.Lalr
namespace Csvq.Lalr

/-! ## evaluation helpers -/

/-- `f x`, with `x` computed first -/
noncomputable def force {α : Type} (x : Nat) (f : Nat → α) : α :=
  Nat.rec (f 0) (fun n _ => f (Nat.succ n)) x

theorem force_eq {α : Type} (x : Nat) (f : Nat → α) : force x f = f x := by
  cases x <;> rfl

/-- `f i` for all `i < N` -/
noncomputable def allLt (N : Nat) (f : Nat → Bool) : Bool :=
  Nat.rec true (fun n ih => and (f n) ih) N

/-- stored form → value of a table entry that is known not to be negative.  Its own definition (irreducible for
    the elaborator): `x - 32768` with a variable `x` would otherwise be unfolded 32768 times by every
    definitional-equality test that meets it. -/
def unb (r : Nat) : Nat := Nat.sub r 32768

theorem unb_def (r : Nat) : unb r = r - 32768 := rfl

attribute [irreducible] unb

/-- `a < b` -/
def blt (a b : Nat) : Bool := Nat.ble (Nat.succ a) b

/-- element `i` of a list (0 past the end) -/
noncomputable def nth (l : List Nat) (i : Nat) : Nat :=
  List.rec (motive := fun _ => Nat → Nat) (fun _ => 0) (fun hd _ ih i => Nat.rec hd (fun j _ => ih j) i) l i

/-- element `i` of a list of lists ([] past the end) -/
noncomputable def nthL (l : List (List Nat)) (i : Nat) : List Nat :=
  List.rec (motive := fun _ => Nat → List Nat) (fun _ => []) (fun hd _ ih i => Nat.rec hd (fun j _ => ih j) i) l i

/-- bit `i` of `x` -/
def tbit (x i : Nat) : Bool := Nat.beq (Nat.land (Nat.shiftRight x i) 1) 1

/-! ## the certificates -/

structure Cert where
  /-- bit `(u % 32) * n + s` of entry `u / 32`: state `s` may lie directly below state `u` -/
  chunks : List Nat
  depth : Packed
  weight : Packed
  rank : Packed
  maxTok : Nat
  bound : Nat
  /-- oracle for the lowest set bit: `lowTab[2^i % lowMod] = i` (every answer is verified where it is used) -/
  lowMod : Nat
  lowTab : Packed
  /-- the right-hand side of every production, LAST symbol first (the order in which a reduction meets them on the
      stack), each symbol in the stored form of yyChk (code + 32768); entry p is production p -/
  rhsTop : List (List Nat)

variable (P : PTables) (C : Cert)

/-- number of states -/
def PTables.n : Nat := P.pact.size

/-- the states that may lie directly below `u`, as a bit mask over the states -/
noncomputable def Cert.row (n u : Nat) : Nat :=
  Nat.land (Nat.shiftRight (nth C.chunks (Nat.div u 32)) (Nat.mul n (Nat.mod u 32))) (Nat.sub (Nat.pow 2 n) 1)

noncomputable def Cert.isBelow (n u s : Nat) : Bool := tbit (C.row n u) s

/-- a guess for the index of the lowest set bit of `S < 2^n`: isolate it (`S &&& (2^n - S)`), look its residue up -/
def Cert.lowIdx (n S : Nat) : Nat :=
  C.lowTab.raw (Nat.mod (Nat.land S (Nat.sub (Nat.pow 2 n) S)) C.lowMod)

/-- `f i` for every set bit `i` of `S`, lowest first; `false` when the fuel does not reach the end of `S` or a
    guess was wrong (`S % 2^(i+1) = 2^i` says that `i` is the lowest set bit) -/
noncomputable def allBits (n : Nat) (f : Nat → Bool) (fuel S : Nat) : Bool :=
  Nat.rec (motive := fun _ => Nat → Bool)
    (fun S => Nat.beq S 0)
    (fun _ ih S =>
      force S fun S =>
        cond (Nat.beq S 0) true
          (force (C.lowIdx n S) fun i =>
            and (Nat.beq (Nat.mod S (Nat.pow 2 (Nat.succ i))) (Nat.pow 2 i))
              (and (f i) (ih (Nat.sub S (Nat.pow 2 i))))))
    fuel S

/-- fold `f` over the set bits of `S`, lowest first, then `k` on the result; `false` when the fuel does not reach the
    end of `S`, a guess was wrong, or a set bit does not satisfy `p` -/
noncomputable def foldBits (n : Nat) (p : Nat → Bool) (f : Nat → Nat → Nat) (fuel S acc : Nat) (k : Nat → Bool) : Bool :=
  Nat.rec (motive := fun _ => Nat → Nat → Bool)
    (fun S acc => and (Nat.beq S 0) (k acc))
    (fun _ ih S acc =>
      force S fun S =>
        cond (Nat.beq S 0) (k acc)
          (force (C.lowIdx n S) fun i =>
            and (Nat.beq (Nat.mod S (Nat.pow 2 (Nat.succ i))) (Nat.pow 2 i))
              (and (p i) (force (f acc i) fun acc' => ih (Nat.sub S (Nat.pow 2 i)) acc'))))
    fuel S acc

/-! ## the driver's table functions on the stored form of the entries -/

/-- the shift in state `s` on token `t` (`yyn = yyPact[s] + t` inside yyAct, `yyChk[yyAct[yyn]] == t`): `k` of the
    new state; `true` when there is no such shift -/
noncomputable def shiftK (s t : Nat) (k : Nat → Bool) : Bool :=
  force (Nat.add (P.pact.raw s) t) fun ir =>
    cond (and (Nat.ble 32768 ir) (blt ir (Nat.add 32768 P.act.size)))
      (force (P.act.raw (unb ir)) fun ur =>
        cond (Nat.beq (P.chk.raw (unb ur)) (Nat.add t 32768)) (k (unb ur)) true)
      true

/-- the goto of the reduce step: exposed state `t`, nonterminal `nt` -/
noncomputable def gotoK (t nt : Nat) : Nat :=
  force (unb (P.pgo.raw nt)) fun g =>
    force (Nat.add (Nat.add g t) 1) fun j =>
      cond (Nat.ble P.act.size j) (unb (P.act.raw g))
        (force (P.act.raw j) fun a =>
          cond (Nat.beq (Nat.add (P.chk.raw (unb a)) nt) 32768)
            (unb a) (unb (P.act.raw g)))

/-- first yyExca loop: `k` of the index of the `(-1, state)` pair; `false` when there is none -/
noncomputable def findBlock (state : Nat) (k : Nat → Bool) (fuel xi : Nat) : Bool :=
  Nat.rec (motive := fun _ => Nat → Bool)
    (fun _ => false)
    (fun _ ih xi =>
      cond (blt (Nat.succ xi) P.exca.size)
        (cond (and (Nat.beq (P.exca.raw xi) 32767) (Nat.beq (P.exca.raw (Nat.succ xi)) (Nat.add state 32768)))
          (k xi) (ih (Nat.add xi 2)))
        false)
    fuel xi

/-- the block that starts at `xi`: it ends inside the table (first component negative) and every second component,
    including the terminator's, satisfies `f` -/
noncomputable def blockAll (f : Nat → Bool) (fuel xi : Nat) : Bool :=
  Nat.rec (motive := fun _ => Nat → Bool)
    (fun _ => false)
    (fun _ ih xi =>
      cond (blt (Nat.succ xi) P.exca.size)
        (and (f (P.exca.raw (Nat.succ xi))) (cond (blt (P.exca.raw xi) 32768) true (ih (Nat.add xi 2))))
        false)
    fuel xi

/-! ## the checker -/

/-- the levels of a reduction in state `s` to nonterminal `nt`: `S` = the states `i` levels above the exposed one,
    `wsum` = a lower bound of the weight of the entries above them, `exp` = the symbols (stored form of yyChk) the
    states of this and the following levels must have been entered on; at the last level every exposed state `t` is
    checked: the goto target records `t` as a lower neighbour and the measure `Σ weight + rank(top)` decreases -/
noncomputable def reduceGo (s nt : Nat) (levels S wsum : Nat) (exp : List Nat) : Bool :=
  Nat.rec (motive := fun _ => Nat → Nat → List Nat → Bool)
    (fun S wsum exp =>
      List.rec (motive := fun _ => Bool)
        (force (Nat.add (C.rank.raw s) wsum) fun budget =>
          allBits C P.n (fun t =>
            force (gotoK P t nt) fun u =>
              and (C.isBelow P.n u t) (blt (Nat.add (C.weight.raw u) (C.rank.raw u)) budget)) P.n S)
        (fun _ _ _ => false) exp)
    (fun _ ih S wsum exp =>
      List.rec (motive := fun _ => Bool) false
        (fun e rest _ =>
          force S fun S => force wsum fun wsum =>
            foldBits C P.n (fun _ => true) (fun acc u => Nat.lor acc (C.row P.n u)) P.n S 0 fun S' =>
              foldBits C P.n (fun x => Nat.beq (P.chk.raw x) e)
                (fun acc x => cond (Nat.ble acc (C.weight.raw x)) acc (C.weight.raw x)) P.n S (Nat.succ C.bound) fun w =>
                  ih S' (Nat.add wsum w) rest)
        exp)
    levels S wsum exp

/-- one action (stored form `y`) of state `s`: accept / error (`y ≤ 32768`) need nothing; a reduction must name a
    production, the stack must be deep enough, and `reduceGo` (with the production's right-hand side) -/
noncomputable def actionOK (s y : Nat) : Bool :=
  cond (Nat.ble y 32768) true
    (force (unb y) fun p =>
      and (blt p P.r2.size)
        (force (unb (P.r2.raw p)) fun k =>
          and (Nat.ble k (C.depth.raw s)) (reduceGo P C s (unb (P.r1.raw p)) k (Nat.pow 2 s) 0 (nthL C.rhsTop p))))

/-- per state: the default action is an action, or the yyExca block is there, well formed, and all its actions are -/
noncomputable def statesOK : Bool :=
  allLt P.n fun s =>
    force (P.dflt.raw s) fun d =>
      cond (Nat.beq d 32766)
        (findBlock P s (fun b => blockAll P (actionOK P C s) P.exca.size (Nat.add b 2)) P.exca.size 0)
        (and (Nat.ble 32768 d) (actionOK P C s d))

def sizesOK : Bool :=
  decide (P.dflt.size = P.n) && decide (P.chk.size = P.n) && decide (P.r1.size = P.r2.size) &&
  decide (P.last = P.act.size) && decide (1 ≤ P.n) && decide (1 ≤ P.tok1.size) && decide (2 ≤ P.tok2.size) &&
  decide (0 ≤ P.errCode) && decide (P.errCode ≤ C.maxTok) && decide (P.scanEOF < 0) && decide (P.act.size < 32768) &&
  decide (C.maxTok < 32768) && decide (C.depth.raw 0 = 0)

noncomputable def actOK : Bool :=
  allLt P.act.size fun i => force (P.act.raw i) fun r => and (Nat.ble 32768 r) (blt r (Nat.add 32768 P.n))

noncomputable def prodOK : Bool :=
  allLt P.r2.size fun p =>
    and (Nat.ble 32768 (P.r2.raw p))
      (force (P.r1.raw p) fun r => and (Nat.ble 32768 r) (blt r (Nat.add 32768 P.pgo.size)))

noncomputable def pgoOK : Bool :=
  allLt P.pgo.size fun a => force (P.pgo.raw a) fun r => and (Nat.ble 32768 r) (blt r (Nat.add 32768 P.act.size))

noncomputable def tokTabOK (t : Packed) : Bool :=
  allLt t.size fun i => force (t.raw i) fun r => and (Nat.ble 32768 r) (Nat.ble r (Nat.add 32768 C.maxTok))

noncomputable def tok3OK : Bool :=
  allLt P.tok3.size fun i => or (Nat.ble (P.tok3.raw i) 32768) (blt (Nat.succ i) P.tok3.size)

/-- the token number `yylex1` gives the end of input (and any character code ≤ 0) -/
def eofTok : Nat :=
  cond (Nat.beq (P.tok1.raw 0) 32768) (unb (P.tok2.raw 1)) (unb (P.tok1.raw 0))

/-- no state shifts `error`, none shifts the end-of-input token -/
noncomputable def noSpecialShift : Bool :=
  allLt P.n fun s => and (shiftK P s P.errCode.toNat (fun _ => false)) (shiftK P s (eofTok P) (fun _ => false))

/-- every shift leads to a state that records its origin as a possible lower neighbour -/
noncomputable def shiftClosed : Bool :=
  allLt P.n fun s =>
    force (P.pact.raw s) fun pr =>
      -- a row none of whose entries lies inside yyAct shifts nothing
      cond (or (blt (Nat.add pr C.maxTok) 32768) (Nat.ble (Nat.add 32768 P.act.size) pr)) true
        (allLt (Nat.succ C.maxTok) fun t => shiftK P s t (fun u => C.isBelow P.n u s))

/-- the default goto of every production's nonterminal leads to a state entered on that nonterminal (the explicit
    gotos say so themselves: the driver compares `yyChk`) -/
noncomputable def gotoDefaultOK : Bool :=
  allLt P.r2.size fun p =>
    cond (Nat.beq p 0) true
      (force (unb (P.r1.raw p)) fun nt =>
        Nat.beq (Nat.add (P.chk.raw (unb (P.act.raw (unb (P.pgo.raw nt))))) nt) 32768)

/-- the depth bound is locally consistent, weights and ranks are bounded -/
noncomputable def depthOK : Bool :=
  allLt P.n fun u =>
    force (C.depth.raw u) fun du =>
      and (allBits C P.n (fun t => Nat.ble du (Nat.succ (C.depth.raw t))) P.n (C.row P.n u))
        (Nat.ble (Nat.add (C.weight.raw u) (C.rank.raw u)) C.bound)

noncomputable def check : Bool :=
  sizesOK P C && actOK P && prodOK P && pgoOK P && tokTabOK C P.tok1 && tokTabOK C P.tok2 && tokTabOK C P.tok3 &&
  tok3OK P && noSpecialShift P && shiftClosed P C && statesOK P C && depthOK P C && gotoDefaultOK P

end Csvq.Lalr
