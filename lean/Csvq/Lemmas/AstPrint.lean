/-
  Helper definitions for C18 over the facts regenerated from lib/parser/ast.go and lib/parser/parser.y
  (Csvq/Gen/AstPrint.lean): which fields a printer must read, when a field a production sets counts as printed,
  and the order in which the operator printers emit their parts.
-/
import Csvq.Gen.AstPrint
namespace Csvq.AstPrint
open Csvq.Gen.AstPrint

/-- EXEMPTIONS of `gen_printers_read_every_field` (reviewed; every other field of every printable node is syntax):
    * `BaseExpr` — the embedded `*BaseExpr` holds line, char and source file of the token the node started with;
      it is position information only (`ClearBaseExpr` zeroes it without changing the query), never part of the text. -/
def exemptFields : List String := ["BaseExpr"]

def readsEveryField (n : Node) : Bool :=
  n.fields.all fun f => exemptFields.contains f.1 || n.reads.contains f.1

/-- the zero values an action may write explicitly (`Token{}`, nil, "", false, 0): not "set" -/
def isZeroExpr (e : String) : Bool := e = "Token{}" || e = "nil" || e = "\"\"" || e = "false" || e = "0"

/-- the (node, field) pairs some production of parser.y sets to a non-zero value -/
def settable : List (String × String) :=
  (setters.flatMap fun s => (s.sets.filter fun x => !exemptFields.contains x.1 && !isZeroExpr x.2.1).map fun x => (s.node, x.1)).eraseDups

/-- the parts whose value reads field `f` -/
def valueParts (n : Node) (f : String) : List Part := n.parts.filter fun p => p.reads.contains f
/-- the parts whose condition reads field `f` -/
def guardParts (n : Node) (f : String) : List Part := n.parts.filter fun p => p.guardReads.contains f

/-- REVIEWED: fields whose printing is guarded by a condition on OTHER fields; (node, field, the conditions of the parts
    that print it).  For each the condition holds whenever a production sets the field:
    * Function.From / For — only `SUBSTRING '(' value FROM value [FOR value] ')'` sets them, and it sets Name to the
      SUBSTRING token's literal, so `EqualFold(e.Name, SUBSTRING)` holds; For is only set together with From.
    * JoinCondition.Using — `join_condition` sets either On or Using, never both, so `!(e.On != nil)` holds for Using.
    * LimitClause — the LIMIT productions set Type = LIMIT with Value, Unit, Restriction, OffsetClause; the FETCH
      productions set Type = FETCH with Position, Value, Unit, Restriction, OffsetClause; the OFFSET-only production
      leaves Type empty and sets OffsetClause: every field is printed in the branch of the Type that comes with it.
    * Placeholder.Ordinal — printed (`?{n}`) for positional placeholders, i.e. when Name is empty; named ones print Literal.
    * WindowFramePosition — `CURRENT ROW` sets Direction only, `UNBOUNDED x` sets Unbounded and Direction, `n x` sets
      Offset and Direction: each is printed in its own branch. -/
def crossGuards : List (String × String × List String) := [
  ("Function", "From", ["strings.EqualFold(e.Name, keyword(SUBSTRING)) && !e.From.IsEmpty()"]),
  ("Function", "For", ["strings.EqualFold(e.Name, keyword(SUBSTRING)) && !e.From.IsEmpty() && !e.For.IsEmpty()"]),
  ("JoinCondition", "Using", ["!(e.On != nil)"]),
  ("LimitClause", "Value", ["e.Type.Token == LIMIT", "!(e.Type.Token == LIMIT) && e.Type.Token == FETCH"]),
  ("LimitClause", "Unit", ["e.Type.Token == LIMIT && !e.Unit.IsEmpty()", "!(e.Type.Token == LIMIT) && e.Type.Token == FETCH"]),
  ("LimitClause", "Restriction", ["e.Type.Token == LIMIT && !e.Restriction.IsEmpty()", "!(e.Type.Token == LIMIT) && e.Type.Token == FETCH && !e.Restriction.IsEmpty()"]),
  ("LimitClause", "Position", ["!(e.Type.Token == LIMIT) && e.Type.Token == FETCH"]),
  ("LimitClause", "OffsetClause", ["e.Type.Token == LIMIT && e.OffsetClause != nil", "!(e.Type.Token == LIMIT) && e.Type.Token == FETCH && e.OffsetClause != nil", "!(e.Type.Token == LIMIT) && !(e.Type.Token == FETCH) && e.OffsetClause != nil"]),
  ("Placeholder", "Ordinal", ["len(e.Name) < 1"]),
  ("WindowFramePosition", "Unbounded", ["!(e.Direction.Token == CURRENT) && !e.Unbounded.IsEmpty()"]),
  ("WindowFramePosition", "Offset", ["!(e.Direction.Token == CURRENT) && !(!e.Unbounded.IsEmpty())"])]

/-- a field that is set is printed under a condition that holds for it:
    (1) some part prints it (or its condition tests it) unconditionally or under a condition on that field alone, or
    (2) it is printed in both branches of a condition, or
    (3) the conditions of the parts that print it are the reviewed ones of `crossGuards`. -/
def printedWhenSet (n : Node) (f : String) : Bool :=
  let vs := valueParts n f
  (vs ++ guardParts n f).any (fun p => p.guard = "" || p.guardReads.all (· = f)) ||
  vs.any (fun p => vs.any fun q => q.guard = "!(" ++ p.guard ++ ")") ||
  crossGuards.contains (n.name, f, (vs.map (·.guard)).eraseDups)

def settableOK (x : String × String) : Bool :=
  match nodes.find? (·.name = x.1) with
  | some n => printedWhenSet n x.2
  | none => false

/-- the fields a printer emits, in order of first emission -/
def emitOrder (n : Node) : List String := (n.parts.flatMap (·.reads)).eraseDups

/-- what a printer appends to its list of parts, in order (allocations and the final join left out), with conditions -/
def emitted (n : Node) : List (String × String) :=
  (n.parts.filter fun p => p.target != "return" && p.target != "s").map fun p => (p.guard, p.expr)

end Csvq.AstPrint
