/- History lemmas for the session machine (Model/Session.lean): what one step that does not end the
   transaction does to a cached table; used by Props/C20. -/
import Csvq.Model.Session
namespace Csvq.Session
variable {C : Type}


def IsEnd : Op C → Prop
  | .commit => True
  | .rollback => True
  | _ => False

/-- the transaction's own successful changes to table p, in order, applied to `c` -/
def ownEffect (p : Path) : List (Op C) → C → C
  | [], c => c
  | .dml q f :: ops, c =>
    if q = p then (match f c with | some c' => ownEffect p ops c' | none => ownEffect p ops c)
    else ownEffect p ops c
  | _ :: ops, c => ownEffect p ops c

theorem load_cache_other (s s' : State C) (q p : Path) (fu : Bool) (d : C)
    (h : load s q fu = some (s', d)) (hq : q ≠ p) : s'.cache p = s.cache p := by
  unfold load at h
  split at h
  · split at h
    · split at h
      · cases h; simp [setFn, Ne.symm hq]
      · cases h
    · cases h; rfl
  · split at h
    · cases h; simp [setFn, Ne.symm hq]
    · cases h

theorem load_locked_self (s : State C) (p : Path) (c : C) (fu : Bool) (h : s.cache p = some ⟨c, true⟩) :
    load s p fu = some (s, c) := by
  simp [load, h]

/-- one step that is not COMMIT / ROLLBACK, on a table held for update -/
theorem step_locked (s : State C) (p : Path) (c : C) (op : Op C) (hne : ¬ IsEnd op)
    (h : s.cache p = some ⟨c, true⟩) : (step s op).1.cache p = some ⟨ownEffect p [op] c, true⟩ := by
  cases op with
  | commit => exact absurd trivial hne
  | rollback => exact absurd trivial hne
  | select q =>
    simp only [step, ownEffect]
    cases hl : load s q false with
    | none => exact h
    | some r =>
      obtain ⟨s', d⟩ := r
      by_cases hq : q = p
      · subst hq; rw [load_locked_self s q c false h] at hl; cases hl; exact h
      · show s'.cache p = _; rw [load_cache_other s s' q p false d hl hq]; exact h
  | selectForUpdate q =>
    simp only [step, ownEffect]
    cases hl : load s q true with
    | none => exact h
    | some r =>
      obtain ⟨s', d⟩ := r
      by_cases hq : q = p
      · subst hq; rw [load_locked_self s q c true h] at hl; cases hl; exact h
      · show s'.cache p = _; rw [load_cache_other s s' q p true d hl hq]; exact h
  | dml q f =>
    by_cases hq : q = p
    · subst hq
      simp only [step, ownEffect, load_locked_self s q c true h, if_true]
      cases hf : f c with
      | none => exact h
      | some c' => simp [setFn]
    · simp only [step, ownEffect, if_neg hq]
      cases hl : load s q true with
      | none => exact h
      | some r =>
        obtain ⟨s', d⟩ := r
        have hc : s'.cache p = some ⟨c, true⟩ := by rw [load_cache_other s s' q p true d hl hq]; exact h
        cases hf : f d with
        | none => simp only [hf]; exact hc
        | some c' => simp only [hf]; simp [setFn, Ne.symm hq, hc]
  | create q c0 =>
    simp only [step, ownEffect]
    split
    · exact h
    · rename_i hn
      have hq : q ≠ p := by
        intro hqp; subst hqp; simp [h] at hn
      simp [setFn, Ne.symm hq, h]
  | declareTemp t c0 => simp only [step, ownEffect]; split <;> exact h
  | dmlTemp t f =>
    simp only [step, ownEffect]
    split
    · split <;> exact h
    · exact h
  | other q c0 => simp only [step, ownEffect]; split <;> exact h

theorem ownEffect_cons (p : Path) (op : Op C) (ops : List (Op C)) (c : C) :
    ownEffect p (op :: ops) c = ownEffect p ops (ownEffect p [op] c) := by
  cases op <;> simp only [ownEffect]
  rename_i q f
  by_cases hq : q = p
  · simp only [if_pos hq]; cases f c <;> rfl
  · simp only [if_neg hq]

/-- statements that neither end the transaction nor ask for p under the lock -/
def KeepsUnlocked (p : Path) : Op C → Prop
  | .commit => False
  | .rollback => False
  | .dml q _ => q ≠ p
  | .selectForUpdate q => q ≠ p
  | _ => True

theorem step_unlocked (s : State C) (p : Path) (c : C) (op : Op C) (hk : KeepsUnlocked p op)
    (h : s.cache p = some ⟨c, false⟩) : (step s op).1.cache p = some ⟨c, false⟩ := by
  cases op with
  | commit => exact absurd hk id
  | rollback => exact absurd hk id
  | select q =>
    simp only [step]
    cases hl : load s q false with
    | none => exact h
    | some r =>
      obtain ⟨s', d⟩ := r
      by_cases hq : q = p
      · subst hq
        have : load s q false = some (s, c) := by simp [load, h]
        rw [this] at hl; cases hl; exact h
      · show s'.cache p = _; rw [load_cache_other s s' q p false d hl hq]; exact h
  | selectForUpdate q =>
    have hq : q ≠ p := hk
    simp only [step]
    cases hl : load s q true with
    | none => exact h
    | some r =>
      obtain ⟨s', d⟩ := r
      show s'.cache p = _; rw [load_cache_other s s' q p true d hl hq]; exact h
  | dml q f =>
    have hq : q ≠ p := hk
    simp only [step]
    cases hl : load s q true with
    | none => exact h
    | some r =>
      obtain ⟨s', d⟩ := r
      have hc : s'.cache p = some ⟨c, false⟩ := by rw [load_cache_other s s' q p true d hl hq]; exact h
      cases hf : f d with
      | none => simp only [hf]; exact hc
      | some c' => simp only [hf]; simp [setFn, Ne.symm hq, hc]
  | create q c0 =>
    simp only [step]
    split
    · exact h
    · rename_i hn
      have hq : q ≠ p := by
        intro hqp; subst hqp; simp [h] at hn
      simp [setFn, Ne.symm hq, h]
  | declareTemp t c0 => simp only [step]; split <;> exact h
  | dmlTemp t f =>
    simp only [step]
    split
    · split <;> exact h
    · exact h
  | other q c0 => simp only [step]; split <;> exact h

/-- history form of `step_locked` -/
theorem locked_view_hist (p : Path) (ops : List (Op C)) (hne : ∀ op ∈ ops, ¬ IsEnd op) :
    ∀ (s : State C) (c : C), s.cache p = some ⟨c, true⟩ →
      (runOps s ops).cache p = some ⟨ownEffect p ops c, true⟩ := by
  induction ops with
  | nil => intro s c h; exact h
  | cons op ops ih =>
    intro s c h
    have h1 := step_locked s p c op (hne op List.mem_cons_self) h
    have := ih (fun o ho => hne o (List.mem_cons_of_mem _ ho)) (step s op).1 _ h1
    rw [ownEffect_cons]
    simpa only [runOps, List.foldl_cons] using this

end Csvq.Session
