/-
  Helper lemmas for C18 (unary-operator printer): when does the printed text contain `--`, `/*`, or a fused `!`?
-/
import Csvq.Model.UnaryPrint
namespace Csvq.UPrint

def startsOp : List Char → Bool
  | [] => false
  | x :: _ => opRune x

/-- the operand texts of a tree contain no comment opener themselves -/
def UExpr.atomsClean : UExpr → Bool
  | .atom t => !hasCommentOpener t
  | .neg e => e.atomsClean
  | .pos e => e.atomsClean
  | .bang e => e.atomsClean
  | .paren e => e.atomsClean

/-- the operand texts do not begin with an operator rune other than `:` (a named placeholder `:name`) and do not
    contain a fused `!` themselves (true of numbers, strings, identifiers, variables, placeholders) -/
def UExpr.atomsNoOp : UExpr → Bool
  | .atom t => (!startsOp t || startsWith ':' t) && !hasBangFusion t
  | .neg e => e.atomsNoOp
  | .pos e => e.atomsNoOp
  | .bang e => e.atomsNoOp
  | .paren e => e.atomsNoOp

/-- (old printer) no unary minus is applied directly to an operand whose text begins with `-` -/
def UExpr.noMinusMinus : UExpr → Bool
  | .atom _ => true
  | .neg e => !startsWith '-' e.printOld && e.noMinusMinus
  | .pos e => e.noMinusMinus
  | .bang e => e.noMinusMinus
  | .paren e => e.noMinusMinus

theorem hco_cons_minus (l : List Char) : hasCommentOpener ('-' :: l) = (startsWith '-' l || hasCommentOpener l) := by
  cases l with
  | nil => simp [hasCommentOpener, startsWith]
  | cons x tl => simp [hasCommentOpener, startsWith]

theorem hco_cons_other (c : Char) (l : List Char) (h1 : c ≠ '-') (h2 : c ≠ '/') :
    hasCommentOpener (c :: l) = hasCommentOpener l := by
  cases l with
  | nil => simp [hasCommentOpener]
  | cons x tl => simp [hasCommentOpener, h1, h2]

theorem hco_append_close (l : List Char) : hasCommentOpener (l ++ [')']) = hasCommentOpener l := by
  induction l with
  | nil => simp [hasCommentOpener]
  | cons c tl ih =>
    cases tl with
    | nil => simp [hasCommentOpener]
    | cons x tl' =>
      have ih' : hasCommentOpener (x :: (tl' ++ [')'])) = hasCommentOpener (x :: tl') := by simpa using ih
      simp [hasCommentOpener, ih']

theorem hbf_cons_bang (l : List Char) : hasBangFusion ('!' :: l) = (startsOp l || hasBangFusion l) := by
  cases l with
  | nil => simp [hasBangFusion, startsOp]
  | cons x tl => simp [hasBangFusion, startsOp]

theorem hbf_cons_other (c : Char) (l : List Char) (h : c ≠ '!') : hasBangFusion (c :: l) = hasBangFusion l := by
  cases l with
  | nil => simp [hasBangFusion]
  | cons x tl => simp [hasBangFusion, h]

theorem hbf_append_close (l : List Char) : hasBangFusion (l ++ [')']) = hasBangFusion l := by
  induction l with
  | nil => simp [hasBangFusion]
  | cons c tl ih =>
    cases tl with
    | nil => simp [hasBangFusion, opRune]
    | cons x tl' =>
      have ih' : hasBangFusion (x :: (tl' ++ [')'])) = hasBangFusion (x :: tl') := by simpa using ih
      simp [hasBangFusion, ih']

/-- the printed text of a tree begins with an operator rune only if it begins with `!` or `:` -/
theorem startsOp_print (e : UExpr) (h : e.atomsNoOp = true) (hs : startsOp e.print = true) :
    (startsWith '!' e.print || startsWith ':' e.print) = true := by
  cases e with
  | atom t =>
    simp [UExpr.atomsNoOp, UExpr.print] at h hs ⊢
    rcases h.1 with h1 | h1
    · simp [h1] at hs
    · exact Or.inr h1
  | neg e => simp only [UExpr.print] at hs; split at hs <;> simp [startsOp, opRune] at hs
  | pos e => simp [UExpr.print, startsOp, opRune] at hs
  | bang e => simp only [UExpr.print]; split <;> simp [startsWith]
  | paren e => simp [UExpr.print, startsOp, opRune] at hs

end Csvq.UPrint
