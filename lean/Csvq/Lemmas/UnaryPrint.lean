/-
  Helper lemmas for C18 (unary-operator printer): when does the printed text contain `--` or `/*`?
-/
import Csvq.Model.UnaryPrint
namespace Csvq.UPrint

def startsWith (c : Char) : List Char → Bool
  | [] => false
  | x :: _ => x = c

/-- the operand texts of a tree contain no comment opener themselves -/
def UExpr.atomsClean : UExpr → Bool
  | .atom t => !hasCommentOpener t
  | .neg e => e.atomsClean
  | .pos e => e.atomsClean
  | .bang e => e.atomsClean
  | .paren e => e.atomsClean

/-- no unary minus is applied directly to an operand whose text begins with `-` -/
def UExpr.noMinusMinus : UExpr → Bool
  | .atom _ => true
  | .neg e => !startsWith '-' e.print && e.noMinusMinus
  | .pos e => e.noMinusMinus
  | .bang e => e.noMinusMinus
  | .paren e => e.noMinusMinus

theorem hco_cons_minus (l : List Char) : hasCommentOpener ('-' :: l) = (startsWith '-' l || hasCommentOpener l) := by
  cases l with
  | nil => simp [hasCommentOpener, startsWith]
  | cons x tl => simp [hasCommentOpener, startsWith]

theorem hco_cons_other (c : Char) (l : List Char) (h1 : c ≠ '-') (h2 : c ≠ '/') :
    hasCommentOpener (c :: l) = hasCommentOpener l := by
  cases l with
  | nil => simp [hasCommentOpener]
  | cons x tl => simp [hasCommentOpener, h1, h2]

theorem hco_append_close (l : List Char) : hasCommentOpener (l ++ [')']) = hasCommentOpener l := by
  induction l with
  | nil => simp [hasCommentOpener]
  | cons c tl ih =>
    cases tl with
    | nil => simp [hasCommentOpener]
    | cons x tl' =>
      have ih' : hasCommentOpener (x :: (tl' ++ [')'])) = hasCommentOpener (x :: tl') := by simpa using ih
      simp [hasCommentOpener, ih']

theorem startsWith_sep_false (c : Char) (l : List Char) (h : c ≠ ' ') : startsWith c (' ' :: l) = false := by
  simp [startsWith, Ne.symm h]

end Csvq.UPrint
