/-
  Lemmas for Csvq.Model.SubQuery: the folding pass inverts `expand` (for any parser `P` of the level below that reads
  the texts back), the level induction.
-/
import Csvq.Model.SubQuery
import Csvq.Lemmas.Query
set_option linter.unusedSectionVars false
namespace Csvq.SubQuery
open Csvq.OpExpr Csvq.Clause Csvq.Query

variable {α : Type} [DecidableEq α]

theorem opensQuery_append {p : List (Tok α)} (h : opensQuery p = true) (x : List (Tok α)) : opensQuery (p ++ x) = true := by
  match p, h with
  | .kw .select :: _, _ => rfl
  | .kw .with :: _, _ => rfl

theorem opensQuery_closing {rest : List (Tok α)} (h : Closing rest) : opensQuery rest = false := by
  match rest, h with
  | [], _ => rfl
  | .rpar :: _, _ => rfl

/-- the head of the skeleton tokens is not the atom of an IN sub-query -/
def headNotIn : List (Tok α) → Bool
  | .atom k :: _ => !isInCode k
  | _ => true

theorem opensQuery_expand (ts : List (Tok α)) (ps : List (List (Tok α))) (rest : List (Tok α)) (hr : Closing rest)
    (hh : headNotIn ts = true) : opensQuery (expand ts ps ++ rest) = opensQuery ts := by
  cases ts with
  | nil => simp only [expand, List.nil_append]; rw [opensQuery_closing hr]; rfl
  | cons t ts =>
    cases t with
    | atom k =>
      cases ps with
      | nil => simp [expand, opensQuery]
      | cons p ps =>
        simp only [headNotIn, Bool.not_eq_true'] at hh
        simp only [expand, hh]; split <;> (try split) <;> simp [opensQuery]
    | kw k => simp only [expand, List.cons_append]; cases k <;> rfl
    | _ => simp [expand, opensQuery]

theorem good_pin_irrel (inn : α) (prev : Option (Tok α)) (pin : Bool) (i d : Nat) (ts : List (Tok α)) (ps : List (List (Tok α)))
    (hh : headNotIn ts = true) : good inn prev pin i d ts ps = good inn prev false i d ts ps := by
  cases ts with
  | nil => simp [good]
  | cons t ts =>
    cases t with
    | atom k =>
      simp only [headNotIn, Bool.not_eq_true'] at hh
      simp [good, hh]
    | _ => simp [good]

theorem good_false_head (inn : α) (prev : Option (Tok α)) (i d : Nat) (ts : List (Tok α)) (ps : List (List (Tok α)))
    (hg : good inn prev false i d ts ps = true) : headNotIn ts = true := by
  cases ts with
  | nil => rfl
  | cons t ts =>
    cases t with
    | atom k =>
      simp only [headNotIn, Bool.not_eq_true']
      by_cases hk : isInCode k = true
      · exfalso
        have hs : isSubCode k = false := by
          simp only [isInCode, decide_eq_true_eq] at hk
          simp [isSubCode]; omega
        have he : isExCode k = false := by
          simp only [isInCode, decide_eq_true_eq] at hk
          simp [isExCode]; omega
        cases ps <;> simp [good, hs, he, hk] at hg
      · simpa using hk
    | _ => rfl

theorem isInTok_noFold (inn : α) (prev : Option (Tok α)) (h : isInTok inn prev = true) : noFoldCtx prev = false := by
  match prev, h with
  | some (.sym _ _), _ => rfl

/-- the folding pass gives back the skeleton tokens, the sub-queries and the rest -/
theorem fold_expand {β : Type} (inn : α) (P : List (Tok α) → Option (β × List (Tok α))) (rest : List (Tok α)) (hr : Closing rest) :
    ∀ (m : Nat) (ts : List (Tok α)), ts.length ≤ m →
      ∀ (prev : Option (Tok α)) (i d : Nat) (qps : List (β × List (Tok α))) (n : Nat),
      good inn prev false i d ts (qps.map (·.2)) = true →
      (∀ qp ∈ qps, ∀ r, P (qp.2 ++ .rpar :: r) = some (qp.1, .rpar :: r)) →
      (expand ts (qps.map (·.2)) ++ rest).length < n →
      fold inn P n prev i d (expand ts (qps.map (·.2)) ++ rest) = some (ts, qps.map (·.1), rest) := by
  have base : ∀ (prev : Option (Tok α)) (i d : Nat) (qps : List (β × List (Tok α))) (n : Nat),
      good inn prev false i d [] (qps.map (·.2)) = true → 0 < n →
      fold inn P n prev i d (expand [] (qps.map (·.2)) ++ rest) = some ([], qps.map (·.1), rest) := by
    intro prev i d qps n hg hn
    simp [good] at hg
    obtain ⟨hd, hq⟩ := hg
    subst hd; subst hq
    cases n with
    | zero => omega
    | succ n =>
      match rest, hr with
      | [], _ => simp [expand, fold]
      | .rpar :: r, _ => simp [expand, fold]
  intro m
  induction m with
  | zero =>
    intro ts hl prev i d qps n hg hP hn
    cases ts with
    | nil => exact base prev i d qps n hg (by omega)
    | cons t ts => simp at hl
  | succ m ih =>
    intro ts hl prev i d qps n hg hP hn
    cases ts with
    | nil => exact base prev i d qps n hg (by omega)
    | cons t ts =>
    have hl' : ts.length ≤ m := by simp at hl; omega
    cases n with
    | zero => omega
    | succ n =>
    cases t with
    | atom k =>
      cases qps with
      | nil =>
        simp only [List.map_nil, good] at hg
        by_cases h1 : isSubCode k = true
        · simp [h1] at hg
        · by_cases h2 : isExCode k = true
          · simp [h1, h2] at hg
          · by_cases h3 : isInCode k = true
            · simp [h1, h2, h3] at hg
            · simp only [Bool.not_eq_true] at h1 h2 h3
              simp only [h1, h2, h3] at hg
              have := ih ts hl' (some (.atom k)) i d [] n (by simpa using hg) hP (by simp [expand] at hn ⊢; omega)
              simp at this
              simp [expand, fold, this]
      | cons qp qps =>
        by_cases hk : isSubCode k = true
        · simp only [List.map_cons, good, hk, if_true, Bool.and_eq_true, Bool.not_eq_true', beq_iff_eq] at hg
          obtain ⟨⟨⟨⟨⟨⟨hki, hctx⟩, hnin⟩, _⟩, hop⟩, _⟩, hg'⟩ := hg
          subst hki
          have hPq := hP qp (by simp) (expand ts (qps.map (·.2)) ++ rest)
          have hlen : (expand ts (qps.map (·.2)) ++ rest).length < n := by
            simp [expand, hk] at hn ⊢; omega
          have := ih ts hl' (some (.atom (subCode i))) (i + 1) d qps n hg' (fun q hq => hP q (by simp [hq])) hlen
          simp only [List.map_cons, expand, hk, if_true, List.cons_append, List.append_assoc, fold]
          simp [opensQuery_append hop, hctx, hPq, this, hnin]
        · simp only [Bool.not_eq_true] at hk
          by_cases he : isExCode k = true
          · -- `EXISTS ( query )`
            simp only [List.map_cons, good, hk, he, if_true, Bool.false_eq_true, if_false, Bool.and_eq_true, Bool.not_eq_true', beq_iff_eq] at hg
            obtain ⟨⟨⟨⟨hki, _⟩, hop⟩, _⟩, hg'⟩ := hg
            have hPq := hP qp (by simp) (expand ts (qps.map (·.2)) ++ rest)
            have hlen : (expand ts (qps.map (·.2)) ++ rest).length < n := by
              simp [expand, hk, he] at hn ⊢; omega
            have := ih ts hl' (some (.atom k)) (i + 1) d qps n hg' (fun q hq => hP q (by simp [hq])) hlen
            simp only [List.map_cons, expand, hk, he, if_true, Bool.false_eq_true, if_false, List.cons_append, List.append_assoc, fold]
            simp [opensQuery_append hop, hPq, this, ← hki]
          · simp only [Bool.not_eq_true] at he
            have hki : isInCode k = false := by
              have := good_false_head inn prev i d (.atom k :: ts) _ hg
              simpa [headNotIn] using this
            simp only [good, hk, he, hki] at hg
            have := ih ts hl' (some (.atom k)) i d (qp :: qps) n (by simpa using hg) hP (by simp [expand, hk, he, hki] at hn ⊢; omega)
            simp only [List.map_cons] at this
            simp [expand, hk, he, hki, fold, this]
    | lpar =>
      simp only [good, Bool.and_eq_true, Bool.or_eq_true, Bool.not_eq_true'] at hg
      obtain ⟨hc, hg'⟩ := hg
      by_cases hh : headNotIn ts = true
      · rw [good_pin_irrel inn _ _ _ _ ts _ hh] at hg'
        have := ih ts hl' (some .lpar) i (d + 1) qps n hg' hP (by simp [expand] at hn ⊢; omega)
        have ho := opensQuery_expand ts (qps.map (·.2)) rest hr hh
        have hcond : (opensQuery (expand ts (qps.map (·.2)) ++ rest) && !noFoldCtx prev) = false := by
          rw [ho]; rcases hc with h | h <;> simp [h]
        simp [expand, fold, hcond, this]
      · -- `IN ( atom )`: the atom stands for the text of the sub-query
        cases ts with
        | nil => exact absurd rfl hh
        | cons t2 ts2 =>
        cases t2 with
        | atom k =>
          have hin : isInCode k = true := by simpa [headNotIn] using hh
          have hksub : isSubCode k = false := by
            have hin' := hin
            simp only [isInCode, decide_eq_true_eq] at hin'
            simp [isSubCode]; omega
          have hkex : isExCode k = false := by
            have hin' := hin
            simp only [isInCode, decide_eq_true_eq] at hin'
            simp [isExCode]; omega
          cases qps with
          | nil => simp [good, hksub, hkex, hin] at hg'
          | cons qp qps =>
            simp only [List.map_cons, good, hksub, hkex, hin, if_true, Bool.false_eq_true, if_false, Bool.and_eq_true, beq_iff_eq] at hg'
            obtain ⟨⟨⟨⟨hpin, hki⟩, hop⟩, hnr⟩, hg2⟩ := hg'
            cases ts2 with
            | nil => simp [nextIsRpar] at hnr
            | cons t3 ts3 =>
            cases t3 with
            | rpar =>
              have hPq := hP qp (by simp) (expand ts3 (qps.map (·.2)) ++ rest)
              have hl4 : (Tok.rpar :: ts3 : List (Tok α)).length ≤ m := by simp at hl' ⊢; omega
              have := ih (.rpar :: ts3) hl4 (some (.atom k)) (i + 1) (d + 1) qps n hg2
                (fun q hq => hP q (by simp [hq])) (by simp [expand, hksub, hkex, hin] at hn ⊢; omega)
              simp only [expand, List.cons_append] at this
              simp only [List.map_cons, expand, hksub, hkex, hin, if_true, Bool.false_eq_true, if_false, List.cons_append, List.append_assoc, fold]
              simp [opensQuery_append hop, isInTok_noFold inn prev hpin, hPq, hpin, this, ← hki]
            | _ => simp [nextIsRpar] at hnr
        | _ => exact absurd rfl hh
    | rpar =>
      simp only [good, Bool.and_eq_true, bne_iff_ne, ne_eq] at hg
      obtain ⟨hd, hg'⟩ := hg
      have := ih ts hl' (some .rpar) i (d - 1) qps n hg' hP (by simp [expand] at hn ⊢; omega)
      simp [expand, fold, hd, this]
    | sym t v =>
      simp only [good] at hg
      have := ih ts hl' (some (.sym t v)) i d qps n hg hP (by simp [expand] at hn ⊢; omega)
      simp [expand, fold, this]
    | lit w =>
      simp only [good, Bool.and_eq_true, bne_iff_ne, ne_eq] at hg
      obtain ⟨hw, hg'⟩ := hg
      have := ih ts hl' (some (.lit w)) i d qps n hg' hP (by simp [expand] at hn ⊢; omega)
      simp [expand, fold, hw, this]
    | kw k =>
      simp only [good] at hg
      have := ih ts hl' (some (.kw k)) i d qps n hg hP (by simp [expand] at hn ⊢; omega)
      simp [expand, fold, this]

theorem ofList_toList : ∀ (s : NQs α), NQs.ofList s.toList = s
  | .nil => rfl
  | .cons q r => by simp [NQs.toList, NQs.ofList, ofList_toList r]

theorem printNs_eq_map (tbl : Table α) : ∀ (s : NQs α), printNs tbl s = s.toList.map (printN tbl)
  | .nil => by simp [printNs, NQs.toList]
  | .cons q r => by simp [printNs, NQs.toList, printNs_eq_map tbl r]

theorem depth_mem : ∀ (s : NQs α) (q : NQ α), q ∈ s.toList → depthN q ≤ depthNs s
  | .nil, q, h => by simp [NQs.toList] at h
  | .cons q' r, q, h => by
    simp only [NQs.toList, List.mem_cons] at h
    simp only [depthNs]
    rcases h with h | h
    · subst h; omega
    · have := depth_mem r q h; omega

/-! ## well-formed queries with sub-queries, the level induction -/

mutual
/-- the skeleton is a well-formed query of Model/Query (`WFQ`) with no sub-query atom in a name position, its tokens and the texts of the sub-queries are `good`,
    the sub-queries are well-formed -/
def WFN (tbl : Table α) (lv : SetOp → Nat) : NQ α → Prop
  | .mk skel subs => WFQ tbl lv skel ∧ idQ skel = true ∧ good tbl.inn none false 0 0 (printQuery tbl skel) (printNs tbl subs) = true ∧ WFNs tbl lv subs
def WFNs (tbl : Table α) (lv : SetOp → Nat) : NQs α → Prop
  | .nil => True
  | .cons q r => WFN tbl lv q ∧ WFNs tbl lv r
end

theorem wf_mem (tbl : Table α) (lv : SetOp → Nat) : ∀ (s : NQs α) (q : NQ α), WFNs tbl lv s → q ∈ s.toList → WFN tbl lv q
  | .nil, q, _, h => by simp [NQs.toList] at h
  | .cons q' r, q, hw, h => by
    simp only [NQs.toList, List.mem_cons] at h
    simp only [WFNs] at hw
    rcases h with h | h
    · subst h; exact hw.1
    · exact wf_mem tbl lv r q hw.2 h

theorem parseWhole_print (tbl : Table α) (lv : SetOp → Nat) (q : Query α) (hw : WFQ tbl lv q) :
    parseWhole tbl lv (printQuery tbl q) = some q := by
  have hc := costQ_le tbl q
  have := queryP tbl lv q hw [] (by simp [Closing]) (queryFuel (printQuery tbl q)) (by simp [queryFuel]; omega)
  simp only [List.append_nil] at this
  simp [parseWhole, this]

/-- level `n` reads back every well-formed query of nesting depth ≤ `n`, in front of every rest at which a query may end -/
theorem nqP (tbl : Table α) (lv : SetOp → Nat) : ∀ (n : Nat) (q : NQ α), depthN q ≤ n → WFN tbl lv q →
    ∀ (rest : List (Tok α)), Closing rest → parseN tbl lv n (printN tbl q ++ rest) = some (q, rest) := by
  intro n
  induction n with
  | zero => intro q hd; cases q; simp [depthN] at hd
  | succ n ih =>
    intro q hd hw rest hr
    cases q with
    | mk skel subs =>
      simp only [depthN] at hd
      simp only [WFN] at hw
      obtain ⟨hws, hid, hg, hwn⟩ := hw
      have hmap2 : (subs.toList.map (fun q => (q, printN tbl q))).map (·.2) = printNs tbl subs := by
        rw [printNs_eq_map]; simp [List.map_map, Function.comp_def]
      have hmap1 : (subs.toList.map (fun q => (q, printN tbl q))).map (·.1) = subs.toList := by
        simp [List.map_map, Function.comp_def]
      have hf := fold_expand tbl.inn (parseN tbl lv n) rest hr _ (printQuery tbl skel) (Nat.le_refl _) none 0 0
        (subs.toList.map (fun q => (q, printN tbl q))) ((printN tbl (.mk skel subs) ++ rest).length + 1)
        (by rw [hmap2]; exact hg)
        (by
          intro qp hqp r
          simp only [List.mem_map] at hqp
          obtain ⟨q, hq, rfl⟩ := hqp
          have hdq := depth_mem subs q hq
          exact ih q (by omega) (wf_mem tbl lv subs q hwn hq) (.rpar :: r) (by simp [Closing]))
        (by rw [hmap2]; simp [printN])
      rw [hmap2, hmap1] at hf
      simp only [parseN, printN] at hf ⊢
      rw [hf]
      simp [parseWhole_print tbl lv skel hws, hid, ofList_toList]

end Csvq.SubQuery
