/-
  Rectangularity of whatever the CSV loader returns, for ALL inputs: an invariant of the reader
  machine (`Reader.FieldsPerRecord` bounds / equals the length of every finished record) and its
  consequence for `assemble`.
-/
import Csvq.Model.Csv
namespace Csvq.Csv

/-- the invariant, as a function of the three parts of the state it talks about -/
def InvP (allow : Bool) (recs : List (List RawField)) (fpr nf : Nat) : Prop :=
  (fpr = 0 → recs = []) ∧ (∀ rec ∈ recs, rec.length ≤ fpr) ∧
  (allow = false → ∀ rec ∈ recs, rec.length = fpr) ∧ (fpr = 0 ∨ nf < fpr)

def Inv (allow : Bool) (σ : St) : Prop := InvP allow σ.recs σ.fpr σ.fields.length

theorem inv_init (a : Bool) : Inv a {} := by
  simp [Inv, InvP]

theorem onDelim_eq (r : ROpts) (σ : St) :
    onDelim r σ =
      if 0 < σ.fpr ∧ σ.fpr ≤ σ.fields.length + 1 then
        if r.allowUneven = true then .ok { closeField σ with fpr := σ.fields.length + 1 + 1 } else .error .parse
      else .ok (closeField σ) := by
  unfold onDelim
  by_cases hc : 0 < σ.fpr ∧ σ.fpr ≤ σ.fields.length + 1
  · have hc' : 0 < (closeField σ).fpr ∧ (closeField σ).fpr ≤ (closeField σ).fields.length := by
      simpa [closeField] using hc
    simp only [hc, hc', and_self, if_true]
    simp [closeField]
  · have hc' : ¬ (0 < (closeField σ).fpr ∧ (closeField σ).fpr ≤ (closeField σ).fields.length) := by
      simpa [closeField] using hc
    simp only [hc, hc', if_false]

theorem endRecord_eq (r : ROpts) (σ : St) (h : ¬ (σ.fields = [] ∧ σ.buf = [])) :
    endRecord r σ =
      if σ.fpr < 1 then .ok (commitRecord { closeField σ with fpr := σ.fields.length + 1 })
      else if σ.fields.length + 1 < σ.fpr ∧ r.allowUneven = false then .error .parse
      else .ok (commitRecord (closeField σ)) := by
  unfold endRecord
  split
  · rename_i h1 h2
    exact absurd ⟨h1, h2⟩ h
  · by_cases h1 : σ.fpr < 1
    · have h1' : (closeField σ).fpr < 1 := h1
      simp only [h1, h1', if_true]
      simp [closeField]
    · have h1' : ¬ (closeField σ).fpr < 1 := h1
      simp only [h1, h1', if_false]
      by_cases h2 : σ.fields.length + 1 < σ.fpr ∧ r.allowUneven = false
      · have h2' : (closeField σ).fields.length < (closeField σ).fpr ∧ r.allowUneven = false := by
          simpa [closeField] using h2
        simp only [h2, h2', and_self, if_true]
      · have h2' : ¬ ((closeField σ).fields.length < (closeField σ).fpr ∧ r.allowUneven = false) := by
          simpa [closeField] using h2
        simp only [h2, h2', if_false]

theorem inv_onDelim (r : ROpts) (σ σ' : St) (h : onDelim r σ = .ok σ') (hi : Inv r.allowUneven σ) :
    Inv r.allowUneven σ' := by
  obtain ⟨h1, h2, h3, h4⟩ := hi
  rw [onDelim_eq] at h
  simp only [closeField] at h
  by_cases hc : 0 < σ.fpr ∧ σ.fpr ≤ σ.fields.length + 1
  · rw [if_pos hc] at h
    cases ha : r.allowUneven with
    | false => rw [ha] at h; simp at h
    | true =>
      rw [ha] at h
      simp only [if_true] at h
      injection h with h
      subst h
      refine ⟨?_, ?_, ?_, ?_⟩
      · intro h0; simp at h0
      · intro rec hrec
        have := h2 rec hrec
        simp only
        omega
      · intro hf; cases hf
      · right; simp
  · rw [if_neg hc] at h
    injection h with h
    subst h
    refine ⟨h1, h2, h3, ?_⟩
    simp only [List.length_cons]
    omega

theorem inv_endRecord (r : ROpts) (σ σ' : St) (h : endRecord r σ = .ok σ') (hi : Inv r.allowUneven σ) :
    Inv r.allowUneven σ' := by
  obtain ⟨h1, h2, h3, h4⟩ := hi
  by_cases hemp : σ.fields = [] ∧ σ.buf = []
  · unfold endRecord at h
    rw [hemp.1, hemp.2] at h
    simp only at h
    injection h with h
    subst h
    exact ⟨h1, h2, h3, by simp only; rw [hemp.1] at h4; exact h4⟩
  · rw [endRecord_eq r σ hemp] at h
    simp only [closeField, commitRecord] at h
    by_cases hlt : σ.fpr < 1
    · rw [if_pos hlt] at h
      injection h with h
      subst h
      have h0 : σ.fpr = 0 := by omega
      have hr := h1 h0
      refine ⟨?_, ?_, ?_, ?_⟩
      · intro hz; simp at hz
      · intro rec hrec
        simp only [hr, List.mem_singleton] at hrec
        subst hrec
        simp
      · intro _ rec hrec
        simp only [hr, List.mem_singleton] at hrec
        subst hrec
        simp
      · right; simp
    · rw [if_neg hlt] at h
      by_cases hnot : σ.fields.length + 1 < σ.fpr ∧ r.allowUneven = false
      · rw [if_pos hnot] at h
        cases h
      · rw [if_neg hnot] at h
        injection h with h
        subst h
        have hpos : σ.fpr ≠ 0 := by omega
        have hlt' : σ.fields.length < σ.fpr := by
          rcases h4 with h4 | h4
          · exact absurd h4 hpos
          · exact h4
        refine ⟨fun hz => absurd hz hpos, ?_, ?_, ?_⟩
        · intro rec hrec
          rcases List.mem_cons.mp hrec with rfl | hm
          · simp; omega
          · exact h2 rec hm
        · intro hf rec hrec
          rcases List.mem_cons.mp hrec with rfl | hm
          · simp only [List.length_reverse, List.length_cons]
            have : ¬ (σ.fields.length + 1 < σ.fpr) := fun hh => hnot ⟨hh, hf⟩
            omega
          · exact h3 hf rec hm
        · right
          simp only [List.length_nil]
          omega

theorem inv_congr (a : Bool) (σ τ : St) (h1 : τ.recs = σ.recs) (h2 : τ.fpr = σ.fpr)
    (h3 : τ.fields = σ.fields) (hi : Inv a σ) : Inv a τ := by
  unfold Inv at *
  rw [h1, h2, h3]
  exact hi

theorem inv_setDlb (a : Bool) (σ : St) (lb : LB) (hi : Inv a σ) : Inv a (setDlb σ lb) := by
  unfold setDlb
  cases h : σ.dlb
  · exact inv_congr a σ _ rfl rfl rfl hi
  · exact hi

theorem inv_onNl (r : ROpts) (σ σ' : St) (lb : LB) (h : onNl r σ lb = .ok σ') (hi : Inv r.allowUneven σ) :
    Inv r.allowUneven σ' :=
  inv_endRecord r _ σ' h (inv_setDlb _ σ lb hi)

theorem inv_stepMain (r : ROpts) (σ σ' : St) (c : Char) (h : stepMain r σ c = .ok σ')
    (hi : Inv r.allowUneven σ) : Inv r.allowUneven σ' := by
  unfold stepMain at h
  split at h
  · -- q
    split at h <;> (injection h with h; subst h; exact inv_congr _ σ _ rfl rfl rfl hi)
  · -- qe
    split at h
    · injection h with h; subst h; exact inv_congr _ σ _ rfl rfl rfl hi
    · split at h
      · exact inv_onNl r σ σ' .lf h hi
      · split at h
        · injection h with h; subst h; exact inv_congr _ σ _ rfl rfl rfl hi
        · split at h
          · exact inv_onDelim r σ σ' h hi
          · cases h
  · -- unq
    split at h
    · injection h with h; subst h; exact inv_congr _ σ _ rfl rfl rfl hi
    · split at h
      · exact inv_onNl r σ σ' .lf h hi
      · split at h
        · exact inv_onDelim r σ σ' h hi
        · split at h
          · split at h <;> (injection h with h; subst h; exact inv_congr _ σ _ rfl rfl rfl hi)
          · injection h with h; subst h; exact inv_congr _ σ _ rfl rfl rfl hi

theorem inv_step (r : ROpts) (σ σ' : St) (c : Char) (h : step r σ c = .ok σ')
    (hi : Inv r.allowUneven σ) : Inv r.allowUneven σ' := by
  unfold step at h
  have hi0 : Inv r.allowUneven { σ with pcr := false } := inv_congr _ σ _ rfl rfl rfl hi
  split at h
  · split at h
    · exact inv_onNl r _ σ' .crlf h hi0
    · split at h
      · rename_i σ'' hnl
        exact inv_stepMain r σ'' σ' c h (inv_onNl r _ σ'' .cr hnl hi0)
      · cases h
  · exact inv_stepMain r σ σ' c h hi

theorem inv_run (r : ROpts) (inp : List Char) (σ σ' : St) (h : run r σ inp = .ok σ')
    (hi : Inv r.allowUneven σ) : Inv r.allowUneven σ' := by
  induction inp generalizing σ with
  | nil => simp only [run] at h; injection h with h; subst h; exact hi
  | cons c cs ih =>
    simp only [run] at h
    split at h
    · rename_i σ'' hs
      exact ih σ'' h (inv_step r σ σ'' c hs hi)
    · cases h

theorem inv_finish (r : ROpts) (σ σ' : St) (h : finish r σ = .ok σ') (hi : Inv r.allowUneven σ) :
    Inv r.allowUneven σ' := by
  unfold finish at h
  split at h
  · cases h
  · split at h
    · cases h
    · exact inv_endRecord r σ σ' h hi

theorem inv_readAll (r : ROpts) (inp : List Char) (σ : St) (h : readAll r inp = .ok σ) :
    Inv r.allowUneven σ := by
  unfold readAll at h
  split at h
  · rename_i σ' hr
    exact inv_finish r σ' σ h (inv_run r inp {} σ' hr (inv_init _))
  · cases h

/-! ## `assemble` is rectangular under the invariant -/

theorem autofillFrom_length (l : List (List Char)) (i : Nat) : (autofillFrom i l).length = l.length := by
  induction l generalizing i with
  | nil => rfl
  | cons x xs ih => simp [autofillFrom, ih]

theorem padTo_length_le {α} (n : Nat) (x : α) (l : List α) (h : l.length ≤ n) : (padTo n x l).length = n := by
  simp [padTo]; omega

theorem assemble_rectangular (o : Opts) (recs : List (List RawField)) (fpr : Nat)
    (hi : InvP o.allowUneven recs fpr 0) :
    ∀ row ∈ (assemble o recs fpr).rows, row.length = (assemble o recs fpr).header.length := by
  obtain ⟨h1, h2, h3, _⟩ := hi
  intro row hrow
  unfold assemble at hrow ⊢
  cases ha : o.allowUneven with
  | false =>
    have h3' := h3 ha
    simp only [ha, Bool.false_eq_true, if_false] at hrow ⊢
    cases hw : o.withoutHeader with
    | true =>
      simp only [hw, if_true] at hrow ⊢
      obtain ⟨rec, hrec, rfl⟩ := List.mem_map.mp hrow
      simp [autoNames, h3' rec hrec]
    | false =>
      simp only [hw, Bool.false_eq_true, if_false] at hrow ⊢
      cases recs with
      | nil => simp at hrow
      | cons h b =>
        simp only at hrow ⊢
        obtain ⟨rec, hrec, rfl⟩ := List.mem_map.mp hrow
        simp [h3' rec (by simp [hrec]), h3' h (by simp)]
  | true =>
    simp only [ha, if_true] at hrow ⊢
    rw [autofill, autofillFrom_length]
    obtain ⟨row', hrow', rfl⟩ := List.mem_map.mp hrow
    cases hw : o.withoutHeader with
    | true =>
      simp only [hw, if_true] at hrow' ⊢
      obtain ⟨rec, hrec, rfl⟩ := List.mem_map.mp hrow'
      rw [padTo_length_le _ _ _ (by simp [h2 rec hrec]), padTo_length_le _ _ _ (by simp [autoNames])]
    | false =>
      simp only [hw, Bool.false_eq_true, if_false] at hrow' ⊢
      cases recs with
      | nil => simp at hrow'
      | cons h b =>
        simp only at hrow' ⊢
        obtain ⟨rec, hrec, rfl⟩ := List.mem_map.mp hrow'
        rw [padTo_length_le _ _ _ (by simp [h2 rec (by simp [hrec])]),
          padTo_length_le _ _ _ (by simp [h2 h (by simp)])]

end Csvq.Csv
