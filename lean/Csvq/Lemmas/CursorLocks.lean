/-
  Csvq.Lemmas.CursorLocks — vocabulary over the access traces of cursor.go (Gen.CursorLocks.trace, regenerated on
  every run by extract/cursorfetch, mode locks) and helper lemmas for the concurrency theorems of C16.

  Tokens of a path: `lock` `unlock` `defer-unlock` `return`, `rd:f` / `wr:f` (a read / an assignment of receiver
  field f), `view==nil` / `view!=nil` (the branch taken at a test of the closed state), `eval` (a call of
  Select: the evaluation of a query), `call:m` (a call of another method of the receiver).
-/
import Csvq.Lemmas.Cursor
namespace Csvq.Cursor
open Csvq

/-- the access paths of one method of *Cursor -/
def traceOf (fn : String) : List (List String) := (Gen.CursorLocks.trace.lookup fn).getD []

/-! ## a method entered while another frame holds the mutex -/

/-- what happens to a caller that enters a method along one path -/
inductive Reenter
  | returns      -- the path runs to its end
  | blocks       -- it waits for the mutex (for ever, when the holder is a frame below it on the same stack)
  | infeasible   -- the path is not the one taken in this state
  deriving DecidableEq, Repr

/-- run one path: `closed` — the cursor's view is nil; `held` — the mutex is held by somebody else (Open, which
    is evaluating the cursor's query further down the same stack: it cannot release it before we return) -/
def reenterGo (closed held : Bool) : List String → Reenter
  | [] => .returns
  | t :: rest =>
    if t = "view==nil" then (if closed then reenterGo closed held rest else .infeasible)
    else if t = "view!=nil" then (if closed then .infeasible else reenterGo closed held rest)
    else if t = "lock" then (if held then .blocks else reenterGo closed held rest)
    else if t = "return" then .returns
    else reenterGo closed held rest

/-- the path tests the closed state BEFORE it takes the mutex, and goes on to the mutex only for an open cursor:
    scanning from the start, a `view!=nil` branch (or a return) comes before the first `lock` -/
def checksClosedBeforeLock : List String → Bool
  | [] => true
  | t :: rest =>
    if t = "lock" then false
    else if t = "view!=nil" then true
    else if t = "return" then true
    else checksClosedBeforeLock rest

/-- the path evaluates a query (`eval`) while it holds the mutex -/
def evalUnderLockGo (held : Bool) : List String → Bool
  | [] => false
  | t :: rest =>
    if t = "lock" then evalUnderLockGo true rest
    else if t = "unlock" then evalUnderLockGo false rest
    else if t = "eval" then (held || evalUnderLockGo held rest)
    else if t = "return" then false
    else evalUnderLockGo held rest

def evaluatesUnderLock (fn : String) : Bool := (traceOf fn).any (evalUnderLockGo false)

/-- tokens that are no access to the cursor's mutable state: control flow, and reads of the fields that are set
    once by the constructor (Name, query, statement, isPseudo, mtx) -/
def ignorable : List String := ["defer-unlock", "view==nil", "view!=nil", "eval",
  "rd:Name", "rd:query", "rd:statement", "rd:isPseudo", "rd:mtx"]

/-- everything a path does while the mutex is NOT held, in order, except the `ignorable` tokens: reads / writes
    of view, index, fetched, calls of other methods — and any token this file does not know -/
def unlockedGo (held : Bool) : List String → List String
  | [] => []
  | t :: rest =>
    if t = "lock" then unlockedGo true rest
    else if t = "unlock" then unlockedGo false rest
    else if t = "return" then []
    else if !held && !ignorable.contains t then t :: unlockedGo held rest
    else unlockedGo held rest

/-- per method: the distinct unlocked accesses over all its paths -/
def unlockedAccesses : List (String × List String) :=
  (Gen.CursorLocks.trace.map fun m => (m.1, (m.2.flatMap (unlockedGo false)).eraseDups)).filter (fun m => !m.2.isEmpty)

/-- the path takes the mutex at most once and never releases it before it returns (an explicit Unlock directly
    in front of the return is allowed): everything between is ONE critical section -/
def oneSectionGo (locked : Bool) : List String → Bool
  | [] => true
  | t :: rest =>
    if t = "lock" then (!locked && oneSectionGo true rest)
    else if t = "unlock" then (rest = ["return"] || rest = [])
    else if t = "return" then true
    else oneSectionGo locked rest

def oneCriticalSection (p : List String) : Bool := oneSectionGo false p

/-! ## the guard in front of the mutex is what keeps a re-entrant caller from waiting -/

/-- a path that tests the closed state before it locks never waits for the mutex when the cursor is closed —
    whoever holds the mutex -/
theorem checksClosed_never_blocks (p : List String) (held : Bool) (h : checksClosedBeforeLock p = true) :
    reenterGo true held p ≠ .blocks := by
  induction p with
  | nil => simp [reenterGo]
  | cons t rest ih =>
    unfold checksClosedBeforeLock at h
    unfold reenterGo
    by_cases h1 : t = "view==nil"
    · subst h1
      simp only [if_true]
      have : ("view==nil" : String) ≠ "lock" := by decide
      have h2 : ("view==nil" : String) ≠ "view!=nil" := by decide
      have h3 : ("view==nil" : String) ≠ "return" := by decide
      simp only [this, h2, h3, if_false] at h
      exact ih h
    · simp only [h1, if_false]
      by_cases h2 : t = "view!=nil"
      · simp [h2]
      · simp only [h2, if_false]
        by_cases h3 : t = "lock"
        · simp [h3] at h
        · simp only [h3, if_false]
          by_cases h4 : t = "return"
          · simp [h4]
          · simp only [h4, if_false]
            simp only [h3, h2, h4, if_false] at h
            exact ih h

/-- … and a path that locks without such a test does wait, when the mutex is held and the cursor closed:
    the first token that decides is the `lock` -/
theorem unguarded_lock_blocks (pre rest : List String)
    (hpre : ∀ t ∈ pre, t ≠ "view==nil" ∧ t ≠ "view!=nil" ∧ t ≠ "lock" ∧ t ≠ "return") :
    reenterGo true true (pre ++ "lock" :: rest) = .blocks := by
  induction pre with
  | nil => simp [reenterGo]
  | cons t pre ih =>
    have ht := hpre t (by simp)
    have := ih (fun u hu => hpre u (by simp [hu]))
    simp only [List.cons_append]
    unfold reenterGo
    simp only [ht.1, ht.2.1, ht.2.2.1, ht.2.2.2, if_false]
    exact this

/-! ## schedules of atomic FETCH NEXT steps -/

theorem runSched_opened {α κ} (rows : List α) (hl : LenOK rows) :
    ∀ (sched : List κ) (i : Int) (f : Bool), -1 ≤ i → i ≤ rows.length →
      handedOut (runSched (CState.opened rows i f) sched).2 = (rows.drop (i + 1).toNat).take sched.length
      ∧ (runSched (CState.opened rows i f) sched).2.map Prod.fst = sched
      ∧ (sched ≠ [] → (runSched (CState.opened rows i f) sched).1
            = .opened rows (if i + sched.length < rows.length then i + sched.length else rows.length) true) := by
  intro sched
  induction sched with
  | nil =>
    intro i f _ _
    simp [runSched, handedOut]
  | cons k rest ih =>
    intro i f h0 h1
    by_cases hlast : (rows.length : Int) ≤ i + 1
    · have hd : rows.drop (i + 1).toNat = [] := by
        apply List.drop_eq_nil_of_le; omega
      have hstep := fetch_next_none rows i f hl h0 h1 hlast
      have ih' := ih (rows.length : Int) true (by omega) (by omega)
      have hd' : rows.drop ((rows.length : Int) + 1).toNat = [] := by
        apply List.drop_eq_nil_of_le; omega
      simp only [runSched, hstep]
      refine ⟨?_, ?_, ?_⟩
      · have := ih'.1
        simp only [hd', List.take_nil] at this
        simp [handedOut, hd] at this ⊢
        exact this
      · simp [ih'.2.1]
      · intro _
        have hif : ¬ (i + ((k :: rest).length : Int) < rows.length) := by
          simp only [List.length_cons]; omega
        rw [if_neg hif]
        cases rest with
        | nil => simp [runSched]
        | cons k2 rest2 =>
          have := ih'.2.2 (by simp)
          have hif2 : ¬ ((rows.length : Int) + ((k2 :: rest2).length : Int) < rows.length) := by
            simp only [List.length_cons]; omega
          rw [if_neg hif2] at this
          exact this
    · have hlt : i + 1 < rows.length := by omega
      have hget : rows[(i + 1).toNat]? = some (rows[(i + 1).toNat]'(by omega)) := by simp
      have hstep := fetch_next_some rows i f hl h0 hlt
      have ih' := ih (i + 1) true (by omega) (by omega)
      have hd : rows.drop (i + 1).toNat = rows[(i + 1).toNat]'(by omega) :: rows.drop ((i + 1).toNat + 1) := by simp
      have he : (i + 1 + 1).toNat = (i + 1).toNat + 1 := by omega
      simp only [runSched, hstep, hget]
      refine ⟨?_, ?_, ?_⟩
      · have := ih'.1
        rw [he] at this
        simp only [handedOut, List.filterMap_cons, List.length_cons] at this ⊢
        rw [hd, List.take_succ_cons, this]
      · simp [ih'.2.1]
      · intro _
        cases rest with
        | nil =>
          have hif : i + (([k] : List κ).length : Int) < rows.length := by simp; omega
          rw [if_pos hif]
          simp [runSched]
        | cons k2 rest2 =>
          have := ih'.2.2 (by simp)
          rw [this]
          have hlen : i + 1 + ((k2 :: rest2).length : Int) = i + ((k :: k2 :: rest2).length : Int) := by
            simp only [List.length_cons]; omega
          rw [hlen]

end Csvq.Cursor
