/-
  Helper lemmas for C18 (escape / unescape).
-/
import Csvq.Model.Escape
namespace Csvq.Esc

/-- one escaped rune is read back as that rune; `quote` is the quote the *reader* is told about,
    `q` the quote the writer escaped (`'\''` or `` '`' ``, which is also the reader's own `q2`). -/
theorem unesc_escRune (q quote r : Char) (rest : List Char)
    (hq : q = '\'' ∨ q = '`')
    (h : r = quote → isEscaped q r = true) :
    unescLoop q quote false '\x00' (escRune q r ++ rest) = r :: unescLoop q quote false '\x00' rest := by
  unfold escRune
  split
  · subst r; simp [unescLoop, unescRune]
  split
  · subst r; simp [unescLoop, unescRune]
  split
  · subst r; simp [unescLoop, unescRune]
  split
  · subst r; simp [unescLoop, unescRune]
  split
  · subst r; simp [unescLoop, unescRune]
  split
  · subst r; simp [unescLoop, unescRune]
  split
  · subst r; simp [unescLoop, unescRune]
  split
  · subst r
    rcases hq with hq | hq <;> subst hq <;> simp [unescLoop, unescRune]
  split
  · subst r; simp [unescLoop, unescRune]
  · rename_i h1 h2 h3 h4 h5 h6 h7 h8 h9
    have hne : r ≠ quote := by
      intro he
      have := h he
      simp [isEscaped, h1, h2, h3, h4, h5, h6, h7, h8, h9] at this
    simp [unescLoop, h9, hne]

theorem unesc_escapeWith (q quote : Char) (hq : q = '\'' ∨ q = '`') :
    ∀ s : List Char, (∀ c ∈ s, c = quote → isEscaped q c = true) →
      unescLoop q quote false '\x00' (escapeWith q s) = s
  | [], _ => by simp [escapeWith, unescLoop]
  | r :: rs, h => by
    simp only [escapeWith]
    rw [unesc_escRune q quote r _ hq (h r (by simp))]
    rw [unesc_escapeWith q quote hq rs (fun c hc => h c (by simp [hc]))]

end Csvq.Esc
