/-
  Helper lemmas for the CSV/TSV reader machine of Csvq.Model.Csv (used by Csvq.Props.C02).
  Part 1: running the machine over what the writer produces.
-/
import Csvq.Model.Csv
namespace Csvq.Csv

/-! ## `run` -/

theorem run_nil (r : ROpts) (σ : St) : run r σ [] = .ok σ := rfl

theorem run_cons (r : ROpts) (σ : St) (c : Char) (cs : List Char) :
    run r σ (c :: cs) = match step r σ c with
      | .ok σ' => run r σ' cs
      | .error e => .error e := rfl

theorem run_append (r : ROpts) (a b : List Char) (σ : St) :
    run r σ (a ++ b) = match run r σ a with
      | .ok σ' => run r σ' b
      | .error e => .error e := by
  induction a generalizing σ with
  | nil => rfl
  | cons c cs ih =>
    simp only [List.cons_append, run_cons]
    cases step r σ c with
    | error e => rfl
    | ok σ' => exact ih σ'

theorem run_append_ok {r : ROpts} {a : List Char} {σ σ' : St} (b : List Char)
    (h : run r σ a = .ok σ') : run r σ (a ++ b) = run r σ' b := by
  rw [run_append, h]

/-! ## states of the form "base + current record" -/

/-- the parts of the state that change inside a record are given explicitly; `base` carries the
    finished records, `FieldsPerRecord` and the detected line break -/
def mk (base : St) (fs : FS) (buf : List Char) (fields : List RawField) : St :=
  { base with fs := fs, buf := buf, fields := fields, pcr := false }

@[simp] theorem mk_fs (b : St) (fs buf fields) : (mk b fs buf fields).fs = fs := rfl
@[simp] theorem mk_buf (b : St) (fs buf fields) : (mk b fs buf fields).buf = buf := rfl
@[simp] theorem mk_fields (b : St) (fs buf fields) : (mk b fs buf fields).fields = fields := rfl
@[simp] theorem mk_pcr (b : St) (fs buf fields) : (mk b fs buf fields).pcr = false := rfl
@[simp] theorem mk_recs (b : St) (fs buf fields) : (mk b fs buf fields).recs = b.recs := rfl
@[simp] theorem mk_fpr (b : St) (fs buf fields) : (mk b fs buf fields).fpr = b.fpr := rfl
@[simp] theorem mk_dlb (b : St) (fs buf fields) : (mk b fs buf fields).dlb = b.dlb := rfl

theorem mk_buf_update (b : St) (fs buf fields) (buf' : List Char) :
    { mk b fs buf fields with buf := buf' } = mk b fs buf' fields := rfl

theorem mk_fs_update (b : St) (fs buf fields) (fs' : FS) :
    { mk b fs buf fields with fs := fs' } = mk b fs' buf fields := rfl

theorem mk_fs_buf_update (b : St) (fs buf fields) (fs' : FS) (buf' : List Char) :
    { mk b fs buf fields with fs := fs', buf := buf' } = mk b fs' buf' fields := rfl

/-- a character that is nothing special for the reader -/
def Plain (d : Char) (c : Char) : Prop := c ≠ d ∧ c ≠ '"' ∧ c ≠ '\r' ∧ c ≠ '\n'

/-- the delimiter is none of the characters the reader treats specially (csvq accepts any single
    character as delimiter; the theorems are about the sensible ones) -/
def DelimOK (d : Char) : Prop := d ≠ '"' ∧ d ≠ '\r' ∧ d ≠ '\n'

instance (d : Char) : Decidable (DelimOK d) := by unfold DelimOK; infer_instance

theorem step_unq_plain (r : ROpts) (b : St) (buf fields) (c : Char) (h : Plain r.delim c) :
    step r (mk b .unq buf fields) c = .ok (mk b .unq (c :: buf) fields) := by
  obtain ⟨h1, h2, h3, h4⟩ := h
  simp [step, stepMain, h1, h2, h3, h4, mk]

theorem run_unq_plain (r : ROpts) (b : St) (fields) (s : List Char) (buf : List Char)
    (h : ∀ c ∈ s, Plain r.delim c) :
    run r (mk b .unq buf fields) s = .ok (mk b .unq (s.reverse ++ buf) fields) := by
  induction s generalizing buf with
  | nil => simp [run_nil]
  | cons c cs ih =>
    rw [run_cons, step_unq_plain r b buf fields c (h c (by simp))]
    simp only
    rw [ih (c :: buf) (fun x hx => h x (by simp [hx]))]
    simp

theorem step_q_quote (r : ROpts) (b : St) (buf fields) :
    step r (mk b .q buf fields) '"' = .ok (mk b .qe buf fields) := by
  simp [step, stepMain, mk]

theorem step_q_other (r : ROpts) (b : St) (buf fields) (c : Char) (h : c ≠ '"') :
    step r (mk b .q buf fields) c = .ok (mk b .q (c :: buf) fields) := by
  simp [step, stepMain, mk, h]

theorem step_qe_quote (r : ROpts) (b : St) (buf fields) :
    step r (mk b .qe buf fields) '"' = .ok (mk b .q ('"' :: buf) fields) := by
  simp [step, stepMain, mk]

theorem run_q_escaped (r : ROpts) (b : St) (fields) (s : List Char) (buf : List Char) :
    run r (mk b .q buf fields) (escapeQuotes s) = .ok (mk b .q (s.reverse ++ buf) fields) := by
  induction s generalizing buf with
  | nil => simp [escapeQuotes, run_nil]
  | cons c cs ih =>
    by_cases hc : c = '"'
    · subst hc
      simp only [escapeQuotes, if_true]
      rw [run_cons, step_q_quote]
      simp only
      rw [run_cons, step_qe_quote]
      simp only
      rw [ih]
      simp
    · simp only [escapeQuotes, hc, if_false]
      rw [run_cons, step_q_other r b buf fields c hc]
      simp only
      rw [ih]
      simp

theorem step_unq_open (r : ROpts) (b : St) (fields) (hd : DelimOK r.delim) :
    step r (mk b .unq [] fields) '"' = .ok (mk b .q [] fields) := by
  obtain ⟨h1, _, _⟩ := hd
  have : ¬ ('"' = r.delim) := fun h => h1 h.symm
  simp [step, stepMain, mk, this]

/-! ## one field -/

def rawOf (w : WOpts) (f : Field) : RawField := ⟨f.contents, mustQuote w f⟩

def fsOf (w : WOpts) (f : Field) : FS := if mustQuote w f then .qe else .unq

/-- the writer either quotes the field or the field contains no line break -/
def FieldOK (w : WOpts) (f : Field) : Prop := mustQuote w f = true ∨ includesLineBreak f.contents = false

theorem fieldOK_of_quoteLB (w : WOpts) (f : Field) (h : w.quoteLB = true) : FieldOK w f := by
  unfold FieldOK mustQuote
  cases hl : includesLineBreak f.contents
  · exact Or.inr rfl
  · left; simp [h]

theorem plain_of_not_includes (d : Char) (s : List Char)
    (h1 : includesDelimOrQuote d s = false) (h2 : includesLineBreak s = false) :
    ∀ c ∈ s, Plain d c := by
  induction s with
  | nil => intro c hc; cases hc
  | cons x xs ih =>
    intro c hc
    simp only [includesDelimOrQuote] at h1
    simp only [includesLineBreak] at h2
    split at h1
    · cases h1
    · rename_i hx
      split at h2
      · cases h2
      · rename_i hy
        rcases List.mem_cons.mp hc with rfl | hm
        · exact ⟨fun e => hx (Or.inl e), fun e => hx (Or.inr e), fun e => hy (Or.inl e), fun e => hy (Or.inr e)⟩
        · exact ih h1 h2 c hm

/-- state while the field `f` is still open (its closing delimiter / line break not yet read) -/
def openSt (b : St) (acc : List RawField) (w : WOpts) (f : Field) : St :=
  mk b (fsOf w f) f.contents.reverse acc

/-- state at the start of a field -/
def startSt (b : St) (acc : List RawField) : St := mk b .unq [] acc

theorem run_writeField (r : ROpts) (w : WOpts) (b : St) (acc : List RawField) (f : Field)
    (hrd : r.delim = w.delim) (hd : DelimOK r.delim) (hf : FieldOK w f) :
    run r (startSt b acc) (writeField w f) = .ok (openSt b acc w f) := by
  unfold writeField openSt fsOf startSt
  by_cases hq : mustQuote w f = true
  · simp only [hq, if_true]
    rw [run_cons, step_unq_open r b acc hd]
    simp only
    rw [run_append, run_q_escaped]
    simp only
    rw [run_cons, step_q_quote]
    simp [run_nil]
  · have hq' : mustQuote w f = false := by simpa using hq
    simp only [hq', Bool.false_eq_true, if_false]
    have hlb : includesLineBreak f.contents = false := by
      rcases hf with h | h
      · exact absurd h hq
      · exact h
    have hdq : includesDelimOrQuote w.delim f.contents = false := by
      unfold mustQuote at hq'
      cases hx : includesDelimOrQuote w.delim f.contents
      · rfl
      · simp [hx] at hq'
    have hp := plain_of_not_includes r.delim f.contents (hrd ▸ hdq) hlb
    rw [run_unq_plain r b acc f.contents [] hp]
    simp

/-! ## delimiter between two fields -/

theorem fsOf_quoted (w : WOpts) (f : Field) : (fsOf w f).quoted = mustQuote w f := by
  unfold fsOf
  cases mustQuote w f <;> rfl

theorem fsOf_ne_q (w : WOpts) (f : Field) : fsOf w f ≠ .q := by
  unfold fsOf
  cases mustQuote w f <;> simp

theorem closeField_openSt (b : St) (acc : List RawField) (w : WOpts) (f : Field) :
    closeField (openSt b acc w f) = startSt b (rawOf w f :: acc) := by
  simp [closeField, openSt, startSt, mk, rawOf, fsOf_quoted]

theorem stepMain_open_delim (r : ROpts) (w : WOpts) (b : St) (acc : List RawField) (f : Field)
    (hd : DelimOK r.delim) :
    stepMain r (openSt b acc w f) r.delim = onDelim r (openSt b acc w f) := by
  obtain ⟨h1, h2, h3⟩ := hd
  unfold stepMain
  have hfs : (openSt b acc w f).fs = fsOf w f := rfl
  rw [hfs]
  unfold fsOf
  cases mustQuote w f <;> simp [h1, h2, h3]

theorem step_open_delim (r : ROpts) (w : WOpts) (b : St) (acc : List RawField) (f : Field)
    (hd : DelimOK r.delim) (hn : b.fpr = 0 ∨ acc.length + 1 < b.fpr) :
    step r (openSt b acc w f) r.delim = .ok (startSt b (rawOf w f :: acc)) := by
  have hp : (openSt b acc w f).pcr = false := rfl
  unfold step
  rw [hp]
  simp only [Bool.false_eq_true, if_false]
  rw [stepMain_open_delim r w b acc f hd]
  unfold onDelim
  simp only [closeField_openSt]
  have : ¬ (0 < (startSt b (rawOf w f :: acc)).fpr ∧
      (startSt b (rawOf w f :: acc)).fpr ≤ (startSt b (rawOf w f :: acc)).fields.length) := by
    simp only [startSt, mk_fpr, mk_fields, List.length_cons]
    omega
  simp [this]

/-! ## a whole record -/

/-- state after the fields `f :: fl` of a record have been read, the last one still open -/
def finalOpen (b : St) (w : WOpts) : List RawField → Field → List Field → St
  | acc, f, [] => openSt b acc w f
  | acc, f, g :: gs => finalOpen b w (rawOf w f :: acc) g gs

theorem run_writeRest (r : ROpts) (w : WOpts) (b : St) (hrd : r.delim = w.delim) (hd : DelimOK r.delim)
    (fl : List Field) (f : Field) (acc : List RawField)
    (hf : ∀ g ∈ fl, FieldOK w g)
    (hn : b.fpr = 0 ∨ acc.length + 1 + fl.length ≤ b.fpr) :
    run r (openSt b acc w f) (writeRest w fl) = .ok (finalOpen b w acc f fl) := by
  induction fl generalizing f acc with
  | nil => simp [writeRest, finalOpen, run_nil]
  | cons g gs ih =>
    simp only [writeRest, finalOpen]
    rw [← hrd, run_cons, step_open_delim r w b acc f hd (by simp only [List.length_cons] at hn; omega)]
    simp only
    rw [run_append, run_writeField r w b (rawOf w f :: acc) g hrd hd (hf g (by simp))]
    simp only
    exact ih g (rawOf w f :: acc) (fun x hx => hf x (by simp [hx]))
      (by simp only [List.length_cons] at hn ⊢; omega)

theorem run_writeRecord (r : ROpts) (w : WOpts) (b : St) (hrd : r.delim = w.delim) (hd : DelimOK r.delim)
    (f : Field) (fl : List Field)
    (hf : ∀ g ∈ f :: fl, FieldOK w g)
    (hn : b.fpr = 0 ∨ b.fpr = 1 + fl.length) :
    run r (startSt b []) (writeRecord w (f :: fl)) = .ok (finalOpen b w [] f fl) := by
  simp only [writeRecord]
  rw [run_append, run_writeField r w b [] f hrd hd (hf f (by simp))]
  simp only
  exact run_writeRest r w b hrd hd fl f [] (fun x hx => hf x (by simp [hx]))
    (by simp only [List.length_nil]; omega)

theorem finalOpen_pcr (b : St) (w : WOpts) (acc f fl) : (finalOpen b w acc f fl).pcr = false := by
  induction fl generalizing acc f with
  | nil => rfl
  | cons g gs ih => exact ih _ _

theorem finalOpen_fs (b : St) (w : WOpts) (acc f fl) : (finalOpen b w acc f fl).fs ≠ .q := by
  induction fl generalizing acc f with
  | nil => exact fsOf_ne_q w f
  | cons g gs ih => exact ih _ _

theorem closeField_finalOpen (b : St) (w : WOpts) (acc f fl) :
    closeField (finalOpen b w acc f fl) = startSt b (((f :: fl).map (rawOf w)).reverse ++ acc) := by
  induction fl generalizing acc f with
  | nil => simp [finalOpen, closeField_openSt]
  | cons g gs ih =>
    simp only [finalOpen]
    rw [ih]
    simp

/-- the record is not the one thing the reader drops: a single empty field -/
def RecOK (f : Field) (fl : List Field) : Prop := fl ≠ [] ∨ f.contents ≠ []

theorem finalOpen_nonempty (b : St) (w : WOpts) (acc f fl) (h : RecOK f fl ∨ acc ≠ []) :
    ¬ ((finalOpen b w acc f fl).fields = [] ∧ (finalOpen b w acc f fl).buf = []) := by
  induction fl generalizing acc f with
  | nil =>
    simp only [finalOpen, openSt, mk_fields, mk_buf]
    rintro ⟨h1, h2⟩
    rcases h with h | h
    · rcases h with h | h
      · exact h rfl
      · exact h (by simpa using h2)
    · exact h h1
  | cons g gs ih =>
    simp only [finalOpen]
    exact ih _ _ (Or.inr (by simp))

theorem finalOpen_setDlb (b : St) (w : WOpts) (acc f fl) (lb : LB) :
    setDlb (finalOpen b w acc f fl) lb = finalOpen (setDlb b lb) w acc f fl := by
  induction fl generalizing acc f with
  | nil =>
    obtain ⟨fs, pcr, buf, fields, recs, fpr, dlb⟩ := b
    cases dlb <;> rfl
  | cons g gs ih => exact ih _ _

/-- `base` after one more record -/
def nextBase (b : St) (raws : List RawField) : St :=
  { b with recs := raws :: b.recs, fpr := raws.length }

theorem endRecord_finalOpen (r : ROpts) (b : St) (w : WOpts) (f : Field) (fl : List Field)
    (hok : RecOK f fl) (hn : b.fpr = 0 ∨ b.fpr = 1 + fl.length) :
    endRecord r (finalOpen b w [] f fl) = .ok (startSt (nextBase b ((f :: fl).map (rawOf w))) []) := by
  have hne := finalOpen_nonempty b w [] f fl (Or.inl hok)
  unfold endRecord
  split
  · rename_i h1 h2
    exact absurd ⟨h1, h2⟩ hne
  · simp only [closeField_finalOpen, List.append_nil]
    have hlen : (startSt b ((f :: fl).map (rawOf w)).reverse).fields.length = 1 + fl.length := by
      simp [startSt]; omega
    have hfpr : (startSt b ((f :: fl).map (rawOf w)).reverse).fpr = b.fpr := rfl
    rw [hlen, hfpr]
    rcases hn with h0 | h1
    · simp only [h0, Nat.zero_lt_one, if_true]
      simp [commitRecord, startSt, mk, nextBase, h0]
      omega
    · have : ¬ (b.fpr < 1) := by omega
      have h2 : ¬ (1 + fl.length < b.fpr ∧ r.allowUneven = false) := by omega
      simp only [this, h2, if_false]
      simp [commitRecord, startSt, mk, nextBase, h1]
      omega

/-! ## the line break after a record -/

theorem stepMain_nl (r : ROpts) (σ : St) (h : σ.fs ≠ .q) : stepMain r σ '\n' = onNl r σ .lf := by
  unfold stepMain
  cases hfs : σ.fs with
  | q => exact absurd hfs h
  | qe => simp
  | unq => simp

theorem stepMain_cr (r : ROpts) (σ : St) (h : σ.fs ≠ .q) :
    stepMain r σ '\r' = .ok { σ with pcr := true } := by
  unfold stepMain
  cases hfs : σ.fs with
  | q => exact absurd hfs h
  | qe => simp
  | unq => simp

theorem step_of_not_pcr (r : ROpts) (σ : St) (c : Char) (h : σ.pcr = false) :
    step r σ c = stepMain r σ c := by
  unfold step
  simp [h]

theorem pcr_roundtrip (σ : St) (h : σ.pcr = false) : { { σ with pcr := true } with pcr := false } = σ := by
  obtain ⟨fs, pcr, buf, fields, recs, fpr, dlb⟩ := σ
  simp only at h
  subst h
  rfl

theorem setDlb_fpr (b : St) (lb : LB) : (setDlb b lb).fpr = b.fpr := by
  unfold setDlb
  cases b.dlb <;> rfl

theorem setDlb_recs (b : St) (lb : LB) : (setDlb b lb).recs = b.recs := by
  unfold setDlb
  cases b.dlb <;> rfl

theorem onNl_finalOpen (r : ROpts) (b : St) (w : WOpts) (f : Field) (fl : List Field) (lb : LB)
    (hok : RecOK f fl) (hn : b.fpr = 0 ∨ b.fpr = 1 + fl.length) :
    onNl r (finalOpen b w [] f fl) lb
      = .ok (startSt (nextBase (setDlb b lb) ((f :: fl).map (rawOf w))) []) := by
  unfold onNl
  rw [finalOpen_setDlb]
  exact endRecord_finalOpen r (setDlb b lb) w f fl hok (by rw [setDlb_fpr]; exact hn)

/-- what may follow a CR line break: at least one more character, and not a line feed -/
def RestOK (lb : LB) (rest : List Char) : Prop :=
  lb = .cr → ∃ c cs, rest = c :: cs ∧ c ≠ '\n'

theorem run_lb_after_record (r : ROpts) (b : St) (w : WOpts) (f : Field) (fl : List Field) (lb : LB)
    (rest : List Char)
    (hok : RecOK f fl) (hn : b.fpr = 0 ∨ b.fpr = 1 + fl.length) (hrest : RestOK lb rest) :
    run r (finalOpen b w [] f fl) (lb.chars ++ rest)
      = run r (startSt (nextBase (setDlb b lb) ((f :: fl).map (rawOf w))) []) rest := by
  have hp := finalOpen_pcr b w [] f fl
  have hfs := finalOpen_fs b w [] f fl
  cases lb with
  | lf =>
    simp only [LB.chars, List.cons_append, List.nil_append]
    rw [run_cons, step_of_not_pcr r _ _ hp, stepMain_nl r _ hfs, onNl_finalOpen r b w f fl .lf hok hn]
  | crlf =>
    simp only [LB.chars, List.cons_append, List.nil_append]
    rw [run_cons, step_of_not_pcr r _ _ hp, stepMain_cr r _ hfs]
    simp only
    rw [run_cons]
    unfold step
    simp only [if_true]
    rw [pcr_roundtrip _ hp, onNl_finalOpen r b w f fl .crlf hok hn]
  | cr =>
    obtain ⟨c, cs, hrest, hc⟩ := hrest rfl
    subst hrest
    simp only [LB.chars, List.cons_append, List.nil_append]
    rw [run_cons, step_of_not_pcr r _ _ hp, stepMain_cr r _ hfs]
    simp only
    rw [run_cons]
    unfold step
    simp only [if_true, hc, if_false]
    rw [pcr_roundtrip _ hp, onNl_finalOpen r b w f fl .cr hok hn]
    simp only
    rw [run_cons, step_of_not_pcr r _ _ (by rfl)]

theorem run_record_lb (r : ROpts) (w : WOpts) (b : St) (hrd : r.delim = w.delim) (hd : DelimOK r.delim)
    (f : Field) (fl : List Field) (rest : List Char)
    (hf : ∀ g ∈ f :: fl, FieldOK w g) (hok : RecOK f fl)
    (hn : b.fpr = 0 ∨ b.fpr = 1 + fl.length) (hrest : RestOK w.lb rest) :
    run r (startSt b []) (writeRecord w (f :: fl) ++ (w.lb.chars ++ rest))
      = run r (startSt (nextBase (setDlb b w.lb) ((f :: fl).map (rawOf w))) []) rest := by
  rw [run_append, run_writeRecord r w b hrd hd f fl hf hn]
  simp only
  exact run_lb_after_record r b w f fl w.lb rest hok hn hrest

/-! ## the first character of a record -/

theorem writeRecord_head (w : WOpts) (hd : DelimOK w.delim) (f : Field) (fl : List Field)
    (hf : FieldOK w f) (hok : RecOK f fl) (tail : List Char) :
    ∃ c cs, writeRecord w (f :: fl) ++ tail = c :: cs ∧ c ≠ '\n' := by
  simp only [writeRecord]
  unfold writeField
  by_cases hq : mustQuote w f = true
  · simp only [hq, if_true]
    exact ⟨'"', _, rfl, by decide⟩
  · have hq' : mustQuote w f = false := by simpa using hq
    simp only [hq', Bool.false_eq_true, if_false]
    have hlb : includesLineBreak f.contents = false := by
      rcases hf with h | h
      · exact absurd h hq
      · exact h
    cases hc : f.contents with
    | cons x xs =>
      refine ⟨x, _, rfl, ?_⟩
      rw [hc] at hlb
      simp only [includesLineBreak] at hlb
      split at hlb
      · cases hlb
      · rename_i h
        exact fun e => h (Or.inr e)
    | nil =>
      rcases hok with h | h
      · cases fl with
        | nil => exact absurd rfl h
        | cons g gs =>
          refine ⟨w.delim, _, rfl, ?_⟩
          exact hd.2.2
      · exact absurd hc h

/-! ## all records, the ending line break, end of input -/

/-- every record has `n` fields the writer spells readably; a single-column record is not empty -/
def RecsOK (w : WOpts) (n : Nat) (recs : List (List Field)) : Prop :=
  ∀ rec ∈ recs, rec.length = n ∧ (∀ g ∈ rec, FieldOK w g) ∧ (n = 1 → ∀ g ∈ rec, g.contents ≠ [])

theorem recsOK_cons {w : WOpts} {n : Nat} {rec : List Field} {more : List (List Field)}
    (h : RecsOK w n (rec :: more)) (hn : 1 ≤ n) :
    (∃ f fl, rec = f :: fl ∧ 1 + fl.length = n ∧ (∀ g ∈ f :: fl, FieldOK w g) ∧ RecOK f fl)
    ∧ RecsOK w n more := by
  refine ⟨?_, fun x hx => h x (by simp [hx])⟩
  obtain ⟨hl, hf, h1⟩ := h rec (by simp)
  cases rec with
  | nil => simp at hl; omega
  | cons f fl =>
    refine ⟨f, fl, rfl, by simp at hl; omega, hf, ?_⟩
    cases fl with
    | nil =>
      right
      exact h1 (by simp at hl; omega) f (by simp)
    | cons g gs => left; simp

def dlbAfter (pre : Option LB) (lb : LB) (more : List (List Field)) (e : Option LB) : Option LB :=
  match pre with
  | some x => some x
  | none =>
    match more with
    | [] => e
    | _ :: _ => some lb

theorem setDlb_dlb (b : St) (lb : LB) :
    (setDlb b lb).dlb = match b.dlb with | some x => some x | none => some lb := by
  unfold setDlb
  cases h : b.dlb <;> simp [h]

theorem finish_finalOpen (r : ROpts) (b : St) (w : WOpts) (f : Field) (fl : List Field)
    (hok : RecOK f fl) (hn : b.fpr = 0 ∨ b.fpr = 1 + fl.length) :
    finish r (finalOpen b w [] f fl) = .ok (startSt (nextBase b ((f :: fl).map (rawOf w))) []) := by
  unfold finish
  rw [finalOpen_pcr]
  simp only [Bool.false_eq_true, if_false]
  have hfs := finalOpen_fs b w [] f fl
  have := endRecord_finalOpen r b w f fl hok hn
  cases hq : (finalOpen b w [] f fl).fs with
  | q => exact absurd hq hfs
  | qe => simpa [hq] using this
  | unq => simpa [hq] using this

theorem finish_startSt (r : ROpts) (b : St) : finish r (startSt b []) = .ok (startSt b []) := by
  simp [finish, startSt, mk, endRecord]

theorem run_rows (r : ROpts) (w : WOpts) (hrd : r.delim = w.delim) (hd : DelimOK r.delim)
    (n : Nat) (hn1 : 1 ≤ n) (e : Option LB) (he : e ≠ some .cr)
    (more : List (List Field)) :
    ∀ (rec : List Field) (b : St), RecsOK w n (rec :: more) → (b.fpr = 0 ∨ b.fpr = n) →
    ∃ σ, (match run r (startSt b []) (writeRecord w rec ++ (writeMore w more ++ endingChars e)) with
          | .ok σ' => finish r σ'
          | .error err => .error err) = .ok σ
       ∧ σ.recs = ((rec :: more).map (·.map (rawOf w))).reverse ++ b.recs
       ∧ σ.fpr = n
       ∧ σ.dlb = dlbAfter b.dlb w.lb more e := by
  induction more with
  | nil =>
    intro rec b hok hb
    obtain ⟨⟨f, fl, rfl, hlen, hf, hrec⟩, _⟩ := recsOK_cons hok hn1
    have hb' : b.fpr = 0 ∨ b.fpr = 1 + fl.length := by omega
    simp only [writeMore, List.nil_append]
    cases e with
    | none =>
      simp only [endingChars, List.append_nil]
      rw [run_writeRecord r w b hrd hd f fl hf hb']
      simp only
      rw [finish_finalOpen r b w f fl hrec hb']
      refine ⟨_, rfl, ?_, ?_, ?_⟩
      · simp [startSt, nextBase]
      · simp [startSt, nextBase]; omega
      · simp [startSt, nextBase, dlbAfter]
        cases b.dlb <;> rfl
    | some lbE =>
      have hrest : RestOK lbE [] := fun h => absurd (by rw [h]) he
      simp only [endingChars]
      rw [run_append, run_writeRecord r w b hrd hd f fl hf hb']
      simp only
      have := run_lb_after_record r b w f fl lbE [] hrec hb' hrest
      rw [List.append_nil] at this
      rw [this, run_nil]
      simp only
      rw [finish_startSt]
      refine ⟨_, rfl, ?_, ?_, ?_⟩
      · simp [startSt, nextBase, setDlb_recs]
      · simp [startSt, nextBase]; omega
      · simp only [startSt, nextBase, mk_dlb, setDlb_dlb, dlbAfter]
  | cons rec2 more' ih =>
    intro rec b hok hb
    obtain ⟨⟨f, fl, rfl, hlen, hf, hrec⟩, hok'⟩ := recsOK_cons hok hn1
    obtain ⟨⟨f2, fl2, rfl, hlen2, hf2, hrec2⟩, _⟩ := recsOK_cons hok' hn1
    have hb' : b.fpr = 0 ∨ b.fpr = 1 + fl.length := by omega
    have hrest : RestOK w.lb (writeRecord w (f2 :: fl2) ++ (writeMore w more' ++ endingChars e)) := by
      intro _
      exact writeRecord_head w (hrd ▸ hd) f2 fl2 (hf2 f2 (by simp)) hrec2 _
    have hassoc : writeRecord w (f :: fl) ++ (writeMore w ((f2 :: fl2) :: more') ++ endingChars e)
        = writeRecord w (f :: fl) ++ (w.lb.chars ++
            (writeRecord w (f2 :: fl2) ++ (writeMore w more' ++ endingChars e))) := by
      simp only [writeMore, List.append_assoc]
    rw [hassoc, run_record_lb r w b hrd hd f fl _ hf hrec hb' hrest]
    obtain ⟨σ, h1, h2, h3, h4⟩ := ih (f2 :: fl2) (nextBase (setDlb b w.lb) ((f :: fl).map (rawOf w))) hok'
      (by right; simp [nextBase]; omega)
    refine ⟨σ, h1, ?_, h3, ?_⟩
    · rw [h2]
      simp [nextBase, setDlb_recs]
    · rw [h4]
      simp only [nextBase, setDlb_dlb, dlbAfter]
      cases b.dlb <;> rfl

/-! ## `assemble` on what was written -/

/-- the records handed to the writer by `encodeCSV` -/
def records (o : Opts) (t : Table) : List (List Field) :=
  if o.withoutHeader then t.rows.map (·.map (cellField o))
  else t.header.map (headerField o) :: t.rows.map (·.map (cellField o))

theorem cellOf_cellField (o : Opts) (c : Cell) :
    cellOf o.withoutNull (rawOf o.w (cellField o c)) = canonCell o c := by
  cases c with
  | null => simp [cellField, rawOf, mustQuote, includesDelimOrQuote, includesLineBreak, cellOf, canonCell, nullCell]
  | str s =>
    cases s with
    | nil =>
      cases h : o.encloseAll <;>
        simp [cellField, rawOf, mustQuote, includesDelimOrQuote, includesLineBreak, cellOf, canonCell, nullCell, h]
    | cons x xs => simp [cellField, rawOf, cellOf, canonCell]
  | raw s =>
    cases s with
    | nil => simp [cellField, rawOf, mustQuote, includesDelimOrQuote, includesLineBreak, cellOf, canonCell, nullCell]
    | cons x xs => simp [cellField, rawOf, cellOf, canonCell]

theorem cellField_contents (o : Opts) (c : Cell) : (cellField o c).contents = c.text := by
  cases c <;> rfl

theorem padTo_of_length {α} (n : Nat) (x : α) (l : List α) (h : l.length = n) : padTo n x l = l := by
  simp [padTo, h]

theorem autofillFrom_nonempty (l : List (List Char)) (i : Nat) (h : ∀ x ∈ l, x ≠ []) :
    autofillFrom i l = l := by
  induction l generalizing i with
  | nil => rfl
  | cons x xs ih =>
    cases x with
    | nil => exact absurd rfl (h [] (by simp))
    | cons c cs =>
      simp only [autofillFrom]
      rw [ih (i + 1) (fun y hy => h y (by simp [hy]))]

theorem autofill_autoNames (n : Nat) : autofill (autoNames n) = autoNames n := by
  apply autofillFrom_nonempty
  intro x hx
  simp only [autoNames, List.mem_map] at hx
  obtain ⟨i, _, rfl⟩ := hx
  simp

theorem rows_roundtrip (o : Opts) (rows : List (List Cell)) :
    ((rows.map (·.map (cellField o))).map (·.map (rawOf o.w))).map (·.map (cellOf o.withoutNull))
      = rows.map (·.map (canonCell o)) := by
  simp only [List.map_map]
  apply List.map_congr_left
  intro r _
  simp only [Function.comp, List.map_map]
  apply List.map_congr_left
  intro c _
  exact cellOf_cellField o c

theorem rows_padTo (o : Opts) (n : Nat) (rows : List (List Cell)) (h : ∀ r ∈ rows, r.length = n) :
    (rows.map (·.map (canonCell o))).map (padTo n (nullCell o.withoutNull))
      = rows.map (·.map (canonCell o)) := by
  simp only [List.map_map]
  apply List.map_congr_left
  intro r hr
  simp only [Function.comp]
  exact padTo_of_length n _ _ (by simp [h r hr])

theorem header_roundtrip (o : Opts) (h : List (List Char)) :
    ((h.map (headerField o)).map (rawOf o.w)).map (·.contents) = h := by
  simp only [List.map_map]
  conv => rhs; rw [← List.map_id h]
  apply List.map_congr_left
  intro x _
  rfl

theorem assemble_records (o : Opts) (t : Table) (hrect : ∀ r ∈ t.rows, r.length = t.header.length) :
    assemble o ((records o t).map (·.map (rawOf o.w))) t.header.length = canon o t := by
  unfold assemble records canon
  cases hw : o.withoutHeader <;> cases ha : o.allowUneven <;>
    simp only [Bool.false_eq_true, if_true, if_false, List.map_cons, rows_roundtrip, header_roundtrip]
  · rw [rows_padTo o _ _ hrect, padTo_of_length _ _ _ rfl]
  · rw [rows_padTo o _ _ hrect, padTo_of_length _ _ _ (by simp [autoNames]), autofill_autoNames]

end Csvq.Csv
