/-
  Helper lemmas for Props/C15Keys.lean: the name table (`canon`), frame lemmas for variables with different abstract
  names, and the block that declares a twin and assigns the outer variable.
-/
import Csvq.Model.ScopeKeys
import Csvq.Lemmas.Scope
namespace Csvq.Scope
open Csvq

/-! ## `sameObj` is an equivalence -/

theorem sameObj_iff (key : Kind → KeyFn) (a b : NameEnt) :
    sameObj key a b = true ↔ a.kind = b.kind ∧ (key a.kind).apply a.raw = (key b.kind).apply b.raw := by
  simp [sameObj]

theorem sameObj_refl (key : Kind → KeyFn) (a : NameEnt) : sameObj key a a = true := by simp [sameObj]

theorem sameObj_symm {key : Kind → KeyFn} {a b : NameEnt} (h : sameObj key a b = true) : sameObj key b a = true := by
  rw [sameObj_iff] at h ⊢
  exact ⟨h.1.symm, h.2.symm⟩

theorem sameObj_trans {key : Kind → KeyFn} {a b c : NameEnt} (h1 : sameObj key a b = true) (h2 : sameObj key b c = true) :
    sameObj key a c = true := by
  rw [sameObj_iff] at h1 h2 ⊢
  exact ⟨h1.1.trans h2.1, h1.2.trans h2.2⟩

/-- entries of the same object select the same entries -/
theorem sameObj_congr {key : Kind → KeyFn} {a b : NameEnt} (h : sameObj key a b = true) (c : NameEnt) :
    sameObj key a c = sameObj key b c := by
  cases h1 : sameObj key a c <;> cases h2 : sameObj key b c <;> try rfl
  · rw [sameObj_trans h h2] at h1; cases h1
  · rw [sameObj_trans (sameObj_symm h) h1] at h2; cases h2

theorem find?_congr' {α} {p q : α → Bool} : ∀ (l : List α), (∀ a, p a = q a) → l.find? p = l.find? q
  | [], _ => rfl
  | a :: l, h => by simp only [List.find?, h a, find?_congr' l h]

/-! ## the table -/

theorem lookup_of_mem : ∀ {T : Names}, T.WF → ∀ {e : NameEnt}, e ∈ T → T.lookup e.num = some e
  | [], _, _, h => by cases h
  | a :: T, hwf, e, h => by
    simp only [Names.WF, List.map_cons, List.nodup_cons] at hwf
    simp only [Names.lookup, List.find?]
    cases h with
    | head => simp
    | tail _ hm =>
      have hne : (a.num == e.num) = false := by
        apply beq_false_of_ne
        intro he
        exact hwf.1 (he ▸ List.mem_map_of_mem (f := NameEnt.num) hm)
      rw [hne]
      exact lookup_of_mem (T := T) hwf.2 hm

/-- in a well-formed table an entry is determined by its number -/
theorem ent_eq_of_num {T : Names} (hwf : T.WF) {a b : NameEnt} (ha : a ∈ T) (hb : b ∈ T) (h : a.num = b.num) : a = b := by
  have h1 := lookup_of_mem hwf ha
  have h2 := lookup_of_mem hwf hb
  rw [h, h2] at h1
  exact (Option.some.inj h1).symm

/-- the abstract name of a listed number is the number of a listed entry that names the same object -/
theorem canon_spec (key : Kind → KeyFn) {T : Names} (hwf : T.WF) {e : NameEnt} (he : e ∈ T) :
    ∃ e', e' ∈ T ∧ sameObj key e e' = true ∧ T.find? (sameObj key e) = some e' ∧ canon key T e.num = e'.num := by
  have hl := lookup_of_mem hwf he
  cases hf : T.find? (sameObj key e) with
  | none =>
    have := List.find?_eq_none.mp hf e he
    simp [sameObj_refl] at this
  | some e' =>
    exact ⟨e', List.mem_of_find?_eq_some hf, List.find?_some hf, rfl, by simp [canon, hl, hf]⟩

/-- a number the table does not list keeps its name -/
theorem canon_unlisted (key : Kind → KeyFn) (T : Names) (x : Nat) (h : T.lookup x = none) : canon key T x = x := by
  simp [canon, h]

/-- **two listed names are one object iff they have the same kind and the same key** -/
theorem canon_eq_iff (key : Kind → KeyFn) {T : Names} (hwf : T.WF) {a b : NameEnt} (ha : a ∈ T) (hb : b ∈ T) :
    canon key T a.num = canon key T b.num ↔ a.kind = b.kind ∧ (key a.kind).apply a.raw = (key b.kind).apply b.raw := by
  obtain ⟨a', ha', hsa, hfa, hca⟩ := canon_spec key hwf ha
  obtain ⟨b', hb', hsb, hfb, hcb⟩ := canon_spec key hwf hb
  rw [hca, hcb, ← sameObj_iff]
  constructor
  · intro h
    have : a' = b' := ent_eq_of_num hwf ha' hb' h
    subst this
    exact sameObj_trans hsa (sameObj_symm hsb)
  · intro h
    have : T.find? (sameObj key a) = T.find? (sameObj key b) := find?_congr' T (sameObj_congr h)
    rw [hfa, hfb] at this
    rw [Option.some.inj this]

/-- the abstract name is a fixed point: resolving twice changes nothing -/
theorem canon_idem (key : Kind → KeyFn) {T : Names} (hwf : T.WF) (x : Nat) : canon key T (canon key T x) = canon key T x := by
  cases hl : T.lookup x with
  | none => rw [canon_unlisted key T x hl, canon_unlisted key T x hl]
  | some e =>
    have he : e ∈ T := List.mem_of_find?_eq_some hl
    have hx : e.num = x := by
      have := List.find?_some hl
      simpa using this
    obtain ⟨e', he', hs, hf, hc⟩ := canon_spec key hwf he
    rw [← hx, hc]
    obtain ⟨e'', he'', hs', hf', hc'⟩ := canon_spec key hwf he'
    rw [hc']
    have : T.find? (sameObj key e') = T.find? (sameObj key e) := find?_congr' T (sameObj_congr (sameObj_symm hs))
    rw [hf, hf'] at this
    rw [Option.some.inj this]

/-! ## variables with different abstract names do not see each other -/

theorem aget_cons_other {α} {x y : Nat} (v : α) (h : y ≠ x) (l : List (Nat × α)) : aget y ((x, v) :: l) = aget y l := by
  simp [aget, Ne.symm h]

theorem getVar_declareVar_other {x y : Nat} {v : SVal} (hy : y ≠ x) : ∀ {bs bs' : List Block}, declareVar x v bs = some bs' →
    getVar y bs' = getVar y bs
  | [], _, h => by simp [declareVar] at h
  | b :: rest, bs', h => by
    simp only [declareVar] at h
    cases hb : aget x b.vars with
    | some u => rw [hb] at h; cases h
    | none =>
      rw [hb] at h
      cases h
      simp [getVar, aget_cons_other v hy]

theorem getVar_declareVar_same {x : Nat} {v : SVal} : ∀ {bs bs' : List Block}, declareVar x v bs = some bs' →
    getVar x bs' = some v
  | [], _, h => by simp [declareVar] at h
  | b :: rest, bs', h => by
    simp only [declareVar] at h
    cases hb : aget x b.vars with
    | some u => rw [hb] at h; cases h
    | none =>
      rw [hb] at h
      cases h
      simp [getVar, aget]

theorem aget_adel_other {α} {x y : Nat} (h : y ≠ x) : ∀ (l : List (Nat × α)), aget y (adel x l) = aget y l
  | [] => rfl
  | (z, w) :: rest => by
    simp only [adel]
    split
    · rename_i hz
      subst hz
      simp [aget, Ne.symm h]
    · simp only [aget]
      split
      · rfl
      · exact aget_adel_other h rest

theorem getVar_disposeVar_other {x y : Nat} (hy : y ≠ x) : ∀ {bs bs' : List Block}, disposeVar x bs = some bs' →
    getVar y bs' = getVar y bs
  | [], _, h => by simp [disposeVar] at h
  | b :: rest, bs', h => by
    simp only [disposeVar] at h
    cases hb : aget x b.vars with
    | some u =>
      rw [hb] at h
      cases h
      simp [getVar, aget_adel_other hy]
    | none =>
      rw [hb] at h
      cases hr : disposeVar x rest with
      | none => simp [hr] at h
      | some r =>
        simp [hr] at h
        subst h
        simp [getVar, getVar_disposeVar_other hy hr]

/-- declaring the same abstract name twice in one block is the redeclaration error; a different one is accepted -/
theorem declareVar_twice {x y : Nat} {v w : SVal} {bs bs1 : List Block} (h : declareVar x v bs = some bs1) :
    declareVar y w bs1 = none ↔ (y = x ∨ declareVar y w bs = none) := by
  cases bs with
  | nil => simp [declareVar] at h
  | cons b rest =>
    simp only [declareVar] at h
    cases hb : aget x b.vars with
    | some u => rw [hb] at h; cases h
    | none =>
      rw [hb] at h
      cases h
      by_cases hyx : y = x
      · subst hyx
        simp [declareVar, aget]
      · simp only [declareVar, aget_cons_other v hyx, hyx, false_or]
        cases aget y b.vars <;> simp

/-! ## a block that declares `X` and assigns the outer `Y` -/

/-- below a block that declares only `X ≠ Y`, an assignment to `Y` goes to the blocks underneath -/
theorem setVar_under_twin {X Y : Nat} (hXY : Y ≠ X) (v1 v : SVal) (bs : List Block) :
    setVar Y v (⟨[(X, v1)], []⟩ :: bs) = (setVar Y v bs).map (fun r => ⟨[(X, v1)], []⟩ :: r) := by
  simp only [setVar, aget, Ne.symm hXY, if_false]
  cases setVar Y v bs <;> rfl

/-- IF TRUE THEN VAR @X := v1; @Y := v; END IF — with `X ≠ Y` and `@Y` visible outside: the block is gone, `@Y` has
    the new value, nothing else changed, nothing was printed -/
theorem twin_block_run {X Y : Nat} (hXY : Y ≠ X) (v1 v : SVal) (k : Nat) (st : St) {bs' : List Block}
    (hset : setVar Y v st.blocks = some bs') :
    blockS (k + 7) [Stmt.ifs [(.lit (.tern .T), [.decl X (.lit v1), .assign Y (.lit v)])] []] st
      = (.normal, { st with blocks := bs' }) := by
  obtain ⟨blocks, out⟩ := st
  simp only at hset
  have e : k + 7 = (k + 1) + 1 + 1 + 1 + 1 + 1 + 1 := by omega
  rw [e]
  simp only [blockS, stmtS, ifS, evalS, SVal.ternary, inBlock, St.push, declareVar, Block.empty, aget,
    setVar_under_twin hXY, hset, Option.map, St.pop, List.tail]

end Csvq.Scope
