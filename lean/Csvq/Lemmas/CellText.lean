/-
  Lemmas for Csvq.Model.CellText: what the conversion functions make of the text of an integer, a float, a
  datetime, a boolean — the profile of the cell that is read again.
-/
import Csvq.Model.CellText
import Csvq.Lemmas.FormatTime
import Csvq.Props.C06Fmt
import Csvq.Lemmas.RoundMono
namespace Csvq
namespace Cell
open PF FF

/-! ### option.TrimSpace leaves the texts alone -/

theorem trimSpace_noSpace (s : Bytes) (h : ∀ b ∈ s, byteIsSpace b = false) : trimSpace s = s := by
  unfold trimSpace
  split
  · rename_i b t e hl
    have hb := h b (by simp)
    have he := h e (List.mem_of_getLast? hl)
    simp [hb, he]
  · rfl

theorem fmtByte_noSpace (b : Nat) (h : FmtByte b) : byteIsSpace b = false := by
  unfold FmtByte IsDig at h
  unfold byteIsSpace isAsciiSpace
  simp; omega

theorem decText_noSpace (i : Int) : ∀ b ∈ decText i, byteIsSpace b = false := by
  intro b hb
  have key : ∀ b ∈ natDigits (i.natAbs + 1) i.natAbs [], 48 ≤ b ∧ b ≤ 57 := by
    intro b hb
    rcases natDigits_bytes i.natAbs (i.natAbs + 1) [] (by omega) b hb with h | h
    · exact h
    · simp at h
  have : b = 45 ∨ (48 ≤ b ∧ b ≤ 57) := by
    unfold decText at hb
    split at hb
    · rcases List.mem_cons.mp hb with h | h
      · exact Or.inl h
      · exact Or.inr (key b h)
    · exact Or.inr (key b hb)
  unfold byteIsSpace isAsciiSpace
  simp; omega

/-! ### integers -/

theorem int_text_int (i : Int) (h : inI64 i) : strToIntStrictB (decText i) = some i := by
  unfold strToIntStrictB
  rw [trimSpace_noSpace _ (decText_noSpace i)]
  exact parseIntStrict_decText i h

/-! ### floats -/

theorem fmtWith_noSpace (lay : Bytes → Int → Bytes) (zero : Bytes) (hl : GoodLay lay) (hz : ∀ b ∈ zero, FmtByte b) (f : FVal) :
    ∀ b ∈ fmtWith lay zero f, byteIsSpace b = false :=
  fun b hb => fmtByte_noSpace b (fmtWith_bytes lay zero hl hz f b hb)

theorem fmtF_noSpace (f : FVal) : ∀ b ∈ fmtF f, byteIsSpace b = false :=
  fmtWith_noSpace layF [48] goodLay_F (by intro b hb; simp at hb; subst hb; left; exact ⟨by omega, by omega⟩) f

theorem fmtG_noSpace (f : FVal) : ∀ b ∈ fmtG f, byteIsSpace b = false :=
  fmtWith_noSpace layG [48] goodLay_G (by intro b hb; simp at hb; subst hb; left; exact ⟨by omega, by omega⟩) f

theorem float_text_float (f : FVal) (h : f.IsDouble) (sci : Bool) :
    strToFloat (if sci then fmtG f else fmtF f) = some f := by
  unfold strToFloat
  cases sci
  · simp only [Bool.false_eq_true, if_false]
    rw [trimSpace_noSpace _ (fmtF_noSpace f)]; exact C06.fmt_parse_roundtrip f h
  · simp only [if_true]
    rw [trimSpace_noSpace _ (fmtG_noSpace f)]; exact C06.fmtG_parse_roundtrip f h

/-! ### datetimes: the text is neither an integer nor a float -/

theorem stripHex_digit2 (a b : Nat) (r : Bytes) (hb : b ≤ 57) : stripHex (a :: b :: r) = (false, a :: b :: r) := by
  unfold stripHex
  split
  · rename_i x y r' heq
    injection heq with _ h2
    injection h2 with h3 _
    subst h3
    have : lowerB b = b := by unfold lowerB; rw [if_neg (by omega)]
    rw [this, if_neg (by omega)]
  · rfl

/-- a text that begins with four digits and a '-' -/
theorem dash5_not_number (a b c d : Nat) (r : Bytes) (ha : IsDig a) (hb : IsDig b) (hc : IsDig c) (hd : IsDig d) :
    parseIntStrict (a :: b :: c :: d :: 45 :: r) = none ∧ parseFloat (a :: b :: c :: d :: 45 :: r) = none := by
  unfold IsDig at *
  constructor
  · have hp : parseNat (a :: b :: c :: d :: 45 :: r) = none := by
      simp [parseNat, parseDigits, ha, hb, hc, hd]
    have hs : parseSigned (a :: b :: c :: d :: 45 :: r) = none := by
      unfold parseSigned
      split
      · rename_i heq; injection heq with h1 _; omega
      · rename_i heq; injection heq with h1 _; omega
      · rw [hp]; rfl
    unfold parseIntStrict; rw [hs]
  · have hsp := (special_digit a (b :: c :: d :: 45 :: r) ha).1
    have hss := stripSign_digit a (b :: c :: d :: 45 :: r) ha
    have hhex := stripHex_digit2 a b (c :: d :: 45 :: r) hb.2
    have hscan : scanMant false (a :: b :: c :: d :: 45 :: r) {} = ([a, b, c, d].foldl digStep {}, 45 :: r) := by
      have := scanMant_digits_append [a, b, c, d] (45 :: r) {} (by
        intro x hx; simp at hx; unfold IsDig; rcases hx with h | h | h | h <;> subst h <;> assumption)
      rw [show a :: b :: c :: d :: 45 :: r = [a, b, c, d] ++ 45 :: r from rfl, this]
      conv => lhs; unfold scanMant
      simp [isDigit]
    have hbody : readBody (a :: b :: c :: d :: 45 :: r) false false (a :: b :: c :: d :: 45 :: r) = none := by
      unfold readBody
      rw [hscan]
      simp only []
      by_cases hsd : (!([a, b, c, d].foldl digStep {}).sawdigits) = true
      · rw [if_pos hsd]
      · rw [if_neg hsd]; simp [lowerB]
    unfold parseFloat
    rw [hsp]
    simp only []
    unfold readFloat
    rw [hss]
    simp only [hhex, hbody]

theorem timeByte_noSpace (b : Nat) (h : FT.TimeByte b) : byteIsSpace b = false := by
  unfold FT.TimeByte IsDig at h
  unfold byteIsSpace isAsciiSpace
  simp; omega

theorem fmtTime_noSpace (ns off : Int) : ∀ b ∈ FT.fmtTime ns off, byteIsSpace b = false :=
  fun b hb => timeByte_noSpace b (FT.fmtTime_bytes ns off b hb)

/-- the text of a datetime (local year 0000 … 9999) is no integer and no float -/
theorem time_text_not_number (ns off : Int) (hy0 : 0 ≤ FT.localYear ns off) (hy1 : FT.localYear ns off ≤ 9999) :
    strToIntStrictB (FT.fmtTime ns off) = none ∧ strToFloat (FT.fmtTime ns off) = none := by
  unfold strToIntStrictB strToFloat
  rw [trimSpace_noSpace _ (fmtTime_noSpace ns off)]
  obtain ⟨y, mo, d, h, mi, s, nsec, hy, _, _, _, _, _, _, htxt, _, _⟩ := FT.fmtTime_fields ns off hy0 hy1
  rw [htxt]
  exact dash5_not_number _ _ _ _ _ (by unfold IsDig; omega) (by unfold IsDig; omega) (by unfold IsDig; omega) (by unfold IsDig; omega)

/-! ### the profiles of the cells that are read again -/

theorem profile_int_text (i : Int) (h : inI64 i) (u : Bytes) : (profileOfText (decText i) u).int? = some i :=
  int_text_int i h

theorem profile_float_text (f : FVal) (h : f.IsDouble) (sci : Bool) (u : Bytes) :
    (profileOfText (if sci then fmtG f else fmtF f) u).flt? = some f :=
  float_text_float f h sci

theorem profile_time_text (ns off : Int) (hy0 : 0 ≤ FT.localYear ns off) (hy1 : FT.localYear ns off ≤ 9999)
    (hm : off % 60 = 0) (hb : -90000 < off ∧ off < 90000) (u : Bytes) :
    (profileOfText (FT.fmtTime ns off) u).int? = none ∧ (profileOfText (FT.fmtTime ns off) u).flt? = none
      ∧ (profileOfText (FT.fmtTime ns off) u).dt? = some ns :=
  ⟨(time_text_not_number ns off hy0 hy1).1, (time_text_not_number ns off hy0 hy1).2, FT.strToTime_fmtTime ns off hy0 hy1 hm hb⟩

theorem profile_true_text (u : Bytes) : (profileOfText sTrue u).int? = none ∧ (profileOfText sTrue u).flt? = none
    ∧ (profileOfText sTrue u).dt? = none ∧ (profileOfText sTrue u).bool? = some true := by
  have h1 : strToIntStrictB sTrue = none := by decide
  have h2 : strToFloat sTrue = none := by decide
  have h3 : PT.strToTime sTrue = none := by decide
  have h4 : strTernaryB sTrue = .T := by decide
  exact ⟨h1, h2, h3, by show (match strTernaryB sTrue with | .U => none | .T => some true | .F => some false) = _; rw [h4]⟩

theorem profile_false_text (u : Bytes) : (profileOfText sFalse u).int? = none ∧ (profileOfText sFalse u).flt? = none
    ∧ (profileOfText sFalse u).dt? = none ∧ (profileOfText sFalse u).bool? = some false := by
  have h1 : strToIntStrictB sFalse = none := by decide
  have h2 : strToFloat sFalse = none := by decide
  have h3 : PT.strToTime sFalse = none := by decide
  have h4 : strTernaryB sFalse = .F := by decide
  exact ⟨h1, h2, h3, by show (match strTernaryB sFalse with | .U => none | .T => some true | .F => some false) = _; rw [h4]⟩

theorem feq_self (f : FVal) (h : f ≠ .nan) : FVal.feq f f = true := by
  cases f <;> simp_all [FVal.feq, FVal.num?]

theorem cmpFloat_self (f : FVal) (h : f ≠ .nan) : cmpFloat f f = .eq := by
  unfold cmpFloat
  have : f.isNaN = false := by cases f <;> simp_all [FVal.isNaN]
  simp [this, feq_self f h]

/-! ### two float texts that are both int64 texts: the integer comparison is the float comparison -/

open FVal in
/-- the numerator (in units of 2^-1074) of float64(i) -/
def numOf (i : Int) : Int :=
  if i = 0 then 0 else if i < 0 then -((rnd (i.natAbs * unit) : Nat) : Int) else ((rnd (i.natAbs * unit) : Nat) : Int)

open FVal in
theorem numOf_sign (i : Int) : (i < 0 → numOf i < 0) ∧ (0 < i → 0 < numOf i) ∧ (i = 0 → numOf i = 0) := by
  unfold numOf
  refine ⟨?_, ?_, ?_⟩
  · intro h
    have := rnd_pos (i.natAbs * unit) (Nat.mul_pos (by omega) unitNat_pos)
    rw [if_neg (by omega), if_pos h]; omega
  · intro h
    have := rnd_pos (i.natAbs * unit) (Nat.mul_pos (by omega) unitNat_pos)
    rw [if_neg (by omega), if_neg (by omega)]; omega
  · intro h; rw [if_pos h]

open FVal in
theorem numOf_mono (i j : Int) (h : i ≤ j) : numOf i ≤ numOf j := by
  obtain ⟨in_, ip, iz⟩ := numOf_sign i
  obtain ⟨jn, jp, jz⟩ := numOf_sign j
  by_cases hi : i < 0
  · by_cases hj : j < 0
    · -- both negative: the magnitudes are ordered the other way
      have hm : j.natAbs * unit ≤ i.natAbs * unit := Nat.mul_le_mul_right _ (by omega)
      have := rnd_mono _ _ hm
      unfold numOf
      rw [if_neg (by omega), if_pos hi, if_neg (by omega), if_pos hj]; omega
    · have := in_ hi
      by_cases hj0 : j = 0
      · have := jz hj0; omega
      · have := jp (by omega); omega
  · by_cases hi0 : i = 0
    · have := iz hi0
      by_cases hj0 : j = 0
      · have := jz hj0; omega
      · have := jp (by omega); omega
    · have hm : i.natAbs * unit ≤ j.natAbs * unit := Nat.mul_le_mul_right _ (by omega)
      have := rnd_mono _ _ hm
      unfold numOf
      rw [if_neg hi0, if_neg hi, if_neg (by omega), if_neg (by omega)]; omega

open FVal in
theorem ofInt_num (i : Int) (h : inI64 i) (hi : i ≠ 0) : ofInt i = .fin (numOf i) := by
  unfold inI64 minI64 maxI64 at h
  unfold ofInt
  rw [if_neg hi]
  obtain ⟨n, hn⟩ := PF.roundMag_int64_some i.natAbs (by omega) (by omega)
  have hrn := roundMag_eq_rnd _ _ hn
  have hpos := rnd_pos (i.natAbs * unit) (Nat.mul_pos (by omega) unitNat_pos)
  rw [hn, signed_some _ _ (by omega), hrn]
  unfold numOf
  rw [if_neg hi]
  by_cases hneg : i < 0
  · simp [hneg]
  · simp [hneg]

theorem cmpFloat_num (f g : FVal) (x y : Int) (hf : f = .negz ∧ x = 0 ∨ f = .fin x) (hg : g = .negz ∧ y = 0 ∨ g = .fin y) :
    cmpFloat f g = cmpInt x y := by
  rcases hf with ⟨rfl, rfl⟩ | rfl <;> rcases hg with ⟨rfl, rfl⟩ | rfl <;>
    simp [cmpFloat, cmpInt, FVal.isNaN, FVal.feq, FVal.flt, FVal.num?] <;> (try omega)

theorem inI64_of_parse (s : Bytes) (i : Int) (h : parseIntStrict s = some i) : inI64 i := by
  unfold parseIntStrict at h
  split at h
  · split at h
    · injection h with h; subst h; unfold inI64; assumption
    · cases h
  · cases h

/-- a text that is an int64 text `i` and reads as the float `f`: f is float64(i) (or a zero) -/
theorem float_of_int_text (t : Bytes) (i : Int) (f : FVal) (hi : strToIntStrictB t = some i) (hf : strToFloat t = some f) :
    f = .negz ∧ numOf i = 0 ∨ f = .fin (numOf i) := by
  unfold strToIntStrictB at hi
  unfold strToFloat at hf
  have hin := inI64_of_parse _ i hi
  have := C06.int_text_float_agrees _ i hi
  rw [hf] at this
  injection this with this
  by_cases h0 : i = 0
  · subst h0
    simp only [if_true] at this
    have hz : numOf 0 = 0 := (numOf_sign 0).2.2 rfl
    split at this
    · left; exact ⟨this, hz⟩
    · right; rw [hz]; exact this
  · rw [if_neg h0, ofInt_num i hin h0] at this
    right; exact this

/-- … and then comparing the integers is comparing the floats, provided equal floats have equal texts -/
theorem int_texts_order (tf tg : Bytes) (i j : Int) (f g : FVal) (hi : strToIntStrictB tf = some i)
    (hj : strToIntStrictB tg = some j) (hf : strToFloat tf = some f) (hg : strToFloat tg = some g)
    (hinj : f = g → i = j) : cmpInt i j = cmpFloat f g := by
  have ff := float_of_int_text tf i f hi hf
  have gg := float_of_int_text tg j g hj hg
  rw [cmpFloat_num f g (numOf i) (numOf j) ff gg]
  obtain ⟨in_, ip, iz⟩ := numOf_sign i
  obtain ⟨jn, jp, jz⟩ := numOf_sign j
  have strict : ∀ (a b : Int) (fa fb : FVal), a < b → (fa = .negz ∧ numOf a = 0 ∨ fa = .fin (numOf a)) →
      (fb = .negz ∧ numOf b = 0 ∨ fb = .fin (numOf b)) → (fa = fb → a = b) → numOf a < numOf b := by
    intro a b fa fb hab ha hb hinj'
    have hle := numOf_mono a b (by omega)
    by_cases heq : numOf a = numOf b
    · exfalso
      obtain ⟨an, ap, az⟩ := numOf_sign a
      obtain ⟨bn, bp, bz⟩ := numOf_sign b
      have ha0 : a ≠ 0 := by
        intro h; have := az h; have := bp (by omega); omega
      have hb0 : b ≠ 0 := by
        intro h; have := bz h; have := an (by omega); omega
      have hna : numOf a ≠ 0 := by
        rcases Int.lt_or_gt_of_ne ha0 with h | h
        · have := an h; omega
        · have := ap h; omega
      have e1 : fa = .fin (numOf a) := by rcases ha with ⟨_, h⟩ | h; exact absurd h hna; exact h
      have e2 : fb = .fin (numOf b) := by rcases hb with ⟨_, h⟩ | h; exact absurd h (by omega); exact h
      have := hinj' (by rw [e1, e2, heq])
      omega
    · omega
  unfold cmpInt
  by_cases e : i = j
  · subst e; simp
  · by_cases lt : i < j
    · have := strict i j f g lt ff gg hinj
      rw [if_neg e, if_pos lt, if_neg (by omega), if_pos this]
    · have := strict j i g f (by omega) gg ff (fun h => (hinj h.symm).symm)
      rw [if_neg e, if_neg lt, if_neg (by omega), if_neg (by omega)]

end Cell
end Csvq
