/-
  Lemmas for the pretty printer of Csvq.Model.Json (used by Csvq.Props.C02): what `Encoder.Encode` prints with
  PrettyPrint — line breaks, two blanks per level, a blank after every colon — scans to the same tokens.
-/
import Csvq.Lemmas.JsonLex
namespace Csvq.Json
open Csvq.Csv (Err LB)

/-- `txt` scans to `toks` whatever follows -/
def LexA (canon : List Char → Option (List Char)) (txt : List Char) (toks : List Tok) : Prop :=
  ∃ k, k ≤ txt.length ∧ ∀ n rest, lexF canon (n + k) (txt ++ rest) = prepend toks (lexF canon n rest)

/-- `txt` scans to `toks` when a delimiter (or the end) follows -/
def LexD (canon : List Char → Option (List Char)) (txt : List Char) (toks : List Tok) : Prop :=
  ∃ k, k ≤ txt.length ∧ ∀ n rest, Delim rest → lexF canon (n + k) (txt ++ rest) = prepend toks (lexF canon n rest)

theorem LexA.toD {canon txt toks} (h : LexA canon txt toks) : LexD canon txt toks := by
  obtain ⟨k, hk, h⟩ := h
  exact ⟨k, hk, fun n rest _ => h n rest⟩

theorem lexA_nil (canon : List Char → Option (List Char)) : LexA canon [] [] :=
  ⟨0, by simp, fun n rest => by simp [prepend_nil]⟩

theorem lexA_ws (canon : List Char → Option (List Char)) (w : List Char) (hw : ∀ c ∈ w, isWs c = true) : LexA canon w [] := by
  refine ⟨w.length, Nat.le_refl _, ?_⟩
  induction w with
  | nil => intro n rest; simp [prepend_nil]
  | cons c cs ih =>
    intro n rest
    have : n + (c :: cs).length = (n + cs.length) + 1 := by simp; omega
    rw [this, List.cons_append, lexF_ws canon _ c _ (hw c (by simp))]
    exact ih (fun x hx => hw x (by simp [hx])) n rest

theorem lexA_append {canon a b ta tb} (ha : LexA canon a ta) (hb : LexA canon b tb) : LexA canon (a ++ b) (ta ++ tb) := by
  obtain ⟨ka, hka, ha⟩ := ha
  obtain ⟨kb, hkb, hb⟩ := hb
  refine ⟨kb + ka, by simp; omega, ?_⟩
  intro n rest
  rw [← Nat.add_assoc, List.append_assoc, ha, hb, prepend_prepend]

theorem lexAD_append {canon a b ta tb} (ha : LexA canon a ta) (hb : LexD canon b tb) : LexD canon (a ++ b) (ta ++ tb) := by
  obtain ⟨ka, hka, ha⟩ := ha
  obtain ⟨kb, hkb, hb⟩ := hb
  refine ⟨kb + ka, by simp; omega, ?_⟩
  intro n rest hd
  rw [← Nat.add_assoc, List.append_assoc, ha, hb n rest hd, prepend_prepend]

/-- after a value that needs a delimiter comes something that begins with one -/
theorem lexDA_append {canon a ta tb} (c : Char) (b : List Char) (hc : Stop c) (ha : LexD canon a ta)
    (hb : LexA canon (c :: b) tb) : LexA canon (a ++ c :: b) (ta ++ tb) := by
  obtain ⟨ka, hka, ha⟩ := ha
  obtain ⟨kb, hkb, hb⟩ := hb
  refine ⟨kb + ka, by simp at hkb ⊢; omega, ?_⟩
  intro n rest
  have hb' := hb n rest
  rw [List.cons_append] at hb'
  rw [← Nat.add_assoc, List.append_assoc, List.cons_append, ha _ _ (delim_cons c _ hc), hb', prepend_prepend]

theorem lexA_char (canon : List Char → Option (List Char)) :
    LexA canon ['{'] [.lbrace] ∧ LexA canon ['}'] [.rbrace] ∧ LexA canon ['['] [.lbrack] ∧ LexA canon [']'] [.rbrack] ∧
    LexA canon [':'] [.colon] ∧ LexA canon [','] [.comma] := by
  refine ⟨⟨1, by simp, fun n rest => (lexF_punct canon n rest).1⟩, ⟨1, by simp, fun n rest => (lexF_punct canon n rest).2.1⟩,
    ⟨1, by simp, fun n rest => (lexF_punct canon n rest).2.2.1⟩, ⟨1, by simp, fun n rest => (lexF_punct canon n rest).2.2.2.1⟩,
    ⟨1, by simp, fun n rest => (lexF_punct canon n rest).2.2.2.2.1⟩, ⟨1, by simp, fun n rest => (lexF_punct canon n rest).2.2.2.2.2⟩⟩

theorem lexA_quote (canon : List Char → Option (List Char)) (t : Esc) (s : List Char) (h : StrOK t s) :
    LexA canon (quote t s) [.str s] := by
  refine ⟨1, by simp [quote], ?_⟩
  intro n rest
  have := lexF_str canon t s h n rest
  simpa [quote, List.append_assoc] using this

theorem lexD_encS (canon : List Char → Option (List Char)) (t : Esc) (j : JS) (hp : PrintableV t canon j) :
    LexD canon (encS t canon j) (toksS j) :=
  ⟨(toksS j).length, toksS_le t canon j hp, fun n rest hd => lex_encS t canon j hp n rest hd⟩

theorem lb_ws (lb : LB) : ∀ c ∈ lb.chars, isWs c = true := by
  cases lb <;> (intro c hc; simp [LB.chars] at hc; rcases hc with rfl | rfl <;> decide) <;> skip

theorem lb_head (lb : LB) : ∃ c cs, lb.chars = c :: cs ∧ Stop c := by
  cases lb with
  | lf => exact ⟨'\n', [], rfl, Or.inr (Or.inr (Or.inr (Or.inl rfl)))⟩
  | crlf => exact ⟨'\r', ['\n'], rfl, Or.inr (Or.inr (Or.inr (Or.inr rfl)))⟩
  | cr => exact ⟨'\r', [], rfl, Or.inr (Or.inr (Or.inr (Or.inr rfl)))⟩

theorem indent_ws (d : Nat) : ∀ c ∈ indent d, isWs c = true := by
  intro c hc
  simp only [indent, List.mem_replicate] at hc
  rw [hc.2]; decide

/-- after a value: the line break, the indentation, and a closing character -/
theorem lexA_close (canon : List Char → Option (List Char)) (lb : LB) (d : Nat) (c : Char) (tok : Tok)
    (hc : LexA canon [c] [tok]) : ∃ x xs, lb.chars ++ indent d ++ [c] = x :: xs ∧ Stop x ∧ LexA canon (x :: xs) [tok] := by
  obtain ⟨x, xs, hx, hs⟩ := lb_head lb
  refine ⟨x, xs ++ indent d ++ [c], by simp [hx], hs, ?_⟩
  have h1 := lexA_append (lexA_append (lexA_ws canon lb.chars (lb_ws lb)) (lexA_ws canon (indent d) (indent_ws d))) hc
  simpa [hx] using h1

mutual
theorem pretty_lexS (t : Esc) (canon : List Char → Option (List Char)) (lb : LB) :
    ∀ (j : JS) (d : Nat), PrintableV t canon j → LexD canon (prettyS t canon lb.chars d j) (toksS j)
  | .null, d, hp => by simpa [prettyS] using lexD_encS canon t .null hp
  | .bool b, d, hp => by simpa [prettyS] using lexD_encS canon t (.bool b) hp
  | .str s, d, hp => by simpa [prettyS] using lexD_encS canon t (.str s) hp
  | .num a, d, hp => by simpa [prettyS] using lexD_encS canon t (.num a) hp
  | .arr [], d, _ => by
    have := lexA_append (lexA_char canon).2.2.1 (lexA_char canon).2.2.2.1
    simpa [prettyS, toksS, toksItems] using this.toD
  | .arr (x :: xs), d, hp => by
    simp only [PrintableV] at hp
    have hitems := pretty_lexItems t canon lb (x :: xs) (d + 1) hp (by simp)
    obtain ⟨c, cs, hcs, hstop, hclose⟩ := lexA_close canon lb d ']' .rbrack (lexA_char canon).2.2.2.1
    have h1 := lexDA_append c cs hstop hitems hclose
    have h2 := lexA_append (lexA_append (lexA_char canon).2.2.1 (lexA_ws canon lb.chars (lb_ws lb))) h1
    have e : prettyS t canon lb.chars d (.arr (x :: xs))
        = (['['] ++ lb.chars) ++ (prettyItems t canon lb.chars (d + 1) (x :: xs) ++ c :: cs) := by
      rw [← hcs]; simp [prettyS, List.append_assoc]
    rw [e]
    simpa [toksS, List.append_assoc] using h2.toD
  | .obj ms, d, hp => by
    simp only [PrintableV] at hp
    obtain ⟨c, cs, hcs, hstop, hclose⟩ := lexA_close canon lb d '}' .rbrace (lexA_char canon).2.1
    have e : prettyS t canon lb.chars d (.obj ms)
        = (['{'] ++ lb.chars) ++ (prettyMembers t canon lb.chars (d + 1) ms ++ c :: cs) := by
      rw [← hcs]; simp [prettyS, List.append_assoc]
    rw [e]
    cases ms with
    | nil =>
      have h2 := lexA_append (lexA_append (lexA_char canon).1 (lexA_ws canon lb.chars (lb_ws lb))) hclose
      simpa [prettyMembers, toksS, toksMembers] using h2.toD
    | cons m ms =>
      have hmem := pretty_lexMembers t canon lb (m :: ms) (d + 1) hp (by simp)
      have h1 := lexDA_append c cs hstop hmem hclose
      have h2 := lexA_append (lexA_append (lexA_char canon).1 (lexA_ws canon lb.chars (lb_ws lb))) h1
      simpa [toksS, List.append_assoc] using h2.toD

theorem pretty_lexItems (t : Esc) (canon : List Char → Option (List Char)) (lb : LB) :
    ∀ (is : List JS) (d : Nat), PrintableL t canon is → is ≠ [] →
      LexD canon (prettyItems t canon lb.chars d is) (toksItems is)
  | [], _, _, h => absurd rfl h
  | [x], d, hp, _ => by
    simp only [PrintableL] at hp
    have := lexAD_append (lexA_ws canon (indent d) (indent_ws d)) (pretty_lexS t canon lb x d hp.1)
    simpa [prettyItems, toksItems] using this
  | x :: y :: xs, d, hp, _ => by
    simp only [PrintableL] at hp
    have hx := pretty_lexS t canon lb x d hp.1
    have hrest := pretty_lexItems t canon lb (y :: xs) d (by simp only [PrintableL]; exact hp.2) (by simp)
    -- ',' lb rest
    have hsep : LexD canon (',' :: (lb.chars ++ prettyItems t canon lb.chars d (y :: xs))) (.comma :: toksItems (y :: xs)) := by
      have := lexAD_append (lexA_append (lexA_char canon).2.2.2.2.2 (lexA_ws canon lb.chars (lb_ws lb))) hrest
      simpa using this
    obtain ⟨k1, hk1, h1⟩ := hx
    obtain ⟨k2, hk2, h2⟩ := hsep
    have hind := lexA_ws canon (indent d) (indent_ws d)
    have hmid : LexD canon (prettyS t canon lb.chars d x ++ ',' :: (lb.chars ++ prettyItems t canon lb.chars d (y :: xs)))
        (toksS x ++ .comma :: toksItems (y :: xs)) := by
      refine ⟨k2 + k1, by simp at hk2 ⊢; omega, ?_⟩
      intro n rest hd
      have h2' := h2 n rest hd
      rw [List.cons_append] at h2'
      rw [← Nat.add_assoc, List.append_assoc, List.cons_append, h1 _ _ (delim_cons ',' _ (Or.inl rfl)), h2', prepend_prepend]
    have := lexAD_append hind hmid
    simpa [prettyItems, toksItems, List.append_assoc] using this

theorem pretty_lexMembers (t : Esc) (canon : List Char → Option (List Char)) (lb : LB) :
    ∀ (ms : List (List Char × JS)) (d : Nat), PrintableM t canon ms → ms ≠ [] →
      LexD canon (prettyMembers t canon lb.chars d ms) (toksMembers ms)
  | [], _, _, h => absurd rfl h
  | [(k, v)], d, hp, _ => by
    simp only [PrintableM] at hp
    have hkey := lexA_append (lexA_append (lexA_append (lexA_ws canon (indent d) (indent_ws d)) (lexA_quote canon t k hp.1))
      (lexA_char canon).2.2.2.2.1) (lexA_ws canon [' '] (by decide))
    have := lexAD_append hkey (pretty_lexS t canon lb v d hp.2.1)
    simpa [prettyMembers, toksMembers, List.append_assoc] using this
  | (k, v) :: m2 :: ms, d, hp, _ => by
    simp only [PrintableM] at hp
    have hkey := lexA_append (lexA_append (lexA_append (lexA_ws canon (indent d) (indent_ws d)) (lexA_quote canon t k hp.1))
      (lexA_char canon).2.2.2.2.1) (lexA_ws canon [' '] (by decide))
    have hv := pretty_lexS t canon lb v d hp.2.1
    have hrest := pretty_lexMembers t canon lb (m2 :: ms) d hp.2.2 (by simp)
    have hsep : LexD canon (',' :: (lb.chars ++ prettyMembers t canon lb.chars d (m2 :: ms))) (.comma :: toksMembers (m2 :: ms)) := by
      have := lexAD_append (lexA_append (lexA_char canon).2.2.2.2.2 (lexA_ws canon lb.chars (lb_ws lb))) hrest
      simpa using this
    obtain ⟨k1, hk1, h1⟩ := hv
    obtain ⟨k2, hk2, h2⟩ := hsep
    have hmid : LexD canon (prettyS t canon lb.chars d v ++ ',' :: (lb.chars ++ prettyMembers t canon lb.chars d (m2 :: ms)))
        (toksS v ++ .comma :: toksMembers (m2 :: ms)) := by
      refine ⟨k2 + k1, by simp at hk2 ⊢; omega, ?_⟩
      intro n rest hd
      have h2' := h2 n rest hd
      rw [List.cons_append] at h2'
      rw [← Nat.add_assoc, List.append_assoc, List.cons_append, h1 _ _ (delim_cons ',' _ (Or.inl rfl)), h2', prepend_prepend]
    have := lexAD_append hkey hmid
    simpa [prettyMembers, toksMembers, List.append_assoc] using this
end

/-- a text that scans to `toks` before a delimiter, followed by line breaks, scans to `toks` -/
theorem lex_of_lexD (canon : List Char → Option (List Char)) (txt : List Char) (toks : List Tok) (h : LexD canon txt toks)
    (w : List Char) (hw : ∀ c ∈ w, c = '\n' ∨ c = '\r') : lex canon (txt ++ w) = .ok toks := by
  obtain ⟨k, hk, h⟩ := h
  have hd : Delim w := by
    intro c cs e
    rcases hw c (by simp [e]) with h | h
    · exact Or.inr (Or.inr (Or.inr (Or.inl h)))
    · exact Or.inr (Or.inr (Or.inr (Or.inr h)))
  have hws : ∀ c ∈ w, isWs c = true := by
    intro c hc
    rcases hw c hc with rfl | rfl <;> decide
  unfold lex
  have e : (txt ++ w).length + 1 = ((txt.length - k) + w.length + 1) + k := by
    simp only [List.length_append]; omega
  rw [e, h _ w hd, lexF_ws_only canon w hws]
  simp [prepend]

end Csvq.Json
