/-
  Lemmas for Csvq.Model.FormatFloat: the digit loop of strconv's readFloat on a printed decimal
  ("digits . digits"), the value of the exact decimal expansion of a double, the bytes of the layouts.
-/
import Csvq.Model.FormatFloat
import Csvq.Lemmas.ParseFloat
import Csvq.Lemmas.Text
namespace Csvq
namespace FF
open PF FVal

def IsDig (b : Nat) : Prop := 48 ≤ b ∧ b ≤ 57

/-! ### printed digits -/

theorem decNat_digits (n : Nat) : ∀ b ∈ decNat n, IsDig b := by
  intro b hb
  rcases natDigits_bytes n (n + 1) [] (by omega) b hb with h | h
  · exact h
  · simp at h

theorem decNat_head (n : Nat) : ∃ h t, decNat n = h :: t ∧ IsDig h := by
  obtain ⟨h, t, e, h1, h2⟩ := natDigits_head n (n + 1) [] (by omega)
  exact ⟨h, t, e, h1, h2⟩

theorem decNat_ne_nil (n : Nat) : decNat n ≠ [] := by
  obtain ⟨h, t, e, _⟩ := decNat_head n
  rw [e]; simp

theorem parseDigits_decNat (n : Nat) : parseDigits (decNat n) 0 = some n := by
  unfold decNat
  rw [parseDigits_natDigits n (n + 1) [] (by omega)]; rfl

theorem padDigits_digits : ∀ (w v : Nat) (acc : Bytes), (∀ b ∈ acc, IsDig b) → ∀ b ∈ padDigits w v acc, IsDig b := by
  intro w
  induction w with
  | zero => intro v acc h b hb; exact h b hb
  | succ w ih =>
    intro v acc h b hb
    unfold padDigits at hb
    apply ih (v / 10) ((48 + v % 10) :: acc) _ b hb
    intro c hc
    rcases List.mem_cons.mp hc with rfl | hc
    · unfold IsDig; omega
    · exact h c hc

theorem padDigits_length : ∀ (w v : Nat) (acc : Bytes), (padDigits w v acc).length = w + acc.length := by
  intro w
  induction w with
  | zero => intro v acc; simp [padDigits]
  | succ w ih => intro v acc; unfold padDigits; rw [ih]; simp; omega

/-- reading `w` printed digits of v < 10^w appends them to the number read so far -/
theorem parseDigits_padDigits : ∀ (w v : Nat) (acc : Bytes) (m : Nat), v < 10 ^ w →
    parseDigits (padDigits w v acc) m = parseDigits acc (m * 10 ^ w + v) := by
  intro w
  induction w with
  | zero => intro v acc m hv; simp at hv; subst hv; simp [padDigits]
  | succ w ih =>
    intro v acc m hv
    unfold padDigits
    have hv' : v / 10 < 10 ^ w := by
      rw [Nat.pow_succ] at hv
      exact Nat.div_lt_of_lt_mul (by rw [Nat.mul_comm]; exact hv)
    rw [ih (v / 10) _ m hv']
    have hd : 48 ≤ 48 + v % 10 ∧ 48 + v % 10 ≤ 57 := by omega
    simp only [parseDigits, hd, and_self, if_true]
    congr 1
    rw [Nat.pow_succ, ← Nat.mul_assoc]
    generalize m * 10 ^ w = q
    omega

/-! ### the digit loop of readFloat, digit by digit -/

/-- one decimal digit in the loop of readFloat -/
def digStep (st : Scan) (c : Nat) : Scan :=
  if c = 48 ∧ st.nd = 0 then { st with sawdigits := true, dp := st.dp - 1 }
  else { st with sawdigits := true, nd := st.nd + 1, mant := st.mant * 10 + (c - 48) }

theorem scanMant_cons_digit (c : Nat) (cs : Bytes) (st : Scan) (hc : IsDig c) :
    scanMant false (c :: cs) st = scanMant false cs (digStep st c) := by
  unfold IsDig at hc
  have hdig : isDigit c = true := (isDigit_iff c).2 hc
  have h95 : ¬ c = 95 := by omega
  have h46 : ¬ c = 46 := by omega
  conv => lhs; unfold scanMant
  rw [if_neg h95, if_neg h46, if_pos hdig]
  by_cases hz : c = 48 ∧ st.nd = 0
  · rw [if_pos hz]; unfold digStep; rw [if_pos hz]
  · rw [if_neg hz]; unfold digStep; rw [if_neg hz]; simp

theorem scanMant_digits_append (ds r : Bytes) : ∀ (st : Scan), (∀ c ∈ ds, IsDig c) →
    scanMant false (ds ++ r) st = scanMant false r (ds.foldl digStep st) := by
  induction ds with
  | nil => intro st _; rfl
  | cons c cs ih =>
    intro st h
    have hc : IsDig c := h c (by simp)
    have hcs : ∀ x ∈ cs, IsDig x := fun x hx => h x (by simp [hx])
    show scanMant false (c :: (cs ++ r)) st = _
    rw [scanMant_cons_digit c _ st hc, ih _ hcs]
    rfl

theorem scanMant_dot (r : Bytes) (st : Scan) (h : st.sawdot = false) :
    scanMant false (46 :: r) st = scanMant false r { st with sawdot := true, dp := st.nd } := by
  conv => lhs; unfold scanMant
  simp [h]

/-- what the loop knows after a run of digits -/
structure FoldOK (st st' : Scan) (v len : Nat) : Prop where
  mant : st'.mant = v
  inv : ScanInv st'
  upper : st'.mant < 10 ^ st'.nd
  dot : st'.sawdot = st.sawdot
  us : st'.underscores = st.underscores
  saw : (0 < len ∨ st.sawdigits = true) → st'.sawdigits = true
  shift : (st'.nd : Int) - st'.dp = (st.nd : Int) - st.dp + len

theorem fold_digits (ds : Bytes) : ∀ (st : Scan) (v : Nat), parseDigits ds st.mant = some v → ScanInv st →
    st.mant < 10 ^ st.nd → FoldOK st (ds.foldl digStep st) v ds.length := by
  induction ds with
  | nil =>
    intro st v h hi hu
    have : st.mant = v := by simpa [parseDigits] using h
    exact ⟨this, hi, hu, rfl, rfl, by intro h; rcases h with h | h; exact absurd h (by simp); exact h, by simp⟩
  | cons c cs ih =>
    intro st v h hi hu
    have hc := parseDigits_head_digit c cs _ v h
    unfold parseDigits at h
    rw [if_pos hc] at h
    simp only [List.foldl_cons]
    by_cases hz : c = 48 ∧ st.nd = 0
    · have hm : st.mant = 0 := hi.1 hz.2
      have e : digStep st c = { st with sawdigits := true, dp := st.dp - 1 } := by unfold digStep; rw [if_pos hz]
      rw [e]
      have h' : parseDigits cs ({ st with sawdigits := true, dp := st.dp - 1 } : Scan).mant = some v := by
        simpa [hm, hz.1] using h
      have r := ih _ v h' hi hu
      refine ⟨r.mant, r.inv, r.upper, r.dot, r.us, fun _ => r.saw (Or.inr rfl), ?_⟩
      have := r.shift
      simp only [List.length_cons] at this ⊢
      omega
    · have e : digStep st c = { st with sawdigits := true, nd := st.nd + 1, mant := st.mant * 10 + (c - 48) } := by
        unfold digStep; rw [if_neg hz]
      rw [e]
      have hinv : ScanInv { st with sawdigits := true, nd := st.nd + 1, mant := st.mant * 10 + (c - 48) } := by
        constructor
        · intro h0; simp at h0
        · intro _
          simp only [Nat.add_sub_cancel]
          by_cases hn : st.nd = 0
          · have hm := hi.1 hn
            have hc48 : c ≠ 48 := fun hc' => hz ⟨hc', hn⟩
            simp [hn, hm]; omega
          · have := hi.2 (Nat.pos_of_ne_zero hn)
            have e2 : st.nd = (st.nd - 1) + 1 := by omega
            rw [e2, Nat.pow_succ]
            simp; omega
      have hup : ({ st with sawdigits := true, nd := st.nd + 1, mant := st.mant * 10 + (c - 48) } : Scan).mant
          < 10 ^ ({ st with sawdigits := true, nd := st.nd + 1, mant := st.mant * 10 + (c - 48) } : Scan).nd := by
        show st.mant * 10 + (c - 48) < 10 ^ (st.nd + 1)
        rw [Nat.pow_succ]; omega
      have r := ih _ v h hinv hup
      refine ⟨r.mant, r.inv, r.upper, r.dot, r.us, fun _ => r.saw (Or.inr rfl), ?_⟩
      have := r.shift
      simp only [List.length_cons] at this ⊢
      simp only [Int.natCast_add, Int.natCast_one] at this
      omega


theorem parseDigits_all_digits (ds : Bytes) : ∀ (acc v : Nat), parseDigits ds acc = some v → ∀ c ∈ ds, IsDig c := by
  induction ds with
  | nil => intro _ _ _ c hc; simp at hc
  | cons d ds ih =>
    intro acc v h c hc
    have hd := parseDigits_head_digit d ds acc v h
    unfold parseDigits at h
    rw [if_pos hd] at h
    rcases List.mem_cons.mp hc with rfl | hc
    · exact hd
    · exact ih _ v h c hc

/-- the loop of readFloat on "digits . digits" -/
theorem scan_point (ds1 ds2 : Bytes) (i m : Nat) (h1 : parseDigits ds1 0 = some i)
    (h2 : parseDigits ds2 i = some m) (hne : ds1 ≠ []) :
    ∃ st, scanMant false (ds1 ++ 46 :: ds2) {} = (st, []) ∧ st.mant = m ∧ st.sawdot = true
      ∧ st.underscores = false ∧ st.sawdigits = true ∧ (st.nd : Int) - st.dp = ds2.length
      ∧ ScanInv st ∧ st.mant < 10 ^ st.nd := by
  have hd1 := parseDigits_all_digits ds1 0 i h1
  have hd2 := parseDigits_all_digits ds2 i m h2
  have F1 := fold_digits ds1 {} i h1 scanInv_init (by decide)
  rw [scanMant_digits_append ds1 _ {} hd1, scanMant_dot _ _ F1.dot]
  have hlen : 0 < ds1.length := List.length_pos_iff.mpr hne
  have F2 := fold_digits ds2 { (ds1.foldl digStep {}) with sawdot := true, dp := (ds1.foldl digStep {}).nd } m
    (by show parseDigits ds2 (ds1.foldl digStep {}).mant = some m; rw [F1.mant]; exact h2)
    ⟨F1.inv.1, F1.inv.2⟩ F1.upper
  refine ⟨_, ?_, F2.mant, F2.dot, ?_, F2.saw (Or.inr (F1.saw (Or.inl hlen))), ?_, F2.inv, F2.upper⟩
  · have := scanMant_digits_append ds2 [] { (ds1.foldl digStep {}) with sawdot := true, dp := (ds1.foldl digStep {}).nd } hd2
    rw [List.append_nil] at this
    rw [this]; rfl
  · rw [F2.us]; exact F1.us
  · have := F2.shift
    simp only [Int.sub_self, Int.zero_add] at this
    exact this

theorem stripHex_small (t : Bytes) (h : ∀ b ∈ t, b ≤ 57) : stripHex t = (false, t) := by
  unfold stripHex
  split
  · rename_i x y r
    have hx : x ≤ 57 := h x (by simp)
    have : lowerB x = x := by unfold lowerB; rw [if_neg (by omega)]
    rw [this, if_neg (by omega)]
  · rfl

/-- readFloat on an optionally signed "digits . digits" -/
theorem readFloat_point (neg : Bool) (ds1 ds2 : Bytes) (i m : Nat) (h1 : parseDigits ds1 0 = some i)
    (h2 : parseDigits ds2 i = some m) (hne : ds1 ≠ []) :
    special (signB neg (ds1 ++ 46 :: ds2)) = none ∧
    ∃ N : Nat, readFloat (signB neg (ds1 ++ 46 :: ds2))
        = some { neg := neg, hex := false, mant := m, nd := N, dp := (N : Int) - ds2.length }
      ∧ (0 < N → 10 ^ (N - 1) ≤ m) ∧ m < 10 ^ N := by
  have hd1 := parseDigits_all_digits ds1 0 i h1
  have hd2 := parseDigits_all_digits ds2 i m h2
  obtain ⟨st, e, hm, hdot, hus, hsd, hsh, hinv, hup⟩ := scan_point ds1 ds2 i m h1 h2 hne
  have hsmall : ∀ b ∈ ds1 ++ 46 :: ds2, b ≤ 57 := by
    intro b hb
    rcases List.mem_append.mp hb with hb | hb
    · exact (hd1 b hb).2
    · rcases List.mem_cons.mp hb with rfl | hb
      · omega
      · exact (hd2 b hb).2
  have hhex := stripHex_small _ hsmall
  have hbody : ∀ s, readBody s neg false (ds1 ++ 46 :: ds2)
      = some { neg := neg, hex := false, mant := m, nd := st.nd, dp := (st.nd : Int) - ds2.length } := by
    intro s
    unfold readBody
    rw [e]
    have hdp : st.dp = (st.nd : Int) - ds2.length := by omega
    simp [hsd, hdot, hus, hm, hdp]
  cases ds1 with
  | nil => exact absurd rfl hne
  | cons c cs =>
    have hc : IsDig c := hd1 c (by simp)
    have hsp := special_digit c (cs ++ 46 :: ds2) hc
    refine ⟨?_, st.nd, ?_, by rw [← hm]; exact hinv.2, by rw [← hm]; exact hup⟩
    · cases neg
      · exact hsp.1
      · exact hsp.2.2
    · unfold readFloat
      cases neg
      · have hss : stripSign (signB false (c :: cs ++ 46 :: ds2)) = (false, c :: cs ++ 46 :: ds2) :=
          stripSign_digit c (cs ++ 46 :: ds2) hc
        rw [hss]
        simp only [hhex]
        exact hbody _
      · have hss : stripSign (signB true (c :: cs ++ 46 :: ds2)) = (true, c :: cs ++ 46 :: ds2) := rfl
        rw [hss]
        simp only [hhex]
        exact hbody _

/-! ### the exact decimal expansion reads back -/

theorem roundMag_some_lt (a d n : Nat) (h : roundMag a d = some n) : n < overflowAt := by
  unfold roundMag at h
  simp only [] at h
  repeat' (split at h)
  all_goals first | (injection h with h; subst h; omega) | (cases h)

theorem five_two_pow : (5 : Nat) ^ 1074 * 2 ^ 1074 = 10 ^ 1074 := by
  rw [← Nat.mul_pow]

theorem exact_digits (a : Nat) :
    parseDigits (decNat (a / 2 ^ 1074)) 0 = some (a / 2 ^ 1074) ∧
    parseDigits (padDigits 1074 (a % 2 ^ 1074 * 5 ^ 1074) []) (a / 2 ^ 1074) = some (a * 5 ^ 1074) := by
  refine ⟨parseDigits_decNat _, ?_⟩
  have hlt : a % 2 ^ 1074 * 5 ^ 1074 < 10 ^ 1074 := by
    rw [← five_two_pow, Nat.mul_comm]
    exact Nat.mul_lt_mul_of_pos_left (Nat.mod_lt _ (Nat.pow_pos (by decide))) (Nat.pow_pos (by decide))
  rw [parseDigits_padDigits 1074 _ [] _ hlt]
  have key : ∀ (q r t f a : Nat), t * q + r = a → q * (f * t) + r * f = a * f := by
    intro q r t f a h; subst h
    rw [Nat.add_mul, Nat.mul_comm t q, Nat.mul_assoc, Nat.mul_comm t f]
  rw [← five_two_pow]
  exact congrArg some (key _ _ _ _ _ (Nat.div_add_mod a (2 ^ 1074)))

/-- readFloat on the exact expansion: the mantissa is a·5^1074 with the point 1074 places from the right -/
theorem readFloat_exact (neg : Bool) (a : Nat) :
    special (signB neg (exactText a)) = none ∧
    ∃ N : Nat, readFloat (signB neg (exactText a))
        = some { neg := neg, hex := false, mant := a * 5 ^ 1074, nd := N, dp := (N : Int) - 1074 }
      ∧ (0 < N → 10 ^ (N - 1) ≤ a * 5 ^ 1074) ∧ a * 5 ^ 1074 < 10 ^ N := by
  obtain ⟨h1, h2⟩ := exact_digits a
  have := readFloat_point neg _ _ _ _ h1 h2 (decNat_ne_nil _)
  rw [padDigits_length] at this
  exact this

theorem value_exact (neg : Bool) (a N : Nat) (ha : 0 < a) (hd : roundMag a 1 = some a)
    (hlo : 0 < N → 10 ^ (N - 1) ≤ a * 5 ^ 1074) (hhi : a * 5 ^ 1074 < 10 ^ N) :
    Parsed.value { neg := neg, hex := false, mant := a * 5 ^ 1074, nd := N, dp := (N : Int) - 1074 }
      = some (signed neg (some a)) := by
  have halt : a < 2 ^ 2098 := roundMag_some_lt a 1 a hd
  have h5 : 0 < (5 : Nat) ^ 1074 := Nat.pow_pos (by decide)
  have hM : a * 5 ^ 1074 < 10 ^ 1383 := by
    calc a * 5 ^ 1074 < 2 ^ 2098 * 5 ^ 1074 := Nat.mul_lt_mul_of_pos_right halt h5
      _ = 2 ^ 1024 * 10 ^ 1074 := by
          rw [show (2098 : Nat) = 1024 + 1074 from rfl, Nat.pow_add, Nat.mul_assoc, Nat.mul_comm (2 ^ 1074), five_two_pow]
      _ < 10 ^ 309 * 10 ^ 1074 := Nat.mul_lt_mul_of_pos_right (by decide +kernel) (Nat.pow_pos (by decide))
      _ = 10 ^ 1383 := by rw [← Nat.pow_add]
  have hN1 : N ≤ 1383 := by
    by_cases h0 : 0 < N
    · have h := Nat.lt_of_le_of_lt (hlo h0) hM
      have := (Nat.pow_lt_pow_iff_right (by decide : 1 < 10)).mp h
      omega
    · omega
  have hN2 : 750 < N := by
    have h750 : (10 : Nat) ^ 750 ≤ 5 ^ 1074 := by decide +kernel
    have h1 : 5 ^ 1074 ≤ a * 5 ^ 1074 := Nat.le_mul_of_pos_left _ ha
    have h := Nat.lt_of_le_of_lt (Nat.le_trans h750 h1) hhi
    exact (Nat.pow_lt_pow_iff_right (by decide : 1 < 10)).mp h
  have hm0 : ¬ a * 5 ^ 1074 = 0 := Nat.ne_of_gt (Nat.mul_pos ha h5)
  unfold Parsed.value
  simp only [hm0, if_false, Bool.false_eq_true]
  have e1 : ¬ ((N : Int) - 1074 > 310) := by omega
  have e2 : ¬ ((N : Int) - 1074 < -330) := by omega
  have e3 : ¬ ((N : Int) - 1074 - (N : Int) ≥ 0) := by omega
  have e4 : (-((N : Int) - 1074 - (N : Int))).toNat = 1074 := by
    have : (N : Int) - 1074 - (N : Int) = -1074 := by omega
    rw [this]; rfl
  simp only [e1, e2, e3, e4, if_false]
  have hu : a * 5 ^ 1074 * unit = a * 10 ^ 1074 := by
    unfold unit pow2; rw [Nat.mul_assoc, five_two_pow]
  rw [hu, roundMag_scale a _ (Nat.pow_pos (by decide)), hd]

/-- **the exact decimal expansion of a binary64 value reads back as that value** -/
theorem parseFloat_exact (neg : Bool) (a : Nat) (ha : 0 < a) (hd : roundMag a 1 = some a) :
    parseFloat (signB neg (exactText a)) = some (signed neg (some a)) := by
  obtain ⟨hsp, N, hr, hlo, hhi⟩ := readFloat_exact neg a
  unfold parseFloat
  rw [hsp]
  simp only [hr]
  exact value_exact neg a N ha hd hlo hhi


/-! ### the bytes of the layouts -/

/-- digits, point, exponent letter, signs -/
def NumByte (b : Nat) : Prop := IsDig b ∨ b = 46 ∨ b = 101 ∨ b = 45 ∨ b = 43

/-- the text begins with a decimal digit -/
def HeadDig (t : Bytes) : Prop := ∃ c r, t = c :: r ∧ IsDig c

theorem zeros_digits (k : Nat) : ∀ b ∈ zeros k, IsDig b := by
  intro b hb
  have := List.eq_of_mem_replicate hb
  subst this; unfold IsDig; omega

theorem decNat_headDig (n : Nat) : HeadDig (decNat n) := by
  obtain ⟨h, t, e, hd⟩ := decNat_head n
  exact ⟨h, t, e, hd⟩

theorem layF_bytes (ds : Bytes) (e : Int) (h : ∀ b ∈ ds, IsDig b) : ∀ b ∈ layF ds e, IsDig b ∨ b = 46 := by
  intro b hb
  unfold layF at hb
  split at hb
  · rcases List.mem_append.mp hb with hb | hb
    · exact Or.inl (h b hb)
    · exact Or.inl (zeros_digits _ b hb)
  · simp only [] at hb
    split at hb
    · rcases List.mem_append.mp hb with hb | hb
      · exact Or.inl (h b (List.mem_of_mem_take hb))
      · rcases List.mem_cons.mp hb with rfl | hb
        · exact Or.inr rfl
        · exact Or.inl (h b (List.mem_of_mem_drop hb))
    · rcases List.mem_cons.mp hb with rfl | hb
      · left; unfold IsDig; omega
      · rcases List.mem_cons.mp hb with rfl | hb
        · exact Or.inr rfl
        · rcases List.mem_append.mp hb with hb | hb
          · exact Or.inl (zeros_digits _ b hb)
          · exact Or.inl (h b hb)

theorem layF_head (ds : Bytes) (e : Int) (h : HeadDig ds) : HeadDig (layF ds e) := by
  obtain ⟨c, cs, rfl, hc⟩ := h
  unfold layF
  split
  · exact ⟨c, cs ++ zeros e.toNat, rfl, hc⟩
  · simp only []
    split
    · rename_i hdp
      obtain ⟨k, hk⟩ : ∃ k, (((c :: cs).length : Int) + e).toNat = k + 1 := ⟨(((c :: cs).length : Int) + e).toNat - 1, by omega⟩
      rw [hk]
      exact ⟨c, _, rfl, hc⟩
    · exact ⟨48, _, rfl, by unfold IsDig; omega⟩

theorem expDigits_digits (x : Nat) : ∀ b ∈ expDigits x, IsDig b := by
  intro b hb
  unfold expDigits at hb
  split at hb
  · simp only [List.mem_cons, List.not_mem_nil, or_false] at hb
    rcases hb with rfl | rfl <;> (unfold IsDig; omega)
  · exact decNat_digits x b hb

theorem layE_bytes (ds : Bytes) (e : Int) (h : ∀ b ∈ ds, IsDig b) : ∀ b ∈ layE ds e, NumByte b := by
  intro b hb
  unfold layE at hb
  simp only [] at hb
  rcases List.mem_append.mp hb with hb | hb
  · split at hb
    · simp only [List.mem_cons, List.not_mem_nil, or_false] at hb
      subst hb; left; unfold IsDig; omega
    · exact Or.inl (h b hb)
    · rename_i d rest _
      rcases List.mem_cons.mp hb with rfl | hb
      · exact Or.inl (h b (by simp))
      · rcases List.mem_cons.mp hb with rfl | hb
        · exact Or.inr (Or.inl rfl)
        · exact Or.inl (h b (by simp [hb]))
  · rcases List.mem_cons.mp hb with rfl | hb
    · exact Or.inr (Or.inr (Or.inl rfl))
    · rcases List.mem_cons.mp hb with rfl | hb
      · split
        · exact Or.inr (Or.inr (Or.inr (Or.inl rfl)))
        · exact Or.inr (Or.inr (Or.inr (Or.inr rfl)))
      · exact Or.inl (expDigits_digits _ b hb)

theorem layE_head (ds : Bytes) (e : Int) (h : HeadDig ds) : HeadDig (layE ds e) := by
  obtain ⟨c, cs, rfl, hc⟩ := h
  unfold layE
  cases cs with
  | nil => exact ⟨c, _, rfl, hc⟩
  | cons d r => exact ⟨c, _, rfl, hc⟩

theorem layG_bytes (ds : Bytes) (e : Int) (h : ∀ b ∈ ds, IsDig b) : ∀ b ∈ layG ds e, NumByte b := by
  intro b hb
  unfold layG at hb
  simp only [] at hb
  split at hb
  · exact layE_bytes ds e h b hb
  · rcases layF_bytes ds e h b hb with h1 | h1
    · exact Or.inl h1
    · exact Or.inr (Or.inl h1)

theorem layG_head (ds : Bytes) (e : Int) (h : HeadDig ds) : HeadDig (layG ds e) := by
  unfold layG
  simp only []
  split
  · exact layE_head ds e h
  · exact layF_head ds e h

theorem exactText_bytes (a : Nat) : ∀ b ∈ exactText a, IsDig b ∨ b = 46 := by
  intro b hb
  unfold exactText at hb
  rcases List.mem_append.mp hb with hb | hb
  · exact Or.inl (decNat_digits _ b hb)
  · rcases List.mem_cons.mp hb with rfl | hb
    · exact Or.inr rfl
    · exact Or.inl (padDigits_digits _ _ [] (by simp) b hb)

theorem exactText_head (a : Nat) : HeadDig (exactText a) := by
  obtain ⟨c, r, e, hc⟩ := decNat_head (a / 2 ^ 1074)
  exact ⟨c, r ++ 46 :: padDigits 1074 (a % 2 ^ 1074 * 5 ^ 1074) [], by unfold exactText; rw [e]; rfl, hc⟩

/-- a layout of the shortest digits: begins with a digit, made of digits, point, 'e', signs -/
def GoodLay (lay : Bytes → Int → Bytes) : Prop :=
  ∀ d e, HeadDig (lay (decNat d) e) ∧ ∀ b ∈ lay (decNat d) e, NumByte b

theorem goodLay_F : GoodLay layF := fun d e =>
  ⟨layF_head _ e (decNat_headDig d), fun b hb => by
    rcases layF_bytes _ e (decNat_digits d) b hb with h | h
    · exact Or.inl h
    · exact Or.inr (Or.inl h)⟩

theorem goodLay_E : GoodLay layE := fun d e =>
  ⟨layE_head _ e (decNat_headDig d), layE_bytes _ e (decNat_digits d)⟩

theorem goodLay_G : GoodLay layG := fun d e =>
  ⟨layG_head _ e (decNat_headDig d), layG_bytes _ e (decNat_digits d)⟩

/-- "'+' followed by a digit or by '-'": the shape only the marked exact expansion has -/
def isMarked : Bytes → Bool
  | 43 :: c :: _ => c == 45 || isDigit c
  | _ => false

theorem signB_headDig_unmarked (neg : Bool) (t : Bytes) (h : HeadDig t) : isMarked (signB neg t) = false := by
  obtain ⟨c, r, rfl, hc⟩ := h
  unfold IsDig at hc
  cases neg
  · show isMarked (c :: r) = false
    have h43 : c ≠ 43 := by omega
    unfold isMarked
    split
    · rename_i heq
      injection heq with h1 _
      exact absurd h1 h43
    · rfl
  · rfl

theorem marked_exact (neg : Bool) (a : Nat) : isMarked (43 :: signB neg (exactText a)) = true := by
  obtain ⟨c, r, e, hc⟩ := exactText_head a
  rw [e]
  cases neg
  · show (c == 45 || isDigit c) = true
    rw [(isDigit_iff c).2 hc]; simp
  · rfl

end FF

namespace FVal

/-- `x` is a binary64 value: the special values, the zeros, and ±a·2^-1074 where rounding a to 53
    significant bits below 2^1024 leaves it unchanged -/
def IsDouble : FVal → Prop
  | .fin n => n = 0 ∨ roundMag n.natAbs 1 = some n.natAbs
  | _ => True

/-- every ±m·2^e·2^-1074 with m < 2^53 and e ≤ 2045 (subnormal: e = 0, m < 2^52; the largest finite
    double: m = 2^53 − 1, e = 2045) is one -/
theorem isDouble_of_mant_exp (neg : Bool) (m e : Nat) (hm : m < 2 ^ 53) (he : e ≤ 2045) :
    IsDouble (.fin (if neg then -((m * 2 ^ e : Nat) : Int) else ((m * 2 ^ e : Nat) : Int))) := by
  unfold IsDouble
  by_cases h0 : m = 0
  · left; subst h0; cases neg <;> simp
  · right
    have : (if neg then -((m * 2 ^ e : Nat) : Int) else ((m * 2 ^ e : Nat) : Int)).natAbs = m * 2 ^ e := by
      cases neg
      · simp only [Bool.false_eq_true, if_false]; exact Int.natAbs_natCast _
      · simp only [if_true]; rw [Int.natAbs_neg]; exact Int.natAbs_natCast _
    rw [this]
    exact roundMag_exact m (Nat.pos_of_ne_zero h0) hm e he

theorem signed_natAbs (n : Int) (hn : n ≠ 0) : signed (decide (n < 0)) (some n.natAbs) = .fin n := by
  have hne : n.natAbs ≠ 0 := by omega
  rw [signed_some _ _ hne]
  by_cases h : n < 0
  · have e : (n.natAbs : Int) = -n := by omega
    simp only [h, decide_true, if_true]; rw [e, Int.neg_neg]
  · have e : (n.natAbs : Int) = n := by omega
    simp only [h, decide_false, Bool.false_eq_true, if_false]; rw [e]

end FVal
end Csvq

namespace Csvq
namespace FF
open PF FVal

/-! ### every text reads back, or is the marked exact expansion of something that is no binary64 value -/

theorem fallback_roundtrip (n : Int) (hn : n ≠ 0) (hd : roundMag n.natAbs 1 = some n.natAbs) :
    parseFloat (fallback n) = some (.fin n) := by
  have hex : parseFloat (signB (decide (n < 0)) (exactText n.natAbs)) = some (.fin n) := by
    rw [parseFloat_exact _ _ (by omega) hd, signed_natAbs n hn]
  unfold fallback
  simp only []
  rw [if_pos hex]; exact hex

theorem render_roundtrip (lay : Bytes → Int → Bytes) (n : Int) (hn : n ≠ 0)
    (hd : roundMag n.natAbs 1 = some n.natAbs) : parseFloat (render lay n) = some (.fin n) := by
  unfold render
  split
  · simp only []
    split
    · assumption
    · exact fallback_roundtrip n hn hd
  · exact fallback_roundtrip n hn hd

theorem fallback_cases (n : Int) :
    (parseFloat (fallback n) = some (.fin n) ∧ isMarked (fallback n) = false)
    ∨ fallback n = 43 :: signB (decide (n < 0)) (exactText n.natAbs) := by
  unfold fallback
  simp only []
  split
  · rename_i h
    exact Or.inl ⟨h, signB_headDig_unmarked _ _ (exactText_head _)⟩
  · exact Or.inr rfl

theorem render_cases (lay : Bytes → Int → Bytes) (hl : GoodLay lay) (n : Int) :
    (parseFloat (render lay n) = some (.fin n) ∧ isMarked (render lay n) = false)
    ∨ render lay n = 43 :: signB (decide (n < 0)) (exactText n.natAbs) := by
  unfold render
  split
  · simp only []
    split
    · rename_i d e _ h
      exact Or.inl ⟨h, signB_headDig_unmarked _ _ (hl d e).1⟩
    · exact fallback_cases n
  · exact fallback_cases n

theorem fmtWith_fin (lay : Bytes → Int → Bytes) (zero : Bytes) (n : Int) :
    fmtWith lay zero (.fin n) = if n = 0 then zero else render lay n := rfl

theorem fmtWith_cases (lay : Bytes → Int → Bytes) (zero : Bytes) (hl : GoodLay lay)
    (hz : parseFloat zero = some (.fin 0)) (hnz : parseFloat (45 :: zero) = some .negz)
    (hzm : isMarked zero = false) (x : FVal) :
    (parseFloat (fmtWith lay zero x) = some x ∧ isMarked (fmtWith lay zero x) = false)
    ∨ ∃ n, x = .fin n ∧ fmtWith lay zero x = 43 :: signB (decide (n < 0)) (exactText n.natAbs) := by
  cases x with
  | nan => exact Or.inl ⟨by show parseFloat sNaN = some .nan; decide, by show isMarked sNaN = false; decide⟩
  | pinf => exact Or.inl ⟨by show parseFloat sPInf = some .pinf; decide, by show isMarked sPInf = false; decide⟩
  | ninf => exact Or.inl ⟨by show parseFloat sNInf = some .ninf; decide, by show isMarked sNInf = false; decide⟩
  | negz => exact Or.inl ⟨hnz, rfl⟩
  | fin n =>
    rw [fmtWith_fin]
    by_cases h0 : n = 0
    · rw [if_pos h0]; subst h0; exact Or.inl ⟨hz, hzm⟩
    · rw [if_neg h0]
      rcases render_cases lay hl n with h | h
      · exact Or.inl h
      · exact Or.inr ⟨n, rfl, h⟩

/-- the exact expansion determines sign and magnitude -/
theorem exact_inj (n m : Int)
    (h : signB (decide (n < 0)) (exactText n.natAbs) = signB (decide (m < 0)) (exactText m.natAbs)) : n = m := by
  obtain ⟨_, N1, hr1, _⟩ := readFloat_exact (decide (n < 0)) n.natAbs
  obtain ⟨_, N2, hr2, _⟩ := readFloat_exact (decide (m < 0)) m.natAbs
  rw [h, hr2] at hr1
  have hp := Option.some.inj hr1
  have hneg : decide (m < 0) = decide (n < 0) := congrArg Parsed.neg hp
  have hmant := congrArg Parsed.mant hp
  have ha : m.natAbs = n.natAbs := Nat.eq_of_mul_eq_mul_right (Nat.pow_pos (by decide)) hmant
  have hs : (m < 0) ↔ (n < 0) := decide_eq_decide.mp hneg
  omega

theorem fmtWith_injective (lay : Bytes → Int → Bytes) (zero : Bytes) (hl : GoodLay lay)
    (hz : parseFloat zero = some (.fin 0)) (hnz : parseFloat (45 :: zero) = some .negz)
    (hzm : isMarked zero = false) (x y : FVal) (h : fmtWith lay zero x = fmtWith lay zero y) : x = y := by
  rcases fmtWith_cases lay zero hl hz hnz hzm x with ⟨hx, ux⟩ | ⟨n, rfl, hx⟩
  · rcases fmtWith_cases lay zero hl hz hnz hzm y with ⟨hy, _⟩ | ⟨m, rfl, hy⟩
    · rw [h, hy] at hx; injection hx with hx; exact hx.symm
    · rw [h, hy, marked_exact] at ux; cases ux
  · rcases fmtWith_cases lay zero hl hz hnz hzm y with ⟨_, uy⟩ | ⟨m, rfl, hy⟩
    · rw [← h, hx, marked_exact] at uy; cases uy
    · rw [hx, hy] at h
      injection h with _ h
      rw [exact_inj n m h]

/-- the bytes float texts are made of -/
def FmtByte (b : Nat) : Prop :=
  IsDig b ∨ b = 45 ∨ b = 43 ∨ b = 46 ∨ b = 101 ∨ b = 78 ∨ b = 97 ∨ b = 73 ∨ b = 110 ∨ b = 102

theorem numByte_fmtByte (b : Nat) (h : NumByte b) : FmtByte b := by
  unfold FmtByte
  rcases h with h | h | h | h | h
  · exact Or.inl h
  · subst h; simp
  · subst h; simp
  · subst h; simp
  · subst h; simp

theorem signB_bytes (neg : Bool) (t : Bytes) (h : ∀ b ∈ t, FmtByte b) : ∀ b ∈ signB neg t, FmtByte b := by
  intro b hb
  cases neg
  · exact h b hb
  · rcases List.mem_cons.mp hb with rfl | hb
    · unfold FmtByte; simp
    · exact h b hb

theorem fallback_bytes (n : Int) : ∀ b ∈ fallback n, FmtByte b := by
  have hex : ∀ b ∈ signB (decide (n < 0)) (exactText n.natAbs), FmtByte b :=
    signB_bytes _ _ (fun b hb => by
      rcases exactText_bytes _ b hb with h | h
      · exact Or.inl h
      · subst h; unfold FmtByte; simp)
  intro b hb
  unfold fallback at hb
  simp only [] at hb
  split at hb
  · exact hex b hb
  · rcases List.mem_cons.mp hb with rfl | hb
    · unfold FmtByte; simp
    · exact hex b hb

theorem render_bytes (lay : Bytes → Int → Bytes) (hl : GoodLay lay) (n : Int) : ∀ b ∈ render lay n, FmtByte b := by
  intro b hb
  unfold render at hb
  split at hb
  · simp only [] at hb
    split at hb
    · rename_i d e _ _
      exact signB_bytes _ _ (fun c hc => numByte_fmtByte c ((hl d e).2 c hc)) b hb
    · exact fallback_bytes n b hb
  · exact fallback_bytes n b hb

theorem fmtWith_bytes (lay : Bytes → Int → Bytes) (zero : Bytes) (hl : GoodLay lay)
    (hzb : ∀ b ∈ zero, FmtByte b) (x : FVal) : ∀ b ∈ fmtWith lay zero x, FmtByte b := by
  intro b hb
  cases x with
  | nan =>
    have : b ∈ [78, 97, 78] := hb
    simp only [List.mem_cons, List.not_mem_nil, or_false] at this
    unfold FmtByte; omega
  | pinf =>
    have : b ∈ [43, 73, 110, 102] := hb
    simp only [List.mem_cons, List.not_mem_nil, or_false] at this
    unfold FmtByte; omega
  | ninf =>
    have : b ∈ [45, 73, 110, 102] := hb
    simp only [List.mem_cons, List.not_mem_nil, or_false] at this
    unfold FmtByte; omega
  | negz =>
    rcases List.mem_cons.mp hb with rfl | hb
    · unfold FmtByte; simp
    · exact hzb b hb
  | fin n =>
    rw [fmtWith_fin] at hb
    split at hb
    · exact hzb b hb
    · exact render_bytes lay hl n b hb

end FF
end Csvq

namespace Csvq
namespace FVal
instance (x : FVal) : Decidable x.IsDouble := by
  cases x <;> unfold IsDouble <;> infer_instance
end FVal

namespace FF
open PF FVal

/-! ### integers below 2^53 -/

theorem natDigits_acc : ∀ (n fuel : Nat) (acc : Bytes), n < fuel →
    natDigits fuel n acc = natDigits (n + 1) n [] ++ acc := by
  intro n
  induction n using Nat.strongRecOn with
  | _ n ih =>
    intro fuel acc hf
    cases fuel with
    | zero => omega
    | succ f =>
      conv => lhs; unfold natDigits
      conv => rhs; unfold natDigits
      by_cases h : n < 10
      · simp only [h, if_true]; rfl
      · simp only [h, if_false]
        rw [ih (n / 10) (by omega) f _ (by omega), ih (n / 10) (by omega) n [48 + n % 10] (by omega)]
        simp

theorem decNat_step (n : Nat) (h : 10 ≤ n) : decNat n = decNat (n / 10) ++ [48 + n % 10] := by
  unfold decNat
  conv => lhs; unfold natDigits
  rw [if_neg (by omega)]
  exact natDigits_acc (n / 10) n _ (by omega)

theorem stripZeros_spec : ∀ (f N c d z : Nat), stripZeros f N c = (d, z) → 0 < N →
    c ≤ z ∧ decNat d ++ zeros (z - c) = decNat N := by
  intro f
  induction f with
  | zero =>
    intro N c d z h _
    simp only [stripZeros, Prod.mk.injEq] at h
    obtain ⟨rfl, rfl⟩ := h
    simp [zeros]
  | succ f ih =>
    intro N c d z h hN
    unfold stripZeros at h
    by_cases hc : N ≠ 0 ∧ N % 10 = 0
    · rw [if_pos hc] at h
      obtain ⟨h1, h2⟩ := ih (N / 10) (c + 1) d z h (by omega)
      refine ⟨by omega, ?_⟩
      rw [decNat_step N (by omega), ← h2, hc.2]
      have e : z - c = (z - (c + 1)) + 1 := by omega
      rw [e]
      unfold zeros
      rw [List.replicate_succ', List.append_assoc]
    · rw [if_neg hc] at h
      simp only [Prod.mk.injEq] at h
      obtain ⟨rfl, rfl⟩ := h
      simp [zeros]

/-- the float text of an integral float below 2^53 is the integer's decimal text -/
theorem fmtF_int (i : Int) (h : i.natAbs < 2 ^ 53)
    (hp : parseFloat (decText i) = some (.fin (i * (unit : Int)))) :
    fmtF (.fin (i * (unit : Int))) = decText i := by
  show fmtWith layF [48] (.fin (i * (unit : Int))) = _
  rw [fmtWith_fin]
  by_cases h0 : i = 0
  · subst h0; rw [Int.zero_mul, if_pos rfl]; rfl
  · have hne : i * (unit : Int) ≠ 0 := Int.mul_ne_zero h0 (Int.ne_of_gt unit_int_pos)
    rw [if_neg hne]
    have habs : (i * (unit : Int)).natAbs = i.natAbs * 2 ^ 1074 := by
      rw [Int.natAbs_mul, Int.natAbs_natCast]; rfl
    have hpos : 0 < (2 : Nat) ^ 1074 := Nat.pow_pos (by decide)
    have hsign : decide (i * (unit : Int) < 0) = decide (i < 0) := decide_mul_neg i _ unit_int_pos
    cases hs : stripZeros 32 i.natAbs 0 with
    | mk d z =>
      obtain ⟨_, hz⟩ := stripZeros_spec 32 i.natAbs 0 d z hs (Int.natAbs_pos.mpr h0)
      have hdig : digitsOf (i * (unit : Int)).natAbs = some (d, (z : Int)) := by
        unfold digitsOf
        rw [habs, Nat.mul_mod_left, Nat.mul_div_cancel _ hpos, if_pos ⟨rfl, h⟩, hs]
      have hlay : layF (decNat d) (z : Int) = decNat i.natAbs := by
        unfold layF
        rw [if_pos (by omega)]
        simpa using hz
      have htext : signB (decide (i * (unit : Int) < 0)) (layF (decNat d) (z : Int)) = decText i := by
        rw [hlay, hsign]
        unfold decText signB decNat
        by_cases hneg : i < 0 <;> simp [hneg]
      unfold render
      rw [hdig]
      simp only [htext]
      rw [if_pos hp]

end FF
end Csvq

namespace Csvq
namespace FVal

theorem roundMag_some_mul (a d n : Nat) (h : roundMag a d = some n) :
    ∃ m', n = m' * pow2 ((if a / d = 0 then 0 else Nat.log2 (a / d) + 1) - 53) := by
  unfold roundMag at h
  simp only [] at h
  generalize (if a / d = 0 then 0 else Nat.log2 (a / d) + 1) - 53 = k at h ⊢
  repeat' (split at h)
  all_goals first | (injection h with h; exact ⟨_, h.symm⟩) | (cases h)

/-- a magnitude that rounding leaves unchanged has at most 53 significant bits and lies below 2^1024 -/
theorem roundMag_fix (a : Nat) (ha : 0 < a) (h : roundMag a 1 = some a) :
    ∃ m e, m < 2 ^ 53 ∧ e ≤ 2045 ∧ a = m * 2 ^ e := by
  have hlt : a < 2 ^ 2098 := FF.roundMag_some_lt a 1 a h
  obtain ⟨m', hm'⟩ := roundMag_some_mul a 1 a h
  have ha0 : ¬ a = 0 := by omega
  simp only [Nat.div_one, ha0, if_false] at hm'
  have hlog : Nat.log2 a < 2098 := (Nat.log2_lt ha0).mpr hlt
  have hself : a < 2 ^ (Nat.log2 a + 1) := Nat.lt_log2_self
  generalize hk : Nat.log2 a + 1 - 53 = k at hm'
  refine ⟨a / 2 ^ k, k, ?_, by omega, ?_⟩
  · by_cases hb : Nat.log2 a + 1 ≤ 53
    · have hk0 : k = 0 := by omega
      subst hk0
      have : (2 : Nat) ^ (Nat.log2 a + 1) ≤ 2 ^ 53 := Nat.pow_le_pow_right (by decide) hb
      simp only [Nat.pow_zero, Nat.div_one]
      omega
    · have e : Nat.log2 a + 1 = k + 53 := by omega
      rw [e, Nat.pow_add] at hself
      exact Nat.div_lt_of_lt_mul hself
  · have hd : 2 ^ k ∣ a := ⟨m', by rw [hm']; unfold pow2; rw [Nat.mul_comm]⟩
    exact (Nat.div_mul_cancel hd).symm

/-- the binary64 values among the `fin n`: exactly the ±m·2^e with m < 2^53 and e ≤ 2045 -/
theorem isDouble_fin_iff (n : Int) :
    IsDouble (.fin n) ↔ ∃ m e, m < 2 ^ 53 ∧ e ≤ 2045 ∧ n.natAbs = m * 2 ^ e := by
  constructor
  · intro h
    rcases h with h | h
    · exact ⟨0, 0, by decide, by decide, by subst h; rfl⟩
    · by_cases h0 : n = 0
      · exact ⟨0, 0, by decide, by decide, by subst h0; rfl⟩
      · exact roundMag_fix _ (by omega) h
  · rintro ⟨m, e, hm, he, hn⟩
    by_cases h0 : m = 0
    · left; subst h0; simp at hn; exact hn
    · right; rw [hn]; exact roundMag_exact m (Nat.pos_of_ne_zero h0) hm e he

end FVal
end Csvq
