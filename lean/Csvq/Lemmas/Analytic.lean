/-
  Helper lemmas for C17 (analytic functions).  Model: Csvq/Model/Analytic.lean.
-/
import Csvq.Model.Analytic
import Csvq.Lemmas.Group
namespace Csvq.Analytic
open Csvq

/-! ### Partition.Reverse on the ascending index lists Analyze builds -/

theorem insertDesc_of_all_lt (x : Nat) (l : List Nat) (h : ∀ y ∈ l, y < x) : insertDesc x l = x :: l := by
  cases l with
  | nil => rfl
  | cons y ys =>
    have : y ≤ x := Nat.le_of_lt (h y (by simp))
    simp [insertDesc, this]

theorem foldl_insertDesc (p : List Nat) : ∀ (acc : List Nat), p.Pairwise (· < ·) →
    (∀ a ∈ acc, ∀ b ∈ p, a < b) → p.foldl (fun acc x => insertDesc x acc) acc = p.reverse ++ acc := by
  induction p with
  | nil => intro acc _ _; simp
  | cons x xs ih =>
    intro acc hp hacc
    simp only [List.foldl_cons]
    have hx : insertDesc x acc = x :: acc := insertDesc_of_all_lt x acc (fun y hy => hacc y hy x (by simp))
    rw [hx, ih (x :: acc) (List.Pairwise.of_cons hp)]
    · simp
    · intro a ha b hb
      rcases List.mem_cons.mp ha with rfl | ha
      · exact List.rel_of_pairwise_cons hp hb
      · exact hacc a ha b (List.mem_cons_of_mem _ hb)

/-- on a strictly ascending partition `Partition.Reverse()` is the reversal -/
theorem sortDesc_eq_reverse (p : List Nat) (hp : p.Pairwise (· < ·)) : sortDesc p = p.reverse := by
  unfold sortDesc
  rw [foldl_insertDesc p [] hp (by simp)]; simp

/-! ### perRow -/

section perRow
variable {β : Type}

theorem perRow_map_fst (f : List Nat → Nat → List Nat → β) : ∀ (rest pre : List Nat),
    (perRow f pre rest).map Prod.fst = rest
  | [], _ => rfl
  | x :: post, pre => by simp [perRow, perRow_map_fst f post]

theorem perRow_length (f : List Nat → Nat → List Nat → β) (pre rest : List Nat) :
    (perRow f pre rest).length = rest.length := by
  have := congrArg List.length (perRow_map_fst f rest pre); simpa using this

theorem perRow_congr (f g : List Nat → Nat → List Nat → β) : ∀ (rest pre : List Nat),
    (∀ a x b, rest = a ++ x :: b → f (pre ++ a) x b = g (pre ++ a) x b) → perRow f pre rest = perRow g pre rest
  | [], _, _ => rfl
  | x :: post, pre, h => by
    simp only [perRow]
    rw [show f pre x post = g pre x post from by simpa using h [] x post rfl]
    rw [perRow_congr f g post (pre ++ [x])]
    intro a y b e
    have := h (x :: a) y b (by simp [e])
    simpa using this

theorem perRow_mem (f : List Nat → Nat → List Nat → β) : ∀ (a pre : List Nat) (x : Nat) (b : List Nat),
    (x, f (pre ++ a) x b) ∈ perRow f pre (a ++ x :: b)
  | [], pre, x, b => by simp [perRow]
  | y :: a, pre, x, b => by
    simp only [List.cons_append, perRow, List.mem_cons]
    right
    have := perRow_mem f a (pre ++ [y]) x b
    simpa using this

/-- a definition that does not depend on the position gives every row the same value -/
theorem perRow_const (f : List Nat → Nat → List Nat → β) (c : Nat → β) : ∀ (rest pre : List Nat),
    (∀ a x b, rest = a ++ x :: b → f (pre ++ a) x b = c x) → perRow f pre rest = rest.map fun x => (x, c x)
  | [], _, _ => rfl
  | x :: post, pre, h => by
    simp only [perRow, List.map_cons]
    rw [show f pre x post = c x from by simpa using h [] x post rfl]
    rw [perRow_const f c post (pre ++ [x])]
    intro a y b e
    have := h (x :: a) y b (by simp [e])
    simpa using this

/-- a definition that depends on the position only -/
theorem perRow_eq_zipIdx (f : List Nat → Nat → List Nat → β) (G : Nat → Nat → β) : ∀ (rest pre : List Nat),
    (∀ a x b, rest = a ++ x :: b → f (pre ++ a) x b = G x (pre.length + a.length)) →
    perRow f pre rest = (rest.zipIdx pre.length).map fun r => (r.1, G r.1 r.2)
  | [], _, _ => rfl
  | x :: post, pre, h => by
    simp only [perRow, List.zipIdx_cons, List.map_cons]
    rw [show f pre x post = G x pre.length from by simpa using h [] x post rfl]
    rw [perRow_eq_zipIdx f G post (pre ++ [x])]
    · simp
    · intro a y b e
      have := h (x :: a) y b (by simp [e])
      simp only [List.length_append, List.length_cons, List.length_nil]
      rw [show pre.length + (0 + 1) + a.length = pre.length + (a.length + 1) by omega]
      simpa using this

theorem perRow_snoc (f : List Nat → Nat → List Nat → β) (y : Nat) : ∀ (r pre : List Nat),
    perRow f pre (r ++ [y]) = perRow (fun pr x po => f pr x (po ++ [y])) pre r ++ [(y, f (pre ++ r) y [])]
  | [], pre => by simp [perRow]
  | x :: r, pre => by
    simp only [List.cons_append, perRow]
    rw [perRow_snoc f y r (pre ++ [x])]
    simp

/-- processing the reversed partition: the roles of "before" and "after" are exchanged -/
theorem perRow_reverse_aux (f : List Nat → Nat → List Nat → β) : ∀ (c a : List Nat),
    perRow f a.reverse c = (perRow (fun pre x post => f (post ++ a).reverse x pre.reverse) [] c.reverse).reverse
  | [], a => by simp [perRow]
  | y :: c, a => by
    simp only [perRow, List.reverse_cons]
    rw [perRow_snoc]
    have := perRow_reverse_aux f c (y :: a)
    simp only [List.reverse_cons] at this
    rw [this]
    simp

theorem perRow_reverse (f : List Nat → Nat → List Nat → β) (p : List Nat) :
    perRow f [] p.reverse = (perRow (fun pre x post => f post.reverse x pre.reverse) [] p).reverse := by
  have := perRow_reverse_aux f p.reverse []
  simpa using this

end perRow

/-! ### window frames -/

section frames
variable {β : Type}

theorem frameRows_eq (w : Window) (a : List Nat) (x : Nat) (b : List Nat) (p : List Nat) (hp : p = a ++ x :: b) :
    frameRows w a x b = frameRecords p (frameBounds w p.length a.length).1 (frameBounds w p.length a.length).2 := by
  subst hp
  have : (a ++ x :: b).length = a.length + 1 + b.length := by simp; omega
  unfold frameRows; rw [this]

theorem perRowFrames_flatMap (V : Nat → Int → Int → β) (p : List Nat) (lo hi : Nat → Int) :
    (perRowFrames p lo hi).flatMap (fun f => f.records.map fun idx => (idx, V idx f.low f.high))
      = p.zipIdx.map fun r => (r.1, V r.1 (lo r.2) (hi r.2)) := by
  unfold perRowFrames
  rw [List.flatMap_map]
  generalize p.zipIdx = l
  induction l with
  | nil => rfl
  | cons a l ih =>
    simp only [List.flatMap_cons, List.map_cons, List.map_nil, List.singleton_append] at ih ⊢
    rw [ih]

theorem singleFrame_flatMap (V : Nat → Int → Int → β) (p : List Nat) :
    (singleFrameSet p).flatMap (fun f => f.records.map fun idx => (idx, V idx f.low f.high))
      = p.map fun idx => (idx, V idx 0 ((p.length : Int) - 1)) := by
  simp [singleFrameSet]

/-- WindowFrameSet hands every record the frame `frameBounds` of its position -/
theorem frames_bounds (V : Nat → Int → Int → β) (w : Window) (p : List Nat) :
    (windowFrameSet p w).flatMap (fun f => f.records.map fun idx => (idx, V idx f.low f.high))
      = perRow (fun pre x _ => V x (frameBounds w p.length pre.length).1 (frameBounds w p.length pre.length).2) [] p := by
  have single : ∀ (w' : Window), (∀ k, frameBounds w' p.length k = (0, (p.length : Int) - 1)) →
      p.map (fun idx => (idx, V idx 0 ((p.length : Int) - 1)))
        = perRow (fun pre x _ => V x (frameBounds w' p.length pre.length).1 (frameBounds w' p.length pre.length).2) [] p := by
    intro w' hw
    rw [perRow_const _ (fun x => V x 0 ((p.length : Int) - 1)) p []]
    intro a x b _
    simp [hw]
  have each : ∀ (w' : Window) (lo hi : Nat → Int), (∀ k, frameBounds w' p.length k = (lo k, hi k)) →
      p.zipIdx.map (fun r => (r.1, V r.1 (lo r.2) (hi r.2)))
        = perRow (fun pre x _ => V x (frameBounds w' p.length pre.length).1 (frameBounds w' p.length pre.length).2) [] p := by
    intro w' lo hi hw
    rw [perRow_eq_zipIdx _ (fun x k => V x (lo k) (hi k)) p []]
    · simp
    · intro a x b _
      simp [hw]
  cases w with
  | noOrder =>
    simp only [windowFrameSet]; rw [singleFrame_flatMap]; exact single .noOrder (fun k => rfl)
  | orderOnly =>
    simp only [windowFrameSet]; rw [perRowFrames_flatMap]
    exact each .orderOnly (fun c => frameIndex c p.length .unboundedPreceding) (fun c => (c : Int)) (fun k => rfl)
  | rows lo =>
    simp only [windowFrameSet]; rw [perRowFrames_flatMap]
    exact each (.rows lo) (fun c => frameIndex c p.length lo) (fun c => (c : Int)) (fun k => rfl)
  | between lo hi =>
    by_cases h : lo = .unboundedPreceding ∧ hi = .unboundedFollowing
    · obtain ⟨rfl, rfl⟩ := h
      simp only [windowFrameSet]; rw [singleFrame_flatMap]
      exact single (.between .unboundedPreceding .unboundedFollowing) (fun k => rfl)
    · have : windowFrameSet p (.between lo hi)
          = perRowFrames p (fun c => frameIndex c p.length lo) (fun c => frameIndex c p.length hi) := by
        cases lo <;> cases hi <;> simp_all [windowFrameSet]
      rw [this, perRowFrames_flatMap]
      exact each (.between lo hi) (fun c => frameIndex c p.length lo) (fun c => frameIndex c p.length hi) (fun k => rfl)

/-- the same with the frame's records instead of its bounds -/
theorem frames_spec (F : Nat → List Nat → β) (w : Window) (p : List Nat) :
    (windowFrameSet p w).flatMap (fun f => f.records.map fun idx => (idx, F idx (frameRecords p f.low f.high)))
      = perRow (fun pre x post => F x (frameRows w pre x post)) [] p := by
  rw [frames_bounds (fun idx lo hi => F idx (frameRecords p lo hi)) w p]
  apply perRow_congr
  intro a x b e
  simp only [List.nil_append]
  rw [frameRows_eq w a x b p e]

end frames

/-! ### setNthValue's inner loop -/

theorem isNullV_eq (v : Val) (h : isNullV v = true) : v = .null := by
  cases v <;> simp_all [isNullV]

theorem keptCells_cons (cells : Nat → Val) (ign : Bool) (r : Nat) (rest : List Nat) :
    keptCells cells ign (r :: rest) =
      if keepV ign (cells r) then cells r :: keptCells cells ign rest else keptCells cells ign rest := by
  simp [keptCells, List.filter_cons]

/-- what the loop leaves in `val`: the n-th counted cell if there is one, otherwise the LAST VISITED
    cell (or the initial `val` if no cell was visited) -/
theorem scanNth_spec (cells : Nat → Val) (ign : Bool) (n : Nat) : ∀ (rows : List Nat) (val : Val) (count : Nat),
    count < n →
    scanNth cells ign n rows val count =
      ((keptCells cells ign rows)[n - 1 - count]?).getD (((rows.map cells).getLast?).getD val) := by
  intro rows
  induction rows with
  | nil => intro val count _; simp [scanNth, keptCells]
  | cons r rest ih =>
    intro val count hc
    rw [keptCells_cons]
    by_cases hk : (ign && isNullV (cells r)) = true
    · have hkeep : keepV ign (cells r) = false := by simp [keepV, hk]
      simp only [scanNth, hk, if_true, hkeep, Bool.false_eq_true, if_false]
      rw [ih (cells r) count hc]
      simp [List.getLast?_cons]
    · have hkeep : keepV ign (cells r) = true := by simp [keepV, hk]
      simp only [scanNth, hk, Bool.false_eq_true, if_false, hkeep, if_true]
      by_cases hn : count + 1 = n
      · have : n - 1 - count = 0 := by omega
        simp [hn, this]
      · simp only [hn, if_false]
        rw [ih (cells r) (count + 1) (by omega)]
        have : n - 1 - count = (n - 1 - (count + 1)) + 1 := by omega
        rw [this, List.getElem?_cons_succ]
        simp [List.getLast?_cons]

theorem keptCells_nil_last_null (cells : Nat → Val) (ign : Bool) (rows : List Nat)
    (h : keptCells cells ign rows = []) : ((rows.map cells).getLast?).getD .null = .null := by
  cases hl : (rows.map cells).getLast? with
  | none => rfl
  | some c =>
    have hm : c ∈ rows.map cells := List.mem_of_getLast? hl
    have : keepV ign c = false := by
      have := List.filter_eq_nil_iff.mp (show (rows.map cells).filter (keepV ign) = [] from h) c hm
      simpa using this
    have : isNullV c = true := by
      unfold keepV at this
      cases ign <;> simp_all
    simp [isNullV_eq c this]

/-- FIRST_VALUE's loop (n = 1) -/
theorem scanNth_first (cells : Nat → Val) (ign : Bool) (rows : List Nat) :
    scanNth cells ign 1 rows .null 0 = (keptCells cells ign rows).head?.getD .null := by
  rw [scanNth_spec cells ign 1 rows .null 0 (by omega)]
  cases hk : keptCells cells ign rows with
  | nil =>
    have h := keptCells_nil_last_null cells ign rows hk
    simpa using h
  | cons v vs => simp

/-- NTH_VALUE's loop when the frame holds at least n counted cells -/
theorem scanNth_enough (cells : Nat → Val) (ign : Bool) (n : Nat) (rows : List Nat) (h1 : 1 ≤ n)
    (h : n ≤ (keptCells cells ign rows).length) :
    scanNth cells ign n rows .null 0 = ((keptCells cells ign rows)[n - 1]?).getD .null := by
  rw [scanNth_spec cells ign n rows .null 0 (by omega)]
  have : n - 1 - 0 = n - 1 := by omega
  rw [this]
  have hlt : n - 1 < (keptCells cells ign rows).length := by omega
  rw [List.getElem?_eq_getElem hlt]
  simp

theorem scanNthFixed_spec (cells : Nat → Val) (ign : Bool) (n : Nat) : ∀ (rows : List Nat) (count : Nat),
    count < n →
    scanNthFixed cells ign n rows count = ((keptCells cells ign rows)[n - 1 - count]?).getD .null := by
  intro rows
  induction rows with
  | nil => intro count _; simp [scanNthFixed, keptCells]
  | cons r rest ih =>
    intro count hc
    rw [keptCells_cons]
    by_cases hk : (ign && isNullV (cells r)) = true
    · have hkeep : keepV ign (cells r) = false := by simp [keepV, hk]
      simp only [scanNthFixed, hk, if_true, hkeep, Bool.false_eq_true, if_false]
      exact ih count hc
    · have hkeep : keepV ign (cells r) = true := by simp [keepV, hk]
      simp only [scanNthFixed, hk, Bool.false_eq_true, if_false, hkeep, if_true]
      by_cases hn : count + 1 = n
      · have : n - 1 - count = 0 := by omega
        simp [hn, this]
      · simp only [hn, if_false]
        rw [ih (count + 1) (by omega)]
        have : n - 1 - count = (n - 1 - (count + 1)) + 1 := by omega
        rw [this, List.getElem?_cons_succ]

/-! ### LAG -/

theorem lagPick_eq (cells : Nat → Val) (ign : Bool) (dflt : Val) (offset : Int) (pre : List Nat) (x : Nat) (post : List Nat) :
    lagPick ign dflt offset (cells x :: (pre.map cells).reverse) = lagSpec cells ign dflt offset pre x post := by
  unfold lagPick lagSpec
  have : cells x :: (pre.map cells).reverse = ((pre ++ [x]).map cells).reverse := by simp
  rw [this]
  split
  · rfl
  · cases (List.drop offset.toNat ((pre ++ [x]).map cells).reverse).find? (keepV ign) <;> rfl

theorem lagLoop_spec (cells : Nat → Val) (ign : Bool) (dflt : Val) (offset : Int) : ∀ (rest pre : List Nat),
    lagLoop cells ign dflt offset rest (pre.map cells).reverse = perRow (lagSpec cells ign dflt offset) pre rest
  | [], _ => rfl
  | x :: rest, pre => by
    simp only [lagLoop, perRow]
    rw [lagPick_eq cells ign dflt offset pre x rest]
    have : cells x :: (pre.map cells).reverse = ((pre ++ [x]).map cells).reverse := by simp
    rw [this, lagLoop_spec cells ign dflt offset rest (pre ++ [x])]

/-! ### frames of the reversed partition -/

theorem take_drop_norm {α : Type} (p : List α) (a b : Nat) :
    (p.take b).drop a = (p.take (min b p.length)).drop (min a (min b p.length)) := by
  have h1 : p.take b = p.take (min b p.length) := by
    by_cases hb : b ≤ p.length
    · rw [Nat.min_eq_left hb]
    · rw [Nat.min_eq_right (by omega), List.take_of_length_le (by omega), List.take_of_length_le (Nat.le_refl _)]
  rw [h1]
  have hl : (p.take (min b p.length)).length = min b p.length := by simp
  by_cases ha : a ≤ min b p.length
  · rw [Nat.min_eq_left ha]
  · rw [Nat.min_eq_right (a := a) (b := min b p.length) (by omega),
      List.drop_eq_nil_of_le (by omega), List.drop_eq_nil_of_le (by omega)]

theorem take_drop_congr {α : Type} (p : List α) (a1 b1 a2 b2 : Nat)
    (h : (min b1 p.length ≤ a1 ∧ min b2 p.length ≤ a2) ∨
      (min b1 p.length = min b2 p.length ∧ min a1 (min b1 p.length) = min a2 (min b2 p.length))) :
    (p.take b1).drop a1 = (p.take b2).drop a2 := by
  rcases h with ⟨h1, h2⟩ | ⟨h1, h2⟩
  · rw [List.drop_eq_nil_of_le (by simpa using h1), List.drop_eq_nil_of_le (by simpa using h2)]
  · rw [take_drop_norm p a1 b1, take_drop_norm p a2 b2, h2, h1]

theorem frameRecords_reverse (p : List Nat) (lo hi : Int) :
    frameRecords p.reverse lo hi
      = (frameRecords p ((p.length : Int) - 1 - hi) ((p.length : Int) - 1 - lo)).reverse := by
  unfold frameRecords
  rw [List.take_reverse, List.drop_reverse, List.take_drop]
  congr 1
  have h1 := Int.toNat_eq_max (hi + 1)
  have h2 := Int.toNat_eq_max lo
  have h3 := Int.toNat_eq_max ((p.length : Int) - 1 - lo + 1)
  have h4 := Int.toNat_eq_max ((p.length : Int) - 1 - hi)
  generalize (hi + 1).toNat = A at *
  generalize lo.toNat = B at *
  generalize ((p.length : Int) - 1 - lo + 1).toNat = C at *
  generalize ((p.length : Int) - 1 - hi).toNat = D at *
  apply take_drop_congr
  simp only [List.length_drop]
  omega

theorem bounds_mirror (w : Window) (len k : Nat) (hk : k < len) :
    frameBounds (mirror w) len k
      = ((len : Int) - 1 - (frameBounds w len (len - 1 - k)).2, (len : Int) - 1 - (frameBounds w len (len - 1 - k)).1) := by
  have hc : ((len - 1 - k : Nat) : Int) = (len : Int) - 1 - (k : Int) := by omega
  cases w with
  | noOrder => simp [mirror, frameBounds]
  | orderOnly => simp [mirror, frameBounds, frameIndex, hc]; omega
  | rows lo => cases lo <;> simp [mirror, frameBounds, frameIndex, flipBound, hc] <;> omega
  | between lo hi =>
    cases lo <;> cases hi <;> simp [mirror, frameBounds, frameIndex, flipBound, hc] <;> omega

theorem keptCells_reverse (cells : Nat → Val) (ign : Bool) (rows : List Nat) :
    keptCells cells ign rows.reverse = (keptCells cells ign rows).reverse := by
  simp [keptCells, List.map_reverse, List.filter_reverse]

/-- FIRST value of the frame taken on the reversed partition = LAST value of the mirrored frame -/
theorem firstValueSpec_reverse (cells : Nat → Val) (ign : Bool) (w : Window) (pre : List Nat) (x : Nat) (post : List Nat) :
    firstValueSpec cells ign w post.reverse x pre.reverse = lastValueSpec cells ign (mirror w) pre x post := by
  unfold firstValueSpec lastValueSpec frameRows
  have e : post.reverse ++ x :: pre.reverse = (pre ++ x :: post).reverse := by simp
  have hl : (pre ++ x :: post).length = pre.length + 1 + post.length := by simp; omega
  rw [e, frameRecords_reverse, keptCells_reverse, List.head?_reverse]
  have hb := bounds_mirror w (pre.length + 1 + post.length) pre.length (by omega)
  have hk : pre.length + 1 + post.length - 1 - pre.length = post.length := by omega
  rw [hk] at hb
  simp only [List.length_reverse]
  rw [show post.length + 1 + pre.length = pre.length + 1 + post.length by omega]
  rw [hb, hl]

/-! ### ROW_NUMBER -/

theorem rowNumberLoop_spec : ∀ (rest pre : List Nat),
    rowNumberLoop rest pre.length = perRow rowNumberSpec pre rest
  | [], _ => rfl
  | x :: rest, pre => by
    simp only [rowNumberLoop, perRow, rowNumberSpec]
    have := rowNumberLoop_spec rest (pre ++ [x])
    simp only [List.length_append, List.length_cons, List.length_nil] at this
    rw [← this]

/-! ### runs of peers: RANK, DENSE_RANK, CUME_DIST, PERCENT_RANK -/

section runs
variable (eqv : Nat → Nat → Bool)

theorem sublist3 (pre0 : List Nat) (h : Nat) (run : List Nat) (x : Nat) (rest : List Nat) (j : Nat) (hj : j ∈ pre0) :
    [j, h, x].Sublist (pre0 ++ h :: run ++ x :: rest) := by
  have a : [j].Sublist pre0 := List.singleton_sublist.mpr hj
  have b : [h].Sublist (h :: run) := List.singleton_sublist.mpr (by simp)
  have c : [x].Sublist (x :: rest) := List.singleton_sublist.mpr (by simp)
  have := (a.append b).append c
  simpa using this

/-- the current row `x` continues the run headed by `h` -/
theorem run_continue {p pre0 run rest : List Nat} {h x : Nat} (P : Peers eqv p)
    (hp : p = pre0 ++ h :: run ++ x :: rest)
    (hrun : ∀ y ∈ run, eqv y h = true) (hpre : ∀ y ∈ pre0, eqv y h = false) (hx : eqv x h = true) :
    (∀ j ∈ pre0, eqv j x = false) ∧ (∀ j ∈ h :: run, eqv j x = true) := by
  constructor
  · intro j hj
    cases hjx : eqv j x with
    | false => rfl
    | true =>
      have := P.contig j h x (hp ▸ sublist3 pre0 h run x rest j hj) hjx
      rw [hpre j hj] at this; exact absurd this (by simp)
  · intro j hj
    rcases List.mem_cons.mp hj with rfl | hj
    · exact P.symm _ _ hx
    · exact P.trans _ _ _ (hrun j hj) (P.symm _ _ hx)

/-- the current row `x` opens a new run -/
theorem run_break {p pre0 run rest : List Nat} {h x : Nat} (P : Peers eqv p)
    (hp : p = pre0 ++ h :: run ++ x :: rest)
    (hrun : ∀ y ∈ run, eqv y h = true) (hpre : ∀ y ∈ pre0, eqv y h = false) (hx : eqv x h = false) :
    ∀ j ∈ pre0 ++ h :: run, eqv j x = false := by
  intro j hj
  cases hjx : eqv j x with
  | false => rfl
  | true =>
    exfalso
    rcases List.mem_append.mp hj with hj | hj
    · have := P.contig j h x (hp ▸ sublist3 pre0 h run x rest j hj) hjx
      rw [hpre j hj] at this; exact absurd this (by simp)
    · rcases List.mem_cons.mp hj with rfl | hj
      · have := P.symm _ _ hjx; rw [hx] at this; exact absurd this (by simp)
      · have := P.trans _ _ _ (P.symm _ _ hjx) (hrun j hj); rw [hx] at this; exact absurd this (by simp)

theorem filter_length_all {α : Type} (q : α → Bool) (l : List α) (h : ∀ a ∈ l, q a = true) :
    (l.filter q).length = l.length := by rw [List.filter_eq_self.mpr h]

theorem filter_length_none {α : Type} (q : α → Bool) (l : List α) (h : ∀ a ∈ l, q a = false) :
    (l.filter q).length = 0 := by
  rw [List.filter_eq_nil_iff.mpr (fun a ha => by simp [h a ha])]; rfl

theorem rankLoop_spec {p : List Nat} (P : Peers eqv p) : ∀ (rest pre0 : List Nat) (h : Nat) (run : List Nat),
    p = pre0 ++ h :: run ++ rest → (∀ y ∈ run, eqv y h = true) → (∀ y ∈ pre0, eqv y h = false) →
    rankLoop eqv rest (pre0.length + 1 + run.length) (pre0.length + 1) (some h)
      = perRow (rankSpec eqv) (pre0 ++ h :: run) rest := by
  intro rest
  induction rest with
  | nil => intros; rfl
  | cons x rest ih =>
    intro pre0 h run hp hrun hpre
    simp only [rankLoop, sameRank, perRow]
    by_cases hx : eqv x h = true
    · obtain ⟨h1, h2⟩ := run_continue eqv P hp hrun hpre hx
      simp only [hx, if_true]
      have hs : rankSpec eqv (pre0 ++ h :: run) x rest = pre0.length + 1 := by
        unfold rankSpec
        rw [List.filter_append, List.length_append,
          filter_length_all _ pre0 (fun a ha => by simp [h1 a ha]),
          filter_length_none _ (h :: run) (fun a ha => by simp [h2 a ha])]
        omega
      rw [hs]
      have := ih pre0 h (run ++ [x]) (by simp [hp])
        (fun y hy => by
          rcases List.mem_append.mp hy with hy | hy
          · exact hrun y hy
          · simp at hy; subst hy; exact hx) hpre
      simp only [List.length_append, List.length_cons, List.length_nil] at this
      rw [show pre0.length + 1 + run.length + 1 = pre0.length + 1 + (run.length + (0 + 1)) by omega, this]
      simp
    · have hx' : eqv x h = false := by simpa using hx
      have h1 := run_break eqv P hp hrun hpre hx'
      simp only [hx', Bool.false_eq_true, if_false]
      have hs : rankSpec eqv (pre0 ++ h :: run) x rest = pre0.length + 1 + run.length + 1 := by
        unfold rankSpec
        rw [filter_length_all _ _ (fun a ha => by simp [h1 a ha])]
        simp; omega
      rw [hs]
      have := ih (pre0 ++ h :: run) x [] (by simp [hp]) (by simp) h1
      simp only [List.length_append, List.length_cons, List.length_nil] at this
      rw [show pre0.length + 1 + run.length + 1 = pre0.length + (run.length + 1) + 1 + 0 by omega,
        show pre0.length + (run.length + 1) + 1 + 0 = pre0.length + (run.length + 1) + 1 by omega] at *
      rw [this]

theorem rank_eq_spec {p : List Nat} (P : Peers eqv p) : rank eqv p = perRow (rankSpec eqv) [] p := by
  cases p with
  | nil => rfl
  | cons x rest =>
    simp only [rank, rankLoop, sameRank, Bool.false_eq_true, if_false, perRow]
    have := rankLoop_spec eqv P rest [] x [] (by simp) (by simp) (by simp)
    simp only [List.length_nil] at this
    rw [this]
    simp [rankSpec]

/-! DENSE_RANK -/

theorem numClasses_snoc (x : Nat) : ∀ (l seen : List Nat),
    numClasses eqv seen (l ++ [x]) = numClasses eqv seen l + (if (seen ++ l).any (fun z => eqv x z) then 0 else 1)
  | [], seen => by simp [numClasses]
  | y :: l, seen => by
    simp only [List.cons_append, numClasses]
    rw [numClasses_snoc x l (seen ++ [y])]
    simp only [List.append_assoc, List.singleton_append]
    omega

theorem denseLoop_spec {p : List Nat} (P : Peers eqv p) : ∀ (rest pre0 : List Nat) (h : Nat) (run : List Nat),
    p = pre0 ++ h :: run ++ rest → (∀ y ∈ run, eqv y h = true) → (∀ y ∈ pre0, eqv y h = false) →
    denseLoop eqv rest (numClasses eqv [] (pre0 ++ h :: run)) (some h)
      = perRow (denseRankSpec eqv) (pre0 ++ h :: run) rest := by
  intro rest
  induction rest with
  | nil => intros; rfl
  | cons x rest ih =>
    intro pre0 h run hp hrun hpre
    simp only [denseLoop, sameRank, perRow]
    have hsn := numClasses_snoc eqv x (pre0 ++ h :: run) []
    simp only [List.nil_append] at hsn
    by_cases hx : eqv x h = true
    · simp only [hx, if_true]
      have hany : (pre0 ++ h :: run).any (fun z => eqv x z) = true :=
        List.any_eq_true.mpr ⟨h, by simp, hx⟩
      have hsn' : numClasses eqv [] (pre0 ++ h :: run ++ [x]) = numClasses eqv [] (pre0 ++ h :: run) := by
        rw [hsn]; simp [hany]
      have hs : denseRankSpec eqv (pre0 ++ h :: run) x rest = numClasses eqv [] (pre0 ++ h :: run) := by
        unfold denseRankSpec; exact hsn'
      rw [hs]
      have := ih pre0 h (run ++ [x]) (by simp [hp])
        (fun y hy => by
          rcases List.mem_append.mp hy with hy | hy
          · exact hrun y hy
          · simp at hy; subst hy; exact hx) hpre
      have e : pre0 ++ h :: (run ++ [x]) = pre0 ++ h :: run ++ [x] := by simp
      rw [e] at this
      rw [← this, hsn']
    · have hx' : eqv x h = false := by simpa using hx
      have h1 := run_break eqv P hp hrun hpre hx'
      simp only [hx', Bool.false_eq_true, if_false]
      have hany : (pre0 ++ h :: run).any (fun z => eqv x z) = false := by
        rw [List.any_eq_false]
        intro z hz hxz
        have := P.symm _ _ hxz
        rw [h1 z hz] at this; exact absurd this (by simp)
      have hsn' : numClasses eqv [] (pre0 ++ h :: run ++ [x]) = numClasses eqv [] (pre0 ++ h :: run) + 1 := by
        rw [hsn]; simp [hany]
      have hs : denseRankSpec eqv (pre0 ++ h :: run) x rest = numClasses eqv [] (pre0 ++ h :: run) + 1 := by
        unfold denseRankSpec; exact hsn'
      rw [hs]
      have := ih (pre0 ++ h :: run) x [] (by simp [hp]) (by simp) h1
      have e : pre0 ++ h :: run ++ x :: [] = pre0 ++ h :: run ++ [x] := by simp
      rw [e] at this
      rw [← this, hsn']

theorem denseRank_eq_spec {p : List Nat} (P : Peers eqv p) : denseRank eqv p = perRow (denseRankSpec eqv) [] p := by
  cases p with
  | nil => rfl
  | cons x rest =>
    simp only [denseRank, denseLoop, sameRank, Bool.false_eq_true, if_false, perRow]
    have := denseLoop_spec eqv P rest [] x [] (by simp) (by simp) (by simp)
    simp only [List.nil_append] at this
    have h1 : numClasses eqv [] [x] = 1 := by simp [numClasses]
    rw [h1] at this
    rw [this]
    simp [denseRankSpec, numClasses]

/-! perseCumulativeGroups: the groups are the runs -/

/-- the same loop with the last (open) group kept apart -/
def openLoop : List Nat → Nat → List Nat → List (List Nat)
  | [], _, g => [g]
  | idx :: rest, h, g => if eqv idx h then openLoop rest h (g ++ [idx]) else g :: openLoop rest idx [idx]

theorem appendToLast_snoc (idx : Nat) (g : List Nat) : ∀ (G : List (List Nat)),
    appendToLast idx (G ++ [g]) = G ++ [g ++ [idx]]
  | [] => rfl
  | [a] => by simp [appendToLast]
  | a :: b :: G => by
    have := appendToLast_snoc idx g (b :: G)
    simp only [List.cons_append] at this ⊢
    simp only [appendToLast]
    rw [this]

theorem cumGroups_open : ∀ (rest : List Nat) (h : Nat) (g : List Nat) (G : List (List Nat)),
    cumGroups eqv rest (some h) (G ++ [g]) = G ++ openLoop eqv rest h g
  | [], _, _, _ => rfl
  | idx :: rest, h, g, G => by
    simp only [cumGroups, sameRank, openLoop]
    by_cases hx : eqv idx h = true
    · simp only [hx, if_true]
      rw [appendToLast_snoc, cumGroups_open rest h (g ++ [idx]) G]
    · simp only [hx, Bool.false_eq_true, if_false]
      rw [cumGroups_open rest idx [idx] (G ++ [g])]
      simp

theorem cumGroups_eq (x : Nat) (rest : List Nat) : cumGroups eqv (x :: rest) none [] = openLoop eqv rest x [x] := by
  simp only [cumGroups, sameRank, Bool.false_eq_true, if_false]
  have := cumGroups_open eqv rest x [x] []
  simpa using this

/-- a block of mutual peers followed by rows none of which is a peer of the block: CUME_DIST -/
theorem cume_block (total : Nat) : ∀ (g pre0 tail : List Nat),
    total = pre0.length + g.length + tail.length →
    g.Pairwise (fun a b => eqv b a = true) → (∀ j ∈ tail, ∀ y ∈ g, eqv j y = false) →
    perRow (cumeDistSpec eqv) pre0 (g ++ tail)
      = g.map (fun y => (y, (pre0.length + g.length, total))) ++ perRow (cumeDistSpec eqv) (pre0 ++ g) tail := by
  intro g
  induction g with
  | nil => intro pre0 tail _ _ _; simp
  | cons y g ih =>
    intro pre0 tail ht hg htail
    obtain ⟨hy, hg'⟩ := List.pairwise_cons.mp hg
    simp only [List.cons_append, perRow, List.map_cons]
    have hs : cumeDistSpec eqv pre0 y (g ++ tail) = (pre0.length + (y :: g).length, total) := by
      unfold cumeDistSpec
      rw [List.filter_append, List.length_append,
        filter_length_all _ g (fun a ha => hy a ha),
        filter_length_none _ tail (fun a ha => htail a ha y (by simp))]
      simp only [List.length_append, List.length_cons] at ht ⊢
      rw [ht]; congr 1 <;> omega
    rw [hs]
    rw [ih (pre0 ++ [y]) tail (by simp at ht ⊢; omega) hg' (fun j hj z hz => htail j hj z (by simp [hz]))]
    simp only [List.length_append, List.length_cons, List.length_nil, List.append_assoc, List.singleton_append]
    congr 2
    apply List.map_congr_left
    intro z _
    congr 2; omega

theorem group_pairwise {p : List Nat} (P : Peers eqv p) (h : Nat) (run : List Nat)
    (hrun : ∀ y ∈ run, eqv y h = true) : (h :: run).Pairwise (fun a b => eqv b a = true) := by
  rw [List.pairwise_cons]
  refine ⟨hrun, List.pairwise_of_forall_mem_list ?_⟩
  intro a ha b hb
  exact P.trans _ _ _ (hrun b hb) (P.symm _ _ (hrun a ha))

/-- rows after a run that has been closed by `x` are no peers of the run's members -/
theorem after_break {p pre0 run rest : List Nat} {h x : Nat} (P : Peers eqv p)
    (hp : p = pre0 ++ h :: run ++ x :: rest)
    (hrun : ∀ y ∈ run, eqv y h = true) (hx : eqv x h = false) :
    ∀ j ∈ x :: rest, ∀ y ∈ h :: run, eqv j y = false := by
  intro j hj y hy
  have yh : eqv y h = true ∨ y = h := by
    rcases List.mem_cons.mp hy with rfl | hy
    · exact Or.inr rfl
    · exact Or.inl (hrun y hy)
  have xy_false : eqv x y = false := by
    cases hxy : eqv x y with
    | false => rfl
    | true =>
      rcases yh with yh | rfl
      · have := P.trans _ _ _ hxy yh; rw [hx] at this; exact absurd this (by simp)
      · rw [hx] at hxy; exact absurd hxy (by simp)
  rcases List.mem_cons.mp hj with rfl | hj
  · exact xy_false
  · cases hjy : eqv j y with
    | false => rfl
    | true =>
      exfalso
      -- y … x … j with y, j peers ⇒ y, x peers
      have sub : [y, x, j].Sublist p := by
        have a : [y].Sublist (pre0 ++ h :: run) := List.singleton_sublist.mpr (by simp [List.mem_cons.mp hy])
        have b : [x].Sublist [x] := List.Sublist.refl _
        have c : [j].Sublist rest := List.singleton_sublist.mpr hj
        have := (a.append b).append c
        rw [hp]; simpa using this
      have := P.symm _ _ (P.contig y x j sub (P.symm _ _ hjy))
      rw [xy_false] at this; exact absurd this (by simp)

theorem cumeLoop_spec {p : List Nat} (P : Peers eqv p) : ∀ (rest pre0 : List Nat) (h : Nat) (run : List Nat),
    p = pre0 ++ h :: run ++ rest → (∀ y ∈ run, eqv y h = true) →
    cumeLoop p.length (openLoop eqv rest h (h :: run)) pre0.length
      = perRow (cumeDistSpec eqv) pre0 (h :: run ++ rest) := by
  intro rest
  induction rest with
  | nil =>
    intro pre0 h run hp hrun
    simp only [openLoop, cumeLoop, List.append_nil]
    have := cume_block eqv p.length (h :: run) pre0 [] (by rw [hp]; simp) (group_pairwise eqv P h run hrun) (by simp)
    simp only [List.append_nil] at this
    rw [this]; simp [perRow]
  | cons x rest ih =>
    intro pre0 h run hp hrun
    simp only [openLoop]
    by_cases hx : eqv x h = true
    · simp only [hx, if_true]
      have := ih pre0 h (run ++ [x]) (by simp [hp])
        (fun y hy => by
          rcases List.mem_append.mp hy with hy | hy
          · exact hrun y hy
          · simp at hy; subst hy; exact hx)
      simpa using this
    · have hx' : eqv x h = false := by simpa using hx
      simp only [hx', Bool.false_eq_true, if_false, cumeLoop]
      have hb := cume_block eqv p.length (h :: run) pre0 (x :: rest) (by rw [hp]; simp; omega)
        (group_pairwise eqv P h run hrun) (after_break eqv P hp hrun hx')
      rw [hb]
      have := ih (pre0 ++ h :: run) x [] (by simp [hp]) (by simp)
      simp only [List.length_append, List.length_cons] at this
      simp only [List.length_cons] at this ⊢
      rw [this]
      rfl

theorem cumeDist_eq_spec {p : List Nat} (P : Peers eqv p) : cumeDist eqv p = perRow (cumeDistSpec eqv) [] p := by
  cases p with
  | nil => rfl
  | cons x rest =>
    unfold cumeDist
    rw [cumGroups_eq]
    have := cumeLoop_spec eqv P rest [] x [] (by simp) (by simp)
    simpa using this

/-! PERCENT_RANK -/

theorem percent_block (total : Nat) : ∀ (g2 g1 pre0 tail : List Nat),
    total = pre0.length + g1.length + g2.length + tail.length →
    (∀ j ∈ pre0, ∀ y ∈ g2, eqv j y = false) → (∀ j ∈ g1, ∀ y ∈ g2, eqv j y = true) →
    g2.Pairwise (fun a b => eqv a b = true) →
    perRow (percentRankSpec eqv) (pre0 ++ g1) (g2 ++ tail)
      = g2.map (fun y => (y, if 1 < total then (pre0.length, total - 1) else (1, 1)))
          ++ perRow (percentRankSpec eqv) (pre0 ++ g1 ++ g2) tail := by
  intro g2
  induction g2 with
  | nil => intro g1 pre0 tail _ _ _ _; simp
  | cons y g ih =>
    intro g1 pre0 tail ht hpre hg1 hg
    obtain ⟨hy, hg'⟩ := List.pairwise_cons.mp hg
    simp only [List.cons_append, perRow, List.map_cons]
    have hs : percentRankSpec eqv (pre0 ++ g1) y (g ++ tail)
        = if 1 < total then (pre0.length, total - 1) else (1, 1) := by
      have hf : ((pre0 ++ g1).filter (fun j => !eqv j y)).length = pre0.length := by
        rw [List.filter_append, List.length_append,
          filter_length_all _ pre0 (fun a ha => by simp [hpre a ha y (by simp)]),
          filter_length_none _ g1 (fun a ha => by simp [hg1 a ha y (by simp)])]
        omega
      unfold percentRankSpec rankSpec
      rw [hf]
      simp only [List.length_append, List.length_cons] at ht ⊢
      have e1 : pre0.length + g1.length + 1 + (g.length + tail.length) = total := by omega
      rw [e1]
      split
      · congr 1 <;> omega
      · rfl
    rw [hs]
    have := ih (g1 ++ [y]) pre0 tail (by simp at ht ⊢; omega)
      (fun j hj z hz => hpre j hj z (by simp [hz]))
      (fun j hj z hz => by
        rcases List.mem_append.mp hj with hj | hj
        · exact hg1 j hj z (by simp [hz])
        · simp at hj; subst hj; exact hy z hz) hg'
    simp only [← List.append_assoc] at this ⊢
    rw [this]
    simp

theorem pre_not_peer_group {p : List Nat} (P : Peers eqv p) (pre0 : List Nat) (h : Nat) (run : List Nat)
    (hrun : ∀ y ∈ run, eqv y h = true) (hpre : ∀ y ∈ pre0, eqv y h = false) :
    ∀ j ∈ pre0, ∀ y ∈ h :: run, eqv j y = false := by
  intro j hj y hy
  rcases List.mem_cons.mp hy with rfl | hy
  · exact hpre j hj
  · cases hjy : eqv j y with
    | false => rfl
    | true =>
      have := P.trans _ _ _ hjy (hrun y hy)
      rw [hpre j hj] at this; exact absurd this (by simp)

theorem percentLoop_spec {p : List Nat} (P : Peers eqv p) : ∀ (rest pre0 : List Nat) (h : Nat) (run : List Nat),
    p = pre0 ++ h :: run ++ rest → (∀ y ∈ run, eqv y h = true) → (∀ y ∈ pre0, eqv y h = false) →
    percentLoop p.length (openLoop eqv rest h (h :: run)) pre0.length
      = perRow (percentRankSpec eqv) pre0 (h :: run ++ rest) := by
  intro rest
  induction rest with
  | nil =>
    intro pre0 h run hp hrun hpre
    simp only [openLoop, percentLoop, List.append_nil]
    have := percent_block eqv p.length (h :: run) [] pre0 [] (by rw [hp]; simp)
      (pre_not_peer_group eqv P pre0 h run hrun hpre) (by simp)
      ((group_pairwise eqv P h run hrun).imp (fun hab => P.symm _ _ hab))
    simp only [List.append_nil] at this
    rw [this]; simp [perRow]
  | cons x rest ih =>
    intro pre0 h run hp hrun hpre
    simp only [openLoop]
    by_cases hx : eqv x h = true
    · simp only [hx, if_true]
      have := ih pre0 h (run ++ [x]) (by simp [hp])
        (fun y hy => by
          rcases List.mem_append.mp hy with hy | hy
          · exact hrun y hy
          · simp at hy; subst hy; exact hx) hpre
      simpa using this
    · have hx' : eqv x h = false := by simpa using hx
      simp only [hx', Bool.false_eq_true, if_false, percentLoop]
      have hb := percent_block eqv p.length (h :: run) [] pre0 (x :: rest) (by rw [hp]; simp; omega)
        (pre_not_peer_group eqv P pre0 h run hrun hpre) (by simp)
        ((group_pairwise eqv P h run hrun).imp (fun hab => P.symm _ _ hab))
      simp only [List.append_nil] at hb
      rw [hb]
      have := ih (pre0 ++ h :: run) x [] (by simp [hp]) (by simp) (run_break eqv P hp hrun hpre hx')
      simp only [List.length_append, List.length_cons] at this
      simp only [List.length_cons] at this ⊢
      rw [this]
      rfl

theorem percentRank_eq_spec {p : List Nat} (P : Peers eqv p) :
    percentRank eqv p = perRow (percentRankSpec eqv) [] p := by
  cases p with
  | nil => rfl
  | cons x rest =>
    unfold percentRank
    rw [cumGroups_eq]
    have := percentLoop_spec eqv P rest [] x [] (by simp) (by simp) (by simp)
    simpa using this

end runs

/-! ### NTILE -/

theorem tileStart_succ (q r b : Nat) :
    tileStart q r (b + 1) = tileStart q r b + q + (if b < r then 1 else 0) := by
  unfold tileStart
  have := Nat.succ_mul b q
  simp only [Nat.succ_eq_add_one] at this
  rw [this]
  split <;> omega

theorem tileStart_mono (q r : Nat) {b b' : Nat} (h : b ≤ b') : tileStart q r b ≤ tileStart q r b' := by
  unfold tileStart
  have := Nat.mul_le_mul_right q h
  omega

/-- state of the loop after `k` rows: bucket `b` (tile `b + 1`) is being filled, `count` of its rows placed -/
def NtileInv (q r k tile count mod : Nat) : Prop :=
  ∃ b, tile = b + 1 ∧ k = tileStart q r b + count ∧
    ((count ≤ q ∧ mod = r - b) ∨ (count = q + 1 ∧ b < r ∧ mod = r - (b + 1)))

theorem ntileLoop_map_fst (q : Nat) : ∀ (rest : List Nat) (tile count mod : Nat),
    (ntileLoop q rest tile count mod).map Prod.fst = rest
  | [], _, _, _ => rfl
  | idx :: rest, tile, count, mod => by
    simp only [ntileLoop]
    split
    · simp [ntileLoop_map_fst q rest]
    · split
      · split <;> simp [ntileLoop_map_fst q rest]
      · simp [ntileLoop_map_fst q rest]

theorem ntileLoop_spec (q r : Nat) (hq : 1 ≤ q) : ∀ (rest : List Nat) (k tile count mod : Nat),
    NtileInv q r k tile count mod →
    ∀ (j : Nat) (e : Nat × Nat), (ntileLoop q rest tile count mod)[j]? = some e →
      ∃ b, e.2 = b + 1 ∧ tileStart q r b ≤ k + j ∧ k + j < tileStart q r (b + 1) := by
  intro rest
  induction rest with
  | nil => intro k tile count mod _ j e h; simp [ntileLoop] at h
  | cons idx rest ih =>
    intro k tile count mod hinv j e h
    obtain ⟨b, ht, hk, hst⟩ := hinv
    have s1 := tileStart_succ q r b
    have s2 := tileStart_succ q r (b + 1)
    simp only [ntileLoop] at h
    by_cases hA : q + 1 < count + 1
    · simp only [hA, if_true] at h
      have hc : count = q + 1 ∧ b < r ∧ mod = r - (b + 1) := by
        rcases hst with ⟨h1, _⟩ | h2
        · omega
        · exact h2
      cases j with
      | zero =>
        simp only [List.getElem?_cons_zero, Option.some.injEq] at h
        subst h
        refine ⟨b + 1, by simp [ht], ?_, ?_⟩
        · simp only [hc.2.1, if_true] at s1; omega
        · simp only [hc.2.1, if_true] at s1; split at s2 <;> omega
      | succ j =>
        simp only [List.getElem?_cons_succ] at h
        have hinv' : NtileInv q r (k + 1) (tile + 1) 1 mod := by
          refine ⟨b + 1, by omega, ?_, Or.inl ⟨hq, hc.2.2⟩⟩
          simp only [hc.2.1, if_true] at s1; omega
        obtain ⟨b', h1, h2, h3⟩ := ih (k + 1) (tile + 1) 1 mod hinv' j e h
        exact ⟨b', h1, by omega, by omega⟩
    · simp only [hA, if_false] at h
      by_cases hB : q + 1 = count + 1
      · simp only [hB, if_true] at h
        have hc : count = q ∧ mod = r - b := by
          rcases hst with ⟨_, h1⟩ | ⟨h2, _⟩
          · exact ⟨by omega, h1⟩
          · omega
        by_cases hm : 0 < mod
        · simp only [hm, if_true] at h
          have hbr : b < r := by omega
          cases j with
          | zero =>
            simp only [List.getElem?_cons_zero, Option.some.injEq] at h
            subst h
            refine ⟨b, by simp [ht], by omega, ?_⟩
            simp only [hbr, if_true] at s1; omega
          | succ j =>
            simp only [List.getElem?_cons_succ] at h
            have hinv' : NtileInv q r (k + 1) tile (count + 1) (mod - 1) :=
              ⟨b, ht, by omega, Or.inr ⟨by omega, hbr, by omega⟩⟩
            obtain ⟨b', h1, h2, h3⟩ := ih (k + 1) tile (count + 1) (mod - 1) hinv' j e h
            exact ⟨b', h1, by omega, by omega⟩
        · simp only [hm, if_false] at h
          have hbr : ¬ b < r := by omega
          cases j with
          | zero =>
            simp only [List.getElem?_cons_zero, Option.some.injEq] at h
            subst h
            refine ⟨b + 1, by simp [ht], ?_, ?_⟩
            · simp only [hbr, if_false] at s1; omega
            · simp only [hbr, if_false] at s1; split at s2 <;> omega
          | succ j =>
            simp only [List.getElem?_cons_succ] at h
            have hinv' : NtileInv q r (k + 1) (tile + 1) 1 mod := by
              refine ⟨b + 1, by omega, ?_, Or.inl ⟨hq, by omega⟩⟩
              simp only [hbr, if_false] at s1; omega
            obtain ⟨b', h1, h2, h3⟩ := ih (k + 1) (tile + 1) 1 mod hinv' j e h
            exact ⟨b', h1, by omega, by omega⟩
      · simp only [hB, if_false] at h
        have hc : count < q ∧ mod = r - b := by
          rcases hst with ⟨h1, h2⟩ | ⟨h2, _⟩
          · exact ⟨by omega, h2⟩
          · omega
        cases j with
        | zero =>
          simp only [List.getElem?_cons_zero, Option.some.injEq] at h
          subst h
          refine ⟨b, by simp [ht], by omega, ?_⟩
          split at s1 <;> omega
        | succ j =>
          simp only [List.getElem?_cons_succ] at h
          have hinv' : NtileInv q r (k + 1) tile (count + 1) mod :=
            ⟨b, ht, by omega, Or.inl ⟨by omega, hc.2⟩⟩
          obtain ⟨b', h1, h2, h3⟩ := ih (k + 1) tile (count + 1) mod hinv' j e h
          exact ⟨b', h1, by omega, by omega⟩

theorem ntileParams_pos (total n : Nat) : 1 ≤ (ntileParams total n).1 := by
  unfold ntileParams
  split
  · exact Nat.le_refl 1
  · rename_i h; exact Nat.le_of_not_lt h

/-- the buckets exactly cover the partition when there are at least as many rows as buckets,
    otherwise there is one row per bucket -/
theorem tileStart_total (total n : Nat) (hn : 1 ≤ n) :
    total ≤ tileStart (ntileParams total n).1 (ntileParams total n).2 n := by
  unfold ntileParams tileStart
  split
  · rename_i h
    have : total < 1 * n := (Nat.div_lt_iff_lt_mul (by omega)).mp h
    simp only [Nat.mul_one, Nat.min_zero]
    omega
  · have h1 := Nat.div_add_mod total n
    have h2 := Nat.mod_lt total (show 0 < n by omega)
    simp only
    rw [Nat.min_eq_right (Nat.le_of_lt h2)]
    omega

/-! ### the aggregate branch -/

section agg
variable {β : Type}

theorem aggFrames_some (cells : Nat → Val) (agg : Nat → List Val → β) (p : List Nat) : ∀ (fs : List Frame),
    (∀ f ∈ fs, 0 ≤ f.high - f.low + 1) →
    aggFrames cells agg p fs
      = some (fs.flatMap fun f => f.records.map fun idx => (idx, agg idx ((frameRecords p f.low f.high).map cells)))
  | [], _ => rfl
  | f :: fs, h => by
    have hf : ¬ f.high - f.low + 1 < 0 := by have := h f (by simp); omega
    simp only [aggFrames, windowValues, hf, if_false]
    rw [aggFrames_some cells agg p fs (fun g hg => h g (List.mem_cons_of_mem _ hg))]
    simp

theorem aggFrames_none (cells : Nat → Val) (agg : Nat → List Val → β) (p : List Nat) : ∀ (fs : List Frame),
    (∃ f ∈ fs, f.high - f.low + 1 < 0) → aggFrames cells agg p fs = none
  | [], h => by obtain ⟨f, hf, _⟩ := h; simp at hf
  | f :: fs, h => by
    by_cases hf : f.high - f.low + 1 < 0
    · simp [aggFrames, windowValues, hf]
    · have : ∃ g ∈ fs, g.high - g.low + 1 < 0 := by
        obtain ⟨g, hg, hlt⟩ := h
        rcases List.mem_cons.mp hg with rfl | hg
        · exact absurd hlt hf
        · exact ⟨g, hg, hlt⟩
      simp [aggFrames, windowValues, hf, aggFrames_none cells agg p fs this]

theorem mem_perRowFrames (p : List Nat) (lo hi : Nat → Int) (f : Frame) (h : f ∈ perRowFrames p lo hi) :
    ∃ k, k < p.length ∧ f.low = lo k ∧ f.high = hi k := by
  unfold perRowFrames at h
  obtain ⟨r, hr, rfl⟩ := List.mem_map.mp h
  have := List.mem_zipIdx_iff_getElem?.mp hr
  have hlt : r.2 < p.length := by
    rcases Nat.lt_or_ge r.2 p.length with h | h
    · exact h
    · rw [List.getElem?_eq_none h] at this; exact absurd this (by simp)
  exact ⟨r.2, hlt, rfl, rfl⟩

/-- every frame WindowFrameSet builds is the frame of some row, or the whole partition -/
theorem windowFrameSet_bounds (w : Window) (p : List Nat) (f : Frame) (h : f ∈ windowFrameSet p w) :
    (∃ k, k < p.length ∧ (f.low, f.high) = frameBounds w p.length k) ∨ (f.low = 0 ∧ f.high = (p.length : Int) - 1) := by
  cases w with
  | noOrder =>
    simp only [windowFrameSet, singleFrameSet, List.mem_singleton] at h; subst h; exact Or.inr ⟨rfl, rfl⟩
  | orderOnly =>
    simp only [windowFrameSet] at h
    obtain ⟨k, hk, h1, h2⟩ := mem_perRowFrames p _ _ f h
    exact Or.inl ⟨k, hk, by rw [h1, h2]; rfl⟩
  | rows lo =>
    simp only [windowFrameSet] at h
    obtain ⟨k, hk, h1, h2⟩ := mem_perRowFrames p _ _ f h
    exact Or.inl ⟨k, hk, by rw [h1, h2]; rfl⟩
  | between lo hi =>
    by_cases hb : lo = .unboundedPreceding ∧ hi = .unboundedFollowing
    · obtain ⟨rfl, rfl⟩ := hb
      simp only [windowFrameSet, singleFrameSet, List.mem_singleton] at h; subst h; exact Or.inr ⟨rfl, rfl⟩
    · have : windowFrameSet p (.between lo hi)
          = perRowFrames p (fun c => frameIndex c p.length lo) (fun c => frameIndex c p.length hi) := by
        cases lo <;> cases hi <;> simp_all [windowFrameSet]
      rw [this] at h
      obtain ⟨k, hk, h1, h2⟩ := mem_perRowFrames p _ _ f h
      exact Or.inl ⟨k, hk, by rw [h1, h2]; rfl⟩

theorem frames_not_inverted (w : Window) (p : List Nat) (hw : NoInvertedFrame w p.length) :
    ∀ f ∈ windowFrameSet p w, 0 ≤ f.high - f.low + 1 := by
  intro f hf
  rcases windowFrameSet_bounds w p f hf with ⟨k, hk, e⟩ | ⟨h1, h2⟩
  · have := hw k hk
    rw [← e] at this; exact this
  · rw [h1, h2]; omega

end agg

/-! ### partitions and the result column -/

section partitions
variable {κ : Type} [DecidableEq κ]

theorem partitionsOf_eq_spec (keys : List κ) : partitionsOf keys = groupSpec keys.zipIdx :=
  localGroups_eq_spec _

theorem mem_members_zipIdx (keys : List κ) (k : κ) (i : Nat) :
    i ∈ members k keys.zipIdx ↔ keys[i]? = some k := by
  unfold members
  simp only [List.mem_map, List.mem_filter, decide_eq_true_eq]
  constructor
  · rintro ⟨r, ⟨hr, hk⟩, hi⟩
    have := List.mem_zipIdx_iff_getElem?.mp hr
    rw [hi, hk] at this; exact this
  · intro h
    exact ⟨(k, i), ⟨List.mem_zipIdx_iff_getElem?.mpr h, rfl⟩, rfl⟩

theorem members_sorted (keys : List κ) (k : κ) : (members k keys.zipIdx).Pairwise (· < ·) := by
  unfold members
  rw [List.pairwise_map]
  apply List.Pairwise.sublist List.filter_sublist
  have h : (keys.zipIdx.map Prod.snd).Pairwise (· < ·) := by
    rw [List.zipIdx_map_snd]; exact List.pairwise_lt_range' (s := 0) (n := keys.length)
  exact List.pairwise_map.mp h

theorem mem_partitionsOf (keys : List κ) (part : κ × List Nat) :
    part ∈ partitionsOf keys ↔ part.1 ∈ keys ∧ part.2 = members part.1 keys.zipIdx := by
  rw [partitionsOf_eq_spec]; unfold groupSpec
  have hk : keys.zipIdx.map Prod.fst = keys := by simp
  rw [hk]
  simp only [List.mem_map, mem_firstOcc]
  constructor
  · rintro ⟨k, hk, rfl⟩; exact ⟨hk, rfl⟩
  · rintro ⟨h1, h2⟩; exact ⟨part.1, h1, by rw [← h2]⟩

end partitions

section assoc
variable {β : Type}

theorem assoc_append_left (i : Nat) (a b : List (Nat × β)) (h : i ∈ a.map Prod.fst) :
    assoc i (a ++ b) = assoc i a := by
  induction a with
  | nil => simp at h
  | cons e a ih =>
    obtain ⟨j, v⟩ := e
    simp only [List.cons_append, assoc]
    by_cases hj : j = i
    · simp [hj]
    · simp only [hj, if_false]
      apply ih
      simp only [List.map_cons, List.mem_cons] at h
      rcases h with h | h
      · exact absurd h.symm hj
      · exact h

theorem assoc_append_right (i : Nat) (a b : List (Nat × β)) (h : i ∉ a.map Prod.fst) :
    assoc i (a ++ b) = assoc i b := by
  induction a with
  | nil => rfl
  | cons e a ih =>
    obtain ⟨j, v⟩ := e
    simp only [List.map_cons, List.mem_cons, not_or] at h
    simp only [List.cons_append, assoc]
    have : ¬ j = i := fun e => h.1 e.symm
    simp only [this, if_false]
    exact ih h.2

theorem assoc_of_mem (i : Nat) (v : β) (l : List (Nat × β)) (hn : (l.map Prod.fst).Nodup) (h : (i, v) ∈ l) :
    assoc i l = some v := by
  induction l with
  | nil => simp at h
  | cons e l ih =>
    obtain ⟨j, w⟩ := e
    simp only [List.map_cons, List.nodup_cons] at hn
    simp only [assoc]
    rcases List.mem_cons.mp h with h | h
    · injection h with h1 h2; simp [h1, h2]
    · have : ¬ j = i := by
        intro e; subst e
        exact hn.1 (List.mem_map_of_mem (f := Prod.fst) h)
      simp only [this, if_false]
      exact ih hn.2 h

/-- the value of record `i` comes from the one partition that contains it -/
theorem assoc_flatMap {κ : Type} (exec : List Nat → List (Nat × β)) (i : Nat) (part0 : κ × List Nat) :
    ∀ (L : List (κ × List Nat)),
    (∀ part ∈ L, ∀ j, j ∈ (exec part.2).map Prod.fst ↔ j ∈ part.2) →
    part0 ∈ L → i ∈ part0.2 → (∀ part ∈ L, i ∈ part.2 → part = part0) →
    assoc i (L.flatMap fun part => exec part.2) = assoc i (exec part0.2) := by
  intro L
  induction L with
  | nil => intro _ h; simp at h
  | cons a L ih =>
    intro hmem h0 hi huniq
    simp only [List.flatMap_cons]
    by_cases ha : i ∈ a.2
    · have : a = part0 := huniq a (by simp) ha
      subst this
      exact assoc_append_left i _ _ ((hmem a (by simp) i).mpr ha)
    · rw [assoc_append_right i _ _ (fun h => ha ((hmem a (by simp) i).mp h))]
      have h0' : part0 ∈ L := by
        rcases List.mem_cons.mp h0 with h | h
        · subst h; exact absurd hi ha
        · exact h
      exact ih (fun part hp => hmem part (List.mem_cons_of_mem _ hp)) h0' hi
        (fun part hp => huniq part (List.mem_cons_of_mem _ hp))

theorem flatMap_congr' {α γ : Type} (f g : α → List γ) : ∀ (l : List α), (∀ a ∈ l, f a = g a) →
    l.flatMap f = l.flatMap g
  | [], _ => rfl
  | a :: l, h => by
    simp only [List.flatMap_cons]
    rw [h a (by simp), flatMap_congr' f g l (fun b hb => h b (List.mem_cons_of_mem _ hb))]

theorem nodup_reverse' {α : Type} (l : List α) (h : l.Nodup) : l.reverse.Nodup := by
  rw [List.nodup_iff_pairwise_ne] at h ⊢
  rw [List.pairwise_reverse]
  exact h.imp (fun hab => fun e => hab e.symm)

theorem flatMap_flatten {α γ : Type} (f : α → List γ) : ∀ (L : List (List α)),
    (L.flatMap fun c => c.flatMap f) = L.flatten.flatMap f
  | [] => rfl
  | c :: L => by simp [List.flatMap_cons, List.flatMap_append, flatMap_flatten f L]

end assoc

section analyze
variable {κ : Type} [DecidableEq κ] {β : Type}

theorem analyzeWith_eq (split : List (κ × List Nat) → List (List (κ × List Nat)))
    (hsplit : ∀ l, (split l).flatten = l) (exec : List Nat → List (Nat × β)) (keys : List κ) :
    analyzeWith split exec keys = analyze exec keys := by
  unfold analyze analyzeWith
  simp only [flatMap_flatten, hsplit, List.flatten_cons, List.flatten_nil, List.append_nil]

/-- record `i` receives the value its partition's `Execute` returned for it -/
theorem analyze_getElem (exec : List Nat → List (Nat × β))
    (hexec : ∀ p j, j ∈ (exec p).map Prod.fst ↔ j ∈ p) (keys : List κ) (i : Nat) (k : κ)
    (hk : keys[i]? = some k) :
    (analyze exec keys)[i]? = some (assoc i (exec (members k keys.zipIdx))) := by
  have hi : i < keys.length := by
    rcases Nat.lt_or_ge i keys.length with h | h
    · exact h
    · rw [List.getElem?_eq_none h] at hk; exact absurd hk (by simp)
  unfold analyze analyzeWith
  simp only [List.flatMap_cons, List.flatMap_nil, List.append_nil]
  rw [List.getElem?_map, List.getElem?_range hi]
  simp only [Option.map_some]
  congr 1
  have hmemk : k ∈ keys := List.mem_of_getElem? hk
  apply assoc_flatMap exec i (k, members k keys.zipIdx) (partitionsOf keys)
  · intro part _ j; exact hexec part.2 j
  · exact (mem_partitionsOf keys _).mpr ⟨hmemk, rfl⟩
  · exact (mem_members_zipIdx keys k i).mpr hk
  · intro part hp hip
    obtain ⟨_, h2⟩ := (mem_partitionsOf keys part).mp hp
    rw [h2] at hip
    have := (mem_members_zipIdx keys part.1 i).mp hip
    rw [hk] at this
    injection this with this
    cases part with
    | mk a b => simp only at this h2 ⊢; subst this; rw [h2]

end analyze

end Csvq.Analytic
