/-
  Helper lemmas for C17 (analytic functions).  Model: Csvq/Model/Analytic.lean.
-/
import Csvq.Model.Analytic
import Csvq.Lemmas.Group
namespace Csvq.Analytic
open Csvq

/-! ### Partition.Reverse on the ascending index lists Analyze builds -/

theorem insertDesc_of_all_lt (x : Nat) (l : List Nat) (h : ∀ y ∈ l, y < x) : insertDesc x l = x :: l := by
  cases l with
  | nil => rfl
  | cons y ys =>
    have : y ≤ x := Nat.le_of_lt (h y (by simp))
    simp [insertDesc, this]

theorem foldl_insertDesc (p : List Nat) : ∀ (acc : List Nat), p.Pairwise (· < ·) →
    (∀ a ∈ acc, ∀ b ∈ p, a < b) → p.foldl (fun acc x => insertDesc x acc) acc = p.reverse ++ acc := by
  induction p with
  | nil => intro acc _ _; simp
  | cons x xs ih =>
    intro acc hp hacc
    simp only [List.foldl_cons]
    have hx : insertDesc x acc = x :: acc := insertDesc_of_all_lt x acc (fun y hy => hacc y hy x (by simp))
    rw [hx, ih (x :: acc) (List.Pairwise.of_cons hp)]
    · simp
    · intro a ha b hb
      rcases List.mem_cons.mp ha with rfl | ha
      · exact List.rel_of_pairwise_cons hp hb
      · exact hacc a ha b (List.mem_cons_of_mem _ hb)

/-- on a strictly ascending partition `Partition.Reverse()` is the reversal -/
theorem sortDesc_eq_reverse (p : List Nat) (hp : p.Pairwise (· < ·)) : sortDesc p = p.reverse := by
  unfold sortDesc
  rw [foldl_insertDesc p [] hp (by simp)]; simp

/-! ### perRow -/

section perRow
variable {β : Type}

theorem perRow_map_fst (f : List Nat → Nat → List Nat → β) : ∀ (rest pre : List Nat),
    (perRow f pre rest).map Prod.fst = rest
  | [], _ => rfl
  | x :: post, pre => by simp [perRow, perRow_map_fst f post]

theorem perRow_length (f : List Nat → Nat → List Nat → β) (pre rest : List Nat) :
    (perRow f pre rest).length = rest.length := by
  have := congrArg List.length (perRow_map_fst f rest pre); simpa using this

theorem perRow_congr (f g : List Nat → Nat → List Nat → β) : ∀ (rest pre : List Nat),
    (∀ a x b, rest = a ++ x :: b → f (pre ++ a) x b = g (pre ++ a) x b) → perRow f pre rest = perRow g pre rest
  | [], _, _ => rfl
  | x :: post, pre, h => by
    simp only [perRow]
    rw [show f pre x post = g pre x post from by simpa using h [] x post rfl]
    rw [perRow_congr f g post (pre ++ [x])]
    intro a y b e
    have := h (x :: a) y b (by simp [e])
    simpa using this

theorem perRow_mem (f : List Nat → Nat → List Nat → β) : ∀ (a pre : List Nat) (x : Nat) (b : List Nat),
    (x, f (pre ++ a) x b) ∈ perRow f pre (a ++ x :: b)
  | [], pre, x, b => by simp [perRow]
  | y :: a, pre, x, b => by
    simp only [List.cons_append, perRow, List.mem_cons]
    right
    have := perRow_mem f a (pre ++ [y]) x b
    simpa using this

/-- a definition that does not depend on the position gives every row the same value -/
theorem perRow_const (f : List Nat → Nat → List Nat → β) (c : Nat → β) : ∀ (rest pre : List Nat),
    (∀ a x b, rest = a ++ x :: b → f (pre ++ a) x b = c x) → perRow f pre rest = rest.map fun x => (x, c x)
  | [], _, _ => rfl
  | x :: post, pre, h => by
    simp only [perRow, List.map_cons]
    rw [show f pre x post = c x from by simpa using h [] x post rfl]
    rw [perRow_const f c post (pre ++ [x])]
    intro a y b e
    have := h (x :: a) y b (by simp [e])
    simpa using this

/-- a definition that depends on the position only -/
theorem perRow_eq_zipIdx (f : List Nat → Nat → List Nat → β) (G : Nat → Nat → β) : ∀ (rest pre : List Nat),
    (∀ a x b, rest = a ++ x :: b → f (pre ++ a) x b = G x (pre.length + a.length)) →
    perRow f pre rest = (rest.zipIdx pre.length).map fun r => (r.1, G r.1 r.2)
  | [], _, _ => rfl
  | x :: post, pre, h => by
    simp only [perRow, List.zipIdx_cons, List.map_cons]
    rw [show f pre x post = G x pre.length from by simpa using h [] x post rfl]
    rw [perRow_eq_zipIdx f G post (pre ++ [x])]
    · simp
    · intro a y b e
      have := h (x :: a) y b (by simp [e])
      simp only [List.length_append, List.length_cons, List.length_nil]
      rw [show pre.length + (0 + 1) + a.length = pre.length + (a.length + 1) by omega]
      simpa using this

theorem perRow_snoc (f : List Nat → Nat → List Nat → β) (y : Nat) : ∀ (r pre : List Nat),
    perRow f pre (r ++ [y]) = perRow (fun pr x po => f pr x (po ++ [y])) pre r ++ [(y, f (pre ++ r) y [])]
  | [], pre => by simp [perRow]
  | x :: r, pre => by
    simp only [List.cons_append, perRow]
    rw [perRow_snoc f y r (pre ++ [x])]
    simp

/-- processing the reversed partition: the roles of "before" and "after" are exchanged -/
theorem perRow_reverse_aux (f : List Nat → Nat → List Nat → β) : ∀ (c a : List Nat),
    perRow f a.reverse c = (perRow (fun pre x post => f (post ++ a).reverse x pre.reverse) [] c.reverse).reverse
  | [], a => by simp [perRow]
  | y :: c, a => by
    simp only [perRow, List.reverse_cons]
    rw [perRow_snoc]
    have := perRow_reverse_aux f c (y :: a)
    simp only [List.reverse_cons] at this
    rw [this]
    simp

theorem perRow_reverse (f : List Nat → Nat → List Nat → β) (p : List Nat) :
    perRow f [] p.reverse = (perRow (fun pre x post => f post.reverse x pre.reverse) [] p).reverse := by
  have := perRow_reverse_aux f p.reverse []
  simpa using this

end perRow

/-! ### window frames -/

section frames
variable {β : Type}

theorem frameRows_eq (w : Window) (a : List Nat) (x : Nat) (b : List Nat) (p : List Nat) (hp : p = a ++ x :: b) :
    frameRows w a x b = frameRecords p (frameBounds w p.length a.length).1 (frameBounds w p.length a.length).2 := by
  subst hp
  have : (a ++ x :: b).length = a.length + 1 + b.length := by simp; omega
  unfold frameRows; rw [this]

theorem perRowFrames_flatMap (V : Nat → Int → Int → β) (p : List Nat) (lo hi : Nat → Int) :
    (perRowFrames p lo hi).flatMap (fun f => f.records.map fun idx => (idx, V idx f.low f.high))
      = p.zipIdx.map fun r => (r.1, V r.1 (lo r.2) (hi r.2)) := by
  unfold perRowFrames
  rw [List.flatMap_map]
  generalize p.zipIdx = l
  induction l with
  | nil => rfl
  | cons a l ih =>
    simp only [List.flatMap_cons, List.map_cons, List.map_nil, List.singleton_append] at ih ⊢
    rw [ih]

theorem singleFrame_flatMap (V : Nat → Int → Int → β) (p : List Nat) :
    (singleFrameSet p).flatMap (fun f => f.records.map fun idx => (idx, V idx f.low f.high))
      = p.map fun idx => (idx, V idx 0 ((p.length : Int) - 1)) := by
  simp [singleFrameSet]

/-- WindowFrameSet hands every record the frame `frameBounds` of its position -/
theorem frames_bounds (V : Nat → Int → Int → β) (w : Window) (p : List Nat) :
    (windowFrameSet p w).flatMap (fun f => f.records.map fun idx => (idx, V idx f.low f.high))
      = perRow (fun pre x _ => V x (frameBounds w p.length pre.length).1 (frameBounds w p.length pre.length).2) [] p := by
  have single : ∀ (w' : Window), (∀ k, frameBounds w' p.length k = (0, (p.length : Int) - 1)) →
      p.map (fun idx => (idx, V idx 0 ((p.length : Int) - 1)))
        = perRow (fun pre x _ => V x (frameBounds w' p.length pre.length).1 (frameBounds w' p.length pre.length).2) [] p := by
    intro w' hw
    rw [perRow_const _ (fun x => V x 0 ((p.length : Int) - 1)) p []]
    intro a x b _
    simp [hw]
  have each : ∀ (w' : Window) (lo hi : Nat → Int), (∀ k, frameBounds w' p.length k = (lo k, hi k)) →
      p.zipIdx.map (fun r => (r.1, V r.1 (lo r.2) (hi r.2)))
        = perRow (fun pre x _ => V x (frameBounds w' p.length pre.length).1 (frameBounds w' p.length pre.length).2) [] p := by
    intro w' lo hi hw
    rw [perRow_eq_zipIdx _ (fun x k => V x (lo k) (hi k)) p []]
    · simp
    · intro a x b _
      simp [hw]
  cases w with
  | noOrder =>
    simp only [windowFrameSet]; rw [singleFrame_flatMap]; exact single .noOrder (fun k => rfl)
  | orderOnly =>
    simp only [windowFrameSet]; rw [perRowFrames_flatMap]
    exact each .orderOnly (fun c => frameIndex c p.length .unboundedPreceding) (fun c => (c : Int)) (fun k => rfl)
  | rows lo =>
    simp only [windowFrameSet]; rw [perRowFrames_flatMap]
    exact each (.rows lo) (fun c => frameIndex c p.length lo) (fun c => (c : Int)) (fun k => rfl)
  | between lo hi =>
    by_cases h : lo = .unboundedPreceding ∧ hi = .unboundedFollowing
    · obtain ⟨rfl, rfl⟩ := h
      simp only [windowFrameSet]; rw [singleFrame_flatMap]
      exact single (.between .unboundedPreceding .unboundedFollowing) (fun k => rfl)
    · have : windowFrameSet p (.between lo hi)
          = perRowFrames p (fun c => frameIndex c p.length lo) (fun c => frameIndex c p.length hi) := by
        cases lo <;> cases hi <;> simp_all [windowFrameSet]
      rw [this, perRowFrames_flatMap]
      exact each (.between lo hi) (fun c => frameIndex c p.length lo) (fun c => frameIndex c p.length hi) (fun k => rfl)

/-- the same with the frame's records instead of its bounds -/
theorem frames_spec (F : Nat → List Nat → β) (w : Window) (p : List Nat) :
    (windowFrameSet p w).flatMap (fun f => f.records.map fun idx => (idx, F idx (frameRecords p f.low f.high)))
      = perRow (fun pre x post => F x (frameRows w pre x post)) [] p := by
  rw [frames_bounds (fun idx lo hi => F idx (frameRecords p lo hi)) w p]
  apply perRow_congr
  intro a x b e
  simp only [List.nil_append]
  rw [frameRows_eq w a x b p e]

end frames

/-! ### setNthValue's inner loop -/

theorem isNullV_eq (v : Val) (h : isNullV v = true) : v = .null := by
  cases v <;> simp_all [isNullV]

theorem keptCells_cons (cells : Nat → Val) (ign : Bool) (r : Nat) (rest : List Nat) :
    keptCells cells ign (r :: rest) =
      if keepV ign (cells r) then cells r :: keptCells cells ign rest else keptCells cells ign rest := by
  simp [keptCells, List.filter_cons]

/-- what the loop leaves in `val`: the n-th counted cell if there is one, otherwise the LAST VISITED
    cell (or the initial `val` if no cell was visited) -/
theorem scanNth_spec (cells : Nat → Val) (ign : Bool) (n : Nat) : ∀ (rows : List Nat) (val : Val) (count : Nat),
    count < n →
    scanNth cells ign n rows val count =
      match (keptCells cells ign rows)[n - 1 - count]? with
      | some v => v
      | none => ((rows.map cells).getLast?).getD val := by
  intro rows
  induction rows with
  | nil => intro val count _; simp [scanNth, keptCells]
  | cons r rest ih =>
    intro val count hc
    rw [keptCells_cons]
    by_cases hk : (ign && isNullV (cells r)) = true
    · have hkeep : keepV ign (cells r) = false := by simp [keepV, hk]
      simp only [scanNth, hk, if_true, hkeep, Bool.false_eq_true, if_false]
      rw [ih (cells r) count hc]
      simp [List.getLast?_cons]
    · have hkeep : keepV ign (cells r) = true := by simp [keepV, hk]
      simp only [scanNth, hk, Bool.false_eq_true, if_false, hkeep, if_true]
      by_cases hn : count + 1 = n
      · have : n - 1 - count = 0 := by omega
        simp [hn, this]
      · simp only [hn, if_false]
        rw [ih (cells r) (count + 1) (by omega)]
        have : n - 1 - count = (n - 1 - (count + 1)) + 1 := by omega
        rw [this, List.getElem?_cons_succ]
        simp [List.getLast?_cons]

theorem keptCells_nil_last_null (cells : Nat → Val) (ign : Bool) (rows : List Nat)
    (h : keptCells cells ign rows = []) : ((rows.map cells).getLast?).getD .null = .null := by
  cases hl : (rows.map cells).getLast? with
  | none => rfl
  | some c =>
    have hm : c ∈ rows.map cells := List.mem_of_getLast? hl
    have : keepV ign c = false := by
      have := List.filter_eq_nil_iff.mp (show (rows.map cells).filter (keepV ign) = [] from h) c hm
      simpa using this
    have : isNullV c = true := by
      unfold keepV at this
      cases ign <;> simp_all
    simp [isNullV_eq c this]

/-- FIRST_VALUE's loop (n = 1) -/
theorem scanNth_first (cells : Nat → Val) (ign : Bool) (rows : List Nat) :
    scanNth cells ign 1 rows .null 0 = (keptCells cells ign rows).head?.getD .null := by
  rw [scanNth_spec cells ign 1 rows .null 0 (by omega)]
  cases hk : keptCells cells ign rows with
  | nil =>
    have h := keptCells_nil_last_null cells ign rows hk
    simpa using h
  | cons v vs => simp

/-- NTH_VALUE's loop when the frame holds at least n counted cells -/
theorem scanNth_enough (cells : Nat → Val) (ign : Bool) (n : Nat) (rows : List Nat) (h1 : 1 ≤ n)
    (h : n ≤ (keptCells cells ign rows).length) :
    scanNth cells ign n rows .null 0 = ((keptCells cells ign rows)[n - 1]?).getD .null := by
  rw [scanNth_spec cells ign n rows .null 0 (by omega)]
  have : n - 1 - 0 = n - 1 := by omega
  rw [this]
  have hlt : n - 1 < (keptCells cells ign rows).length := by omega
  rw [List.getElem?_eq_getElem hlt]
  simp

/-! ### LAG -/

theorem lagPick_eq (cells : Nat → Val) (ign : Bool) (dflt : Val) (offset : Int) (pre : List Nat) (x : Nat) (post : List Nat) :
    lagPick ign dflt offset (cells x :: (pre.map cells).reverse) = lagSpec cells ign dflt offset pre x post := by
  unfold lagPick lagSpec
  have : cells x :: (pre.map cells).reverse = ((pre ++ [x]).map cells).reverse := by simp
  rw [this]
  split
  · rfl
  · cases (List.drop offset.toNat ((pre ++ [x]).map cells).reverse).find? (keepV ign) <;> rfl

theorem lagLoop_spec (cells : Nat → Val) (ign : Bool) (dflt : Val) (offset : Int) : ∀ (rest pre : List Nat),
    lagLoop cells ign dflt offset rest (pre.map cells).reverse = perRow (lagSpec cells ign dflt offset) pre rest
  | [], _ => rfl
  | x :: rest, pre => by
    simp only [lagLoop, perRow]
    rw [lagPick_eq cells ign dflt offset pre x rest]
    have : cells x :: (pre.map cells).reverse = ((pre ++ [x]).map cells).reverse := by simp
    rw [this, lagLoop_spec cells ign dflt offset rest (pre ++ [x])]

/-! ### frames of the reversed partition -/

theorem take_drop_norm {α : Type} (p : List α) (a b : Nat) :
    (p.take b).drop a = (p.take (min b p.length)).drop (min a (min b p.length)) := by
  have h1 : p.take b = p.take (min b p.length) := by
    by_cases hb : b ≤ p.length
    · rw [Nat.min_eq_left hb]
    · rw [Nat.min_eq_right (by omega), List.take_of_length_le (by omega), List.take_of_length_le (Nat.le_refl _)]
  rw [h1]
  have hl : (p.take (min b p.length)).length = min b p.length := by simp
  by_cases ha : a ≤ min b p.length
  · rw [Nat.min_eq_left ha]
  · rw [Nat.min_eq_right (a := a) (b := min b p.length) (by omega),
      List.drop_eq_nil_of_le (by omega), List.drop_eq_nil_of_le (by omega)]

theorem take_drop_congr {α : Type} (p : List α) (a1 b1 a2 b2 : Nat)
    (h : (min b1 p.length ≤ a1 ∧ min b2 p.length ≤ a2) ∨
      (min b1 p.length = min b2 p.length ∧ min a1 (min b1 p.length) = min a2 (min b2 p.length))) :
    (p.take b1).drop a1 = (p.take b2).drop a2 := by
  rcases h with ⟨h1, h2⟩ | ⟨h1, h2⟩
  · rw [List.drop_eq_nil_of_le (by simpa using h1), List.drop_eq_nil_of_le (by simpa using h2)]
  · rw [take_drop_norm p a1 b1, take_drop_norm p a2 b2, h2, h1]

theorem frameRecords_reverse (p : List Nat) (lo hi : Int) :
    frameRecords p.reverse lo hi
      = (frameRecords p ((p.length : Int) - 1 - hi) ((p.length : Int) - 1 - lo)).reverse := by
  unfold frameRecords
  rw [List.take_reverse, List.drop_reverse, List.take_drop]
  congr 1
  have h1 := Int.toNat_eq_max (hi + 1)
  have h2 := Int.toNat_eq_max lo
  have h3 := Int.toNat_eq_max ((p.length : Int) - 1 - lo + 1)
  have h4 := Int.toNat_eq_max ((p.length : Int) - 1 - hi)
  generalize (hi + 1).toNat = A at *
  generalize lo.toNat = B at *
  generalize ((p.length : Int) - 1 - lo + 1).toNat = C at *
  generalize ((p.length : Int) - 1 - hi).toNat = D at *
  apply take_drop_congr
  simp only [List.length_drop]
  omega

theorem bounds_mirror (w : Window) (len k : Nat) (hk : k < len) :
    frameBounds (mirror w) len k
      = ((len : Int) - 1 - (frameBounds w len (len - 1 - k)).2, (len : Int) - 1 - (frameBounds w len (len - 1 - k)).1) := by
  have hc : ((len - 1 - k : Nat) : Int) = (len : Int) - 1 - (k : Int) := by omega
  cases w with
  | noOrder => simp [mirror, frameBounds]
  | orderOnly => simp [mirror, frameBounds, frameIndex, hc]; omega
  | rows lo => cases lo <;> simp [mirror, frameBounds, frameIndex, flipBound, hc] <;> omega
  | between lo hi =>
    cases lo <;> cases hi <;> simp [mirror, frameBounds, frameIndex, flipBound, hc] <;> omega

theorem keptCells_reverse (cells : Nat → Val) (ign : Bool) (rows : List Nat) :
    keptCells cells ign rows.reverse = (keptCells cells ign rows).reverse := by
  simp [keptCells, List.map_reverse, List.filter_reverse]

/-- FIRST value of the frame taken on the reversed partition = LAST value of the mirrored frame -/
theorem firstValueSpec_reverse (cells : Nat → Val) (ign : Bool) (w : Window) (pre : List Nat) (x : Nat) (post : List Nat) :
    firstValueSpec cells ign w post.reverse x pre.reverse = lastValueSpec cells ign (mirror w) pre x post := by
  unfold firstValueSpec lastValueSpec frameRows
  have e : post.reverse ++ x :: pre.reverse = (pre ++ x :: post).reverse := by simp
  have hl : (pre ++ x :: post).length = pre.length + 1 + post.length := by simp; omega
  rw [e, frameRecords_reverse, keptCells_reverse, List.head?_reverse]
  have hb := bounds_mirror w (pre.length + 1 + post.length) pre.length (by omega)
  have hk : pre.length + 1 + post.length - 1 - pre.length = post.length := by omega
  rw [hk] at hb
  simp only [List.length_reverse]
  rw [show post.length + 1 + pre.length = pre.length + 1 + post.length by omega]
  rw [hb, hl]

end Csvq.Analytic
