/-
  Helper lemmas for C05 / C08 (INSERT / UPDATE / DELETE / REPLACE / ALTER TABLE on the model of
  Csvq.Model.Dml).
-/
import Csvq.Model.Dml
namespace Csvq.Dml
open Csvq

/-- the cell in record `i`, column `j` of a list of records -/
def cellAt (rows : List Row) (i j : Nat) : Option Cell := (rows[i]?).bind fun r => r[j]?

theorem length_filter_not_add_countP {α} (p : α → Bool) (l : List α) :
    l.length = (l.filter fun a => !p a).length + l.countP p := by
  induction l with
  | nil => rfl
  | cons a as ih =>
    rw [List.filter_cons, List.countP_cons]
    cases hp : p a <;> simp [ih] <;> omega

/-! ## firstIdx, colIndex, fieldIndices -/

theorem firstIdx_some {α} [DecidableEq α] (a : α) : ∀ (l : List α) (i : Nat), firstIdx a l = some i →
    l[i]? = some a ∧ ∀ j, j < i → l[j]? ≠ some a := by
  intro l
  induction l with
  | nil => intro i h; simp [firstIdx] at h
  | cons c cs ih =>
    intro i h
    unfold firstIdx at h
    split at h
    · rename_i hc
      cases h
      exact ⟨by simp [hc], by intro j hj; omega⟩
    · rename_i hc
      cases hr : firstIdx a cs with
      | none => simp [hr] at h
      | some k =>
        simp [hr] at h
        subst h
        obtain ⟨h1, h2⟩ := ih k hr
        refine ⟨by simpa using h1, ?_⟩
        intro j hj
        cases j with
        | zero => simp; exact hc
        | succ j => simp; exact h2 j (by omega)

theorem firstIdx_none {α} [DecidableEq α] (a : α) : ∀ (l : List α), firstIdx a l = none ↔ a ∉ l := by
  intro l
  induction l with
  | nil => simp [firstIdx]
  | cons c cs ih =>
    unfold firstIdx
    by_cases hc : c = a
    · simp [hc]
    · have hc' : ¬ a = c := fun h => hc h.symm
      simp [hc, hc', ih]

theorem firstIdx_lt {α} [DecidableEq α] (a : α) (l : List α) (i : Nat) (h : firstIdx a l = some i) : i < l.length := by
  have := (firstIdx_some a l i h).1
  exact (List.getElem?_eq_some_iff.mp this).1

/-- a successful lookup returns the only column of that name -/
theorem colIndex_ok (h : List String) (n : String) (i : Nat) (hk : colIndex h n = .ok i) :
    h[i]? = some n ∧ ∀ j, h[j]? = some n → j = i := by
  unfold colIndex at hk
  cases hf : firstIdx n h with
  | none => simp [hf] at hk
  | some k =>
    simp only [hf] at hk
    split at hk
    · cases hk
    · rename_i hnot
      cases hk
      obtain ⟨h1, h2⟩ := firstIdx_some n h i hf
      refine ⟨h1, ?_⟩
      intro j hj
      rcases Nat.lt_trichotomy j i with hlt | heq | hgt
      · exact absurd hj (h2 j hlt)
      · exact heq
      · exfalso
        apply hnot
        rw [List.mem_iff_getElem?]
        refine ⟨j - (i + 1), ?_⟩
        rw [List.getElem?_drop]
        have : i + 1 + (j - (i + 1)) = j := by omega
        rw [this]; exact hj

theorem colIndex_lt (h : List String) (n : String) (i : Nat) (hk : colIndex h n = .ok i) : i < h.length :=
  (List.getElem?_eq_some_iff.mp (colIndex_ok h n i hk).1).1

/-- `fieldIndices` succeeded: position by position the index of the named column -/
def IndicesOf (h : List String) : List String → List Nat → Prop
  | [], [] => True
  | f :: fs, i :: is => colIndex h f = .ok i ∧ IndicesOf h fs is
  | _, _ => False

theorem fieldIndices_ok (h : List String) : ∀ (fs : List String) (is : List Nat),
    fieldIndices h fs = .ok is → IndicesOf h fs is := by
  intro fs
  induction fs with
  | nil => intro is hk; simp [fieldIndices] at hk; subst hk; trivial
  | cons f fs ih =>
    intro is hk
    unfold fieldIndices at hk
    cases hc : colIndex h f with
    | error e => simp [hc] at hk
    | ok i =>
      simp only [hc] at hk
      cases hr : fieldIndices h fs with
      | error e => simp [hr] at hk
      | ok is' =>
        simp only [hr] at hk
        cases hk
        exact ⟨hc, ih is' hr⟩

theorem IndicesOf.length {h : List String} : ∀ {fs : List String} {is : List Nat}, IndicesOf h fs is → is.length = fs.length := by
  intro fs
  induction fs with
  | nil => intro is hi; cases is with
    | nil => rfl
    | cons _ _ => exact hi.elim
  | cons f fs ih => intro is hi; cases is with
    | nil => exact hi.elim
    | cons i is => simp [ih hi.2]

theorem IndicesOf.lt {h : List String} : ∀ {fs : List String} {is : List Nat}, IndicesOf h fs is → ∀ i ∈ is, i < h.length := by
  intro fs
  induction fs with
  | nil => intro is hi; cases is with
    | nil => intro i hi'; cases hi'
    | cons _ _ => exact hi.elim
  | cons f fs ih => intro is hi; cases is with
    | nil => exact hi.elim
    | cons k is =>
      intro i hmem
      cases hmem with
      | head => exact colIndex_lt h f _ hi.1
      | tail _ hm => exact ih hi.2 i hm

/-- the index-based and the name-based lookup of INSERT agree -/
theorem firstIdx_indices (h : List String) (j : Nat) (c : String) (hj : h[j]? = some c) :
    ∀ (fs : List String) (is : List Nat), IndicesOf h fs is → firstIdx j is = firstIdx c fs := by
  intro fs
  induction fs with
  | nil => intro is hi; cases is with
    | nil => rfl
    | cons _ _ => exact hi.elim
  | cons f fs ih =>
    intro is hi
    cases is with
    | nil => exact hi.elim
    | cons i is =>
      obtain ⟨h1, h2⟩ := colIndex_ok h f i hi.1
      unfold firstIdx
      rw [ih is hi.2]
      by_cases hij : i = j
      · subst hij
        have : f = c := by rw [h1] at hj; exact Option.some.inj hj
        simp [this]
      · have : ¬ f = c := by
          intro hfc; subst hfc
          exact hij (h2 j hj).symm
        simp [hij, this]

theorem buildRecord_eq_placeRow (h fields : List String) (fidx : List Nat) (vals : Row)
    (hi : IndicesOf h fields fidx) : buildRecord h.length fidx vals = placeRow h fields vals := by
  unfold buildRecord placeRow
  apply List.ext_getElem?
  intro j
  simp only [List.getElem?_map]
  by_cases hj : j < h.length
  · rw [List.getElem?_range hj]
    have hc : h[j]? = some h[j] := List.getElem?_eq_getElem hj
    rw [hc]
    simp only [Option.map_some]
    rw [firstIdx_indices h j h[j] hc fields fidx hi]
  · have h1 : (List.range h.length)[j]? = none := by
      apply List.getElem?_eq_none; simp; omega
    have h2 : h[j]? = none := List.getElem?_eq_none (by omega)
    rw [h1, h2]; rfl

theorem buildRecord_length (w : Nat) (fidx : List Nat) (vals : Row) : (buildRecord w fidx vals).length = w := by
  simp [buildRecord]

/-! ## convertList -/

theorem convertList_ok (n : Nat) : ∀ (given : List (Except Err Row)) (vals : List Row),
    convertList n given = .ok vals → given = vals.map .ok ∧ ∀ v ∈ vals, v.length = n := by
  intro given
  induction given with
  | nil => intro vals h; simp [convertList] at h; subst h; simp
  | cons g gs ih =>
    intro vals h
    unfold convertList at h
    cases g with
    | error e => simp at h
    | ok v =>
      simp only at h
      split at h
      · cases h
      · rename_i hl
        cases hr : convertList n gs with
        | error e => simp [hr] at h
        | ok rest =>
          simp only [hr] at h
          cases h
          obtain ⟨h1, h2⟩ := ih rest hr
          refine ⟨by simp [h1], ?_⟩
          intro x hx
          cases hx with
          | head => simpa using hl
          | tail _ hm => exact h2 x hm

/-- any VALUES row may fail after the earlier rows evaluated: the statement fails with that error -/
theorem convertList_fails_at (n : Nat) (e : Err) : ∀ (given : List (Except Err Row)) (k : Nat),
    given[k]? = some (.error e) →
    (∀ i, i < k → ∃ v, given[i]? = some (.ok v) ∧ v.length = n) →
    convertList n given = .error e := by
  intro given
  induction given with
  | nil => intro k h; simp at h
  | cons g gs ih =>
    intro k hk hbefore
    cases k with
    | zero =>
      simp at hk; subst hk
      simp [convertList]
    | succ k =>
      obtain ⟨v, hv, hl⟩ := hbefore 0 (by omega)
      simp at hv; subst hv
      unfold convertList
      simp only [hl, ne_eq, not_true_eq_false, if_false]
      have := ih k (by simpa using hk) (by
        intro i hi
        obtain ⟨v', hv', hl'⟩ := hbefore (i + 1) (by omega)
        exact ⟨v', by simpa using hv', hl'⟩)
      simp [this]

theorem convertList_wrong_length_at (n : Nat) : ∀ (given : List (Except Err Row)) (k : Nat) (w : Row),
    given[k]? = some (.ok w) → w.length ≠ n →
    (∀ i, i < k → ∃ v, given[i]? = some (.ok v) ∧ v.length = n) →
    convertList n given = .error .rowLen := by
  intro given
  induction given with
  | nil => intro k w h; simp at h
  | cons g gs ih =>
    intro k w hk hw hbefore
    cases k with
    | zero =>
      simp at hk; subst hk
      simp [convertList, hw]
    | succ k =>
      obtain ⟨v, hv, hl⟩ := hbefore 0 (by omega)
      simp at hv; subst hv
      unfold convertList
      simp only [hl, ne_eq, not_true_eq_false, if_false]
      have := ih k w (by simpa using hk) hw (by
        intro i hi
        obtain ⟨v', hv', hl'⟩ := hbefore (i + 1) (by omega)
        exact ⟨v', by simpa using hv', hl'⟩)
      simp [this]

/-! ## UPDATE -/

theorem modify_modify_same {α} (f g : α → α) (i : Nat) (l : List α) :
    (l.modify i f).modify i g = l.modify i (g ∘ f) := by
  apply List.ext_getElem?
  intro j
  simp only [List.getElem?_modify]
  cases l[j]? with
  | none => rfl
  | some a => by_cases h : i = j <;> simp [h]

theorem rewriteRow_cons_ok {ρ : Type} (h : List String) (s : SetItem ρ) (ss : List (SetItem ρ)) (ctx : ρ) (row : Row)
    (j : Nat) (v : Cell) (hj : colIndex h s.field = .ok j) (hv : s.expr ctx = .ok v) :
    rewriteRow h (s :: ss) ctx row = rewriteRow h ss ctx (row.set j v) := by
  simp [rewriteRow, hj, hv]

/-- rows and counted ids after the SET list of one view record -/
theorem applySets_ok {ρ : Type} (h : List String) (id : Option Nat) (ctx : ρ) :
    ∀ (sets : List (SetItem ρ)) (st st' : UpdSt), applySets h id ctx sets st = .ok st' →
      st'.rows = (match id with
        | none => st.rows
        | some i => st.rows.modify i (rewriteRow h sets ctx)) ∧
      st'.ids = (match id, sets with
        | some i, _ :: _ => addId st.ids i
        | _, _ => st.ids) := by
  intro sets
  induction sets with
  | nil =>
    intro st st' hk
    simp [applySets] at hk; subst hk
    cases id with
    | none => simp
    | some i =>
      refine ⟨?_, rfl⟩
      apply List.ext_getElem?
      intro j
      simp only [List.getElem?_modify]
      cases st.rows[j]? with
      | none => rfl
      | some a => by_cases hh : i = j <;> simp [hh, rewriteRow]
  | cons s ss ih =>
    intro st st' hk
    unfold applySets at hk
    cases hv : s.expr ctx with
    | error e => simp [hv] at hk
    | ok v =>
      simp only [hv] at hk
      cases hj : colIndex h s.field with
      | error e => simp [hj] at hk
      | ok j =>
        simp only [hj] at hk
        cases id with
        | none => simp at hk
        | some i =>
          simp only at hk
          split at hk
          · cases hk
          · obtain ⟨h1, h2⟩ := ih _ st' hk
            simp only at h1 h2
            constructor
            · rw [h1]
              unfold setCell
              rw [modify_modify_same]
              congr 1
              funext row
              simp [rewriteRow_cons_ok h s ss ctx row j v hj hv]
            · rw [h2]
              cases ss with
              | nil => rfl
              | cons s2 ss2 =>
                simp only
                unfold addId
                by_cases hm : i ∈ st.ids
                · simp [hm]
                · simp [hm]

/-- ids counted over a view (the Go `updatedCount` / `deletedIndices` maps) -/
theorem updateLoop_ok {ρ : Type} (h : List String) (sets : List (SetItem ρ)) :
    ∀ (view : List (Option Nat × ρ)) (st st' : UpdSt), updateLoop h sets view st = .ok st' →
      st'.rows = updateViewRows h sets view st.rows ∧
      (sets ≠ [] → st'.ids = collectIds (view.map Prod.fst) st.ids) ∧
      (sets = [] → st'.ids = st.ids) := by
  intro view
  induction view with
  | nil =>
    intro st st' hk
    simp [updateLoop] at hk; subst hk
    simp [updateViewRows, collectIds]
  | cons x rest ih =>
    intro st st' hk
    unfold updateLoop at hk
    cases ha : applySets h x.1 x.2 sets st with
    | error e => simp [ha] at hk
    | ok st1 =>
      simp only [ha] at hk
      obtain ⟨r1, i1⟩ := applySets_ok h x.1 x.2 sets st st1 ha
      obtain ⟨r2, i2, i3⟩ := ih st1 st' hk
      refine ⟨?_, ?_, ?_⟩
      · rw [r2, r1]
        unfold updateViewRows
        simp only [List.foldl_cons]
        cases x.1 <;> rfl
      · intro hne
        rw [i2 hne, i1]
        cases hx : x.1 with
        | none => simp [collectIds, hx]
        | some i =>
          cases sets with
          | nil => exact absurd rfl hne
          | cons s ss => simp [collectIds, hx]
      · intro he
        rw [i3 he, i1]
        subst he
        cases x.1 <;> rfl

theorem updateCore_ok {ρ : Type} (view : List (Option Nat × ρ)) (sets : List (SetItem ρ)) (t t' : Table) (n : Nat)
    (hk : updateCore view sets t = .ok (t', n)) :
    t'.header = t.header ∧ t'.rows = updateViewRows t.header sets view t.rows ∧
    (sets ≠ [] → n = (collectIds (view.map Prod.fst) []).length) ∧ (sets = [] → n = 0) := by
  unfold updateCore at hk
  cases hl : updateLoop t.header sets view { rows := t.rows, touched := [], ids := [] } with
  | error e => simp [hl] at hk
  | ok st =>
    simp only [hl] at hk
    cases hk
    obtain ⟨r, i1, i2⟩ := updateLoop_ok t.header sets view _ st hl
    refine ⟨rfl, r, ?_, ?_⟩
    · intro hne; rw [i1 hne]
    · intro he; rw [i2 he]; rfl

/-! ### the filtered view of a single table -/

theorem filterView_ok {ρ : Type} (cond : ρ → Except Err Tern) : ∀ (xs ys : List (Option Nat × ρ)),
    filterView cond xs = .ok ys →
    (∀ x ∈ xs, ∃ c, cond x.2 = .ok c) ∧ ys = xs.filter (fun x => condT cond x.2) := by
  intro xs
  induction xs with
  | nil => intro ys hk; simp [filterView] at hk; subst hk; simp
  | cons x xs ih =>
    intro ys hk
    unfold filterView at hk
    cases hc : cond x.2 with
    | error e => simp [hc] at hk
    | ok c =>
      simp only [hc] at hk
      cases hr : filterView cond xs with
      | error e => simp [hr] at hk
      | ok ys' =>
        simp only [hr] at hk
        cases hk
        obtain ⟨h1, h2⟩ := ih ys' hr
        constructor
        · intro y hy
          cases hy with
          | head => exact ⟨c, hc⟩
          | tail _ hm => exact h1 y hm
        · rw [List.filter_cons]
          have hx : condT cond x.2 = isT c := by simp [condT, hc]
          rw [hx]
          cases hT : isT c <;> simp [h2]

/-- the k-th record's condition fails to evaluate after the earlier ones evaluated: the statement fails -/
theorem filterView_fails_at {ρ : Type} (cond : ρ → Except Err Tern) (e : Err) :
    ∀ (xs : List (Option Nat × ρ)) (k : Nat) (x : Option Nat × ρ), xs[k]? = some x → cond x.2 = .error e →
    ∃ e', filterView cond xs = .error e' := by
  intro xs
  induction xs with
  | nil => intro k x h; simp at h
  | cons y ys ih =>
    intro k x hk he
    unfold filterView
    cases hc : cond y.2 with
    | error e1 => exact ⟨e1, rfl⟩
    | ok c =>
      cases k with
      | zero => simp at hk; subst hk; rw [hc] at he; cases he
      | succ k =>
        obtain ⟨e', h'⟩ := ih k x (by simpa using hk) he
        exact ⟨e', by simp [h']⟩

theorem modify_append_length {α} (f : α → α) (pre : List α) (a : α) (l : List α) :
    (pre ++ a :: l).modify pre.length f = pre ++ f a :: l := by
  induction pre with
  | nil => simp
  | cons p ps ih => simp [ih]

/-- writing back by internal id through the filtered view = mapping over the records -/
theorem updateViewRows_filter (h : List String) (sets : List (SetItem Row)) (cond : Row → Except Err Tern) :
    ∀ (rows pre : List Row) (k : Nat), pre.length = k →
    updateViewRows h sets ((withIdsFrom rows k).filter (fun x => condT cond x.2)) (pre ++ rows) =
      pre ++ updateSpecRows h cond sets rows := by
  intro rows
  induction rows with
  | nil => intro pre k _; simp [withIdsFrom, updateViewRows, updateSpecRows]
  | cons r rs ih =>
    intro pre k hk
    unfold withIdsFrom
    rw [List.filter_cons]
    have ih' := ih (pre ++ [if condT cond r then rewriteRow h sets r r else r]) (k + 1) (by simp [hk])
    simp only [List.append_assoc, List.singleton_append] at ih'
    by_cases hc : condT cond r = true
    · simp only [hc, if_true]
      simp only [hc, if_true] at ih'
      unfold updateViewRows
      simp only [List.foldl_cons]
      subst hk
      rw [modify_append_length]
      have := ih'
      unfold updateViewRows at this
      rw [this]
      simp [updateSpecRows, hc]
    · simp only [hc]
      simp only [hc] at ih'
      simp only [Bool.false_eq_true, if_false] at ih' ⊢
      rw [ih']
      simp [updateSpecRows, hc]

theorem mem_withIdsFrom : ∀ (rows : List Row) (k : Nat) (x : Option Nat × Row), x ∈ withIdsFrom rows k →
    ∃ j, x.1 = some (k + j) ∧ rows[j]? = some x.2 := by
  intro rows
  induction rows with
  | nil => intro k x h; simp [withIdsFrom] at h
  | cons r rs ih =>
    intro k x hx
    unfold withIdsFrom at hx
    cases hx with
    | head => exact ⟨0, by simp, by simp⟩
    | tail _ hm =>
      obtain ⟨j, h1, h2⟩ := ih (k + 1) x hm
      exact ⟨j + 1, by rw [h1]; congr 1; omega, by simpa using h2⟩

/-- over a filtered single-table view the ids are all different: every record of the view counts once -/
theorem collectIds_filter (p : Row → Bool) : ∀ (rows : List Row) (k : Nat) (acc : List Nat),
    (∀ x ∈ acc, x < k) →
    collectIds (((withIdsFrom rows k).filter (fun x => p x.2)).map Prod.fst) acc =
      acc ++ (((withIdsFrom rows k).filter (fun x => p x.2)).filterMap Prod.fst) ∧
    (((withIdsFrom rows k).filter (fun x => p x.2)).filterMap Prod.fst).length = rows.countP p := by
  intro rows
  induction rows with
  | nil => intro k acc _; simp [withIdsFrom, collectIds]
  | cons r rs ih =>
    intro k acc hacc
    unfold withIdsFrom
    rw [List.filter_cons]
    by_cases hp : p r = true
    · simp only [hp, if_true, List.map_cons, List.filterMap_cons, List.countP_cons]
      unfold collectIds
      have hk : k ∉ acc := fun hm => by have := hacc k hm; omega
      have hadd : addId acc k = acc ++ [k] := by simp [addId, hk]
      rw [hadd]
      obtain ⟨h1, h2⟩ := ih (k + 1) (acc ++ [k]) (by
        intro x hx
        rcases List.mem_append.mp hx with hx | hx
        · have := hacc x hx; omega
        · simp at hx; omega)
      rw [h1]
      constructor
      · simp
      · simp [h2]
    · simp only [hp, Bool.false_eq_true, if_false, List.countP_cons]
      obtain ⟨h1, h2⟩ := ih (k + 1) acc (by intro x hx; have := hacc x hx; omega)
      exact ⟨h1, by simp [h2]⟩

/-! ## removeIdx (DELETE by internal id, DROP column, the unmatched rows of REPLACE) -/

theorem removeIdx_sublist {α} (d : List Nat) : ∀ (l : List α) (k : Nat), (removeIdx d l k).Sublist l := by
  intro l
  induction l with
  | nil => intro k; exact List.Sublist.slnil
  | cons a as ih =>
    intro k
    unfold removeIdx
    split
    · exact List.Sublist.cons a (ih (k + 1))
    · exact List.Sublist.cons_cons a (ih (k + 1))

theorem removeIdx_length_congr {α β} (d : List Nat) : ∀ (l1 : List α) (l2 : List β) (k : Nat), l1.length = l2.length →
    (removeIdx d l1 k).length = (removeIdx d l2 k).length := by
  intro l1
  induction l1 with
  | nil => intro l2 k h; cases l2 with
    | nil => rfl
    | cons _ _ => simp at h
  | cons a as ih =>
    intro l2 k h
    cases l2 with
    | nil => simp at h
    | cons b bs =>
      unfold removeIdx
      have := ih bs (k + 1) (by simpa using h)
      split <;> simp [this]

/-- when membership of the position in `d` is decided by the element: a filter -/
theorem removeIdx_filter {α} (d : List Nat) (p : α → Bool) : ∀ (l : List α) (k : Nat),
    (∀ j (hj : j < l.length), (k + j ∈ d ↔ p l[j] = true)) → removeIdx d l k = l.filter (fun a => !p a) := by
  intro l
  induction l with
  | nil => intro k _; rfl
  | cons a as ih =>
    intro k h
    unfold removeIdx
    have h0 := h 0 (by simp)
    simp only [Nat.add_zero, List.getElem_cons_zero] at h0
    have ht := ih (k + 1) (by
      intro j hj
      have := h (j + 1) (by simp; omega)
      simp only [List.getElem_cons_succ] at this
      rw [← this]
      have e : k + (j + 1) = k + 1 + j := by omega
      rw [e])
    rw [List.filter_cons]
    by_cases hp : p a = true
    · have : k ∈ d := h0.mpr hp
      simp [this, hp, ht]
    · have : k ∉ d := fun hm => hp (h0.mp hm)
      simp [this, hp, ht]

theorem removeIdx_zip {α β} (d : List Nat) : ∀ (l1 : List α) (l2 : List β) (k : Nat),
    removeIdx d (l1.zip l2) k = (removeIdx d l1 k).zip (removeIdx d l2 k) := by
  intro l1
  induction l1 with
  | nil => intro l2 k; simp [removeIdx]
  | cons a as ih =>
    intro l2 k
    cases l2 with
    | nil => simp [removeIdx]
    | cons b bs =>
      simp only [List.zip_cons_cons]
      unfold removeIdx
      split
      · exact ih bs (k + 1)
      · simp [ih bs (k + 1)]

/-- positions kept + positions removed = all positions -/
theorem removeIdx_length {α} (d : List Nat) : ∀ (l : List α) (k : Nat),
    (removeIdx d l k).length + ((List.range l.length).filter (fun j => decide (k + j ∈ d))).length = l.length := by
  intro l
  induction l with
  | nil => intro k; simp [removeIdx]
  | cons a as ih =>
    intro k
    have hih := ih (k + 1)
    unfold removeIdx
    rw [List.length_cons, List.range_succ_eq_map, List.filter_cons]
    have hmap : (List.filter (fun j => decide (k + j ∈ d)) (List.map Nat.succ (List.range as.length))).length
        = (List.filter (fun j => decide (k + 1 + j ∈ d)) (List.range as.length)).length := by
      rw [List.filter_map, List.length_map]
      congr 1
      apply List.filter_congr
      intro j _
      simp only [Function.comp]
      have e : k + j.succ = k + 1 + j := by omega
      rw [e]
    by_cases hk : k ∈ d
    · simp only [hk, if_true, Nat.add_zero, decide_true, List.length_cons]
      rw [hmap]; omega
    · simp only [hk, Nat.add_zero, decide_false, Bool.false_eq_true, if_false, List.length_cons]
      rw [hmap]; omega

theorem removeIdx_count {α} (d : List Nat) (l : List α) (hd : d.Nodup) (hlt : ∀ i ∈ d, i < l.length) :
    (removeIdx d l 0).length + d.length = l.length := by
  have h := removeIdx_length d l 0
  have hp : ((List.range l.length).filter (fun j => decide (0 + j ∈ d))).Perm d := by
    rw [List.perm_ext_iff_of_nodup (List.Nodup.sublist List.filter_sublist List.nodup_range) hd]
    intro a
    simp only [List.mem_filter, List.mem_range, Nat.zero_add, decide_eq_true_eq]
    exact ⟨fun h => h.2, fun h => ⟨hlt a h, h⟩⟩
  rw [hp.length_eq] at h
  exact h

/-! ### collecting ids -/

theorem mem_addId (ids : List Nat) (i x : Nat) : x ∈ addId ids i ↔ x ∈ ids ∨ x = i := by
  unfold addId
  by_cases h : i ∈ ids
  · simp only [h, if_true]
    constructor
    · exact Or.inl
    · rintro (h1 | h1)
      · exact h1
      · subst h1; exact h
  · simp [h]

theorem nodup_addId (ids : List Nat) (i : Nat) (h : ids.Nodup) : (addId ids i).Nodup := by
  unfold addId
  by_cases hm : i ∈ ids
  · simp [hm, h]
  · simp only [hm, if_false]
    rw [List.nodup_append]
    refine ⟨h, by simp, ?_⟩
    intro a ha b hb
    simp at hb; subst hb
    intro e; subst e; exact hm ha

theorem mem_collectIds : ∀ (l : List (Option Nat)) (acc : List Nat) (x : Nat),
    x ∈ collectIds l acc ↔ x ∈ acc ∨ some x ∈ l := by
  intro l
  induction l with
  | nil => intro acc x; simp [collectIds]
  | cons o rest ih =>
    intro acc x
    cases o with
    | none => unfold collectIds; rw [ih]; simp
    | some i =>
      unfold collectIds; rw [ih, mem_addId]
      simp only [List.mem_cons, Option.some.injEq]
      constructor
      · rintro ((h | h) | h)
        · exact Or.inl h
        · exact Or.inr (Or.inl h)
        · exact Or.inr (Or.inr h)
      · rintro (h | h | h)
        · exact Or.inl (Or.inl h)
        · exact Or.inl (Or.inr h)
        · exact Or.inr h

theorem nodup_collectIds : ∀ (l : List (Option Nat)) (acc : List Nat), acc.Nodup → (collectIds l acc).Nodup := by
  intro l
  induction l with
  | nil => intro acc h; simpa [collectIds] using h
  | cons o rest ih =>
    intro acc h
    cases o with
    | none => unfold collectIds; exact ih acc h
    | some i => unfold collectIds; exact ih _ (nodup_addId acc i h)

theorem mem_dedupIdx : ∀ (l : List Nat) (acc : List Nat) (x : Nat), x ∈ dedupIdx l acc ↔ x ∈ acc ∨ x ∈ l := by
  intro l
  induction l with
  | nil => intro acc x; simp [dedupIdx]
  | cons i rest ih =>
    intro acc x
    unfold dedupIdx
    rw [ih, mem_addId]
    simp only [List.mem_cons]
    constructor
    · rintro ((h | h) | h)
      · exact Or.inl h
      · exact Or.inr (Or.inl h)
      · exact Or.inr (Or.inr h)
    · rintro (h | h | h)
      · exact Or.inl (Or.inl h)
      · exact Or.inl (Or.inr h)
      · exact Or.inr h

theorem nodup_dedupIdx : ∀ (l : List Nat) (acc : List Nat), acc.Nodup → (dedupIdx l acc).Nodup := by
  intro l
  induction l with
  | nil => intro acc h; simpa [dedupIdx] using h
  | cons i rest ih => intro acc h; unfold dedupIdx; exact ih _ (nodup_addId acc i h)

theorem withIdsFrom_getElem? : ∀ (rows : List Row) (k j : Nat),
    (withIdsFrom rows k)[j]? = rows[j]?.map fun r => (some (k + j), r) := by
  intro rows
  induction rows with
  | nil => intro k j; simp [withIdsFrom]
  | cons r rs ih =>
    intro k j
    unfold withIdsFrom
    cases j with
    | zero => simp
    | succ j =>
      simp only [List.getElem?_cons_succ]
      rw [ih (k + 1) j]
      have e : k + 1 + j = k + (j + 1) := by omega
      rw [e]

/-- DELETE through the filtered view with ids = filtering the records -/
theorem deleteImpl_rows (cond : Row → Except Err Tern) (rows : List Row) :
    removeIdx (collectIds (((withIdsFrom rows 0).filter (fun x => condT cond x.2)).map Prod.fst) []) rows 0 =
      deleteSpecRows cond rows := by
  unfold deleteSpecRows
  apply removeIdx_filter
  intro j hj
  rw [mem_collectIds]
  simp only [List.not_mem_nil, false_or, List.mem_map, List.mem_filter, Nat.zero_add]
  constructor
  · rintro ⟨x, ⟨hx, hc⟩, hid⟩
    obtain ⟨j', h1, h2⟩ := mem_withIdsFrom rows 0 x hx
    rw [hid] at h1
    simp at h1; subst h1
    rw [List.getElem?_eq_getElem hj] at h2
    have h3 : rows[j] = x.2 := Option.some.inj h2
    rw [h3]
    exact hc
  · intro hc
    refine ⟨(some j, rows[j]), ⟨?_, hc⟩, rfl⟩
    rw [List.mem_iff_getElem?]
    refine ⟨j, ?_⟩
    rw [withIdsFrom_getElem?, List.getElem?_eq_getElem hj]
    simp

/-! ## REPLACE -/

/-- an existing record after REPLACE: rewritten from the first given record with an equivalent key -/
def rewriteFromFirst (keq : List Cell → List Cell → Bool) (kidx uidx : List Nat) (records : List Row) (r : Row) : Row :=
  match firstMatch keq kidx r records with
  | none => r
  | some p => overwrite uidx r p.2

theorem replaceRows_fst (keq : List Cell → List Cell → Bool) (kidx uidx : List Nat) (records : List Row) :
    ∀ rows, (replaceRows keq kidx uidx records rows).1 = rows.map (rewriteFromFirst keq kidx uidx records) := by
  intro rows
  induction rows with
  | nil => rfl
  | cons r rs ih =>
    unfold replaceRows
    simp only [List.map_cons]
    have hr : rewriteFromFirst keq kidx uidx records r =
        (match firstMatch keq kidx r records with | none => r | some p => overwrite uidx r p.2) := rfl
    rw [hr]
    cases hm : firstMatch keq kidx r records with
    | none => simp [ih]
    | some p => cases p; simp [ih]

theorem replaceRows_snd (keq : List Cell → List Cell → Bool) (kidx uidx : List Nat) (records : List Row) :
    ∀ rows, (replaceRows keq kidx uidx records rows).2 =
      rows.filterMap (fun r => (firstMatch keq kidx r records).map Prod.fst) := by
  intro rows
  induction rows with
  | nil => rfl
  | cons r rs ih =>
    unfold replaceRows
    rw [List.filterMap_cons]
    cases hm : firstMatch keq kidx r records with
    | none => simp [ih]
    | some p => cases p; simp [ih]

theorem firstMatch_some (keq : List Cell → List Cell → Bool) (kidx : List Nat) (row : Row) :
    ∀ (gs : List Row) (j : Nat) (g : Row), firstMatch keq kidx row gs = some (j, g) →
      gs[j]? = some g ∧ keq (keyOf kidx row) (keyOf kidx g) = true ∧
      ∀ j' g', j' < j → gs[j']? = some g' → keq (keyOf kidx row) (keyOf kidx g') = false := by
  intro gs
  induction gs with
  | nil => intro j g h; simp [firstMatch] at h
  | cons x xs ih =>
    intro j g h
    unfold firstMatch at h
    split at h
    · rename_i hk
      cases h
      exact ⟨by simp, hk, by intro j' g' hj; omega⟩
    · rename_i hk
      cases hr : firstMatch keq kidx row xs with
      | none => simp [hr] at h
      | some p =>
        obtain ⟨j0, g0⟩ := p
        simp [hr] at h
        obtain ⟨h1, h2⟩ := h
        subst h1; subst h2
        obtain ⟨a, b, c⟩ := ih j0 g0 hr
        refine ⟨by simpa using a, b, ?_⟩
        intro j' g' hj hg
        cases j' with
        | zero => simp at hg; subst hg; simpa using hk
        | succ j' => exact c j' g' (by omega) (by simpa using hg)

theorem firstMatch_none (keq : List Cell → List Cell → Bool) (kidx : List Nat) (row : Row) :
    ∀ (gs : List Row), firstMatch keq kidx row gs = none ↔ ∀ g ∈ gs, keq (keyOf kidx row) (keyOf kidx g) = false := by
  intro gs
  induction gs with
  | nil => simp [firstMatch]
  | cons x xs ih =>
    unfold firstMatch
    by_cases hk : keq (keyOf kidx row) (keyOf kidx x) = true
    · simp [hk]
    · simp only [hk, Bool.false_eq_true, if_false, Option.map_eq_none_iff, ih, List.mem_cons, forall_eq_or_imp]
      simp at hk
      simp [hk]

theorem overwrite_length (g : Row) : ∀ (uidx : List Nat) (row : Row), (overwrite uidx row g).length = row.length := by
  intro uidx
  induction uidx with
  | nil => intro row; rfl
  | cons j js ih =>
    intro row
    unfold overwrite
    simp only [List.foldl_cons]
    have := ih (row.set j (g[j]?.getD nullCell))
    unfold overwrite at this
    rw [this]; simp

/-- REPLACE leaves every column that is not an update column as it was -/
theorem overwrite_other (g : Row) (c : Nat) : ∀ (uidx : List Nat) (row : Row), c ∉ uidx →
    (overwrite uidx row g)[c]? = row[c]? := by
  intro uidx
  induction uidx with
  | nil => intro row _; rfl
  | cons j js ih =>
    intro row hc
    unfold overwrite
    simp only [List.foldl_cons]
    have := ih (row.set j (g[j]?.getD nullCell)) (fun h => hc (List.mem_cons_of_mem _ h))
    unfold overwrite at this
    rw [this, List.getElem?_set]
    have : j ≠ c := fun e => hc (by subst e; exact List.mem_cons_self)
    simp [this]

/-- … and an update column takes the given record's cell -/
theorem overwrite_updated (g : Row) (c : Nat) : ∀ (uidx : List Nat) (row : Row), c ∈ uidx → c < row.length →
    (overwrite uidx row g)[c]? = some (g[c]?.getD nullCell) := by
  intro uidx
  induction uidx with
  | nil => intro row h; cases h
  | cons j js ih =>
    intro row hc hl
    unfold overwrite
    simp only [List.foldl_cons]
    by_cases hjs : c ∈ js
    · have := ih (row.set j (g[j]?.getD nullCell)) hjs (by simpa using hl)
      unfold overwrite at this
      exact this
    · have hcj : c = j := by
        cases hc with
        | head => rfl
        | tail _ h => exact absurd h hjs
      subst hcj
      have := overwrite_other g c js (row.set c (g[c]?.getD nullCell)) hjs
      unfold overwrite at this
      rw [this, List.getElem?_set]
      simp [hl]

/-! ## ALTER TABLE -/

/-- the default values of one record (the evaluations all succeed when the statement succeeds) -/
def defVals (defs : List (Option (Row → Except Err Cell))) (r : Row) : List Cell :=
  match evalDefaults r defs with
  | .ok vs => vs
  | .error _ => []

theorem evalDefaults_length (r : Row) : ∀ (defs : List (Option (Row → Except Err Cell))) (vs : List Cell),
    evalDefaults r defs = .ok vs → vs.length = defs.length := by
  intro defs
  induction defs with
  | nil => intro vs h; simp [evalDefaults] at h; subst h; rfl
  | cons d ds ih =>
    intro vs h
    unfold evalDefaults at h
    split at h
    · cases h
    · cases hr : evalDefaults r ds with
      | error e => simp [hr] at h
      | ok vs' =>
        simp only [hr] at h
        cases h
        simp [ih vs' hr]

theorem addToRows_ok (p : Nat) (defs : List (Option (Row → Except Err Cell))) : ∀ (rows rows' : List Row),
    addToRows p defs rows = .ok rows' →
    rows' = rows.map (fun r => insertAt p (defVals defs r) r) ∧
    ∀ r ∈ rows, evalDefaults r defs = .ok (defVals defs r) := by
  intro rows
  induction rows with
  | nil => intro rows' h; simp [addToRows] at h; subst h; simp
  | cons r rs ih =>
    intro rows' h
    unfold addToRows at h
    cases hv : evalDefaults r defs with
    | error e => simp [hv] at h
    | ok vs =>
      simp only [hv] at h
      cases hr : addToRows p defs rs with
      | error e => simp [hr] at h
      | ok rs' =>
        simp only [hr] at h
        cases h
        obtain ⟨h1, h2⟩ := ih rs' hr
        have hd : defVals defs r = vs := by simp [defVals, hv]
        constructor
        · simp [h1, hd]
        · intro x hx
          cases hx with
          | head => rw [hd]; exact hv
          | tail _ hm => exact h2 x hm

/-- a DEFAULT expression fails at the k-th record (after the earlier records were built): the statement fails -/
theorem addToRows_fails_at (p : Nat) (defs : List (Option (Row → Except Err Cell))) (e : Err) :
    ∀ (rows : List Row) (k : Nat) (r : Row), rows[k]? = some r → evalDefaults r defs = .error e →
    ∃ e', addToRows p defs rows = .error e' := by
  intro rows
  induction rows with
  | nil => intro k r h; simp at h
  | cons x xs ih =>
    intro k r hk he
    unfold addToRows
    cases hv : evalDefaults x defs with
    | error e1 => exact ⟨e1, rfl⟩
    | ok vs =>
      cases k with
      | zero => simp at hk; subst hk; rw [hv] at he; cases he
      | succ k =>
        obtain ⟨e', h'⟩ := ih k r (by simpa using hk) he
        exact ⟨e', by simp [h']⟩

theorem insertAt_length {α} (p : Nat) (xs l : List α) : (insertAt p xs l).length = l.length + xs.length := by
  simp [insertAt]; omega

theorem insertAt_take {α} (p : Nat) (xs l : List α) (hp : p ≤ l.length) : (insertAt p xs l).take p = l.take p := by
  unfold insertAt
  rw [List.append_assoc, List.take_append]
  simp [List.length_take, Nat.min_eq_left hp, List.take_take]

theorem insertAt_drop {α} (p : Nat) (xs l : List α) (hp : p ≤ l.length) :
    (insertAt p xs l).drop (p + xs.length) = l.drop p := by
  unfold insertAt
  rw [List.append_assoc, List.drop_append]
  have h1 : (List.take p l).length = p := by simp [List.length_take, Nat.min_eq_left hp]
  rw [h1]
  have h2 : List.drop (p + xs.length) (List.take p l) = [] := by
    apply List.drop_eq_nil_of_le; omega
  rw [h2, List.nil_append]
  have h3 : p + xs.length - p = xs.length := by omega
  rw [h3, List.drop_append]
  simp

theorem insertAt_mid {α} (p : Nat) (xs l : List α) (hp : p ≤ l.length) :
    ((insertAt p xs l).drop p).take xs.length = xs := by
  unfold insertAt
  rw [List.append_assoc, List.drop_append]
  have h1 : (List.take p l).length = p := by simp [List.length_take, Nat.min_eq_left hp]
  rw [h1]
  simp

theorem insertPos_le (h : List String) (pos : ColPos) (p : Nat) (hk : insertPos h pos = .ok p) : p ≤ h.length := by
  cases pos with
  | first => simp [insertPos] at hk; omega
  | last => simp [insertPos] at hk; omega
  | before c =>
    simp only [insertPos] at hk
    have := colIndex_lt h c p hk; omega
  | after c =>
    simp only [insertPos] at hk
    cases hc : colIndex h c with
    | error e => simp [hc] at hk
    | ok i =>
      simp only [hc] at hk
      cases hk
      have := colIndex_lt h c i hc; omega

theorem checkNewNames_ok : ∀ (names existing : List String), checkNewNames existing names = .ok () →
    (∀ n ∈ names, n ∉ existing) ∧ names.Nodup := by
  intro names
  induction names with
  | nil => intro existing _; simp
  | cons n ns ih =>
    intro existing h
    unfold checkNewNames at h
    split at h
    · cases h
    · rename_i hn
      obtain ⟨h1, h2⟩ := ih (n :: existing) h
      constructor
      · intro x hx
        cases hx with
        | head => exact hn
        | tail _ hm => exact fun he => h1 x hm (List.mem_cons_of_mem _ he)
      · rw [List.nodup_cons]
        exact ⟨fun hm => h1 n hm List.mem_cons_self, h2⟩

/-! ## frame lemmas for UPDATE's rewriting of one record -/

theorem rewriteRow_length {ρ : Type} (h : List String) (ctx : ρ) : ∀ (sets : List (SetItem ρ)) (row : Row),
    (rewriteRow h sets ctx row).length = row.length := by
  intro sets
  induction sets with
  | nil => intro row; rfl
  | cons s ss ih =>
    intro row
    unfold rewriteRow
    simp only [List.foldl_cons]
    have := ih
    unfold rewriteRow at this
    split
    · rw [this]; simp
    · rw [this]

/-- one SET item applied to the record being rewritten (values come from `ctx`, the old record) -/
def setStep {ρ : Type} (h : List String) (ctx : ρ) (s : SetItem ρ) (row : Row) : Row :=
  match colIndex h s.field, s.expr ctx with
  | .ok j, .ok v => row.set j v
  | _, _ => row

theorem rewriteRow_cons {ρ : Type} (h : List String) (ctx : ρ) (s : SetItem ρ) (ss : List (SetItem ρ)) (row : Row) :
    rewriteRow h (s :: ss) ctx row = rewriteRow h ss ctx (setStep h ctx s row) := rfl

theorem setStep_other {ρ : Type} (h : List String) (ctx : ρ) (s : SetItem ρ) (row : Row) (j : Nat)
    (hne : colIndex h s.field ≠ .ok j) : (setStep h ctx s row)[j]? = row[j]? := by
  unfold setStep
  split
  · rename_i j' v hj hv
    rw [List.getElem?_set]
    have : j' ≠ j := fun e => hne (by rw [hj, e])
    simp [this]
  · rfl

theorem setStep_length {ρ : Type} (h : List String) (ctx : ρ) (s : SetItem ρ) (row : Row) :
    (setStep h ctx s row).length = row.length := by
  unfold setStep
  split <;> simp

/-- a cell that changed belongs to a column named in the SET list -/
theorem rewriteRow_changed {ρ : Type} (h : List String) (ctx : ρ) (j : Nat) : ∀ (sets : List (SetItem ρ)) (row : Row),
    (rewriteRow h sets ctx row)[j]? ≠ row[j]? → ∃ s ∈ sets, colIndex h s.field = .ok j := by
  intro sets
  induction sets with
  | nil => intro row hne; exact absurd rfl hne
  | cons s ss ih =>
    intro row hne
    rw [rewriteRow_cons] at hne
    by_cases hc : colIndex h s.field = .ok j
    · exact ⟨s, List.mem_cons_self, hc⟩
    · rw [← setStep_other h ctx s row j hc] at hne
      obtain ⟨s', hs', hc'⟩ := ih _ hne
      exact ⟨s', List.mem_cons_of_mem _ hs', hc'⟩

theorem rewriteRow_other {ρ : Type} (h : List String) (ctx : ρ) (j : Nat) (sets : List (SetItem ρ)) (row : Row)
    (hno : ∀ s ∈ sets, colIndex h s.field ≠ .ok j) : (rewriteRow h sets ctx row)[j]? = row[j]? := by
  apply Classical.byContradiction
  intro hne
  obtain ⟨s, hs, hc⟩ := rewriteRow_changed h ctx j sets row hne
  exact hno s hs hc

/-- with pairwise different SET columns, a SET column takes the value computed from the old record `ctx` -/
theorem rewriteRow_value {ρ : Type} (h : List String) (ctx : ρ) : ∀ (sets : List (SetItem ρ)) (row : Row)
    (s : SetItem ρ) (j : Nat) (v : Cell),
    sets.Pairwise (fun a b => colIndex h a.field ≠ colIndex h b.field) →
    s ∈ sets → colIndex h s.field = .ok j → s.expr ctx = .ok v → j < row.length →
    (rewriteRow h sets ctx row)[j]? = some v := by
  intro sets
  induction sets with
  | nil => intro row s j v _ hs; cases hs
  | cons s0 ss ih =>
    intro row s j v hp hs hj hv hl
    rw [List.pairwise_cons] at hp
    rw [rewriteRow_cons]
    cases hs with
    | head =>
      rw [rewriteRow_other h ctx j ss _ (by
        intro s' hs' hc
        exact hp.1 s' hs' (by rw [hj, hc]))]
      unfold setStep
      simp only [hj, hv]
      rw [List.getElem?_set]; simp [hl]
    | tail _ hm =>
      exact ih _ s j v hp.2 hm hj hv (by rw [setStep_length]; exact hl)

theorem firstIdx_nodup {α} [DecidableEq α] : ∀ (l : List α) (j : Nat) (c : α), l.Nodup → l[j]? = some c →
    firstIdx c l = some j := by
  intro l
  induction l with
  | nil => intro j c _ h; simp at h
  | cons a as ih =>
    intro j c hn hj
    rw [List.nodup_cons] at hn
    unfold firstIdx
    cases j with
    | zero => simp at hj; simp [hj]
    | succ j =>
      simp only [List.getElem?_cons_succ] at hj
      have hne : ¬ a = c := by
        intro e; subst e
        exact hn.1 (List.mem_of_getElem? hj)
      simp [hne, ih j c hn.2 hj]

theorem colIndex_nodup (h : List String) (j : Nat) (c : String) (hn : h.Nodup) (hj : h[j]? = some c) :
    colIndex h c = .ok j := by
  unfold colIndex
  rw [firstIdx_nodup h j c hn hj]
  simp only
  have : c ∉ h.drop (j + 1) := by
    intro hm
    rw [List.mem_iff_getElem?] at hm
    obtain ⟨k, hk⟩ := hm
    rw [List.getElem?_drop] at hk
    have hlt1 : j < h.length := (List.getElem?_eq_some_iff.mp hj).1
    have hlt2 : j + 1 + k < h.length := (List.getElem?_eq_some_iff.mp hk).1
    have e1 : h[j] = c := (List.getElem?_eq_some_iff.mp hj).2
    have e2 : h[j + 1 + k] = c := (List.getElem?_eq_some_iff.mp hk).2
    have := (List.getElem_inj (h₀ := hlt1) (h₁ := hlt2) hn).mp (e1.trans e2.symm)
    omega
  simp [this]

/-! ## more on REPLACE and DROP -/

/-- the given-record indices that some existing record matched first -/
def matchedOf (keq : List Cell → List Cell → Bool) (kidx : List Nat) (records rows : List Row) : List Nat :=
  rows.filterMap fun r => (firstMatch keq kidx r records).map Prod.fst

theorem keyNotSet_false (fidx : List Nat) : ∀ (kidx : List Nat), keyNotSet fidx kidx = false → ∀ k ∈ kidx, k ∈ fidx := by
  intro kidx
  induction kidx with
  | nil => intro _ k hk; cases hk
  | cons k ks ih =>
    intro h x hx
    unfold keyNotSet at h
    split at h
    · rename_i hm
      cases hx with
      | head => exact hm
      | tail _ hm' => exact ih h x hm'
    · cases h

/-- `removeIdx` keeps exactly the elements whose position is not in `d`, in order -/
theorem removeIdx_eq_filter_zip {α} (d : List Nat) (l : List α) :
    removeIdx d l 0 = ((l.zip (List.range l.length)).filter (fun q => !decide (q.2 ∈ d))).map Prod.fst := by
  have hz := removeIdx_filter d (fun (q : α × Nat) => decide (q.2 ∈ d)) (l.zip (List.range l.length)) 0 (by
    intro j hj
    simp only [List.getElem_zip, List.getElem_range, Nat.zero_add, decide_eq_true_eq])
  rw [← hz, removeIdx_zip]
  rw [List.map_fst_zip]
  rw [removeIdx_length_congr d l (List.range l.length) 0 (by simp)]
  exact Nat.le_refl _

theorem mem_removeIdx {α} (d : List Nat) (l : List α) (g : α) (hg : g ∈ removeIdx d l 0) :
    ∃ j, j ∉ d ∧ l[j]? = some g := by
  rw [removeIdx_eq_filter_zip, List.mem_map] at hg
  obtain ⟨q, hq, rfl⟩ := hg
  rw [List.mem_filter] at hq
  obtain ⟨hz, hd⟩ := hq
  rw [List.mem_iff_getElem] at hz
  obtain ⟨j, hj, hqj⟩ := hz
  simp only [List.getElem_zip, List.getElem_range] at hqj
  refine ⟨j, ?_, ?_⟩
  · have : q.2 = j := by rw [← hqj]
    rw [this] at hd
    simpa using hd
  · have hjl : j < l.length := by
      simp only [List.length_zip, List.length_range, Nat.min_self] at hj; exact hj
    rw [List.getElem?_eq_getElem hjl, ← hqj]

theorem IndicesOf.mem_iff {h : List String} : ∀ {fs : List String} {is : List Nat}, IndicesOf h fs is →
    ∀ i, i ∈ is ↔ ∃ c ∈ fs, colIndex h c = .ok i := by
  intro fs
  induction fs with
  | nil => intro is hi i; cases is with
    | nil => simp
    | cons _ _ => exact hi.elim
  | cons f fs ih =>
    intro is hi i
    cases is with
    | nil => exact hi.elim
    | cons k is =>
      simp only [List.mem_cons]
      rw [ih hi.2 i]
      constructor
      · rintro (h1 | ⟨c, hc, hci⟩)
        · subst h1; exact ⟨f, Or.inl rfl, hi.1⟩
        · exact ⟨c, Or.inr hc, hci⟩
      · rintro ⟨c, hc | hc, hci⟩
        · subst hc
          rw [hi.1] at hci
          exact Or.inl (Except.ok.inj hci).symm
        · exact Or.inr ⟨c, hc, hci⟩

theorem IndicesOf.all_ok {h : List String} : ∀ {fs : List String} {is : List Nat}, IndicesOf h fs is →
    ∀ c ∈ fs, ∃ i, colIndex h c = .ok i := by
  intro fs
  induction fs with
  | nil => intro is _ c hc; cases hc
  | cons f fs ih =>
    intro is hi c hc
    cases is with
    | nil => exact hi.elim
    | cons k is =>
      cases hc with
      | head => exact ⟨k, hi.1⟩
      | tail _ hm => exact ih hi.2 c hm

theorem indicesOf_unique {h : List String} : ∀ {fs : List String} {a b : List Nat},
    IndicesOf h fs a → IndicesOf h fs b → a = b := by
  intro fs
  induction fs with
  | nil => intro a b ha hb; cases a with
    | nil => cases b with
      | nil => rfl
      | cons _ _ => exact hb.elim
    | cons _ _ => exact ha.elim
  | cons f fs ih =>
    intro a b ha hb
    cases a with
    | nil => exact ha.elim
    | cons x xs => cases b with
      | nil => exact hb.elim
      | cons y ys =>
        have e : x = y := by
          have := ha.1.symm.trans hb.1
          exact Except.ok.inj this
        rw [e, ih ha.2 hb.2]

theorem lookupT_setTable_ne : ∀ (ts : Tables) (m n : String) (t : Table), m ≠ n →
    lookupT (setTable ts m t) n = lookupT ts n := by
  intro ts
  induction ts with
  | nil => intro m n t _; rfl
  | cons e rest ih =>
    intro m n t hne
    unfold setTable
    split
    · rename_i he
      unfold lookupT
      have h1 : ¬ (m = n) := hne
      have h2 : ¬ (e.1 = n) := by rw [he]; exact hne
      simp [h1, h2]
    · unfold lookupT
      split
      · rfl
      · exact ih m n t hne

theorem lookupT_append_ne : ∀ (ts : Tables) (m n : String) (t : Table), m ≠ n →
    lookupT (ts ++ [(m, t)]) n = lookupT ts n := by
  intro ts
  induction ts with
  | nil => intro m n t hne; simp [lookupT, hne]
  | cons e rest ih =>
    intro m n t hne
    simp only [List.cons_append]
    unfold lookupT
    split
    · rfl
    · exact ih m n t hne

theorem lookupT_setOrAdd_ne (ts : Tables) (m n : String) (t : Table) (hne : m ≠ n) :
    lookupT (setOrAdd ts m t) n = lookupT ts n := by
  unfold setOrAdd
  cases lookupT ts m with
  | none => exact lookupT_append_ne ts m n t hne
  | some _ => exact lookupT_setTable_ne ts m n t hne

/-! ## rectangularity -/

def AllRect (ts : Tables) : Prop := ∀ e ∈ ts, e.2.Rect

theorem lookupT_mem : ∀ (ts : Tables) (n : String) (t : Table), lookupT ts n = some t → (n, t) ∈ ts := by
  intro ts
  induction ts with
  | nil => intro n t h; simp [lookupT] at h
  | cons e rest ih =>
    intro n t h
    unfold lookupT at h
    split at h
    · rename_i he
      cases h
      have : e = (e.1, e.2) := rfl
      rw [this, he]; exact List.mem_cons_self
    · exact List.mem_cons_of_mem _ (ih n t h)

theorem getCopy_rect (ts : Tables) (n : String) (t : Table) (hr : AllRect ts) (h : getCopy ts n = .ok t) : t.Rect := by
  unfold getCopy at h
  cases hl : lookupT ts n with
  | none => simp [hl] at h
  | some t0 =>
    simp only [hl] at h
    cases h
    exact hr _ (lookupT_mem ts n t hl)

theorem setTable_rect : ∀ (ts : Tables) (n : String) (t : Table), AllRect ts → t.Rect → AllRect (setTable ts n t) := by
  intro ts
  induction ts with
  | nil => intro n t h _; simpa [setTable] using h
  | cons e rest ih =>
    intro n t h ht
    unfold setTable
    have hrest : AllRect rest := fun x hx => h x (List.mem_cons_of_mem _ hx)
    split
    · intro x hx
      cases hx with
      | head => exact ht
      | tail _ hm => exact hrest x hm
    · intro x hx
      cases hx with
      | head => exact h e List.mem_cons_self
      | tail _ hm => exact ih n t hrest ht x hm

theorem publish_rect : ∀ (outs : List Out) (ts : Tables), AllRect ts → (∀ o ∈ outs, o.table.Rect) → AllRect (publish ts outs) := by
  intro outs
  induction outs with
  | nil => intro ts h _; exact h
  | cons o os ih =>
    intro ts h ho
    unfold publish
    apply ih
    · split
      · intro x hx
        rcases List.mem_append.mp hx with hx | hx
        · exact h x hx
        · simp at hx; subst hx; exact ho o List.mem_cons_self
      · exact setTable_rect ts o.name o.table h (ho o List.mem_cons_self)
    · exact fun x hx => ho x (List.mem_cons_of_mem _ hx)

theorem updateViewRows_rect {ρ : Type} (h : List String) (sets : List (SetItem ρ)) (w : Nat) :
    ∀ (view : List (Option Nat × ρ)) (rows : List Row), (∀ r ∈ rows, r.length = w) →
    ∀ r ∈ updateViewRows h sets view rows, r.length = w := by
  intro view
  induction view with
  | nil => intro rows hr; exact hr
  | cons x rest ih =>
    intro rows hr
    unfold updateViewRows
    simp only [List.foldl_cons]
    have ih' := ih
    unfold updateViewRows at ih'
    cases hx : x.1 with
    | none => exact ih' rows hr
    | some k =>
      apply ih'
      intro r hm
      rw [List.mem_iff_getElem?] at hm
      obtain ⟨i, hi⟩ := hm
      rw [List.getElem?_modify] at hi
      cases hri : rows[i]? with
      | none => simp [hri] at hi
      | some r0 =>
        have h0 := hr r0 (List.mem_of_getElem? hri)
        by_cases hki : k = i
        · simp [hri, hki] at hi
          rw [← hi, rewriteRow_length]; exact h0
        · simp [hri, hki] at hi
          rw [← hi]; exact h0

theorem updateCore_rect {ρ : Type} (view : List (Option Nat × ρ)) (sets : List (SetItem ρ)) (t t' : Table) (n : Nat)
    (hr : t.Rect) (hk : updateCore view sets t = .ok (t', n)) : t'.Rect := by
  obtain ⟨h1, h2, _, _⟩ := updateCore_ok view sets t t' n hk
  intro r hm
  rw [h2] at hm
  rw [h1]
  exact updateViewRows_rect t.header sets _ view t.rows hr r hm

theorem deleteCore_rect (ids : List (Option Nat)) (t : Table) (hr : t.Rect) : (deleteCore ids t).1.Rect := by
  intro r hm
  exact hr r ((removeIdx_sublist _ t.rows 0).subset hm)

/-! ## specification of one successful statement on the tables of the transaction -/

def idxOf (h : List String) (fs : List String) : List Nat :=
  match fieldIndices h fs with
  | .ok is => is
  | .error _ => []

def posOf (h : List String) (pos : ColPos) : Nat :=
  match insertPos h pos with
  | .ok p => p
  | .error _ => 0

def colOf (h : List String) (c : String) : Nat :=
  match colIndex h c with
  | .ok i => i
  | .error _ => 0

def viewOf (ts : Tables) (froms : List String) (join : Join) (cond : List Row → Except Err Tern) : List JRow :=
  match joinedView ts froms join cond with
  | .ok v => v.map Prod.snd
  | .error _ => []

theorem okRows_map_ok : ∀ (vals : List Row), okRows (vals.map (Except.ok (ε := Err))) = vals := by
  intro vals
  induction vals with
  | nil => rfl
  | cons v vs ih => simp [okRows, ih]

theorem allOk_ok : ∀ (l : List (Except Err Row)) (rows : List Row), allOk l = .ok rows →
    rows = okRows l ∧ ∀ r ∈ rows, .ok r ∈ l := by
  intro l
  induction l with
  | nil => intro rows h; simp [allOk] at h; subst h; simp [okRows]
  | cons x xs ih =>
    intro rows h
    cases x with
    | error e => simp [allOk] at h
    | ok r =>
      unfold allOk at h
      cases hr : allOk xs with
      | error e => simp [hr] at h
      | ok rs =>
        simp only [hr] at h
        cases h
        obtain ⟨h1, h2⟩ := ih rs hr
        constructor
        · simp [okRows, h1]
        · intro y hy
          cases hy with
          | head => exact List.mem_cons_self
          | tail _ hm => exact List.mem_cons_of_mem _ (h2 y hm)

/-- multi-table UPDATE, one target: every record of the filtered joined view rewrites the target record of its id -/
def updStepSpec (ts : Tables) (froms : List String) (join : Join) (cond : List Row → Except Err Tern)
    (sets : List (String × SetItem (List Row))) (acc : Tables) (tn : String) : Tables :=
  match lookupT ts tn, firstIdx tn froms with
  | some t, some p =>
    let tsets := List.map Prod.snd (sets.filter fun s => s.1 = tn)
    let tview := List.map (fun (jr : JRow) => (jid p jr, jctx jr)) (viewOf ts froms join cond)
    setTable acc tn { t with rows := updateViewRows t.header tsets tview t.rows }
  | _, _ => acc

/-- multi-table DELETE, one target: the records whose id occurs in the filtered joined view are removed -/
def delStepSpec (ts : Tables) (froms : List String) (join : Join) (cond : List Row → Except Err Tern) (acc : Tables) (tn : String) : Tables :=
  match lookupT ts tn, firstIdx tn froms with
  | some t, some p =>
    let ids := List.map (jid p) (viewOf ts froms join cond)
    setTable acc tn { t with rows := removeIdx (collectIds ids []) t.rows 0 }
  | _, _ => acc

/-- the tables after a SUCCESSFUL statement, written with the per-statement specifications -/
def specTables (ts : Tables) : Stmt → Tables
  | .insert tbl fields src =>
    match lookupT ts tbl with
    | none => ts
    | some t => setTable ts tbl { t with rows := t.rows ++ (okRows (src ts)).map (placeRow t.header (fields.getD t.header)) }
  | .replace keq tbl fields keys src =>
    match lookupT ts tbl with
    | none => ts
    | some t =>
      let fs := fields.getD t.header
      let kidx := idxOf t.header keys
      let uidx := (idxOf t.header fs).filter fun i => i ∉ kidx
      let records := (okRows (src ts)).map (placeRow t.header fs)
      setTable ts tbl { t with rows := t.rows.map (rewriteFromFirst keq kidx uidx records)
                                        ++ removeIdx (matchedOf keq kidx records t.rows) records 0 }
  | .update tbl cond sets =>
    match lookupT ts tbl with
    | none => ts
    | some t => setTable ts tbl { t with rows := updateSpecRows t.header cond sets t.rows }
  | .delete tbl cond =>
    match lookupT ts tbl with
    | none => ts
    | some t => setTable ts tbl { t with rows := deleteSpecRows cond t.rows }
  | .updateMulti targets froms join cond sets => targets.foldl (updStepSpec ts froms join cond sets) ts
  | .deleteMulti targets froms join cond => targets.foldl (delStepSpec ts froms join cond) ts
  | .addCols tbl pos cols =>
    match lookupT ts tbl with
    | none => ts
    | some t =>
      let p := posOf t.header pos
      setTable ts tbl { header := insertAt p (cols.map Prod.fst) t.header,
                        rows := t.rows.map fun r => insertAt p (defVals (cols.map Prod.snd) r) r }
  | .dropCols tbl cols =>
    match lookupT ts tbl with
    | none => ts
    | some t =>
      let d := dedupIdx (idxOf t.header cols) []
      setTable ts tbl { header := removeIdx d t.header 0, rows := t.rows.map fun r => removeIdx d r 0 }
  | .rename tbl old new =>
    match lookupT ts tbl with
    | none => ts
    | some t => setTable ts tbl { t with header := t.header.set (colOf t.header old) new }
  | .create tbl cols query =>
    ts ++ [(tbl, { header := cols, rows := match query with | none => [] | some q => okRows (q.2 ts) })]

/-- which statements of a history succeed (what csvq reports) -/
def outcomes (s : State) : List Stmt → List Bool
  | [] => []
  | st :: rest => (!(stmtImpl s st).2.isError) :: outcomes (stmtImpl s st).1 rest

/-- folding the per-statement specifications over a history, given which statements succeeded -/
def runSpec (ts : Tables) : List Stmt → List Bool → Tables
  | st :: rest, true :: os => runSpec (specTables ts st) rest os
  | _ :: rest, false :: os => runSpec ts rest os
  | _, _ => ts

end Csvq.Dml
