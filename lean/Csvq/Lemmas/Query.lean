/-
  Helper definitions and lemmas for C18 (query level: set operators, parenthesised queries, WITH, FOR UPDATE): which trees
  the parser builds, and that it reads every such tree back from its printed tokens.
-/
import Csvq.Model.Query
import Csvq.Lemmas.Clause
namespace Csvq.Query
open Csvq.OpExpr Csvq.Clause
variable {α : Type} [DecidableEq α] (tbl : Table α) (lv : SetOp → Nat)
set_option linter.unusedSectionVars false
set_option linter.unusedSimpArgs false

/-- the levels of the operators pending along the right edge (outermost first) -/
def rctxT : SetTree α → List Nat
  | .op _ k _ r => lv k :: rctxT r
  | _ => []

/-- the levels of the operators applied along the left edge -/
def lopsT : SetTree α → List Nat
  | .op l k _ _ => lv k :: lopsT l
  | _ => []

/-- `t` can be the result of a loop whose pending operator has level `r`: every operator it applied was shifted -/
def FitsT (r : Nat) (t : SetTree α) : Prop := ∀ l ∈ lopsT lv t, r < l

/-- a set operator that comes next is not taken by any of the pending operators `cs` (all are %left) -/
def StopT (cs : List Nat) (rest : List (Tok α)) : Prop :=
  ∀ k all tl, setOpTok rest = some (k, all, tl) → ∀ c ∈ cs, lv k ≤ c

/-- no SELECT operand carries ORDER BY / LIMIT / OFFSET -/
def tailFree : SetTree α → Prop
  | .ent s => s.orderBy = [] ∧ s.limit = none ∧ s.offset = none
  | .sub _ => True
  | .op l _ _ r => tailFree l ∧ tailFree r

def WFTail (t : Tail α) : Prop :=
  (∀ o ∈ t.orderBy, WellFormed tbl o.e) ∧ (∀ l, t.limit = some l → isNum l.value = true) ∧
  (∀ o, t.offset = some o → isNum o.value = true)

mutual
/-- the trees the parser builds: the right operand of an operator binds tighter, the left one at least as tight (%left);
    only the right-most SELECT may carry the ORDER BY / LIMIT / OFFSET of the query -/
def WFT : SetTree α → Prop
  | .ent s => WFSelect tbl s
  | .sub q => WFQ q
  | .op l k _ r => WFT l ∧ WFT r ∧ tailFree l ∧ (∀ c ∈ rctxT lv l, lv k ≤ c) ∧ FitsT lv (lv k) r
def WFQ : Query α → Prop
  | .mk w b t _ => WFW w ∧ WFT b ∧ FitsT lv 0 b ∧ isSub b = false ∧ (endsWithSub b = true → WFTail tbl t) ∧
      (endsWithSub b = false → t = emptyTail)
def WFW : Withs α → Prop
  | .nil => True
  | .cons _ n cols q rest => isId n = true ∧ (∀ c ∈ cols, isId c = true) ∧ WFQ q ∧ WFW rest
end

mutual
def costT : SetTree α → Nat
  | .ent _ => 1
  | .sub q => costQ q + 2
  | .op l _ _ r => costT l + costT r + 2
def costQ : Query α → Nat
  | .mk w b _ _ => costW w + costT b + 3
def costW : Withs α → Nat
  | .nil => 0
  | .cons _ _ _ q rest => costQ q + costW rest + 2
end

/-! ## more fuel never changes a result -/

theorem mono_step : ∀ n : Nat,
    (∀ ts x, parseQuery tbl lv n ts = some x → parseQuery tbl lv (n + 1) ts = some x) ∧
    (∀ ts x, parseWith tbl lv n ts = some x → parseWith tbl lv (n + 1) ts = some x) ∧
    (∀ ts x, parseWithList tbl lv n ts = some x → parseWithList tbl lv (n + 1) ts = some x) ∧
    (∀ r ts x, parseSetE tbl lv n r ts = some x → parseSetE tbl lv (n + 1) r ts = some x) ∧
    (∀ ts x, parseSetUnit tbl lv n ts = some x → parseSetUnit tbl lv (n + 1) ts = some x) ∧
    (∀ r lhs ts x, parseSetLoop tbl lv n r lhs ts = some x → parseSetLoop tbl lv (n + 1) r lhs ts = some x)
  | 0 => by simp [parseQuery, parseWith, parseWithList, parseSetE, parseSetUnit, parseSetLoop]
  | n + 1 => by
    obtain ⟨ihQ, ihW, ihWL, ihE, ihU, ihL⟩ := mono_step n
    refine ⟨?_, ?_, ?_, ?_, ?_, ?_⟩
    · intro ts x h
      rw [parseQuery] at h
      rw [parseQuery]
      cases h1 : parseWith tbl lv n ts with
      | none => simp [h1] at h
      | some p1 =>
        obtain ⟨w, ts1⟩ := p1
        simp only [h1] at h
        simp only [ihW _ _ h1]
        cases h2 : parseSetE tbl lv n 0 ts1 with
        | none => simp [h2] at h
        | some p2 =>
          obtain ⟨b, ts2⟩ := p2
          simp only [h2] at h
          simp only [ihE _ _ _ h2]
          exact h
    · intro ts x h
      rw [parseWith] at h
      rw [parseWith]
      cases hw : takeWith ts with
      | none => simpa [hw] using h
      | some r => simp only [hw] at h ⊢; exact ihWL _ _ h
    · intro ts x h
      rw [parseWithList] at h
      rw [parseWithList]
      cases h0 : parseAtomTok (parseRecursive ts).2 with
      | none => simp [h0] at h
      | some p0 =>
        obtain ⟨name, ts2⟩ := p0
        simp only [h0] at h ⊢
        cases h1 : parseCols ts2 with
        | none => simp [h1] at h
        | some p1 =>
          obtain ⟨cols, ts3⟩ := p1
          simp only [h1] at h ⊢
          cases h2 : expectAsLpar ts3 with
          | none => simp [h2] at h
          | some ts4 =>
            simp only [h2] at h ⊢
            cases h3 : parseQuery tbl lv n ts4 with
            | none => simp [h3] at h
            | some p3 =>
              obtain ⟨q, ts5⟩ := p3
              simp only [h3] at h
              simp only [ihQ _ _ h3]
              cases h4 : expectRpar ts5 with
              | none => simp [h4] at h
              | some ts6 =>
                simp only [h4] at h ⊢
                cases h5 : takeComma ts6 with
                | none => simpa [h5] using h
                | some ts7 =>
                  simp only [h5] at h ⊢
                  cases h6 : parseWithList tbl lv n ts7 with
                  | none => simp [h6] at h
                  | some p6 => simp only [h6] at h; simp only [ihWL _ _ h6]; exact h
    · intro r ts x h
      rw [parseSetE] at h
      rw [parseSetE]
      cases hu : parseSetUnit tbl lv n ts with
      | none => simp [hu] at h
      | some p =>
        obtain ⟨u, ts1⟩ := p
        simp only [hu] at h
        simp only [ihU _ _ hu]
        exact ihL _ _ _ _ h
    · intro ts x h
      rw [parseSetUnit] at h
      rw [parseSetUnit]
      cases hl : expectLpar ts with
      | none => simpa [hl] using h
      | some ts1 =>
        simp only [hl] at h ⊢
        cases hq : parseQuery tbl lv n ts1 with
        | none => simp [hq] at h
        | some p => simp only [hq] at h; simp only [ihQ _ _ hq]; exact h
    · intro r lhs ts x h
      rw [parseSetLoop] at h
      rw [parseSetLoop]
      cases hs : setOpTok ts with
      | none => simpa [hs] using h
      | some p =>
        obtain ⟨k, all, ts1⟩ := p
        simp only [hs] at h ⊢
        by_cases hr : r < lv k
        · simp only [hr, if_true] at h ⊢
          by_cases ht : rightTailEmpty lhs = true
          · simp only [ht, if_true] at h ⊢
            cases he : parseSetE tbl lv n (lv k) ts1 with
            | none => simp [he] at h
            | some p2 =>
              obtain ⟨rhs, ts2⟩ := p2
              simp only [he] at h
              simp only [ihE _ _ _ he]
              exact ihL _ _ _ _ h
          · simp [ht] at h
        · simpa [hr] using h

theorem monoQ {n m : Nat} (h : n ≤ m) {ts : List (Tok α)} {x} (hx : parseQuery tbl lv n ts = some x) :
    parseQuery tbl lv m ts = some x := by
  induction h with
  | refl => exact hx
  | step _ ih => exact (mono_step tbl lv _).1 _ _ ih

theorem monoWL {n m : Nat} (h : n ≤ m) {ts : List (Tok α)} {x} (hx : parseWithList tbl lv n ts = some x) :
    parseWithList tbl lv m ts = some x := by
  induction h with
  | refl => exact hx
  | step _ ih => exact (mono_step tbl lv _).2.2.1 _ _ ih

theorem monoE {n m : Nat} (h : n ≤ m) {r : Nat} {ts : List (Tok α)} {x} (hx : parseSetE tbl lv n r ts = some x) :
    parseSetE tbl lv m r ts = some x := by
  induction h with
  | refl => exact hx
  | step _ ih => exact (mono_step tbl lv _).2.2.2.1 _ _ _ ih

theorem monoL {n m : Nat} (h : n ≤ m) {r : Nat} {lhs : SetTree α} {ts : List (Tok α)} {x}
    (hx : parseSetLoop tbl lv n r lhs ts = some x) : parseSetLoop tbl lv m r lhs ts = some x := by
  induction h with
  | refl => exact hx
  | step _ ih => exact (mono_step tbl lv _).2.2.2.2.2 _ _ _ _ ih

theorem loop_pos {n r : Nat} {lhs : SetTree α} {ts : List (Tok α)} {x} (h : parseSetLoop tbl lv n r lhs ts = some x) : 1 ≤ n := by
  cases n with
  | zero => simp [parseSetLoop] at h
  | succ n => omega

/-! ## reading the printed tokens back -/

/-- the first token of a printed operand / query body: SELECT or `(` -/
def HeadT : List (Tok α) → Prop
  | .kw .select :: _ => True
  | .lpar :: _ => True
  | _ => False

/-- where a query may end: at the end of the text or at a closing parenthesis -/
def Closing : List (Tok α) → Prop
  | [] => True
  | .rpar :: _ => True
  | _ => False

theorem printTree_head : ∀ (t : SetTree α) (rest : List (Tok α)), HeadT (printTree tbl t ++ rest)
  | .ent s, rest => by simp [printTree, printSelect, HeadT]
  | .sub q, rest => by simp [printTree, HeadT]
  | .op l k all r, rest => by
    have := printTree_head l (printSetOp k all ++ printTree tbl r ++ rest)
    simpa [printTree] using this

theorem setOpTok_print (k : SetOp) (all : Bool) (tl : List (Tok α)) (h : HeadT tl) :
    setOpTok (printSetOp k all ++ tl) = some (k, all, tl) := by
  cases tl with
  | nil => simp [HeadT] at h
  | cons a tl' =>
    cases a with
    | kw k' => cases k' <;> simp [HeadT] at h <;> cases k <;> cases all <;> simp [printSetOp, kwOf, setOpTok]
    | lpar => cases k <;> cases all <;> simp [printSetOp, kwOf, setOpTok]
    | _ => simp [HeadT] at h

theorem after8_setOp (k : SetOp) (all : Bool) (tl : List (Tok α)) : After 8 (printSetOp k all ++ tl) := by
  cases k <;> simp [printSetOp, kwOf, After, rank]

theorem setOpTok_closing {rest : List (Tok α)} (h : Closing rest) : setOpTok rest = none := by
  cases rest with
  | nil => rfl
  | cons a tl => cases a <;> simp_all [Closing, setOpTok]

theorem after8_closing {rest : List (Tok α)} (h : Closing rest) : After 8 rest := by
  cases rest with
  | nil => simp [After]
  | cons a tl => cases a <;> simp_all [Closing, After]

theorem rightTailEmpty_of_tailFree : ∀ (t : SetTree α), tailFree t → rightTailEmpty t = true
  | .ent s, h => by obtain ⟨h1, h2, h3⟩ := h; simp [rightTailEmpty, h1, h2, h3]
  | .sub q, _ => rfl
  | .op l k all r, h => by simpa [rightTailEmpty] using rightTailEmpty_of_tailFree r h.2

/-- a loop whose pending operator is not overtaken by the next set operator returns at once -/
theorem loop_return (r : Nat) (lhs : SetTree α) (ts : List (Tok α)) (h : StopT lv [r] ts) (n : Nat) :
    parseSetLoop tbl lv (n + 1) r lhs ts = some (lhs, ts) := by
  rw [parseSetLoop]
  cases hs : setOpTok ts with
  | none => rfl
  | some p =>
    obtain ⟨k, all, tl⟩ := p
    have := h k all tl hs r (by simp)
    have hn : ¬ r < lv k := by omega
    simp [hn]

theorem stopT_of_none {cs : List Nat} {ts : List (Tok α)} (h : setOpTok ts = none) : StopT lv cs ts := by
  intro k all tl hs; rw [h] at hs; simp at hs

def fuToks (fu : Bool) : List (Tok α) := printForUpdate fu

theorem parseForUpdate_print (fu : Bool) (rest : List (Tok α)) (h : Closing rest) :
    parseForUpdate (printForUpdate fu ++ rest) = some (fu, rest) := by
  cases fu with
  | true => simp [printForUpdate, parseForUpdate]
  | false =>
    cases rest with
    | nil => simp [printForUpdate, parseForUpdate]
    | cons a tl => cases a <;> simp_all [Closing, printForUpdate, parseForUpdate]

theorem after8_forUpdate (fu : Bool) (rest : List (Tok α)) (h : Closing rest) : After 8 (printForUpdate fu ++ rest) := by
  cases fu with
  | true => simp [printForUpdate, After, rank]
  | false => simpa [printForUpdate] using after8_closing h

theorem setOpTok_forUpdate (fu : Bool) (rest : List (Tok α)) (h : Closing rest) : setOpTok (printForUpdate fu ++ rest) = none := by
  cases fu with
  | true => simp [printForUpdate, setOpTok]
  | false => simpa [printForUpdate] using setOpTok_closing h

/-- ORDER BY / LIMIT / OFFSET behind a parenthesised operand are read back -/
theorem parseTail_print (t : Tail α) (hw : WFTail tbl t) (rest : List (Tok α)) (hr : After 8 rest) :
    parseTail tbl (printTail tbl t ++ rest) = some (t, rest) := by
  obtain ⟨ob, lim, off⟩ := t
  obtain ⟨hob, hlim, hoff⟩ := hw
  simp only at hob hlim hoff
  have a7 := after_optOffset off hr
  have a6 := after_optLimit lim a7
  have p8 := parseOptOffset_tail off hoff rest hr
  have p7 := parseOptLimit_tail lim hlim _ a7
  have p6 := parseOptOrderBy_tail tbl ob hob _ a6
  have e1 : printTail tbl ⟨ob, lim, off⟩ ++ rest =
      printListClause [Tok.kw .order, Tok.kw .by] (printOrderItem tbl) ob ++ (printOptLimit lim ++ (printOptOffset off ++ rest)) := by
    simp [printTail]
  rw [e1]
  simp only [parseTail, p6, p7, p8]

theorem setOpTok_tail (t : Tail α) (rest : List (Tok α)) (h : setOpTok rest = none) :
    setOpTok (printTail tbl t ++ rest) = none := by
  obtain ⟨ob, lim, off⟩ := t
  cases ob with
  | cons o os => simp [printTail, printListClause, setOpTok]
  | nil =>
    cases lim with
    | some l => simp [printTail, printListClause, printOptLimit, printLimit, setOpTok]
    | none =>
      cases off with
      | some o => simp [printTail, printListClause, printOptLimit, printOptOffset, printOffset, setOpTok]
      | none => simpa [printTail, printListClause, printOptLimit, printOptOffset] using h

theorem parseCols_print (cols : List Nat) (hid : ∀ c ∈ cols, isId c = true) (rest : List (Tok α)) :
    parseCols (printCols cols ++ .kw .as :: rest) = some (cols, .kw .as :: rest) := by
  cases cols with
  | nil => simp [printCols, parseCols]
  | cons c cs =>
    have e1 : printCols (c :: cs) ++ Tok.kw .as :: rest =
        .lpar :: (printSep (fun c => [Tok.atom c]) (c :: cs) ++ (.rpar :: .kw .as :: rest)) := by simp [printCols]
    rw [e1]
    have := parseSep_print (α := α) parseAtomTok (fun c => [Tok.atom c]) (c :: cs) (by simp)
      (fun c hc rest' _ => parseAtomTok_print c (hid c hc) rest') (Tok.rpar :: .kw .as :: rest) 1 (Nat.le_refl 1) (by simp [After])
      (printSep (fun c => [Tok.atom c]) (c :: cs) ++ (Tok.rpar :: Tok.kw .as :: rest)).length (by
        have hl := printSep_length_pos (α := α) (fun c => [Tok.atom c]) (by intro x; simp) (c :: cs)
        simp at hl ⊢; omega)
    simp only [parseCols, this, expectRpar]

theorem takeComma_headT {ts : List (Tok α)} (h : HeadT ts) : takeComma ts = none := by
  cases ts with
  | nil => rfl
  | cons a tl =>
    cases a with
    | kw k => cases k <;> simp_all [HeadT, takeComma]
    | _ => simp [takeComma]

theorem takeWith_headT {ts : List (Tok α)} (h : HeadT ts) : takeWith ts = none := by
  cases ts with
  | nil => rfl
  | cons a tl =>
    cases a with
    | kw k => cases k <;> simp_all [HeadT, takeWith]
    | _ => simp [takeWith]

theorem expectLpar_select (tl : List (Tok α)) : expectLpar (Tok.kw (α := α) .select :: tl) = none := rfl

mutual
/-- reading a well-formed set tree back (continuation form, as for expressions) -/
theorem treeP : ∀ (t : SetTree α), WFT tbl lv t → ∀ (r : Nat) (rest : List (Tok α)) (n : Nat) (res : SetTree α × List (Tok α)),
    FitsT lv r t → StopT lv (rctxT lv t) rest → (endsWithSub t = false → After 8 rest) →
    parseSetLoop tbl lv n r t rest = some res →
    ∀ m, n + costT t ≤ m → parseSetE tbl lv m r (printTree tbl t ++ rest) = some res
  | .ent s, hwf, r, rest, n, res, _, _, haft, h, m, hm => by
    have hn := loop_pos tbl lv h
    obtain ⟨m1, rfl⟩ : ∃ m1, m = m1 + 1 := ⟨m - 1, by simp [costT] at hm; omega⟩
    obtain ⟨m2, rfl⟩ : ∃ m2, m1 = m2 + 1 := ⟨m1 - 1, by simp [costT] at hm; omega⟩
    have hs := parseSelect_print tbl s hwf rest (haft rfl)
    have e1 : expectLpar (printTree tbl (.ent s) ++ rest) = none := by simp [printTree, printSelect, expectLpar]
    rw [parseSetE, parseSetUnit, e1]
    simp only [printTree, hs]
    exact monoL tbl lv (by simp [costT] at hm; omega) h
  | .sub q, hwf, r, rest, n, res, _, _, _, h, m, hm => by
    have hn := loop_pos tbl lv h
    obtain ⟨m1, rfl⟩ : ∃ m1, m = m1 + 1 := ⟨m - 1, by simp [costT] at hm; omega⟩
    obtain ⟨m2, rfl⟩ : ∃ m2, m1 = m2 + 1 := ⟨m1 - 1, by simp [costT] at hm; omega⟩
    have hq := queryP q hwf (.rpar :: rest) (by simp [Closing]) m2 (by simp [costT] at hm; omega)
    have e1 : printTree tbl (.sub q) ++ rest = .lpar :: (printQuery tbl q ++ .rpar :: rest) := by simp [printTree]
    rw [e1, parseSetE, parseSetUnit]
    simp only [expectLpar, hq, expectRpar]
    exact monoL tbl lv (by simp [costT] at hm; omega) h
  | .op l k all r', hwf, r, rest, n, res, hfit, hstop, haft, h, m, hm => by
    have hn := loop_pos tbl lv h
    obtain ⟨hwl, hwr, htf, hred, hfr⟩ := hwf
    have hstop1 : StopT lv [lv k] rest := fun k' a' tl hs c hc => hstop k' a' tl hs c (by simp at hc; simp [rctxT, hc])
    have hstop2 : StopT lv (rctxT lv r') rest := fun k' a' tl hs c hc => hstop k' a' tl hs c (by simp [rctxT, hc])
    have hR : parseSetE tbl lv (n + costT r') (lv k) (printTree tbl r' ++ rest) = some (r', rest) :=
      treeP r' hwr (lv k) rest 1 (r', rest) hfr hstop2 (fun he => haft (by simpa [endsWithSub] using he))
        (loop_return tbl lv (lv k) r' rest hstop1 0) _ (by omega)
    have hsh : r < lv k := hfit (lv k) (by simp [lopsT])
    have hloop : parseSetLoop tbl lv (n + costT r' + 1) r l (printSetOp k all ++ (printTree tbl r' ++ rest)) = some res := by
      rw [parseSetLoop, setOpTok_print k all _ (printTree_head tbl r' rest)]
      simp only [hsh, if_true, rightTailEmpty_of_tailFree l htf, hR]
      exact monoL tbl lv (by omega) h
    have hfl : FitsT lv r l := fun x hx => hfit x (by simp [lopsT, hx])
    have hstl : StopT lv (rctxT lv l) (printSetOp k all ++ (printTree tbl r' ++ rest)) := by
      intro k' a' tl hs c hc
      rw [setOpTok_print k all _ (printTree_head tbl r' rest)] at hs
      simp only [Option.some.injEq, Prod.mk.injEq] at hs
      obtain ⟨rfl, _, _⟩ := hs
      exact hred c hc
    have e1 : printTree tbl (.op l k all r') ++ rest = printTree tbl l ++ (printSetOp k all ++ (printTree tbl r' ++ rest)) := by
      simp [printTree]
    rw [e1]
    exact treeP l hwl r _ (n + costT r' + 1) res hfl hstl (fun _ => after8_setOp k all _) hloop m (by simp [costT] at hm; omega)
/-- a well-formed query in front of the end of the text or a closing parenthesis is read back -/
theorem queryP : ∀ (q : Query α), WFQ tbl lv q → ∀ (rest : List (Tok α)), Closing rest → ∀ m, costQ q ≤ m →
    parseQuery tbl lv m (printQuery tbl q ++ rest) = some (q, rest)
  | .mk w b t fu, hwf, rest, hcl, m, hm => by
    obtain ⟨hww, hwb, hfb, hns, htl1, htl2⟩ := hwf
    obtain ⟨m1, rfl⟩ : ∃ m1, m = m1 + 1 := ⟨m - 1, by simp [costQ] at hm; omega⟩
    obtain ⟨m2, rfl⟩ : ∃ m2, m1 = m2 + 1 := ⟨m1 - 1, by simp [costQ] at hm; omega⟩
    -- what follows the body
    have hFU := parseForUpdate_print fu rest hcl
    have hA := after8_forUpdate fu rest hcl
    have hS : setOpTok (printTail tbl t ++ (printForUpdate fu ++ rest)) = none :=
      setOpTok_tail tbl t _ (setOpTok_forUpdate fu rest hcl)
    have hbody : parseSetE tbl lv (m2 + 1) 0 (printTree tbl b ++ (printTail tbl t ++ (printForUpdate fu ++ rest))) =
        some (b, printTail tbl t ++ (printForUpdate fu ++ rest)) :=
      treeP b hwb 0 _ 1 (b, _) hfb (stopT_of_none lv hS)
        (fun he => by rw [htl2 he]; simpa [printTail, emptyTail, printListClause, printOptLimit, printOptOffset] using hA)
        (loop_return tbl lv 0 b _ (stopT_of_none lv hS) 0) _ (by simp [costQ] at hm; omega)
    have htail : (if endsWithSub b then parseTail tbl (printTail tbl t ++ (printForUpdate fu ++ rest)) else
        some (emptyTail, printTail tbl t ++ (printForUpdate fu ++ rest))) = some (t, printForUpdate fu ++ rest) := by
      cases he : endsWithSub b with
      | true => simpa using parseTail_print tbl t (htl1 he) _ hA
      | false => rw [htl2 he]; simp [printTail, emptyTail, printListClause, printOptLimit, printOptOffset]
    have hwith : parseWith tbl lv (m2 + 1) (withKw w ++ (printWithList tbl w ++ (printTree tbl b ++ (printTail tbl t ++ (printForUpdate fu ++ rest))))) =
        some (w, printTree tbl b ++ (printTail tbl t ++ (printForUpdate fu ++ rest))) := by
      cases w with
      | nil =>
        simp only [withKw, printWithList, List.nil_append, parseWith,
          takeWith_headT (printTree_head tbl b (printTail tbl t ++ (printForUpdate fu ++ rest)))]
      | cons r' n' cols q' rest' =>
        have := withsP (.cons r' n' cols q' rest') (by simp) hww (printTree tbl b ++ (printTail tbl t ++ (printForUpdate fu ++ rest)))
          (printTree_head tbl b _) m2 (by simp [costQ] at hm; omega)
        simp only [withKw, List.cons_append, List.nil_append, parseWith, takeWith, this]
    have e1 : printQuery tbl (.mk w b t fu) ++ rest =
        withKw w ++ (printWithList tbl w ++ (printTree tbl b ++ (printTail tbl t ++ (printForUpdate fu ++ rest)))) := by
      simp [printQuery]
    rw [e1, parseQuery]
    simp only [hwith, hbody, hns, Bool.false_eq_true, if_false, htail, hFU]
/-- a non-empty list of inline tables in front of the body is read back -/
theorem withsP : ∀ (w : Withs α), w ≠ .nil → WFW tbl lv w → ∀ (rest : List (Tok α)), HeadT rest → ∀ m, costW w ≤ m →
    parseWithList tbl lv m (printWithList tbl w ++ rest) = some (w, rest)
  | .nil, hne, _, _, _, _, _ => absurd rfl hne
  | .cons rc name cols q more, _, hwf, rest, hh, m, hm => by
    obtain ⟨hid, hcols, hwq, hwm⟩ := hwf
    obtain ⟨m1, rfl⟩ : ∃ m1, m = m1 + 1 := ⟨m - 1, by simp [costW] at hm; omega⟩
    have hq := fun tl => queryP q hwq (.rpar :: tl) (by simp [Closing]) m1 (by simp [costW] at hm; omega)
    have hrec : ∀ tl : List (Tok α), parseRecursive ((if rc then [Tok.kw .recursive] else []) ++ (.atom name :: tl)) = (rc, .atom name :: tl) := by
      intro tl; cases rc <;> simp [parseRecursive]
    cases more with
    | nil =>
      have e1 : printWithList tbl (.cons rc name cols q .nil) ++ rest =
          (if rc then [Tok.kw .recursive] else []) ++ (.atom name :: (printCols cols ++ (.kw .as :: .lpar :: (printQuery tbl q ++ (.rpar :: rest))))) := by
        simp [printWithList]
      rw [e1, parseWithList, hrec]
      simp only [parseAtomTok, hid, if_true, parseCols_print cols hcols, expectAsLpar, hq, expectRpar, takeComma_headT hh]
    | cons rc2 n2 c2 q2 more2 =>
      have hm2 := withsP (.cons rc2 n2 c2 q2 more2) (by simp) hwm rest hh m1 (by simp [costW] at hm ⊢; omega)
      have e1 : printWithList tbl (.cons rc name cols q (.cons rc2 n2 c2 q2 more2)) ++ rest =
          (if rc then [Tok.kw .recursive] else []) ++ (.atom name :: (printCols cols ++ (.kw .as :: .lpar :: (printQuery tbl q ++
            (.rpar :: .kw .comma :: (printWithList tbl (.cons rc2 n2 c2 q2 more2) ++ rest)))))) := by
        simp [printWithList]
      rw [e1, parseWithList, hrec]
      simp only [parseAtomTok, hid, if_true, parseCols_print cols hcols, expectAsLpar, hq, expectRpar, takeComma, hm2]
end

mutual
theorem costT_le : ∀ t : SetTree α, costT t + 3 ≤ 4 * (printTree tbl t).length
  | .ent s => by simp [costT, printTree, printSelect]; omega
  | .sub q => by have := costQ_le q; simp [costT, printTree]; omega
  | .op l k all r => by
    have := costT_le l; have := costT_le r
    cases all <;> simp [costT, printTree, printSetOp] <;> omega
theorem costQ_le : ∀ q : Query α, costQ q ≤ 4 * (printQuery tbl q).length
  | .mk w b t fu => by
    have := costW_le w; have := costT_le b
    simp [costQ, printQuery]; omega
theorem costW_le : ∀ w : Withs α, costW w ≤ 4 * (printWithList tbl w).length
  | .nil => by simp [costW]
  | .cons rc n cols q more => by
    have := costQ_le q; have := costW_le more
    cases more with
    | nil => simp [costW, printWithList] at *; omega
    | cons rc2 n2 c2 q2 m2 =>
      simp only [costW, printWithList, List.length_append, List.length_cons] at *; omega
end

end Csvq.Query
