/- Lemmas: the driver's round-to-nearest-even is exact on values that are representable, in
   particular on integers below 2^53 (so float and integer arithmetic agree there). -/
import Csvq.Model.Float
namespace Csvq.FVal

theorem pow2_pos (k : Nat) : 0 < pow2 k := Nat.pow_pos (by decide)

/-- a magnitude that is a multiple of 2^k with quotient below 2^53 … is returned unchanged -/
theorem roundMag_exact (a : Nat) (ha : 0 < a) (hlt : a < pow2 53) (e : Nat) (he : e ≤ 2045) :
    roundMag (a * pow2 e) 1 = some (a * pow2 e) := by
  unfold roundMag
  have hpos : 0 < a * pow2 e := Nat.mul_pos ha (pow2_pos e)
  simp only [Nat.div_one, Nat.one_mul]
  have hq0 : ¬ a * pow2 e = 0 := by omega
  simp only [hq0, if_false]
  -- bits = log2 (a * 2^e) + 1 ≤ 53 + e
  have hbound : a * pow2 e < pow2 (53 + e) := by
    unfold pow2 at *; rw [Nat.pow_add]; exact Nat.mul_lt_mul_of_pos_right hlt (Nat.pow_pos (by decide))
  have hlog : Nat.log2 (a * pow2 e) < 53 + e := (Nat.log2_lt hq0).mpr (by unfold pow2 at hbound; exact hbound)
  -- k = bits - 53 ≤ e, so 2^k divides a * 2^e
  have hk : Nat.log2 (a * pow2 e) + 1 - 53 ≤ e := by omega
  have hdvd : pow2 (Nat.log2 (a * pow2 e) + 1 - 53) ∣ a * pow2 e := by
    unfold pow2; exact Nat.dvd_trans (Nat.pow_dvd_pow 2 hk) (Nat.dvd_mul_left _ _)
  generalize hkk : Nat.log2 (a * pow2 e) + 1 - 53 = k at *
  obtain ⟨c, hc⟩ := hdvd
  have hkp := pow2_pos k
  have hm : a * pow2 e / pow2 k = c := by rw [hc]; exact Nat.mul_div_cancel_left c hkp
  have hrem : a * pow2 e - c * pow2 k = 0 := by rw [hc, Nat.mul_comm]; exact Nat.sub_self _
  simp only [hm, hrem, Nat.mul_zero]
  have h1 : ¬ (0 > pow2 k) := by omega
  have h2 : ¬ (0 = pow2 k) := by omega
  simp only [h1, h2, if_false]
  have hn : c * pow2 k = a * pow2 e := by rw [hc, Nat.mul_comm]
  rw [hn]
  have hov : ¬ (a * pow2 e ≥ overflowAt) := by
    have : pow2 (53 + e) ≤ overflowAt := by
      unfold overflowAt pow2; exact Nat.pow_le_pow_right (by decide) (by omega)
    omega
  simp [hov]

end Csvq.FVal

namespace Csvq.FVal

/-- scaling numerator and denominator by the same positive factor does not change the rounding -/
theorem roundMag_scale (x d : Nat) (hd : 0 < d) : roundMag (x * d) d = roundMag x 1 := by
  unfold roundMag
  have h0 : x * d / d = x := Nat.mul_div_cancel x hd
  simp only [h0, Nat.div_one, Nat.one_mul]
  generalize (if x = 0 then 0 else Nat.log2 x + 1) - 53 = k
  have hk := pow2_pos k
  have hm : x * d / (d * pow2 k) = x / pow2 k := by
    rw [Nat.mul_comm x d, Nat.mul_div_mul_left _ _ hd]
  have hrem : x * d - x / pow2 k * (d * pow2 k) = d * (x - x / pow2 k * pow2 k) := by
    rw [Nat.mul_sub, Nat.mul_comm x d]
    congr 1
    rw [Nat.mul_comm d (pow2 k), ← Nat.mul_assoc, Nat.mul_comm d]
  simp only [hm, hrem]
  generalize x / pow2 k = m
  generalize x - m * pow2 k = r
  have c1 : (2 * (d * r) > d * pow2 k) ↔ (2 * r > pow2 k) := by
    constructor
    · intro h
      have : d * pow2 k < d * (2 * r) := by rw [Nat.mul_left_comm] at h; exact h
      exact Nat.lt_of_mul_lt_mul_left this
    · intro h
      have := Nat.mul_lt_mul_of_pos_left h hd
      rw [Nat.mul_left_comm] ; exact this
  have c2 : (2 * (d * r) = d * pow2 k) ↔ (2 * r = pow2 k) := by
    constructor
    · intro h
      have : d * (2 * r) = d * pow2 k := by rw [Nat.mul_left_comm]; exact h
      exact Nat.eq_of_mul_eq_mul_left hd this
    · intro h; rw [Nat.mul_left_comm, h]
  simp only [c1, c2]

theorem unitNat_pos : 0 < unit := pow2_pos 1074

theorem signed_some (neg : Bool) (n : Nat) (hn : n ≠ 0) :
    signed neg (some n) = if neg then .fin (-(n : Int)) else .fin (n : Int) := by
  cases n with
  | zero => exact absurd rfl hn
  | succ k => cases neg <;> simp [signed]

/-- float64(i) is exact for |i| < 2^53 -/
theorem ofInt_exact (i : Int) (h : i.natAbs < pow2 53) : ofInt i = .fin (i * (unit : Int)) := by
  unfold ofInt
  by_cases h0 : i = 0
  · subst h0; simp
  · simp only [h0, if_false]
    have ha : 0 < i.natAbs := Int.natAbs_pos.mpr h0
    have hu : unit = pow2 1074 := rfl
    rw [hu, roundMag_exact i.natAbs ha h 1074 (by decide)]
    have hne : i.natAbs * pow2 1074 ≠ 0 := Nat.ne_of_gt (Nat.mul_pos ha (pow2_pos 1074))
    rw [signed_some _ _ hne]
    by_cases hneg : i < 0
    · have : (i.natAbs : Int) = -i := by omega
      simp only [hneg, decide_true, if_true]
      rw [Int.natCast_mul, this, Int.neg_mul, Int.neg_neg]
    · have : (i.natAbs : Int) = i := by omega
      simp only [hneg, decide_false, Bool.false_eq_true, if_false]
      rw [Int.natCast_mul, this]

/-- float `+` of two exact integers whose sum is below 2^53 is the exact sum -/
theorem add_int_exact (p q : Int) (h : (p + q).natAbs < pow2 53) :
    add (.fin (p * (unit : Int))) (.fin (q * (unit : Int))) = .fin ((p + q) * (unit : Int)) := by
  have hu : unit = pow2 1074 := rfl
  have hs : p * (unit : Int) + q * (unit : Int) = (p + q) * (unit : Int) := by rw [Int.add_mul]
  simp only [add, num?, hs]
  by_cases h0 : p + q = 0
  · simp [h0]
  · have hupos : (0 : Int) < (unit : Int) := by exact_mod_cast unitNat_pos
    have hne : (p + q) * (unit : Int) ≠ 0 := Int.mul_ne_zero h0 (Int.ne_of_gt hupos)
    simp only [hne, if_false]
    have habs : ((p + q) * (unit : Int)).natAbs = (p + q).natAbs * pow2 1074 := by
      rw [Int.natAbs_mul, Int.natAbs_natCast, hu]
    have ha : 0 < (p + q).natAbs := Int.natAbs_pos.mpr h0
    rw [habs, roundMag_exact _ ha h 1074 (by decide)]
    have hne2 : (p + q).natAbs * pow2 1074 ≠ 0 := Nat.ne_of_gt (Nat.mul_pos ha (pow2_pos 1074))
    rw [signed_some _ _ hne2]
    by_cases hneg : p + q < 0
    · have h1 : (p + q) * (unit : Int) < 0 := Int.mul_neg_of_neg_of_pos hneg hupos
      have : ((p + q).natAbs : Int) = -(p + q) := by omega
      simp only [h1, decide_true, if_true]
      rw [Int.natCast_mul, this, Int.neg_mul, Int.neg_neg, hu]
    · have h1 : ¬ (p + q) * (unit : Int) < 0 := by
        have : 0 ≤ (p + q) * (unit : Int) := Int.mul_nonneg (by omega) (Int.le_of_lt hupos)
        omega
      have : ((p + q).natAbs : Int) = p + q := by omega
      simp only [h1, decide_false, Bool.false_eq_true, if_false]
      rw [Int.natCast_mul, this, hu]

end Csvq.FVal
