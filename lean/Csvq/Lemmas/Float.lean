/- Lemmas: the driver's round-to-nearest-even is exact on values that are representable, in
   particular on integers below 2^53 (so float and integer arithmetic agree there). -/
import Csvq.Model.Float
namespace Csvq.FVal

theorem pow2_pos (k : Nat) : 0 < pow2 k := Nat.pow_pos (by decide)

/-- a magnitude that is a multiple of 2^k with quotient below 2^53 … is returned unchanged -/
theorem roundMag_exact (a : Nat) (ha : 0 < a) (hlt : a < pow2 53) (e : Nat) (he : e ≤ 2045) :
    roundMag (a * pow2 e) 1 = some (a * pow2 e) := by
  unfold roundMag
  have hpos : 0 < a * pow2 e := Nat.mul_pos ha (pow2_pos e)
  simp only [Nat.div_one, Nat.one_mul]
  have hq0 : ¬ a * pow2 e = 0 := by omega
  simp only [hq0, if_false]
  -- bits = log2 (a * 2^e) + 1 ≤ 53 + e
  have hbound : a * pow2 e < pow2 (53 + e) := by
    unfold pow2 at *; rw [Nat.pow_add]; exact Nat.mul_lt_mul_of_pos_right hlt (Nat.pow_pos (by decide))
  have hlog : Nat.log2 (a * pow2 e) < 53 + e := (Nat.log2_lt hq0).mpr (by unfold pow2 at hbound; exact hbound)
  -- k = bits - 53 ≤ e, so 2^k divides a * 2^e
  have hk : Nat.log2 (a * pow2 e) + 1 - 53 ≤ e := by omega
  have hdvd : pow2 (Nat.log2 (a * pow2 e) + 1 - 53) ∣ a * pow2 e := by
    unfold pow2; exact Nat.dvd_trans (Nat.pow_dvd_pow 2 hk) (Nat.dvd_mul_left _ _)
  generalize hkk : Nat.log2 (a * pow2 e) + 1 - 53 = k at *
  obtain ⟨c, hc⟩ := hdvd
  have hkp := pow2_pos k
  have hm : a * pow2 e / pow2 k = c := by rw [hc]; exact Nat.mul_div_cancel_left c hkp
  have hrem : a * pow2 e - c * pow2 k = 0 := by rw [hc, Nat.mul_comm]; exact Nat.sub_self _
  simp only [hm, hrem, Nat.mul_zero]
  have h1 : ¬ (0 > pow2 k) := by omega
  have h2 : ¬ (0 = pow2 k) := by omega
  simp only [h1, h2, if_false]
  have hn : c * pow2 k = a * pow2 e := by rw [hc, Nat.mul_comm]
  rw [hn]
  have hov : ¬ (a * pow2 e ≥ overflowAt) := by
    have : pow2 (53 + e) ≤ overflowAt := by
      unfold overflowAt pow2; exact Nat.pow_le_pow_right (by decide) (by omega)
    omega
  simp [hov]

end Csvq.FVal

namespace Csvq.FVal

/-- scaling numerator and denominator by the same positive factor does not change the rounding -/
theorem roundMag_scale (x d : Nat) (hd : 0 < d) : roundMag (x * d) d = roundMag x 1 := by
  unfold roundMag
  have h0 : x * d / d = x := Nat.mul_div_cancel x hd
  simp only [h0, Nat.div_one, Nat.one_mul]
  generalize (if x = 0 then 0 else Nat.log2 x + 1) - 53 = k
  have hk := pow2_pos k
  have hm : x * d / (d * pow2 k) = x / pow2 k := by
    rw [Nat.mul_comm x d, Nat.mul_div_mul_left _ _ hd]
  have hrem : x * d - x / pow2 k * (d * pow2 k) = d * (x - x / pow2 k * pow2 k) := by
    rw [Nat.mul_sub, Nat.mul_comm x d]
    congr 1
    rw [Nat.mul_comm d (pow2 k), ← Nat.mul_assoc, Nat.mul_comm d]
  simp only [hm, hrem]
  generalize x / pow2 k = m
  generalize x - m * pow2 k = r
  have c1 : (2 * (d * r) > d * pow2 k) ↔ (2 * r > pow2 k) := by
    constructor
    · intro h
      have : d * pow2 k < d * (2 * r) := by rw [Nat.mul_left_comm] at h; exact h
      exact Nat.lt_of_mul_lt_mul_left this
    · intro h
      have := Nat.mul_lt_mul_of_pos_left h hd
      rw [Nat.mul_left_comm] ; exact this
  have c2 : (2 * (d * r) = d * pow2 k) ↔ (2 * r = pow2 k) := by
    constructor
    · intro h
      have : d * (2 * r) = d * pow2 k := by rw [Nat.mul_left_comm]; exact h
      exact Nat.eq_of_mul_eq_mul_left hd this
    · intro h; rw [Nat.mul_left_comm, h]
  simp only [c1, c2]

theorem unitNat_pos : 0 < unit := pow2_pos 1074

theorem signed_some (neg : Bool) (n : Nat) (hn : n ≠ 0) :
    signed neg (some n) = if neg then .fin (-(n : Int)) else .fin (n : Int) := by
  cases n with
  | zero => exact absurd rfl hn
  | succ k => cases neg <;> simp [signed]

/-- float64(i) is exact for |i| < 2^53 -/
theorem ofInt_exact (i : Int) (h : i.natAbs < pow2 53) : ofInt i = .fin (i * (unit : Int)) := by
  unfold ofInt
  by_cases h0 : i = 0
  · subst h0; simp
  · simp only [h0, if_false]
    have ha : 0 < i.natAbs := Int.natAbs_pos.mpr h0
    have hu : unit = pow2 1074 := rfl
    rw [hu, roundMag_exact i.natAbs ha h 1074 (by decide)]
    have hne : i.natAbs * pow2 1074 ≠ 0 := Nat.ne_of_gt (Nat.mul_pos ha (pow2_pos 1074))
    rw [signed_some _ _ hne]
    by_cases hneg : i < 0
    · have : (i.natAbs : Int) = -i := by omega
      simp only [hneg, decide_true, if_true]
      rw [Int.natCast_mul, this, Int.neg_mul, Int.neg_neg]
    · have : (i.natAbs : Int) = i := by omega
      simp only [hneg, decide_false, Bool.false_eq_true, if_false]
      rw [Int.natCast_mul, this]

/-- float `+` of two exact integers whose sum is below 2^53 is the exact sum -/
theorem add_int_exact (p q : Int) (h : (p + q).natAbs < pow2 53) :
    add (.fin (p * (unit : Int))) (.fin (q * (unit : Int))) = .fin ((p + q) * (unit : Int)) := by
  have hu : unit = pow2 1074 := rfl
  have hs : p * (unit : Int) + q * (unit : Int) = (p + q) * (unit : Int) := by rw [Int.add_mul]
  simp only [add, num?, hs]
  by_cases h0 : p + q = 0
  · simp [h0]
  · have hupos : (0 : Int) < (unit : Int) := by exact_mod_cast unitNat_pos
    have hne : (p + q) * (unit : Int) ≠ 0 := Int.mul_ne_zero h0 (Int.ne_of_gt hupos)
    simp only [hne, if_false]
    have habs : ((p + q) * (unit : Int)).natAbs = (p + q).natAbs * pow2 1074 := by
      rw [Int.natAbs_mul, Int.natAbs_natCast, hu]
    have ha : 0 < (p + q).natAbs := Int.natAbs_pos.mpr h0
    rw [habs, roundMag_exact _ ha h 1074 (by decide)]
    have hne2 : (p + q).natAbs * pow2 1074 ≠ 0 := Nat.ne_of_gt (Nat.mul_pos ha (pow2_pos 1074))
    rw [signed_some _ _ hne2]
    by_cases hneg : p + q < 0
    · have h1 : (p + q) * (unit : Int) < 0 := Int.mul_neg_of_neg_of_pos hneg hupos
      have : ((p + q).natAbs : Int) = -(p + q) := by omega
      simp only [h1, decide_true, if_true]
      rw [Int.natCast_mul, this, Int.neg_mul, Int.neg_neg, hu]
    · have h1 : ¬ (p + q) * (unit : Int) < 0 := by
        have : 0 ≤ (p + q) * (unit : Int) := Int.mul_nonneg (by omega) (Int.le_of_lt hupos)
        omega
      have : ((p + q).natAbs : Int) = p + q := by omega
      simp only [h1, decide_false, Bool.false_eq_true, if_false]
      rw [Int.natCast_mul, this, hu]

end Csvq.FVal

namespace Csvq.FVal

theorem unit_int_pos : (0 : Int) < (unit : Int) := by exact_mod_cast unitNat_pos

theorem decide_mul_neg (p u : Int) (hu : 0 < u) : decide (p * u < 0) = decide (p < 0) := by
  by_cases c : p < 0
  · have := Int.mul_neg_of_neg_of_pos c hu
    simp [c, this]
  · have h0 : 0 ≤ p * u := Int.mul_nonneg (by omega) (Int.le_of_lt hu)
    have : ¬ p * u < 0 := by omega
    simp [c, this]

/-- negation of an exact integer image -/
theorem neg_int (q : Int) (hq : q ≠ 0) : neg (.fin (q * (unit : Int))) = .fin ((-q) * (unit : Int)) := by
  have hne : q * (unit : Int) ≠ 0 := Int.mul_ne_zero hq (Int.ne_of_gt unit_int_pos)
  simp only [neg, hne, if_false, Int.neg_mul]

/-- adding -0 to a non-zero finite value changes nothing -/
theorem add_negz_right (n : Int) (hn : n ≠ 0) (hex : roundMag n.natAbs 1 = some n.natAbs) :
    add (.fin n) .negz = .fin n := by
  simp only [add, num?, Int.add_zero, hn, if_false, hex]
  have hne : n.natAbs ≠ 0 := by omega
  rw [signed_some _ _ hne]
  by_cases h : n < 0
  · have e : (n.natAbs : Int) = -n := by omega
    simp only [h, decide_true, if_true]
    rw [e, Int.neg_neg]
  · have e : (n.natAbs : Int) = n := by omega
    simp only [h, decide_false, Bool.false_eq_true, if_false]
    rw [e]

theorem roundMag_int_unit (a : Nat) (ha : 0 < a) (h : a < pow2 53) : roundMag (a * unit) 1 = some (a * unit) := by
  have hu : unit = pow2 1074 := rfl
  rw [hu]; exact roundMag_exact a ha h 1074 (by decide)

/-- float `-` of two exact integers whose difference is below 2^53 is the exact difference -/
theorem sub_int_exact (p q : Int) (h : (p - q).natAbs < pow2 53) :
    sub (.fin (p * (unit : Int))) (.fin (q * (unit : Int))) = .fin ((p - q) * (unit : Int)) := by
  unfold sub
  by_cases hq : q = 0
  · subst hq
    simp only [Int.zero_mul, Int.sub_zero] at h ⊢
    have : neg (.fin 0) = .negz := by simp [neg]
    rw [this]
    by_cases hp : p = 0
    · subst hp; simp [add, num?]
    · have hne : p * (unit : Int) ≠ 0 := Int.mul_ne_zero hp (Int.ne_of_gt unit_int_pos)
      apply add_negz_right _ hne
      have ha : 0 < p.natAbs := Int.natAbs_pos.mpr hp
      rw [Int.natAbs_mul, Int.natAbs_natCast]
      exact roundMag_int_unit _ ha h
  · rw [neg_int q hq]
    have : p - q = p + -q := Int.sub_eq_add_neg
    rw [this] at h ⊢
    exact add_int_exact p (-q) h

/-- float `*` of two exact integers whose product is non-zero and below 2^53 is the exact product
    (a zero product is ±0: the sign of a float zero has no integer counterpart) -/
theorem mul_int_exact (p q : Int) (h0 : p * q ≠ 0) (h : (p * q).natAbs < pow2 53) :
    mul (.fin (p * (unit : Int))) (.fin (q * (unit : Int))) = .fin ((p * q) * (unit : Int)) := by
  have hp : p ≠ 0 := fun e => h0 (by rw [e, Int.zero_mul])
  have hq : q ≠ 0 := fun e => h0 (by rw [e, Int.mul_zero])
  have hupos := unit_int_pos
  have ha : 0 < (p * q).natAbs := Int.natAbs_pos.mpr h0
  have hex := roundMag_int_unit _ ha h
  have hupn := unitNat_pos
  simp only [mul, isNaN, isInf, isNeg, Bool.or_false, Bool.false_eq_true, if_false, num?]
  rw [decide_mul_neg p _ hupos, decide_mul_neg q _ hupos]
  have hmag : (p * (unit : Int)).natAbs * (q * (unit : Int)).natAbs = ((p * q).natAbs * unit) * unit := by
    rw [Int.natAbs_mul, Int.natAbs_mul, Int.natAbs_natCast, Int.natAbs_mul]
    generalize unit = u
    ac_rfl
  rw [hmag, roundMag_scale _ _ hupn, hex]
  have hne : (p * q).natAbs * unit ≠ 0 := Nat.ne_of_gt (Nat.mul_pos ha hupn)
  rw [signed_some _ _ hne, Int.natCast_mul]
  generalize (unit : Int) = u at *
  rcases Int.lt_or_gt_of_ne hp with lp | gp <;> rcases Int.lt_or_gt_of_ne hq with lq | gq
  · have hpos : 0 < p * q := Int.mul_pos_of_neg_of_neg lp lq
    have e : ((p * q).natAbs : Int) = p * q := by omega
    simp only [lp, lq, decide_true, bne_self_eq_false, Bool.false_eq_true, if_false]
    rw [e]
  · have hneg : p * q < 0 := Int.mul_neg_of_neg_of_pos lp gq
    have e : ((p * q).natAbs : Int) = -(p * q) := by omega
    have nq : ¬ (q < 0) := by omega
    simp only [lp, nq, decide_true, decide_false, Bool.true_bne, Bool.not_false, if_true]
    rw [e, Int.neg_mul, Int.neg_neg]
  · have hneg : p * q < 0 := Int.mul_neg_of_pos_of_neg gp lq
    have e : ((p * q).natAbs : Int) = -(p * q) := by omega
    have np : ¬ (p < 0) := by omega
    simp only [np, lq, decide_true, decide_false, Bool.false_bne, if_true]
    rw [e, Int.neg_mul, Int.neg_neg]
  · have hpos : 0 < p * q := Int.mul_pos gp gq
    have e : ((p * q).natAbs : Int) = p * q := by omega
    have np : ¬ (p < 0) := by omega
    have nq : ¬ (q < 0) := by omega
    simp only [np, nq, decide_false, bne_self_eq_false, Bool.false_eq_true, if_false]
    rw [e]

end Csvq.FVal
