/-
  Lemmas for Props/C17Ident.lean: the scanner of equalFieldIdentifiers over printed pieces.
-/
import Csvq.Model.ColumnIdent
namespace Csvq.ColIdent
open Csvq.Esc

/-- what the escaper writes for one rune: the rune itself (then it is neither a backslash nor the quote), or a
    backslash and one more rune -/
theorem escRune_cases (q r : Char) :
    (escRune q r = [r] ∧ r ≠ '\\' ∧ r ≠ q) ∨ (∃ k, escRune q r = ['\\', k]) := by
  unfold escRune
  repeat' split
  all_goals first
    | exact Or.inr ⟨_, rfl⟩
    | (refine Or.inl ⟨rfl, ?_, ?_⟩ <;> assumption)

theorem checks_append : ∀ (m1 : List Bool) (a1 b1 : List Char) (m2 : List Bool) (a2 b2 : List Char),
    m1.length = a1.length → b1.length = a1.length →
    checks (m1 ++ m2) (a1 ++ a2) (b1 ++ b2) = (checks m1 a1 b1 && checks m2 a2 b2)
  | [], [], [], m2, a2, b2, _, _ => by simp [checks]
  | [], [], _ :: _, _, _, _, _, h => by simp at h
  | [], _ :: _, _, _, _, _, h, _ => by simp at h
  | _ :: _, [], _, _, _, _, h, _ => by simp at h
  | _ :: _, _ :: _, [], _, _, _, _, h => by simp at h
  | e :: m1, x :: a1, y :: b1, m2, a2, b2, h, hb => by
    simp only [List.cons_append, checks]
    rw [checks_append m1 a1 b1 m2 a2 b2 (by simpa using h) (by simpa using hb), Bool.and_assoc]

/-- scanning the escaped content of a quoted piece: the state comes back to (quote, not escaped); inside '…' every
    rune is compared exactly, inside `…` none is -/
theorem scan_escapeWith (q : Char) : ∀ (s a' b1 b2 : List Char),
    b1.length = (escapeWith q s).length →
    scan ⟨some q, false⟩ (escapeWith q s ++ a') (b1 ++ b2)
      = (checks ((escapeWith q s).map fun _ => decide (q = '\'')) (escapeWith q s) b1
          && scan ⟨some q, false⟩ a' b2)
  | [], a', b1, b2, hl => by
    have : b1 = [] := by cases b1 with | nil => rfl | cons _ _ => simp [escapeWith] at hl
    subst this; simp [escapeWith, checks]
  | r :: s, a', b1, b2, hl => by
    rcases escRune_cases q r with ⟨e, h1, h2⟩ | ⟨k, e⟩
    · -- one rune, unchanged
      simp only [escapeWith, e, List.cons_append, List.nil_append, List.length_cons] at hl ⊢
      cases b1 with
      | nil => simp at hl
      | cons y b1 =>
        have ih := scan_escapeWith q s a' b1 b2 (by simpa using hl)
        simp only [List.cons_append, scan, step, List.map_cons, checks]
        by_cases hx : q = '\'' ∧ r ≠ y
        · simp [hx.1, hx.2]
        · rw [if_neg hx]
          simp only [Bool.false_eq_true, if_false, h1, h2]
          rw [ih]
          by_cases hq' : q = '\''
          · have : r = y := by
              by_cases hry : r = y
              · exact hry
              · exact absurd ⟨hq', hry⟩ hx
            subst this; subst hq'; simp
          · simp [hq']
    · -- a backslash and one more rune
      simp only [escapeWith, e, List.cons_append, List.nil_append, List.length_cons] at hl ⊢
      cases b1 with
      | nil => simp at hl
      | cons y b1 =>
        cases b1 with
        | nil => simp at hl
        | cons y2 b1 =>
          have ih := scan_escapeWith q s a' b1 b2 (by simpa using hl)
          simp only [List.cons_append, scan, step, List.map_cons, checks]
          by_cases hx : q = '\'' ∧ '\\' ≠ y
          · simp [hx.1, hx.2]
          · rw [if_neg hx]
            simp only [Bool.false_eq_true, if_false, if_true]
            by_cases hx2 : q = '\'' ∧ k ≠ y2
            · simp [hx2.1, hx2.2]
            · rw [if_neg hx2]
              simp only [if_true]
              rw [ih]
              by_cases hq' : q = '\''
              · have e1 : '\\' = y := by
                  by_cases h : '\\' = y
                  · exact h
                  · exact absurd ⟨hq', h⟩ hx
                have e2 : k = y2 := by
                  by_cases h : k = y2
                  · exact h
                  · exact absurd ⟨hq', h⟩ hx2
                subst e1; subst e2; subst hq'; simp
              · simp [hq']

/-- outside quotes nothing is compared and the state stays initial -/
theorem scan_plain : ∀ (s a' b1 b2 : List Char), (∀ c ∈ s, c ≠ '\'' ∧ c ≠ '`') → b1.length = s.length →
    scan St.init (s ++ a') (b1 ++ b2) = scan St.init a' b2
  | [], a', b1, b2, _, hl => by
    have : b1 = [] := by cases b1 with | nil => rfl | cons _ _ => simp at hl
    subst this; simp
  | c :: s, a', b1, b2, h, hl => by
    cases b1 with
    | nil => simp at hl
    | cons y b1 =>
      have hc := h c (by simp)
      have ih := scan_plain s a' b1 b2 (fun d hd => h d (List.mem_cons_of_mem _ hd)) (by simpa using hl)
      simp only [List.cons_append, scan, step, St.init, hc.1, hc.2, or_self, if_false]
      exact ih

theorem checks_all_false : ∀ (a b : List Char), checks (a.map fun _ => false) a b = true
  | [], _ => by simp [checks]
  | _ :: _, [] => by simp [checks]
  | x :: a, y :: b => by simp [checks, checks_all_false a b]

theorem split_last (l : List Char) (n : Nat) (h : l.length = n + 1) : ∃ c z, l = c ++ [z] ∧ c.length = n := by
  have hne : l ≠ [] := by intro e; rw [e] at h; simp at h
  refine ⟨l.dropLast, l.getLast hne, (List.dropLast_concat_getLast hne).symm, ?_⟩
  simp [h]

/-- the closing quote of a quoted piece, seen in the state (quote, not escaped) -/
theorem scan_closing (q : Char) (hq : q = '\'' ∨ q = '`') (a' : List Char) (z : Char) (b2 : List Char) :
    scan ⟨some q, false⟩ (q :: a') (z :: b2)
      = ((if q = '\'' then decide (q = z) else true) && scan St.init a' b2) := by
  have hb : q ≠ '\\' := by rcases hq with h | h <;> (rw [h]; decide)
  simp only [scan, step]
  by_cases hx : q = '\'' ∧ q ≠ z
  · obtain ⟨hq1, hq2⟩ := hx
    subst hq1
    simp [hq2]
  · rw [if_neg hx]
    simp only [Bool.false_eq_true, if_false, hb, if_true, St.init]
    by_cases hq' : q = '\''
    · have : q = z := by
        by_cases h : q = z
        · exact h
        · exact absurd ⟨hq', h⟩ hx
      simp [hq', ← this]
    · simp [hq']

/-- one printed piece: the scanner is back in its initial state behind it and has compared exactly the marked runes -/
theorem scan_seg (g : Seg) (hg : g.OK) (a' b1 b2 : List Char) (hl : b1.length = g.render.length) :
    scan St.init (g.render ++ a') (b1 ++ b2) = (checks g.mark g.render b1 && scan St.init a' b2) := by
  cases g with
  | plain s =>
    simp only [Seg.render, Seg.mark] at hl ⊢
    rw [scan_plain s a' b1 b2 hg hl, checks_all_false]; simp
  | str s =>
    simp only [Seg.render, quoteString, escapeString, List.length_cons, List.length_append, List.length_nil] at hl
    cases b1 with
    | nil => simp at hl
    | cons y b1 =>
      obtain ⟨c, z, hc, hcl⟩ := split_last b1 (escapeWith '\'' s).length (by simpa using hl)
      subst hc
      have h1 := scan_escapeWith '\'' s ('\'' :: a') c (z :: b2) hcl
      have h2 := scan_closing '\'' (Or.inl rfl) a' z b2
      have hm : Seg.mark (.str s) = [false] ++ (((escapeWith '\'' s).map fun _ => true) ++ [true]) := rfl
      have hr : Seg.render (.str s) = ['\''] ++ (escapeWith '\'' s ++ ['\'']) := rfl
      rw [hm, hr]
      have hb : y :: (c ++ [z]) = [y] ++ (c ++ [z]) := rfl
      rw [hb, checks_append [false] ['\''] [y] _ _ _ rfl rfl,
        checks_append _ (escapeWith '\'' s) c [true] ['\''] [z] (by simp) hcl]
      simp only [List.singleton_append, List.cons_append, List.append_assoc, List.nil_append, scan, step, St.init, true_or,
        if_true]
      rw [h1, h2]
      simp [checks, Bool.and_assoc, St.init]
  | ident s =>
    simp only [Seg.render, quoteIdentifier, escapeIdentifier, List.length_cons, List.length_append, List.length_nil] at hl
    cases b1 with
    | nil => simp at hl
    | cons y b1 =>
      obtain ⟨c, z, hc, hcl⟩ := split_last b1 (escapeWith '`' s).length (by simpa using hl)
      subst hc
      have h1 := scan_escapeWith '`' s ('`' :: a') c (z :: b2) hcl
      have h2 := scan_closing '`' (Or.inr rfl) a' z b2
      have hne : ('`' = '\'') = False := by decide
      have hm : Seg.mark (.ident s) = (Seg.render (.ident s)).map fun _ => false := rfl
      rw [hm, checks_all_false]
      have hr : Seg.render (.ident s) = '`' :: (escapeWith '`' s ++ ['`']) := rfl
      rw [hr]
      simp only [List.cons_append, List.append_assoc, List.nil_append, scan, step, St.init, or_true, if_true]
      rw [h1, h2]
      have hc : checks ((escapeWith '`' s).map fun _ => decide ('`' = '\'')) (escapeWith '`' s) c = true := by
        have : (fun (_ : Char) => decide ('`' = '\'')) = fun _ => false := by funext _; simp
        rw [this]; exact checks_all_false _ _
      rw [hc]; simp [St.init]

theorem render_cons (g : Seg) (A : List Seg) : render (g :: A) = g.render ++ render A := by
  simp [render]

theorem marks_cons (g : Seg) (A : List Seg) : marks (g :: A) = g.mark ++ marks A := by
  simp [marks]

theorem mark_length (g : Seg) : g.mark.length = g.render.length := by
  cases g <;> simp [Seg.mark, Seg.render, quoteString, quoteIdentifier, escapeString]

theorem marks_length : ∀ (A : List Seg), (marks A).length = (render A).length
  | [] => rfl
  | g :: A => by rw [render_cons, marks_cons, List.length_append, List.length_append, mark_length, marks_length A]

/-- a whole printed expression: the scanner compares exactly the marked runes -/
theorem scan_render : ∀ (A : List Seg), (∀ g ∈ A, g.OK) → ∀ (b : List Char), (render A).length = b.length →
    scan St.init (render A) b = checks (marks A) (render A) b
  | [], _, b, _ => by simp [render, marks, scan, checks]
  | g :: A, h, b, hl => by
    rw [render_cons] at hl ⊢
    rw [marks_cons]
    have hn : g.render.length ≤ b.length := by simp at hl; omega
    have hb : b = b.take g.render.length ++ b.drop g.render.length := (List.take_append_drop _ _).symm
    have ht : (b.take g.render.length).length = g.render.length := by simp; omega
    rw [hb]
    rw [scan_seg g (h g (by simp)) (render A) _ _ ht]
    rw [checks_append g.mark g.render _ (marks A) (render A) _ (mark_length g) ht]
    rw [scan_render A (fun g' hg' => h g' (List.mem_cons_of_mem _ hg')) (b.drop g.render.length)
      (by simp at hl ⊢; omega)]

theorem foldEq_length (feq : Char → Char → Bool) : ∀ (a b : List Char), foldEq feq a b = true → a.length = b.length
  | [], [], _ => rfl
  | [], _ :: _, h => by simp [foldEq] at h
  | _ :: _, [], h => by simp [foldEq] at h
  | x :: a, y :: b, h => by
    simp only [foldEq, Bool.and_eq_true] at h
    simp [foldEq_length feq a b h.2]

/-- "exact where marked, folded elsewhere" = folded everywhere and exact where marked -/
theorem sameUpTo_eq (feq : Char → Char → Bool) (hrefl : ∀ c, feq c c = true) : ∀ (a : List Char) (m : List Bool) (b : List Char),
    m.length = a.length → sameUpTo feq a m b = (foldEq feq a b && checks m a b)
  | [], [], [], _ => rfl
  | [], [], _ :: _, _ => by simp [sameUpTo, foldEq]
  | [], _ :: _, _, h => by simp at h
  | _ :: _, [], _, h => by simp at h
  | x :: a, e :: m, [], _ => by simp [sameUpTo, foldEq]
  | x :: a, e :: m, y :: b, h => by
    simp only [sameUpTo, foldEq, checks]
    rw [sameUpTo_eq feq hrefl a m b (by simpa using h)]
    cases e with
    | false => simp [Bool.and_assoc]
    | true =>
      by_cases hxy : x = y
      · subst hxy; simp [hrefl]
      · simp [hxy]

theorem checks_self : ∀ (m : List Bool) (a : List Char), checks m a a = true
  | [], _ => by simp [checks]
  | _ :: _, [] => by simp [checks]
  | e :: m, x :: a => by simp [checks, checks_self m a]

theorem foldEq_self (feq : Char → Char → Bool) (hrefl : ∀ c, feq c c = true) : ∀ (a : List Char), foldEq feq a a = true
  | [] => rfl
  | x :: a => by simp [foldEq, hrefl, foldEq_self feq hrefl a]

end Csvq.ColIdent
