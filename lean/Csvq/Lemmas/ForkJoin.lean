/-
  Helper lemmas for C13 (fork–join model, RecordRange arithmetic, partition building).
-/
import Csvq.Model.ForkJoin

namespace Csvq.C13
open Csvq.ForkJoin

theorem event_in_thread (x : Exec) (tr : List Event) (h : Interleaving x tr) (e : Event) (he : e ∈ tr) :
    e.acc ∈ x.thread e.tid := by
  rw [← h e.tid]
  exact List.mem_map.mpr ⟨e, List.mem_filter.mpr ⟨he, by simp⟩, rfl⟩

theorem event_conforms (d : Discipline) (x : Exec)
    (hw : ∀ i, i < x.n → ∀ a ∈ x.worker i, Conforms d (.worker i) a)
    (hp : ∀ a ∈ x.parent, Conforms d .parent a)
    (tr : List Event) (h : Interleaving x tr) (e : Event) (he : e ∈ tr) : Conforms d e.tid e.acc := by
  have hm := event_in_thread x tr h e he
  cases ht : e.tid with
  | parent =>
    rw [ht] at hm
    exact hp _ hm
  | worker i =>
    rw [ht] at hm
    simp only [Exec.thread] at hm
    by_cases hi : i < x.n
    · rw [if_pos hi] at hm
      exact hw i hi _ hm
    · rw [if_neg hi] at hm
      cases hm

/-- two events that both conform to one discipline with disjoint index ranges never race -/
theorem conforming_no_race (d : Discipline) (n : Nat) (hdisj : RangesDisjoint n d.lo d.hi)
    (e₁ e₂ : Event) (hn₁ : ∀ i, e₁.tid = .worker i → i < n) (hn₂ : ∀ i, e₂.tid = .worker i → i < n)
    (h₁ : Conforms d e₁.tid e₁.acc) (h₂ : Conforms d e₂.tid e₂.acc) : ¬ Race e₁ e₂ := by
  intro ⟨hne, hloc, hw, hlocks, hat⟩
  unfold Conforms at h₁ h₂
  rw [← hloc] at h₂
  cases hpol : d.policy e₁.acc.loc.var with
  | ownIndex =>
    rw [hpol] at h₁ h₂
    obtain ⟨i, k, hti, hki, hlo, hhi⟩ := h₁
    obtain ⟨j, k', htj, hkj, hlo', hhi'⟩ := h₂
    rw [hki] at hkj
    cases hkj
    have hij : i ≠ j := by
      intro hij
      apply hne
      rw [hti, htj, hij]
    exact hdisj i j k (hn₁ i hti) (hn₂ j htj) hij hlo hhi ⟨hlo', hhi'⟩
  | sole i =>
    rw [hpol] at h₁ h₂
    exact hne (h₁.trans h₂.symm)
  | guarded m =>
    rw [hpol] at h₁ h₂
    exact hlocks m h₁ h₂
  | sync =>
    rw [hpol] at h₁ h₂
    exact hat ⟨h₁, h₂⟩
  | readOnly =>
    rw [hpol] at h₁ h₂
    cases hw with
    | inl h => rw [h₁] at h; cases h
    | inr h => rw [h₂] at h; cases h

theorem worker_lt (x : Exec) (tr : List Event) (h : Interleaving x tr) (e : Event) (he : e ∈ tr) :
    ∀ i, e.tid = .worker i → i < x.n := by
  intro i hi
  have hm := event_in_thread x tr h e he
  rw [hi] at hm
  simp only [Exec.thread] at hm
  by_cases hlt : i < x.n
  · exact hlt
  · rw [if_neg hlt] at hm
    cases hm

/-- worker `i < n - 1` gets exactly `[i·c, (i+1)·c)`, `c = len / n` (also when that is empty) -/
theorem rrIndices_inner (len n i : Nat) (hi : i + 1 < n) :
    rrIndices len n i = List.range' (i * (len / n)) (len / n) := by
  have hne : i ≠ n - 1 := by omega
  unfold rrIndices rrLo rrHi recordRange
  simp only
  by_cases h : len ≤ i * (len / n)
  · -- only possible when len / n = 0 (then len = 0)
    have hd : n * (len / n) ≤ len := Nat.mul_div_le len n
    have : len / n = 0 := by
      rcases Nat.eq_zero_or_pos (len / n) with h0 | hpos
      · exact h0
      · have : i * (len / n) < n * (len / n) := Nat.mul_lt_mul_of_pos_right (by omega) hpos
        omega
    have hl : len = 0 := by rw [this] at h; simpa using h
    simp [this, hl]
  · simp only [h, if_false, hne]
    have hs : (i + 1) * (len / n) = i * (len / n) + len / n := by rw [Nat.add_mul, Nat.one_mul]
    rw [hs, Nat.add_sub_cancel_left]

/-- the last worker gets `[(n-1)·c, len)` -/
theorem rrIndices_last (len n : Nat) (hn : 0 < n) :
    rrIndices len n (n - 1) = List.range' ((n - 1) * (len / n)) (len - (n - 1) * (len / n)) := by
  unfold rrIndices rrLo rrHi recordRange
  simp only
  by_cases h : len ≤ (n - 1) * (len / n)
  · have : len - (n - 1) * (len / n) = 0 := by omega
    simp [h, this]
  · simp [h]

theorem flatMap_inner (c : Nat) : ∀ k : Nat,
    (List.range k).flatMap (fun i => List.range' (i * c) c) = List.range' 0 (k * c) := by
  intro k
  induction k with
  | zero => simp
  | succ k ih =>
    rw [List.range_succ, List.flatMap_append, ih]
    simp only [List.flatMap_cons, List.flatMap_nil, List.append_nil]
    have := @List.range'_append 0 (k * c) c 1
    simp only [Nat.one_mul, Nat.zero_add] at this
    rw [this, Nat.add_mul, Nat.one_mul]

theorem flatMap_congr_range {β : Type} (k : Nat) (f g : Nat → List β) (h : ∀ i, i < k → f i = g i) :
    (List.range k).flatMap f = (List.range k).flatMap g := by
  induction k with
  | zero => simp
  | succ k ih =>
    rw [List.range_succ, List.flatMap_append, List.flatMap_append, ih (fun i hi => h i (by omega))]
    simp [h k (by omega)]

theorem mem_rrIndices (len n i k : Nat) : k ∈ rrIndices len n i ↔ rrLo len n i ≤ k ∧ k < rrHi len n i := by
  unfold rrIndices
  rw [List.mem_range'_1]
  omega

theorem buildFrom_inv {K : Type} [DecidableEq K] (keys : List K) :
    ∀ (rest : List K) (st : (K → List Nat) × List K) (i : Nat),
      (∀ k r, r ∈ st.1 k → keys[r]? = some k) → st.2.Nodup →
      (∀ r, r < rest.length → keys[i + r]? = rest[r]?) →
      (∀ k r, r ∈ (buildFrom st i rest).1 k → keys[r]? = some k) ∧ (buildFrom st i rest).2.Nodup := by
  intro rest
  induction rest with
  | nil => intro st i h₁ h₂ _; exact ⟨h₁, h₂⟩
  | cons key rest ih =>
    intro st i h₁ h₂ h₃
    have hk : keys[i]? = some key := by simpa using h₃ 0 (by simp)
    unfold buildFrom
    apply ih
    · intro k r hr
      unfold addRow at hr
      by_cases hmem : key ∈ st.2
      · simp only [hmem, if_true] at hr
        by_cases hkk : k = key
        · simp only [hkk, if_true, List.mem_append, List.mem_singleton] at hr
          rcases hr with hr | hr
          · rw [hkk]; exact h₁ key r hr
          · rw [hr, hkk]; exact hk
        · simp only [hkk, if_false] at hr
          exact h₁ k r hr
      · simp only [hmem, if_false] at hr
        by_cases hkk : k = key
        · simp only [hkk, if_true, List.mem_singleton] at hr
          rw [hr, hkk]; exact hk
        · simp only [hkk, if_false] at hr
          exact h₁ k r hr
    · unfold addRow
      by_cases hmem : key ∈ st.2
      · simp only [hmem, if_true]; exact h₂
      · simp only [hmem, if_false]
        exact List.nodup_append.mpr ⟨h₂, by simp, by
          intro a ha b hb
          simp only [List.mem_singleton] at hb
          rw [hb]; intro hab; exact hmem (hab ▸ ha)⟩
    · intro r hr
      have := h₃ (r + 1) (by simp; omega)
      simpa [Nat.add_assoc, Nat.add_comm 1 r] using this

end Csvq.C13
