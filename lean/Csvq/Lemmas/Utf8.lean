/-
  UTF-8 as Go reads and writes it (Model/Unicode.lean): what is written for a rune is read back as that rune —
  a surrogate or a value above MaxRune is written as U+FFFD and read back as U+FFFD.
-/
import Csvq.Model.Unicode
namespace Csvq
namespace Uni
open Csvq.Gen.Uni

/-- a Unicode scalar value: at most MaxRune and no surrogate -/
def ValidScalar (r : Nat) : Prop := r ≤ 1114111 ∧ ¬ (0xD800 ≤ r ∧ r ≤ 0xDFFF)

instance (r : Nat) : Decidable (ValidScalar r) := by unfold ValidScalar; infer_instance

/-- what a rune is after writing and reading: itself, or U+FFFD -/
def sanitize (r : Nat) : Nat := if r ≤ 1114111 ∧ ¬ (0xD800 ≤ r ∧ r ≤ 0xDFFF) then r else 65533

theorem decode_encode_valid (r : Nat) (h : ValidScalar r) (rest : Bytes) :
    decodeRune (encodeRune r ++ rest) = (r, (encodeRune r).length) := by
  unfold ValidScalar at h
  unfold encodeRune maxRune
  by_cases h1 : r < 0x80
  · rw [if_pos h1]; simp [decodeRune, h1]
  · rw [if_neg h1]
    by_cases h2 : r < 0x800
    · rw [if_pos h2]
      have c1 : ¬ (0xC0 + r / 64 < 0x80) := by omega
      have c2 : 0xC2 ≤ 0xC0 + r / 64 ∧ 0xC0 + r / 64 ≤ 0xDF := by omega
      have c3 : isCont (0x80 + r % 64) = true := by unfold isCont; simp; omega
      have e : (0xC0 + r / 64 - 0xC0) * 64 + (0x80 + r % 64 - 0x80) = r := by omega
      simp only [List.cons_append, List.nil_append, decodeRune, c1, c2, c3, if_true, if_false, and_self, List.length_cons, List.length_nil]
      rw [e]
    · rw [if_neg h2, if_neg (by omega)]
      by_cases h3 : r < 0x10000
      · rw [if_pos h3]
        have c1 : ¬ (0xE0 + r / 4096 < 0x80) := by omega
        have c2 : ¬ (0xC2 ≤ 0xE0 + r / 4096 ∧ 0xE0 + r / 4096 ≤ 0xDF) := by omega
        have c3 : 0xE0 ≤ 0xE0 + r / 4096 ∧ 0xE0 + r / 4096 ≤ 0xEF := by omega
        have c4 : isCont (0x80 + r % 64) = true := by unfold isCont; simp; omega
        have c5 : (if 0xE0 + r / 4096 = 0xE0 then 0xA0 else 0x80) ≤ 0x80 + r / 64 % 64
            ∧ 0x80 + r / 64 % 64 ≤ (if 0xE0 + r / 4096 = 0xED then 0x9F else 0xBF) := by
          constructor
          · split <;> omega
          · split <;> omega
        have e : (0xE0 + r / 4096 - 0xE0) * 4096 + (0x80 + r / 64 % 64 - 0x80) * 64 + (0x80 + r % 64 - 0x80) = r := by omega
        simp only [List.cons_append, List.nil_append, decodeRune, c1, c2, c3, c4, c5, if_true, if_false, and_self, and_true,
          List.length_cons, List.length_nil]
        rw [e]
      · rw [if_neg h3]
        have c1 : ¬ (0xF0 + r / 262144 < 0x80) := by omega
        have c2 : ¬ (0xC2 ≤ 0xF0 + r / 262144 ∧ 0xF0 + r / 262144 ≤ 0xDF) := by omega
        have c3 : ¬ (0xE0 ≤ 0xF0 + r / 262144 ∧ 0xF0 + r / 262144 ≤ 0xEF) := by omega
        have c4 : 0xF0 ≤ 0xF0 + r / 262144 ∧ 0xF0 + r / 262144 ≤ 0xF4 := by omega
        have c5 : isCont (0x80 + r / 64 % 64) = true := by unfold isCont; simp; omega
        have c6 : isCont (0x80 + r % 64) = true := by unfold isCont; simp; omega
        have c7 : (if 0xF0 + r / 262144 = 0xF0 then 0x90 else 0x80) ≤ 0x80 + r / 4096 % 64
            ∧ 0x80 + r / 4096 % 64 ≤ (if 0xF0 + r / 262144 = 0xF4 then 0x8F else 0xBF) := by
          constructor
          · split <;> omega
          · split <;> omega
        have e : (0xF0 + r / 262144 - 0xF0) * 262144 + (0x80 + r / 4096 % 64 - 0x80) * 4096 + (0x80 + r / 64 % 64 - 0x80) * 64
            + (0x80 + r % 64 - 0x80) = r := by omega
        simp only [List.cons_append, List.nil_append, decodeRune, c1, c2, c3, c4, c5, c6, c7, if_true, if_false, and_self, and_true,
          List.length_cons, List.length_nil]
        rw [e]

theorem encode_invalid (r : Nat) (h : ¬ ValidScalar r) : encodeRune r = [0xEF, 0xBF, 0xBD] := by
  unfold ValidScalar at h
  unfold encodeRune maxRune
  rw [if_neg (by omega), if_neg (by omega), if_pos (by omega)]

theorem encode_sanitize (r : Nat) : encodeRune (sanitize r) = encodeRune r := by
  unfold sanitize
  by_cases h : r ≤ 1114111 ∧ ¬ (0xD800 ≤ r ∧ r ≤ 0xDFFF)
  · rw [if_pos h]
  · rw [if_neg h, encode_invalid r h]; decide

theorem sanitize_valid (r : Nat) : ValidScalar (sanitize r) := by
  unfold sanitize ValidScalar
  split
  · assumption
  · omega

theorem encodeRune_ne_nil (r : Nat) : ∃ b bs, encodeRune r = b :: bs := by
  unfold encodeRune
  split
  · exact ⟨_, _, rfl⟩
  · split
    · exact ⟨_, _, rfl⟩
    · split
      · exact ⟨_, _, rfl⟩
      · split <;> exact ⟨_, _, rfl⟩

/-- one rune written, then read: the rune (U+FFFD for what is no scalar value), and exactly its bytes are consumed -/
theorem decode_encode (r : Nat) (rest : Bytes) :
    decodeRune (encodeRune r ++ rest) = (sanitize r, (encodeRune r).length) := by
  by_cases h : ValidScalar r
  · rw [decode_encode_valid r h]
    have h' := h
    unfold ValidScalar at h'
    unfold sanitize; rw [if_pos h']
  · rw [encode_invalid r h]
    have h' := h
    unfold ValidScalar at h'
    unfold sanitize; rw [if_neg h']
    simp [decodeRune, isCont, replacementChar]

theorem decodeRunesF_encode : ∀ (l : List Nat) (n : Nat), l.length ≤ n →
    decodeRunesF n (encodeRunes l) = l.map sanitize := by
  intro l
  induction l with
  | nil => intro n _; cases n <;> rfl
  | cons r rs ih =>
    intro n hn
    cases n with
    | zero => simp at hn
    | succ n =>
      obtain ⟨b, bs, hb⟩ := encodeRune_ne_nil r
      have hd := decode_encode r (encodeRunes rs)
      show decodeRunesF (n + 1) (encodeRune r ++ encodeRunes rs) = _
      have hcons : encodeRune r ++ encodeRunes rs = b :: (bs ++ encodeRunes rs) := by rw [hb]; rfl
      rw [hcons]
      unfold decodeRunesF
      rw [← hcons, hd]
      simp only [List.map_cons]
      rw [List.drop_left, ih n (by simp at hn; omega)]

theorem encodeRunes_length (l : List Nat) : l.length ≤ (encodeRunes l).length := by
  induction l with
  | nil => simp [encodeRunes]
  | cons r rs ih =>
    obtain ⟨b, bs, hb⟩ := encodeRune_ne_nil r
    unfold encodeRunes
    rw [List.length_append, hb]
    simp; omega

/-- **written, then read**: the runes come back (U+FFFD in place of what is no scalar value) -/
theorem decodeRunes_encodeRunes (l : List Nat) : decodeRunes (encodeRunes l) = l.map sanitize := by
  unfold decodeRunes
  exact decodeRunesF_encode l _ (encodeRunes_length l)

theorem decodeRunes_encodeRunes_valid (l : List Nat) (h : ∀ r ∈ l, ValidScalar r) : decodeRunes (encodeRunes l) = l := by
  rw [decodeRunes_encodeRunes]
  induction l with
  | nil => rfl
  | cons r rs ih =>
    have hr := h r (by simp)
    unfold ValidScalar at hr
    simp only [List.map_cons]
    rw [ih (fun x hx => h x (by simp [hx]))]
    unfold sanitize; rw [if_pos hr]

/-- `encodeRunes` of a mapped list depends only on the bytes of the mapped runes -/
theorem encodeRunes_congr (f g : Nat → Nat) (l : List Nat) (h : ∀ r ∈ l, encodeRune (f r) = encodeRune (g r)) :
    encodeRunes (l.map f) = encodeRunes (l.map g) := by
  induction l with
  | nil => rfl
  | cons r rs ih =>
    simp only [List.map_cons, encodeRunes]
    rw [h r (by simp), ih (fun x hx => h x (by simp [hx]))]

end Uni
end Csvq

namespace Csvq
namespace Uni
open Csvq.Gen.Uni

/-- what is read is a scalar value -/
theorem decodeRune_valid (s : Bytes) : ValidScalar (decodeRune s).1 := by
  unfold ValidScalar
  have hrepl : replacementChar = 65533 := rfl
  cases s with
  | nil => simp [decodeRune, hrepl]
  | cons b0 rest =>
    by_cases hE0 : b0 = 0xE0 <;> by_cases hED : b0 = 0xED <;> by_cases hF0 : b0 = 0xF0 <;> by_cases hF4 : b0 = 0xF4 <;>
      simp only [decodeRune, hrepl, hE0, hED, hF0, hF4, if_true, if_false] <;>
      repeat' split
    all_goals (simp only [isCont, Bool.and_eq_true, decide_eq_true_eq] at *; omega)

theorem decodeRunesF_valid : ∀ (n : Nat) (s : Bytes), ∀ r ∈ decodeRunesF n s, ValidScalar r := by
  intro n
  induction n with
  | zero => intro s r hr; simp [decodeRunesF] at hr
  | succ n ih =>
    intro s r hr
    cases s with
    | nil => simp [decodeRunesF] at hr
    | cons b bs =>
      unfold decodeRunesF at hr
      simp only [List.mem_cons] at hr
      rcases hr with rfl | hr
      · exact decodeRune_valid _
      · exact ih _ r hr

theorem decodeRunes_valid (s : Bytes) : ∀ r ∈ decodeRunes s, ValidScalar r := decodeRunesF_valid _ s

end Uni
end Csvq
