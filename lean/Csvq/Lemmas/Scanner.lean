/-
  Helper lemmas for C18 (scanner): every sub-scanner only moves forward through `next`, so the
  potentials `line + (line breaks still ahead)` and `char + (runes still ahead)` never grow.
-/
import Csvq.Model.Scanner
namespace Csvq.Scan
open Csvq.Esc

/-- number of CR / LF runes -/
def nl : List Char → Nat
  | [] => 0
  | c :: tl => (if c = '\r' ∨ c = '\n' then 1 else 0) + nl tl

/-- `a` is a state the scanner can be in after having started from `b` (as far as positions go):
    fewer runes ahead, and neither potential has grown. -/
def St.le (a b : St) : Prop :=
  a.rest.length ≤ b.rest.length ∧ a.line + nl a.rest ≤ b.line + nl b.rest ∧
  a.col + a.rest.length ≤ b.col + b.rest.length ∧ b.line ≤ a.line

theorem St.le_refl (a : St) : a.le a := by unfold St.le; omega

theorem St.le_trans {a b c : St} (h1 : a.le b) (h2 : b.le c) : a.le c := by
  unfold St.le at *; omega

theorem next_le (st : St) : (next st).2.le st := by
  unfold next St.le
  split
  · simp
  · rename_i c tl heq
    split
    · subst c
      split
      · rename_i tl' ; simp [heq, nl]; omega
      · simp [heq, nl]; omega
    · split
      · subst c; simp [heq, nl]; omega
      · rename_i h1 h2; simp [heq, nl, h1, h2]; omega

theorem next_lt (st : St) (c : Char) (st' : St) (h : next st = (some c, st')) :
    st'.rest.length < st.rest.length := by
  unfold next at h
  split at h
  · simp at h
  · rename_i c0 tl heq
    split at h
    · split at h
      · simp at h; rw [← h.2, heq]; simp; omega
      · simp at h; rw [← h.2, heq]; simp
    · split at h
      · simp at h; rw [← h.2, heq]; simp
      · simp at h; rw [← h.2, heq]; simp

theorem next_le' {st st' : St} {o : Option Char} (h : next st = (o, st')) : st'.le st := by
  have := next_le st; rw [h] at this; exact this

theorem whileNext_le (p : Char → Bool) : ∀ (n : Nat) (st : St), (whileNext p n st).2.le st
  | 0, st => by simp [whileNext, St.le_refl]
  | n + 1, st => by
    unfold whileNext
    split
    · split
      · rename_i c st1 heq
        simp only []
        exact St.le_trans (whileNext_le p n st1) (next_le' heq)
      · exact St.le_refl _
    · exact St.le_refl _

theorem skipSpaces_le (st : St) : (skipSpaces st).le st := whileNext_le _ _ _

theorem scanStringLoop_le (q : Char) : ∀ (n : Nat) (st : St), (scanStringLoop q n st).2.2.le st
  | 0, st => by simp [scanStringLoop, St.le_refl]
  | n + 1, st => by
    unfold scanStringLoop
    split
    · exact St.le_refl _
    · rename_i ch st1 heq
      have h1 := next_le' heq
      split
      · exact h1
      · simp only []
        -- the state after the optional doubled quote
        have h2 : ∀ (x : List Char × Char × St),
            x = (if ch = q then
                  match next st1 with
                  | (some c2, st2) => ([ch], c2, st2)
                  | (none, _) => ([ch], ch, st1)
                else ([], ch, st1)) → x.2.2.le st1 := by
          intro x hx
          subst hx
          split
          · split
            · rename_i c2 st2 heq2; exact next_le' heq2
            · exact St.le_refl _
          · exact St.le_refl _
        generalize hx : (if ch = q then
                  match next st1 with
                  | (some c2, st2) => ([ch], c2, st2)
                  | (none, _) => ([ch], ch, st1)
                else ([], ch, st1) : List Char × Char × St) = x
        have hx2 := h2 x hx.symm
        obtain ⟨w1, ch2, st2⟩ := x
        simp only [] at hx2 ⊢
        have h3 : ∀ (y : List Char × Char × St),
            y = (if ch2 = '\\' ∧ (peek st2 = some '\\' ∨ peek st2 = some q) then
                  match next st2 with
                  | (some c3, st3) => ([ch2], c3, st3)
                  | (none, _) => ([ch2], ch2, st2)
                else ([], ch2, st2)) → y.2.2.le st2 := by
          intro y hy
          subst hy
          split
          · split
            · rename_i c3 st3 heq3; exact next_le' heq3
            · exact St.le_refl _
          · exact St.le_refl _
        generalize hy : (if ch2 = '\\' ∧ (peek st2 = some '\\' ∨ peek st2 = some q) then
                  match next st2 with
                  | (some c3, st3) => ([ch2], c3, st3)
                  | (none, _) => ([ch2], ch2, st2)
                else ([], ch2, st2) : List Char × Char × St) = y
        have hy2 := h3 y hy.symm
        obtain ⟨w2, ch3, st3⟩ := y
        simp only [] at hy2 ⊢
        exact St.le_trans (scanStringLoop_le q n st3) (St.le_trans hy2 (St.le_trans hx2 h1))

theorem scanString_le (q : Char) (st : St) : (scanString q st).2.2.le st := scanStringLoop_le _ _ _

theorem scanComment_le : ∀ (n : Nat) (st : St), (scanComment n st).le st
  | 0, st => by simp [scanComment, St.le_refl]
  | n + 1, st => by
    unfold scanComment
    split
    · exact St.le_refl _
    · rename_i ch st1 heq
      split
      · exact St.le_trans (next_le st1) (next_le' heq)
      · exact St.le_trans (scanComment_le n st1) (next_le' heq)

theorem scanLineComment_le (st : St) : (scanLineComment st).le st := whileNext_le _ _ _

theorem scanIdentifier_le (cls : Classes) (hd : Char) (st : St) : (scanIdentifier cls hd st).2.le st := by
  unfold scanIdentifier; exact whileNext_le _ _ _

theorem scanOperator_le (hd : Char) (st : St) : (scanOperator hd st).2.le st := by
  unfold scanOperator; exact whileNext_le _ _ _

theorem scanUrl_le (st : St) : (scanUrl st).2.le st := whileNext_le _ _ _

theorem extQuoted_le (q : Char) : ∀ (n : Nat) (st : St), (extQuoted q n st).2.le st
  | 0, st => by simp [extQuoted, St.le_refl]
  | n + 1, st => by
    unfold extQuoted
    split
    · rename_i ch w st1 _ heq
      have h1 := next_le' heq
      split
      · exact h1
      · split
        · split
          · rename_i w2 st2 heq2
            exact St.le_trans (extQuoted_le q n st2) (St.le_trans (next_le' heq2) h1)
          · exact h1
        · exact St.le_trans (extQuoted_le q n st1) h1
    · exact St.le_refl _

theorem extExpr_le : ∀ (n : Nat) (st : St), (extExpr n st).2.le st
  | 0, st => by simp [extExpr, St.le_refl]
  | n + 1, st => by
    unfold extExpr
    split
    · rename_i ch w st1 _ heq
      have h1 := next_le' heq
      split
      · exact h1
      · split
        · split
          · rename_i w2 st2 heq2
            exact St.le_trans (extExpr_le n st2) (St.le_trans (next_le' heq2) h1)
          · exact h1
        · exact St.le_trans (extExpr_le n st1) h1
    · exact St.le_refl _

theorem extCommand_le : ∀ (n : Nat) (st : St), (extCommand n st).2.le st
  | 0, st => by simp [extCommand, St.le_refl]
  | n + 1, st => by
    unfold extCommand
    split
    · rename_i ch w st1 _ heq
      have h1 := next_le' heq
      split
      · exact St.le_refl _
      · split
        · simp only []
          exact St.le_trans (extCommand_le n _) (St.le_trans (extQuoted_le _ _ _) h1)
        · split
          · split
            · rename_i w2 st2 heq2
              simp only []
              exact St.le_trans (extCommand_le n _) (St.le_trans (extExpr_le _ _) (St.le_trans (next_le' heq2) h1))
            · exact h1
          · exact St.le_trans (extCommand_le n st1) h1
    · exact St.le_refl _

theorem scanFrac_le (st : St) : (scanFrac st).2.2.le st := by
  unfold scanFrac
  split
  · exact St.le_trans (whileNext_le _ _ _) (next_le st)
  · exact St.le_refl _

theorem scanExp_le (st : St) : (scanExp st).2.2.2.2.le st := by
  unfold scanExp
  split
  · split
    · simp only []
      refine St.le_trans (whileNext_le _ _ _) ?_
      split
      · split
        · exact St.le_trans (next_le _) (next_le st)
        · exact next_le st
      · exact next_le st
    · exact St.le_refl _
  · exact St.le_refl _

theorem scanNumber_le (hd : Char) (st : St) : (scanNumber hd st).2.2.2.le st := by
  have h : (scanExp (scanFrac (whileNext isDecimal st.rest.length st).2).2.2).2.2.2.2.le st :=
    St.le_trans (scanExp_le _) (St.le_trans (scanFrac_le _) (whileNext_le _ _ _))
  unfold scanNumber
  simp only []
  split
  · exact h
  · split <;> exact h

/-- a branch of `Scan()` ends in a state reached by moving forward, and stamps the token with the given position -/
def StepOK (st : St) (line col : Nat) : Step → Prop
  | .tok t _ st' _ => st'.le st ∧ t.line = line ∧ t.col = col
  | .comment st' => st'.le st

theorem stepNamedPlaceholder_ok (cls : Classes) (ch : Char) (st : St) (h : Holders) (line col : Nat) :
    StepOK st line col (stepNamedPlaceholder cls ch st h line col) := by
  unfold stepNamedPlaceholder
  simp only [StepOK, and_self, and_true]
  exact scanIdentifier_le cls ch st

theorem stepNumber_ok (ch : Char) (st : St) (h : Holders) (line col : Nat) :
    StepOK st line col (stepNumber ch st h line col) := by
  unfold stepNumber
  simp only [StepOK, and_self, and_true]
  exact scanNumber_le ch st

theorem stepOperator_ok (ch : Char) (st : St) (h : Holders) (line col : Nat) :
    StepOK st line col (stepOperator ch st h line col) := by
  unfold stepOperator
  simp only [StepOK, and_self, and_true]
  exact scanOperator_le ch st

theorem stepExternal_ok (st : St) (h : Holders) (line col : Nat) :
    StepOK st line col (stepExternal st h line col) := by
  unfold stepExternal
  simp only [StepOK, and_self, and_true]
  exact extCommand_le _ st

theorem stepString_ok (ch : Char) (st : St) (h : Holders) (line col : Nat) :
    StepOK st line col (stepString ch st h line col) := by
  unfold stepString
  simp only [StepOK, and_self, and_true]
  exact scanString_le ch st

theorem stepQuotedIdent_ok (ch : Char) (st : St) (h : Holders) (line col : Nat) :
    StepOK st line col (stepQuotedIdent ch st h line col) := by
  unfold stepQuotedIdent
  simp only [StepOK, and_self, and_true]
  exact scanString_le ch st

theorem stepWord_ok (cls : Classes) (ch : Char) (st : St) (h : Holders) (line col : Nat) :
    StepOK st line col (stepWord cls ch st h line col) := by
  unfold stepWord
  have h1 := scanIdentifier_le cls ch st
  simp only []
  split
  · simp only [StepOK, and_self, and_true]; exact h1
  · split
    · split
      · split
        · simp only [StepOK, and_self, and_true]
          exact St.le_trans (next_le _) (St.le_trans (next_le _) h1)
        · split
          · simp only [StepOK, and_self, and_true]
            exact St.le_trans (whileNext_le _ _ _) (St.le_trans (next_le _) (St.le_trans (next_le _) h1))
          · simp only [StepOK, and_self, and_true]
            exact St.le_trans (next_le _) (St.le_trans (next_le _) h1)
      · simp only [StepOK, and_self, and_true]
        exact St.le_trans (scanUrl_le _) (St.le_trans (next_le _) h1)
    · simp only [StepOK, and_self, and_true]; exact h1

theorem variableKind_le (st : St) : (variableKind st).2.le st := by
  unfold variableKind
  split
  · split
    · exact next_le st
    · split
      · exact next_le st
      · split
        · exact next_le st
        · exact St.le_refl _
  · exact St.le_refl _

theorem stepVariable_ok (cls : Classes) (st : St) (h : Holders) (line col : Nat) :
    StepOK st line col (stepVariable cls st h line col) := by
  unfold stepVariable
  have hx1 := variableKind_le st
  simp only []
  split
  · simp only [StepOK, and_self, and_true]
    exact St.le_trans (scanString_le _ _) (St.le_trans (next_le _) hx1)
  · split
    · split
      · rename_i hd st2 heq
        simp only [StepOK, and_self, and_true]
        exact St.le_trans (scanIdentifier_le _ _ _) (St.le_trans (next_le' heq) hx1)
      · simp only [StepOK, and_self, and_true]; exact hx1
    · simp only [StepOK, and_self, and_true]; exact hx1

/-- what one `Scan()` step guarantees relative to the state `st0` it started in -/
def StepSpec (st0 : St) : Step → Prop
  | .tok t _ st' _ =>
    st'.le st0 ∧ (∃ s : St, s.le st0 ∧ t.line = s.line ∧ t.col = s.col) ∧
    (isEof t.kind = false → st'.rest.length < st0.rest.length)
  | .comment st' => st'.le st0 ∧ st'.rest.length < st0.rest.length

theorem StepOK.lift {st0 stS st : St} {step : Step} (hS : stS.le st0) (hn : st.le stS)
    (hlt : st.rest.length < stS.rest.length) (hok : StepOK st st.line st.col step) : StepSpec st0 step := by
  cases step with
  | tok t e st' h' =>
    obtain ⟨h1, h2, h3⟩ := hok
    refine ⟨St.le_trans h1 (St.le_trans hn hS), ⟨st, St.le_trans hn hS, h2, h3⟩, fun _ => ?_⟩
    unfold St.le at *; omega
  | comment st' =>
    have h1 : st'.le st := hok
    refine ⟨St.le_trans h1 (St.le_trans hn hS), ?_⟩
    unfold St.le at *; omega

theorem dispatch_ok (cls : Classes) (m : Mode) (ch : Char) (st : St) (h : Holders) :
    StepOK st st.line st.col (dispatch cls m ch st h) := by
  unfold dispatch
  simp only []
  by_cases c1 : m.forPrepared = true ∧ ch = '?'
  · rw [if_pos c1]; exact ⟨St.le_refl _, rfl, rfl⟩
  rw [if_neg c1]
  by_cases c2 : m.forPrepared = true ∧ ch = ':' ∧ peekIs st (isIdentRune cls) = true
  · rw [if_pos c2]; exact stepNamedPlaceholder_ok ..
  rw [if_neg c2]
  by_cases c3 : isDecimal ch = true
  · rw [if_pos c3]; exact stepNumber_ok ..
  rw [if_neg c3]
  by_cases c4 : isIdentRune cls ch = true
  · rw [if_pos c4]; exact stepWord_ok ..
  rw [if_neg c4]
  by_cases c5 : isOperatorRune ch = true
  · rw [if_pos c5]; exact stepOperator_ok ..
  rw [if_neg c5]
  by_cases c6 : ch = '@'
  · rw [if_pos c6]; exact stepVariable_ok ..
  rw [if_neg c6]
  by_cases c7 : ch = '$'
  · rw [if_pos c7]; exact stepExternal_ok ..
  rw [if_neg c7]
  by_cases c8 : ch = '/' ∧ peek st = some '*'
  · rw [if_pos c8]; exact St.le_trans (scanComment_le _ _) (next_le st)
  rw [if_neg c8]
  by_cases c9 : ch = '-' ∧ peek st = some '-'
  · rw [if_pos c9]; exact St.le_trans (scanLineComment_le _) (next_le st)
  rw [if_neg c9]
  by_cases c10 : ch = '\'' ∨ ((!m.ansiQuotes) = true ∧ ch = '"')
  · rw [if_pos c10]; exact stepString_ok ..
  rw [if_neg c10]
  by_cases c11 : ch = '`' ∨ (m.ansiQuotes = true ∧ ch = '"')
  · rw [if_pos c11]; exact stepQuotedIdent_ok ..
  rw [if_neg c11]
  by_cases c12 : 127 < ch.toNat
  · rw [if_pos c12]; exact ⟨St.le_refl _, rfl, rfl⟩
  rw [if_neg c12]
  exact ⟨St.le_refl _, rfl, rfl⟩

theorem scanStep_spec (cls : Classes) (m : Mode) (st0 : St) (h : Holders) :
    StepSpec st0 (scanStep cls m st0 h) := by
  unfold scanStep
  have hS := skipSpaces_le st0
  simp only []
  split
  · exact ⟨hS, ⟨_, hS, rfl, rfl⟩, by simp [isEof]⟩
  · rename_i ch st heq
    exact StepOK.lift hS (next_le' heq) (next_lt _ _ _ heq) (dispatch_ok ..)

/-- the token loop: with more fuel than runes ahead it never runs out of fuel, and every token it
    returns carries the position of a state reached by moving forward from `st0` -/
theorem scanAll_spec (cls : Classes) (m : Mode) (st0 : St) :
    ∀ (n : Nat) (st : St) (h : Holders), st.le st0 →
      (st.rest.length < n → (scanAll cls m n st h).exhausted = false) ∧
      (∀ t ∈ (scanAll cls m n st h).toks, ∃ s : St, s.le st0 ∧ t.line = s.line ∧ t.col = s.col) ∧
      ((scanAll cls m n st h).err.isSome = true → (scanAll cls m n st h).toks ≠ [])
  | 0, st, h, _ => by simp [scanAll]
  | n + 1, st, h, hst => by
    have hs := scanStep_spec cls m st h
    unfold scanAll
    split
    · rename_i st' heq
      rw [heq] at hs
      obtain ⟨h1, h2⟩ := hs
      have ih := scanAll_spec cls m st0 n st' h (St.le_trans h1 hst)
      refine ⟨fun hlt => ih.1 (by omega), ih.2⟩
    · rename_i t e st' h' heq
      rw [heq] at hs
      obtain ⟨h1, ⟨s, hs1, hs2, hs3⟩, h3⟩ := hs
      have hpos : ∃ s : St, s.le st0 ∧ t.line = s.line ∧ t.col = s.col := ⟨s, St.le_trans hs1 hst, hs2, hs3⟩
      split
      · refine ⟨fun _ => rfl, ?_, by simp⟩
        intro t' ht'
        simp at ht'; subst ht'; exact hpos
      · split
        · refine ⟨fun _ => rfl, ?_, by simp⟩
          intro t' ht'
          simp at ht'; subst ht'; exact hpos
        · rename_i hne
          have hne' : isEof t.kind = false := by simpa using hne
          have ih := scanAll_spec cls m st0 n st' h' (St.le_trans h1 hst)
          refine ⟨fun hlt => ?_, ?_, ?_⟩
          · have := h3 hne'
            simpa using ih.1 (by omega)
          · intro t' ht'
            simp at ht'
            rcases ht' with rfl | ht'
            · exact hpos
            · exact ih.2.1 t' ht'
          · intro _; simp

/-! ## scanning the text `escapeWith q s` followed by the closing quote -/

theorem next_plain (r : Char) (tl : List Char) (l c : Nat) (h1 : r ≠ '\r') (h2 : r ≠ '\n') :
    next ⟨r :: tl, l, c⟩ = (some r, ⟨tl, l, c + 1⟩) := by
  simp [next, h1, h2]

/-- an ordinary rune inside a quoted literal is copied -/
theorem ssl_plain (q r : Char) (tl : List Char) (l c n : Nat)
    (h1 : r ≠ '\r') (h2 : r ≠ '\n') (h3 : r ≠ q) (h4 : r ≠ '\\') :
    scanStringLoop q (n + 1) ⟨r :: tl, l, c⟩ =
      (r :: (scanStringLoop q n ⟨tl, l, c + 1⟩).1, (scanStringLoop q n ⟨tl, l, c + 1⟩).2.1,
        (scanStringLoop q n ⟨tl, l, c + 1⟩).2.2) := by
  rw [scanStringLoop, next_plain r tl l c h1 h2]
  simp [h3, h4]

/-- a backslash before a rune that is neither a backslash nor the quote is copied on its own -/
theorem ssl_backslash_other (q x : Char) (tl : List Char) (l c n : Nat)
    (hq : q ≠ '\\') (h3 : x ≠ q) (h4 : x ≠ '\\') :
    scanStringLoop q (n + 1) ⟨'\\' :: x :: tl, l, c⟩ =
      ('\\' :: (scanStringLoop q n ⟨x :: tl, l, c + 1⟩).1, (scanStringLoop q n ⟨x :: tl, l, c + 1⟩).2.1,
        (scanStringLoop q n ⟨x :: tl, l, c + 1⟩).2.2) := by
  rw [scanStringLoop, next_plain '\\' _ l c (by decide) (by decide)]
  simp [peek, h3, h4, Ne.symm hq]

/-- a backslash before a backslash or the quote: both runes are copied -/
theorem ssl_backslash_pair (q x : Char) (tl : List Char) (l c n : Nat)
    (hq : q ≠ '\\') (hx : x = '\\' ∨ x = q) (h1 : x ≠ '\r') (h2 : x ≠ '\n') :
    scanStringLoop q (n + 1) ⟨'\\' :: x :: tl, l, c⟩ =
      ('\\' :: x :: (scanStringLoop q n ⟨tl, l, c + 2⟩).1, (scanStringLoop q n ⟨tl, l, c + 2⟩).2.1,
        (scanStringLoop q n ⟨tl, l, c + 2⟩).2.2) := by
  rw [scanStringLoop, next_plain '\\' _ l c (by decide) (by decide)]
  have hp : (x = '\\' ∨ x = q) := hx
  simp [peek, Ne.symm hq, hp, next_plain x tl l (c + 1) h1 h2]

/-- the closing quote (not followed by another quote) ends the literal -/
theorem ssl_close (q : Char) (tl : List Char) (l c n : Nat)
    (h1 : q ≠ '\r') (h2 : q ≠ '\n') (h : tl.head? ≠ some q) :
    scanStringLoop q (n + 1) ⟨q :: tl, l, c⟩ = ([], true, ⟨tl, l, c + 1⟩) := by
  rw [scanStringLoop, next_plain q tl l c h1 h2]
  simp [peek, h]

/-- `\\x` for an escape letter `x`: two iterations, both runes copied -/
theorem ssl_backslash_letter (q x : Char) (tl : List Char) (l c n : Nat)
    (hq : q ≠ '\\') (h1 : x ≠ '\r') (h2 : x ≠ '\n') (h3 : x ≠ q) (h4 : x ≠ '\\') :
    scanStringLoop q (n + 2) ⟨'\\' :: x :: tl, l, c⟩ =
      ('\\' :: x :: (scanStringLoop q n ⟨tl, l, c + 2⟩).1, (scanStringLoop q n ⟨tl, l, c + 2⟩).2.1,
        (scanStringLoop q n ⟨tl, l, c + 2⟩).2.2) := by
  rw [ssl_backslash_other q x tl l c (n + 1) hq h3 h4, ssl_plain q x tl l (c + 1) n h1 h2 h3 h4]

theorem ssl_escaped (q : Char) (hq : q = '\'' ∨ q = '`') (rest : List Char) (hrest : rest.head? ≠ some q) :
    ∀ (s : List Char) (l c n : Nat), (escapeWith q s).length + 1 ≤ n →
      scanStringLoop q n ⟨escapeWith q s ++ q :: rest, l, c⟩ =
        (escapeWith q s, true, ⟨rest, l, c + (escapeWith q s).length + 1⟩)
  | [], l, c, n, hn => by
    obtain ⟨k, rfl⟩ : ∃ k, n = k + 1 := ⟨n - 1, by simp [escapeWith] at hn; omega⟩
    have h1 : q ≠ '\r' := by rcases hq with rfl | rfl <;> decide
    have h2 : q ≠ '\n' := by rcases hq with rfl | rfl <;> decide
    simp [escapeWith, ssl_close q rest l c k h1 h2 hrest]
  | r :: rs, l, c, n, hn => by
    have hqb : q ≠ '\\' := by rcases hq with rfl | rfl <;> decide
    have hqr : q ≠ '\r' := by rcases hq with rfl | rfl <;> decide
    have hqn : q ≠ '\n' := by rcases hq with rfl | rfl <;> decide
    -- two-rune escapes `\\x` with an escape letter x
    have letter : ∀ x : Char, escRune q r = ['\\', x] → x ≠ '\r' → x ≠ '\n' → x ≠ q → x ≠ '\\' →
        scanStringLoop q n ⟨escapeWith q (r :: rs) ++ q :: rest, l, c⟩ =
          (escapeWith q (r :: rs), true, ⟨rest, l, c + (escapeWith q (r :: rs)).length + 1⟩) := by
      intro x hx h1 h2 h3 h4
      simp only [escapeWith, hx] at hn ⊢
      obtain ⟨k, rfl⟩ : ∃ k, n = k + 2 := ⟨n - 2, by simp at hn; omega⟩
      have ih := ssl_escaped q hq rest hrest rs l (c + 2) k (by simp at hn; omega)
      simp only [List.cons_append, List.nil_append]
      rw [ssl_backslash_letter q x _ l c k hqb h1 h2 h3 h4, ih]
      simp; omega
    have pair : ∀ x : Char, escRune q r = ['\\', x] → (x = '\\' ∨ x = q) →
        scanStringLoop q n ⟨escapeWith q (r :: rs) ++ q :: rest, l, c⟩ =
          (escapeWith q (r :: rs), true, ⟨rest, l, c + (escapeWith q (r :: rs)).length + 1⟩) := by
      intro x hx hxx
      have h1 : x ≠ '\r' := by rcases hxx with rfl | rfl <;> first | decide | exact hqr
      have h2 : x ≠ '\n' := by rcases hxx with rfl | rfl <;> first | decide | exact hqn
      simp only [escapeWith, hx] at hn ⊢
      obtain ⟨k, rfl⟩ : ∃ k, n = k + 1 := ⟨n - 1, by simp at hn; omega⟩
      have ih := ssl_escaped q hq rest hrest rs l (c + 2) k (by simp at hn; omega)
      simp only [List.cons_append, List.nil_append]
      rw [ssl_backslash_pair q x _ l c k hqb hxx h1 h2, ih]
      simp; omega
    have hql : ∀ x : Char, x = 'a' ∨ x = 'b' ∨ x = 'f' ∨ x = 'n' ∨ x = 'r' ∨ x = 't' ∨ x = 'v' →
        x ≠ '\r' ∧ x ≠ '\n' ∧ x ≠ q ∧ x ≠ '\\' := by
      intro x hx
      rcases hq with rfl | rfl <;> rcases hx with rfl | rfl | rfl | rfl | rfl | rfl | rfl <;> decide
    by_cases c1 : r = '\x07'
    · have := hql 'a' (by simp); exact letter 'a' (by simp [escRune, c1]) this.1 this.2.1 this.2.2.1 this.2.2.2
    by_cases c2 : r = '\x08'
    · have := hql 'b' (by simp); exact letter 'b' (by simp [escRune, c2]) this.1 this.2.1 this.2.2.1 this.2.2.2
    by_cases c3 : r = '\x0c'
    · have := hql 'f' (by simp); exact letter 'f' (by simp [escRune, c3]) this.1 this.2.1 this.2.2.1 this.2.2.2
    by_cases c4 : r = '\n'
    · have := hql 'n' (by simp); exact letter 'n' (by simp [escRune, c4]) this.1 this.2.1 this.2.2.1 this.2.2.2
    by_cases c5 : r = '\r'
    · have := hql 'r' (by simp); exact letter 'r' (by simp [escRune, c5]) this.1 this.2.1 this.2.2.1 this.2.2.2
    by_cases c6 : r = '\t'
    · have := hql 't' (by simp); exact letter 't' (by simp [escRune, c6]) this.1 this.2.1 this.2.2.1 this.2.2.2
    by_cases c7 : r = '\x0b'
    · have := hql 'v' (by simp); exact letter 'v' (by simp [escRune, c7]) this.1 this.2.1 this.2.2.1 this.2.2.2
    by_cases c8 : r = q
    · exact pair q (by unfold escRune; rw [if_neg c1, if_neg c2, if_neg c3, if_neg c4, if_neg c5, if_neg c6, if_neg c7, if_pos c8]) (Or.inr rfl)
    by_cases c9 : r = '\\'
    · exact pair '\\' (by unfold escRune; rw [if_neg c1, if_neg c2, if_neg c3, if_neg c4, if_neg c5, if_neg c6, if_neg c7, if_neg c8, if_pos c9]) (Or.inl rfl)
    -- an ordinary rune
    have hx : escRune q r = [r] := by
      unfold escRune; rw [if_neg c1, if_neg c2, if_neg c3, if_neg c4, if_neg c5, if_neg c6, if_neg c7, if_neg c8, if_neg c9]
    simp only [escapeWith, hx] at hn ⊢
    obtain ⟨k, rfl⟩ : ∃ k, n = k + 1 := ⟨n - 1, by simp at hn; omega⟩
    have ih := ssl_escaped q hq rest hrest rs l (c + 1) k (by simp at hn; omega)
    simp only [List.cons_append, List.nil_append]
    rw [ssl_plain q r _ l c k c5 c4 c8 c9, ih]
    simp; omega

/-- white space skipping stops at once at a rune that is not white space -/
theorem skipSpaces_nonspace (c : Char) (tl : List Char) (l k : Nat) (h : isSpace c = false) :
    skipSpaces ⟨c :: tl, l, k⟩ = ⟨c :: tl, l, k⟩ := by
  simp [skipSpaces, whileNext, peekIs, peek, h]

/-- `Scan()` on a text that starts (at line `l`, after `k` runes) with a rune that is neither white space nor a line break -/
theorem scanStep_head (cls : Classes) (m : Mode) (c : Char) (tl : List Char) (l k : Nat) (h : Holders)
    (hs : isSpace c = false) (h1 : c ≠ '\r') (h2 : c ≠ '\n') :
    scanStep cls m ⟨c :: tl, l, k⟩ h = dispatch cls m c ⟨tl, l, k + 1⟩ h := by
  unfold scanStep
  simp only [skipSpaces_nonspace c tl l k hs, next_plain c tl l k h1 h2]

theorem scanString_escaped (q : Char) (hq : q = '\'' ∨ q = '`') (s rest : List Char) (l c : Nat)
    (hrest : rest.head? ≠ some q) :
    scanString q ⟨escapeWith q s ++ q :: rest, l, c⟩ =
      (escapeWith q s, true, ⟨rest, l, c + (escapeWith q s).length + 1⟩) := by
  unfold scanString
  exact ssl_escaped q hq rest hrest s l c _ (by simp)

end Csvq.Scan
