/-
  Helper lemmas for C18 (scanner): every sub-scanner only moves forward through `next`, so the
  potentials `line + (line breaks still ahead)` and `char + (runes still ahead)` never grow.
-/
import Csvq.Model.Scanner
namespace Csvq.Scan
open Csvq.Esc

/-- number of CR / LF runes -/
def nl : List Char → Nat
  | [] => 0
  | c :: tl => (if c = '\r' ∨ c = '\n' then 1 else 0) + nl tl

/-- `a` is a state the scanner can be in after having started from `b` (as far as positions go):
    fewer runes ahead, and neither potential has grown. -/
def St.le (a b : St) : Prop :=
  a.rest.length ≤ b.rest.length ∧ a.line + nl a.rest ≤ b.line + nl b.rest ∧
  a.col + a.rest.length ≤ b.col + b.rest.length ∧ b.line ≤ a.line

theorem St.le_refl (a : St) : a.le a := by unfold St.le; omega

theorem St.le_trans {a b c : St} (h1 : a.le b) (h2 : b.le c) : a.le c := by
  unfold St.le at *; omega

theorem next_le (st : St) : (next st).2.le st := by
  unfold next St.le
  split
  · simp
  · rename_i c tl heq
    split
    · subst c
      split
      · rename_i tl' ; simp [heq, nl]; omega
      · simp [heq, nl]; omega
    · split
      · subst c; simp [heq, nl]; omega
      · rename_i h1 h2; simp [heq, nl, h1, h2]; omega

theorem next_lt (st : St) (c : Char) (st' : St) (h : next st = (some c, st')) :
    st'.rest.length < st.rest.length := by
  unfold next at h
  split at h
  · simp at h
  · rename_i c0 tl heq
    split at h
    · split at h
      · simp at h; rw [← h.2, heq]; simp; omega
      · simp at h; rw [← h.2, heq]; simp
    · split at h
      · simp at h; rw [← h.2, heq]; simp
      · simp at h; rw [← h.2, heq]; simp

theorem next_le' {st st' : St} {o : Option Char} (h : next st = (o, st')) : st'.le st := by
  have := next_le st; rw [h] at this; exact this

theorem whileNext_le (p : Char → Bool) : ∀ (n : Nat) (st : St), (whileNext p n st).2.le st
  | 0, st => by simp [whileNext, St.le_refl]
  | n + 1, st => by
    unfold whileNext
    split
    · split
      · rename_i c st1 heq
        simp only []
        exact St.le_trans (whileNext_le p n st1) (next_le' heq)
      · exact St.le_refl _
    · exact St.le_refl _

theorem skipSpaces_le (st : St) : (skipSpaces st).le st := whileNext_le _ _ _

theorem scanStringLoop_le (q : Char) : ∀ (n : Nat) (st : St), (scanStringLoop q n st).2.2.le st
  | 0, st => by simp [scanStringLoop, St.le_refl]
  | n + 1, st => by
    unfold scanStringLoop
    split
    · exact St.le_refl _
    · rename_i ch st1 heq
      have h1 := next_le' heq
      split
      · exact h1
      · simp only []
        -- the state after the optional doubled quote
        have h2 : ∀ (x : List Char × Char × St),
            x = (if ch = q then
                  match next st1 with
                  | (some c2, st2) => ([ch], c2, st2)
                  | (none, _) => ([ch], ch, st1)
                else ([], ch, st1)) → x.2.2.le st1 := by
          intro x hx
          subst hx
          split
          · split
            · rename_i c2 st2 heq2; exact next_le' heq2
            · exact St.le_refl _
          · exact St.le_refl _
        generalize hx : (if ch = q then
                  match next st1 with
                  | (some c2, st2) => ([ch], c2, st2)
                  | (none, _) => ([ch], ch, st1)
                else ([], ch, st1) : List Char × Char × St) = x
        have hx2 := h2 x hx.symm
        obtain ⟨w1, ch2, st2⟩ := x
        simp only [] at hx2 ⊢
        have h3 : ∀ (y : List Char × Char × St),
            y = (if ch2 = '\\' ∧ (peek st2 = some '\\' ∨ peek st2 = some q) then
                  match next st2 with
                  | (some c3, st3) => ([ch2], c3, st3)
                  | (none, _) => ([ch2], ch2, st2)
                else ([], ch2, st2)) → y.2.2.le st2 := by
          intro y hy
          subst hy
          split
          · split
            · rename_i c3 st3 heq3; exact next_le' heq3
            · exact St.le_refl _
          · exact St.le_refl _
        generalize hy : (if ch2 = '\\' ∧ (peek st2 = some '\\' ∨ peek st2 = some q) then
                  match next st2 with
                  | (some c3, st3) => ([ch2], c3, st3)
                  | (none, _) => ([ch2], ch2, st2)
                else ([], ch2, st2) : List Char × Char × St) = y
        have hy2 := h3 y hy.symm
        obtain ⟨w2, ch3, st3⟩ := y
        simp only [] at hy2 ⊢
        exact St.le_trans (scanStringLoop_le q n st3) (St.le_trans hy2 (St.le_trans hx2 h1))

theorem scanString_le (q : Char) (st : St) : (scanString q st).2.2.le st := scanStringLoop_le _ _ _

theorem scanComment_le : ∀ (n : Nat) (st : St), (scanComment n st).le st
  | 0, st => by simp [scanComment, St.le_refl]
  | n + 1, st => by
    unfold scanComment
    split
    · exact St.le_refl _
    · rename_i ch st1 heq
      split
      · exact St.le_trans (next_le st1) (next_le' heq)
      · exact St.le_trans (scanComment_le n st1) (next_le' heq)

theorem scanLineComment_le (st : St) : (scanLineComment st).le st := whileNext_le _ _ _

theorem scanIdentifier_le (cls : Classes) (hd : Char) (st : St) : (scanIdentifier cls hd st).2.le st := by
  unfold scanIdentifier; exact whileNext_le _ _ _

theorem scanOperator_le (hd : Char) (st : St) : (scanOperator hd st).2.le st := by
  unfold scanOperator; exact whileNext_le _ _ _

theorem scanUrl_le (st : St) : (scanUrl st).2.le st := whileNext_le _ _ _

theorem extQuoted_le (q : Char) : ∀ (n : Nat) (st : St), (extQuoted q n st).2.le st
  | 0, st => by simp [extQuoted, St.le_refl]
  | n + 1, st => by
    unfold extQuoted
    split
    · rename_i ch w st1 _ heq
      have h1 := next_le' heq
      split
      · exact h1
      · split
        · split
          · rename_i w2 st2 heq2
            exact St.le_trans (extQuoted_le q n st2) (St.le_trans (next_le' heq2) h1)
          · exact h1
        · exact St.le_trans (extQuoted_le q n st1) h1
    · exact St.le_refl _

theorem extExpr_le : ∀ (n : Nat) (st : St), (extExpr n st).2.le st
  | 0, st => by simp [extExpr, St.le_refl]
  | n + 1, st => by
    unfold extExpr
    split
    · rename_i ch w st1 _ heq
      have h1 := next_le' heq
      split
      · exact h1
      · split
        · split
          · rename_i w2 st2 heq2
            exact St.le_trans (extExpr_le n st2) (St.le_trans (next_le' heq2) h1)
          · exact h1
        · exact St.le_trans (extExpr_le n st1) h1
    · exact St.le_refl _

theorem extCommand_le : ∀ (n : Nat) (st : St), (extCommand n st).2.le st
  | 0, st => by simp [extCommand, St.le_refl]
  | n + 1, st => by
    unfold extCommand
    split
    · rename_i ch w st1 _ heq
      have h1 := next_le' heq
      split
      · exact St.le_refl _
      · split
        · simp only []
          exact St.le_trans (extCommand_le n _) (St.le_trans (extQuoted_le _ _ _) h1)
        · split
          · split
            · rename_i w2 st2 heq2
              simp only []
              exact St.le_trans (extCommand_le n _) (St.le_trans (extExpr_le _ _) (St.le_trans (next_le' heq2) h1))
            · exact h1
          · exact St.le_trans (extCommand_le n st1) h1
    · exact St.le_refl _

theorem scanFrac_le (st : St) : (scanFrac st).2.2.le st := by
  unfold scanFrac
  split
  · exact St.le_trans (whileNext_le _ _ _) (next_le st)
  · exact St.le_refl _

theorem scanExp_le (st : St) : (scanExp st).2.2.2.2.le st := by
  unfold scanExp
  split
  · split
    · simp only []
      refine St.le_trans (whileNext_le _ _ _) ?_
      split
      · split
        · exact St.le_trans (next_le _) (next_le st)
        · exact next_le st
      · exact next_le st
    · exact St.le_refl _
  · exact St.le_refl _

theorem scanNumber_le (hd : Char) (st : St) : (scanNumber hd st).2.2.2.le st := by
  have h : (scanExp (scanFrac (whileNext isDecimal st.rest.length st).2).2.2).2.2.2.2.le st :=
    St.le_trans (scanExp_le _) (St.le_trans (scanFrac_le _) (whileNext_le _ _ _))
  unfold scanNumber
  simp only []
  split
  · exact h
  · split <;> exact h

/-- a branch of `Scan()` ends in a state reached by moving forward, and stamps the token with the given position -/
def StepOK (st : St) (line col : Nat) : Step → Prop
  | .tok t _ st' _ => st'.le st ∧ t.line = line ∧ t.col = col
  | .comment st' => st'.le st

theorem stepNamedPlaceholder_ok (cls : Classes) (ch : Char) (st : St) (h : Holders) (line col : Nat) :
    StepOK st line col (stepNamedPlaceholder cls ch st h line col) := by
  unfold stepNamedPlaceholder
  simp only [StepOK, and_self, and_true]
  exact scanIdentifier_le cls ch st

theorem stepNumber_ok (ch : Char) (st : St) (h : Holders) (line col : Nat) :
    StepOK st line col (stepNumber ch st h line col) := by
  unfold stepNumber
  simp only [StepOK, and_self, and_true]
  exact scanNumber_le ch st

theorem stepOperator_ok (ch : Char) (st : St) (h : Holders) (line col : Nat) :
    StepOK st line col (stepOperator ch st h line col) := by
  unfold stepOperator
  simp only [StepOK, and_self, and_true]
  exact scanOperator_le ch st

theorem stepExternal_ok (st : St) (h : Holders) (line col : Nat) :
    StepOK st line col (stepExternal st h line col) := by
  unfold stepExternal
  simp only [StepOK, and_self, and_true]
  exact extCommand_le _ st

theorem stepString_ok (ch : Char) (st : St) (h : Holders) (line col : Nat) :
    StepOK st line col (stepString ch st h line col) := by
  unfold stepString
  simp only [StepOK, and_self, and_true]
  exact scanString_le ch st

theorem stepQuotedIdent_ok (ch : Char) (st : St) (h : Holders) (line col : Nat) :
    StepOK st line col (stepQuotedIdent ch st h line col) := by
  unfold stepQuotedIdent
  simp only [StepOK, and_self, and_true]
  exact scanString_le ch st

theorem stepWord_ok (cls : Classes) (ch : Char) (st : St) (h : Holders) (line col : Nat) :
    StepOK st line col (stepWord cls ch st h line col) := by
  unfold stepWord
  have h1 := scanIdentifier_le cls ch st
  simp only []
  split
  · simp only [StepOK, and_self, and_true]; exact h1
  · split
    · split
      · split
        · simp only [StepOK, and_self, and_true]
          exact St.le_trans (next_le _) (St.le_trans (next_le _) h1)
        · split
          · simp only [StepOK, and_self, and_true]
            exact St.le_trans (whileNext_le _ _ _) (St.le_trans (next_le _) (St.le_trans (next_le _) h1))
          · simp only [StepOK, and_self, and_true]
            exact St.le_trans (next_le _) (St.le_trans (next_le _) h1)
      · simp only [StepOK, and_self, and_true]
        exact St.le_trans (scanUrl_le _) (St.le_trans (next_le _) h1)
    · simp only [StepOK, and_self, and_true]; exact h1

theorem stepVariable_ok (cls : Classes) (st : St) (h : Holders) (line col : Nat) :
    StepOK st line col (stepVariable cls st h line col) := by
  unfold stepVariable
  -- the state after the optional second sign rune
  generalize hx : (match peek st with
    | some c =>
      if c = '%' then (Kind.envVar, (next st).2)
      else if c = '#' then (Kind.runtimeInfo, (next st).2)
      else if c = '@' then (Kind.flag, (next st).2)
      else (Kind.variable, st)
    | none => (Kind.variable, st) : Kind × St) = x
  have hx1 : x.2.le st := by
    subst hx
    split
    · split
      · exact next_le st
      · split
        · exact next_le st
        · split
          · exact next_le st
          · exact St.le_refl _
    · exact St.le_refl _
  obtain ⟨kind, st1⟩ := x
  simp only [] at hx1 ⊢
  split
  · simp only [StepOK, and_self, and_true]
    exact St.le_trans (scanString_le _ _) (St.le_trans (next_le _) hx1)
  · split
    · split
      · rename_i hd st2 heq
        simp only [StepOK, and_self, and_true]
        exact St.le_trans (scanIdentifier_le _ _ _) (St.le_trans (next_le' heq) hx1)
      · simp only [StepOK, and_self, and_true]; exact hx1
    · simp only [StepOK, and_self, and_true]; exact hx1

end Csvq.Scan
