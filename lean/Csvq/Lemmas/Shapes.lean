/-
  Csvq.Lemmas.Shapes — helper lemmas for Props/C12Shapes.lean: what every interleaving has in common.
-/
import Csvq.Model.Shapes
namespace Csvq.Shapes

theorem flatten_set_perm {α : Type} : ∀ (cs : List (List α)) (k : Nat) (x : α) (rest : List α),
    cs[k]? = some (x :: rest) → cs.flatten.Perm (x :: (cs.set k rest).flatten)
  | [], k, x, rest, h => by simp at h
  | c :: cs, 0, x, rest, h => by
    simp only [List.getElem?_cons_zero, Option.some.injEq] at h
    subst h
    simp only [List.set_cons_zero, List.flatten_cons, List.cons_append]
    exact List.Perm.refl _
  | c :: cs, k + 1, x, rest, h => by
    simp only [List.getElem?_cons_succ] at h
    have ih := flatten_set_perm cs k x rest h
    simp only [List.set_cons_succ, List.flatten_cons]
    exact (List.Perm.append_left c ih).trans List.perm_middle

theorem flatten_nil_of_all_nil {α : Type} : ∀ (cs : List (List α)), (∀ c ∈ cs, c = []) → cs.flatten = []
  | [], _ => rfl
  | c :: cs, h => by
    simp only [List.flatten_cons]
    rw [h c List.mem_cons_self, flatten_nil_of_all_nil cs (fun c hc => h c (List.mem_cons_of_mem _ hc))]
    rfl

/-- every trace handles exactly the indices that were handed out, each as often as it was handed out -/
theorem interleave_perm {α : Type} {cs : List (List α)} {tr : List (Nat × α)} (h : Interleave cs tr) :
    (order tr).Perm cs.flatten := by
  induction h with
  | done hall =>
    rw [flatten_nil_of_all_nil _ hall]
    exact List.Perm.refl _
  | step hk _ ih =>
    simp only [order, List.map_cons]
    exact (List.Perm.cons _ ih).trans (flatten_set_perm _ _ _ _ hk).symm

/-- every worker handles its own indices in its own order, whatever the others do in between -/
theorem interleave_own {α : Type} {cs : List (List α)} {tr : List (Nat × α)} (h : Interleave cs tr) (k : Nat) :
    ownEvents tr k = (cs[k]?).getD [] := by
  induction h with
  | @done cs hall =>
    simp only [ownEvents, List.filter_nil, List.map_nil]
    cases hk : cs[k]? with
    | none => rfl
    | some c =>
      have := hall c (List.mem_of_getElem? hk)
      simp [this]
  | @step cs k' x rest tr hk' _ ih =>
    have hlt : k' < cs.length := by
      rcases Nat.lt_or_ge k' cs.length with h | h
      · exact h
      · rw [List.getElem?_eq_none h] at hk'; cases hk'
    by_cases hkk : k' = k
    · subst hkk
      have h1 : ownEvents tr k' = rest := by
        rw [ih, List.getElem?_set_self hlt]; rfl
      simp only [ownEvents, List.filter_cons, beq_self_eq_true, if_true, List.map_cons] at h1 ⊢
      rw [h1, hk']; rfl
    · have h1 : ownEvents tr k = (cs[k]?).getD [] := by
        rw [ih, List.getElem?_set_ne hkk]
      have h2 : ((k', x).1 == k) = false := by simp [hkk]
      simp only [ownEvents, List.filter_cons, h2] at h1 ⊢
      exact h1

theorem foldl_slot {β : Type} (f : Nat → β) (tr : List (Nat × Nat)) (st : Nat → Option β) (j : Nat) :
    (tr.foldl (fun st e => fun j => if j = e.2 then some (f e.2) else st j) st) j
      = if j ∈ order tr then some (f j) else st j := by
  induction tr generalizing st with
  | nil => simp [order]
  | cons e tr ih =>
    simp only [List.foldl_cons, order, List.map_cons, List.mem_cons]
    rw [ih]
    simp only [order]
    by_cases h1 : j ∈ tr.map (·.2)
    · simp [h1]
    · by_cases h2 : j = e.2
      · subst h2; simp [h1]
      · simp [h1, h2]

/-- after any trace, slot `j` holds `f j` exactly when `j` was handled -/
theorem slotStore_eq {β : Type} (f : Nat → β) (tr : List (Nat × Nat)) (j : Nat) :
    slotStore f tr j = if j ∈ order tr then some (f j) else none := foldl_slot f tr _ j

theorem accum_eq_foldl_order {σ : Type} (op : Nat → σ → σ) (init : σ) (tr : List (Nat × Nat)) :
    accum op init tr = (order tr).foldl (fun s i => op i s) init := by
  simp only [accum, order, List.foldl_map]

theorem order_perm_of_cuts {c1 c2 : List (List Nat)} {t1 t2 : List (Nat × Nat)} (h : c1.flatten = c2.flatten)
    (h1 : Interleave c1 t1) (h2 : Interleave c2 t2) : (order t1).Perm (order t2) :=
  (interleave_perm h1).trans (h ▸ (interleave_perm h2).symm)

theorem any_perm {α : Type} (p : α → Bool) {l1 l2 : List α} (h : l1.Perm l2) : l1.any p = l2.any p := by
  rw [Bool.eq_iff_iff, List.any_eq_true, List.any_eq_true]
  constructor
  · rintro ⟨x, hx, hp⟩; exact ⟨x, h.mem_iff.mp hx, hp⟩
  · rintro ⟨x, hx, hp⟩; exact ⟨x, h.mem_iff.mpr hx, hp⟩

theorem firstErr_foldl_isSome {ε : Type} (err : Nat → Option ε) (l : List Nat) (s : Option ε) :
    (l.foldl (fun s i => firstErr err i s) s).isSome = (s.isSome || l.any fun i => (err i).isSome) := by
  induction l generalizing s with
  | nil => simp
  | cons i l ih =>
    simp only [List.foldl_cons, List.any_cons]
    rw [ih]
    cases s with
    | some e => simp [firstErr]
    | none => simp [firstErr]

/-- a worker may always run a whole prefix of its list in one go -/
theorem interleave_prefix {α : Type} (l : List α) : ∀ (cs : List (List α)) (k : Nat) (rest : List α) (tr : List (Nat × α)),
    cs[k]? = some (l ++ rest) → Interleave (cs.set k rest) tr → Interleave cs (l.map (fun x => (k, x)) ++ tr) := by
  induction l with
  | nil =>
    intro cs k rest tr h hI
    obtain ⟨hlt, heq⟩ := List.getElem?_eq_some_iff.mp h
    simp only [List.nil_append] at heq
    rw [← heq, List.set_getElem_self] at hI
    simpa using hI
  | cons x l ih =>
    intro cs k rest tr h hI
    obtain ⟨hlt, _⟩ := List.getElem?_eq_some_iff.mp h
    simp only [List.map_cons, List.cons_append]
    refine .step (rest := l ++ rest) h (ih (cs.set k (l ++ rest)) k rest tr ?_ ?_)
    · rw [List.getElem?_set_self hlt]
    · rw [List.set_set]; exact hI

theorem foldl_inc (k : Nat) (n : Nat) : ∀ (c0 m : Nat),
    ((List.replicate n CStep.inc).map (fun c => (k, c))).foldl (fun s e => counterStep s e.2) (c0, m)
      = (c0 + n, if n = 0 then m else max m (c0 + n)) := by
  induction n with
  | zero => intro c0 m; simp
  | succ n ih =>
    intro c0 m
    simp only [List.replicate_succ, List.map_cons, List.foldl_cons]
    have h1 : counterStep (c0, m) CStep.inc = (c0 + 1, max m (c0 + 1)) := rfl
    rw [h1, ih]
    by_cases hn : n = 0
    · subst hn; simp
    · simp only [hn, if_false, Nat.succ_ne_zero]
      refine Prod.ext (by simp; omega) ?_
      simp only [Nat.max_def]
      repeat' split
      all_goals omega

/-- a counter per evaluation sees its own worker's steps only -/
theorem own_counter_foldl (tr : List (Nat × CStep)) : ∀ (st : Nat → Nat × Nat) (k : Nat),
    (tr.foldl (fun st e => fun k => if k = e.1 then counterStep (st k) e.2 else st k) st) k
      = (ownEvents tr k).foldl counterStep (st k) := by
  induction tr with
  | nil => intro st k; rfl
  | cons e tr ih =>
    intro st k
    simp only [List.foldl_cons]
    rw [ih]
    by_cases h : k = e.1
    · subst h
      simp [ownEvents, List.filter_cons]
    · have : (e.1 == k) = false := by simp; exact fun h' => h h'.symm
      simp [ownEvents, List.filter_cons, this, h]

theorem map_range_getD {α γ : Type} (g : List α → γ) (cs : List (List α)) :
    (List.range cs.length).map (fun k => g ((cs[k]?).getD [])) = cs.map g := by
  apply List.ext_getElem
  · simp
  · intro i h1 h2
    simp only [List.length_map, List.length_range] at h1
    simp [List.getElem?_eq_getElem h1]

end Csvq.Shapes
