/-
  C14 — helper lemmas for the ownership model of value lists (Csvq/Model/ListOwn.lean).
-/
import Csvq.Model.ListOwn

namespace Csvq.ListOwn

/-- one allowed call keeps the heap well formed, keeps every shared list shared and leaves its contents alone -/
theorem step_keeps (h : Heap) (c : Call) (hw : WF h) (hal : Allowed h c) :
    WF (step h c) ∧ ∀ a, h.shared a = true → (step h c).shared a = true ∧ (step h c).lists a = h.lists a := by
  cases c with
  | makeFresh src =>
    refine ⟨?_, ?_⟩
    · intro a ha
      simp only [step] at ha ⊢
      by_cases hx : a = h.next
      · simp [hx] at ha
      · simp [hx] at ha
        exact Nat.lt_succ_of_lt (hw a ha)
    · intro a ha
      have hlt := hw a ha
      have hx : a ≠ h.next := Nat.ne_of_lt hlt
      simp [step, hx, ha]
  | writeInPlace b f =>
    refine ⟨hw, ?_⟩
    intro a ha
    have hb : h.shared b = false := hal
    have hx : a ≠ b := by
      intro e
      subst e
      simp [ha] at hb
    simp [step, hx, ha]
  | read b => exact ⟨hw, fun a ha => ⟨ha, rfl⟩⟩
  | publish b =>
    have hb : b < h.next := hal
    refine ⟨?_, ?_⟩
    · intro a ha
      simp only [step] at ha ⊢
      by_cases hx : a = b
      · subst hx; exact hb
      · simp [hx] at ha
        exact hw a ha
    · intro a ha
      by_cases hx : a = b
      · simp [step, hx]
      · simp [step, hx, ha]

theorem run_keeps (calls : List Call) : ∀ (h : Heap), WF h → Disciplined h calls →
    WF (run h calls) ∧ ∀ a, h.shared a = true → (run h calls).shared a = true ∧ (run h calls).lists a = h.lists a := by
  induction calls with
  | nil => intro h hw _; exact ⟨hw, fun a ha => ⟨ha, rfl⟩⟩
  | cons c rest ih =>
    intro h hw hd
    obtain ⟨hal, hrest⟩ := hd
    obtain ⟨hw1, hk1⟩ := step_keeps h c hw hal
    obtain ⟨hw2, hk2⟩ := ih (step h c) hw1 hrest
    refine ⟨hw2, ?_⟩
    intro a ha
    obtain ⟨hs1, hl1⟩ := hk1 a ha
    obtain ⟨hs2, hl2⟩ := hk2 a hs1
    exact ⟨hs2, by simp only [run]; rw [hl2, hl1]⟩

theorem disciplined_append (pre post : List Call) : ∀ (h : Heap), Disciplined h (pre ++ post) →
    Disciplined h pre ∧ Disciplined (run h pre) post := by
  induction pre with
  | nil => intro h hd; exact ⟨trivial, hd⟩
  | cons c rest ih =>
    intro h hd
    obtain ⟨hal, hrest⟩ := hd
    obtain ⟨h1, h2⟩ := ih (step h c) hrest
    exact ⟨⟨hal, h1⟩, h2⟩

theorem run_append (pre post : List Call) : ∀ (h : Heap), run h (pre ++ post) = run (run h pre) post := by
  induction pre with
  | nil => intro h; rfl
  | cons c rest ih => intro h; exact ih (step h c)

/-- a call site whose argument is fresh, as two calls of the heap: build the list, run the writer on it -/
theorem fresh_site_disciplined (h : Heap) (src : List Val) (f : List Val → List Val) :
    Disciplined h [.makeFresh src, .writeInPlace h.next f] := by
  refine ⟨trivial, ?_, trivial⟩
  show (step h (.makeFresh src)).shared h.next = false
  simp [step]

theorem runSites_keeps (sites : List Site) : ∀ (h : Heap), WF h → (∀ s, s ∈ sites → s.fresh = true) →
    WF (runSites h sites) ∧
    ∀ a, h.shared a = true → (runSites h sites).shared a = true ∧ (runSites h sites).lists a = h.lists a := by
  induction sites with
  | nil => intro h hw _; exact ⟨hw, fun a ha => ⟨ha, rfl⟩⟩
  | cons s rest ih =>
    intro h hw hall
    have hs : s.fresh = true := hall s (List.mem_cons_self ..)
    have hd := fresh_site_disciplined h s.src s.f
    obtain ⟨hw1, hk1⟩ := run_keeps _ h hw hd
    have hrest : ∀ t, t ∈ rest → t.fresh = true := fun t ht => hall t (List.mem_cons_of_mem _ ht)
    obtain ⟨hw2, hk2⟩ := ih _ hw1 hrest
    have e : runSites h (s :: rest) = runSites (run h [.makeFresh s.src, .writeInPlace h.next s.f]) rest := by
      simp [runSites, hs, run]
    rw [e]
    refine ⟨hw2, ?_⟩
    intro a ha
    obtain ⟨hs1, hl1⟩ := hk1 a ha
    obtain ⟨hs2, hl2⟩ := hk2 a hs1
    exact ⟨hs2, by rw [hl2, hl1]⟩

end Csvq.ListOwn
