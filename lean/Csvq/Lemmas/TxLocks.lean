/- Soundness of the static order condition of Model/TxLocks.lean: for every number of rounds of every loop and every
   choice of error returns taken, the executed events satisfy the trace property. -/
import Csvq.Model.TxLocks
namespace Csvq.TxLocks

theorem runEvs_sub : ∀ (body : List Ev) (fs : List Bool) (e : Ev), e ∈ (runEvs body fs).1 → e ∈ body
  | [], _, e, h => by simp [runEvs] at h
  | .errReturn :: rest, fs, e, h => by
    simp only [runEvs] at h
    split at h
    · simp at h; subst h; exact List.mem_cons_self
    · exact List.mem_cons_of_mem _ (runEvs_sub rest _ e h)
  | .relErrReturn :: rest, fs, e, h => by
    simp only [runEvs] at h
    split at h
    · simp at h; subst h; exact List.mem_cons_self
    · exact List.mem_cons_of_mem _ (runEvs_sub rest _ e h)
  | .returnNil :: rest, fs, e, h => by
    simp only [runEvs] at h; simp at h; subst h; exact List.mem_cons_self
  | .encode :: rest, fs, e, h => by
    simp only [runEvs, List.mem_cons] at h ⊢
    rcases h with h | h
    · left; exact h
    · right; exact runEvs_sub rest _ e h
  | .commitTable :: rest, fs, e, h => by
    simp only [runEvs, List.mem_cons] at h ⊢
    rcases h with h | h
    · left; exact h
    · right; exact runEvs_sub rest _ e h
  | .releaseViews n :: rest, fs, e, h => by
    simp only [runEvs, List.mem_cons] at h ⊢
    rcases h with h | h
    · left; exact h
    · right; exact runEvs_sub rest _ e h
  | .releaseAll :: rest, fs, e, h => by
    simp only [runEvs, List.mem_cons] at h ⊢
    rcases h with h | h
    · left; exact h
    · right; exact runEvs_sub rest _ e h

theorem runLoop_sub (body : List Ev) : ∀ (n : Nat) (fs : List Bool) (e : Ev), e ∈ (runLoop body n fs).1 → e ∈ body
  | 0, _, e, h => by simp [runLoop] at h
  | n + 1, fs, e, h => by
    simp only [runLoop] at h
    split at h
    · exact runEvs_sub body fs e h
    · simp only [List.mem_append] at h
      rcases h with h | h
      · exact runEvs_sub body fs e h
      · exact runLoop_sub body n _ e h

theorem runSegs_sub : ∀ (segs : List Seg) (its : List Nat) (fs : List Bool) (e : Ev),
    e ∈ (runSegs segs its fs).1 → ∃ s ∈ segs, e ∈ segEvs s
  | [], _, _, e, h => by simp [runSegs] at h
  | .one x :: rest, its, fs, e, h => by
    simp only [runSegs] at h
    split at h
    · exact ⟨.one x, List.mem_cons_self, by simpa [segEvs] using runEvs_sub [x] fs e h⟩
    · simp only [List.mem_append] at h
      rcases h with h | h
      · exact ⟨.one x, List.mem_cons_self, by simpa [segEvs] using runEvs_sub [x] fs e h⟩
      · obtain ⟨s, hs, he⟩ := runSegs_sub rest its _ e h
        exact ⟨s, List.mem_cons_of_mem _ hs, he⟩
  | .loop body :: rest, its, fs, e, h => by
    simp only [runSegs] at h
    split at h
    · exact ⟨.loop body, List.mem_cons_self, runLoop_sub body _ fs e h⟩
    · simp only [List.mem_append] at h
      rcases h with h | h
      · exact ⟨.loop body, List.mem_cons_self, runLoop_sub body _ fs e h⟩
      · obtain ⟨s, hs, he⟩ := runSegs_sub rest its.tail _ e h
        exact ⟨s, List.mem_cons_of_mem _ hs, he⟩

/-- events that release nothing keep a clean trace clean -/
theorem scan_clean_append : ∀ (t u : List Ev), (∀ e ∈ t, isRelease e = false) → scan false (t ++ u) = scan false u
  | [], _, _ => rfl
  | e :: t, u, h => by
    have he := h e List.mem_cons_self
    have ih := scan_clean_append t u (fun x hx => h x (List.mem_cons_of_mem _ hx))
    simp only [List.cons_append, scan, he, Bool.false_eq_true, if_false, Bool.not_false, Bool.true_and, ih]
    split <;> rfl

/-- events that are not data events are fine in every phase -/
theorem scan_no_data : ∀ (t : List Ev) (r : Bool), (∀ e ∈ t, isData e = false) → scan r t = true
  | [], _, _ => rfl
  | e :: t, r, h => by
    have he := h e List.mem_cons_self
    have ih := fun r' => scan_no_data t r' (fun x hx => h x (List.mem_cons_of_mem _ hx))
    simp only [scan, he, Bool.false_eq_true, if_false]
    split <;> exact ih _

theorem tailOk_no_data : ∀ (segs : List Seg), tailOk segs = true → ∀ s ∈ segs, ∀ e ∈ segEvs s, isData e = false
  | [], _, s, hs, _, _ => by cases hs
  | .loop _ :: _, h, _, _, _, _ => by simp [tailOk] at h
  | .one x :: rest, h, s, hs, e, he => by
    simp only [tailOk, Bool.and_eq_true, Bool.or_eq_true, beq_iff_eq] at h
    rcases List.mem_cons.mp hs with e1 | e1
    · subst e1
      simp only [segEvs, List.mem_singleton] at he
      subst he
      rcases h.1 with (h1 | h1) | h1
      · cases e <;> simp_all [isRelease, isData]
      · subst h1; rfl
      · subst h1; rfl
    · exact tailOk_no_data rest h.2 s e1 e he

/-- **soundness of `safeTx`** -/
theorem scan_of_safeTx : ∀ (segs : List Seg) (its : List Nat) (fs : List Bool),
    safeTx segs = true → scan false (runSegs segs its fs).1 = true
  | [], _, _, _ => by simp [runSegs, scan]
  | s :: rest, its, fs, h => by
    simp only [safeTx] at h
    by_cases hn : noRelease s = true
    · simp only [hn, if_true] at h
      have hs : ∀ e ∈ segEvs s, isRelease e = false := by
        intro e he
        have := List.all_eq_true.mp hn e he
        simpa using this
      cases s with
      | one e =>
        simp only [runSegs]
        split
        · have := scan_clean_append (runEvs [e] fs).1 [] (fun x hx => hs x (by simpa [segEvs] using runEvs_sub [e] fs x hx))
          simpa [scan] using this
        · rw [scan_clean_append _ _ (fun x hx => hs x (by simpa [segEvs] using runEvs_sub [e] fs x hx))]
          exact scan_of_safeTx rest its _ h
      | loop body =>
        simp only [runSegs]
        split
        · have := scan_clean_append (runLoop body (its.headD 0) fs).1 [] (fun x hx => hs x (runLoop_sub body _ fs x hx))
          simpa [scan] using this
        · rw [scan_clean_append _ _ (fun x hx => hs x (runLoop_sub body _ fs x hx))]
          exact scan_of_safeTx rest its.tail _ h
    · simp only [hn, if_false, Bool.false_eq_true] at h
      apply scan_no_data
      intro e he
      obtain ⟨s', hs', he'⟩ := runSegs_sub (s :: rest) its fs e he
      exact tailOk_no_data (s :: rest) h s' hs' e he'

/-- what the trace property says: in front of every encode, every publication and every error return to the caller
    no releasing call has been executed -/
theorem scan_meaning : ∀ (a b : List Ev) (e : Ev), scan false (a ++ e :: b) = true → isData e = true →
    ∀ x ∈ a, isRelease x = false := by
  intro a
  induction a with
  | nil => intro _ _ _ _ x hx; cases hx
  | cons y a ih =>
    intro b e hs hd x hx
    have key : ∀ (l : List Ev), scan true (l ++ e :: b) = false := by
      intro l
      induction l with
      | nil =>
        have he : isRelease e = false := by cases e <;> simp_all [isData, isRelease]
        simp [scan, he, hd]
      | cons z l ihl =>
        simp only [List.cons_append, scan]
        split
        · exact ihl
        · split
          · simp
          · exact ihl
    have hy : isRelease y = false := by
      cases hry : isRelease y with
      | false => rfl
      | true =>
        simp only [List.cons_append, scan, hry, if_true] at hs
        rw [key a] at hs; cases hs
    rcases List.mem_cons.mp hx with h | h
    · subst h; exact hy
    · have hs' : scan false (a ++ e :: b) = true := by
        have := scan_clean_append [y] (a ++ e :: b) (by intro z hz; simp at hz; subst hz; exact hy)
        simp only [List.cons_append, List.nil_append] at this
        rw [← this]; exact hs
      exact ih b e hs' hd x h

end Csvq.TxLocks
