/-
  Helper lemmas for the size sites (property C19): the executable check of a condition agrees with its meaning, so a
  valuation found by the driver's search really violates the obligation the theorem is about.
-/
import Csvq.Model.SizeFacts

namespace Csvq.SizeFacts

theorem SCond.check_iff_holds (ρ : Nat → Int) (c : SCond) : c.check ρ = true ↔ c.holds ρ := by
  induction c with
  | tt => simp [SCond.check, SCond.holds]
  | le a b => simp [SCond.check, SCond.holds]
  | lt a b => simp [SCond.check, SCond.holds]
  | eq a b => simp [SCond.check, SCond.holds]
  | ne a b => simp [SCond.check, SCond.holds]
  | and p q ihp ihq => simp [SCond.check, SCond.holds, ihp, ihq]
  | or p q ihp ihq => simp [SCond.check, SCond.holds, ihp, ihq]

theorem checkAll_iff_holdsAll (ρ : Nat → Int) (cs : List SCond) : checkAll ρ cs = true ↔ holdsAll ρ cs := by
  induction cs with
  | nil => simp [checkAll, holdsAll]
  | cons c cs ih =>
    have ih' : (cs.all (·.check ρ)) = true ↔ holdsAll ρ cs := ih
    simp only [checkAll, List.all_cons, Bool.and_eq_true, holdsAll, SCond.check_iff_holds]
    exact and_congr Iff.rfl ih'

/-- a valuation the search accepts refutes the obligation: the search cannot raise a false alarm about the facts it was given -/
theorem SizeSite.violatedBy_sound (s : SizeSite) (l : List Int) (h : s.violatedBy l = true) : ¬ s.safe := by
  intro hs
  simp only [SizeSite.violatedBy, Bool.and_eq_true, Bool.not_eq_true'] at h
  have hc := (checkAll_iff_holdsAll (valuation l) s.conds).mp h.1
  have hg := (SCond.check_iff_holds (valuation l) s.goal).mpr (hs (valuation l) hc)
  rw [hg] at h
  exact absurd h.2 (by decide)

theorem firstM_some {α β : Type} (f : α → Option β) :
    ∀ (xs : List α) (r : β), xs.firstM f = some r → ∃ x ∈ xs, f x = some r := by
  intro xs
  induction xs with
  | nil => intro r h; simp [List.firstM] at h
  | cons x xs ih =>
    intro r h
    simp only [List.firstM] at h
    cases hx : f x with
    | some r' =>
      rw [hx] at h
      have : r' = r := by simpa using h
      exact ⟨x, List.mem_cons_self, by rw [hx, this]⟩
    | none =>
      rw [hx] at h
      have h' : xs.firstM f = some r := by simpa using h
      obtain ⟨y, hy, hfy⟩ := ih r h'
      exact ⟨y, List.mem_cons_of_mem _ hy, hfy⟩

theorem searchFrom_sound (s : SizeSite) (cands : List Int) :
    ∀ (n : Nat) (acc l : List Int), searchFrom s cands n acc = some l → s.violatedBy l = true := by
  intro n
  induction n with
  | zero =>
    intro acc l h
    simp only [searchFrom] at h
    split at h
    · cases h; assumption
    · cases h
  | succ n ih =>
    intro acc l h
    simp only [searchFrom] at h
    obtain ⟨k, _, hk⟩ := firstM_some _ _ _ h
    exact ih _ _ hk

/-- **counterexample_sound.**  Whatever the search of the driver returns violates the obligation. -/
theorem SizeSite.counterexample_sound (s : SizeSite) (l : List Int) (h : s.counterexample = some l) : ¬ s.safe := by
  simp only [SizeSite.counterexample] at h
  obtain ⟨b, _, hb⟩ := firstM_some _ _ _ h
  split at hb
  · exact s.violatedBy_sound l (searchFrom_sound s b _ _ _ hb)
  · cases hb

end Csvq.SizeFacts
