/-
  Helper lemmas for the size sites (property C19): the executable check of a condition agrees with its meaning, so a
  valuation found by the driver's search really violates the obligation the theorem is about.
-/
import Csvq.Model.SizeFacts

namespace Csvq.SizeFacts

theorem SCond.check_iff_holds (ρ : Nat → Int) (c : SCond) : c.check ρ = true ↔ c.holds ρ := by
  induction c with
  | tt => simp [SCond.check, SCond.holds]
  | le a b => simp [SCond.check, SCond.holds]
  | lt a b => simp [SCond.check, SCond.holds]
  | eq a b => simp [SCond.check, SCond.holds]
  | ne a b => simp [SCond.check, SCond.holds]
  | and p q ihp ihq => simp [SCond.check, SCond.holds, ihp, ihq]
  | or p q ihp ihq => simp [SCond.check, SCond.holds, ihp, ihq]

theorem checkAll_iff_holdsAll (ρ : Nat → Int) (cs : List SCond) : checkAll ρ cs = true ↔ holdsAll ρ cs := by
  induction cs with
  | nil => simp [checkAll, holdsAll]
  | cons c cs ih =>
    have ih' : (cs.all (·.check ρ)) = true ↔ holdsAll ρ cs := ih
    simp only [checkAll, List.all_cons, Bool.and_eq_true, holdsAll, SCond.check_iff_holds]
    exact and_congr Iff.rfl ih'

/-- a valuation the search accepts refutes the obligation: the search cannot raise a false alarm about the facts it was given -/
theorem SizeSite.violatedBy_sound (s : SizeSite) (l : List Int) (h : s.violatedBy l = true) : ¬ s.safe := by
  intro hs
  simp only [SizeSite.violatedBy, Bool.and_eq_true, Bool.not_eq_true'] at h
  have hc := (checkAll_iff_holdsAll (valuation l) s.conds).mp h.1
  have hg := (SCond.check_iff_holds (valuation l) s.goal).mpr (hs (valuation l) hc)
  rw [hg] at h
  exact absurd h.2 (by decide)

theorem firstM_some {α β : Type} (f : α → Option β) :
    ∀ (xs : List α) (r : β), xs.firstM f = some r → ∃ x ∈ xs, f x = some r := by
  intro xs
  induction xs with
  | nil => intro r h; simp [List.firstM] at h
  | cons x xs ih =>
    intro r h
    simp only [List.firstM] at h
    cases hx : f x with
    | some r' =>
      rw [hx] at h
      have : r' = r := by simpa using h
      exact ⟨x, List.mem_cons_self, by rw [hx, this]⟩
    | none =>
      rw [hx] at h
      have h' : xs.firstM f = some r := by simpa using h
      obtain ⟨y, hy, hfy⟩ := ih r h'
      exact ⟨y, List.mem_cons_of_mem _ hy, hfy⟩

theorem searchFrom_sound (s : SizeSite) (cands : List Int) :
    ∀ (n : Nat) (acc l : List Int), searchFrom s cands n acc = some l → s.violatedBy l = true := by
  intro n
  induction n with
  | zero =>
    intro acc l h
    simp only [searchFrom] at h
    split at h
    · cases h; assumption
    · cases h
  | succ n ih =>
    intro acc l h
    simp only [searchFrom] at h
    obtain ⟨k, _, hk⟩ := firstM_some _ _ _ h
    exact ih _ _ hk

/-- **counterexample_sound.**  Whatever the search of the driver returns violates the obligation. -/
theorem SizeSite.counterexample_sound (s : SizeSite) (l : List Int) (h : s.counterexample = some l) : ¬ s.safe := by
  simp only [SizeSite.counterexample] at h
  split at h
  · rename_i l' hbox
    cases h
    simp only [SizeSite.boxCounterexample] at hbox
    obtain ⟨b, _, hb⟩ := firstM_some _ _ _ hbox
    split at hb
    · exact s.violatedBy_sound l (searchFrom_sound s b _ _ _ hb)
    · cases hb
  · simp only [SizeSite.prunedCounterexample] at h
    obtain ⟨b, _, hb⟩ := firstM_some _ _ _ h
    split at hb
    · split at hb
      · rename_i hv
        cases hb
        exact s.violatedBy_sound _ hv
      · cases hb
    · cases hb

end Csvq.SizeFacts

/-! ## names of reviewed obligations (shared by Csvq/Props/C19Sizes.lean, C19Loops.lean, C19Lib.lean) -/
namespace Csvq.C19
open Csvq.SizeFacts

/-- an obligation named without its line: file, function (`/func` = inside a function literal), site text, which bound, number
    of occurrences, and the reason it is not proved here.  Reason classes:
    N non-linear / floating-point arithmetic;  P a parameter, a field of another object or a result whose range is a contract
    of the callee;  I an invariant between data structures kept by other functions;  S a result of a string search / conversion;
    C a correlation the join of branches does not keep. -/
structure SizeRef where
  file : String
  fn : String
  expr : String
  what : String
  count : Nat
  reason : String
deriving Repr

def SizeRef.is (r : SizeRef) (s : SizeSite) : Bool :=
  r.expr == s.expr && r.what == s.what && r.fn == s.fn && r.file == s.file

/-- a loop named without its line: file, function, header, number of occurrences, reason.  Reason classes:
    I an iterator / scanner / reader whose progress is made by a callee (no integer measure in this function);
    U the user's own loop;  R termination with probability 1;  D a measure that depends on a direction chosen before the loop;
    C / E a fact the walk does not keep (an assignment inside a switch with fallthrough; an element read twice). -/
structure LoopRef where
  file : String
  fn : String
  header : String
  count : Nat
  reason : String
deriving Repr

def LoopRef.is (r : LoopRef) (l : LoopSite) : Bool := r.header == l.header && r.fn == l.fn && r.file == l.file

/-- what the recorded proofs give: `proved` is `terminates` -/
theorem LoopSite.proved_sound (entries : List SizeEntry) (l : LoopSite) (h : l.proved entries = true) :
    l.terminates entries := by
  simp only [LoopSite.proved, Bool.or_eq_true, beq_iff_eq, List.any_eq_true, List.all_eq_true] at h
  cases h with
  | inl h0 => exact Or.inl h0
  | inr hc =>
    obtain ⟨c, hc, hall⟩ := hc
    refine Or.inr ⟨c, hc, ?_⟩
    intro i hi
    have := hall i hi
    split at this
    · rename_i e he
      match e, this with
      | ⟨s, .yes hp⟩, _ => exact ⟨⟨s, .yes hp⟩, he, hp⟩
    · cases this

end Csvq.C19
