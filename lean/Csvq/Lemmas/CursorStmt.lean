/-
  Helper lemmas for Props/C16Stmt.lean (cursors FOR a prepared statement, replace-value frames).
-/
import Csvq.Model.CursorStmt
namespace Csvq.CursorStmt
open Csvq Csvq.Cursor

/-- reading a placeholder: the expression of the innermost frame, evaluated in the context below it -/
theorem evalPlaceholder_push (f : Frame) (r : Bool) (below : Ctx) (h : Holder) :
    evalPlaceholder (.push f r below) h = (frameIndex f h).bind (evalWith (evalPlaceholder below)) := by
  simp only [evalPlaceholder]
  cases frameIndex f h <;> rfl

theorem evalPlaceholder_prepared (ctx : Ctx) (us : List RV) :
    evalPlaceholder (ctxForPrepared ctx (newReplaceValues us)) = ownLookup (evalPlaceholder ctx) us := by
  funext h
  simp [ctxForPrepared, ownLookup, evalPlaceholder_push]

theorem evalWith_congr (lk lk' : Holder → Option Int) (e : VExpr) (h : ∀ x, lk x = lk' x) :
    evalWith lk e = evalWith lk' e := by
  have : lk = lk' := funext h
  rw [this]

theorem evalWith_closed (lk lk' : Holder → Option Int) (e : VExpr) (hc : e.closed = true) :
    evalWith lk e = evalWith lk' e := by
  induction e with
  | lit n => rfl
  | ph h => simp [VExpr.closed] at hc
  | plus e k ih => simp only [evalWith]; rw [ih (by simpa [VExpr.closed] using hc)]

theorem newFrameFrom_values (l : List RV) : ∀ (i : Nat) (vals : List VExpr) (names : List (String × Nat)),
    (newFrameFrom i vals names l).values = vals.reverse ++ l.map (·.value) := by
  induction l with
  | nil => intro i vals names; simp [newFrameFrom]
  | cons r rest ih => intro i vals names; simp [newFrameFrom, ih]

theorem newReplaceValues_values (l : List RV) : (newReplaceValues l).values = l.map (·.value) := by
  simp [newReplaceValues, newFrameFrom_values]

theorem newReplaceValues_nil : newReplaceValues [] = ⟨[], []⟩ := rfl

/-- an empty USING list answers no placeholder — whatever surrounds it -/
theorem evalPlaceholder_empty_frame (ctx : Ctx) (h : Holder) :
    evalPlaceholder (ctxForPrepared ctx (newReplaceValues [])) h = none := by
  cases h with
  | pos o => cases o <;> simp [evalPlaceholder, ctxForPrepared, newReplaceValues_nil, frameIndex]
  | named n => simp [evalPlaceholder, ctxForPrepared, newReplaceValues_nil, frameIndex, assoc]

theorem evalPlaceholder_empty_frame_fun (ctx : Ctx) :
    evalPlaceholder (ctxForPrepared ctx (newReplaceValues [])) = fun _ => none := by
  funext h; exact evalPlaceholder_empty_frame ctx h

/-! ### fuel -/

theorem getElem?_size_le_maxSize (l : List VExpr) (i : Nat) (e : VExpr) (h : l[i]? = some e) : e.size ≤ maxSize l := by
  induction l generalizing i with
  | nil => simp at h
  | cons x rest ih =>
    cases i with
    | zero =>
      simp at h; subst h; simp only [maxSize]; omega
    | succ j =>
      simp at h
      have := ih j h
      simp only [maxSize]; omega

theorem frameIndex_size_le (f : Frame) (h : Holder) (e : VExpr) (hi : frameIndex f h = some e) :
    e.size ≤ maxSize f.values := by
  cases h with
  | named n =>
    simp only [frameIndex] at hi
    cases ha : assoc f.names n with
    | none => simp [ha] at hi
    | some i => simp [ha] at hi; exact getElem?_size_le_maxSize _ i e hi
  | pos o =>
    cases o with
    | zero => simp [frameIndex] at hi
    | succ i => simp only [frameIndex] at hi; exact getElem?_size_le_maxSize _ i e hi

/-- over recorded frames `size e + weight c` nested calls suffice, and the answer is the structural evaluation -/
theorem evalV_recorded : ∀ (fuel : Nat) (c : Ctx) (e : VExpr), c.allRecorded = true → e.size + c.weight ≤ fuel →
    evalV fuel c e = PV.ofOption (evalWith (evalPlaceholder c) e) := by
  intro fuel
  induction fuel with
  | zero =>
    intro c e _ hle
    cases e <;> simp [VExpr.size] at hle <;> omega
  | succ fuel ih =>
    intro c e hr hle
    cases e with
    | lit n => simp [evalV, evalWith, PV.ofOption]
    | plus e k =>
      have := ih c e hr (by simp only [VExpr.size] at hle; omega)
      simp only [evalV, this, evalWith]
      cases evalWith (evalPlaceholder c) e <;> simp [PV.ofOption]
    | ph h =>
      cases c with
      | empty => simp [evalV, evalWith, evalPlaceholder, PV.ofOption]
      | push f r below =>
        simp only [Ctx.allRecorded, Bool.and_eq_true] at hr
        obtain ⟨hr1, hr2⟩ := hr
        subst hr1
        simp only [evalV, evalWith, evalPlaceholder_push]
        cases hi : frameIndex f h with
        | none => simp [PV.ofOption]
        | some e' =>
          have hs := frameIndex_size_le f h e' hi
          simp only [VExpr.size, Ctx.weight] at hle
          have := ih below e' hr2 (by omega)
          simp [this]

/-- with no value at all the clause fails exactly when it reaches a placeholder -/
theorem evalCond_none_iff_reaches (id : Int) (c : Cond) :
    evalCond (fun _ => none) id c = none ↔ c.reaches id = true := by
  induction c with
  | gtH h => simp [evalCond, Cond.reaches]
  | ltH h => simp [evalCond, Cond.reaches]
  | gtC n => simp [evalCond, Cond.reaches]
  | and a b iha ihb =>
    simp only [evalCond, Cond.reaches, Bool.or_eq_true, Bool.and_eq_true, decide_eq_true_eq]
    cases ha : evalCond (fun _ => none) id a with
    | none =>
      have := iha.mp ha
      simp [this]
    | some v =>
      have hn : ¬ (a.reaches id = true) := by
        intro hr
        have := iha.mpr hr
        rw [ha] at this; cases this
      cases v with
      | false => simp [hn]
      | true => simp [hn, ihb]

theorem selectRows_none_iff (lk : Holder → Option Int) (c : Cond) (t : List Row) :
    selectRows lk c t = none ↔ stuckOn lk c t = true := by
  induction t with
  | nil => simp [selectRows, stuckOn]
  | cons r rest ih =>
    obtain ⟨id, tok⟩ := r
    simp only [stuckOn, List.any_cons, Bool.or_eq_true, Cond.stuck] at ih ⊢
    cases he : evalCond lk id c with
    | none => simp [selectRows, he]
    | some keep =>
      cases hs : selectRows lk c rest with
      | none =>
        have := ih.mp hs
        simp [selectRows, he, hs, this]
      | some out =>
        have hn : ¬ (rest.any (fun r => (evalCond lk r.1 c).isNone) = true) := by
          intro h
          have := ih.mpr h
          rw [hs] at this; cases this
        simp [selectRows, he, hs, hn]

theorem stuckOn_none_eq_reaches (c : Cond) (t : List Row) :
    stuckOn (fun _ => none) c t = reachesPlaceholder c t := by
  induction t with
  | nil => rfl
  | cons r rest ih =>
    simp only [stuckOn, reachesPlaceholder, List.any_cons, Cond.stuck] at ih ⊢
    rw [ih]
    congr 1
    cases h : evalCond (fun _ => none) r.1 c with
    | none => simp [(evalCond_none_iff_reaches r.1 c).mp h]
    | some v =>
      have : ¬ (c.reaches r.1 = true) := by
        intro hr
        have := (evalCond_none_iff_reaches r.1 c).mpr hr
        rw [h] at this; cases this
      simp [this]

/-- the denotation of a clause whose placeholders all have values -/
def Cond.denote (v : Holder → Int) (id : Int) : Cond → Bool
  | .gtH h => decide (v h < id)
  | .ltH h => decide (id < v h)
  | .gtC n => decide (n < id)
  | .and a b => a.denote v id && b.denote v id

theorem evalCond_total (v : Holder → Int) (id : Int) (c : Cond) :
    evalCond (fun h => some (v h)) id c = some (c.denote v id) := by
  induction c with
  | gtH h => simp [evalCond, Cond.denote]
  | ltH h => simp [evalCond, Cond.denote]
  | gtC n => simp [evalCond, Cond.denote]
  | and a b iha ihb =>
    simp only [evalCond, Cond.denote, iha]
    cases a.denote v id <;> simp [ihb]

theorem selectRows_total (v : Holder → Int) (c : Cond) (t : List Row) :
    selectRows (fun h => some (v h)) c t = some ((t.filter (fun r => c.denote v r.1)).map Prod.snd) := by
  induction t with
  | nil => simp [selectRows]
  | cons r rest ih =>
    obtain ⟨id, tok⟩ := r
    simp only [selectRows, evalCond_total, ih, List.filter_cons]
    cases c.denote v id <;> simp

end Csvq.CursorStmt
