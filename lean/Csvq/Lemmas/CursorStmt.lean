/-
  Helper lemmas for Props/C16Stmt.lean (cursors FOR a prepared statement, replace-value frames).
-/
import Csvq.Model.CursorStmt
namespace Csvq.CursorStmt
open Csvq Csvq.Cursor

/-- only the innermost frame is read -/
theorem evalPlaceholder_cons (f : Frame) (ctx : Ctx) (h : Holder) :
    evalPlaceholder (f :: ctx) h = evalPlaceholder [f] h := by
  simp [evalPlaceholder, ctxValue]

theorem evalPlaceholder_cons_fun (f : Frame) (ctx : Ctx) :
    evalPlaceholder (f :: ctx) = evalPlaceholder [f] := by
  funext h; exact evalPlaceholder_cons f ctx h

theorem newFrameFrom_values (l : List RV) : ∀ (i : Nat) (vals : List Int) (names : List (String × Nat)),
    (newFrameFrom i vals names l).values = vals.reverse ++ l.map (·.value) := by
  induction l with
  | nil => intro i vals names; simp [newFrameFrom]
  | cons r rest ih => intro i vals names; simp [newFrameFrom, ih]

theorem newReplaceValues_values (l : List RV) : (newReplaceValues l).values = l.map (·.value) := by
  simp [newReplaceValues, newFrameFrom_values]

theorem newReplaceValues_nil : newReplaceValues [] = ⟨[], []⟩ := rfl

/-- an empty USING list answers no placeholder — whatever surrounds it -/
theorem evalPlaceholder_empty_frame (ctx : Ctx) (h : Holder) :
    evalPlaceholder (ctxForPrepared ctx (newReplaceValues [])) h = none := by
  cases h with
  | pos o => cases o <;> simp [evalPlaceholder, ctxValue, ctxForPrepared, newReplaceValues_nil]
  | named n => simp [evalPlaceholder, ctxValue, ctxForPrepared, newReplaceValues_nil, assoc]

theorem evalPlaceholder_empty_frame_fun (ctx : Ctx) :
    evalPlaceholder (ctxForPrepared ctx (newReplaceValues [])) = fun _ => none := by
  funext h; exact evalPlaceholder_empty_frame ctx h

/-- with no value at all the clause fails exactly when it reaches a placeholder -/
theorem evalCond_none_iff_reaches (id : Int) (c : Cond) :
    evalCond (fun _ => none) id c = none ↔ c.reaches id = true := by
  induction c with
  | gtH h => simp [evalCond, Cond.reaches]
  | ltH h => simp [evalCond, Cond.reaches]
  | gtC n => simp [evalCond, Cond.reaches]
  | and a b iha ihb =>
    simp only [evalCond, Cond.reaches, Bool.or_eq_true, Bool.and_eq_true, decide_eq_true_eq]
    cases ha : evalCond (fun _ => none) id a with
    | none =>
      have := iha.mp ha
      simp [this]
    | some v =>
      have hn : ¬ (a.reaches id = true) := by
        intro hr
        have := iha.mpr hr
        rw [ha] at this; cases this
      cases v with
      | false => simp [hn]
      | true => simp [hn, ihb]

theorem selectRows_none_iff (lk : Holder → Option Int) (c : Cond) (t : List Row) :
    selectRows lk c t = none ↔ stuckOn lk c t = true := by
  induction t with
  | nil => simp [selectRows, stuckOn]
  | cons r rest ih =>
    obtain ⟨id, tok⟩ := r
    simp only [stuckOn, List.any_cons, Bool.or_eq_true, Cond.stuck] at ih ⊢
    cases he : evalCond lk id c with
    | none => simp [selectRows, he]
    | some keep =>
      cases hs : selectRows lk c rest with
      | none =>
        have := ih.mp hs
        simp [selectRows, he, hs, this]
      | some out =>
        have hn : ¬ (rest.any (fun r => (evalCond lk r.1 c).isNone) = true) := by
          intro h
          have := ih.mpr h
          rw [hs] at this; cases this
        simp [selectRows, he, hs, hn]

theorem stuckOn_none_eq_reaches (c : Cond) (t : List Row) :
    stuckOn (fun _ => none) c t = reachesPlaceholder c t := by
  induction t with
  | nil => rfl
  | cons r rest ih =>
    simp only [stuckOn, reachesPlaceholder, List.any_cons, Cond.stuck] at ih ⊢
    rw [ih]
    congr 1
    cases h : evalCond (fun _ => none) r.1 c with
    | none => simp [(evalCond_none_iff_reaches r.1 c).mp h]
    | some v =>
      have : ¬ (c.reaches r.1 = true) := by
        intro hr
        have := (evalCond_none_iff_reaches r.1 c).mpr hr
        rw [h] at this; cases this
      simp [this]

/-- the denotation of a clause whose placeholders all have values -/
def Cond.denote (v : Holder → Int) (id : Int) : Cond → Bool
  | .gtH h => decide (v h < id)
  | .ltH h => decide (id < v h)
  | .gtC n => decide (n < id)
  | .and a b => a.denote v id && b.denote v id

theorem evalCond_total (v : Holder → Int) (id : Int) (c : Cond) :
    evalCond (fun h => some (v h)) id c = some (c.denote v id) := by
  induction c with
  | gtH h => simp [evalCond, Cond.denote]
  | ltH h => simp [evalCond, Cond.denote]
  | gtC n => simp [evalCond, Cond.denote]
  | and a b iha ihb =>
    simp only [evalCond, Cond.denote, iha]
    cases a.denote v id <;> simp [ihb]

theorem selectRows_total (v : Holder → Int) (c : Cond) (t : List Row) :
    selectRows (fun h => some (v h)) c t = some ((t.filter (fun r => c.denote v r.1)).map Prod.snd) := by
  induction t with
  | nil => simp [selectRows]
  | cons r rest ih =>
    obtain ⟨id, tok⟩ := r
    simp only [selectRows, evalCond_total, ih, List.filter_cons]
    cases c.denote v id <;> simp

end Csvq.CursorStmt
