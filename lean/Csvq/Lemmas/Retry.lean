/- Soundness of the path enumerations of Model/Retry.lean: whatever the environment does and whenever the
   context ends, an attempt / a statement list / a call ends in one of the enumerated ways; progress of time. -/
import Csvq.Model.Retry
namespace Csvq.Retry

theorem runTry_mem (env : Env) : ∀ (p : List TStmt) (t : Nat) (m : Mine) (ds : List CF),
    ((runTry env p t m ds).res, (runTry env p t m ds).mine) ∈ tryPaths p m ds
  | [], t, m, ds => by simp [runTry, tryPaths]
  | .failIfExists l r cl :: rest, t, m, ds => by
    simp only [runTry, tryPaths]
    split
    · exact List.mem_cons_self
    · exact List.mem_cons_of_mem _ (runTry_mem env rest (t + 1) m ds)
  | .create f excl :: rest, t, m, ds => by
    simp only [runTry, tryPaths]
    split
    · exact List.mem_cons_self
    · exact List.mem_cons_of_mem _ (runTry_mem env rest (t + 1) (m.set f true) ds)
  | .deferClose f :: rest, t, m, ds => by
    simp only [runTry, tryPaths]
    exact runTry_mem env rest t m (f :: ds)
  | .returnFile f :: _, t, m, ds => by simp [runTry, tryPaths]

theorem runTry_time (env : Env) : ∀ (p : List TStmt) (t : Nat) (m : Mine) (ds : List CF),
    t < (runTry env p t m ds).t
  | [], t, m, ds => by simp [runTry]
  | .failIfExists l r cl :: rest, t, m, ds => by
    simp only [runTry]
    split
    · simp
    · have := runTry_time env rest (t + 1) m ds; omega
  | .create f excl :: rest, t, m, ds => by
    simp only [runTry]
    split
    · simp
    · have := runTry_time env rest (t + 1) (m.set f true) ds; omega
  | .deferClose f :: rest, t, m, ds => by
    simp only [runTry]
    exact runTry_time env rest t m (f :: ds)
  | .returnFile f :: _, t, m, ds => by simp [runTry]

theorem runStmts_mem (env : Env) (T : Nat) (tr : List TStmt) : ∀ (stmts : List RStmt) (s : LSt),
    (runStmts env T tr stmts s).abs ∈ stmtPaths tr stmts s.mine s.last
  | [], s => by simp [runStmts, stmtPaths, Flow.abs]
  | .attempt :: rest, s => by
    simp only [runStmts, stmtPaths, List.mem_flatMap]
    refine ⟨((runTry env tr s.t s.mine []).res, (runTry env tr s.t s.mine []).mine), runTry_mem env tr s.t s.mine [], ?_⟩
    exact runStmts_mem env T tr rest ⟨_, _, _⟩
  | .ifRet .ctxDone r :: rest, s => by
    simp only [runStmts, stmtPaths]
    split
    · simp [Flow.abs]
    · exact List.mem_cons_of_mem _ (runStmts_mem env T tr rest { s with t := s.t + 1 })
  | .ifRet .attemptOk r :: rest, s => by
    simp only [runStmts, stmtPaths, evalCond]
    by_cases hc : isOk s.last = true
    · simp [hc, Flow.abs]
    · simp only [hc, if_false, Bool.false_eq_true]
      exact runStmts_mem env T tr rest { s with t := s.t + 1 }
  | .ifRet .attemptHard r :: rest, s => by
    simp only [runStmts, stmtPaths, evalCond]
    by_cases hc : isHard s.last = true
    · simp [hc, Flow.abs]
    · simp only [hc, if_false, Bool.false_eq_true]
      exact runStmts_mem env T tr rest { s with t := s.t + 1 }
  | .selectCtxOrTimer r :: rest, s => by
    simp only [runStmts, stmtPaths]
    split
    · simp [Flow.abs]
    · exact List.mem_cons_of_mem _ (runStmts_mem env T tr rest { s with t := s.t + (env s.t).delay + 1 })

theorem mem_retsOf : ∀ (fs : List AFlow) (r : Ret) (m : Mine) (l : Option TRes),
    AFlow.ret r m l ∈ fs → (r, m, l) ∈ retsOf fs
  | [], _, _, _, h => by simp at h
  | .ret r' m' l' :: rest, r, m, l, h => by
    simp only [retsOf, List.mem_cons] at h ⊢
    rcases h with h | h
    · left; injection h with a b c; simp [a, b, c]
    · right; exact mem_retsOf rest r m l h
  | .cont _ _ :: rest, r, m, l, h => by
    simp only [retsOf, List.mem_cons] at h ⊢
    rcases h with h | h
    · cases h
    · exact mem_retsOf rest r m l h

theorem mem_allLast (l : Option TRes) : l ∈ allLast := by
  cases l with
  | none => simp [allLast]
  | some r => cases r with
    | ok f => cases f <;> simp [allLast]
    | soft => simp [allLast]
    | hard => simp [allLast]

theorem clean_of_all {fs : List AFlow} {m : Mine} {l : Option TRes}
    (h : fs.all (fun f => match f with | .cont m _ => m == Mine.none | .ret _ _ _ => true) = true)
    (hm : AFlow.cont m l ∈ fs) : m = .none := by
  have := List.all_eq_true.mp h _ hm
  simpa using this

theorem runLoop_outcome_mem (env : Env) (T : Nat) (tr : List TStmt) (lp : Loop) (hc : contsClean tr lp = true) :
    ∀ (n : Nat) (s : LSt) (r : Ret) (s' : LSt), s.mine = .none →
      runLoop env T tr lp.body n s = some (r, s') → (r, s'.mine, s'.last) ∈ retryOutcomes tr lp
  | 0, _, _, _, _, h => by simp [runLoop] at h
  | n + 1, s, r, s', hs, h => by
    simp only [runLoop] at h
    have hm := runStmts_mem env T tr lp.body s
    rw [hs] at hm
    cases hf : runStmts env T tr lp.body s with
    | ret r1 s1 =>
      rw [hf] at h hm
      simp only [Option.some.injEq, Prod.mk.injEq] at h
      obtain ⟨h1, h2⟩ := h
      subst h1; subst h2
      simp only [retryOutcomes, List.mem_append, List.mem_flatMap]
      right
      exact ⟨s.last, mem_allLast _, mem_retsOf _ _ _ _ hm⟩
    | cont s1 =>
      rw [hf] at h hm
      simp only [Flow.abs] at hm
      have hall : (stmtPaths tr lp.body .none s.last).all _ = true :=
        List.all_eq_true.mp (Bool.and_eq_true_iff.mp hc).2 _ (mem_allLast s.last)
      exact runLoop_outcome_mem env T tr lp hc n s1 r s' (clean_of_all hall hm) h

/-- **soundness of `retryOutcomes`**: for every environment, every instant at which the context ends, every
    number of rounds and every starting instant, a call that returns returns one of the enumerated outcomes -/
theorem run_outcome_mem (env : Env) (T : Nat) (tr : List TStmt) (lp : Loop) (hc : contsClean tr lp = true)
    (fuel t0 : Nat) (r : Ret) (s : LSt) (h : run env T tr lp fuel t0 = some (r, s)) :
    (r, s.mine, s.last) ∈ retryOutcomes tr lp := by
  simp only [run] at h
  have hm := runStmts_mem env T tr lp.pre ⟨t0, .none, none⟩
  cases hf : runStmts env T tr lp.pre ⟨t0, .none, none⟩ with
  | ret r1 s1 =>
    rw [hf] at h hm
    simp only [Option.some.injEq, Prod.mk.injEq] at h
    obtain ⟨h1, h2⟩ := h
    subst h1; subst h2
    simp only [retryOutcomes, List.mem_append]
    left
    exact mem_retsOf _ _ _ _ hm
  | cont s1 =>
    rw [hf] at h hm
    simp only [Flow.abs] at hm
    have hall : (stmtPaths tr lp.pre .none none).all _ = true := (Bool.and_eq_true_iff.mp hc).1
    exact runLoop_outcome_mem env T tr lp hc fuel s1 r s (clean_of_all hall hm) h

/-! ### time -/

theorem runStmts_time (env : Env) (T : Nat) (tr : List TStmt) : ∀ (stmts : List RStmt) (s s' : LSt),
    runStmts env T tr stmts s = .cont s' → s.t ≤ s'.t
  | [], s, s', h => by simp only [runStmts] at h; injection h with h; subst h; exact Nat.le_refl _
  | .attempt :: rest, s, s', h => by
    simp only [runStmts] at h
    have := runStmts_time env T tr rest _ s' h
    have := runTry_time env tr s.t s.mine []
    simp only at *; omega
  | .ifRet c r :: rest, s, s', h => by
    simp only [runStmts] at h
    split at h
    · cases h
    · have := runStmts_time env T tr rest _ s' h; simp only at this; omega
  | .selectCtxOrTimer r :: rest, s, s', h => by
    simp only [runStmts] at h
    split at h
    · cases h
    · have := runStmts_time env T tr rest _ s' h; simp only at this; omega

/-- from instant `N` on a tie between the context and the timer is not decided for the timer — or there is no tie
    of that kind because the retry delay is positive -/
def Fair (env : Env) (N : Nat) : Prop := ∀ t, N ≤ t → (env t).timerWins = false ∨ 0 < (env t).delay

theorem select_cont {T t d : Nat} {tw : Bool} (h : selectReturns T t d tw = false) (hf : tw = false ∨ 0 < d) : t < T := by
  simp only [selectReturns, Bool.and_eq_false_iff, decide_eq_false_iff_not, Bool.not_eq_false', Bool.and_eq_true,
    Bool.or_eq_true, decide_eq_true_eq] at h
  rcases h with h | ⟨h1, h2⟩
  · omega
  · rcases hf with a | a
    · rw [a] at h1; cases h1
    · rcases h2 with e | e <;> omega

/-- a round that contains the select takes time, and (from `N` on, under fairness) goes on only while the context
    is not over -/
theorem runStmts_progress (env : Env) (T N : Nat) (hf : Fair env N) (tr : List TStmt) : ∀ (stmts : List RStmt) (s s' : LSt),
    hasSelect stmts = true → runStmts env T tr stmts s = .cont s' → s.t < s'.t ∧ (N ≤ s.t → s.t < T)
  | [], _, _, hs, _ => by simp [hasSelect] at hs
  | .attempt :: rest, s, s', hs, h => by
    simp only [runStmts] at h
    have := runStmts_progress env T N hf tr rest _ s' (by simpa [hasSelect] using hs) h
    have := runTry_time env tr s.t s.mine []
    simp only at *; omega
  | .ifRet c r :: rest, s, s', hs, h => by
    simp only [runStmts] at h
    split at h
    · cases h
    · have := runStmts_progress env T N hf tr rest _ s' (by simpa [hasSelect] using hs) h
      simp only at this; omega
  | .selectCtxOrTimer r :: rest, s, s', _, h => by
    simp only [runStmts] at h
    split at h
    · cases h
    · rename_i hsel
      have := runStmts_time env T tr rest _ s' h
      simp only at this
      refine ⟨by omega, fun hn => ?_⟩
      exact select_cont (by simpa using hsel) (hf s.t hn)

theorem runLoop_returns (env : Env) (T N : Nat) (hf : Fair env N) (tr : List TStmt) (body : List RStmt) (hs : hasSelect body = true) :
    ∀ (n : Nat) (s : LSt), T + N - s.t < n → (runLoop env T tr body n s).isSome = true
  | 0, _, h => by omega
  | n + 1, s, h => by
    simp only [runLoop]
    cases hr : runStmts env T tr body s with
    | ret r s1 => simp
    | cont s1 =>
      have := runStmts_progress env T N hf tr body s s1 hs hr
      refine runLoop_returns env T N hf tr body hs n s1 ?_
      by_cases hn : N ≤ s.t
      · have := this.2 hn; omega
      · omega

/-- a call whose loop body contains the select returns after at most T + N + 1 rounds, `N` the instant from which
    ties are fair (0 when the retry delay is positive) -/
theorem run_returns (env : Env) (T N : Nat) (hf : Fair env N) (tr : List TStmt) (lp : Loop) (hs : hasSelect lp.body = true) (t0 : Nat) :
    ∃ fuel, (run env T tr lp fuel t0).isSome = true := by
  refine ⟨T + N + 1, ?_⟩
  simp only [run]
  cases hr : runStmts env T tr lp.pre ⟨t0, .none, none⟩ with
  | ret r s => simp
  | cont s => exact runLoop_returns env T N hf tr lp.body hs (T + N + 1) s (by omega)

/-- whatever the calls of the retry loop return (among `outs`), a constructor ends in one of the enumerated ways -/
theorem runNew_mem (outs : CF → List (Ret × Mine)) (call : CF → Ret × Mine) (hc : ∀ f, call f ∈ outs f)
    (missing openFails : Bool) (hprog : List HStmt) : ∀ (p : List NStmt) (h : HSt),
    runNew call missing openFails hprog p h ∈ newPaths outs hprog p h
  | [], h => by simp [runNew, newPaths]
  | .existenceReturn :: rest, h => by
    simp only [runNew, newPaths]
    split
    · exact List.mem_cons_self
    · exact List.mem_cons_of_mem _ (runNew_mem outs call hc missing openFails hprog rest h)
  | .controlFile f rel :: rest, h => by
    simp only [runNew, newPaths, List.mem_flatMap]
    refine ⟨call f, hc f, ?_⟩
    split
    · simp
    · exact runNew_mem outs call hc missing openFails hprog rest _
  | .openData rel :: rest, h => by
    simp only [runNew, newPaths]
    cases openFails with
    | true => simp
    | false =>
      simp only [if_false, Bool.false_eq_true]
      exact List.mem_cons_of_mem _ (runNew_mem outs call hc missing false hprog rest h)
  | .returnOk :: _, h => by simp [runNew, newPaths]

end Csvq.Retry
