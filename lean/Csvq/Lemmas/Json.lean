/-
  Helper lemmas for Csvq.Model.Json (used by Csvq.Props.C02): hexadecimal digits, one escaped
  character read back by `unescapeF`, the string scanner.
-/
import Csvq.Model.Json
namespace Csvq.Json

/-! ## four hexadecimal digits -/

theorem hexVal_hexDigit : ∀ k : Fin 16, hexVal (hexDigit k.val) = some k.val := by decide

theorem hexVal_hexDigit' (k : Nat) (h : k < 16) : hexVal (hexDigit k) = some k :=
  hexVal_hexDigit ⟨k, h⟩

theorem readHex4_hex4 (n : Nat) (h : n < 65536) (rest : List Char) :
    readHex4 (hex4 n ++ rest) = some (n, rest) := by
  simp only [hex4, List.cons_append, List.nil_append, readHex4]
  rw [hexVal_hexDigit' _ (Nat.mod_lt _ (by decide)), hexVal_hexDigit' _ (Nat.mod_lt _ (by decide)),
    hexVal_hexDigit' _ (Nat.mod_lt _ (by decide)), hexVal_hexDigit' _ (Nat.mod_lt _ (by decide))]
  simp only [Option.some.injEq, Prod.mk.injEq, and_true]
  omega

/-! ## characters -/

theorem char_range (c : Char) : c.toNat < 0xd800 ∨ (0xdfff < c.toNat ∧ c.toNat < 0x110000) := by
  have h := c.valid
  unfold UInt32.isValidChar Nat.isValidChar at h
  exact h

theorem runeOf_toNat (c : Char) : runeOf c.toNat = c := by
  unfold runeOf isHighSurrogate isLowSurrogate
  have := char_range c
  have h1 : ¬ (0xD800 ≤ c.toNat ∧ c.toNat ≤ 0xDBFF) := by omega
  have h2 : ¬ (0xDC00 ≤ c.toNat ∧ c.toNat ≤ 0xDFFF) := by omega
  simp [h1, h2]

/-! ## one escaped character, read back -/

/-- `\uXXXX` / a surrogate pair -/
theorem unescapeF_encodeRune (c : Char) (n : Nat) (rest : List Char) :
    unescapeF (n + 1) (encodeRune c ++ rest) = c :: unescapeF n rest := by
  have hr := char_range c
  unfold encodeRune
  by_cases hbig : 65536 ≤ c.toNat
  · simp only [hbig, if_true, List.cons_append, List.append_assoc]
    have hhi : (c.toNat - 65536) / 1024 + 55296 < 65536 := by omega
    have hlo : (c.toNat - 65536) % 1024 + 56320 < 65536 := by omega
    simp only [unescapeF, Char.reduceEq, if_false, if_true, or_self]
    rw [readHex4_hex4 _ hhi]
    have h1 : isHighSurrogate ((c.toNat - 65536) / 1024 + 55296) = true := by
      unfold isHighSurrogate; simp; omega
    simp only [h1, if_true]
    rw [readHex4_hex4 _ hlo]
    have h2 : isLowSurrogate ((c.toNat - 65536) % 1024 + 56320) = true := by
      unfold isLowSurrogate; simp; omega
    simp only [h2, if_true]
    have : 65536 + ((c.toNat - 65536) / 1024 + 55296 - 55296) * 1024 + ((c.toNat - 65536) % 1024 + 56320 - 56320) = c.toNat := by
      omega
    rw [this, runeOf_toNat]
  · simp only [hbig, if_false, List.cons_append]
    have hlt : c.toNat < 65536 := by omega
    simp only [unescapeF, Char.reduceEq, if_false, if_true, or_self]
    rw [readHex4_hex4 _ hlt]
    have h1 : isHighSurrogate c.toNat = false := by
      unfold isHighSurrogate
      have : ¬ (0xD800 ≤ c.toNat ∧ c.toNat ≤ 0xDBFF) := by omega
      simpa using this
    simp only [h1, Bool.false_eq_true, if_false]
    rw [runeOf_toNat]

theorem unescapeF_plain (c : Char) (h : c ≠ '\\') (n : Nat) (rest : List Char) :
    unescapeF (n + 1) (c :: rest) = c :: unescapeF n rest := by
  simp [unescapeF, h]

theorem unescapeF_escBackslash (c : Char) (n : Nat) (rest : List Char) :
    unescapeF (n + 1) (escBackslash c ++ rest) = c :: unescapeF n rest := by
  unfold escBackslash
  by_cases h1 : c = '\\' ∨ c = '"' ∨ c = '/'
  · simp only [h1, if_true, List.cons_append, List.nil_append]
    rcases h1 with rfl | rfl | rfl <;> simp [unescapeF]
  · simp only [h1, if_false]
    have hb : c ≠ '\\' := fun e => h1 (Or.inl e)
    by_cases h2 : c = '\x08'
    · subst h2; simp [unescapeF]
    · simp only [h2, if_false]
      by_cases h3 : c = '\x0c'
      · subst h3; simp [unescapeF]
      · simp only [h3, if_false]
        by_cases h4 : c = '\n'
        · subst h4; simp [unescapeF]
        · simp only [h4, if_false]
          by_cases h5 : c = '\r'
          · subst h5; simp [unescapeF]
          · simp only [h5, if_false]
            by_cases h6 : c = '\t'
            · subst h6; simp [unescapeF]
            · simp only [h6, if_false]
              by_cases h7 : c.toNat ≤ 31
              · simp only [h7, if_true]
                exact unescapeF_encodeRune c n rest
              · simp only [h7, if_false, List.cons_append, List.nil_append]
                exact unescapeF_plain c hb n rest

theorem unescapeF_escHex (c : Char) (n : Nat) (rest : List Char) :
    unescapeF (n + 1) (escHex c ++ rest) = c :: unescapeF n rest := by
  unfold escHex
  by_cases h1 : c = '\\' ∨ c = '"' ∨ c = '/' ∨ c = '\x08' ∨ c = '\x0c' ∨ c = '\n' ∨ c = '\r' ∨ c = '\t'
  · simp only [h1, if_true]
    exact unescapeF_encodeRune c n rest
  · simp only [h1, if_false]
    by_cases h7 : c.toNat ≤ 31
    · simp only [h7, if_true]
      exact unescapeF_encodeRune c n rest
    · simp only [h7, if_false, List.cons_append, List.nil_append]
      exact unescapeF_plain c (fun e => h1 (Or.inl e)) n rest

theorem unescapeF_escChar (t : Esc) (c : Char) (n : Nat) (rest : List Char) :
    unescapeF (n + 1) (escChar t c ++ rest) = c :: unescapeF n rest := by
  cases t
  · exact unescapeF_escBackslash c n rest
  · exact unescapeF_escHex c n rest
  · exact unescapeF_encodeRune c n rest

theorem unescapeF_escape (t : Esc) (s : List Char) (n : Nat) (h : s.length ≤ n) :
    unescapeF n (escape t s) = s := by
  induction s generalizing n with
  | nil => cases n <;> simp [escape, unescapeF]
  | cons c cs ih =>
    cases n with
    | zero => simp at h
    | succ m =>
      simp only [escape]
      rw [unescapeF_escChar, ih m (by simpa using h)]

theorem escChar_length_pos (t : Esc) (c : Char) : 1 ≤ (escChar t c).length := by
  cases h : escChar t c with
  | nil =>
    have := unescapeF_escChar t c 0 []
    rw [h] at this
    simp [unescapeF] at this
  | cons x xs => simp

theorem escape_length (t : Esc) (s : List Char) : s.length ≤ (escape t s).length := by
  induction s with
  | nil => simp [escape]
  | cons c cs ih =>
    simp only [escape, List.length_append, List.length_cons]
    have := escChar_length_pos t c
    omega

theorem unescape_escape (t : Esc) (s : List Char) : unescape (escape t s) = s := by
  unfold unescape
  exact unescapeF_escape t s _ (by have := escape_length t s; omega)

/-! ## the string scanner -/

theorem pre_pre (a b : List Char) (o) : pre a (pre b o) = pre (a ++ b) o := by
  cases o with
  | none => rfl
  | some p => simp [pre]

theorem scanStr_plain (c : Char) (h1 : c ≠ '"') (h2 : c ≠ '\\') (rest : List Char) :
    scanStr (c :: rest) = pre [c] (scanStr rest) := by
  simp [scanStr, scanStrAux, h1, h2]

theorem scanStrAux_true (x : Char) (h : x ≠ '"') (rest : List Char) :
    scanStrAux true (x :: rest) = scanStrAux false (x :: rest) := by
  simp [scanStrAux, h]

theorem scanStr_bs (x : Char) (h : x ≠ '"') (rest : List Char) :
    scanStr ('\\' :: x :: rest) = pre ['\\'] (scanStr (x :: rest)) := by
  unfold scanStr
  rw [scanStrAux]
  simp only [Char.reduceEq, if_false, decide_true]
  rw [scanStrAux_true x h]

theorem scanStr_bs_quote (rest : List Char) :
    scanStr ('\\' :: '"' :: rest) = pre ['\\', '"'] (scanStr rest) := by
  unfold scanStr
  rw [scanStrAux]
  simp only [Char.reduceEq, if_false, decide_true]
  rw [scanStrAux]
  simp [pre_pre]

theorem hexDigit_plain : ∀ k : Fin 16, hexDigit k.val ≠ '"' ∧ hexDigit k.val ≠ '\\' := by decide

theorem scanStr_hex4 (m : Nat) (rest : List Char) : scanStr (hex4 m ++ rest) = pre (hex4 m) (scanStr rest) := by
  have h (k : Nat) (hk : k < 16) := hexDigit_plain ⟨k, hk⟩
  simp only [hex4, List.cons_append, List.nil_append]
  rw [scanStr_plain _ (h _ (Nat.mod_lt _ (by decide))).1 (h _ (Nat.mod_lt _ (by decide))).2,
    scanStr_plain _ (h _ (Nat.mod_lt _ (by decide))).1 (h _ (Nat.mod_lt _ (by decide))).2,
    scanStr_plain _ (h _ (Nat.mod_lt _ (by decide))).1 (h _ (Nat.mod_lt _ (by decide))).2,
    scanStr_plain _ (h _ (Nat.mod_lt _ (by decide))).1 (h _ (Nat.mod_lt _ (by decide))).2]
  simp [pre_pre]

theorem scanStr_u4 (m : Nat) (rest : List Char) :
    scanStr ('\\' :: 'u' :: (hex4 m ++ rest)) = pre ('\\' :: 'u' :: hex4 m) (scanStr rest) := by
  rw [scanStr_bs 'u' (by decide), scanStr_plain 'u' (by decide) (by decide), scanStr_hex4]
  simp [pre_pre]

theorem scanStr_encodeRune (c : Char) (rest : List Char) :
    scanStr (encodeRune c ++ rest) = pre (encodeRune c) (scanStr rest) := by
  unfold encodeRune
  by_cases h : 65536 ≤ c.toNat
  · simp only [h, if_true, List.cons_append, List.append_assoc]
    rw [scanStr_u4, scanStr_u4, pre_pre]
    simp
  · simp only [h, if_false, List.cons_append]
    exact scanStr_u4 _ _

/-- one escaped character; the only unit the scanner can get wrong is `\\` in front of a
    quotation mark -/
theorem scanStr_escChar (t : Esc) (c : Char) (tail : List Char)
    (h : t = .backslash → c = '\\' → tail.head? ≠ some '"') :
    scanStr (escChar t c ++ tail) = pre (escChar t c) (scanStr tail) := by
  have hplain : c ≠ '"' → c ≠ '\\' → scanStr ([c] ++ tail) = pre [c] (scanStr tail) :=
    fun h1 h2 => scanStr_plain c h1 h2 tail
  cases t with
  | all => exact scanStr_encodeRune c tail
  | hex =>
    simp only [escChar, escHex]
    split
    · exact scanStr_encodeRune c tail
    · rename_i h1
      split
      · exact scanStr_encodeRune c tail
      · exact hplain (fun e => h1 (Or.inr (Or.inl e))) (fun e => h1 (Or.inl e))
  | backslash =>
    simp only [escChar, escBackslash]
    split
    · rename_i h1
      rcases h1 with rfl | rfl | rfl
      · -- the backslash
        have ht := h rfl rfl
        cases tail with
        | nil => simp [scanStr, scanStrAux, pre]
        | cons x xs =>
          have hx : x ≠ '"' := fun e => ht (by simp [e])
          simp only [List.cons_append, List.nil_append]
          rw [scanStr_bs '\\' (by decide)]
          by_cases hxb : x = '\\'
          · subst hxb
            cases xs with
            | nil => simp [scanStr, scanStrAux, pre]
            | cons y ys =>
              by_cases hy : y = '"'
              · subst hy
                rw [scanStr_bs_quote, scanStr_bs '\\' (by decide), scanStr_bs_quote]
                simp [pre_pre]
              · rw [scanStr_bs '\\' (by decide)]
                simp [pre_pre]
          · rw [scanStr_bs x hx]
            simp [pre_pre]
      · simp only [List.cons_append, List.nil_append]
        exact scanStr_bs_quote tail
      · simp only [List.cons_append, List.nil_append]
        rw [scanStr_bs '/' (by decide), scanStr_plain '/' (by decide) (by decide)]
        simp [pre_pre]
    · rename_i h1
      have two (x : Char) (hx1 : x ≠ '"') (hx2 : x ≠ '\\') :
          scanStr (['\\', x] ++ tail) = pre ['\\', x] (scanStr tail) := by
        simp only [List.cons_append, List.nil_append]
        rw [scanStr_bs x hx1, scanStr_plain x hx1 hx2]
        simp [pre_pre]
      split
      · exact two 'b' (by decide) (by decide)
      · split
        · exact two 'f' (by decide) (by decide)
        · split
          · exact two 'n' (by decide) (by decide)
          · split
            · exact two 'r' (by decide) (by decide)
            · split
              · exact two 't' (by decide) (by decide)
              · split
                · exact scanStr_encodeRune c tail
                · exact hplain (fun e => h1 (Or.inr (Or.inl e))) (fun e => h1 (Or.inl e))

theorem escChar_head (t : Esc) (c : Char) : (escChar t c).head? ≠ some '"' := by
  intro h
  have hs := scanStr_escChar t c ['x', '"'] (by intro _ _; simp)
  have h2 : scanStr ['x', '"'] = some (['x'], []) := by simp [scanStr, scanStrAux, pre]
  rw [h2] at hs
  cases he : escChar t c with
  | nil => rw [he] at h; simp at h
  | cons y ys =>
    rw [he] at h hs
    simp only [List.head?_cons, Option.some.injEq] at h
    subst h
    cases ys <;> simp [scanStr, scanStrAux, pre] at hs

theorem escape_head (t : Esc) (s : List Char) (tail : List Char) (hs : s ≠ []) :
    (escape t s ++ tail).head? ≠ some '"' := by
  cases s with
  | nil => exact absurd rfl hs
  | cons c cs =>
    simp only [escape, List.append_assoc]
    have := escChar_head t c
    have hl := escChar_length_pos t c
    cases he : escChar t c with
    | nil => rw [he] at hl; simp at hl
    | cons y ys => rw [he] at this; simpa using this

/-- the scanner finds the end of an escaped string — unless the `Escape` type is used and the text
    ends in a backslash -/
theorem scanStr_escape (t : Esc) (s : List Char) (rest : List Char)
    (h : t = .backslash → s.getLast? ≠ some '\\') :
    scanStr (escape t s ++ '"' :: rest) = some (escape t s, rest) := by
  induction s with
  | nil =>
    cases rest <;> simp [escape, scanStr, scanStrAux]
  | cons c cs ih =>
    simp only [escape, List.append_assoc]
    rw [scanStr_escChar t c _ (by
      intro ht hc
      cases cs with
      | nil => exact absurd (by simp [hc]) (h ht)
      | cons d ds => exact escape_head t (d :: ds) _ (by simp))]
    rw [ih (by
      intro ht
      cases cs with
      | nil => simp
      | cons d ds =>
        have := h ht
        simpa [List.getLast?_cons_cons] using this)]
    simp [pre]

end Csvq.Json
