/-
  Lemmas for Csvq.Model.FixedAuto (used by Csvq.Props.C02): what `Delimiter.Delimit` finds in a text whose
  columns begin at the same byte in every line.

  Part 1 (this section) is about the blank runs only: every line has the blank runs
      ⟨e₀+1, q₀⟩, ⟨e₁+1, q₁⟩, …, ⟨e_{n-1}+1, OutOfLine⟩
  with the ENDS q₀ < q₁ < … shared by all lines (the byte in front of the next column) and the starts
  eⱼ+1 (eⱼ = last byte of the value in column j) varying from line to line.  Then the positions found are the
  column-wise maxima of the eⱼ.
-/
import Csvq.Model.FixedAuto
import Csvq.Lemmas.Fixed
namespace Csvq.Fixed
open Csvq.Csv (LB Err DCell DTable endingChars nullCell autoNames autofill)

/-! ## blank runs of one line -/

def mkSpaces : List Int → List Int → List Space
  | [], _ => []
  | [e], _ => [⟨e + 1, -1⟩]
  | e :: e2 :: es, q :: qs => ⟨e + 1, q⟩ :: mkSpaces (e2 :: es) qs
  | _ :: _ :: _, [] => []

/-- `lo ≤ e₀`, `e₀ + 1 ≤ q₀`, the next value begins right after `q₀`, … ; one more value than shared ends -/
def Geo : Int → List Int → List Int → Prop
  | lo, [e], [] => lo ≤ e
  | lo, e :: e2 :: es, q :: qs => lo ≤ e ∧ e + 1 ≤ q ∧ Geo (q + 1) (e2 :: es) qs
  | _, _, _ => False

/-- blank runs that lie entirely in front of `x` -/
def Dead (pre : List Space) (x : Int) : Prop := ∀ s ∈ pre, s.start ≤ s.fin ∧ s.fin < x

theorem nextEnd_dead (pre post : List Space) (x pos : Int) (h : Dead pre x) (hp : x ≤ pos) :
    nextEnd (pre ++ post) pos = nextEnd post pos := by
  induction pre with
  | nil => rfl
  | cons s pre ih =>
    have hs := h s (by simp)
    have : ¬ pos ≤ s.fin := by omega
    simp only [List.cons_append, nextEnd, this, if_false]
    exact ih (fun t ht => h t (by simp [ht]))

theorem status_dead (pre post : List Space) (x pos : Int) (h : Dead pre x) (hp : x ≤ pos) :
    status (pre ++ post) pos = status post pos := by
  induction pre with
  | nil => rfl
  | cons s pre ih =>
    have hs := h s (by simp)
    have h1 : ¬ pos = s.start - 1 := by omega
    have h2 : ¬ pos < s.start := by omega
    have h3 : ¬ pos = s.fin := by omega
    have h4 : ¬ (s.start ≤ pos ∧ pos < s.fin) := by omega
    simp only [List.cons_append, status, h1, h2, h3, h4, if_false]
    exact ih (fun t ht => h t (by simp [ht]))

theorem prevStartFrom_dead (pre post : List Space) (x pos d : Int) (h : Dead pre x) (hp : x ≤ pos) :
    ∃ d', prevStartFrom d (pre ++ post) pos = prevStartFrom d' post pos := by
  induction pre generalizing d with
  | nil => exact ⟨d, rfl⟩
  | cons s pre ih =>
    have hs := h s (by simp)
    have : ¬ pos < s.start := by omega
    simp only [List.cons_append, prevStartFrom, this, if_false]
    exact ih s.start (fun t ht => h t (by simp [ht]))

theorem lineLen_append (pre : List Space) (s : Space) : lineLen (pre ++ [s]) = if s.fin = -1 then s.start - 1 else 0 := by
  simp [lineLen]

/-! ## folds over the lines -/

def imax (a b : Int) : Int := if a < b then b else a

def fmax (a : Int) (l : List Int) : Int := l.foldl imax a

theorem le_imax_left (a b : Int) : a ≤ imax a b := by unfold imax; split <;> omega
theorem le_imax_right (a b : Int) : b ≤ imax a b := by unfold imax; split <;> omega

theorem fmax_ge_init (a : Int) (l : List Int) : a ≤ fmax a l := by
  induction l generalizing a with
  | nil => simp [fmax]
  | cons x xs ih =>
    simp only [fmax, List.foldl_cons] at ih ⊢
    exact Int.le_trans (le_imax_left a x) (ih (imax a x))

theorem fmax_ge_mem (a : Int) (l : List Int) (x : Int) (h : x ∈ l) : x ≤ fmax a l := by
  induction l generalizing a with
  | nil => simp at h
  | cons y ys ih =>
    simp only [fmax, List.foldl_cons]
    rcases List.mem_cons.mp h with rfl | h
    · have := fmax_ge_init (imax a x) ys
      simp only [fmax] at this
      exact Int.le_trans (le_imax_right a x) this
    · exact ih (imax a y) h

theorem fmax_mem_or_init (a : Int) (l : List Int) : fmax a l = a ∨ fmax a l ∈ l := by
  induction l generalizing a with
  | nil => simp [fmax]
  | cons y ys ih =>
    simp only [fmax, List.foldl_cons]
    rcases ih (imax a y) with h | h
    · simp only [fmax] at h
      rw [h]
      unfold imax
      split
      · exact Or.inr (by simp)
      · exact Or.inl rfl
    · exact Or.inr (by simp only [fmax] at h; simp [h])

theorem fmax_shift (a : Int) (l : List Int) : fmax (a + 1) (l.map (· + 1)) = fmax a l + 1 := by
  induction l generalizing a with
  | nil => simp [fmax]
  | cons y ys ih =>
    simp only [fmax, List.map_cons, List.foldl_cons] at ih ⊢
    have : imax (a + 1) (y + 1) = imax a y + 1 := by
      unfold imax; split <;> split <;> omega
    rw [this, ih]

theorem fmax_init_irrelevant (a b : Int) (l : List Int) (hne : l ≠ []) (ha : ∀ x ∈ l, a ≤ x) (hb : ∀ x ∈ l, b ≤ x) :
    fmax a l = fmax b l := by
  cases l with
  | nil => exact absurd rfl hne
  | cons y ys =>
    simp only [fmax, List.foldl_cons]
    have h1 : imax a y = y := by unfold imax; have := ha y (by simp); split <;> omega
    have h2 : imax b y = y := by unfold imax; have := hb y (by simp); split <;> omega
    rw [h1, h2]

/-! ## the functions of `TableSpaces` on such a table -/

theorem nextSpaceEnd_all (t : List (List Space)) (pos q : Int) (h : ∀ rs ∈ t, nextEnd rs pos = q) (hq : q ≠ -1)
    (hne : t ≠ []) : nextSpaceEnd t pos = q := by
  unfold nextSpaceEnd
  have key : ∀ (t : List (List Space)) (m : Int), (∀ rs ∈ t, nextEnd rs pos = q) → (m = -1 ∨ m = q) →
      t.foldl (fun m rs => let e := nextEnd rs pos; if e ≠ -1 then (if m = -1 ∨ e < m then e else m) else m) m
        = if t = [] then m else q := by
    intro t
    induction t with
    | nil => intro m _ _; rfl
    | cons rs t ih =>
      intro m h hm
      simp only [List.foldl_cons, h rs (by simp), ne_eq, hq, not_false_eq_true, if_true, reduceCtorEq, if_false]
      have hstep : (if m = -1 ∨ q < m then q else m) = q := by
        rcases hm with rfl | rfl
        · simp
        · simp
      rw [hstep, ih q (fun x hx => h x (by simp [hx])) (Or.inr rfl)]
      split <;> rfl
  rw [key t (-1) h (Or.inl rfl)]
  simp [hne]

theorem nextSpaceEnd_none (t : List (List Space)) (pos : Int) (h : ∀ rs ∈ t, nextEnd rs pos = -1) :
    nextSpaceEnd t pos = -1 := by
  unfold nextSpaceEnd
  induction t with
  | nil => rfl
  | cons rs t ih =>
    simp only [List.foldl_cons, h rs (by simp), ne_eq, not_true_eq_false, if_false]
    exact ih (fun x hx => h x (by simp [hx]))

theorem prevSpaceStart_fmax {α : Type} (lines : List α) (g : α → List Space) (k : α → Int) (pos : Int)
    (h : ∀ l ∈ lines, prevStart (g l) pos = k l ∧ k l ≠ -1) :
    prevSpaceStart (lines.map g) pos = fmax (-1) (lines.map k) := by
  unfold prevSpaceStart fmax
  have key : ∀ (lines : List α) (m : Int), (∀ l ∈ lines, prevStart (g l) pos = k l ∧ k l ≠ -1) →
      (lines.map g).foldl (fun m rs => let s := prevStart rs pos; if s ≠ -1 then (if m < s then s else m) else m) m
        = (lines.map k).foldl imax m := by
    intro lines
    induction lines with
    | nil => intro m _; rfl
    | cons l ls ih =>
      intro m h
      obtain ⟨h1, h2⟩ := h l (by simp)
      simp only [List.map_cons, List.foldl_cons, h1, ne_eq, h2, not_false_eq_true, if_true]
      exact ih _ (fun x hx => h x (by simp [hx]))
  exact key lines (-1) h

theorem tableLen_fmax {α : Type} (lines : List α) (g : α → List Space) (k : α → Int)
    (h : ∀ l ∈ lines, lineLen (g l) = k l) : tableLen (lines.map g) = fmax 0 (lines.map k) := by
  unfold tableLen fmax
  generalize (0 : Int) = m
  induction lines generalizing m with
  | nil => rfl
  | cons l ls ih =>
    simp only [List.map_cons, List.foldl_cons, h l (by simp)]
    have : (if m ≤ k l then k l else m) = imax m (k l) := by
      unfold imax; split <;> split <;> omega
    rw [this]
    exact ih (fun x hx => h x (by simp [hx])) _

theorem countStatus_clean (t : List (List Space)) (pos : Int)
    (h : ∀ rs ∈ t, (status rs pos = .endOfValue ∧ status rs (pos + 1) ≠ .out) ∨ status rs pos = .inSpace) :
    (countStatus t pos).inValue = 0 ∧ (countStatus t pos).endOfLine = 0 ∧ (countStatus t pos).outOfLine = 0 := by
  unfold countStatus
  have key : ∀ (t : List (List Space)) (c : Counts),
      (∀ rs ∈ t, (status rs pos = .endOfValue ∧ status rs (pos + 1) ≠ .out) ∨ status rs pos = .inSpace) →
      c.inValue = 0 ∧ c.endOfLine = 0 ∧ c.outOfLine = 0 →
      (t.foldl (countOne pos) c).inValue = 0 ∧ (t.foldl (countOne pos) c).endOfLine = 0 ∧
        (t.foldl (countOne pos) c).outOfLine = 0 := by
    intro t
    induction t with
    | nil => intro c _ hc; exact hc
    | cons rs t ih =>
      intro c h hc
      simp only [List.foldl_cons]
      apply ih _ (fun x hx => h x (by simp [hx]))
      rcases h rs (by simp) with ⟨h1, h2⟩ | h1
      · simp only [countOne, h1, h2, if_false]
        exact hc
      · simp only [countOne, h1]
        exact hc
  exact key t {} h ⟨rfl, rfl, rfl⟩

/-! ## one line, seen at the first of its remaining columns -/

theorem mkSpaces_cons2 (e e2 : Int) (es qs : List Int) (q : Int) :
    mkSpaces (e :: e2 :: es) (q :: qs) = ⟨e + 1, q⟩ :: mkSpaces (e2 :: es) qs := rfl

/-- the first blank run of what remains begins after `q` -/
theorem mkSpaces_head_start (lo : Int) (e2 : Int) (es qs : List Int) (h : Geo lo (e2 :: es) qs) :
    ∃ s rest, mkSpaces (e2 :: es) qs = s :: rest ∧ s.start = e2 + 1 := by
  cases es with
  | nil => exact ⟨_, [], rfl, rfl⟩
  | cons e3 es =>
    cases qs with
    | nil => simp [Geo] at h
    | cons q2 qs => exact ⟨_, _, rfl, rfl⟩

theorem line_nextEnd (pre : List Space) (e e2 : Int) (es qs : List Int) (q lo lp : Int) (hd : Dead pre lp)
    (hlp : lp ≤ q) : nextEnd (pre ++ mkSpaces (e :: e2 :: es) (q :: qs)) lp = q := by
  rw [nextEnd_dead pre _ lp lp hd (Int.le_refl _), mkSpaces_cons2]
  simp [nextEnd, hlp]

theorem line_prevStart (pre : List Space) (e e2 : Int) (es qs : List Int) (q lo lp : Int) (hd : Dead pre lp)
    (hlp : lp ≤ q) (hg : Geo lo (e :: e2 :: es) (q :: qs)) :
    prevStart (pre ++ mkSpaces (e :: e2 :: es) (q :: qs)) q = e + 1 := by
  simp only [Geo] at hg
  obtain ⟨_, h2, h3⟩ := hg
  unfold prevStart
  obtain ⟨d', hd'⟩ := prevStartFrom_dead pre (mkSpaces (e :: e2 :: es) (q :: qs)) lp q (-1) hd hlp
  rw [hd', mkSpaces_cons2]
  obtain ⟨s, rest, hs, hst⟩ := mkSpaces_head_start (q + 1) e2 es qs h3
  have he2 : q + 1 ≤ e2 := by
    cases es with
    | nil => cases qs with
      | nil => simpa [Geo] using h3
      | cons _ _ => simp [Geo] at h3
    | cons e3 es => cases qs with
      | nil => simp [Geo] at h3
      | cons q2 qs => simp only [Geo] at h3; exact h3.1
  have n1 : ¬ q < e + 1 := by omega
  have n2 : q < s.start := by omega
  simp only [prevStartFrom, n1, if_false, hs, n2, if_true]

/-- at a position `m` between the end of the value and the shared end of the blank run -/
theorem line_status (pre : List Space) (e e2 : Int) (es qs : List Int) (q lo lp m : Int) (hd : Dead pre lp)
    (hg : Geo lo (e :: e2 :: es) (q :: qs)) (hlo : lp ≤ lo) (h1 : e ≤ m) (h2 : m + 1 ≤ q) :
    (status (pre ++ mkSpaces (e :: e2 :: es) (q :: qs)) m = if e = m then .endOfValue else .inSpace) ∧
    status (pre ++ mkSpaces (e :: e2 :: es) (q :: qs)) (m + 1) ≠ .out ∧
    status (pre ++ mkSpaces (e :: e2 :: es) (q :: qs)) (m + 1) ≠ .inValue := by
  simp only [Geo] at hg
  obtain ⟨g1, g2, _⟩ := hg
  rw [status_dead pre _ lp m hd (by omega), status_dead pre _ lp (m + 1) hd (by omega), mkSpaces_cons2]
  refine ⟨?_, ?_, ?_⟩
  · by_cases hem : e = m
    · subst hem
      simp [status]
    · have a1 : ¬ m = e + 1 - 1 := by omega
      have a2 : ¬ m < e + 1 := by omega
      have a3 : ¬ m = q := by omega
      have a4 : e + 1 ≤ m ∧ m < q := by omega
      have hem' : ¬ m = e := fun h => hem h.symm
      simp [status, a2, a3, a4, hem, hem']
  · have a1 : ¬ m + 1 = e + 1 - 1 := by omega
    have a2 : ¬ m + 1 < e + 1 := by omega
    simp only [status, a1, a2, if_false]
    by_cases a3 : m + 1 = q
    · simp [a3]
    · have a4 : e + 1 ≤ m + 1 ∧ m + 1 < q := by omega
      simp [a3, a4]
  · have a1 : ¬ m + 1 = e + 1 - 1 := by omega
    have a2 : ¬ m + 1 < e + 1 := by omega
    simp only [status, a1, a2, if_false]
    by_cases a3 : m + 1 = q
    · simp [a3]
    · have a4 : e + 1 ≤ m + 1 ∧ m + 1 < q := by omega
      simp [a3, a4]

/-! ## `Delimit` -/

theorem searchPosition_clean (nh : Bool) (t : List (List Space)) (ps : List Int) (e m : Int)
    (hb : prevSpaceStart t e - 1 = m) (hl : lastPos ps < m) (hh : inHeaderValue t m = false)
    (hc : (countStatus t m).inValue = 0 ∧ (countStatus t m).endOfLine = 0 ∧ (countStatus t m).outOfLine = 0) :
    searchPosition nh t ps e = m :: ps := by
  unfold searchPosition
  simp only [hb]
  have n1 : ¬ m ≤ lastPos ps := by omega
  obtain ⟨c1, c2, c3⟩ := hc
  simp [n1, hh, c1, c2, c3]

def colMaxes : Nat → List (List Int) → List Int
  | 0, _ => []
  | k + 1, ess => fmax 0 (ess.map (·.headD 0)) :: colMaxes k (ess.map List.tail)

theorem geo_nil (lo : Int) (es : List Int) (h : Geo lo es []) : ∃ e, es = [e] ∧ lo ≤ e := by
  cases es with
  | nil => simp [Geo] at h
  | cons e es =>
    cases es with
    | nil => exact ⟨e, rfl, by simpa [Geo] using h⟩
    | cons e2 es => simp [Geo] at h

theorem geo_cons (lo q : Int) (es qs : List Int) (h : Geo lo es (q :: qs)) :
    ∃ e e2 es', es = e :: e2 :: es' ∧ lo ≤ e ∧ e + 1 ≤ q ∧ Geo (q + 1) (e2 :: es') qs := by
  cases es with
  | nil => simp [Geo] at h
  | cons e es =>
    cases es with
    | nil => simp [Geo] at h
    | cons e2 es => simp only [Geo] at h; exact ⟨e, e2, es, rfl, h⟩

theorem delimitLoop_geo (nh : Bool) :
    ∀ (qs : List Int) (lines : List (List Space × List Int)) (lo lp : Int) (ps : List Int) (fuel : Nat),
      lines ≠ [] → (∀ l ∈ lines, Dead l.1 lp ∧ Geo lo l.2 qs) → lastPos ps < lo → 0 ≤ lp → lp ≤ lo → 1 ≤ lo →
      qs.length + 1 ≤ fuel →
      delimitLoop nh (lines.map fun l => l.1 ++ mkSpaces l.2 qs) fuel lp ps
        = (colMaxes (qs.length + 1) (lines.map (·.2))).reverse ++ ps := by
  intro qs
  induction qs with
  | nil =>
    intro lines lo lp ps fuel hne hl _ hlp0 _ _ hfuel
    obtain ⟨f, rfl⟩ : ∃ f, fuel = f + 1 := ⟨fuel - 1, by simp at hfuel; omega⟩
    have hline : ∀ l ∈ lines, ∃ e, l.2 = [e] ∧ lo ≤ e := fun l hm => geo_nil lo l.2 (hl l hm).2
    have hne1 : ∀ rs ∈ (lines.map fun l => l.1 ++ mkSpaces l.2 []), nextEnd rs lp = -1 := by
      intro rs hrs
      obtain ⟨l, hm, rfl⟩ := List.mem_map.mp hrs
      obtain ⟨e, he, _⟩ := hline l hm
      rw [nextEnd_dead l.1 _ lp lp (hl l hm).1 (Int.le_refl _), he]
      have : ¬ lp ≤ -1 := by omega
      simp [mkSpaces, nextEnd, this]
    have hlen := tableLen_fmax lines (fun l => l.1 ++ mkSpaces l.2 []) (fun l => l.2.headD 0) (by
      intro l hm
      obtain ⟨e, he, _⟩ := hline l hm
      simp [he, mkSpaces, lineLen_append])
    simp only [delimitLoop, nextSpaceEnd_none _ lp hne1, if_true, hlen, List.length_nil, Nat.zero_add, colMaxes,
      List.map_map, List.reverse_cons, List.reverse_nil, List.nil_append, List.cons_append]
    rfl
  | cons q qs ih =>
    intro lines lo lp ps fuel hne hl hlast hlp0 hlplo hlo1 hfuel
    obtain ⟨f, rfl⟩ : ∃ f, fuel = f + 1 := ⟨fuel - 1, by simp at hfuel; omega⟩
    have hline : ∀ l ∈ lines, ∃ e e2 es', l.2 = e :: e2 :: es' ∧ lo ≤ e ∧ e + 1 ≤ q ∧ Geo (q + 1) (e2 :: es') qs :=
      fun l hm => geo_cons lo q l.2 qs (hl l hm).2
    -- the column maximum
    have hheads_ne : lines.map (fun l => l.2.headD 0) ≠ [] := by simpa using hne
    have hheads : ∀ x ∈ lines.map (fun l => l.2.headD 0), lo ≤ x ∧ x + 1 ≤ q := by
      intro x hx
      obtain ⟨l, hm, rfl⟩ := List.mem_map.mp hx
      obtain ⟨e, e2, es', he, h1, h2, _⟩ := hline l hm
      simp [he, h1, h2]
    let m := fmax 0 (lines.map fun l => l.2.headD 0)
    have hm_mem : m ∈ lines.map (fun l => l.2.headD 0) := by
      rcases fmax_mem_or_init 0 (lines.map fun l => l.2.headD 0) with h | h
      · exfalso
        cases hx : lines.map (fun l => l.2.headD 0) with
        | nil => exact hheads_ne hx
        | cons x xs =>
          have h1 := fmax_ge_mem 0 (lines.map fun l => l.2.headD 0) x (by rw [hx]; simp)
          have h2 := (hheads x (by rw [hx]; simp)).1
          rw [h] at h1
          omega
      · exact h
    obtain ⟨hm_lo, hm_q⟩ := hheads m hm_mem
    -- every line, at this round
    have hq_ne : q ≠ -1 := by omega
    have hne1 : ∀ rs ∈ (lines.map fun l => l.1 ++ mkSpaces l.2 (q :: qs)), nextEnd rs lp = q := by
      intro rs hrs
      obtain ⟨l, hm, rfl⟩ := List.mem_map.mp hrs
      obtain ⟨e, e2, es', he, h1, h2, _⟩ := hline l hm
      rw [he]
      exact line_nextEnd l.1 e e2 es' qs q lo lp (hl l hm).1 (by omega)
    have hprev : prevSpaceStart (lines.map fun l => l.1 ++ mkSpaces l.2 (q :: qs)) q - 1 = m := by
      rw [prevSpaceStart_fmax lines _ (fun l => l.2.headD 0 + 1) q (by
        intro l hm
        obtain ⟨e, e2, es', he, h1, h2, h3⟩ := hline l hm
        have hg := (hl l hm).2
        rw [he] at hg ⊢
        exact ⟨line_prevStart l.1 e e2 es' qs q lo lp (hl l hm).1 (by omega) hg, by simp; omega⟩)]
      have e1 : (lines.map fun l => l.2.headD 0 + 1) = (lines.map fun l => l.2.headD 0).map (· + 1) := by
        simp [List.map_map, Function.comp_def]
      have e2 : fmax (-1) ((lines.map fun l => l.2.headD 0).map (· + 1)) = fmax (-2) (lines.map fun l => l.2.headD 0) + 1 := by
        have := fmax_shift (-2) (lines.map fun l => l.2.headD 0)
        exact this
      rw [e1, e2, fmax_init_irrelevant (-2) 0 _ hheads_ne (fun x hx => by have := (hheads x hx).1; omega)
        (fun x hx => by have := (hheads x hx).1; omega)]
      show fmax 0 _ + 1 - 1 = m
      omega
    have hstat : ∀ l ∈ lines,
        (status (l.1 ++ mkSpaces l.2 (q :: qs)) m = if l.2.headD 0 = m then Status.endOfValue else Status.inSpace) ∧
        status (l.1 ++ mkSpaces l.2 (q :: qs)) (m + 1) ≠ Status.out ∧
        status (l.1 ++ mkSpaces l.2 (q :: qs)) (m + 1) ≠ Status.inValue := by
      intro l hm
      obtain ⟨e, e2, es', he, h1, h2, h3⟩ := hline l hm
      have hg := (hl l hm).2
      have hem : e ≤ m := by
        have := fmax_ge_mem 0 (lines.map fun l => l.2.headD 0) e (List.mem_map.mpr ⟨l, hm, by simp [he]⟩)
        exact this
      rw [he] at hg ⊢
      simpa using line_status l.1 e e2 es' qs q lo lp m (hl l hm).1 hg hlplo hem hm_q
    have hcount := countStatus_clean (lines.map fun l => l.1 ++ mkSpaces l.2 (q :: qs)) m (by
      intro rs hrs
      obtain ⟨l, hm, rfl⟩ := List.mem_map.mp hrs
      obtain ⟨s1, s2, _⟩ := hstat l hm
      by_cases hh : l.2.headD 0 = m
      · rw [if_pos hh] at s1; exact Or.inl ⟨s1, s2⟩
      · rw [if_neg hh] at s1; exact Or.inr s1)
    have hhead : inHeaderValue (lines.map fun l => l.1 ++ mkSpaces l.2 (q :: qs)) m = false := by
      cases hls : lines with
      | nil => exact absurd hls hne
      | cons l ls =>
        obtain ⟨_, _, s3⟩ := hstat l (by rw [hls]; simp)
        simp [inHeaderValue, s3]
    have hsearch := searchPosition_clean nh _ ps q m hprev (by omega) hhead hcount
    -- the next round
    have hnext : (lines.map fun l => l.1 ++ mkSpaces l.2 (q :: qs))
        = ((lines.map fun l => (l.1 ++ [⟨l.2.headD 0 + 1, q⟩], l.2.tail)).map fun l => l.1 ++ mkSpaces l.2 qs) := by
      rw [List.map_map]
      apply List.map_congr_left
      intro l hm
      obtain ⟨e, e2, es', he, _⟩ := hline l hm
      simp [he, mkSpaces_cons2]
    have hih := ih (lines.map fun l => (l.1 ++ [⟨l.2.headD 0 + 1, q⟩], l.2.tail)) (q + 1) (q + 1) (m :: ps) f
      (by simpa using hne)
      (by
        intro l' hm'
        obtain ⟨l, hm, rfl⟩ := List.mem_map.mp hm'
        obtain ⟨e, e2, es', he, h1, h2, h3⟩ := hline l hm
        refine ⟨?_, by simpa [he] using h3⟩
        intro s hs
        rcases List.mem_append.mp hs with h | h
        · have := (hl l hm).1 s h
          omega
        · simp only [List.mem_singleton] at h
          subst h
          simp only [he, List.headD_cons]
          omega)
      (by simp only [lastPos]; omega) (by omega) (Int.le_refl _) (by omega) (by simp at hfuel ⊢; omega)
    simp only [delimitLoop, nextSpaceEnd_all _ lp q hne1 hq_ne (by simpa using hne), hq_ne, if_false, hsearch]
    rw [hnext, hih]
    simp only [colMaxes, List.length_cons, List.map_map, List.reverse_cons, List.append_assoc, List.cons_append,
      List.nil_append]
    rfl

/-! ## Part 2: what the writer with automatic positions writes -/

def leadPad (wd : Char → Nat) (f : Field) (w : Nat) : Nat :=
  match f.align with
  | .left => 0
  | .right => w - byteSize wd f.contents
  | .center => (w - byteSize wd f.contents) / 2

def trailPad (wd : Char → Nat) (f : Field) (w : Nat) : Nat := w - byteSize wd f.contents - leadPad wd f w

def fieldText (wd : Char → Nat) (f : Field) (w : Nat) : List Char :=
  pad (leadPad wd f w) ++ f.contents ++ pad (trailPad wd f w)

theorem addField_eq (wd : Char → Nat) (f : Field) (w : Nat) (h : byteSize wd f.contents ≤ w) :
    addField wd f w = .ok (fieldText wd f w) := by
  unfold addField fieldText trailPad leadPad
  have : ¬ w < byteSize wd f.contents := by omega
  simp only [this, if_false]
  cases f.align <;> simp [pad]

theorem leadPad_le (wd : Char → Nat) (f : Field) (w : Nat) : leadPad wd f w ≤ w - byteSize wd f.contents := by
  unfold leadPad
  cases f.align <;> simp <;> omega

/-- the line of one record: the fields padded to the widths, one blank between them -/
def lineOf (wd : Char → Nat) : Bool → List Nat → List Field → List Char
  | _, [], _ => []
  | _, _ :: _, [] => []
  | first, w :: ws, f :: fs => (if first then [] else [' ']) ++ (fieldText wd f w ++ lineOf wd false ws fs)

/-- every width is positive and every text fits -/
def AllFit (wd : Char → Nat) : List Nat → List Field → Prop
  | [], [] => True
  | w :: ws, f :: fs => 1 ≤ w ∧ byteSize wd f.contents ≤ w ∧ AllFit wd ws fs
  | _, _ => False

theorem writeFields_lineOf (wd : Char → Nat) :
    ∀ (ws : List Nat) (fs : List Field) (first : Bool) (start : Nat) (txt : List Char), fs.length = ws.length →
      writeFields wd true first start (positionsOf start ws) fs = .ok txt →
      txt = lineOf wd first ws fs ∧ AllFit wd ws fs := by
  intro ws
  induction ws with
  | nil =>
    intro fs first start txt hlen h
    cases fs with
    | nil => simp only [positionsOf, writeFields] at h; injection h with h; subst h; exact ⟨rfl, trivial⟩
    | cons f fs => simp at hlen
  | cons w ws ih =>
    intro fs first start txt hlen h
    cases fs with
    | nil => simp at hlen
    | cons f fs =>
      simp only [positionsOf] at h
      unfold writeFields at h
      by_cases hle : start + w ≤ start
      · simp [hle] at h
      · simp only [hle, if_false, List.tail_cons, Bool.true_and] at h
        have hw1 : 1 ≤ w := by omega
        have hsub : start + w - start = w := by omega
        rw [hsub] at h
        cases ha : addField wd f w with
        | error e => rw [ha] at h; simp at h
        | ok s =>
          rw [ha] at h
          simp only at h
          have hfit : byteSize wd f.contents ≤ w := (addField_isOk wd f w).mp ⟨s, ha⟩
          rw [addField_eq wd f w hfit] at ha
          injection ha with ha
          subst ha
          cases hr : writeFields wd true false (start + w) (positionsOf (start + w) ws) fs with
          | error e => rw [hr] at h; simp at h
          | ok r =>
            rw [hr] at h
            simp only at h
            injection h with h
            obtain ⟨h1, h2⟩ := ih fs false (start + w) r (by simpa using hlen) hr
            subst h1
            refine ⟨?_, hw1, hfit, h2⟩
            rw [← h]
            cases first <;> simp [lineOf]

/-! ## the blank runs of such a line -/

theorem lineScan_append (wd : Char → Nat) (a b : List Char) (σ : LS) :
    lineScan wd σ (a ++ b) = lineScan wd (lineScan wd σ a) b := by
  induction a generalizing σ with
  | nil => rfl
  | cons c cs ih => simp only [List.cons_append, lineScan]; exact ih _

def NoSpace (s : List Char) : Prop := ∀ c ∈ s, isSpace c = false

/-- the scan stands at byte `p` (1-based, next to read), the last value ended at `g - 1`, the blank runs found
    so far are `S` -/
def ScanInv (σ : LS) (p g : Int) (S : List Space) : Prop :=
  σ.linePos = p ∧ σ.spaces = S ∧ 1 < g ∧
  ((g < p ∧ σ.inSpace = true ∧ σ.startPos = g) ∨ (g = p ∧ σ.inSpace = false))

theorem lineEnd_inv (σ : LS) (p g : Int) (S : List Space) (h : ScanInv σ p g S) :
    lineEnd σ = S.reverse ++ [⟨g, -1⟩] := by
  obtain ⟨h1, h2, h3, h4⟩ := h
  unfold lineEnd
  rcases h4 with ⟨_, hb, hs⟩ | ⟨hg, hb⟩
  · simp [hb, hs, h2, h3]
  · simp [hb, h1, h2, ← hg, h3]

theorem scan_nospace (wd : Char → Nat) (c : List Char) (hc : NoSpace c) (σ : LS) (hb : σ.inSpace = false) :
    lineScan wd σ c = { σ with linePos := σ.linePos + (byteSize wd c : Int) } := by
  induction c generalizing σ with
  | nil => simp [lineScan, byteSize]
  | cons x xs ih =>
    have hx : isSpace x = false := hc x (by simp)
    simp only [lineScan]
    have hstep : lineStep wd σ x = { σ with linePos := σ.linePos + (wd x : Int) } := by
      simp [lineStep, hx, hb]
    rw [hstep, ih (fun y hy => hc y (by simp [hy])) ⟨σ.linePos + (wd x : Int), σ.startPos, σ.inSpace, σ.spaces⟩ hb]
    simp only [byteSize, Int.natCast_add]
    congr 1
    omega

theorem scan_pad_in (wd : Char → Nat) (hw : wd ' ' = 1) (k : Nat) (σ : LS) (hb : σ.inSpace = true) :
    lineScan wd σ (pad k) = { σ with linePos := σ.linePos + (k : Int) } := by
  induction k generalizing σ with
  | zero => simp [pad, lineScan]
  | succ k ih =>
    have hp : pad (k + 1) = ' ' :: pad k := by simp [pad, List.replicate_succ]
    rw [hp]
    simp only [lineScan]
    have hstep : lineStep wd σ ' ' = { σ with linePos := σ.linePos + 1 } := by
      simp [lineStep, isSpace_blank, hb, hw]
    rw [hstep, ih ⟨σ.linePos + 1, σ.startPos, σ.inSpace, σ.spaces⟩ hb]
    simp only [Int.natCast_add, Int.natCast_one]
    congr 1
    omega

theorem scan_pad_out (wd : Char → Nat) (hw : wd ' ' = 1) (k : Nat) (σ : LS) (hb : σ.inSpace = false) :
    lineScan wd σ (pad (k + 1)) = { σ with linePos := σ.linePos + ((k + 1 : Nat) : Int), inSpace := true, startPos := σ.linePos } := by
  have hp : pad (k + 1) = ' ' :: pad k := by simp [pad, List.replicate_succ]
  rw [hp]
  simp only [lineScan]
  have hstep : lineStep wd σ ' ' = { σ with linePos := σ.linePos + 1, inSpace := true, startPos := σ.linePos } := by
    simp [lineStep, isSpace_blank, hb, hw]
  rw [hstep, scan_pad_in wd hw k _ rfl]
  simp only [Int.natCast_add, Int.natCast_one]
  congr 1
  omega

/-- blanks, then a value, then blanks: one more blank run is recorded (unless it starts the line) -/
theorem scan_column (wd : Char → Nat) (hw : wd ' ' = 1) (x : Nat) (c : List Char) (y : Nat) (hc : NoSpace c)
    (hne : c ≠ []) (σ : LS) (p g : Int) (S : List Space) (hinv : ScanInv σ p g S) (hx : 1 ≤ x) :
    ScanInv (lineScan wd σ (pad x ++ (c ++ pad y))) (p + x + byteSize wd c + y) (p + x + byteSize wd c)
      (⟨g, p + x - 1⟩ :: S) := by
  obtain ⟨h1, h2, h3, h4⟩ := hinv
  -- after the blanks: in a blank run that began at g
  have hA : ∃ σ1, lineScan wd σ (pad x) = σ1 ∧ σ1.linePos = p + x ∧ σ1.spaces = S ∧ σ1.inSpace = true ∧ σ1.startPos = g := by
    rcases h4 with ⟨_, hb, hs⟩ | ⟨hg, hb⟩
    · exact ⟨_, scan_pad_in wd hw x σ hb, by simp [h1], h2, hb, hs⟩
    · obtain ⟨x', rfl⟩ : ∃ x', x = x' + 1 := ⟨x - 1, by omega⟩
      exact ⟨_, scan_pad_out wd hw x' σ hb, by simp [h1], h2, rfl, by simp [h1, hg]⟩
  obtain ⟨σ1, e1, a1, a2, a3, a4⟩ := hA
  -- the first character of the value closes the blank run
  obtain ⟨c0, cs, rfl⟩ : ∃ c0 cs, c = c0 :: cs := by
    cases c with
    | nil => exact absurd rfl hne
    | cons c0 cs => exact ⟨c0, cs, rfl⟩
  have hc0 : isSpace c0 = false := hc c0 (by simp)
  have hstep : lineStep wd σ1 c0 = ⟨p + x + (wd c0 : Int), g, false, ⟨g, p + x - 1⟩ :: S⟩ := by
    simp [lineStep, hc0, a1, a2, a3, a4, h3]
  have hB : lineScan wd σ1 (c0 :: cs) = ⟨p + x + (byteSize wd (c0 :: cs) : Int), g, false, ⟨g, p + x - 1⟩ :: S⟩ := by
    simp only [lineScan, hstep]
    rw [scan_nospace wd cs (fun z hz => hc z (by simp [hz])) _ rfl]
    simp only [byteSize, Int.natCast_add]
    congr 1
    omega
  rw [lineScan_append, e1, lineScan_append, hB]
  have hpos : (0 : Int) < byteSize wd (c0 :: cs) ∨ True := Or.inr trivial
  cases y with
  | zero =>
    simp only [pad, List.replicate_zero, lineScan]
    refine ⟨by simp, rfl, ?_, Or.inr ⟨by simp, rfl⟩⟩
    omega
  | succ y =>
    rw [scan_pad_out wd hw y _ rfl]
    refine ⟨by simp, rfl, ?_, Or.inl ⟨?_, rfl, rfl⟩⟩
    · omega
    · simp only [Int.natCast_add, Int.natCast_one]; omega

theorem scan_column0 (wd : Char → Nat) (hwd : ∀ c, 1 ≤ wd c) (hw : wd ' ' = 1) (a : Nat) (c : List Char) (y : Nat) (hc : NoSpace c)
    (hne : c ≠ []) :
    ScanInv (lineScan wd {} (pad a ++ (c ++ pad y))) (1 + a + byteSize wd c + y) (1 + a + byteSize wd c) [] := by
  obtain ⟨c0, cs, rfl⟩ : ∃ c0 cs, c = c0 :: cs := by
    cases c with
    | nil => exact absurd rfl hne
    | cons c0 cs => exact ⟨c0, cs, rfl⟩
  have hc0 : isSpace c0 = false := hc c0 (by simp)
  have hsz : 1 ≤ byteSize wd (c0 :: cs) := byteSize_pos wd hwd _ (by simp)
  -- after the leading blanks and the value
  have hB : lineScan wd (lineScan wd {} (pad a)) (c0 :: cs)
      = ⟨1 + a + (byteSize wd (c0 :: cs) : Int), 1, false, []⟩ := by
    cases a with
    | zero =>
      simp only [pad, List.replicate_zero, lineScan]
      have hstep : lineStep wd {} c0 = ⟨1 + (wd c0 : Int), 1, false, []⟩ := by simp [lineStep, hc0]
      rw [hstep, scan_nospace wd cs (fun z hz => hc z (by simp [hz])) _ rfl]
      simp only [byteSize, Int.natCast_add]
      congr 1
      omega
    | succ a =>
      have e0 : lineScan wd {} (pad (a + 1)) = ⟨1 + ((a + 1 : Nat) : Int), 1, true, []⟩ := by
        rw [scan_pad_out wd hw a {} rfl]
      rw [e0]
      simp only [lineScan]
      have hstep : lineStep wd ⟨1 + ((a + 1 : Nat) : Int), 1, true, []⟩ c0
          = ⟨1 + ((a + 1 : Nat) : Int) + (wd c0 : Int), 1, false, []⟩ := by simp [lineStep, hc0]
      rw [hstep, scan_nospace wd cs (fun z hz => hc z (by simp [hz])) _ rfl]
      simp only [byteSize, Int.natCast_add]
      congr 1
      omega
  rw [lineScan_append, lineScan_append, hB]
  have hpos : 1 ≤ wd c0 ∨ True := Or.inr trivial
  cases y with
  | zero =>
    simp only [pad, List.replicate_zero, lineScan]
    refine ⟨by simp, rfl, ?_, Or.inr ⟨by simp, rfl⟩⟩
    omega
  | succ y =>
    rw [scan_pad_out wd hw y _ rfl]
    refine ⟨by simp, rfl, ?_, Or.inl ⟨?_, rfl, rfl⟩⟩
    · omega
    · simp only [Int.natCast_add, Int.natCast_one]; omega

/-- the remaining columns begin at their first byte -/
def Flush (wd : Char → Nat) : List Nat → List Field → Prop
  | w :: ws, f :: fs => leadPad wd f w = 0 ∧ Flush wd ws fs
  | _, _ => True

def tailEnds (wd : Char → Nat) : Int → List Nat → List Field → List Int
  | p, w :: ws, f :: fs => (p + byteSize wd f.contents) :: tailEnds wd (p + w + 1) ws fs
  | _, _, _ => []

def tailSeps : Int → List Nat → List Int
  | _, [] => []
  | p, w :: ws => p :: tailSeps (p + w + 1) ws

def CellsOK (fs : List Field) : Prop := ∀ f ∈ fs, NoSpace f.contents ∧ f.contents ≠ []

theorem scan_tail (wd : Char → Nat) (hw : wd ' ' = 1) :
    ∀ (ws : List Nat) (fs : List Field) (σ : LS) (p g : Int) (S : List Space), fs.length = ws.length →
      AllFit wd ws fs → Flush wd ws fs → CellsOK fs → ScanInv σ p g S →
      lineEnd (lineScan wd σ (lineOf wd false ws fs))
        = S.reverse ++ mkSpaces ((g - 1) :: tailEnds wd p ws fs) (tailSeps p ws) := by
  intro ws
  induction ws with
  | nil =>
    intro fs σ p g S hlen _ _ _ hinv
    cases fs with
    | nil =>
      simp only [lineOf, lineScan, tailEnds, tailSeps, mkSpaces]
      rw [lineEnd_inv σ p g S hinv]
      simp
    | cons f fs => simp at hlen
  | cons w ws ih =>
    intro fs σ p g S hlen hfit hfl hok hinv
    cases fs with
    | nil => simp at hlen
    | cons f fs =>
      simp only [AllFit] at hfit
      simp only [Flush] at hfl
      obtain ⟨hw1, hsz, hfit'⟩ := hfit
      obtain ⟨hl0, hfl'⟩ := hfl
      obtain ⟨hns, hne⟩ := hok f (by simp)
      have htext : lineOf wd false (w :: ws) (f :: fs)
          = (pad 1 ++ (f.contents ++ pad (w - byteSize wd f.contents))) ++ lineOf wd false ws fs := by
        simp [lineOf, fieldText, trailPad, hl0, pad]
      have hcol := scan_column wd hw 1 f.contents (w - byteSize wd f.contents) hns hne σ p g S hinv (Nat.le_refl 1)
      rw [htext, lineScan_append]
      have e1 : p + ((1 : Nat) : Int) + (byteSize wd f.contents : Int) + ((w - byteSize wd f.contents : Nat) : Int) = p + w + 1 := by
        omega
      have e2 : p + ((1 : Nat) : Int) - 1 = p := by omega
      rw [e1, e2] at hcol
      rw [ih fs _ (p + w + 1) _ _ (by simpa using hlen) hfit' hfl' (fun x hx => hok x (by simp [hx])) hcol]
      have e3 : p + ((1 : Nat) : Int) + (byteSize wd f.contents : Int) - 1 = p + byteSize wd f.contents := by omega
      simp only [tailEnds, tailSeps, e3, List.reverse_cons, List.append_assoc, List.cons_append, List.nil_append]
      cases ws with
      | nil =>
        cases fs with
        | nil => simp [tailEnds, tailSeps, mkSpaces]
        | cons f2 fs2 => simp at hlen
      | cons w2 ws2 =>
        cases fs with
        | nil => simp at hlen
        | cons f2 fs2 => simp [tailEnds, tailSeps, mkSpaces]

/-- **the blank runs of a written line** -/
theorem spaces_lineOf (wd : Char → Nat) (hwd : ∀ c, 1 ≤ wd c) (hw : wd ' ' = 1) (w : Nat) (ws : List Nat) (f : Field) (fs : List Field)
    (hlen : fs.length = ws.length) (hfit : AllFit wd (w :: ws) (f :: fs)) (hfl : Flush wd ws fs)
    (hok : CellsOK (f :: fs)) :
    spacesOfLine wd (lineOf wd true (w :: ws) (f :: fs))
      = mkSpaces ((leadPad wd f w + byteSize wd f.contents : Nat) :: tailEnds wd (1 + w) ws fs) (tailSeps (1 + w) ws) := by
  simp only [AllFit] at hfit
  obtain ⟨_, hsz, hfit'⟩ := hfit
  obtain ⟨hns, hne⟩ := hok f (by simp)
  have hlp := leadPad_le wd f w
  have htext : lineOf wd true (w :: ws) (f :: fs)
      = (pad (leadPad wd f w) ++ (f.contents ++ pad (trailPad wd f w))) ++ lineOf wd false ws fs := by
    simp [lineOf, fieldText]
  have hcol := scan_column0 wd hwd hw (leadPad wd f w) f.contents (trailPad wd f w) hns hne
  have e1 : (1 : Int) + (leadPad wd f w : Int) + (byteSize wd f.contents : Int) + (trailPad wd f w : Int) = 1 + w := by
    unfold trailPad; omega
  rw [e1] at hcol
  unfold spacesOfLine
  rw [htext, lineScan_append, scan_tail wd hw ws fs _ (1 + w) _ [] hlen hfit' hfl (fun x hx => hok x (by simp [hx])) hcol]
  have e2 : (1 : Int) + (leadPad wd f w : Int) + (byteSize wd f.contents : Int) - 1
      = ((leadPad wd f w + byteSize wd f.contents : Nat) : Int) := by omega
  simp [e2]

theorem geo_tail (wd : Char → Nat) :
    ∀ (ws : List Nat) (fs : List Field) (p e lo : Int), fs.length = ws.length → AllFit wd ws fs → CellsOK fs →
      (∀ c, 1 ≤ wd c) → lo ≤ e → e + 1 ≤ p →
      Geo lo (e :: tailEnds wd p ws fs) (tailSeps p ws) := by
  intro ws
  induction ws with
  | nil =>
    intro fs p e lo hlen _ _ _ h1 _
    cases fs with
    | nil => simpa [tailEnds, tailSeps, Geo] using h1
    | cons f fs => simp at hlen
  | cons w ws ih =>
    intro fs p e lo hlen hfit hok hwd h1 h2
    cases fs with
    | nil => simp at hlen
    | cons f fs =>
      simp only [AllFit] at hfit
      obtain ⟨_, hsz, hfit'⟩ := hfit
      obtain ⟨_, hne⟩ := hok f (by simp)
      have hpos := byteSize_pos wd hwd f.contents hne
      simp only [tailEnds, tailSeps, Geo]
      refine ⟨h1, h2, ?_⟩
      exact ih fs (p + w + 1) (p + byteSize wd f.contents) (p + 1) (by simpa using hlen) hfit'
        (fun x hx => hok x (by simp [hx])) hwd (by omega) (by omega)

/-! ## Part 3: reading such a line with positions that lie in the blank runs -/

theorem noBreak_pad (k : Nat) : NoBreak (pad k) := by
  intro c hc
  have := mem_pad k c hc
  subst this
  exact ⟨by decide, by decide⟩

theorem noBreak_append {a b : List Char} (ha : NoBreak a) (hb : NoBreak b) : NoBreak (a ++ b) := by
  intro c hc
  rcases List.mem_append.mp hc with h | h
  · exact ha c h
  · exact hb c h

/-- characters that stay below the next delimiter position go into the buffer -/
theorem run_buf (wd : Char → Nat) (ps : List Nat) (b : St) (e : Nat) (rest : List Nat) (fields : List (List Char))
    (s : List Char) : ∀ (buf : List Char) (p : Nat), p + byteSize wd s < e → NoBreak s →
    run wd ps (S b (e :: rest) p buf fields) s = .ok (S b (e :: rest) (p + byteSize wd s) (s.reverse ++ buf) fields) := by
  induction s with
  | nil => intro buf p _ _; simp [run_nil, byteSize]
  | cons c cs ih =>
    intro buf p hlt hnb
    obtain ⟨h1, h2⟩ := hnb c (by simp)
    simp only [byteSize] at hlt
    rw [run_cons]
    have hlt1 : ¬ (e < p + wd c) := by omega
    have hne : ¬ (p + wd c = e) := by omega
    have hstep : step wd ps (S b (e :: rest) p buf fields) c = .ok (S b (e :: rest) (p + wd c) (c :: buf) fields) := by
      simp [step, stepMain, S, h1, h2, hlt1, hne]
    rw [hstep]
    simp only
    rw [ih (c :: buf) (p + wd c) (by omega) (fun x hx => hnb x (by simp [hx]))]
    simp [byteSize, Nat.add_assoc]

/-- beyond the last delimiter position the rest of the line is skipped -/
theorem run_skip (wd : Char → Nat) (ps : List Nat) (b : St) (fields : List (List Char)) (s : List Char) :
    ∀ (p : Nat), NoBreak s → run wd ps (S b [] p [] fields) s = .ok (S b [] (p + s.length) [] fields) := by
  induction s with
  | nil => intro p _; simp [run_nil]
  | cons c cs ih =>
    intro p hnb
    obtain ⟨h1, h2⟩ := hnb c (by simp)
    rw [run_cons]
    have hstep : step wd ps (S b [] p [] fields) c = .ok (S b [] (p + 1) [] fields) := by
      simp [step, stepMain, S, h1, h2]
    rw [hstep]
    simp only
    rw [ih (p + 1) (fun x hx => hnb x (by simp [hx]))]
    simp [Nat.add_assoc, Nat.add_comm 1]

def sepLen (first : Bool) : Nat := if first then 0 else 1

/-- the delimiter positions `Ms` lie, column by column, between the end of the value and the end of the
    column's bytes -/
def ColOK (wd : Char → Nat) : Nat → Bool → List Nat → List Field → List Nat → Prop
  | _, _, [], [], [] => True
  | pos, first, w :: ws, f :: fs, m :: ms =>
    pos + sepLen first + leadPad wd f w + byteSize wd f.contents ≤ m ∧ m ≤ pos + sepLen first + w ∧
    ColOK wd (pos + sepLen first + w) false ws fs ms
  | _, _, _, _, _ => False

theorem pad_add (a b : Nat) : pad a ++ pad b = pad (a + b) := by simp [pad, List.replicate_append_replicate]

/-- **a written line, read with such positions**: every field is the trimmed text -/
theorem run_lineOf (wd : Char → Nat) (hwd : ∀ c, 1 ≤ wd c) (hw : wd ' ' = 1) (P : List Nat) (b : St) :
    ∀ (ws : List Nat) (fs : List Field) (ms : List Nat) (first : Bool) (pos k : Nat) (fields : List (List Char)),
      ws ≠ [] → AllFit wd ws fs → ColOK wd pos first ws fs ms → (∀ f ∈ fs, NoBreak f.contents ∧ f.contents ≠ []) →
      ∃ E, run wd P (S b ms pos (pad k) fields) (lineOf wd first ws fs)
        = .ok (S b [] E [] ((fs.map fun f => trim f.contents).reverse ++ fields)) ∧ pos < E := by
  intro ws
  induction ws with
  | nil => intro _ _ _ _ _ _ h; exact absurd rfl h
  | cons w ws ih =>
    intro fs ms first pos k fields _ hfit hcol hok
    cases fs with
    | nil => simp [AllFit] at hfit
    | cons f fs =>
      cases ms with
      | nil => simp [ColOK] at hcol
      | cons m ms =>
        simp only [AllFit] at hfit
        simp only [ColOK] at hcol
        obtain ⟨hw1, hsz, hfit'⟩ := hfit
        obtain ⟨c1, c2, hcol'⟩ := hcol
        obtain ⟨hnb, hne⟩ := hok f (by simp)
        have hpos := byteSize_pos wd hwd f.contents hne
        have hlp := leadPad_le wd f w
        -- the part of the column up to the position, and the blanks after it
        let x := sepLen first + leadPad wd f w
        let e := pos + x + byteSize wd f.contents
        let b1 := m - e
        let b2 := trailPad wd f w - b1
        have hb : b1 + b2 = trailPad wd f w := by
          show (m - e) + (trailPad wd f w - (m - e)) = trailPad wd f w
          have : m - e ≤ trailPad wd f w := by
            show m - (pos + (sepLen first + leadPad wd f w) + byteSize wd f.contents) ≤ w - byteSize wd f.contents - leadPad wd f w
            omega
          omega
        have htext : lineOf wd first (w :: ws) (f :: fs)
            = (pad x ++ f.contents ++ pad b1) ++ (pad b2 ++ lineOf wd false ws fs) := by
          have hsep : (if first = true then [] else [' ']) = pad (sepLen first) := by
            cases first <;> simp [sepLen, pad]
          simp only [lineOf, fieldText, hsep]
          rw [← hb, ← pad_add b1 b2]
          show _ = pad (sepLen first + leadPad wd f w) ++ _ ++ _ ++ _
          rw [← pad_add (sepLen first) (leadPad wd f w)]
          simp [List.append_assoc]
        have hs_nb : NoBreak (pad x ++ f.contents ++ pad b1) :=
          noBreak_append (noBreak_append (noBreak_pad x) hnb) (noBreak_pad b1)
        have hs_ne : pad x ++ f.contents ++ pad b1 ≠ [] := by
          intro h0
          have h1 := (List.append_eq_nil_iff.mp h0).1
          exact hne (List.append_eq_nil_iff.mp h1).2
        have hs_size : pos + byteSize wd (pad x ++ f.contents ++ pad b1) = m := by
          rw [byteSize_append, byteSize_append, byteSize_pad wd hw, byteSize_pad wd hw]
          show pos + (x + byteSize wd f.contents + (m - (pos + x + byteSize wd f.contents))) = m
          have : pos + x + byteSize wd f.contents ≤ m := by
            show pos + (sepLen first + leadPad wd f w) + byteSize wd f.contents ≤ m
            omega
          omega
        have hpm : pos < m := by
          have := byteSize_pos wd hwd _ hs_ne
          omega
        have hcolrun := run_column wd hwd P b m ms fields (pad x ++ f.contents ++ pad b1) (pad k) pos hs_size hs_ne hs_nb
        have htrim : trim ((pad k).reverse ++ (pad x ++ f.contents ++ pad b1)) = trim f.contents := by
          rw [pad_reverse]
          have : pad k ++ (pad x ++ f.contents ++ pad b1) = pad (k + x) ++ f.contents ++ pad b1 := by
            rw [← pad_add k x]; simp [List.append_assoc]
          rw [this, trim_padded]
        rw [htrim] at hcolrun
        rw [htext, run_append, hcolrun]
        simp only
        -- the blanks after the position
        have hm_b2 : m + b2 = pos + sepLen first + w := by
          have h1 : e ≤ m := by
            show pos + (sepLen first + leadPad wd f w) + byteSize wd f.contents ≤ m
            omega
          have h2 : trailPad wd f w = w - byteSize wd f.contents - leadPad wd f w := rfl
          have h3 : e = pos + (sepLen first + leadPad wd f w) + byteSize wd f.contents := rfl
          have h4 : b1 = m - e := rfl
          have h5 : b2 = trailPad wd f w - b1 := rfl
          omega
        cases ws with
        | nil =>
          cases fs with
          | cons f2 fs2 => simp [AllFit] at hfit'
          | nil =>
            cases ms with
            | cons m2 ms2 => simp [ColOK] at hcol'
            | nil =>
              simp only [lineOf, List.append_nil]
              rw [run_skip wd P b _ (pad b2) m (noBreak_pad b2)]
              refine ⟨m + (pad b2).length, by simp, ?_⟩
              omega
        | cons w2 ws2 =>
          cases fs with
          | nil => simp [AllFit] at hfit'
          | cons f2 fs2 =>
            cases ms with
            | nil => simp [ColOK] at hcol'
            | cons m2 ms2 =>
              have hc2 := hcol'
              simp only [ColOK] at hc2
              obtain ⟨d1, _, _⟩ := hc2
              obtain ⟨_, hne2⟩ := hok f2 (by simp)
              have hpos2 := byteSize_pos wd hwd f2.contents hne2
              rw [run_append]
              have hlt : m + byteSize wd (pad b2) < m2 := by
                rw [byteSize_pad wd hw]
                have hs1 : sepLen false = 1 := rfl
                omega
              rw [run_buf wd P b m2 ms2 _ (pad b2) [] m hlt (noBreak_pad b2)]
              simp only [List.append_nil, pad_reverse, byteSize_pad wd hw]
              obtain ⟨E, hrun, hE⟩ := ih (f2 :: fs2) (m2 :: ms2) false (m + b2) b2 (trim f.contents :: fields) (by simp)
                hfit' (by rw [hm_b2]; exact hcol') (fun g hg => hok g (by simp [hg]))
              refine ⟨E, ?_, by omega⟩
              rw [hrun]
              simp

/-! ## Part 4: the positions found are such positions -/

/-- the last byte of every value of a line, as `Delimit` sees it -/
def esFrom (wd : Char → Nat) : Nat → Bool → List Nat → List Field → List Int
  | pos, first, w :: ws, f :: fs =>
    ((pos + sepLen first + leadPad wd f w + byteSize wd f.contents : Nat) : Int)
      :: esFrom wd (pos + sepLen first + w) false ws fs
  | _, _, _, _ => []

theorem esFrom_flush (wd : Char → Nat) :
    ∀ (ws : List Nat) (fs : List Field) (pos : Nat), Flush wd ws fs →
      esFrom wd pos false ws fs = tailEnds wd ((pos : Int) + 1) ws fs := by
  intro ws
  induction ws with
  | nil => intro fs pos _; cases fs <;> rfl
  | cons w ws ih =>
    intro fs pos hfl
    cases fs with
    | nil => rfl
    | cons f fs =>
      simp only [Flush] at hfl
      simp only [esFrom, tailEnds, hfl.1, sepLen, Bool.false_eq_true, if_false]
      rw [ih fs _ hfl.2]
      have e1 : ((pos + 1 + 0 + byteSize wd f.contents : Nat) : Int) = (pos : Int) + 1 + (byteSize wd f.contents : Int) := by
        omega
      have e2 : ((pos + 1 + w : Nat) : Int) + 1 = (pos : Int) + 1 + (w : Int) + 1 := by omega
      rw [e1, e2]

theorem colOK_colMaxes (wd : Char → Nat) :
    ∀ (ws : List Nat) (rows : List (List Field)) (pos : Nat) (first : Bool),
      (∀ r ∈ rows, r.length = ws.length ∧ AllFit wd ws r) →
      ∀ r ∈ rows, ColOK wd pos first ws r ((colMaxes ws.length (rows.map (esFrom wd pos first ws))).map Int.toNat) := by
  intro ws
  induction ws with
  | nil =>
    intro rows pos first h r hr
    have := (h r hr).1
    cases r with
    | nil => simp [colMaxes, ColOK]
    | cons f fs => simp at this
  | cons w ws ih =>
    intro rows pos first h r hr
    obtain ⟨hlen, hfit⟩ := h r hr
    cases r with
    | nil => simp at hlen
    | cons f fs =>
      simp only [AllFit] at hfit
      obtain ⟨_, hsz, _⟩ := hfit
      -- the heads and the tails of all rows
      have htails : (rows.map (esFrom wd pos first (w :: ws))).map List.tail
          = (rows.map List.tail).map (esFrom wd (pos + sepLen first + w) false ws) := by
        simp only [List.map_map]
        apply List.map_congr_left
        intro x hx
        obtain ⟨hxl, _⟩ := h x hx
        cases x with
        | nil => simp at hxl
        | cons g gs => simp [esFrom]
      have hhead_le : ∀ x ∈ (rows.map (esFrom wd pos first (w :: ws))).map (·.headD 0),
          (0 : Int) ≤ x ∧ x ≤ ((pos + sepLen first + w : Nat) : Int) := by
        intro x hx
        simp only [List.map_map, List.mem_map, Function.comp] at hx
        obtain ⟨y, hy, rfl⟩ := hx
        obtain ⟨hyl, hyf⟩ := h y hy
        cases y with
        | nil => simp at hyl
        | cons g gs =>
          simp only [AllFit] at hyf
          have := leadPad_le wd g w
          simp only [esFrom, List.headD_cons]
          constructor
          · omega
          · have h2 := hyf.2.1
            omega
      let m := fmax 0 ((rows.map (esFrom wd pos first (w :: ws))).map (·.headD 0))
      have hm_ge : ((pos + sepLen first + leadPad wd f w + byteSize wd f.contents : Nat) : Int) ≤ m := by
        apply fmax_ge_mem
        simp only [List.map_map, List.mem_map, Function.comp]
        exact ⟨f :: fs, hr, by simp [esFrom]⟩
      have hm_le : m ≤ ((pos + sepLen first + w : Nat) : Int) := by
        rcases fmax_mem_or_init 0 ((rows.map (esFrom wd pos first (w :: ws))).map (·.headD 0)) with h0 | h0
        · show fmax 0 _ ≤ _
          rw [h0]; omega
        · exact (hhead_le _ h0).2
      have hih := ih (rows.map List.tail) (pos + sepLen first + w) false (by
        intro x hx
        obtain ⟨y, hy, rfl⟩ := List.mem_map.mp hx
        obtain ⟨hyl, hyf⟩ := h y hy
        cases y with
        | nil => simp at hyl
        | cons g gs =>
          simp only [AllFit] at hyf
          exact ⟨by simpa using hyl, hyf.2.2⟩) fs (List.mem_map.mpr ⟨f :: fs, hr, rfl⟩)
      simp only [List.length_cons, colMaxes, List.map_cons, ColOK, htails]
      refine ⟨?_, ?_, hih⟩
      · show _ ≤ Int.toNat m
        omega
      · show Int.toNat m ≤ _
        omega

theorem validFrom_colOK (wd : Char → Nat) (hwd : ∀ c, 1 ≤ wd c) :
    ∀ (ws : List Nat) (fs : List Field) (ms : List Nat) (pos start : Nat) (first : Bool),
      ColOK wd pos first ws fs ms → start ≤ pos → (∀ f ∈ fs, f.contents ≠ []) → validFrom start ms = true := by
  intro ws
  induction ws with
  | nil =>
    intro fs ms pos start first h _ _
    cases fs <;> cases ms <;> simp_all [ColOK, validFrom]
  | cons w ws ih =>
    intro fs ms pos start first h hs hne
    cases fs with
    | nil => simp [ColOK] at h
    | cons f fs =>
      cases ms with
      | nil => simp [ColOK] at h
      | cons m ms =>
        simp only [ColOK] at h
        obtain ⟨h1, h2, h3⟩ := h
        have := byteSize_pos wd hwd f.contents (hne f (by simp))
        simp only [validFrom, Bool.and_eq_true, decide_eq_true_eq]
        exact ⟨by omega, ih fs ms _ m false h3 h2 (fun g hg => hne g (by simp [hg]))⟩

/-! ## Part 5: all lines -/

def moreText (wd : Char → Nat) (lb : LB) (ws : List Nat) : List (List Field) → List Char
  | [] => []
  | r :: rs => lb.chars ++ (lineOf wd true ws r ++ moreText wd lb ws rs)

theorem writeMore_lineOf (wd : Char → Nat) (lb : LB) (ws : List Nat) :
    ∀ (more : List (List Field)) (rest : List Char), (∀ r ∈ more, r.length = ws.length) →
      writeMore wd true lb (positionsOf 0 ws) more = .ok rest →
      rest = moreText wd lb ws more ∧ ∀ r ∈ more, AllFit wd ws r := by
  intro more
  induction more with
  | nil => intro rest _ h; simp only [writeMore] at h; injection h with h; subst h; exact ⟨rfl, by simp⟩
  | cons r rs ih =>
    intro rest hlen h
    simp only [writeMore] at h
    cases hr : writeRecord wd true (positionsOf 0 ws) r with
    | error e => rw [hr] at h; simp at h
    | ok s =>
      rw [hr] at h
      simp only at h
      cases hm : writeMore wd true lb (positionsOf 0 ws) rs with
      | error e => rw [hm] at h; simp at h
      | ok rest' =>
        rw [hm] at h
        simp only at h
        injection h with h
        obtain ⟨h1, h2⟩ := writeFields_lineOf wd ws r true 0 s (hlen r (by simp)) hr
        obtain ⟨h3, h4⟩ := ih rest' (fun x hx => hlen x (by simp [hx])) hm
        subst h1; subst h3
        refine ⟨by rw [← h]; rfl, ?_⟩
        intro x hx
        rcases List.mem_cons.mp hx with rfl | hx
        · exact h2
        · exact h4 x hx

theorem lineOf_head (wd : Char → Nat) (w : Nat) (ws : List Nat) (f : Field) (fs : List Field)
    (hne : f.contents ≠ []) (hnb : NoBreak f.contents) (tail : List Char) :
    ∃ c cs, lineOf wd true (w :: ws) (f :: fs) ++ tail = c :: cs ∧ c ≠ '\n' := by
  have hform : lineOf wd true (w :: ws) (f :: fs) ++ tail
      = pad (leadPad wd f w) ++ (f.contents ++ (pad (trailPad wd f w) ++ (lineOf wd false ws fs ++ tail))) := by
    simp [lineOf, fieldText, List.append_assoc]
  rw [hform]
  cases hl : leadPad wd f w with
  | zero =>
    cases hc : f.contents with
    | nil => exact absurd hc hne
    | cons c cs =>
      exact ⟨c, cs ++ (pad (trailPad wd f w) ++ (lineOf wd false ws fs ++ tail)), by simp [pad],
        (hnb c (by simp [hc])).2⟩
  | succ k =>
    exact ⟨' ', pad k ++ (f.contents ++ (pad (trailPad wd f w) ++ (lineOf wd false ws fs ++ tail))),
      by simp [pad, List.replicate_succ], by decide⟩

/-- what one row needs for the reader -/
def RowOK (wd : Char → Nat) (ws : List Nat) (P : List Nat) (r : List Field) : Prop :=
  AllFit wd ws r ∧ ColOK wd 0 true ws r P ∧ ∀ f ∈ r, NoBreak f.contents ∧ f.contents ≠ []

theorem run_rows_auto (wd : Char → Nat) (hwd : ∀ c, 1 ≤ wd c) (hw : wd ' ' = 1) (P : List Nat) (w : Nat) (ws : List Nat)
    (lb : LB) (hlb : lb ≠ .cr) (e : Option LB) (he : e ≠ some .cr) (more : List (List Field)) :
    ∀ (r : List Field) (b : St), (∀ x ∈ r :: more, RowOK wd (w :: ws) P x) →
    ∃ σ, (match run wd P (S b P 0 [] []) (lineOf wd true (w :: ws) r ++ (moreText wd lb (w :: ws) more ++ endingChars e)) with
          | .ok σ' => finish P σ'
          | .error err => .error err) = .ok σ
       ∧ σ.recs = ((r :: more).map rowOf).reverse ++ b.recs := by
  induction more with
  | nil =>
    intro r b hok
    obtain ⟨hfit, hcol, hcells⟩ := hok r (by simp)
    obtain ⟨E, hrun, hE⟩ := run_lineOf wd hwd hw P b (w :: ws) r P true 0 0 [] (by simp) hfit hcol hcells
    have hpad0 : pad 0 = [] := rfl
    rw [hpad0] at hrun
    simp only [List.append_nil] at hrun
    have hE0 : E ≠ 0 := by omega
    simp only [moreText, List.nil_append]
    cases e with
    | none =>
      simp only [endingChars, List.append_nil]
      rw [hrun]
      simp only
      have := finish_end P b E hE0 (rowOf r)
      simp only [rowOf] at this ⊢
      rw [this]
      exact ⟨_, rfl, by simp [S, nextBase, rowOf]⟩
    | some lbE =>
      have hr : RestOK lbE [] := fun h => absurd (by rw [h]) he
      simp only [endingChars]
      rw [run_append, hrun]
      simp only
      have := run_lb_after_record wd P b E (rowOf r) lbE [] hr
      rw [List.append_nil] at this
      simp only [rowOf] at this
      rw [this, run_nil]
      simp only
      rw [finish_start]
      exact ⟨_, rfl, by simp [S, nextBase, setDlb_recs, rowOf]⟩
  | cons r2 more' ih =>
    intro r b hok
    obtain ⟨hfit, hcol, hcells⟩ := hok r (by simp)
    obtain ⟨E, hrun, hE⟩ := run_lineOf wd hwd hw P b (w :: ws) r P true 0 0 [] (by simp) hfit hcol hcells
    have hpad0 : pad 0 = [] := rfl
    rw [hpad0] at hrun
    simp only [List.append_nil] at hrun
    have hr : RestOK lb (lineOf wd true (w :: ws) r2 ++ (moreText wd lb (w :: ws) more' ++ endingChars e)) :=
      fun h => absurd h hlb
    have hassoc : lineOf wd true (w :: ws) r ++ (moreText wd lb (w :: ws) (r2 :: more') ++ endingChars e)
        = lineOf wd true (w :: ws) r ++ (lb.chars ++ (lineOf wd true (w :: ws) r2 ++ (moreText wd lb (w :: ws) more' ++ endingChars e))) := by
      simp [moreText, List.append_assoc]
    rw [hassoc, run_append, hrun]
    simp only
    have := run_lb_after_record wd P b E (rowOf r) lb _ hr
    simp only [rowOf] at this
    rw [this]
    obtain ⟨σ, h1, h2⟩ := ih r2 (nextBase (setDlb b lb) (rowOf r)) (fun x hx => hok x (by simp [hx]))
    refine ⟨σ, h1, ?_⟩
    rw [h2]
    simp [nextBase, setDlb_recs]

/-! ## Part 6: the lines `Delimit` sees -/

theorem readLines_line (l : List Char) (hl : ∀ c ∈ l, c ≠ '\n') (acc rest : List Char) :
    readLines acc (l ++ '\n' :: rest) = dropCR (l.reverse ++ acc) :: readLines [] rest := by
  induction l generalizing acc with
  | nil => simp [readLines]
  | cons c cs ih =>
    have hc : c ≠ '\n' := hl c (by simp)
    simp only [List.cons_append, readLines, hc, if_false]
    rw [ih (fun x hx => hl x (by simp [hx]))]
    simp

theorem readLines_last (l : List Char) (hl : ∀ c ∈ l, c ≠ '\n') (acc : List Char) (hne : l.reverse ++ acc ≠ []) :
    readLines acc l = [(l.reverse ++ acc).reverse] := by
  induction l generalizing acc with
  | nil =>
    simp only [List.reverse_nil, List.nil_append] at hne ⊢
    cases acc with
    | nil => exact absurd rfl hne
    | cons a as => simp [readLines]
  | cons c cs ih =>
    have hc : c ≠ '\n' := hl c (by simp)
    simp only [readLines, hc, if_false]
    rw [ih (fun x hx => hl x (by simp [hx])) (c :: acc) (by simp)]
    simp

def LineOK (l : List Char) : Prop := l ≠ [] ∧ ∀ c ∈ l, c ≠ '\n' ∧ c ≠ '\r'

theorem dropCR_reverse (l : List Char) (h : ∀ c ∈ l, c ≠ '\r') : dropCR l.reverse = l := by
  cases hr : l.reverse with
  | nil =>
    have : l = [] := by simpa using hr
    subst this; rfl
  | cons c r =>
    have hc : c ∈ l := by
      have : c ∈ l.reverse := by rw [hr]; simp
      simpa using this
    have := h c hc
    simp only [dropCR, this, if_false]
    rw [← hr]; simp

theorem dropCR_cr (l : List Char) : dropCR ('\r' :: l.reverse) = l := by simp [dropCR]

def moreLines (tm : List Char) : List (List Char) → List Char
  | [] => []
  | l :: ls => tm ++ (l ++ moreLines tm ls)

theorem readLines_text (tm : List Char) (htm : tm = ['\n'] ∨ tm = ['\r', '\n']) (en : List Char)
    (hen : en = [] ∨ en = ['\n'] ∨ en = ['\r', '\n']) :
    ∀ (ls : List (List Char)) (l : List Char), LineOK l → (∀ x ∈ ls, LineOK x) →
      readLines [] (l ++ (moreLines tm ls ++ en)) = l :: ls := by
  have hterm : ∀ (l rest : List Char), LineOK l → (t : List Char) → (t = ['\n'] ∨ t = ['\r', '\n']) →
      readLines [] (l ++ (t ++ rest)) = l :: readLines [] rest := by
    intro l rest hl t ht
    rcases ht with rfl | rfl
    · simp only [List.cons_append, List.nil_append]
      rw [readLines_line l (fun c hc => (hl.2 c hc).1), List.append_nil, dropCR_reverse l (fun c hc => (hl.2 c hc).2)]
    · have e : l ++ (['\r', '\n'] ++ rest) = (l ++ ['\r']) ++ '\n' :: rest := by simp
      rw [e, readLines_line (l ++ ['\r']) (by
        intro c hc
        rcases List.mem_append.mp hc with h | h
        · exact (hl.2 c h).1
        · simp only [List.mem_singleton] at h; subst h; decide)]
      simp [dropCR_cr]
  intro ls
  induction ls with
  | nil =>
    intro l hl _
    simp only [moreLines, List.nil_append]
    rcases hen with rfl | rfl | rfl
    · rw [List.append_nil, readLines_last l (fun c hc => (hl.2 c hc).1) [] (by simpa using hl.1)]
      simp
    · have := hterm l [] hl ['\n'] (Or.inl rfl)
      simpa [readLines] using this
    · have := hterm l [] hl ['\r', '\n'] (Or.inr rfl)
      simpa [readLines] using this
  | cons l2 ls ih =>
    intro l hl hls
    have e : l ++ (moreLines tm (l2 :: ls) ++ en) = l ++ (tm ++ (l2 ++ (moreLines tm ls ++ en))) := by
      simp [moreLines, List.append_assoc]
    rw [e, hterm l _ hl tm htm, ih l2 (hls l2 (by simp)) (fun x hx => hls x (by simp [hx]))]

theorem moreText_moreLines (wd : Char → Nat) (lb : LB) (ws : List Nat) (more : List (List Field)) :
    moreText wd lb ws more = moreLines lb.chars (more.map (lineOf wd true ws)) := by
  induction more with
  | nil => rfl
  | cons r rs ih => simp [moreText, moreLines, ih]

theorem lineOf_chars (wd : Char → Nat) :
    ∀ (ws : List Nat) (fs : List Field) (first : Bool) (c : Char), c ∈ lineOf wd first ws fs →
      c = ' ' ∨ ∃ f ∈ fs, c ∈ f.contents := by
  intro ws
  induction ws with
  | nil => intro fs first c h; simp [lineOf] at h
  | cons w ws ih =>
    intro fs first c h
    cases fs with
    | nil => simp [lineOf] at h
    | cons f fs =>
      simp only [lineOf, fieldText, List.mem_append] at h
      rcases h with h | ((h | h) | h) | h
      · cases first <;> simp at h
        exact Or.inl h
      · exact Or.inl (mem_pad _ c h)
      · exact Or.inr ⟨f, by simp, h⟩
      · exact Or.inl (mem_pad _ c h)
      · rcases ih fs false c h with h | ⟨g, hg, hc⟩
        · exact Or.inl h
        · exact Or.inr ⟨g, by simp [hg], hc⟩

theorem noSpace_not_break (c : Char) (h : isSpace c = false) : c ≠ '\n' ∧ c ≠ '\r' := by
  constructor
  · intro e; subst e; revert h; decide
  · intro e; subst e; revert h; decide

theorem lineOK_lineOf (wd : Char → Nat) (w : Nat) (ws : List Nat) (f : Field) (fs : List Field)
    (hok : CellsOK (f :: fs)) : LineOK (lineOf wd true (w :: ws) (f :: fs)) := by
  constructor
  · obtain ⟨c, cs, h, _⟩ := lineOf_head wd w ws f fs (hok f (by simp)).2
      (fun c hc => ⟨(noSpace_not_break c ((hok f (by simp)).1 c hc)).2,
        (noSpace_not_break c ((hok f (by simp)).1 c hc)).1⟩) []
    intro e
    rw [e] at h
    simp at h
  · intro c hc
    rcases lineOf_chars wd (w :: ws) (f :: fs) true c hc with rfl | ⟨g, hg, hcg⟩
    · exact ⟨by decide, by decide⟩
    · exact noSpace_not_break c ((hok g hg).1 c hcg)

theorem byteSize_lineOf_ge (wd : Char → Nat) (hwd : ∀ c, 1 ≤ wd c) :
    ∀ (ws : List Nat) (fs : List Field) (first : Bool), fs.length = ws.length → (∀ f ∈ fs, f.contents ≠ []) →
      ws.length ≤ byteSize wd (lineOf wd first ws fs) := by
  intro ws
  induction ws with
  | nil => intro fs first _ _; simp
  | cons w ws ih =>
    intro fs first hlen hne
    cases fs with
    | nil => simp at hlen
    | cons f fs =>
      have h1 := byteSize_pos wd hwd f.contents (hne f (by simp))
      have h2 := ih fs false (by simpa using hlen) (fun g hg => hne g (by simp [hg]))
      simp only [lineOf, fieldText, byteSize_append, List.length_cons]
      omega

/-! ## Part 7: a written table -/

/-- what the proof needs of the records of a written table: `w :: ws` the measured widths -/
structure Written (wd : Char → Nat) (w : Nat) (ws : List Nat) (rows : List (List Field)) : Prop where
  len : ∀ r ∈ rows, r.length = ws.length + 1
  fit : ∀ r ∈ rows, AllFit wd (w :: ws) r
  cells : ∀ r ∈ rows, CellsOK r
  flush : ∀ r ∈ rows, Flush wd ws r.tail

theorem mkSpaces_ne (lo : Int) (es qs : List Int) (h : Geo lo es qs) : mkSpaces es qs ≠ [] := by
  cases es with
  | nil => cases qs <;> simp [Geo] at h
  | cons e es =>
    cases es with
    | nil => simp [mkSpaces]
    | cons e2 es =>
      cases qs with
      | nil => simp [Geo] at h
      | cons q qs => simp [mkSpaces]

theorem row_spaces (wd : Char → Nat) (hwd : ∀ c, 1 ≤ wd c) (hw : wd ' ' = 1) (w : Nat) (ws : List Nat)
    (r : List Field) (hlen : r.length = ws.length + 1) (hfit : AllFit wd (w :: ws) r) (hok : CellsOK r)
    (hfl : Flush wd ws r.tail) :
    spacesOfLine wd (lineOf wd true (w :: ws) r)
      = mkSpaces (esFrom wd 0 true (w :: ws) r) (tailSeps (1 + (w : Int)) ws) ∧
    Geo 1 (esFrom wd 0 true (w :: ws) r) (tailSeps (1 + (w : Int)) ws) := by
  cases r with
  | nil => simp at hlen
  | cons f fs =>
    have hlen' : fs.length = ws.length := by simpa using hlen
    simp only [List.tail_cons] at hfl
    have hes : esFrom wd 0 true (w :: ws) (f :: fs)
        = ((leadPad wd f w + byteSize wd f.contents : Nat) : Int) :: tailEnds wd (1 + (w : Int)) ws fs := by
      simp only [esFrom, sepLen, if_true, Nat.zero_add, Nat.add_zero]
      rw [esFrom_flush wd ws fs w hfl]
      have : ((w : Nat) : Int) + 1 = 1 + (w : Int) := by omega
      rw [this]
    rw [hes]
    refine ⟨spaces_lineOf wd hwd hw w ws f fs hlen' hfit hfl hok, ?_⟩
    have hfit2 := hfit
    simp only [AllFit] at hfit2
    obtain ⟨_, hsz, hfit'⟩ := hfit2
    have hpos := byteSize_pos wd hwd f.contents (hok f (by simp)).2
    have hlp := leadPad_le wd f w
    exact geo_tail wd ws fs (1 + (w : Int)) _ 1 hlen' hfit' (fun x hx => hok x (by simp [hx])) hwd (by omega) (by omega)

theorem tailSeps_length (p : Int) (ws : List Nat) : (tailSeps p ws).length = ws.length := by
  induction ws generalizing p with
  | nil => rfl
  | cons w ws ih => simp [tailSeps, ih]

theorem byteSize_le_append (wd : Char → Nat) (a b : List Char) : byteSize wd a ≤ byteSize wd (a ++ b) := by
  rw [byteSize_append]; omega

/-- **what `Delimit` finds in a written table**: the column-wise maxima of the value ends -/
theorem delimit_written (wd : Char → Nat) (hwd : ∀ c, 1 ≤ wd c) (hw : wd ' ' = 1) (nh : Bool) (w : Nat) (ws : List Nat)
    (lb : LB) (hlb : lb ≠ .cr) (e : Option LB) (he : e ≠ some .cr) (r : List Field) (more : List (List Field))
    (H : Written wd w ws (r :: more)) :
    delimit wd nh (lineOf wd true (w :: ws) r ++ (moreText wd lb (w :: ws) more ++ endingChars e))
      = (colMaxes (ws.length + 1) ((r :: more).map (esFrom wd 0 true (w :: ws)))).map Int.toNat := by
  have hshape : ∀ x ∈ r :: more, ∃ f fs, x = f :: fs := by
    intro x hx
    have := H.len x hx
    cases x with
    | nil => simp at this
    | cons f fs => exact ⟨f, fs, rfl⟩
  have hlineok : ∀ x ∈ r :: more, LineOK (lineOf wd true (w :: ws) x) := by
    intro x hx
    obtain ⟨f, fs, rfl⟩ := hshape x hx
    exact lineOK_lineOf wd w ws f fs (H.cells _ hx)
  -- the lines
  have htm : lb.chars = ['\n'] ∨ lb.chars = ['\r', '\n'] := by
    cases lb with
    | lf => exact Or.inl rfl
    | crlf => exact Or.inr rfl
    | cr => exact absurd rfl hlb
  have hen : endingChars e = [] ∨ endingChars e = ['\n'] ∨ endingChars e = ['\r', '\n'] := by
    cases e with
    | none => exact Or.inl rfl
    | some l =>
      cases l with
      | lf => exact Or.inr (Or.inl rfl)
      | crlf => exact Or.inr (Or.inr rfl)
      | cr => exact absurd rfl he
  have hlines : readLines [] (lineOf wd true (w :: ws) r ++ (moreText wd lb (w :: ws) more ++ endingChars e))
      = (r :: more).map (lineOf wd true (w :: ws)) := by
    rw [moreText_moreLines, readLines_text lb.chars htm (endingChars e) hen _ _ (hlineok r (by simp))
      (by
        intro x hx
        obtain ⟨y, hy, rfl⟩ := List.mem_map.mp hx
        exact hlineok y (by simp [hy]))]
    simp
  have hrow : ∀ x ∈ r :: more,
      spacesOfLine wd (lineOf wd true (w :: ws) x) = mkSpaces (esFrom wd 0 true (w :: ws) x) (tailSeps (1 + (w : Int)) ws) ∧
      Geo 1 (esFrom wd 0 true (w :: ws) x) (tailSeps (1 + (w : Int)) ws) :=
    fun x hx => row_spaces wd hwd hw w ws x (H.len x hx) (H.fit x hx) (H.cells x hx) (H.flush x hx)
  have htable : tableSpaces wd (lineOf wd true (w :: ws) r ++ (moreText wd lb (w :: ws) more ++ endingChars e))
      = ((r :: more).map fun x => (([] : List Space), esFrom wd 0 true (w :: ws) x)).map
          fun l => l.1 ++ mkSpaces l.2 (tailSeps (1 + (w : Int)) ws) := by
    unfold tableSpaces
    rw [hlines, List.map_map, List.map_map]
    have : ∀ x ∈ r :: more, (spacesOfLine wd ∘ lineOf wd true (w :: ws)) x
        = ((fun l : List Space × List Int => l.1 ++ mkSpaces l.2 (tailSeps (1 + (w : Int)) ws)) ∘
            fun x => (([] : List Space), esFrom wd 0 true (w :: ws) x)) x := by
      intro x hx
      simp [(hrow x hx).1]
    rw [List.map_congr_left this]
    apply List.filter_eq_self.mpr
    intro s hs
    obtain ⟨x, hx, rfl⟩ := List.mem_map.mp hs
    have := mkSpaces_ne 1 _ _ (hrow x hx).2
    simp only [Function.comp, List.nil_append]
    cases hm : mkSpaces (esFrom wd 0 true (w :: ws) x) (tailSeps (1 + (w : Int)) ws) with
    | nil => exact absurd hm this
    | cons a as => rfl
  unfold delimit
  rw [htable]
  have hfuel : (tailSeps (1 + (w : Int)) ws).length + 1
      ≤ byteSize wd (lineOf wd true (w :: ws) r ++ (moreText wd lb (w :: ws) more ++ endingChars e)) + 2 := by
    obtain ⟨f, fs, rfl⟩ := hshape r (by simp)
    have h1 := byteSize_lineOf_ge wd hwd (w :: ws) (f :: fs) true (by simpa using H.len (f :: fs) (by simp))
      (fun g hg => (H.cells (f :: fs) (by simp) g hg).2)
    have h2 := byteSize_le_append wd (lineOf wd true (w :: ws) (f :: fs)) (moreText wd lb (w :: ws) more ++ endingChars e)
    rw [tailSeps_length]
    simp only [List.length_cons] at h1
    omega
  rw [delimitLoop_geo nh (tailSeps (1 + (w : Int)) ws) _ 1 1 [] _ (by simp)
    (by
      intro l hl
      obtain ⟨x, hx, rfl⟩ := List.mem_map.mp hl
      exact ⟨by intro s hs; simp at hs, (hrow x hx).2⟩)
    (by simp [lastPos]) (by omega) (Int.le_refl _) (Int.le_refl _) hfuel]
  simp [tailSeps_length, List.map_map, Function.comp_def]

/-- **a written table is read back record by record with the positions `Delimit` finds** -/
theorem readAll_written (wd : Char → Nat) (hwd : ∀ c, 1 ≤ wd c) (hw : wd ' ' = 1) (nh : Bool) (w : Nat) (ws : List Nat)
    (lb : LB) (hlb : lb ≠ .cr) (e : Option LB) (he : e ≠ some .cr) (r : List Field) (more : List (List Field))
    (H : Written wd w ws (r :: more)) :
    ∃ σ, readAll wd (delimit wd nh (lineOf wd true (w :: ws) r ++ (moreText wd lb (w :: ws) more ++ endingChars e)))
          (lineOf wd true (w :: ws) r ++ (moreText wd lb (w :: ws) more ++ endingChars e)) = .ok σ ∧
      σ.recs = ((r :: more).map rowOf).reverse := by
  rw [delimit_written wd hwd hw nh w ws lb hlb e he r more H]
  have hcol := colOK_colMaxes wd (w :: ws) (r :: more) 0 true (fun x hx => ⟨by simpa using H.len x hx, H.fit x hx⟩)
  simp only [List.length_cons] at hcol
  generalize (colMaxes (ws.length + 1) ((r :: more).map (esFrom wd 0 true (w :: ws)))).map Int.toNat = P at hcol ⊢
  have hcells : ∀ x ∈ r :: more, ∀ f ∈ x, NoBreak f.contents ∧ f.contents ≠ [] := by
    intro x hx f hf
    obtain ⟨h1, h2⟩ := H.cells x hx f hf
    exact ⟨fun c hc => ⟨(noSpace_not_break c (h1 c hc)).2, (noSpace_not_break c (h1 c hc)).1⟩, h2⟩
  have hvalid := validFrom_colOK wd hwd (w :: ws) r P 0 0 true (hcol r (by simp)) (Nat.le_refl 0)
    (fun f hf => (hcells r (by simp) f hf).2)
  obtain ⟨σ, h1, h2⟩ := run_rows_auto wd hwd hw P w ws lb hlb e he more r { cols := P }
    (fun x hx => ⟨H.fit x hx, hcol x hx, hcells x hx⟩)
  refine ⟨σ, ?_, by simpa using h2⟩
  unfold readAll
  rw [if_neg (by rw [hvalid]; simp)]
  exact h1

theorem colMaxes_length (k : Nat) (ess : List (List Int)) : (colMaxes k ess).length = k := by
  induction k generalizing ess with
  | zero => rfl
  | succ k ih => simp [colMaxes, ih]

theorem measure_length (wd : Char → Nat) (n : Nat) (recs : List (List Field)) : (measure wd n recs).length = n := by
  simp [measure]

theorem flush_of_left (wd : Char → Nat) : ∀ (ws : List Nat) (fs : List Field), (∀ f ∈ fs, f.align = .left) → Flush wd ws fs := by
  intro ws
  induction ws with
  | nil => intro fs _; cases fs <;> simp [Flush]
  | cons w ws ih =>
    intro fs h
    cases fs with
    | nil => simp [Flush]
    | cons f fs =>
      simp only [Flush]
      exact ⟨by simp [leadPad, h f (by simp)], ih fs (fun g hg => h g (by simp [hg]))⟩

end Csvq.Fixed
