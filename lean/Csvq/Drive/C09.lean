/- Driver handlers for the C09 correspondence stream: replays a schedule of (pid, VerifPoint) events of
   the real handler code on the model's file-system state and prints the control files after every event. -/
import Csvq.Model.Lock
import Csvq.Gen.FsProto
namespace Csvq.Drive
open Csvq.Lock

structure FsSt where
  lockOwner : Option Nat
  rlocks : List Nat     -- creators of the existing rlock files
  deriving Repr

def fsShow (s : FsSt) : String :=
  s!"L{if s.lockOwner.isSome then 1 else 0}R{s.rlocks.length}"

/-- effect of the action that follows the named point, performed by process `p` -/
def applyEvent (s : FsSt) (p : Nat) (name : String) : FsSt :=
  match name with
  | "lock.create" | "rlock.createlock" =>
    if s.lockOwner.isSome then s else { s with lockOwner := some p }
  | "rlock.create" => { s with rlocks := p :: s.rlocks }
  | "cf.remove.lock" => if s.lockOwner = some p then { s with lockOwner := none } else s
  | "cf.remove.rlock" => { s with rlocks := s.rlocks.erase p }
  | _ => s

/-- BFS over the executable protocol with the regenerated flags: a state with two holders -/
partial def search (fl : Flags) (n : Nat) : Option XState :=
  let init : XState := { pcs := List.replicate n .idle, lockOwner := none, rlocks := List.replicate n false }
  let rec go (frontier : List XState) (seen : List XState) (fuel : Nat) : Option XState :=
    match fuel, frontier with
    | 0, _ => none
    | _, [] => none
    | fuel + 1, s :: rest =>
      if xbad s then some s
      else
        let succ := (List.range n).flatMap (xsteps fl s)
        let fresh := succ.filter (fun t => !(seen.contains t) && !(rest.contains t))
        go (rest ++ fresh.eraseDups) (s :: seen) fuel
  go [init] [] 20000

def c09 (cmd : String) (args : List String) : String :=
  match cmd, args with
  | "trace", _roles :: evs =>
    let step := fun (acc : FsSt × List String) (e : String) =>
      match e.splitOn ":" with
      | [p, name] =>
        match p.toNat? with
        | some p => let s' := applyEvent acc.1 p name; (s', fsShow s' :: acc.2)
        | none => acc
      | _ => acc
    let r := evs.foldl step ({ lockOwner := none, rlocks := [] }, [])
    String.intercalate "," r.2.reverse
  | "search", [n] =>
    match n.toNat? with
    | some n =>
      match search Csvq.Gen.lockFlags n with
      | none => "no-violating-state"
      | some s => s!"violating-state:{repr s.pcs}"
    | none => "bad-op"
  | _, _ => "bad-op"

end Csvq.Drive
