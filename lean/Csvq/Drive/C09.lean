/- Driver handlers for the C09 correspondence stream: replays a schedule of (pid, VerifPoint) events of
   the real handler code on the model's file-system state and prints the control files after every event. -/
import Csvq.Model.Lock
import Csvq.Gen.FsProto
import Csvq.Model.Retry
import Csvq.Model.Release
import Csvq.Model.TxLocks
import Csvq.Gen.RetryLoop
namespace Csvq.Drive
open Csvq.Lock

structure FsSt where
  lockOwner : Option Nat
  rlocks : List Nat     -- creators of the existing rlock files
  deriving Repr

def fsShow (s : FsSt) : String :=
  s!"L{if s.lockOwner.isSome then 1 else 0}R{s.rlocks.length}"

/-- effect of the action that follows the named point, performed by process `p` -/
def applyEvent (s : FsSt) (p : Nat) (name : String) : FsSt :=
  match name with
  | "lock.create" | "rlock.createlock" =>
    if s.lockOwner.isSome then s else { s with lockOwner := some p }
  | "rlock.create" => { s with rlocks := p :: s.rlocks }
  | "cf.remove.lock" => if s.lockOwner = some p then { s with lockOwner := none } else s
  | "cf.remove.rlock" => { s with rlocks := s.rlocks.erase p }
  | _ => s

/-- BFS over the executable protocol with the regenerated flags: a state with two holders -/
partial def search (fl : Flags) (n : Nat) : Option XState :=
  let init : XState := { pcs := List.replicate n .idle, lockOwner := none, rlocks := List.replicate n false }
  let rec go (frontier : List XState) (seen : List XState) (fuel : Nat) : Option XState :=
    match fuel, frontier with
    | 0, _ => none
    | _, [] => none
    | fuel + 1, s :: rest =>
      if xbad s then some s
      else
        let succ := (List.range n).flatMap (xsteps fl s)
        let fresh := succ.filter (fun t => !(seen.contains t) && !(rest.contains t))
        go (rest ++ fresh.eraseDups) (s :: seen) fuel
  go [init] [] 20000

/-! ### search over the REGENERATED retry loop: an environment and an instant at which the context ends such that
    CreateControlFileContext returns an error and leaves a control file, or returns a file it does not own -/

open Csvq.Retry in
def cfName : CF → String
  | .lock => "Lock" | .rlock => "RLock" | .temp => "Temporary"

open Csvq.Retry in
def mineShow (m : Mine) : String :=
  let l := (if m.lock then [".lock"] else []) ++ (if m.rlock then [".rlock"] else []) ++ (if m.temp then [".temp"] else [])
  if l.isEmpty then "nothing" else String.intercalate "+" l

open Csvq.Retry in
def resShow : TRes → String
  | .ok f => s!"ok({cfName f})" | .soft => "LockError" | .hard => "other-error"

open Csvq.Retry in
/-- the same walk as `runStmts`, with a line per statement (display only; the verdict comes from `run`) -/
def traceStmts (env : Env) (T : Nat) (tr : List TStmt) : List RStmt → LSt → List String → List String × Flow
  | [], s, log => (log, .cont s)
  | .attempt :: rest, s, log =>
    let o := runTry env tr s.t s.mine []
    traceStmts env T tr rest ⟨o.t, o.mine, some o.res⟩
      (log ++ [s!"instants {s.t}..{o.t - 1}: attempt -> {resShow o.res}, own control files now: {mineShow o.mine}"])
  | .ifRet c r :: rest, s, log =>
    let cs := match c with | .ctxDone => "ctx.Err() != nil" | .attemptOk => "err == nil" | .attemptHard => "err is not a LockError"
    let rs := match r with | .fileNil => "return f, nil" | .nilErr => "return nil, <error>"
    if evalCond T s c then (log ++ [s!"instant {s.t}: {cs}? yes -> {rs}"], .ret r { s with t := s.t + 1 })
    else traceStmts env T tr rest { s with t := s.t + 1 } (log ++ [s!"instant {s.t}: {cs}? no"])
  | .selectCtxOrTimer r :: rest, s, log =>
    let d := (env s.t).delay
    let rs := match r with | .fileNil => "return f, nil" | .nilErr => "return nil, <error>"
    if selectReturns T s.t d (env s.t).timerWins then (log ++ [s!"instant {s.t}: select: ctx.Done() -> {rs}"], .ret r { s with t := s.t + 1 })
    else traceStmts env T tr rest { s with t := s.t + d + 1 } (log ++ [s!"instant {s.t}: select: timer after {d}"])

open Csvq.Retry in
def traceRun (env : Env) (T : Nat) (tr : List TStmt) (lp : Loop) (fuel : Nat) : List String :=
  let rec loop (n : Nat) (s : LSt) (log : List String) : List String :=
    match n with
    | 0 => log ++ ["(no return within the rounds tried)"]
    | n + 1 =>
      match traceStmts env T tr lp.body s log with
      | (log', .ret _ _) => log'
      | (log', .cont s') => loop n s' log'
  match traceStmts env T tr lp.pre ⟨0, .none, none⟩ [] with
  | (log, .ret _ _) => log
  | (log, .cont s) => loop fuel s log

open Csvq.Retry in
/-- environments tried: nobody else; somebody else's `.lock` / `.rlock` during the first k instants -/
def searchEnvs : List (String × Env) :=
  [("no other process", fun _ => ⟨false, false, false, false, 0, false⟩)] ++
  (List.range 8).map (fun k => (s!"another process holds .lock during instants 0..{k}", fun t => ⟨decide (t ≤ k), false, false, false, 0, false⟩)) ++
  (List.range 8).map (fun k => (s!"another process holds an .rlock during instants 0..{k}", fun t => ⟨false, decide (t ≤ k), false, false, 0, false⟩))

open Csvq.Retry in
def retrySearch : String :=
  let cands := [CF.lock, CF.rlock, CF.temp].flatMap (fun ft => searchEnvs.flatMap (fun e => (List.range 24).map (fun T => (ft, e, T))))
  let bad := cands.find? (fun c =>
    let (ft, e, T) := c
    match run e.2 T (Csvq.Gen.Retry.tryOf ft) Csvq.Gen.Retry.retryLoop 40 0 with
    | some (.nilErr, s) => s.mine != .none
    | some (.fileNil, s) => s.mine != .only ft
    | none => true)
  match bad with
  | none => s!"no-violating-schedule among {cands.length} (file type, environment, instant) combinations"
  | some (ft, e, T) =>
    let verdict := match run e.2 T (Csvq.Gen.Retry.tryOf ft) Csvq.Gen.Retry.retryLoop 40 0 with
      | some (.nilErr, s) => s!"returns an ERROR and leaves {mineShow s.mine} behind, recorded nowhere"
      | some (.fileNil, s) => s!"returns a control file while its own files are {mineShow s.mine}"
      | none => "does not return"
    s!"violating-schedule: CreateControlFileContext({cfName ft}); {e.1}; the context (wait timeout / cancellation) ends at instant {T}; " ++
      String.intercalate "; " (traceRun e.2 T (Csvq.Gen.Retry.tryOf ft) Csvq.Gen.Retry.retryLoop 40) ++ s!" => {verdict}"

/-! ### search over the REGENERATED release functions: a schedule (failures of steps, the instant at which another
    process takes the table) after which the releaser has changed the table's file under another process, or
    another process has met a `.temp` file of the releaser -/

open Csvq.Retry Csvq.Release in
def relOpShow : RelOp → String
  | .closeFp => "file.Close(h.fp)"
  | .removeCreated => "os.Remove(h.path) [the table this handler created]"
  | .closeTempFp => "file.Close(h.tempFile.fp)"
  | .renameTemp => "os.Rename(.temp -> table)"
  | .closeCF .lock => "remove .lock"
  | .closeCF .rlock => "remove .rlock"
  | .closeCF .temp => "remove .temp"

open Csvq.Retry Csvq.Release in
def releaseSearch : String :=
  let fns : List (String × List RStep) :=
    [("Handler.close", Csvq.Gen.Retry.releaseClose), ("Handler.closeWithErrors", Csvq.Gen.Retry.releaseCloseWithErrors),
     ("Handler.commit (update)", Csvq.Gen.Retry.releaseCommitUpdate), ("Handler.commit (other)", Csvq.Gen.Retry.releaseCommitOther)]
  let kinds : List (String × Mine × Bool) :=
    [("a handler opened for update (.lock + .temp)", ⟨true, false, true⟩, false),
     ("a handler that created the table (.lock, uncommitted file)", ⟨true, false, false⟩, true),
     ("a read handler (.rlock)", ⟨false, true, false⟩, false)]
  let cands := fns.flatMap (fun f => kinds.flatMap (fun k =>
    if f.1 == "Handler.commit (update)" && !k.2.1.lock then [] else
    (List.range (f.2.length + 1)).flatMap (fun failAt =>       -- failAt = length: nothing fails
      (List.range (f.2.length + 1)).map (fun enterAt => (f, k, failAt, enterAt)))))
  let sched := fun (n failAt enterAt : Nat) =>
    (List.range (n + 1)).flatMap (fun i =>
      (if i == enterAt then [Ev.otherEnter, Ev.otherLeave] else []) ++ (if i < n then [Ev.stepA (i == failAt)] else []))
  let bad := cands.find? (fun c =>
    let (f, k, failAt, enterAt) := c
    let s := run (start k.2.1 k.2.2 f.2) (sched f.2.length failAt enterAt)
    s.touchedUnlocked || s.inTheWay || s.dropped != 0)
  match bad with
  | none => s!"no-violating-schedule among {cands.length} (function, handler, failing step, instant of the other process) combinations"
  | some (f, k, failAt, enterAt) =>
    let s := run (start k.2.1 k.2.2 f.2) (sched f.2.length failAt enterAt)
    let lines := (List.range (f.2.length + 1)).flatMap (fun i =>
      (if i == enterAt then ["ANOTHER PROCESS takes the table (its .lock file is gone), may commit, and leaves"] else []) ++
      (match f.2[i]? with
       | some st => [s!"step {i + 1}: {relOpShow st.op}{if i == failAt then " FAILS" else ""}"]
       | none => []))
    let verdict :=
      if s.touchedUnlocked then "the releaser removes / replaces the table's file AFTER another process could hold the table: that process's committed change is lost"
      else if s.inTheWay then "the process that takes the table meets a .temp file of the releaser"
      else "a failure is dropped"
    s!"violating-schedule: {f.1} of {k.1}; " ++ String.intercalate "; " lines ++ s!" => {verdict}"

/-! ### search over the REGENERATED Transaction.Commit: an execution in which a call that can release held tables
    runs before an encode step / a publication / an error return to the caller -/

open Csvq.TxLocks in
def evShow : Ev → String
  | .errReturn => "Commit returns an error"
  | .relErrReturn => "the releasing call fails: Commit returns its error"
  | .encode => "P1 encodes a changed table (b) into its .temp file"
  | .commitTable => "P1 publishes a changed table (rename) and gives it up"
  | .releaseViews n => s!"P1 calls {n}: the handlers of the tables it only LOCKED (a: SELECT … FOR UPDATE / DML without a match) are closed, their .lock/.temp files removed -> P2 can take a (UPDATE a …) and commit"
  | .releaseAll => "P1 calls ReleaseResources: everything still held is given up"
  | .returnNil => "Commit returns"

open Csvq.TxLocks in
def txSearch : String :=
  let cands := [0, 1, 2].flatMap (fun c => [0, 1, 2].flatMap (fun u => (List.range 16).map (fun k => (c, u, k))))
  let fsOf := fun (k : Nat) => if k == 0 then [] else List.replicate (k - 1) false ++ [true]
  let bad := cands.find? (fun x =>
    let (c, u, k) := x
    !scan false (runSegs Csvq.Gen.Retry.txCommit [c, u, c, u] (fsOf k)).1)
  match bad with
  | none => s!"no-violating-schedule among {cands.length} executions of the regenerated Transaction.Commit (created x updated tables x error return taken)"
  | some (c, u, k) =>
    let t := (runSegs Csvq.Gen.Retry.txCommit [c, u, c, u] (fsOf k)).1
    s!"violating-schedule: P1 holds a (locked only) and {c} created / {u} updated tables; COMMIT starts; " ++
      String.intercalate "; " (t.map evShow) ++ " => a table was released while the transaction was still committing (it stays released if the commit then fails)"

def c09 (cmd : String) (args : List String) : String :=
  match cmd, args with
  | "trace", _roles :: evs =>
    let step := fun (acc : FsSt × List String) (e : String) =>
      match e.splitOn ":" with
      | [p, name] =>
        match p.toNat? with
        | some p => let s' := applyEvent acc.1 p name; (s', fsShow s' :: acc.2)
        | none => acc
      | _ => acc
    let r := evs.foldl step ({ lockOwner := none, rlocks := [] }, [])
    String.intercalate "," r.2.reverse
  | "retrysearch", _ => retrySearch
  | "releasesearch", _ => releaseSearch
  | "txsearch", _ => txSearch
  | "createrace", [cls] =>
    -- two processes CREATE the same table: H is held before (cls = before) / after (cls = after) it has created its
    -- `.lock` while S runs its whole constructor (and, if it succeeds, commits and releases); the regenerated
    -- NewHandlerForCreate with the regenerated TryCreateLockFile as its one attempt
    let prog := Csvq.Gen.Retry.newHandlerForCreate
    let tryIn := fun (busy : Bool) =>
      let o := Csvq.Retry.runTry (fun _ => ⟨busy, false, false, false, 0, false⟩) (Csvq.Gen.Retry.tryOf .lock) 0 .none []
      (o.res, o.mine)
    let s := Csvq.Retry.runCreate false false false (tryIn (cls == "after")) prog .init none
    let h := Csvq.Retry.runCreate false (cls == "before" && !s.1) false (tryIn false) prog .init none
    let word := fun (b : Bool) => if b then "err" else "ok"
    let table := if !h.1 then "H" else if !s.1 && !h.2.removedForeign then "S" else "none"
    s!"H:{word h.1} S:{word s.1} table:{table}"
  | "cancelat", [ft, e, T] =>
    -- the regenerated retry loop on a free table (or one held by another process for ever), the context over from instant T on
    let f? : Option Csvq.Retry.CF := match ft with
      | "lock" => some .lock | "rlock" => some .rlock | "temp" => some .temp | _ => none
    match f?, T.toNat? with
    | some f, some T =>
      let env : Csvq.Retry.Env := fun _ => ⟨e == "busy", false, false, false, 0, false⟩
      match Csvq.Retry.run env T (Csvq.Gen.Retry.tryOf f) Csvq.Gen.Retry.retryLoop 60 0 with
      | some (.fileNil, s) => "ok:" ++ mineShow s.mine
      | some (.nilErr, s) => "err:" ++ mineShow s.mine
      | none => "no-return"
    | _, _ => "bad-op"
  | "search", [n] =>
    match n.toNat? with
    | some n =>
      match search Csvq.Gen.lockFlags n with
      | none => "no-violating-state"
      | some s => s!"violating-state:{repr s.pcs}"
    | none => "bad-op"
  | _, _ => "bad-op"

end Csvq.Drive
