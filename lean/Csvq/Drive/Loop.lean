/- Generic line loop of a model driver: stdin `<stream>.<cmd> args…` → one result line each. -/
namespace Csvq.Drive

partial def loop (f : String → List String → String) (h out : IO.FS.Stream) : IO Unit := do
  let line ← h.getLine
  if line.isEmpty then return ()
  let l := (line.dropEndWhile (fun c => c = '\n' || c = '\r')).toString
  let res := match l.splitOn " " with
    | [] => "bad-op"
    | head :: args =>
      match head.splitOn "." with
      | [_, cmd] => f cmd args
      | _ => "bad-op"
  out.putStrLn res
  loop f h out

def runDriver (f : String → List String → String) : IO Unit := do
  let out ← IO.getStdout
  loop f (← IO.getStdin) out
  out.flush

end Csvq.Drive
