/- Driver handlers for the C10 / C11 correspondence streams (commit and close operation sequences). -/
import Csvq.Model.Commit
import Csvq.Gen.FsProto
import Csvq.Model.FileBytes
import Csvq.Model.Proto
import Csvq.Model.TxCommit
import Csvq.Model.Fixed
namespace Csvq.Drive
open Csvq.Commit

def showData (s : TState Bool) : String :=
  (match s.data with | some false => "old" | some true => "new" | none => "missing") ++
  (if s.temp.isSome then "+temp" else "") ++ (if s.lock then "+lock" else "") ++ (if s.rlock then "+rlock" else "")

/-- number of generated operations that precede the named VerifPoint of Handler.commit -/
def prefixAt (ops : List String) (point : String) : Option Nat :=
  let idx (p : String → Bool) : Option Nat := (ops.findIdx? p)
  match point with
  | "commit.closefp" => some 0
  | "commit.closetemp" => idx (· = "close(h.tempFile.fp)")
  | "commit.remove" => (idx (· = "remove(h.path)")).orElse fun _ => idx (· = "rename(h.tempFile.path,h.path)")
  | "commit.rename" => idx (· = "rename(h.tempFile.path,h.path)")
  | "commit.renamed" => (idx (· = "rename(h.tempFile.path,h.path)")).map (· + 1)
  | "commit.unlock" => idx (· = "cf_close(h.lockFile)")
  | "commit.done" => some ops.length
  | _ => none

/-- one file-descriptor operation of the byte-level model: `t` ftruncate(0), `s` lseek(0), `w:<hex>` write -/
def fbytesOp (f : Csvq.FileBytes.F) (tok : String) : Option Csvq.FileBytes.F :=
  if tok = "t" then some (Csvq.FileBytes.truncate0 f)
  else if tok = "s" then some (Csvq.FileBytes.seek0 f)
  else match tok.splitOn ":" with
    | ["w", h] => (Csvq.Proto.unhex h).map fun b => Csvq.FileBytes.write f b
    | _ => none


/-! the commit with a refusing encoder (Model/TxCommit.lean over the regenerated loop bodies)

    c10.txcommit <table>…      table = <c|u>:ok | <c|u>:fail | <c|u>:<fmt>:<enc>:<width>:<hex of the offending text>
                               (c: created in this transaction, u: updated); tokens starting with `#` are comments
        answer: what each table file holds after the COMMIT statement: `old` / `new`, created: `absent` / `new`
    c10.endlb <fmt> <enc> <LF|CRLF|CR>      the bytes (hex) a written file ends with
    c10.newfixed <LF|CRLF> <withoutHeader 0|1> <p1,p2,…> <row>…    row = hex,hex,… (`-`: empty text; all cells are
                               left-aligned texts): the file (hex) a fixed-length table with explicit delimiter
                               positions is written as, or `E` when the writer refuses it -/

def unhexOrEmpty (s : String) : Option (List Nat) := if s = "-" then some [] else Csvq.Proto.unhex s

/-- (created?, does its encoder refuse it?) -/
def parseTxTable (tok : String) : Option (Bool × Bool) :=
  match tok.splitOn ":" with
  | [k, "ok"] => if k = "c" then some (true, false) else if k = "u" then some (false, false) else none
  | [k, "fail"] => if k = "c" then some (true, true) else if k = "u" then some (false, true) else none
  | [k, fmt, enc, w, hx] =>
    match w.toNat?, unhexOrEmpty hx with
    | some w, some v =>
      let bad := Csvq.TxCommit.cellRefused fmt enc w v
      if k = "c" then some (true, bad) else if k = "u" then some (false, bad) else none
    | _, _ => none
  | _ => none

def txCommit (toks : List String) : String :=
  match (toks.filter fun t => !t.startsWith "#").mapM parseTxTable with
  | none => "bad-op"
  | some tabs =>
    let idx := List.range tabs.length
    let created := idx.filter fun i => (tabs.getD i (false, false)).1
    let updated := idx.filter fun i => !(tabs.getD i (false, false)).1
    let fail : Nat → Csvq.TxCommit.Fail := fun i => { encode := (tabs.getD i (false, false)).2 }
    let bodies := Csvq.FileBytes.loopBodies Csvq.Gen.fxTransactionCommit 1000
    let r := Csvq.TxCommit.commitRun bodies created updated fail
    String.intercalate " " (idx.map fun i =>
      if Csvq.TxCommit.swapped r.1 fail i then "new"
      else if (tabs.getD i (false, false)).1 then "absent" else "old")

def fixedRow (tok : String) : Option (List Csvq.Fixed.Field) :=
  (tok.splitOn ",").mapM fun h =>
    match unhexOrEmpty h with
    | some b => (String.fromUTF8? (ByteArray.mk (b.map (fun n => UInt8.ofNat n)).toArray)).map fun s => ⟨s.toList, .left⟩
    | none => none

def newFixed (args : List String) : String :=
  match args with
  | lb :: wh :: ps :: rows =>
    let lb? : Option Csvq.Csv.LB := if lb = "LF" then some .lf else if lb = "CRLF" then some .crlf else none
    match lb?, (ps.splitOn ",").mapM String.toNat?, rows.mapM fixedRow with
    | some lb, some ps, some (hdr :: recs) =>
      let woh := wh = "1"
      let t : Csvq.Fixed.Table := if woh then ⟨[], hdr :: recs⟩ else ⟨hdr.map (·.contents), recs⟩
      match Csvq.Fixed.fileFixed (fun c => c.utf8Size) { lb := lb, withoutHeader := woh, positions := some ps, ending := some lb } t with
      | .ok cs => Csvq.Proto.hex ((String.ofList cs).toUTF8.toList.map (·.toNat))
      | .error _ => "E"
    | _, _, _ => "bad-op"
  | _ => "bad-op"

def c10 (cmd : String) (args : List String) : String :=
  let ops := Csvq.Gen.commitUpdateOps
  match cmd, args with
  | "at", [point] =>
    match prefixAt ops point with
    | some k => showData (runOps ((ops.take k).map parseOp) symStart)
    | none => "unknown-point"
  | "check", [] =>
    let fops := ops.map parseOp
    match (List.range (fops.length + 1)).find? fun k =>
        let s := runOps (fops.take k) symStart
        s.stuck || !(s.data == some false || s.data == some true) with
    | none => "ok"
    | some k => s!"bad-prefix:{k}:after:{(ops.take k).getLast?.getD "-"}"
  | "close", [which] =>
    let l := if which = "witherrors" then Csvq.Gen.closeWithErrorsOps else if which = "commitother" then Csvq.Gen.commitOtherOps else Csvq.Gen.closeOps
    -- closing a handler that was opened for update / read: the data file is not removed (ForCreate guard)
    let fops := (l.filter (· ≠ "remove(h.path)")).map parseOp
    showData (runOps fops { symStart with rlock := true })
  | "txcommit", toks => txCommit toks
  | "endlb", [fmt, enc, lb] => Csvq.Proto.hex (Csvq.TxCommit.endingLineBreak fmt enc lb)
  | "newfixed", args => newFixed args
  | "fbytes", toks =>
    match toks.foldlM fbytesOp (⟨[], 0⟩ : Csvq.FileBytes.F) with
    | some f => s!"{Csvq.Proto.hex f.bytes}@{f.pos}"
    | none => "bad-op"
  | _, _ => "bad-op"

end Csvq.Drive
