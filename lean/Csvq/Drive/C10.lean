/- Driver handlers for the C10 / C11 correspondence streams (commit and close operation sequences). -/
import Csvq.Model.Commit
import Csvq.Gen.FsProto
import Csvq.Model.FileBytes
import Csvq.Model.Proto
namespace Csvq.Drive
open Csvq.Commit

def showData (s : TState Bool) : String :=
  (match s.data with | some false => "old" | some true => "new" | none => "missing") ++
  (if s.temp.isSome then "+temp" else "") ++ (if s.lock then "+lock" else "") ++ (if s.rlock then "+rlock" else "")

/-- number of generated operations that precede the named VerifPoint of Handler.commit -/
def prefixAt (ops : List String) (point : String) : Option Nat :=
  let idx (p : String → Bool) : Option Nat := (ops.findIdx? p)
  match point with
  | "commit.closefp" => some 0
  | "commit.closetemp" => idx (· = "close(h.tempFile.fp)")
  | "commit.remove" => (idx (· = "remove(h.path)")).orElse fun _ => idx (· = "rename(h.tempFile.path,h.path)")
  | "commit.rename" => idx (· = "rename(h.tempFile.path,h.path)")
  | "commit.renamed" => (idx (· = "rename(h.tempFile.path,h.path)")).map (· + 1)
  | "commit.unlock" => idx (· = "cf_close(h.lockFile)")
  | "commit.done" => some ops.length
  | _ => none

/-- one file-descriptor operation of the byte-level model: `t` ftruncate(0), `s` lseek(0), `w:<hex>` write -/
def fbytesOp (f : Csvq.FileBytes.F) (tok : String) : Option Csvq.FileBytes.F :=
  if tok = "t" then some (Csvq.FileBytes.truncate0 f)
  else if tok = "s" then some (Csvq.FileBytes.seek0 f)
  else match tok.splitOn ":" with
    | ["w", h] => (Csvq.Proto.unhex h).map fun b => Csvq.FileBytes.write f b
    | _ => none

def c10 (cmd : String) (args : List String) : String :=
  let ops := Csvq.Gen.commitUpdateOps
  match cmd, args with
  | "at", [point] =>
    match prefixAt ops point with
    | some k => showData (runOps ((ops.take k).map parseOp) symStart)
    | none => "unknown-point"
  | "check", [] =>
    let fops := ops.map parseOp
    match (List.range (fops.length + 1)).find? fun k =>
        let s := runOps (fops.take k) symStart
        s.stuck || !(s.data == some false || s.data == some true) with
    | none => "ok"
    | some k => s!"bad-prefix:{k}:after:{(ops.take k).getLast?.getD "-"}"
  | "close", [which] =>
    let l := if which = "witherrors" then Csvq.Gen.closeWithErrorsOps else if which = "commitother" then Csvq.Gen.commitOtherOps else Csvq.Gen.closeOps
    -- closing a handler that was opened for update / read: the data file is not removed (ForCreate guard)
    let fops := (l.filter (· ≠ "remove(h.path)")).map parseOp
    showData (runOps fops { symStart with rlock := true })
  | "fbytes", toks =>
    match toks.foldlM fbytesOp (⟨[], 0⟩ : Csvq.FileBytes.F) with
    | some f => s!"{Csvq.Proto.hex f.bytes}@{f.pos}"
    | none => "bad-op"
  | _, _ => "bad-op"

end Csvq.Drive
