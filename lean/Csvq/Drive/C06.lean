/- Driver handlers for the C06 correspondence streams. -/
import Csvq.Model.Proto
import Csvq.Model.Text
import Csvq.Model.Cast
import Csvq.Model.ParseFloat
import Csvq.Model.ParseTime
import Csvq.Model.FormatFloat
import Csvq.Model.FormatTime
import Csvq.Model.CellText
import Csvq.Model.CastFull
import Csvq.Model.Unicode
import Csvq.Model.ZoneProfile
namespace Csvq.Drive
open Csvq Csvq.Proto

def showCalc : CalcRes → String
  | .null => "N" | .int i => "I" ++ toString i | .flt f => "F" ++ showF f | .divZero => "E"

/-- the session prefix of the z-ops: `<offset> x<abbreviation> <number of formats> x<format>…`, then the rest -/
def parseSession : List String → Option (Session × List String)
  | off :: ab :: nf :: rest =>
    match off.toInt?, parseHexX ab, nf.toNat? with
    | some off, some ab, some nf =>
      if rest.length < nf then none
      else match (rest.take nf).mapM parseHexX with
        | some fmts => some ({ zone := { off := off, abbr := ab }, fmts := fmts }, rest.drop nf)
        | none => none
    | _, _, _ => none
  | _ => none

/-- the operator positions over values whose profile the MODEL derives under a session (texts included) -/
def c06z (cmd : String) (args : List String) : String :=
  let bad := "bad-op"
  match parseSession args with
  | none => bad
  | some (se, rest) =>
    match cmd, rest with
    | "sdtz", [h] =>
      match parseHexX h with
      | some b =>
        let r := TP.strToTime se.zone se.fmts b
        -- under UTC without formats the full model and Model/ParseTime.lean must be the same function
        if se.zone.off = 0 && se.fmts.isEmpty && r != PT.strToTime b then "model-split"
        else showOpt toString r
      | none => bad
    | "zcmp", [a, b] =>
      match parseVal a, parseVal b with
      | some a, some b =>
        let a := profileZ se a
        let b := profileZ se b
        String.intercalate " " [(cmp a b).toStr, (opEq a b).toStr, (opNe a b).toStr, (opLt a b).toStr,
          (opLe a b).toStr, (opGt a b).toStr, (opGe a b).toStr]
      | _, _ => bad
    | "zbetween", [v, lo, hi] =>
      match parseVal v, parseVal lo, parseVal hi with
      | some v, some lo, some hi =>
        (evalBetween false (profileZ se v) (profileZ se lo) (profileZ se hi)).toStr ++ " "
          ++ (evalBetween true (profileZ se v) (profileZ se lo) (profileZ se hi)).toStr
      | _, _, _ => bad
    | "zin", v :: l =>
      match parseVal v, l.mapM parseVal with
      | some v, some l =>
        (evalIn false (profileZ se v) (l.map (profileZ se))).toStr ++ " " ++ (evalIn true (profileZ se v) (l.map (profileZ se))).toStr
      | _, _ => bad
    | "zcase", v :: l =>
      match parseVal v, l.mapM parseVal with
      | some v, some l => showOpt toString (caseIdx (some (profileZ se v)) (l.map (profileZ se)) 0)
      | _, _ => bad
    | _, _ => bad

def c06 (cmd : String) (args : List String) : String :=
  let bad := "bad-op"
  match cmd, args with
  | "sdtz", _ => c06z cmd args
  | "zcmp", _ => c06z cmd args
  | "zbetween", _ => c06z cmd args
  | "zin", _ => c06z cmd args
  | "zcase", _ => c06z cmd args
  | "dfmtu", [h] =>
    -- value.ConvertDatetimeFormat of an arbitrary byte string (runes, verbs, WriteRune)
    match parseHexX h with
    | some b => hex (TP.userLayout b)
    | none => bad
  | "cmp", [a, b] =>
    match parseProfile a, parseProfile b with
    | some a, some b =>
      String.intercalate " " [(cmp a b).toStr, (opEq a b).toStr, (opNe a b).toStr, (opLt a b).toStr,
        (opLe a b).toStr, (opGt a b).toStr, (opGe a b).toStr, (identical a.raw b.raw).toStr]
    | _, _ => bad
  | "cmpsql", [a, b] =>
    match parseProfile a, parseProfile b with
    | some a, some b =>
      String.intercalate " " ([COp.eq, .ne, .lt, .le, .gt, .ge, .ident].map fun op => (evalComparison op a b).toStr)
    | _, _ => bad
  | "logic", [a, b] =>
    match parseProfile a, parseProfile b with
    | some a, some b => String.intercalate " " [(evalAnd a b).toStr, (evalOr a b).toStr, (evalNot a).toStr]
    | _, _ => bad
  | "between", [n, v, lo, hi] =>
    match parseBool n, parseProfile v, parseProfile lo, parseProfile hi with
    | some n, some v, some lo, some hi => (evalBetween n v lo hi).toStr
    | _, _, _, _ => bad
  | "in", n :: v :: l =>
    match parseBool n, parseProfile v, parseProfiles l with
    | some n, some v, some l => (evalIn n v l).toStr
    | _, _, _ => bad
  | "any", op :: v :: l =>
    match parseCOp op, parseProfile v, parseProfiles l with
    | some op, some v, some l => (evalAny op v l).toStr
    | _, _, _ => bad
  | "all", op :: v :: l =>
    match parseCOp op, parseProfile v, parseProfiles l with
    | some op, some v, some l => (evalAll op v l).toStr
    | _, _, _ => bad
  | "is", [n, a, b] =>
    match parseBool n, parseProfile a, parseProfile b with
    | some n, some a, some b => (evalIs n a b).toStr
    | _, _, _ => bad
  | "case", "0" :: l =>
    match parseProfiles l with
    | some l => showOpt toString (caseIdx none l 0)
    | _ => bad
  | "case", "1" :: v :: l =>
    match parseProfile v, parseProfiles l with
    | some v, some l => showOpt toString (caseIdx (some v) l 0)
    | _, _ => bad
  | "arith", [op, a, b] =>
    match parseAOp op, parseProfile a, parseProfile b with
    | some op, some a, some b => showCalc (calculate FVal.ieee op a b)
    | _, _, _ => bad
  | "unary", [a] =>
    -- +x  -x  NOT x  !x
    match parseProfile a with
    | some a =>
      String.intercalate " " [showCalc (evalUnary FVal.ieee false a), showCalc (evalUnary FVal.ieee true a),
        "T" ++ (evalNot a).toStr, "T" ++ (evalNot a).toStr]
    | none => bad
  | "rowcmp", op :: l =>
    match parseCOp op, parseProfiles l with
    | some op, some l =>
      let n := l.length / 2
      if l.length % 2 ≠ 0 then bad
      else match rowCompare op (l.take n) (l.drop n) with
        | some t => t.toStr
        | none => "E"
    | _, _ => bad
  | "cast", [fn, a] =>
    match parseProfile a with
    | some a =>
      match fn with
      | "integer" => showVal (castInteger a)
      | "float" => showVal (castFloat a)
      | "boolean" => showVal (castBoolean a)
      | "ternary" => showVal (castTernary a)
      | "string" => showOpt showVal (FF.castString a.raw)
      | _ => bad
    | none => bad
  | "castx", [off, a] =>
    -- INTEGER FLOAT BOOLEAN TERNARY DATETIME STRING of one value; `off` = zone offset of a Datetime argument
    match off.toInt?, parseProfile a with
    | some off, some a =>
      String.intercalate " " [showVal (castInteger a), showVal (castFloat a), showVal (castBoolean a), showVal (castTernary a),
        showVal (castDatetime a), showVal (castStringFull a.raw off)]
    | _, _ => bad
  | "sint", [h] =>
    match parseHexX h with
    | some b => showOpt toString (strToIntStrict b) ++ " " ++ (strTernary b).toStr
    | none => bad
  | "sflt", [h] =>
    match parseHexX h with
    | some b =>
      let t := PF.strTernaryB b
      let p : Profile := { raw := .str b, int? := PF.strToIntStrictB b, flt? := PF.strToFloat b, dt? := none,
                           bool? := (match t with | .U => none | .T => some true | .F => some false), strU? := none, tern := t }
      showOpt toString p.int? ++ " " ++ showOpt showF p.flt? ++ " " ++ t.toStr ++ " " ++ showVal (castInteger p)
        ++ " " ++ showVal (castBoolean p)
    | none => bad
  | "sdt", [h] =>
    match parseHexX h with
    | some b => showOpt toString (PT.strToTime b)
    | none => bad
  | "itext", [i] =>
    match i.toInt? with
    | some i => hex (decText i)
    | none => bad
  | "ffmt", [f] =>
    -- value.Float64ToStr(f, false), Float64ToStr(f, true), strconv.FormatFloat(f, 'e', -1, 64)
    match parseF f with
    | some x => hex (FF.fmtF x) ++ " " ++ hex (FF.fmtG x) ++ " " ++ hex (FF.fmtE x)
    | none => bad
  | "tfmt", [sec, nsec, off] =>
    -- time.Unix(sec, nsec) in a zone whose offset is `off` seconds: Format(time.RFC3339Nano)
    match sec.toInt?, nsec.toInt?, off.toInt? with
    | some sec, some nsec, some off => hex (FT.fmtTime (sec * 1000000000 + nsec) off)
    | _, _, _ => bad
  | "tback", [sec, nsec, off] =>
    -- … and value.StrToTime of that text
    match sec.toInt?, nsec.toInt?, off.toInt? with
    | some sec, some nsec, some off => showOpt toString (PT.strToTime (FT.fmtTime (sec * 1000000000 + nsec) off))
    | _, _, _ => bad
  | "dfmt", [h] =>
    -- value.ConvertDatetimeFormat of an ASCII format text
    match parseHexX h with
    | some b => hex (FT.convertFormat false b)
    | none => bad
  | "cell", [v, off] =>
    -- a non-string value, the cell texts ConvertFieldContents gives it, and the original against a String
    -- holding the plain text: ladder result, `=`, `<`, the two comparison keys
    match parseVal v, off.toInt? with
    | some v, some off =>
      let tf := cellText v false false off
      let p := profileOf v
      let q := profileOfText tf ((PF.trimSpace tf).map asciiUpper)
      let kt : KeyText := { itext := decText, ftext := FF.fmtF }
      String.intercalate " " ["x" ++ hex tf, "x" ++ hex (cellText v false true off), "x" ++ hex (cellText v true false off),
        (cmp p q).toStr, (opEq p q).toStr, (opLt p q).toStr, "x" ++ hex (serKey kt (norm p)), "x" ++ hex (serKey kt (norm q))]
    | _, _ => bad
  | "utables", [] =>
    -- the table facts the theorems of Props/C06Text.lean assume, evaluated on the regenerated tables
    (if Uni.tablesOK then "1" else "0") ++ " " ++ Gen.Uni.unicodeVersion
  | "uclass", [r] =>
    -- unicode.IsLetter IsDigit IsSpace ToUpper ToLower ToTitle SimpleFold of one rune
    match r.toNat? with
    | some r =>
      let b (x : Bool) : String := if x then "1" else "0"
      String.intercalate " " [b (Uni.isLetter r), b (Uni.isDigit r), b (Uni.isSpace r), toString (Uni.toUpper r),
        toString (Uni.toLower r), toString (if r ≤ 127 then Uni.toUpper r else Uni.toCase 2 r), toString (Uni.simpleFold r)]
    | none => bad
  | "upper", [a, b] =>
    -- strings.ToUpper(option.TrimSpace(·)) of both texts, strings.ToLower(a), strings.EqualFold(a, b)
    match parseHexX a, parseHexX b with
    | some a, some b =>
      String.intercalate " " ["x" ++ hex (Uni.strToUpper (PF.trimSpace a)), "x" ++ hex (Uni.strToUpper (PF.trimSpace b)),
        "x" ++ hex (Uni.strToLower a), if Uni.equalFold a b then "1" else "0"]
    | _, _ => bad
  | "prof", [v] =>
    match parseVal v with
    | some v => showProfile (profileOf v)
    | none => bad
  | _, _ => bad

end Csvq.Drive
