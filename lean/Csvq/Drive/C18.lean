/- Driver handlers for the C18 correspondence stream (escape functions, scanner, unary printer). -/
import Csvq.Model.Proto
import Csvq.Model.Escape
import Csvq.Model.Scanner
import Csvq.Model.UnaryPrint
import Csvq.Model.OpExpr
import Csvq.Model.Clause
import Csvq.Model.Query
import Csvq.Model.SubQuery
import Csvq.Model.Label
import Csvq.Model.LalrTables
namespace Csvq.Drive
open Csvq Csvq.Proto Csvq.Esc Csvq.Scan Csvq.UPrint

/-- hex token → code points ("-" is the empty string); the harness sends valid UTF-8 only -/
def unhexChars (s : String) : Option (List Char) :=
  if s = "-" then some []
  else match unhex s with
    | none => none
    | some bs =>
      match String.fromUTF8? (ByteArray.mk (bs.map UInt8.ofNat).toArray) with
      | some str => some str.toList
      | none => none

def hexChars (cs : List Char) : String :=
  if cs.isEmpty then "-" else hex ((String.ofList cs).toUTF8.toList.map (·.toNat))

def parseQuote (s : String) : Option Char :=
  match unhex (if s.length % 2 = 1 then "0" ++ s else s) with
  | some [n] => some (Char.ofNat n)
  | _ => none

def kindName : Kind → String
  | .eof => "$" | .uncategorized => "UNCAT" | .rune _ => "CH"
  | .identifier => "IDENTIFIER" | .string => "STRING" | .integer => "INTEGER" | .float => "FLOAT"
  | .ternary => "TERNARY" | .variable => "VARIABLE" | .flag => "FLAG" | .envVar => "ENVIRONMENT_VARIABLE"
  | .runtimeInfo => "RUNTIME_INFORMATION" | .externalCommand => "EXTERNAL_COMMAND" | .placeholder => "PLACEHOLDER"
  | .constant => "CONSTANT" | .tableFunction => "TABLE_FUNCTION" | .url => "URL"
  | .keyword k => k
  | .aggregateFunction => "AGGREGATE_FUNCTION" | .listFunction => "LIST_FUNCTION"
  | .analyticFunction => "ANALYTIC_FUNCTION" | .functionNth => "FUNCTION_NTH" | .functionWithIns => "FUNCTION_WITH_INS"
  | .comparisonOp => "COMPARISON_OP" | .stringOp => "STRING_OP" | .substitutionOp => "SUBSTITUTION_OP"

def errName : ErrKind → String
  | .literalNotTerminated => "LNT" | .invalidVariableSymbol => "IVS"
  | .invalidConstantSyntax => "CONST" | .numberConversion => "NUM"

def showTok (t : Tok) (err : Option ErrKind) : String :=
  (match err with | some e => "!" ++ errName e ++ ":" | none => "") ++
  kindName t.kind ++
  (match t.kind with | .eof => "" | _ => ":" ++ hexChars t.lit) ++
  ":" ++ toString t.line ++ "." ++ toString t.col ++
  (if t.quoted then ":q" else "") ++
  (if t.holderOrdinal ≠ 0 then ":h" ++ toString t.holderOrdinal else "")

def showResult (r : Result) : String :=
  let n := r.toks.length
  let parts := r.toks.zipIdx.map fun (t, i) => showTok t (if i + 1 = n then r.err else none)
  String.intercalate " " (parts ++ (if r.exhausted then ["NOPROGRESS"] else []) ++ ["n" ++ toString r.holderNumber])

def parseMode (s : String) : Option Mode :=
  match s.toList with
  | ['p', p, 'a', a] => some { forPrepared := p = '1', ansiQuotes := a = '1' }
  | _ => none

def parseUExpr : List String → Option UExpr
  | [] => none
  | [a] => if a.front = 'A' then (unhexChars (a.drop 1).toString).map .atom else none
  | op :: rest =>
    match parseUExpr rest with
    | none => none
    | some e =>
      if op = "N" then some (.neg e) else if op = "P" then some (.pos e)
      else if op = "B" then some (.bang e) else if op = "R" then some (.paren e) else none

/-! operator expressions: words of the op line <-> tokens of the model (table regenerated from parser.y) -/

open Csvq.OpExpr Csvq.Gen.Precedence in
def opWords : List (String × Tok Term) := [
  ("(", .lpar), (")", .rpar), ("OR", .sym .OR 0), ("AND", .sym .AND 0), ("NOT", .sym .NOT 0), ("=", .sym .c_eq 0),
  ("==", .sym .COMPARISON_OP 1), ("<", .sym .COMPARISON_OP 2), ("<=", .sym .COMPARISON_OP 3), (">", .sym .COMPARISON_OP 4),
  (">=", .sym .COMPARISON_OP 5), ("<>", .sym .COMPARISON_OP 6), ("!=", .sym .COMPARISON_OP 7), ("LIKE", .sym .LIKE 0),
  ("||", .sym .STRING_OP 0), ("+", .sym .c_plus 0), ("-", .sym .c_minus 0), ("*", .sym .c_star 0), ("/", .sym .c_slash 0),
  ("%", .sym .c_percent 0), ("!", .sym .c_bang 0), ("IS", .sym .IS 0),
  ("NULL", .lit 0), ("TRUE", .lit 1), ("FALSE", .lit 2), ("UNKNOWN", .lit 3),
  ("BETWEEN", .sym .BETWEEN 0), ("IN", .sym .IN 0), ("CURSOR", .lit 9), ("OPEN", .lit 10), ("RANGE", .lit 11), ("COUNT", .lit 12),
  ("SELECT", .kw .select), ("DISTINCT", .kw .distinct), ("FROM", .kw .from), ("WHERE", .kw .where), ("GROUP", .kw .group),
  ("BY", .kw .by), ("HAVING", .kw .having), ("ORDER", .kw .order), ("ASC", .kw .asc), ("DESC", .kw .desc), ("NULLS", .kw .nulls),
  ("FIRST", .kw .first), ("LAST", .kw .last), ("LIMIT", .kw .limit), ("OFFSET", .kw .offset), ("PERCENT", .kw .percent),
  ("ROW", .kw .row), ("ROWS", .kw .rows), ("ONLY", .kw .only), ("WITH", .kw .with), ("TIES", .kw .ties), ("AS", .kw .as),
  (",", .kw .comma), (".", .kw .dot), ("JOIN", .kw .join), ("INNER", .kw .inner), ("OUTER", .kw .outer), ("LEFT", .kw .left),
  ("RIGHT", .kw .right), ("FULL", .kw .full), ("CROSS", .kw .cross), ("NATURAL", .kw .natural), ("ON", .kw .on), ("USING", .kw .using),
  ("UNION", .kw .union), ("EXCEPT", .kw .except), ("INTERSECT", .kw .intersect), ("ALL", .kw .all),
  ("RECURSIVE", .kw .recursive), ("FOR", .kw .for_), ("UPDATE", .kw .update)]

/-- the atoms carry class and literal in their code (Csvq.Label.classOf): `x<k>` = 4k, the number k = 4k+1, a string
    literal `'<hex of its content>` = 4p+3, a back-quoted identifier `` `<hex> `` = 8p+2, p = the bytes behind a leading 1 -/
def literalWord (w : String) : Option Nat :=
  (unhex (w.drop 1).toString).map Csvq.Label.payloadOf

open Csvq.OpExpr Csvq.Gen.Precedence in
def wordToTok (w : String) : Option (Tok Term) :=
  match opWords.find? (fun p => p.1 = w) with
  | some (_, t) => some t
  | none =>
    if w.front = 'x' then (w.drop 1).toString.toNat?.map (fun n => .atom (4 * n))
    else if w.front = '\'' then (literalWord w).map (fun p => .atom (4 * p + 3))
    else if w.front = '`' then (literalWord w).map (fun p => .atom (8 * p + 2))
    else w.toNat?.map (fun n => .atom (4 * n + 1))

open Csvq.OpExpr Csvq.Gen.Precedence in
def tokToWord (t : Tok Term) : String :=
  match t with
  | .atom n =>
    match Csvq.Label.classOf n with
    | .xident => "x" ++ toString (n / 4)
    | .number => toString (n / 4)
    | .string => "'" ++ hex (Csvq.Label.payloadBytes (n / 4))
    | .quotedIdent => "`" ++ hex (Csvq.Label.payloadBytes (n / 8))
    | .namedIdent => "i" ++ hex (Csvq.Label.payloadBytes (n / 8))
  | t => match opWords.find? (fun p => p.2 = t) with
    | some (w, _) => w
    | none => "?"

open Csvq.OpExpr Csvq.Gen.Precedence in
mutual
def showShape : Expr Term → String
  | .atom n => tokToWord (.atom n)
  | .paren e => "P[" ++ showShape e ++ "]"
  | .pre t v e => (match t with | .c_minus => "u-" | .c_plus => "u+" | _ => tokToWord (.sym t v)) ++ "[" ++ showShape e ++ "]"
  | .bin l t v r => tokToWord (.sym t v) ++ "[" ++ showShape l ++ "," ++ showShape r ++ "]"
  | .post e _ neg w => (if neg then "ISNOT[" else "IS[") ++ showShape e ++ "," ++ tokToWord (.lit w) ++ "]"
  | .nbin l t v r => "NOT" ++ tokToWord (.sym t v) ++ "[" ++ showShape l ++ "," ++ showShape r ++ "]"
  | .between e neg lo hi => (if neg then "NOTBTW[" else "BTW[") ++ showShape e ++ "," ++ showShape lo ++ "," ++ showShape hi ++ "]"
  | .inl e neg vs => (if neg then "NOTIN[" else "IN[") ++ showShape e ++ ",(" ++ showArgs vs ++ ")]"
  | .call f as => "CALL[" ++ tokToWord (.atom f) ++ ",(" ++ showArgs as ++ ")]"
  | .cstat c neg range => "CS[" ++ tokToWord (.atom c) ++ (if neg then ",NOT" else "") ++ (if range then ",RANGE]" else ",OPEN]")
  | .cattr c => "CA[" ++ tokToWord (.atom c) ++ "]"
def showArgs : Args Term → String
  | .nil => ""
  | .cons e .nil => showShape e
  | .cons e (.cons e2 r) => showShape e ++ ";" ++ showArgs (.cons e2 r)
end

open Csvq.OpExpr Csvq.Gen.Precedence in
def opx (words : List String) : String :=
  match words.mapM wordToTok with
  | none => "bad-op"
  | some ts =>
    match parse genTable ts with
    | none => "ERR"
    | some e => showShape e ++ " " ++ String.intercalate "," ((print genTable e).map tokToWord)

open Csvq.OpExpr Csvq.Clause Csvq.Gen.Precedence in
/-- `c18.sel`: the printed tokens of the parsed SELECT, or ERR -/
def selx (words : List String) : String :=
  match words.mapM wordToTok with
  | none => "bad-op"
  | some ts =>
    match parseSelect genTable ts with
    | some (s, []) => String.intercalate " " ((printSelect genTable s).map tokToWord)
    | _ => "ERR"

open Csvq.OpExpr Csvq.Clause Csvq.Query Csvq.Gen.Precedence in
mutual
def showTree : SetTree Term → String
  | .ent _ => "s"
  | .sub q => "P[" ++ showQuery q ++ "]"
  | .op l k all r => (match k with | .union => "U" | .except => "X" | .intersect => "I") ++ (if all then "a" else "") ++
      "(" ++ showTree l ++ "," ++ showTree r ++ ")"
def showQuery : Query Term → String
  | .mk w b _ _ => (match w with | .nil => "" | .cons .. => "W[" ++ showWiths w ++ "]") ++ showTree b
def showWiths : Withs Term → String
  | .nil => ""
  | .cons _ _ _ q .nil => showQuery q
  | .cons _ _ _ q (.cons a b c d e) => showQuery q ++ "," ++ showWiths (.cons a b c d e)
end

open Csvq.OpExpr Csvq.Clause Csvq.Query Csvq.Gen.Precedence in
/-- `c18.qry`: the printed tokens of the parsed query (set operators, parenthesised operands, WITH, FOR UPDATE), or ERR -/
def qryx (words : List String) : String :=
  match words.mapM wordToTok with
  | none => "bad-op"
  | some ts =>
    match parseWhole genTable genLv ts with
    | some q => showQuery q ++ " | " ++ String.intercalate " " ((printQuery genTable q).map tokToWord)
    | none => "ERR"


open Csvq.OpExpr Csvq.Clause Csvq.Query Csvq.SubQuery Csvq.Gen.Precedence in
mutual
def showNQ : NQ Term → String
  | .mk skel subs => showQuery skel ++ "{" ++ showNQs subs ++ "}"
def showNQs : NQs Term → String
  | .nil => ""
  | .cons q .nil => showNQ q
  | .cons q (.cons a b) => showNQ q ++ ";" ++ showNQs (.cons a b)
end

open Csvq.OpExpr Csvq.Clause Csvq.Query Csvq.SubQuery Csvq.Gen.Precedence in
/-- `c18.nq`: queries with sub-queries as values and as tables (Model/SubQuery.lean, nesting depth ≤ 8): the shape of the
    skeleton, the shapes of its sub-queries in text order, the printed tokens; or ERR.  The atom codes 16 i + 2 / 16 i + 10 / 8 i + 6
    are the sub-query atoms here, so back-quoted identifiers (which the other ops code that way) are not admitted. -/
def nqx (words : List String) : String :=
  if words.any (fun w => w.front = '`') then "bad-op" else
  match words.mapM (fun w => if w = "EXISTS" then some (.lit existsLit) else wordToTok w) with
  | none => "bad-op"
  | some ts =>
    match parseNWhole genTable genLv 8 ts with
    | some q => showNQ q ++ " | " ++ String.intercalate " " ((printN genTable q).map (fun t => if t = .lit existsLit then "EXISTS" else tokToWord t))
    | none => "ERR"

/-! `c18.lbl`: Field.Name() of every item of a select list, as the text the header line shows -/

open Csvq.OpExpr Csvq.Label Csvq.Gen.Precedence in
def genSpell : Spell Term where
  atoms := genAtoms
  sym t v := (tokToWord (.sym t v)).toList
  preSep t o := match t with
    | .NOT => true                                                  -- joinWithSpace [NOT, operand]
    | .c_bang => o.head? = some '!' || o.head? = some ':'           -- "!!" and "!:" would be read as one operator
    | .c_minus => o.head? = some '-'                                -- "--" would begin a comment
    | _ => false

open Csvq.OpExpr Csvq.Clause Csvq.Label Csvq.Gen.Precedence in
def lblx (words : List String) : String :=
  match words.mapM wordToTok with
  | none => "bad-op"
  | some ts =>
    match parseSelect genTable (.kw .select :: ts) with
    | some (s, []) =>
      String.intercalate " " (s.items.map fun it =>
        match it with
        | .expr e al => hexChars (labelText genSpell genTable (fieldName e al))
        | _ => "*")
    | _ => "ERR"

/-! `c18.lalr`: the goyacc driver model over the token codes the real scanner produced -/

/-- the loop of `Lalr.run` again, also folding the reductions (production, state) into a hash and counting them;
    same `step`, same fuel discipline -/
def lalrTrace (T : Lalr.Tables) : Nat → Lalr.St → Nat → Nat → Lalr.Result × Nat × Nat
  | 0, _, n, h => (.outOfFuel, n, h)
  | fuel + 1, s, n, h =>
    match Lalr.step T s with
    | .next s' (.reduce p st) => lalrTrace T fuel s' (n + 1) ((h * 1000003 + p.toNat * 2048 + st.toNat + 1) % 4294967296)
    | .next s' _ => lalrTrace T fuel s' n h
    | .accept => (.accept, n, h)
    | .abort i => (.syntaxError i, n, h)
    | .panic w => (.indexPanic w, n, h)

def lalrOp (args : List String) : String :=
  match args.mapM String.toInt? with
  | none => "bad-op"
  | some toks =>
    let (r, n, h) := lalrTrace Lalr.genT (Lalr.driverFuel toks.length) (Lalr.init toks) 0 0
    let tail := " n=" ++ toString n ++ " h=" ++ toString h
    match r with
    | .accept => "accept" ++ tail
    | .syntaxError i => "syntax-error " ++ toString i ++ tail
    | .indexPanic w => "index-panic " ++ reprStr w
    | .outOfFuel => "out-of-fuel"

def c18 (cmd : String) (args : List String) : String :=
  let bad := "bad-op"
  match cmd, args with
  | "esc", [s] => match unhexChars s with | some s => hexChars (escapeString s) | none => bad
  | "escid", [s] => match unhexChars s with | some s => hexChars (escapeIdentifier s) | none => bad
  | "qs", [s] => match unhexChars s with | some s => hexChars (quoteString s) | none => bad
  | "qid", [s] => match unhexChars s with | some s => hexChars (quoteIdentifier s) | none => bad
  | "unesc", [q, s] =>
    match parseQuote q, unhexChars s with
    | some q, some s => hexChars (unescapeString s q)
    | _, _ => bad
  | "unescid", [q, s] =>
    match parseQuote q, unhexChars s with
    | some q, some s => hexChars (unescapeIdentifier s q)
    | _, _ => bad
  | "scan", [m, s] =>
    match parseMode m, unhexChars s with
    | some m, some s => showResult (scan unicodeClasses m s)
    | _, _ => bad
  | "opx", l => opx l
  | "sel", l => selx l
  | "qry", l => qryx l
  | "nq", l => nqx l
  | "lbl", l => lblx l
  | "lalr", l => lalrOp l
  | "unary", l =>
    match parseUExpr l with
    | some e => hexChars e.print ++ " " ++ (if hasCommentOpener e.print then "1" else "0")
    | none => bad
  | _, _ => bad

end Csvq.Drive
