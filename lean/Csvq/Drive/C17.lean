/- Driver handler for the C17 correspondence stream (analytic functions).

   op line:  c17.<fn> <a1> <a2> <ign> <frame> <nsort> <row>*
     <fn>     row_number rank dense_rank cume_dist percent_rank ntile first_value last_value nth_value
              lag lead cells count count_star listagg
     <a1>     integer argument (NTILE n, NTH_VALUE n, LAG/LEAD offset) or `-`
     <a2>     LAG/LEAD default as a value token or `-`
     <ign>    1 = IGNORE NULLS
     <frame>  none | order | r:<bound> | b:<bound>:<bound>      bound: up p<n> c f<n> uf
     <nsort>  number of ORDER BY items (sort cells per row; 0 without ORDER BY)
     <row>    id keyid sortcell{nsort} argcell      in the order of the (sorted) view
   answer:   the new column in row-id order, comma separated (`E` = the function rejects its argument,
             `FATAL` = windowValues panics on an inverted frame)
-/
import Csvq.Model.Proto
import Csvq.Model.Analytic
namespace Csvq.Drive.C17
open Csvq Csvq.Proto Csvq.Analytic

def parseBound (s : String) : Option Bound :=
  if s = "up" then some .unboundedPreceding
  else if s = "uf" then some .unboundedFollowing
  else if s = "c" then some .currentRow
  else match s.front with
    | 'p' => (s.drop 1).toString.toNat?.map .preceding
    | 'f' => (s.drop 1).toString.toNat?.map .following
    | _ => none

def parseWindow (s : String) : Option Window :=
  match s.splitOn ":" with
  | ["none"] => some .noOrder
  | ["order"] => some .orderOnly
  | ["r", lo] => (parseBound lo).map .rows
  | ["b", lo, hi] => do
    let lo ← parseBound lo
    let hi ← parseBound hi
    pure (.between lo hi)
  | _ => none

/-- sort cell token: profile~txt (as in the C07 stream) -/
def parseSortCell (s : String) : Option SortVal :=
  match s.splitOn "~" with
  | [p, t] => do
    let p ← parseProfile p
    let t ← parseOpt parseHexX t
    pure (toSortVal p (t.getD []))
  | _ => none

structure Row where
  id : Nat
  key : Nat
  sort : List SortVal
  arg : Val

partial def parseRows (nsort : Nat) : List String → Option (List Row)
  | [] => some []
  | idt :: kt :: rest => do
    let id ← idt.toNat?
    let key ← kt.toNat?
    let cells ← (rest.take nsort).mapM parseSortCell
    if cells.length ≠ nsort then none
    match rest.drop nsort with
    | [] => none
    | a :: more => do
      let arg ← parseVal a
      let tl ← parseRows nsort more
      pure (⟨id, key, cells, arg⟩ :: tl)
  | _ => none

inductive Res
  | v (x : Val)
  | l (xs : List Val)

def showRes : Res → String
  | .v x => showVal x
  | .l xs => "[" ++ String.intercalate ";" (xs.map showVal) ++ "]"

def fracVal (f : Frac) : Val := .flt (FVal.div (FVal.ofInt f.1) (FVal.ofInt f.2))

def natRes (l : List (Nat × Nat)) : List (Nat × Res) := l.map fun r => (r.1, .v (.int r.2))
def valRes (l : List (Nat × Val)) : List (Nat × Res) := l.map fun r => (r.1, .v r.2)

/-- one partition -/
def exec (fn : String) (a1 : Option Int) (a2 : Option Val) (ign : Bool) (w : Window)
    (eqv : Nat → Nat → Bool) (cells : Nat → Val) (p : List Nat) : Option (List (Nat × Res)) :=
  match fn with
  | "row_number" => some (natRes (rowNumber p))
  | "rank" => some (natRes (rank eqv p))
  | "dense_rank" => some (natRes (denseRank eqv p))
  | "cume_dist" => some ((cumeDist eqv p).map fun r => (r.1, .v (fracVal r.2)))
  | "percent_rank" => some ((percentRank eqv p).map fun r => (r.1, .v (fracVal r.2)))
  | "ntile" => a1.bind fun n => (ntile n p).map natRes
  | "first_value" => some (valRes (firstValue cells ign w p))
  | "last_value" => some (valRes (lastValueAt repoState cells ign w p))
  | "nth_value" => a1.bind fun n => (nthValueAt repoState cells ign n w p).map valRes
  | "lag" => some (valRes (lag cells ign (a2.getD .null) (a1.getD 1) p))
  | "lead" => some (valRes (lead cells ign (a2.getD .null) (a1.getD 1) p))
  | "cells" => aggOverAt repoState cells (fun _ vs => Res.l vs) w p
  | "count" => aggOverAt repoState cells (fun _ vs => Res.v (.int (vs.filter (fun v => !isNullV v)).length)) w p
  | "count_star" => aggOverAt repoState cells (fun _ vs => Res.v (.int vs.length)) w p
  | "listagg" => some (listAggOver cells (fun vs => Res.l (vs.filter (fun v => !isNullV v))) p)
  | _ => none

def c17 (fn : String) (args : List String) : String :=
  let bad := "bad-op"
  match args with
  | a1 :: a2 :: ign :: fr :: ns :: rest =>
    match parseOpt String.toInt? a1, parseOpt parseVal a2, parseBool ign, parseWindow fr, ns.toNat? with
    | some a1, some a2, some ign, some w, some nsort =>
      match parseRows nsort rest with
      | none => bad
      | some rows =>
        let arr := rows.toArray
        let cells : Nat → Val := fun i => (arr[i]?.map Row.arg).getD .null
        let eqv : Nat → Nat → Bool := fun i j =>
          decide (0 < nsort) && rowsEquiv ((arr[i]?.map Row.sort).getD []) ((arr[j]?.map Row.sort).getD [])
        let keys := rows.map Row.key
        let parts := partitionsOf keys
        match parts.mapM (fun part => exec fn a1 a2 ign w eqv cells part.2) with
        | none =>
          if (exec fn a1 a2 ign w eqv cells []).isNone && parts.isEmpty then bad
          else if fn = "cells" || fn = "count" || fn = "count_star" then "FATAL" else "E"
        | some _ =>
          let col := analyze (fun p => (exec fn a1 a2 ign w eqv cells p).getD []) keys
          let out : Array String := Array.replicate rows.length "?"
          let out := (rows.zip col).foldl (fun (o : Array String) rc =>
            o.setIfInBounds rc.1.id (match rc.2 with | some r => showRes r | none => "?")) out
          if out.isEmpty then "-" else String.intercalate "," out.toList
    | _, _, _, _, _ => bad
  | _ => bad

end Csvq.Drive.C17
