/- Driver handler for the C17 correspondence stream (analytic functions).

   op line:  c17.<fn> <a1> <a2> <ign> <frame> <nsort> <row>*
     <fn>     row_number rank dense_rank cume_dist percent_rank ntile first_value last_value nth_value
              lag lead cells count count_star listagg
     <a1>     integer argument (NTILE n, NTH_VALUE n, LAG/LEAD offset) or `-`
     <a2>     LAG/LEAD default as a value token or `-`
     <ign>    1 = IGNORE NULLS
     <frame>  none | order | r:<bound> | b:<bound>:<bound>      bound: up p<n> c f<n> uf
     <nsort>  number of ORDER BY items (sort cells per row; 0 without ORDER BY)
     <row>    id keyid sortcell{nsort} argcell      in the order of the (sorted) view
   answer:   the new column in row-id order, comma separated (`E` = the function rejects its argument,
             `FATAL` = windowValues panics on an inverted frame)
-/
import Csvq.Model.Proto
import Csvq.Model.Analytic
import Csvq.Model.AnalyticFull
import Csvq.Model.AnalyticFlags
import Csvq.Model.FormatFloat
import Csvq.Model.ColumnIdent
namespace Csvq.Drive.C17
open Csvq Csvq.Proto Csvq.Analytic

def parseBound (s : String) : Option Bound :=
  if s = "up" then some .unboundedPreceding
  else if s = "uf" then some .unboundedFollowing
  else if s = "c" then some .currentRow
  else match s.front with
    | 'p' => (s.drop 1).toString.toNat?.map .preceding
    | 'f' => (s.drop 1).toString.toNat?.map .following
    | _ => none

def parseWindow (s : String) : Option Window :=
  match s.splitOn ":" with
  | ["none"] => some .noOrder
  | ["order"] => some .orderOnly
  | ["r", lo] => (parseBound lo).map .rows
  | ["b", lo, hi] => do
    let lo ← parseBound lo
    let hi ← parseBound hi
    pure (.between lo hi)
  | _ => none

/-- sort cell token: profile~txt (as in the C07 stream) -/
def parseSortCell (s : String) : Option SortVal :=
  match s.splitOn "~" with
  | [p, t] => do
    let p ← parseProfile p
    let t ← parseOpt parseHexX t
    pure (toSortVal p (t.getD []))
  | _ => none

structure Row where
  id : Nat
  key : Nat
  sort : List SortVal
  arg : Val

partial def parseRows (nsort : Nat) : List String → Option (List Row)
  | [] => some []
  | idt :: kt :: rest => do
    let id ← idt.toNat?
    let key ← kt.toNat?
    let cells ← (rest.take nsort).mapM parseSortCell
    if cells.length ≠ nsort then none
    match rest.drop nsort with
    | [] => none
    | a :: more => do
      let arg ← parseVal a
      let tl ← parseRows nsort more
      pure (⟨id, key, cells, arg⟩ :: tl)
  | _ => none

inductive Res
  | v (x : Val)
  | l (xs : List Val)

def showRes : Res → String
  | .v x => showVal x
  | .l xs => "[" ++ String.intercalate ";" (xs.map showVal) ++ "]"

def fracVal (f : Frac) : Val := .flt (FVal.div (FVal.ofInt f.1) (FVal.ofInt f.2))

def natRes (l : List (Nat × Nat)) : List (Nat × Res) := l.map fun r => (r.1, .v (.int r.2))
def valRes (l : List (Nat × Val)) : List (Nat × Res) := l.map fun r => (r.1, .v r.2)

/-- one partition -/
def exec (fn : String) (a1 : Option Int) (a2 : Option Val) (ign : Bool) (w : Window)
    (eqv : Nat → Nat → Bool) (cells : Nat → Val) (p : List Nat) : Option (List (Nat × Res)) :=
  match fn with
  | "row_number" => some (natRes (rowNumber p))
  | "rank" => some (natRes (rank eqv p))
  | "dense_rank" => some (natRes (denseRank eqv p))
  | "cume_dist" => some ((cumeDist eqv p).map fun r => (r.1, .v (fracVal r.2)))
  | "percent_rank" => some ((percentRank eqv p).map fun r => (r.1, .v (fracVal r.2)))
  | "ntile" => a1.bind fun n => (ntile n p).map natRes
  | "first_value" => some (valRes (firstValue cells ign w p))
  | "last_value" => some (valRes (lastValueAt repoState cells ign w p))
  | "nth_value" => a1.bind fun n => (nthValueAt repoState cells ign n w p).map valRes
  | "lag" => some (valRes (lag cells ign (a2.getD .null) (a1.getD 1) p))
  | "lead" => some (valRes (lead cells ign (a2.getD .null) (a1.getD 1) p))
  | "cells" => aggOverAt repoState cells (fun _ vs => Res.l vs) w p
  | "count" => aggOverAt repoState cells (fun _ vs => Res.v (.int (vs.filter (fun v => !isNullV v)).length)) w p
  | "count_star" => aggOverAt repoState cells (fun _ vs => Res.v (.int vs.length)) w p
  | "listagg" => some (listAggOver cells (fun vs => Res.l (vs.filter (fun v => !isNullV v))) p)
  | "listaggd" => some (listAggAnalytic cells (fun v => norm (profileOf v)) true (fun vs => Res.l (vs.filter (fun v => !isNullV v))) p)
  | "jsonagg" => some (listAggOver cells (fun vs => Res.l vs) p)
  | "jsonaggd" => some (listAggAnalytic cells (fun v => norm (profileOf v)) true (fun vs => Res.l vs) p)
  | "groups" => some (((cumGroups eqv p none []).zipIdx.flatMap fun gk => gk.1.map fun idx => (idx, Res.v (.int (gk.2 + 1)))))
  | "sum" => some ((aggOverP prof (aggSum ∘ dist) w p).map fun r => (r.1, Res.v r.2))
  | "avg" => some ((aggOverP prof (aggAvg ∘ dist) w p).map fun r => (r.1, Res.v r.2))
  | "min" => some ((aggOverP prof (aggMin ∘ dist) w p).map fun r => (r.1, Res.v r.2))
  | "max" => some ((aggOverP prof (aggMax ∘ dist) w p).map fun r => (r.1, Res.v r.2))
  | "median" => some ((aggOverP prof (aggMedian ∘ dist) w p).map fun r => (r.1, Res.v r.2))
  | "countd" => some ((aggOverP prof (aggCount ∘ dist) w p).map fun r => (r.1, Res.v r.2))
  -- VAR / VARP / STDEV / STDEVP: C04's exact model (Model/Aggregate.lean) over the frame (Csvq.C17.var_over_frame_spec)
  | "var" => some ((varOver Flags.loose ign false prof w p).map fun r => (r.1, Res.v (resVal r.2)))
  | "varp" => some ((varOver Flags.loose ign true prof w p).map fun r => (r.1, Res.v (resVal r.2)))
  | "stdev" => some ((stdevOver Flags.loose ign false prof w p).map fun r => (r.1, Res.v (resVal r.2)))
  | "stdevp" => some ((stdevOver Flags.loose ign true prof w p).map fun r => (r.1, Res.v (resVal r.2)))
  | _ => none
where
  resVal : Agg.Res → Val := fun r => match r with
    | .null => .null | .int i => .int i | .flt f => .flt f | .str s => .str s | .cell c => c.raw
  prof : Nat → Profile := fun i => profileOf (cells i)
  dist : List Profile → List Profile := fun l => if ign then distinctProfiles l else l

/-- ORDER BY item token: `a`/`d` followed by `f`/`l`/`-` (default: ASC → NULLS FIRST, DESC → NULLS LAST) -/
def parseItem (s : String) : Option OrdItem :=
  match s.toList with
  | [d, n] =>
    let dir? : Option Dir := if d = 'a' then some .asc else if d = 'd' then some .desc else none
    match dir? with
    | none => none
    | some dir =>
      if n = 'f' then some ⟨dir, .first⟩
      else if n = 'l' then some ⟨dir, .last⟩
      else if n = '-' then some ⟨dir, match dir with | .asc => .first | .desc => .last⟩
      else none
  | _ => none

def parseItems (s : String) : Option (List OrdItem) :=
  if s = "-" then some [] else (s.splitOn ",").mapM parseItem

/-- rows of the end-to-end op, in TABLE order: id part{npart} sortcell{nsort} arg -/
partial def parseARows (npart nsort : Nat) : List String → Option (List ARow)
  | [] => some []
  | idt :: rest => do
    let id ← idt.toNat?
    let part ← (rest.take npart).mapM parseProfile
    if part.length ≠ npart then none
    let rest := rest.drop npart
    let cells ← (rest.take nsort).mapM parseSortCell
    if cells.length ≠ nsort then none
    match rest.drop nsort with
    | [] => none
    | a :: more => do
      let arg ← parseVal a
      let tl ← parseARows npart nsort more
      pure (⟨id, part, cells, profileOf arg⟩ :: tl)

def showCol (ids : List Nat) (col : List (Option Res)) : String :=
  let out : Array String := Array.replicate ids.length "?"
  let out := (ids.zip col).foldl (fun (o : Array String) rc =>
    o.setIfInBounds rc.1 (match rc.2 with | some r => showRes r | none => "?")) out
  if out.isEmpty then "-" else String.intercalate "," out.toList

/-- `c17.full:<fn> a1 a2 ign frame nsort items npart rows…` — Analyze end to end: the model orders the rows
    itself (C07's reference sort), computes the partition keys itself (C04's `norm`) -/
def c17full (fn : String) (args : List String) : String :=
  let bad := "bad-op"
  match args with
  | a1 :: a2 :: ign :: fr :: ns :: its :: np :: rest =>
    match parseOpt String.toInt? a1, parseOpt parseVal a2, parseBool ign, parseWindow fr, ns.toNat?, parseItems its, np.toNat? with
    | some a1, some a2, some ign, some w, some nsort, some its, some npart =>
      match parseARows npart nsort rest with
      | none => bad
      | some rows =>
        let hasOrder := decide (0 < nsort)
        let execV : List ARow → List Nat → List (Nat × Res) := fun view p =>
          (exec fn a1 a2 ign w (peersOf hasOrder view) (cellsOf view) p).getD []
        let view := sortView its hasOrder rows
        if ((partitionsOf (view.map keyOfRow)).any fun part =>
            (exec fn a1 a2 ign w (peersOf hasOrder view) (cellsOf view) part.2).isNone) then "E"
        else
          let res := analyzeFull its hasOrder execV rows
          showCol (res.map fun r => r.1.id) (res.map Prod.snd)
    | _, _, _, _, _, _, _ => bad
  | _ => bad

/-- `c17.glistagg - - distinct frame nsort items rows…` (rows: id keyid sortcell{nsort} arg, TABLE order):
    grouped LISTAGG … WITHIN GROUP (ORDER BY items); answer: the groups in order of first appearance -/
def c17glistagg (keepNull : Bool) (args : List String) : String :=
  let bad := "bad-op"
  match args with
  | _ :: _ :: dis :: _ :: ns :: its :: rest =>
    match parseBool dis, ns.toNat?, parseItems its with
    | some distinct, some nsort, some its =>
      match parseRows nsort rest with
      | none => bad
      | some rows =>
        let arr := rows.toArray
        let groups := partitionsOf (rows.map Row.key)
        let one := fun (g : Nat × List Nat) =>
          let grp : List ARow := g.2.filterMap fun i => arr[i]?.map fun r => (⟨r.id, [], r.sort, profileOf r.arg⟩ : ARow)
          showRes (listAggGrouped its (decide (0 < nsort)) (fun v => norm (profileOf v)) distinct
            (fun vs => Res.l (if keepNull then vs else vs.filter fun v => !isNullV v)) grp)
        if groups.isEmpty then "-" else String.intercalate "|" (groups.map one)
    | _, _, _ => bad
  | _ => bad

/-! ### the session flags (Model/AnalyticFlags.lean)

   op line:  c17.fl:<fn> <strict> <distinct> <a1> <frame> <nsort> <npart> <row>*
     <fn>      COUNT SUM AVG MIN MAX MEDIAN STDEV STDEVP VAR VARP (C04's aggregates over the frame), listagg (separator `|`),
               jsonagg, cells (the user-defined aggregate of the harness), or a function of `exec` (rank, dense_rank, …)
     <strict>  1 = the session runs under --strict-equal
     <row>     id partprofile{npart} sortcell{nsort} argprofile      in the order of the (sorted) view
   The model computes the partition keys (`partKeyF`), the peers (`peersF`) and DISTINCT (`distinguishF`) of the mode itself. -/

partial def parseFRows (npart nsort : Nat) : List String → Option (List FRow)
  | [] => some []
  | idt :: rest => do
    let id ← idt.toNat?
    let part ← (rest.take npart).mapM parseProfile
    if part.length ≠ npart then none
    let rest := rest.drop npart
    let toks := rest.take nsort
    if toks.length ≠ nsort then none
    let raws ← toks.mapM fun t => parseProfile ((t.splitOn "~").headD "")
    let cells ← toks.mapM parseSortCell
    match rest.drop nsort with
    | [] => none
    | a :: more => do
      let arg ← parseProfile a
      let tl ← parseFRows npart nsort more
      pure (⟨id, part, raws, cells, arg⟩ :: tl)

def flKeyText : KeyText := { itext := decText, ftext := FF.fmtF }

def showAggRes : Agg.Res → String
  | .null => "N"
  | .int i => "I" ++ toString i
  | .flt f => "F" ++ showF f
  | .str s => "S" ++ hex s
  | .cell p => showVal p.raw

/-- the text the harness's user-defined aggregate builds: `|` and STRING(value) (`N` for NULL) for every value -/
def udfText (l : List Profile) : Bytes :=
  l.flatMap fun p => 124 :: (match p.raw with
    | .null => [78]
    | .str s => s
    | .int i => decText i
    | .flt f => FF.fmtF f
    | .bool b => if b then sTrue else sFalse
    | .tern t => (match t with | .T => [84, 82, 85, 69] | .F => [70, 65, 76, 83, 69] | .U => [85, 78, 75, 78, 79, 87, 78])
    | .dt _ => [])

def execF (fn : String) (fl : Flags) (distinct : Bool) (a1 : Option Int) (w : Window)
    (eqv : Nat → Nat → Bool) (prof : Nat → Profile) (p : List Nat) : Option (List (Nat × String)) :=
  match fn with
  | "listagg" => some ((listAggOverF fl distinct prof (Agg.listAgg flKeyText [124]) p).map fun r => (r.1, showAggRes r.2))
  | "jsonagg" => some ((listAggOverF fl distinct prof (fun l => l) p).map fun r =>
      (r.1, "[" ++ String.intercalate ";" (r.2.map fun c => showVal c.raw) ++ "]"))
  | "cells" => some ((aggOverF fl distinct prof (fun _ l => udfText l) w p).map fun r => (r.1, "S" ++ hex r.2))
  | _ =>
    match builtinAgg flKeyText [124] fn with
    | some F => some ((aggOverF fl distinct prof (fun _ l => F l) w p).map fun r => (r.1, showAggRes r.2))
    | none => (exec fn a1 none false w eqv (fun i => (prof i).raw) p).map fun l => l.map fun r => (r.1, showRes r.2)

def c17fl (fn : String) (args : List String) : String :=
  let bad := "bad-op"
  match args with
  | st :: di :: a1 :: fr :: ns :: np :: rest =>
    match parseBool st, parseBool di, parseOpt String.toInt? a1, parseWindow fr, ns.toNat?, np.toNat? with
    | some strict, some distinct, some a1, some w, some nsort, some npart =>
      match parseFRows npart nsort rest with
      | none => bad
      | some view =>
        let fl : Flags := ⟨strict⟩
        let arr := view.toArray
        let prof : Nat → Profile := fun i => (arr[i]?.map FRow.arg).getD (profileOf .null)
        let hasOrder := decide (0 < nsort)
        let eqv : Nat → Nat → Bool := fun i j =>
          match arr[i]?, arr[j]? with
          | some a, some b => hasOrder && rowPeersF fl a b
          | _, _ => false
        let keys := view.map (partKeyF fl)
        match (partitionsOf keys).mapM (fun part => execF fn fl distinct a1 w eqv prof part.2) with
        | none => "E"
        | some _ =>
          let col := analyzeF fl (fun p => (execF fn fl distinct a1 w eqv prof p).getD []) view
          let out : Array String := Array.replicate view.length "?"
          let out := (view.zip col).foldl (fun (o : Array String) rc =>
            o.setIfInBounds rc.1.id (rc.2.getD "?")) out
          if out.isEmpty then "-" else String.intercalate "," out.toList
    | _, _, _, _, _, _ => bad
  | _ => bad

/-! ### the identity of result columns (Model/ColumnIdent.lean)

   op line:  c17.ident <hex a> <hex b>      a = the identifier of an existing field (FormatFieldIdentifier of a parsed
             expression), b = the identifier of the expression looked up
   answer:   1 / 0 = Header.ContainsObject finds the field / does not; `G?` = the text `a` is not built from the pieces
             of the grammar (a quote never closed, a quoted piece that is not the escaper's image of its content) -/

def runeFold (x y : Char) : Bool := Uni.runeFoldEq x.toNat y.toNat

def textOfHex (s : String) : Option (List Char) :=
  (unhex s).map fun bs => (Uni.decodeRunes bs).map Char.ofNat

/-- the pieces of a printed text, contents unescaped; `none` = outside the grammar -/
def segsOf (a : List Char) : Option (List ColIdent.Seg) :=
  match ColIdent.pieces (a.length + 1) a [] with
  | none => none
  | some ps => ps.mapM fun p =>
    if p.1 = 0 then some (ColIdent.Seg.plain p.2)
    else if p.1 = 1 then
      let u := Esc.unescapeString p.2 '\''
      if Esc.escapeString u = p.2 then some (ColIdent.Seg.str u) else none
    else
      let u := Esc.unescapeIdentifier p.2 '`'
      if Esc.escapeIdentifier u = p.2 then some (ColIdent.Seg.ident u) else none

def c17ident (args : List String) : String :=
  match args with
  | [ha, hb] =>
    match textOfHex ha, textOfHex hb with
    | some a, some b =>
      match segsOf a with
      | none => "G?"
      | some segs =>
        if ColIdent.render segs ≠ a then "G?"
        else
          let impl := ColIdent.equalFieldIdentifiers runeFold a b
          let spec := ColIdent.sameColumn runeFold segs b
          if impl ≠ spec then "spec-differs" else if impl then "1" else "0"
    | _, _ => "bad-op"
  | _ => "bad-op"

def c17 (fn : String) (args : List String) : String :=
  let bad := "bad-op"
  if fn = "ident" then c17ident args
  else if fn.startsWith "fl:" then c17fl (fn.drop 3).toString args
  else if fn.startsWith "full:" then c17full (fn.drop 5).toString args
  else if fn = "glistagg" then c17glistagg false args
  else if fn = "gjsonagg" then c17glistagg true args
  else
  match args with
  | a1 :: a2 :: ign :: fr :: ns :: rest =>
    match parseOpt String.toInt? a1, parseOpt parseVal a2, parseBool ign, parseWindow fr, ns.toNat? with
    | some a1, some a2, some ign, some w, some nsort =>
      match parseRows nsort rest with
      | none => bad
      | some rows =>
        let arr := rows.toArray
        let cells : Nat → Val := fun i => (arr[i]?.map Row.arg).getD .null
        let eqv : Nat → Nat → Bool := fun i j =>
          decide (0 < nsort) && rowsEquiv ((arr[i]?.map Row.sort).getD []) ((arr[j]?.map Row.sort).getD [])
        let keys := rows.map Row.key
        let parts := partitionsOf keys
        match parts.mapM (fun part => exec fn a1 a2 ign w eqv cells part.2) with
        | none =>
          if (exec fn a1 a2 ign w eqv cells []).isNone && parts.isEmpty then bad
          else if fn = "cells" || fn = "count" || fn = "count_star" then "FATAL" else "E"
        | some _ =>
          let col := analyze (fun p => (exec fn a1 a2 ign w eqv cells p).getD []) keys
          let out : Array String := Array.replicate rows.length "?"
          let out := (rows.zip col).foldl (fun (o : Array String) rc =>
            o.setIfInBounds rc.1.id (match rc.2 with | some r => showRes r | none => "?")) out
          if out.isEmpty then "-" else String.intercalate "," out.toList
    | _, _, _, _, _ => bad
  | _ => bad

end Csvq.Drive.C17
