/- Driver handlers for the C12 correspondence streams (record ranges of worker goroutines). -/
import Csvq.Gen.RecordRange
namespace Csvq.Drive

/-- GoroutineManager.AssignRoutineNumber with no other goroutines borrowed (Count = 0) -/
def assignNumber (recordLen minReq cpu : Int) : Int :=
  let gtz := fun (i : Int) => if i < 1 then 1 else i
  let minReq := if minReq < 1 then 80 else minReq
  let number := min cpu (gtz (recordLen / minReq))
  min number (gtz number)

def c12 (cmd : String) (args : List String) : String :=
  match cmd, args with
  | "number", [l, m, c] =>
    match l.toInt?, m.toInt?, c.toInt? with
    | some l, some m, some c => toString (assignNumber l m c)
    | _, _, _ => "bad-op"
  | "range", [l, n] =>
    match l.toInt?, n.toNat? with
    | some l, some n =>
      String.intercalate "," ((List.range n).map fun (k : Nat) =>
        let r := Csvq.Gen.recordRange l (Int.ofNat n) (Int.ofNat k)
        s!"{r.1}-{r.2}")
    | _, _ => "bad-op"
  | _, _ => "bad-op"

end Csvq.Drive
