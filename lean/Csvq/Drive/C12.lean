/- Driver handlers for the C12 correspondence streams (record ranges of worker goroutines, slot bookkeeping). -/
import Csvq.Gen.RecordRange
import Csvq.Model.Slots
namespace Csvq.Drive

/-- GoroutineManager.AssignRoutineNumber (regenerated) with no other goroutines borrowed (Count = 0) -/
def assignNumber (recordLen minReq cpu : Int) : Int :=
  (Csvq.Gen.assignRoutineNumber recordLen minReq cpu Csvq.Gen.managerInit.1 Csvq.Gen.managerInit.2).1

def slotOp (tok : String) : Option Csvq.Slots.Op :=
  match tok.splitOn ":" with
  | ["n", l, m, c] =>
    match l.toInt?, m.toInt?, c.toInt? with
    | some l, some m, some c => some (.new l m c)
    | _, _, _ => none
  | ["d", k] => k.toNat?.map .done
  | _ => none

def slotsRun : Csvq.Slots.St → List String → Option (List String)
  | _, [] => some []
  | s, tok :: rest =>
    match slotOp tok with
    | none => none
    | some op =>
      let s' := Csvq.Slots.step s op
      let out := match op with
        | .new l m c => s!"{Csvq.Slots.numberIn s l m c}/{s'.count}"
        | .done _ => toString s'.count
      (slotsRun s' rest).map (out :: ·)

def c12 (cmd : String) (args : List String) : String :=
  match cmd, args with
  | "number", [l, m, c] =>
    match l.toInt?, m.toInt?, c.toInt? with
    | some l, some m, some c => toString (assignNumber l m c)
    | _, _, _ => "bad-op"
  | "range", [l, n] =>
    match l.toInt?, n.toNat? with
    | some l, some n =>
      String.intercalate "," ((List.range n).map fun (k : Nat) =>
        let r := Csvq.Gen.recordRange l (Int.ofNat n) (Int.ofNat k)
        s!"{r.1}-{r.2}")
    | _, _ => "bad-op"
  | "slots", toks =>
    match slotsRun Csvq.Slots.init toks with
    | some outs => String.intercalate " " outs
    | none => "bad-op"
  | "setcpu", [i, n] =>
    match i.toInt?, n.toInt? with
    | some i, some n => toString (Csvq.Gen.setCPU i n 0)
    | _, _ => "bad-op"
  | _, _ => "bad-op"

end Csvq.Drive
