/- Driver handlers for the C12 correspondence streams (record ranges of worker goroutines, slot bookkeeping). -/
import Csvq.Gen.RecordRange
import Csvq.Model.Slots
import Csvq.Model.Pipeline
import Csvq.Model.ParseTimeUser
import Csvq.Model.Proto
namespace Csvq.Drive
open Csvq Csvq.Proto

/-- GoroutineManager.AssignRoutineNumber (regenerated) with no other goroutines borrowed (Count = 0) -/
def assignNumber (recordLen minReq cpu : Int) : Int :=
  (Csvq.Gen.assignRoutineNumber recordLen minReq cpu Csvq.Gen.managerInit.1 Csvq.Gen.managerInit.2).1

def slotOp (tok : String) : Option Csvq.Slots.Op :=
  match tok.splitOn ":" with
  | ["n", l, m, c] =>
    match l.toInt?, m.toInt?, c.toInt? with
    | some l, some m, some c => some (.new l m c)
    | _, _, _ => none
  | ["d", k] => k.toNat?.map .done
  | _ => none

def slotsRun : Csvq.Slots.St → List String → Option (List String)
  | _, [] => some []
  | s, tok :: rest =>
    match slotOp tok with
    | none => none
    | some op =>
      let s' := Csvq.Slots.step s op
      let out := match op with
        | .new l m c => s!"{Csvq.Slots.numberIn s l m c}/{s'.count}"
        | .done _ => toString s'.count
      (slotsRun s' rest).map (out :: ·)

/-! ### `c12.pipe`: a stage list over the table id = 0 … n-1, k = (id·a + b) % m, through Pipeline.runImpl -/

abbrev PRow := Nat × Nat

def leKId (x y : PRow) : Bool := x.2 < y.2 || (x.2 == y.2 && x.1 ≤ y.1)

/-- one token of the harness (harness/cmd/c12/stages.go) as stages of Model/Pipeline -/
def pipeStage (tok : String) : Option (List (Pipeline.Stage PRow Nat)) :=
  match tok.splitOn ":" with
  | ["w", a, b] =>
    match a.toNat?, b.toNat? with
    | some a, some b => some [.filter fun r => r.1 % a != b]
    | _, _ => none
  | ["g", a] => a.toNat?.map fun a => [.eval (fun r => (r.1 % a, 0)), .group (·.1) (fun key rs => (key, rs.length))]
  | ["h", a] => a.toNat?.map fun a => [.filter fun r => decide (r.2 > a)]
  | ["d"] => some [.eval (fun r => (r.2, r.2)), .seq fun l => (keepFirst (l.map fun r => (r.2, r))).map Prod.snd]
  | ["z"] => some [.eval fun r => (0, r.2)]
  | ["sk"] => some [.seq fun l => l.mergeSort leKId]
  | ["st"] => some [.seq fun l => l.mergeSort leKId]
  | ["sd"] => some [.seq fun l => l.mergeSort fun x y => decide (x.1 ≥ y.1)]
  | ["o", a] => a.toNat?.map fun a => [Pipeline.offsetStage a]
  | ["l", a] => a.toNat?.map fun a => [Pipeline.limitStage a]
  | ["lp", a, b] =>
    match a.toNat?, b.toNat? with
    | some a, some b => some [Pipeline.limitPercentStage a b]
    | _, _ => none
  | ["lt", a, _] => a.toNat?.map fun a => [Pipeline.limitTiesStage (·.2) a]
  | _ => none

def pipeStages : List String → Option (List (Pipeline.Stage PRow Nat))
  | [] => some []
  | t :: ts =>
    match pipeStage t, pipeStages ts with
    | some a, some b => some (a ++ b)
    | _, _ => none

def pipeHash (rows : List PRow) : Nat :=
  rows.foldl (fun h r => (h * 1000003 + r.1 * 131 + r.2 + 1) % 2305843009213693951) 0

def pipeDigest (rows : List PRow) : String :=
  let n := rows.length
  let ends := rows.zipIdx.filterMap fun ri => if ri.2 < 3 || ri.2 + 3 ≥ n then some s!"{ri.1.1}/{ri.1.2}" else none
  s!"{n} {pipeHash rows} {String.intercalate "," ends}"

/-- the stages are cut differently from stage to stage (the result does not depend on it: pipeline_eq_spec) -/
def pipeCuts (n : Nat) (i : Nat) : Pipeline.Cut :=
  if i % 3 = 0 then Pipeline.Cut.every (n / 7) else if i % 3 = 1 then Pipeline.Cut.at (n / 3) else Pipeline.Cut.one

def c12 (cmd : String) (args : List String) : String :=
  match cmd, args with
  | "number", [l, m, c] =>
    match l.toInt?, m.toInt?, c.toInt? with
    | some l, some m, some c => toString (assignNumber l m c)
    | _, _, _ => "bad-op"
  | "range", [l, n] =>
    match l.toInt?, n.toNat? with
    | some l, some n =>
      String.intercalate "," ((List.range n).map fun (k : Nat) =>
        let r := Csvq.Gen.recordRange l (Int.ofNat n) (Int.ofNat k)
        s!"{r.1}-{r.2}")
    | _, _ => "bad-op"
  | "slots", toks =>
    match slotsRun Csvq.Slots.init toks with
    | some outs => String.intercalate " " outs
    | none => "bad-op"
  | "pipe", n :: a :: b :: m :: toks =>
    match n.toNat?, a.toNat?, b.toNat?, m.toNat?, pipeStages toks with
    | some n, some a, some b, some m, some stages =>
      let rows : List PRow := (List.range n).map fun i => (i, (i * a + b) % m)
      pipeDigest (Pipeline.runImpl (pipeCuts n) 0 stages rows)
    | _, _, _, _, _ => "bad-op"
  | "strtotime", [fs, h] =>
    -- value.StrToTime(text, formats, UTC): formats as comma-separated hex strings (`-` = none)
    let fmts : Option (List Bytes) := if fs = "-" then some [] else (fs.splitOn ",").mapM parseHexX
    match fmts, parseHexX h with
    | some fmts, some b =>
      if fmts.all PT.supportedFormat then showOpt toString (PT.strToTimeUser fmts b) else "unmodelled-format"
    | _, _ => "bad-op"
  | "setcpu", [i, n] =>
    match i.toInt?, n.toInt? with
    | some i, some n => toString (Csvq.Gen.setCPU i n 0)
    | _, _ => "bad-op"
  | _, _ => "bad-op"

end Csvq.Drive
