/- Driver handler of the c20 stream (parallel loaders of one transaction, harness/cmd/c20): the scenario of an op
   line is played on the concurrent loader machine of Model/ParLoad.lean with the reviewed step order, and the
   model search over the REGENERATED step order is run on request. -/
import Csvq.Model.ParLoad
import Csvq.Model.SessionStmt
namespace Csvq.Drive
open Csvq.ParLoad

/-- k workers of one statement step in turn; another process commits when the file is about to be read for the
    `commitAt`-th time, and in any case after the statement; then a worker of the following statement runs -/
def playParLoad (prog : List Instr) (k commitAt : Nat) : PState Nat :=
  let turn (s : PState Nat) (i : Nat) : PState Nat :=
    let reads := prog[(s.w i).pc]? == some Instr.load && needLoad (s.w i)
    let s := if reads && s.readLog.length + 1 == commitAt && s.disk == 0 then stepEv prog s (.other 1) else s
    stepEv prog s (.work i)
  let round (s : PState Nat) : PState Nat := (List.range k).foldl turn s
  let s := (List.range (8 * (k + 1))).foldl (fun s _ => round s) (init 0)
  let s := if s.disk == 0 then stepEv prog s (.other 1) else s
  (List.range 8).foldl (fun s _ => stepEv prog s (.work k)) s

def progName (p : List Instr) : String :=
  " ".intercalate (p.map fun
    | .lock => "Lock" | .unlock => "Unlock" | .lookup => "lookup" | .load => "load" | .store => "store" | .get => "Get")

def verName : Option Nat → String
  | some 0 => "old"
  | some _ => "new"
  | none => "<error>"

def showParLoad (k : Nat) (s : PState Nat) : String :=
  let rs := (List.range k).map fun i => (s.w i).result
  let stmt := match rs.eraseDups with
    | [r] => verName r
    | _ => "mixed"
  let next := (s.w k).result
  let versions := ((next :: rs).eraseDups).length
  s!"reads={s.readLog.length} versions={versions} stmt={stmt} next={verName next}"

def searchReport (n : Nat) (steps : List String) : String :=
  match compile steps Csvq.Gen.loaderCaller with
  | none => "violating: the step list of cacheViewFromFile is not understood: " ++
      toString steps ++ " / " ++ toString Csvq.Gen.loaderCaller
  | some prog =>
    -- first an interleaving in which two workers of the statement are handed different contents, else one in
    -- which the file is read twice
    let found := match searchFor (disagree n) prog n 1 with
      | some r => some r
      | none => search prog n 1
    match found with
    | none => s!"no-violating-interleaving ({n} workers, program {progName prog})"
    | some (path, s) =>
      let rs := (List.range n).map fun i => s!"w{i}:{if (s.w i).result.isSome then verName (s.w i).result else "-"}"
      s!"violating-interleaving: {" ".intercalate path} => file read {s.readLog.length} time(s), handed to the statement {" ".intercalate rs} (program {progName prog})"

/-- plain SELECT of table 0, another process commits to it, the non-data statements of the line, second SELECT -/
def playNonData (kinds : List Csvq.Session.NonData) (reads : List Csvq.Session.Path) : String :=
  let s0 : Csvq.Session.StateS Nat := { tx := Csvq.Session.fresh (fun _ => some 0), env := default }
  let (s1, o1) := Csvq.Session.stepS s0 (.data (.select 0))
  let s2 := (Csvq.Session.stepS s1 (.data (.other 0 1))).1
  let s3 := kinds.foldl (fun s k => (Csvq.Session.stepS s (.nonData k reads)).1) s2
  let o2 := (Csvq.Session.stepS s3 (.data (.select 0))).2
  let sh : Csvq.Session.Out Nat → String
    | .rows c => verName (some c)
    | _ => "<error>"
  s!"first={sh o1} second={sh o2}"

def c20 (cmd : String) (args : List String) : String :=
  match cmd, args with
  | "nondata", [_label, kinds, reads] =>
    let ks := (kinds.splitOn ",").map fun n => Csvq.Session.NonData.all.find? fun k => k.caseName == n
    if ks.any Option.isNone then "bad-op: a statement kind that is not a non-data kind of the model"
    else playNonData (ks.filterMap id) (if reads == "1" then [0] else [])
  | "parload", [_form, _spelling, cpu, outer, commitAt, _pre] =>
    match cpu.toNat?, outer.toNat?, commitAt.toNat? with
    | some cpu, some outer, some c =>
      -- the number of workers of the statement (at least 80 records for each)
      let k := max 1 (min cpu (outer / 80))
      showParLoad k (playParLoad refProg k c)
    | _, _, _ => "bad-op"
  | "search", [n] =>
    match n.toNat? with
    | some n => searchReport n Csvq.Gen.loaderSteps
    | none => "bad-op"
  -- the same search over a step list given on the line (a replay: `c20.searchsteps 2 lookup mutex_lock …`)
  | "searchsteps", n :: steps =>
    match n.toNat? with
    | some n => searchReport n steps
    | none => "bad-op"
  | _, _ => "bad-op"

end Csvq.Drive
