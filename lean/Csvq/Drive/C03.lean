/-
  Driver handler for the C03 correspondence stream.

  op line (prefix token encoding):
    c03.q   <w> <nv> v_0 … v_{nv-1} <nt> { <ncols> <nrows> cell… }*  <Plan>
    c03.recu … the same with UNION (distinct) instead of UNION ALL
    c03.resolve <n> {view name isJoin nAliases alias… number fromTable identifier}* (N view name | C view number | X identifier)
                 Header.SearchIndex / ContainsObject on a described header: I<index> | EAMB | ENOF | NONE
    c03.rec <w> <limit> <nv> v… <nt> {table}* <Plan anchor> <Plan step> [<Plan final>]
    c03.recchain <w> <limit> <nv> v… <nt> {table}* <n> (A|U){n} <Plan anchor> <Plan member>{n}
                 `anchor op1 member1 op2 member2 …` as the recursive table's own query (Model/RecChain.lean): every
                 prefix a recursion whose result is the anchor of the next member, one shared --limit-recursion budget
  `w`      = number of worker chunks the model cuts every outer record range into (the answer must not depend on it)
  `v_i`    = profile tokens (Proto.parseProfile); cells and literals are indices into this dictionary
  Plan    := T k | G | D (no FROM: DUAL) | J kind Plan Plan JC | Q Plan Where Sel
           | A alias n name… Plan            the sub-plan seen under a table alias (n > 0: columns renamed)
           | E nt (name k nc col…)* nf (name k nc col…)* Plan    session: temporary tables / files by name
           | W name nc col… Plan(def) Plan(body)                 common table expression
           | WR name nc col… A|U limit Plan(anchor) Plan(step) Plan(body)
                                             recursive common table expression (UNION ALL | UNION, --limit-recursion):
                                             inside the anchor `N name` is what the name denoted before (an outer CTE,
                                             a temporary table, a file); inside the step - at ANY depth: FROM list,
                                             derived tables, LATERAL, sub-queries evaluated per record - it is the
                                             working view (the records of the previous iteration); in the body it is
                                             the finished table
           | N name                          a FROM name to be resolved: CTE over temporary table over file
           | QS n Plan… Plan Where Sel       a query with n numbered sub-queries used inside its WHERE / select list
                                             (each evaluated anew for every record, the record in scope: correlation)
           | SO U|E|I all Plan Plan          UNION / EXCEPT / INTERSECT [ALL]
           | JL kind Plan Plan JC            LATERAL: the right plan is evaluated for every left record
           | JLX jt dir Plan Plan JC         LATERAL with the join as written: jt := N | C | I | O (nothing / CROSS / INNER /
                                             OUTER), dir := N | L | R | F; `FROM t, LATERAL (…)` is `JLX C N`; evaluated by
                                             Model/Lateral.lean (`latRun` over the worker chunks, `latJoinOne` per record);
                                             RIGHT / FULL: `ELAT`
           | QA fn arg out Plan Where        SELECT fn(arg) AS out FROM Plan WHERE …  (no GROUP BY: exactly one record);
                                             fn := CNT | MAX | MIN, arg := * | r view|- name
  kind    := C | I | L | R | F
  JC      := - | O Cond | U n (li ri)*          (li / ri: column index in the left / right operand)
           | UN n name… | NA                  (USING by names / NATURAL: the model resolves the names itself)
  Where   := - | W Cond
  Sel     := * | S n i… | L n item…      item := i idx out|- | r view|- name out|- | v lit out|- | b Cond out|- | k Cond lit lit out|-
             (out = AS name; v = literal, b = a condition as a value, k = CASE WHEN Cond THEN lit ELSE lit END)
  Cond    := cmp op E E | and C C | or C C | not C | isnull neg E | btw neg E E E | in neg E n v… | truth E
           | like neg E E                      (E [NOT] LIKE E: Model/Like.lean)
  E       := c side idx | l v | n view|- name | s k | m view number
             (n: reference by name, m: column number `view.number` - both resolved by the model: own header, then the
             records of the enclosing queries, Model/RelNames.lean; s: scalar sub-query number k)
  Cond   += ex k | ins neg E k | anys op E k | alls op E k      (EXISTS / IN / ANY / ALL over sub-query k)
  item   += s k out|- (scalar sub-query) | t view (view.*) | m view number out|- (column number)
  A last token `#<hex>` (the SQL text that was run) is ignored.
  answer: `<width> <row>|<row>|…` (cells `Proto.showVal` of the raw value, joined by `,`), `<width> -` when
  there is no row, `ERR` when the recursion limit is exceeded, `EAMB` / `ENOF` when an evaluated field
  reference is ambiguous / does not exist, `ENOTBL` when a FROM name denotes nothing.
-/
import Csvq.Model.Proto
import Csvq.Model.Rel
import Csvq.Model.Keys
import Csvq.Model.Lateral
import Csvq.Model.RelNames
import Csvq.Model.RecChain
import Csvq.Model.Aggregate
namespace Csvq.Drive.C03
open Csvq Csvq.Proto Csvq.Rel

inductive JKind | cross | inner | left | right | full
  deriving DecidableEq, Repr

inductive JCond
  | none
  | on (c : CondE)
  | using (pairs : List (Nat × Nat))
  | usingNames (names : List String)     -- USING (names): resolved by the model (`usingPairs`)
  | natural                              -- NATURAL: the model finds the common names (`naturalNames`)

inductive SelItem
  | idx (i : Nat) (out : Option String)
  | ref (view : Option String) (name : String) (out : Option String)
  | comp (it : Item) (out : Option String)      -- a computed item (literal, condition as value, CASE)
  | scalar (s : Nat) (out : Option String)      -- a scalar sub-query
  | viewStar (view : String)                    -- view.*
  | numref (view : String) (number : Int) (out : Option String)   -- view.number

inductive Sel
  | star
  | idxs (l : List Nat)
  | items (l : List SelItem)

/-- the aggregate functions of generated sub-queries -/
inductive AggFn | count | max | min
  deriving DecidableEq, Repr

/-- COUNT / MAX / MIN as C04 models them (Model/Aggregate.lean), the result as a cell -/
def aggOf : AggFn → List Profile → Profile
  | .count, l => profileOf (.int (Agg.count l))
  | .max, l => (Agg.maxAgg l).getD nullP
  | .min, l => (Agg.minAgg l).getD nullP

/-- a named table of the session: name, index of its contents, column names -/
abbrev NamedTbl := String × Nat × List String

inductive Plan
  | tbl (k : Nat)
  | gen
  | dual                                   -- no FROM clause / DUAL: one record without fields
  | join (k : JKind) (l r : Plan) (jc : JCond)
  | query (subs : List Plan) (src : Plan) (wh : Option CondE) (sel : Sel)
  | setop (op : SetOp) (all : Bool) (l r : Plan)
  | lateral (jt : JType) (dir : JDir) (l r : Plan) (jc : JCond)
  | aggq (fn : AggFn) (arg : Option (Option String × String)) (out : String) (src : Plan) (wh : Option CondE)
  | alias (a : String) (names : List String) (p : Plan)
  | session (temps files : List NamedTbl) (p : Plan)
  | withC (name : String) (cols : List String) (defn body : Plan)
  | recCte (name : String) (cols : List String) (distinct : Bool) (limit : Nat) (anchor step body : Plan)
  | named (name : String)

abbrev P (α : Type) := List String → Option (α × List String)

def pNat : P Nat
  | t :: ts => t.toNat?.map (fun n => (n, ts))
  | [] => none

def pNats : Nat → P (List Nat)
  | 0, ts => some ([], ts)
  | n + 1, ts => do
    let (a, ts) ← pNat ts
    let (as, ts) ← pNats n ts
    pure (a :: as, ts)

def pBool : P Bool
  | t :: ts => (parseBool t).map (fun b => (b, ts))
  | [] => none

def pExpr (vals : Array Profile) : P Expr
  | "c" :: s :: i :: ts => do
    let s ← s.toNat?
    let i ← i.toNat?
    pure (.col s i, ts)
  | "l" :: v :: ts => do
    let v ← v.toNat?
    let p ← vals[v]?
    pure (.lit p, ts)
  | "n" :: v :: name :: ts => some (.ref (if v = "-" then none else some v) name, ts)
  | "s" :: k :: ts => k.toNat?.map (fun k => (.scalar k, ts))
  | "m" :: v :: k :: ts => k.toInt?.map (fun k => (.num v k, ts))
  | _ => none

def pOptName : P (Option String)
  | t :: ts => some (if t = "-" then none else some t, ts)
  | [] => none

def pNames : Nat → P (List String)
  | 0, ts => some ([], ts)
  | n + 1, t :: ts => do
    let (r, ts) ← pNames n ts
    pure (t :: r, ts)
  | _, [] => none

def pNamedTbls : Nat → P (List NamedTbl)
  | 0, ts => some ([], ts)
  | n + 1, name :: ts => do
    let (k, ts) ← pNat ts
    let (nc, ts) ← pNat ts
    let (cols, ts) ← pNames nc ts
    let (r, ts) ← pNamedTbls n ts
    pure ((name, k, cols) :: r, ts)
  | _, [] => none

def pCond (vals : Array Profile) : Nat → P CondE
  | 0, _ => none
  | f + 1, tok :: ts =>
    match tok with
    | "cmp" =>
      match ts with
      | op :: ts => do
        let op ← parseCOp op
        let (a, ts) ← pExpr vals ts
        let (b, ts) ← pExpr vals ts
        pure (.cmp op a b, ts)
      | [] => none
    | "and" => do
      let (a, ts) ← pCond vals f ts
      let (b, ts) ← pCond vals f ts
      pure (.and a b, ts)
    | "or" => do
      let (a, ts) ← pCond vals f ts
      let (b, ts) ← pCond vals f ts
      pure (.or a b, ts)
    | "not" => do
      let (a, ts) ← pCond vals f ts
      pure (.not a, ts)
    | "isnull" => do
      let (n, ts) ← pBool ts
      let (a, ts) ← pExpr vals ts
      pure (.isNull n a, ts)
    | "btw" => do
      let (n, ts) ← pBool ts
      let (a, ts) ← pExpr vals ts
      let (lo, ts) ← pExpr vals ts
      let (hi, ts) ← pExpr vals ts
      pure (.between n a lo hi, ts)
    | "in" => do
      let (n, ts) ← pBool ts
      let (a, ts) ← pExpr vals ts
      let (k, ts) ← pNat ts
      let (vs, ts) ← pNats k ts
      let ps ← vs.mapM (fun v => vals[v]?)
      pure (.inList n a ps, ts)
    | "truth" => do
      let (a, ts) ← pExpr vals ts
      pure (.truth a, ts)
    | "like" => do
      let (n, ts) ← pBool ts
      let (a, ts) ← pExpr vals ts
      let (p, ts) ← pExpr vals ts
      pure (.like n a p, ts)
    | "ex" => do
      let (k, ts) ← pNat ts
      pure (.exists k, ts)
    | "ins" => do
      let (n, ts) ← pBool ts
      let (a, ts) ← pExpr vals ts
      let (k, ts) ← pNat ts
      pure (.inSub n a k, ts)
    | "anys" =>
      match ts with
      | op :: ts => do
        let op ← parseCOp op
        let (a, ts) ← pExpr vals ts
        let (k, ts) ← pNat ts
        pure (.anySub op a k, ts)
      | [] => none
    | "alls" =>
      match ts with
      | op :: ts => do
        let op ← parseCOp op
        let (a, ts) ← pExpr vals ts
        let (k, ts) ← pNat ts
        pure (.allSub op a k, ts)
      | [] => none
    | _ => none
  | _, [] => none

def pSelItems (vals : Array Profile) (fuel : Nat) : Nat → P (List SelItem)
  | 0, ts => some ([], ts)
  | n + 1, "i" :: i :: ts => do
    let i ← i.toNat?
    let (o, ts) ← pOptName ts
    let (r, ts) ← pSelItems vals fuel n ts
    pure (.idx i o :: r, ts)
  | n + 1, "r" :: v :: name :: ts => do
    let (o, ts) ← pOptName ts
    let (r, ts) ← pSelItems vals fuel n ts
    pure (.ref (if v = "-" then none else some v) name o :: r, ts)
  | n + 1, "v" :: v :: ts => do
    let v ← v.toNat?
    let p ← vals[v]?
    let (o, ts) ← pOptName ts
    let (r, ts) ← pSelItems vals fuel n ts
    pure (.comp (.lit p) o :: r, ts)
  | n + 1, "b" :: ts => do
    let (c, ts) ← pCond vals fuel ts
    let (o, ts) ← pOptName ts
    let (r, ts) ← pSelItems vals fuel n ts
    pure (.comp (.cond c) o :: r, ts)
  | n + 1, "k" :: ts => do
    let (c, ts) ← pCond vals fuel ts
    let (a, ts) ← pNat ts
    let (b, ts) ← pNat ts
    let pa ← vals[a]?
    let pb ← vals[b]?
    let (o, ts) ← pOptName ts
    let (r, ts) ← pSelItems vals fuel n ts
    pure (.comp (.case c pa pb) o :: r, ts)
  | n + 1, "s" :: k :: ts => do
    let k ← k.toNat?
    let (o, ts) ← pOptName ts
    let (r, ts) ← pSelItems vals fuel n ts
    pure (.scalar k o :: r, ts)
  | n + 1, "t" :: v :: ts => do
    let (r, ts) ← pSelItems vals fuel n ts
    pure (.viewStar v :: r, ts)
  | n + 1, "m" :: v :: k :: ts => do
    let k ← k.toInt?
    let (o, ts) ← pOptName ts
    let (r, ts) ← pSelItems vals fuel n ts
    pure (.numref v k o :: r, ts)
  | _, _ => none

def pairUp : List Nat → List (Nat × Nat)
  | a :: b :: rest => (a, b) :: pairUp rest
  | _ => []

def pKind : String → Option JKind
  | "C" => some .cross | "I" => some .inner | "L" => some .left | "R" => some .right | "F" => some .full
  | _ => none

def pJCond (vals : Array Profile) (fuel : Nat) : P JCond
  | "-" :: ts => some (.none, ts)
  | "O" :: ts => do
    let (c, ts) ← pCond vals fuel ts
    pure (.on c, ts)
  | "U" :: ts => do
    let (n, ts) ← pNat ts
    let (xs, ts) ← pNats (2 * n) ts
    pure (.using (pairUp xs), ts)
  | "UN" :: ts => do
    let (n, ts) ← pNat ts
    let (names, ts) ← pNames n ts
    pure (.usingNames names, ts)
  | "NA" :: ts => some (.natural, ts)
  | _ => none

def pPlan (vals : Array Profile) : Nat → P Plan
  | 0, _ => none
  | f + 1, tok :: ts =>
    match tok with
    | "T" => do
      let (k, ts) ← pNat ts
      pure (.tbl k, ts)
    | "G" => some (.gen, ts)
    | "D" => some (.dual, ts)
    | "J" =>
      match ts with
      | k :: ts => do
        let k ← pKind k
        let (l, ts) ← pPlan vals f ts
        let (r, ts) ← pPlan vals f ts
        let (jc, ts) ← pJCond vals f ts
        pure (.join k l r jc, ts)
      | [] => none
    | "Q" => do
      let (src, ts) ← pPlan vals f ts
      let (wh, ts) ← (match ts with
        | "-" :: ts => some (none, ts)
        | "W" :: ts => (pCond vals f ts).map (fun (c, ts) => (some c, ts))
        | _ => none)
      let (sel, ts) ← (match ts with
        | "*" :: ts => some (Sel.star, ts)
        | "S" :: ts => do
          let (n, ts) ← pNat ts
          let (is, ts) ← pNats n ts
          pure (Sel.idxs is, ts)
        | "L" :: ts => do
          let (n, ts) ← pNat ts
          let (is, ts) ← pSelItems vals f n ts
          pure (Sel.items is, ts)
        | _ => none)
      pure (.query [] src wh sel, ts)
    | "A" =>
      match ts with
      | a :: ts => do
        let (n, ts) ← pNat ts
        let (names, ts) ← pNames n ts
        let (p, ts) ← pPlan vals f ts
        pure (.alias a names p, ts)
      | [] => none
    | "E" => do
      let (nt, ts) ← pNat ts
      let (temps, ts) ← pNamedTbls nt ts
      let (nf, ts) ← pNat ts
      let (files, ts) ← pNamedTbls nf ts
      let (p, ts) ← pPlan vals f ts
      pure (.session temps files p, ts)
    | "W" =>
      match ts with
      | name :: ts => do
        let (nc, ts) ← pNat ts
        let (cols, ts) ← pNames nc ts
        let (d, ts) ← pPlan vals f ts
        let (b, ts) ← pPlan vals f ts
        pure (.withC name cols d b, ts)
      | [] => none
    | "WR" =>
      match ts with
      | name :: ts => do
        let (nc, ts) ← pNat ts
        let (cols, ts) ← pNames nc ts
        match ts with
        | o :: ts => do
          let distinct ← (match o with | "A" => some false | "U" => some true | _ => none)
          let (limit, ts) ← pNat ts
          let (a, ts) ← pPlan vals f ts
          let (s, ts) ← pPlan vals f ts
          let (b, ts) ← pPlan vals f ts
          pure (.recCte name cols distinct limit a s b, ts)
        | [] => none
      | [] => none
    | "N" =>
      match ts with
      | name :: ts => some (.named name, ts)
      | [] => none
    | "QS" => do
      let (n, ts) ← pNat ts
      let rec subs (k : Nat) (ts : List String) : Option (List Plan × List String) :=
        match k with
        | 0 => some ([], ts)
        | k + 1 => do
          let (p, ts) ← pPlan vals f ts
          let (r, ts) ← subs k ts
          pure (p :: r, ts)
      let (sp, ts) ← subs n ts
      let (q, ts) ← pPlan vals f ("Q" :: ts)
      match q with
      | .query _ src wh sel => pure (.query sp src wh sel, ts)
      | _ => none
    | "SO" =>
      match ts with
      | o :: a :: ts => do
        let op ← (match o with | "U" => some SetOp.union | "E" => some SetOp.except | "I" => some SetOp.intersect | _ => none)
        let all ← parseBool a
        let (l, ts) ← pPlan vals f ts
        let (r, ts) ← pPlan vals f ts
        pure (.setop op all l r, ts)
      | _ => none
    | "JL" =>
      match ts with
      | k :: ts => do
        let k ← pKind k
        let (l, ts) ← pPlan vals f ts
        let (r, ts) ← pPlan vals f ts
        let (jc, ts) ← pJCond vals f ts
        let (jt, dir) := (match k with
          | .cross => (JType.cross, JDir.absent)
          | .inner => (JType.inner, JDir.absent)
          | .left => (JType.absent, JDir.left)
          | .right => (JType.absent, JDir.right)
          | .full => (JType.absent, JDir.full))
        pure (.lateral jt dir l r jc, ts)
      | [] => none
    | "JLX" =>
      match ts with
      | jt :: dir :: ts => do
        let jt ← (match jt with
          | "N" => some JType.absent | "C" => some JType.cross | "I" => some JType.inner | "O" => some JType.outer
          | _ => none)
        let dir ← (match dir with
          | "N" => some JDir.absent | "L" => some JDir.left | "R" => some JDir.right | "F" => some JDir.full
          | _ => none)
        let (l, ts) ← pPlan vals f ts
        let (r, ts) ← pPlan vals f ts
        let (jc, ts) ← pJCond vals f ts
        pure (.lateral jt dir l r jc, ts)
      | _ => none
    | "QA" =>
      match ts with
      | fn :: ts => do
        let fn ← (match fn with
          | "CNT" => some AggFn.count | "MAX" => some AggFn.max | "MIN" => some AggFn.min | _ => none)
        let (arg, ts) ← (match ts with
          | "*" :: ts => some (none, ts)
          | "r" :: v :: name :: ts => some (some ((if v = "-" then none else some v), name), ts)
          | _ => none)
        match ts with
        | out :: ts => do
          let (src, ts) ← pPlan vals f ts
          let (wh, ts) ← (match ts with
            | "-" :: ts => some (none, ts)
            | "W" :: ts => (pCond vals f ts).map (fun (c, ts) => (some c, ts))
            | _ => none)
          pure (.aggq fn arg out src wh, ts)
        | [] => none
      | [] => none
    | _ => none
  | _, [] => none

/-- tables: `<ncols> <nrows> cell…` -/
def pRows (vals : Array Profile) (ncols : Nat) : Nat → P (List Row)
  | 0, ts => some ([], ts)
  | n + 1, ts => do
    let (is, ts) ← pNats ncols ts
    let r ← is.mapM (fun v => vals[v]?)
    let (rs, ts) ← pRows vals ncols n ts
    pure (r :: rs, ts)

def pTables (vals : Array Profile) : Nat → P (List (Nat × List Row))
  | 0, ts => some ([], ts)
  | n + 1, ts => do
    let (ncols, ts) ← pNat ts
    let (nrows, ts) ← pNat ts
    let (rows, ts) ← pRows vals ncols nrows ts
    let (rest, ts) ← pTables vals n ts
    pure ((ncols, rows) :: rest, ts)

def pVals : Nat → P (List Profile)
  | 0, ts => some ([], ts)
  | n + 1, t :: ts => do
    let p ← parseProfile t
    let (ps, ts) ← pVals n ts
    pure (p :: ps, ts)
  | _, [] => none

/-! evaluation with the implementation-shaped operators of Model/Rel.lean -/

/-- cut a list into (at most) `n` contiguous chunks -/
def chunkN {α} (n : Nat) (l : List α) : List (List α) :=
  let per := if n ≤ 1 then l.length else (l.length + n - 1) / n
  if per = 0 then [l] else
  let rec go (fuel : Nat) (l : List α) : List (List α) :=
    match fuel, l with
    | 0, _ => []
    | _, [] => []
    | f + 1, l => l.take per :: go f (l.drop per)
  match go l.length l with
  | [] => [[]]
  | cs => cs

abbrev Hdr := List HField

structure Env where
  tables : Array (Nat × List Row)
  gen : Hdr × List Row
  w : Nat
  ctes : List (String × (Hdr × List Row)) := []
  temps : List NamedTbl := []
  files : List NamedTbl := []
  outer : List (Hdr × Row) := []     -- records of the enclosing queries, innermost first
  -- the recursive CTE whose step is being evaluated (RecursiveTable with RecursiveTmpView set): `gen` is its working
  -- view.  Like the Go scope constructors (createScope / CreateNode / CreateChild) every derived environment
  -- (`{ env with outer := … }`, `{ env with ctes := … }`) inherits both fields unchanged.
  recName : Option String := none

def anonHdr (n : Nat) : Hdr := numberHdr (List.replicate n { view := "", name := "", isJoin := false })

/-- the ON condition of a USING / NATURAL join: `l.c1 = r.c1 AND l.c2 = r.c2 AND …` (left-nested) -/
def usingCond : List (Nat × Nat) → Option CondE
  | [] => none
  | (li, ri) :: rest =>
    some (rest.foldl (fun acc (p : Nat × Nat) => CondE.and acc (.cmp .eq (.col 0 p.1) (.col 1 p.2)))
      (.cmp .eq (.col 0 li) (.col 1 ri)))

def errStr : ResErr → String
  | .ambiguous => "EAMB"
  | .notExist => "ENOF"
  | .tooManyRecords => "ESUBR"
  | .tooManyFields => "ESUBF"

def strErr (s : String) : ResErr :=
  if s = "EAMB" then .ambiguous else if s = "ESUBR" then .tooManyRecords else if s = "ESUBF" then .tooManyFields
  else .notExist

def bad : String := "bad-op"

def optE {α} (o : Option α) : Except String α :=
  match o with
  | some a => .ok a
  | none => .error bad

/-- the first resolution error met when the condition is evaluated on the given rows (in the Go code any
    worker that hits it fails the whole operation) -/
def firstErr (lw : Nat) (ce : CondE) (rows : List Row) : Option ResErr :=
  rows.findSome? (fun r => match evalCondE noSubs lw r ce with | .error e => some e | .ok _ => none)

def lookupNamed (n : String) : List NamedTbl → Option NamedTbl
  | [] => none
  | t :: ts => if eqFold t.1 n then some t else lookupNamed n ts

def lookupCte (n : String) : List (String × (Hdr × List Row)) → Option (Hdr × List Row)
  | [] => none
  | t :: ts => if eqFold t.1 n then some t.2 else lookupCte n ts

/-- the first error a step raises, the steps evaluated one after the other as `selectSetForRecursion` does
    (`fuel` = --limit-recursion; an empty step ends the recursion) -/
def firstStepErr (stepE : List Row → Except String (List Row)) : Nat → List Row → Option String
  | 0, _ => none
  | f + 1, g =>
    match stepE g with
    | .error e => some e
    | .ok r => if r.isEmpty then none else firstStepErr stepE f r

def renameHdr (names : List String) (h : Hdr) : Except String Hdr :=
  if names.isEmpty then .ok h
  else if names.length ≠ h.length then .error bad
  else .ok (List.zipWith (fun (f : HField) n => { f with name := n }) h names)

abbrev CellFn := Row → Except ResErr Profile

/-- a select item after resolution: how its cell is obtained (none: unresolved, no record to evaluate it on),
    the source column when it is a plain column, its label and view -/
structure RItem where
  fn : Option CellFn
  col : Option Nat
  name : String
  view : String

/-- the join of two evaluated sources (join.go dispatch + the USING / NATURAL merge of joinViews) -/
def joinCore (env : Env) (kind : JKind) (lh : Hdr) (L : List Row) (rh : Hdr) (R : List Row) (jc : JCond) :
    Except String (Hdr × List Row) := do
  let lw := lh.length
  let rw := rh.length
  -- USING (names) / NATURAL: ParseJoinCondition
  let jc ← (match jc with
    | .usingNames names =>
      (match usingPairs lh rh names with
      | .ok ps => pure (JCond.using ps)
      | .error e => throw (errStr e))
    | .natural =>
      (match naturalNames lh rh with
      | .error e => throw (errStr e)
      | .ok names =>
        match usingPairs lh rh names with
        | .ok ps => pure (JCond.using ps)
        | .error e => throw (errStr e))
    | x => pure x)
  let ce : Option CondE := match jc with
    | .none => none
    | .on c => some (resolveCondN (lh ++ rh) env.outer c)
    | .using pairs => usingCond pairs
    | _ => none
  -- references that fail to resolve raise their error where the nested loop evaluates them
  match ce with
  | some c =>
    if kind != .cross && !condPure c then
      match L.findSome? (fun l => firstErr lw c (R.map (fun r => l ++ r))) with
      | some e => throw (errStr e)
      | none => pure ()
    else pure ()
  | none => pure ()
  let c : Cond := match ce with
    | none => fun _ => .T
    | some ce => if condPure ce then fun row => evalCond lw row ce
                 else fun row => match evalCondE noSubs lw row ce with | .ok t => t | .error _ => .U
  let rows := match kind with
    | .cross => crossImpl (chunkN env.w L) R
    | .inner => (match ce with
      | none => crossImpl (chunkN env.w L) R
      | some _ => innerImpl (chunkN env.w L) R c)
    | .left => outerImpl .left lw rw (chunkN env.w L) R c
    | .right => outerImpl .right rw lw (chunkN env.w R) L c
    | .full => outerImpl .full lw rw (chunkN env.w L) R c
  match jc with
  | .using pairs =>
    if pairs.isEmpty then pure (lh ++ rh, rows) else
    if pairs.any (fun p => p.1 ≥ lw || p.2 ≥ rw) then throw bad else
    let mp := pairs.map (fun p => match kind with
      | .right => (lw + p.2, p.1)
      | _ => (p.1, lw + p.2))
    let out ← optE (usingImpl (lw + rw) mp (chunkN env.w rows))
    pure (usingHeader (lw + rw) mp (lh ++ rh), out)
  | _ => pure (lh ++ rh, rows)

/-- `fuel` bounds the depth of the plan (sub-queries are evaluated from inside closures) -/
def eval : Nat → Env → Plan → Except String (Hdr × List Row)
  | 0, _, _ => .error bad
  | fuel + 1, env, plan =>
  match plan with
  | .tbl k => do
    let (nc, rows) ← optE env.tables[k]?
    pure (anonHdr nc, rows)
  | .gen => pure env.gen
  | .dual => pure ([], [[]])
  | .join kind l r jc => do
    let (lh, L) ← eval fuel env l
    let (rh, R) ← eval fuel env r
    joinCore env kind lh L rh R jc
  | .lateral jt dir l r jc => do
    -- loadView, LATERAL (Model/Lateral.lean): the left records are cut into worker chunks; for every record the right
    -- side is evaluated with the record in scope and joined with the one-record view (`latJoinOne`: the join functions
    -- of the plain joins); header = the one of record 0's join (none when there is no record), slots in record order
    let (lh, L) ← eval fuel env l
    if lateralRejects dir then throw "ELAT" else
    let lw := lh.length
    let fn : Row → Except String (Hdr × List Row) := fun lrow => do
      let (rh, R) ← eval fuel { env with outer := (lh, lrow) :: env.outer } r
      match jc with
      | .usingNames _ | .natural | .using _ =>
        -- USING / NATURAL: the column merge of joinViews after the join (joinCore)
        let kind := (match joinDispatchOf (joinTypeOf jt dir) with
          | some .cross => JKind.cross
          | some .outer => JKind.left
          | _ => JKind.inner)
        joinCore env kind lh [lrow] rh R jc
      | _ =>
        let ce : Option CondE := (match jc with
          | .on c => some (resolveCondN (lh ++ rh) env.outer c)
          | _ => none)
        match ce with
        | some c =>
          if !condPure c then
            match firstErr lw c (R.map (fun rr => lrow ++ rr)) with
            | some e => throw (errStr e)
            | none => pure ()
          else pure ()
        | none => pure ()
        let cond : Option Cond := ce.map (fun ce =>
          if condPure ce then fun row => evalCond lw row ce
          else fun row => match evalCondE noSubs lw row ce with | .ok t => t | .error _ => .U)
        pure (lh ++ rh, (latJoinOne ⟨jt, dir, cond⟩ lw lrow (rh.length, R)).2)
    latRun (η := Hdr) [] (chunkN env.w L) fn
  | .aggq fn arg out src wh => do
    -- an aggregate select list without GROUP BY: the records that pass the WHERE form ONE group, also when there is
    -- none (Model/Lateral.lean `aggQuery`)
    let (h, rows) ← eval fuel env (.query [] src wh .star)
    let argFn : Row → Profile ← (match arg with
      | none => pure (fun _ => profileOf (.int 1))            -- COUNT(*): every record counts
      | some (v, n) =>
        match fieldIndex h v n with
        | .ok i => pure (fun (r : Row) => (r[i]?).getD nullP)
        | .error e => throw (errStr e))
    let res := aggQuery (aggOf fn) argFn rows
    pure (numberHdr [{ view := "", name := out, isJoin := false }], res.2)
  | .setop op all l r => do
    let (lh, A) ← eval fuel env l
    let (rh, B) ← eval fuel env r
    if lh.length ≠ rh.length then throw "ESETW" else
    pure (numberHdr (fixHeader (lh.map (fun f => f.name)) lh), setOp (fun (r : Row) => r.map norm) op all A B)
  | .query subs src wh sel => do
    let (h, rows) ← eval fuel env src
    let w := h.length
    -- sub-query k for the record at hand: evaluated with the record pushed on the stack of outer records
    let subsFor : Row → SubEnv := fun row k =>
      match subs[k]? with
      | none => .error .notExist
      | some p =>
        match eval fuel { env with outer := (h, row) :: env.outer } p with
        | .ok (hh, rr) => .ok (hh.length, rr)
        | .error e => .error (strErr e)
    let rows ← (match wh with
      | none => pure rows
      | some ce =>
        let ce := resolveCondN h env.outer ce
        if condPure ce then pure (filterImpl (chunkN env.w rows) (fun row => evalCond 0 row ce))
        else do
          -- a condition with open references / sub-queries: every record is evaluated once, the first error ends it
          let ts ← rows.mapM (fun row => match evalCondE (subsFor row) 0 row ce with
            | .ok t => Except.ok t
            | .error e => Except.error (errStr e))
          pure (((rows.zip ts).filter (fun (p : Row × Tern) => p.2 == Tern.T)).map (fun p => p.1)))
    -- `*` / `view.*` are expanded into one field reference per header field (qualified by the view when there is
    -- one), each resolved by name like a written reference; index-based plans (anonymous header) keep the identity
    let refOf := fun (f : HField) => SelItem.ref (if f.view == "" then none else some f.view) f.name none
    let sel : Sel := match sel with
      | .star =>
        if h.any (fun f => f.name == "") then .star
        else .items (h.map refOf)
      | .items its => .items (its.flatMap (fun (it : SelItem) => match it with
          | .viewStar v => (h.filter (fun f => f.view == v)).map refOf     -- exact spelling of the view name
          | x => [x]))
      | s => s
    match sel with
    | .star => pure (numberHdr (fixHeader (h.map (fun f => f.name)) h), rows)
    | .idxs idxs =>
      if idxs.any (fun i => i ≥ w) then throw bad else do
      let out ← optE (projectImpl (chunkN env.w rows) idxs)
      let hs := idxs.filterMap (fun i => h[i]?)
      pure (numberHdr (fixHeader (hs.map (fun f => f.name)) hs), out)
    | .items items => do
      -- items are evaluated in order; the `AS` name of an item becomes a further name of its column for the
      -- items after it (`evalColumn` appends it to Header[idx].Aliases).  An item that does not resolve is
      -- evaluated per record: an error only if there is a record.
      let step := fun (st : Except String (Hdr × List RItem)) (it : SelItem) => do
        let (h, acc) ← st
        let addAlias := fun (h : Hdr) (i : Nat) (out : Option String) =>
          match out with
          | none => h
          | some o => h.zipIdx.map (fun (fi : HField × Nat) =>
              if fi.2 = i && !(eqFold fi.1.name o) && !(fi.1.aliases.any (fun a => eqFold a o))
              then { fi.1 with aliases := fi.1.aliases ++ [o] } else fi.1)
        let colFn : Nat → CellFn := fun i r => .ok ((r[i]?).getD nullP)
        match it with
        | .idx i out =>
          (match h[i]? with
          | some f => pure (addAlias h i out, acc ++ [{ fn := some (colFn i), col := some i, name := out.getD f.name, view := f.view }])
          | none => throw bad)
        | .ref v n out =>
          (match fieldIndex h v n with
          | .ok i => pure (addAlias h i out, acc ++ [{ fn := some (colFn i), col := some i, name := out.getD n, view := ((h[i]?).map (fun f => f.view)).getD "" }])
          | .error .notExist =>
            -- not a column of this query: the records of the enclosing queries
            (match resolveOuter v n env.outer with
            | .ok p => pure (h, acc ++ [{ fn := some (fun _ => .ok p), col := none, name := out.getD n, view := "" }])
            | .error e => if rows.isEmpty then pure (h, acc ++ [{ fn := none, col := none, name := out.getD n, view := "" }]) else throw (errStr e))
          | .error e => if rows.isEmpty then pure (h, acc ++ [{ fn := none, col := none, name := out.getD n, view := "" }]) else throw (errStr e))
        | .numref v k out =>
          (match fieldNumberIndex h v k with
          | .ok i => pure (addAlias h i out, acc ++ [{ fn := some (colFn i), col := some i, name := out.getD "", view := ((h[i]?).map (fun f => f.view)).getD "" }])
          | .error _ =>
            (match resolveRef (.byNumber v k) env.outer with
            | .ok p => pure (h, acc ++ [{ fn := some (fun _ => .ok p), col := none, name := out.getD "", view := "" }])
            | .error e => if rows.isEmpty then pure (h, acc ++ [{ fn := none, col := none, name := out.getD "", view := "" }]) else throw (errStr e)))
        | .comp item out =>
          -- calculated for every record; only index references and literals inside (checked)
          let item := (match item with
            | .cond c => Item.cond (resolveCondN h env.outer c)
            | .case c a b => Item.case (resolveCondN h env.outer c) a b
            | x => x)
          let pure? := (match item with
            | .cond c => condPure c
            | .case c _ _ => condPure c
            | _ => true)
          if !pure? then throw bad
          else pure (h, acc ++ [{ fn := some (fun r => .ok (evalItem r item)), col := none, name := out.getD "", view := "" }])
        | .scalar k out =>
          pure (h, acc ++ [{ fn := some (fun r => match subsFor r k with | .ok res => scalarOf res | .error e => .error e), col := none, name := out.getD "", view := "" }])
        | .viewStar _ => throw bad
      let (_, resolved) ← items.foldl step (pure (h, []))
      let fns := resolved.filterMap (fun (x : RItem) => x.fn)
      let colIdx := resolved.filterMap (fun (x : RItem) => x.col)
      let out ← (if fns.length ≠ resolved.length then pure []
        else if colIdx.length = resolved.length then optE (projectImpl (chunkN env.w rows) colIdx)
        else rows.mapM (fun r => fns.mapM (fun f => match f r with | .ok p => Except.ok p | .error e => Except.error (errStr e))))
      pure (numberHdr (resolved.map (fun (x : RItem) => { view := x.view, name := x.name, isJoin := false })), out)
  | .alias a names p => do
    let (h, rows) ← eval fuel env p
    let h ← renameHdr names h
    pure (aliasHeader a h, rows)
  | .session temps files p => eval fuel { env with temps := temps, files := files } p
  | .withC name cols defn body => do
    let (h, rows) ← eval fuel env defn
    let h ← renameHdr cols h
    eval fuel { env with ctes := (name, (aliasHeader name h, rows)) :: env.ctes } body
  | .recCte name cols distinct limit anchor stepP body => do
    -- InlineTableMap.Set + selectSetForRecursion: the anchor sees the name as it was (RecursiveTmpView = nil);
    -- every step sees the records of the step before under the name (header: the upper-cased name, the column list)
    let (ah, a) ← eval fuel env anchor
    let h0 ← renameHdr cols ah
    let wh := aliasHeader name.toUpper h0
    let stepE : List Row → Except String (List Row) := fun g => do
      let (sh, rows) ← eval fuel { env with recName := some name, gen := (wh, g) } stepP
      if sh.length ≠ ah.length then throw "ESETW" else pure rows
    match firstStepErr stepE limit a with
    | some e => throw e
    | none =>
      let step : List Row → List Row := fun g => match stepE g with | .ok r => r | .error _ => []
      let res := if distinct then recursiveUnionImpl (fun (r : Row) => r.map norm) step limit a
                 else recursiveImpl step limit a
      match res with
      | none => throw "ERR"
      | some out => eval fuel { env with ctes := (name, (aliasHeader name h0, out)) :: env.ctes } body
  | .named n =>
    match tableKind env.recName (env.ctes.map (fun c => c.1)) (env.temps.map (fun t => t.1)) n with
    | .recursive => pure env.gen
    | .cte => optE (lookupCte n env.ctes)
    | .temp => do
      let (_, k, cols) ← optE (lookupNamed n env.temps)
      let (nc, rows) ← optE env.tables[k]?
      let h ← renameHdr cols (anonHdr nc)
      pure (aliasHeader n h, rows)
    | _ =>
      match lookupNamed n env.files with
      | some (_, k, cols) => do
        let (nc, rows) ← optE env.tables[k]?
        let h ← renameHdr cols (anonHdr nc)
        pure (aliasHeader n h, rows)
      | none => throw "ENOTBL"

def evalFuel : Nat := 100000

def showRow (r : Row) : String := String.intercalate "," (r.map (fun p => showVal p.raw))

def showRes (res : Hdr × List Row) : String :=
  toString res.1.length ++ " " ++ (if res.2.isEmpty then "-" else String.intercalate "|" (res.2.map showRow))

def showE (r : Except String (Hdr × List Row)) : String :=
  match r with
  | .ok v => showRes v
  | .error e => e

def hexStr (t : String) : Option String :=
  -- the bytes are UTF-8 (Go strings); an invalid byte becomes U+FFFD, as in every loop of Go over the runes of a string
  if t = "-" then some "" else (unhex t).map (fun bs => String.ofList ((Uni.decodeRunes bs).map Char.ofNat))

/-- header description: `<n> { view name isJoin nAliases alias… number fromTable identifier }*` (strings in hex, `-` = empty) -/
def pHdr : Nat → P Hdr
  | 0, ts => some ([], ts)
  | n + 1, v :: nm :: j :: ts => do
    let v ← hexStr v
    let nm ← hexStr nm
    let j ← parseBool j
    let (na, ts) ← pNat ts
    let (als, ts) ← pNames na ts
    let als ← als.mapM hexStr
    match ts with
    | num :: ft :: ident :: ts => do
      let num ← num.toNat?
      let ft ← parseBool ft
      let ident ← hexStr ident
      let (rest, ts) ← pHdr n ts
      pure ({ view := v, name := nm, isJoin := j, aliases := als, number := num, fromTable := ft, identifier := ident } :: rest, ts)
    | _ => none
  | _, _ => none

def showIdx (r : Except ResErr Nat) : String :=
  match r with
  | .ok k => "I" ++ toString k
  | .error e => errStr e

/-- `c03.resolve <header> N view name | C view number | X identifier`: the index the reference denotes, or the error -/
def resolveOp (args : List String) : Option String := do
  let (n, ts) ← pNat args
  let (h, ts) ← pHdr n ts
  match ts with
  | ["N", v, nm] => do
    let v ← hexStr v
    let nm ← hexStr nm
    pure (showIdx (searchIndex h (.byName (if v = "" then none else some v) nm)))
  | ["C", v, k] => do
    let v ← hexStr v
    let k ← k.toInt?
    pure (showIdx (searchIndex h (.byNumber v k)))
  | ["X", ident] => do
    let ident ← hexStr ident
    pure (match containsIdent eqIdent h ident with | some k => "I" ++ toString k | none => "NONE")
  | _ => none

def c03 (cmd : String) (args : List String) : String :=
  -- a trailing `#<hex of the SQL text>` token is a comment for the human reader of a failing case
  let args := args.filter (fun a => !a.startsWith "#")
  match cmd with
  | "resolve" => (resolveOp args).getD bad
  | "q" =>
    (do
      let (w, ts) ← pNat args
      let (nv, ts) ← pNat ts
      let (vals, ts) ← pVals nv ts
      let vals := vals.toArray
      let (nt, ts) ← pNat ts
      let (tables, ts) ← pTables vals nt ts
      let (plan, ts) ← pPlan vals (ts.length + 1) ts
      if !ts.isEmpty then none else
      let env : Env := { tables := tables.toArray, gen := ([], []), w := w }
      some (showE (eval evalFuel env plan))).getD bad
  | "recchain" =>
    (do
      let (w, ts) ← pNat args
      let (limit, ts) ← pNat ts
      let (nv, ts) ← pNat ts
      let (vals, ts) ← pVals nv ts
      let vals := vals.toArray
      let (nt, ts) ← pNat ts
      let (tables, ts) ← pTables vals nt ts
      let (n, ts) ← pNat ts
      let (ops, ts) ← pNames n ts
      let (anchor, ts) ← pPlan vals (ts.length + 1) ts
      let rec plans (k : Nat) (ts : List String) : Option (List Plan × List String) :=
        match k with
        | 0 => some ([], ts)
        | k + 1 => do
          let (p, ts) ← pPlan vals (ts.length + 1) ts
          let (r, ts) ← plans k ts
          pure (p :: r, ts)
      let (steps, ts) ← plans n ts
      if !ts.isEmpty then none else
      let env : Env := { tables := tables.toArray, gen := ([], []), w := w }
      let (ah, a) ← (eval evalFuel env anchor).toOption
      let aw := anonHdr ah.length
      let members : List RecMember := (ops.zip steps).map (fun (os : String × Plan) =>
        { merge := if os.1 == "U" then mergeDistinct (fun (r : Row) => r.map norm) else mergeAll,
          step := fun g => match eval evalFuel { env with gen := (aw, g) } os.2 with
            | .ok (_, rows) => rows
            | .error _ => [] })
      match recChainImpl members limit a with
      | some (out, _) => some (showRes (aw, out))
      | none => some "ERR").getD bad
  | "rec" | "recu" =>
    (do
      let (w, ts) ← pNat args
      let (limit, ts) ← pNat ts
      let (nv, ts) ← pNat ts
      let (vals, ts) ← pVals nv ts
      let vals := vals.toArray
      let (nt, ts) ← pNat ts
      let (tables, ts) ← pTables vals nt ts
      let (anchor, ts) ← pPlan vals (ts.length + 1) ts
      let (stepP, ts) ← pPlan vals (ts.length + 1) ts
      -- optional final query over the recursive table (`G` = its complete contents)
      let (finalP, ts) ← (if ts.isEmpty then some (none, ts)
        else (pPlan vals (ts.length + 1) ts).map (fun (pt : Plan × List String) => (some pt.1, pt.2)))
      if !ts.isEmpty then none else
      let env : Env := { tables := tables.toArray, gen := ([], []), w := w }
      let (ah, a) ← (eval evalFuel env anchor).toOption
      let aw := anonHdr ah.length
      -- the step plan must be well-formed (checked once on the anchor)
      let (sh, _) ← (eval evalFuel { env with gen := (aw, a) } stepP).toOption
      if sh.length ≠ ah.length then none else
      let step : List Row → List Row := fun g =>
        match eval evalFuel { env with gen := (aw, g) } stepP with
        | .ok (_, rows) => rows
        | .error _ => []
      -- `recu`: UNION (distinct), records compared by their comparison keys (C04's normalisation)
      let res := if cmd == "recu" then recursiveUnionImpl (fun (r : Row) => r.map norm) step limit a
                 else recursiveImpl step limit a
      match res with
      | some out =>
        (match finalP with
        | none => some (showRes (aw, out))
        | some fp => some (showE (eval evalFuel { env with gen := (aw, out) } fp)))
      | none => some "ERR").getD bad
  | _ => bad

end Csvq.Drive.C03
