/-
  Driver handler for the C03 correspondence stream.

  op line (prefix token encoding):
    c03.q   <w> <nv> v_0 … v_{nv-1} <nt> { <ncols> <nrows> cell… }*  <Plan>
    c03.recu … the same with UNION (distinct) instead of UNION ALL
    c03.rec <w> <limit> <nv> v… <nt> {table}* <Plan anchor> <Plan step> [<Plan final>]
  `w`      = number of worker chunks the model cuts every outer record range into (the answer must not depend on it)
  `v_i`    = profile tokens (Proto.parseProfile); cells and literals are indices into this dictionary
  Plan    := T k | G | J kind Plan Plan JC | Q Plan Where Sel
  kind    := C | I | L | R | F
  JC      := - | O Cond | U n (li ri)*          (li / ri: column index in the left / right operand)
  Where   := - | W Cond
  Sel     := * | S n i…
  Cond    := cmp op E E | and C C | or C C | not C | isnull neg E | btw neg E E E | in neg E n v… | truth E
  E       := c side idx | l v
  A last token `#<hex>` (the SQL text that was run) is ignored.
  answer: `<width> <row>|<row>|…` (cells `Proto.showVal` of the raw value, joined by `,`), `<width> -` when
  there is no row, `ERR` when the recursion limit is exceeded.
-/
import Csvq.Model.Proto
import Csvq.Model.Rel
import Csvq.Model.Keys
namespace Csvq.Drive.C03
open Csvq Csvq.Proto Csvq.Rel

inductive JKind | cross | inner | left | right | full
  deriving DecidableEq, Repr

inductive JCond
  | none
  | on (c : CondE)
  | using (pairs : List (Nat × Nat))

inductive Plan
  | tbl (k : Nat)
  | gen
  | join (k : JKind) (l r : Plan) (jc : JCond)
  | query (src : Plan) (wh : Option CondE) (sel : Option (List Nat))

abbrev P (α : Type) := List String → Option (α × List String)

def pNat : P Nat
  | t :: ts => t.toNat?.map (fun n => (n, ts))
  | [] => none

def pNats : Nat → P (List Nat)
  | 0, ts => some ([], ts)
  | n + 1, ts => do
    let (a, ts) ← pNat ts
    let (as, ts) ← pNats n ts
    pure (a :: as, ts)

def pBool : P Bool
  | t :: ts => (parseBool t).map (fun b => (b, ts))
  | [] => none

def pExpr (vals : Array Profile) : P Expr
  | "c" :: s :: i :: ts => do
    let s ← s.toNat?
    let i ← i.toNat?
    pure (.col s i, ts)
  | "l" :: v :: ts => do
    let v ← v.toNat?
    let p ← vals[v]?
    pure (.lit p, ts)
  | _ => none

def pCond (vals : Array Profile) : Nat → P CondE
  | 0, _ => none
  | f + 1, tok :: ts =>
    match tok with
    | "cmp" =>
      match ts with
      | op :: ts => do
        let op ← parseCOp op
        let (a, ts) ← pExpr vals ts
        let (b, ts) ← pExpr vals ts
        pure (.cmp op a b, ts)
      | [] => none
    | "and" => do
      let (a, ts) ← pCond vals f ts
      let (b, ts) ← pCond vals f ts
      pure (.and a b, ts)
    | "or" => do
      let (a, ts) ← pCond vals f ts
      let (b, ts) ← pCond vals f ts
      pure (.or a b, ts)
    | "not" => do
      let (a, ts) ← pCond vals f ts
      pure (.not a, ts)
    | "isnull" => do
      let (n, ts) ← pBool ts
      let (a, ts) ← pExpr vals ts
      pure (.isNull n a, ts)
    | "btw" => do
      let (n, ts) ← pBool ts
      let (a, ts) ← pExpr vals ts
      let (lo, ts) ← pExpr vals ts
      let (hi, ts) ← pExpr vals ts
      pure (.between n a lo hi, ts)
    | "in" => do
      let (n, ts) ← pBool ts
      let (a, ts) ← pExpr vals ts
      let (k, ts) ← pNat ts
      let (vs, ts) ← pNats k ts
      let ps ← vs.mapM (fun v => vals[v]?)
      pure (.inList n a ps, ts)
    | "truth" => do
      let (a, ts) ← pExpr vals ts
      pure (.truth a, ts)
    | _ => none
  | _, [] => none

def pairUp : List Nat → List (Nat × Nat)
  | a :: b :: rest => (a, b) :: pairUp rest
  | _ => []

def pKind : String → Option JKind
  | "C" => some .cross | "I" => some .inner | "L" => some .left | "R" => some .right | "F" => some .full
  | _ => none

def pJCond (vals : Array Profile) (fuel : Nat) : P JCond
  | "-" :: ts => some (.none, ts)
  | "O" :: ts => do
    let (c, ts) ← pCond vals fuel ts
    pure (.on c, ts)
  | "U" :: ts => do
    let (n, ts) ← pNat ts
    let (xs, ts) ← pNats (2 * n) ts
    pure (.using (pairUp xs), ts)
  | _ => none

def pPlan (vals : Array Profile) : Nat → P Plan
  | 0, _ => none
  | f + 1, tok :: ts =>
    match tok with
    | "T" => do
      let (k, ts) ← pNat ts
      pure (.tbl k, ts)
    | "G" => some (.gen, ts)
    | "J" =>
      match ts with
      | k :: ts => do
        let k ← pKind k
        let (l, ts) ← pPlan vals f ts
        let (r, ts) ← pPlan vals f ts
        let (jc, ts) ← pJCond vals f ts
        pure (.join k l r jc, ts)
      | [] => none
    | "Q" => do
      let (src, ts) ← pPlan vals f ts
      let (wh, ts) ← (match ts with
        | "-" :: ts => some (none, ts)
        | "W" :: ts => (pCond vals f ts).map (fun (c, ts) => (some c, ts))
        | _ => none)
      let (sel, ts) ← (match ts with
        | "*" :: ts => some (none, ts)
        | "S" :: ts => do
          let (n, ts) ← pNat ts
          let (is, ts) ← pNats n ts
          pure (some is, ts)
        | _ => none)
      pure (.query src wh sel, ts)
    | _ => none
  | _, [] => none

/-- tables: `<ncols> <nrows> cell…` -/
def pRows (vals : Array Profile) (ncols : Nat) : Nat → P (List Row)
  | 0, ts => some ([], ts)
  | n + 1, ts => do
    let (is, ts) ← pNats ncols ts
    let r ← is.mapM (fun v => vals[v]?)
    let (rs, ts) ← pRows vals ncols n ts
    pure (r :: rs, ts)

def pTables (vals : Array Profile) : Nat → P (List (Nat × List Row))
  | 0, ts => some ([], ts)
  | n + 1, ts => do
    let (ncols, ts) ← pNat ts
    let (nrows, ts) ← pNat ts
    let (rows, ts) ← pRows vals ncols nrows ts
    let (rest, ts) ← pTables vals n ts
    pure ((ncols, rows) :: rest, ts)

def pVals : Nat → P (List Profile)
  | 0, ts => some ([], ts)
  | n + 1, t :: ts => do
    let p ← parseProfile t
    let (ps, ts) ← pVals n ts
    pure (p :: ps, ts)
  | _, [] => none

/-! evaluation with the implementation-shaped operators of Model/Rel.lean -/

/-- cut a list into (at most) `n` contiguous chunks -/
def chunkN {α} (n : Nat) (l : List α) : List (List α) :=
  let per := if n ≤ 1 then l.length else (l.length + n - 1) / n
  if per = 0 then [l] else
  let rec go (fuel : Nat) (l : List α) : List (List α) :=
    match fuel, l with
    | 0, _ => []
    | _, [] => []
    | f + 1, l => l.take per :: go f (l.drop per)
  match go l.length l with
  | [] => [[]]
  | cs => cs

structure Env where
  tables : Array (Nat × List Row)
  gen : Nat × List Row
  w : Nat

/-- the ON condition of a USING / NATURAL join: `l.c1 = r.c1 AND l.c2 = r.c2 AND …` (left-nested) -/
def usingCond : List (Nat × Nat) → Option CondE
  | [] => none
  | (li, ri) :: rest =>
    some (rest.foldl (fun acc (p : Nat × Nat) => CondE.and acc (.cmp .eq (.col 0 p.1) (.col 1 p.2)))
      (.cmp .eq (.col 0 li) (.col 1 ri)))

def eval (env : Env) : Plan → Option (Nat × List Row)
  | .tbl k => env.tables[k]?
  | .gen => some env.gen
  | .join kind l r jc => do
    let (lw, L) ← eval env l
    let (rw, R) ← eval env r
    let ce : Option CondE := match jc with
      | .none => none
      | .on c => some c
      | .using pairs => usingCond pairs
    let c : Cond := match ce with
      | none => fun _ => .T
      | some ce => fun row => evalCond lw row ce
    let rows := match kind with
      | .cross => crossImpl (chunkN env.w L) R
      | .inner => (match ce with
        | none => crossImpl (chunkN env.w L) R
        | some _ => innerImpl (chunkN env.w L) R c)
      | .left => outerImpl .left lw rw (chunkN env.w L) R c
      | .right => outerImpl .right rw lw (chunkN env.w R) L c
      | .full => outerImpl .full lw rw (chunkN env.w L) R c
    match jc with
    | .using pairs =>
      if pairs.isEmpty then some (lw + rw, rows) else
      if pairs.any (fun p => p.1 ≥ lw || p.2 ≥ rw) then none else
      let mp := pairs.map (fun p => match kind with
        | .right => (lw + p.2, p.1)
        | _ => (p.1, lw + p.2))
      (usingImpl (lw + rw) mp (chunkN env.w rows)).map (fun out => (lw + rw - pairs.length, out))
    | _ => some (lw + rw, rows)
  | .query src wh sel => do
    let (w, rows) ← eval env src
    let rows := match wh with
      | none => rows
      | some ce => filterImpl (chunkN env.w rows) (fun row => evalCond 0 row ce)
    match sel with
    | none => some (w, rows)
    | some idxs =>
      if idxs.any (fun i => i ≥ w) then none else
      (projectImpl (chunkN env.w rows) idxs).map (fun out => (idxs.length, out))

def showRow (r : Row) : String := String.intercalate "," (r.map (fun p => showVal p.raw))

def showRes (res : Nat × List Row) : String :=
  toString res.1 ++ " " ++ (if res.2.isEmpty then "-" else String.intercalate "|" (res.2.map showRow))

def c03 (cmd : String) (args : List String) : String :=
  let bad := "bad-op"
  -- a trailing `#<hex of the SQL text>` token is a comment for the human reader of a failing case
  let args := args.filter (fun a => !a.startsWith "#")
  match cmd with
  | "q" =>
    (do
      let (w, ts) ← pNat args
      let (nv, ts) ← pNat ts
      let (vals, ts) ← pVals nv ts
      let vals := vals.toArray
      let (nt, ts) ← pNat ts
      let (tables, ts) ← pTables vals nt ts
      let (plan, ts) ← pPlan vals (ts.length + 1) ts
      if !ts.isEmpty then none else
      let env : Env := { tables := tables.toArray, gen := (0, []), w := w }
      (eval env plan).map showRes).getD bad
  | "rec" | "recu" =>
    (do
      let (w, ts) ← pNat args
      let (limit, ts) ← pNat ts
      let (nv, ts) ← pNat ts
      let (vals, ts) ← pVals nv ts
      let vals := vals.toArray
      let (nt, ts) ← pNat ts
      let (tables, ts) ← pTables vals nt ts
      let (anchor, ts) ← pPlan vals (ts.length + 1) ts
      let (stepP, ts) ← pPlan vals (ts.length + 1) ts
      -- optional final query over the recursive table (`G` = its complete contents)
      let (finalP, ts) ← (if ts.isEmpty then some (none, ts)
        else (pPlan vals (ts.length + 1) ts).map (fun (pt : Plan × List String) => (some pt.1, pt.2)))
      if !ts.isEmpty then none else
      let env : Env := { tables := tables.toArray, gen := (0, []), w := w }
      let (aw, a) ← eval env anchor
      -- the step plan must be well-formed (checked once on the anchor)
      let (sw, _) ← eval { env with gen := (aw, a) } stepP
      if sw ≠ aw then none else
      let step : List Row → List Row := fun g =>
        match eval { env with gen := (aw, g) } stepP with
        | some (_, rows) => rows
        | none => []
      -- `recu`: UNION (distinct), records compared by their comparison keys (C04's normalisation)
      let res := if cmd == "recu" then recursiveUnionImpl (fun (r : Row) => r.map norm) step limit a
                 else recursiveImpl step limit a
      match res with
      | some out =>
        (match finalP with
        | none => some (showRes (aw, out))
        | some fp => (eval { env with gen := (aw, out) } fp).map showRes)
      | none => some "ERR").getD bad
  | _ => bad

end Csvq.Drive.C03
