/-
  Driver for the C05 / C08 correspondence streams: a STATEFUL loop (the model's tables, uncommitted
  marks and committed tables are carried from line to line).

    c05.reset                                                            → ok
    c05.table N k col_1…col_k cell…          (re)define table N; it is also its committed state → dump
    c05.insert N F m (len e_1…e_len)*         INSERT INTO N (fields) VALUES …                   → result
    c05.insertsel N F src k e_1…e_k cond      INSERT INTO N (fields) SELECT e… FROM src WHERE cond
    c05.replace N F nk key… m (len e…)*       REPLACE INTO N (fields) USING (keys) VALUES …
    c05.replacesel N F nk key… src k e_1…e_k cond   REPLACE INTO N (fields) USING (keys) SELECT e… FROM src WHERE cond
    c05.update N n (field e)* cond            UPDATE N SET … WHERE cond
    c05.delete N cond                         DELETE FROM N WHERE cond
    c05.updatem nt T… nf F… n (tbl field e)* cond   UPDATE T… SET … FROM F… (cross join) WHERE cond
    c05.deletem nt T… nf F… cond              DELETE T… FROM F… WHERE cond
    c05.updatej nt T… dir A B n (tbl field e)* on cond   UPDATE T… SET … FROM A dir JOIN B ON on WHERE cond;  dir = left|right|full
    c05.deletej nt T… dir A B on cond         DELETE T… FROM A dir JOIN B ON on WHERE cond
                                              (the NULL-padded side of an unmatched record has no internal record id)
    c05.updateu nt T… kind A B U n (tbl field e)* cond   UPDATE T… SET … FROM A kind JOIN B USING (U…) WHERE cond
    c05.deleteu nt T… kind A B U cond         DELETE T… FROM A kind JOIN B USING (U…) WHERE cond
                                              kind = inner|left|right|full; U = `k c_1…c_k` (USING) or `natural`;
                                              in e / cond the join columns are written without a table (`$c`: the merged
                                              column, the preserved side's value or — where that is NULL — the other's)
    c05.updatet nt T… <tree> n (view field e)* cond   UPDATE T… SET … FROM <tree> WHERE cond over a join TREE of any depth
    c05.deletet nt T… <tree> cond             DELETE T… FROM <tree> WHERE cond
                                              <tree> (prefix) = `T name` (updatable table, loaded with internal ids) |
                                              `S alias src` (a source WITHOUT internal ids — sub-query / inline table — with the
                                              records of table src) | `X l r` (comma, CROSS JOIN) | `O dir on l r` (JOIN … ON) |
                                              `U dir k c_1…c_k l r` (USING) | `N dir l r` (NATURAL); dir = inner|left|right|full;
                                              column references `$c` / `$t.c` are resolved in the header the MODEL computes for
                                              the joined view (Header.FieldIndex: merged columns have no table and win over
                                              equally named columns); SET view `-` = column written without a table
    c05.addcol N pos n (name 0 | name 1 e)*   ALTER TABLE N ADD (…) pos;  pos = first|last|before:c|after:c
    c05.dropcol N n col…   c05.rename N old new   c05.create N n col…
    c05.createas N n col… src k e_1…e_k cond   CREATE TABLE N (cols) AS SELECT e… FROM src WHERE cond
    c05.setattr N                        a successful ALTER TABLE N SET …: only the uncommitted mark → result
    c05.commit                                                           → ok m=
    c05.rollback                         marked tables back to their committed state → ok m=
    c05.committed N                           the committed table as text → dump of texts
    c05.dump N                                                           → dump
    c08.copysites                        the writes of the data-changing functions whose level is SHARED between a working
                                         copy and the cached table in the regenerated copy facts → `ok` | site | site …
    c05.fileinfo                         FileInfo struct copies inside data-changing functions / views given another FileInfo
                                         outside CreateTable (regenerated, extract/copyfacts) → `ok` | site | …
    c08.copydepth                        the levels of a working copy that the reviewed depth calls its own and the
                                         regenerated copy facts do not → `ok` | level: fact | …
  F (field list) = `-` (all columns) or `k f_1…f_k`.

  result = `ok T:count,… m=<marked tables, sorted> dump…` | `E<code> m=… dump…` (dumps of the target tables).

  Expressions (prefix notation): `=<profile>` literal, `$col` / `$tbl.col`, `+ - * / %` a b,
  `eq ne lt le gt ge` a b, `and` / `or` a b, `not` a, `isnull` a — with csvq's short-circuits;
  `cell tbl col k` = the scalar sub-query `(SELECT col FROM tbl WHERE id = k)` (NULL / the cell / error 10601).
-/
import Csvq.Model.Proto
import Csvq.Model.Sort
import Csvq.Model.Dml
import Csvq.Model.JoinTree
import Csvq.Model.CopySites
namespace Csvq.Drive.C05
open Csvq Csvq.Proto Csvq.Dml

inductive Ex
  | lit (c : Cell)
  | col (tbl : Option String) (name : String)
  | arith (op : AOp) (a b : Ex)
  | cmp (op : COp) (a b : Ex)
  | and (a b : Ex)
  | or (a b : Ex)
  | not (a : Ex)
  | isNull (a : Ex)
  /-- scalar sub-query `(SELECT col FROM tbl WHERE id = k)` -/
  | cell (tbl col : String) (k : Ex)
  deriving Inhabited

/-- evaluation context: per table of the statement its name, header and current record -/
abbrev Ctx := List (String × List String × Row)

def lookupCol (ctx : Ctx) (tbl : Option String) (name : String) : Except Err Cell :=
  match tbl with
  | some t =>
    match ctx.find? (fun e => e.1 == t) with
    | none => .error .fieldNotExist
    | some e =>
      match colIndex e.2.1 name with
      | .error er => .error er
      | .ok i => .ok (e.2.2[i]?.getD nullCell)
  | none =>
    let hits := ctx.filterMap fun e =>
      match colIndex e.2.1 name with
      | .ok i => some (e.2.2[i]?.getD nullCell)
      | .error _ => none
    match hits with
    | [] => .error .fieldNotExist
    | [c] => .ok c
    | _ => .error .fieldAmbiguous

def ofCalc : CalcRes → Except Err Cell
  | .null => .ok nullCell
  | .int i => .ok (profileOf (.int i))
  | .flt f => .ok (profileOf (.flt f))
  | .divZero => .error .divZero

def ternCell (t : Tern) : Cell := profileOf (.tern t)

def eval (ts : Tables) (ctx : Ctx) : Ex → Except Err Cell
  | .lit c => .ok c
  | .col t n => lookupCol ctx t n
  | .arith op a b =>
    match eval ts ctx a with
    | .error e => .error e
    | .ok x =>
      if x.isNull then .ok nullCell
      else match eval ts ctx b with
        | .error e => .error e
        | .ok y => ofCalc (calculate FVal.ieee op x y)
  | .cmp op a b =>
    match eval ts ctx a with
    | .error e => .error e
    | .ok x =>
      if x.isNull then .ok (ternCell .U)
      else match eval ts ctx b with
        | .error e => .error e
        | .ok y => .ok (ternCell (Csvq.compare op x y))
  | .and a b =>
    match eval ts ctx a with
    | .error e => .error e
    | .ok x =>
      if x.tern = .F then .ok (ternCell .F)
      else match eval ts ctx b with
        | .error e => .error e
        | .ok y => .ok (ternCell (Tern.and x.tern y.tern))
  | .or a b =>
    match eval ts ctx a with
    | .error e => .error e
    | .ok x =>
      if x.tern = .T then .ok (ternCell .T)
      else match eval ts ctx b with
        | .error e => .error e
        | .ok y => .ok (ternCell (Tern.or x.tern y.tern))
  | .not a =>
    match eval ts ctx a with
    | .error e => .error e
    | .ok x => .ok (ternCell x.tern.not)
  | .isNull a =>
    match eval ts ctx a with
    | .error e => .error e
    | .ok x => .ok (ternCell (Tern.ofBool x.isNull))
  | .cell tbl col k =>
    match eval ts ctx k with
    | .error e => .error e
    | .ok kv =>
      match lookupT ts tbl with
      | none => .error .noTable
      | some t =>
        match colIndex t.header col, colIndex t.header "id" with
        | .ok j, .ok i =>
          let hits := t.rows.filter fun r =>
            let c := r[i]?.getD nullCell
            !c.isNull && Csvq.compare .eq c kv == Tern.T
          match hits with
          | [] => .ok nullCell
          | [r] => .ok (r[j]?.getD nullCell)
          | _ => .error (.other 10601)
        | .error e, _ => .error e
        | _, .error e => .error e

def evalCond (ts : Tables) (ctx : Ctx) (e : Ex) : Except Err Tern :=
  match eval ts ctx e with
  | .error er => .error er
  | .ok c => .ok c.tern

/-! ### parsing -/

def parseColRef (s : String) : Ex :=
  match s.splitOn "." with
  | [t, c] => .col (some t) c
  | _ => .col none s

def parseEx : Nat → List String → Option (Ex × List String)
  | 0, _ => none
  | _, [] => none
  | fuel + 1, tok :: rest =>
    let two (mk : Ex → Ex → Ex) : Option (Ex × List String) :=
      match parseEx fuel rest with
      | none => none
      | some (a, r1) =>
        match parseEx fuel r1 with
        | none => none
        | some (b, r2) => some (mk a b, r2)
    let one (mk : Ex → Ex) : Option (Ex × List String) :=
      match parseEx fuel rest with
      | none => none
      | some (a, r1) => some (mk a, r1)
    if tok.front = '=' then (parseProfile (tok.drop 1).toString).map fun p => (.lit p, rest)
    else if tok.front = '$' then some (parseColRef (tok.drop 1).toString, rest)
    else match tok with
      | "and" => two .and
      | "or" => two .or
      | "not" => one .not
      | "isnull" => one .isNull
      | "cell" =>
        match rest with
        | t :: c :: r0 =>
          match parseEx fuel r0 with
          | none => none
          | some (k, r1) => some (.cell t c k, r1)
        | _ => none
      | "eq" => two (.cmp .eq) | "ne" => two (.cmp .ne) | "lt" => two (.cmp .lt)
      | "le" => two (.cmp .le) | "gt" => two (.cmp .gt) | "ge" => two (.cmp .ge)
      | _ => match parseAOp tok with
        | some op => two (.arith op)
        | none => none

def pEx (toks : List String) : Option (Ex × List String) := parseEx (toks.length + 1) toks

/-- `n x_1 … x_n rest` -/
def takeN (toks : List String) : Option (List String × List String) :=
  match toks with
  | [] => none
  | n :: rest =>
    match n.toNat? with
    | none => none
    | some k => if rest.length < k then none else some (rest.take k, rest.drop k)

/-- field list: `-` or `k f…` -/
def takeFields (toks : List String) : Option (Option (List String) × List String) :=
  match toks with
  | "-" :: rest => some (none, rest)
  | _ => (takeN toks).map fun p => (some p.1, p.2)

def parseExs : Nat → List String → Option (List Ex × List String)
  | 0, toks => some ([], toks)
  | k + 1, toks =>
    match pEx toks with
    | none => none
    | some (e, r) => (parseExs k r).map fun p => (e :: p.1, p.2)

/-- `m (len e…)*` -/
def parseValueRows : Nat → List String → Option (List (List Ex) × List String)
  | 0, toks => some ([], toks)
  | m + 1, toks =>
    match toks with
    | [] => none
    | l :: rest =>
      match l.toNat? with
      | none => none
      | some len =>
        match parseExs len rest with
        | none => none
        | some (es, r) => (parseValueRows m r).map fun p => (es :: p.1, p.2)

def evalRow (ts : Tables) (ctx : Ctx) : List Ex → Except Err Row
  | [] => .ok []
  | e :: es =>
    match eval ts ctx e with
    | .error er => .error er
    | .ok v => match evalRow ts ctx es with | .error er => .error er | .ok vs => .ok (v :: vs)

def parseSets : Nat → List String → Option (List (String × Ex) × List String)
  | 0, toks => some ([], toks)
  | k + 1, f :: rest =>
    match pEx rest with
    | none => none
    | some (e, r) => (parseSets k r).map fun p => ((f, e) :: p.1, p.2)
  | _, _ => none

def parseSetsM : Nat → List String → Option (List (String × String × Ex) × List String)
  | 0, toks => some ([], toks)
  | k + 1, t :: f :: rest =>
    match pEx rest with
    | none => none
    | some (e, r) => (parseSetsM k r).map fun p => ((t, f, e) :: p.1, p.2)
  | _, _ => none

def parseColDefs : Nat → List String → Option (List (String × Option Ex) × List String)
  | 0, toks => some ([], toks)
  | k + 1, n :: "0" :: rest => (parseColDefs k rest).map fun p => ((n, none) :: p.1, p.2)
  | k + 1, n :: "1" :: rest =>
    match pEx rest with
    | none => none
    | some (e, r) => (parseColDefs k r).map fun p => ((n, some e) :: p.1, p.2)
  | _, _ => none

def parsePos (s : String) : Option ColPos :=
  if s = "first" then some .first
  else if s = "last" then some .last
  else match s.splitOn ":" with
    | ["before", c] => some (.before c)
    | ["after", c] => some (.after c)
    | _ => none

def parseDir (s : String) : Option Dml.Dir :=
  if s = "left" then some .left else if s = "right" then some .right else if s = "full" then some .full else none

def parseKind (s : String) : Option (Option Dml.Dir) :=
  if s = "inner" then some none else (parseDir s).map some

/-- `natural` | `k c_1 … c_k` -/
def takeUsing (toks : List String) : Option (Option (List String) × List String) :=
  match toks with
  | "natural" :: rest => some (none, rest)
  | _ => (takeN toks).map fun p => (some p.1, p.2)

/-- csvq's `=` on two cells (NULL on either side: UNKNOWN) -/
def eqvCell (x y : Cell) : Tern := if x.isNull || y.isNull then .U else Csvq.compare .eq x y

/-- the cells of a record whose column is (not) among `U` -/
def splitCols (h : List String) (r : Row) (U : List String) : List String × Row :=
  let kept := (h.zip r).filter fun p => !U.contains p.1
  (kept.map Prod.fst, kept.map Prod.snd)

def cellOf (h : List String) (r : Row) (c : String) : Cell :=
  match firstIdx c h with
  | some i => r[i]?.getD nullCell
  | none => nullCell

/-- the evaluation context of a USING / NATURAL join: the merged columns (no table name) take the value of the preserved
    side — the left table, for RIGHT the right one — or, where that is NULL, the other side's; the other columns keep their table -/
def usingCtx (a b : String) (ha hb : List String) (dir : Option Dml.Dir) (U : List String) (rows : List Row) : Ctx :=
  match rows with
  | [ra, rb] =>
    let merged := U.map fun c =>
      let va := cellOf ha ra c
      let vb := cellOf hb rb c
      match dir with
      | some .right => if vb.isNull then va else vb
      | _ => if va.isNull then vb else va
    let pa := splitCols ha ra U
    let pb := splitCols hb rb U
    [("", U, merged), (a, pa.1, pa.2), (b, pb.1, pb.2)]
  | _ => []

def chunkRows (n : Nat) (cells : List Cell) : Nat → List Row
  | 0 => []
  | fuel + 1 => if cells.isEmpty || n = 0 then [] else cells.take n :: chunkRows n (cells.drop n) fuel

/-! ### output -/

def showRow (r : Row) : String := String.intercalate "," (r.map fun c => showVal c.raw)

def dumpTable (n : String) (t : Table) : String :=
  n ++ "[" ++ String.intercalate "," t.header ++ "]" ++ String.intercalate ";" (t.rows.map showRow)

def dumpOf (ts : Tables) (n : String) : String :=
  match lookupT ts n with
  | none => n ++ "?"
  | some t => dumpTable n t

def decBytes (i : Int) : Bytes := (toString i).toUTF8.toList.map (·.toNat)

/-- the text csvq writes for a cell (integers, strings and NULL only) -/
def textOf (c : Cell) : String :=
  match c.raw with
  | .null => "N"
  | .int i => "S" ++ hex (decBytes i)
  | .str s => "S" ++ hex s
  | v => "?" ++ showVal v

def dumpText (n : String) (t : Table) : String :=
  n ++ "[" ++ String.intercalate "," t.header ++ "]" ++
    String.intercalate ";" (t.rows.map fun r => String.intercalate "," (r.map textOf))

def insertSorted (s : String) : List String → List String
  | [] => [s]
  | x :: xs => if s < x then s :: x :: xs else x :: insertSorted s xs

def sortStrs (l : List String) : List String := l.foldl (fun acc s => insertSorted s acc) []

def showMarks (m : List String) : String := "m=" ++ String.intercalate "," (sortStrs m)

def showResult (s : State) (r : Result) (targets : List String) : String :=
  let dumps := String.intercalate " " ((sortStrs targets).map (dumpOf s.tables))
  match r with
  | .error e => (s!"E{e.code} {showMarks s.marks} {dumps}").trimAsciiEnd.toString
  | .ok counts =>
    let cs := sortStrs (counts.map fun c => s!"{c.1}:{c.2}")
    (s!"ok {String.intercalate "," cs} {showMarks s.marks} {dumps}").trimAsciiEnd.toString

/-- REPLACE's key equivalence: SortValues.EquivalentTo on NewSortValue of the cells -/
def keqSort (a b : List Cell) : Bool :=
  rowsEquiv (a.map fun c => toSortVal c []) (b.map fun c => toSortVal c [])

def headerOf (ts : Tables) (n : String) : List String :=
  match lookupT ts n with
  | none => []
  | some t => t.header

/-! ### join trees (Model/JoinTree) -/

/-- two pseudo tables sharing one column: an unqualified reference to it is ambiguous -/
def ambCtx : Ctx := [("?a", ["?amb"], [nullCell]), ("?b", ["?amb"], [nullCell])]

/-- the column references of an expression, looked up in the header of the joined view (Header.FieldIndex) and replaced by
    the cell of the record; a reference that does not resolve is replaced by one that fails in the same way WHEN evaluated -/
def bindCols (h : List HField) (jr : JRow) : Ex → Ex
  | .lit c => .lit c
  | .col t n =>
    match searchIdx h (t.getD "") n with
    | .ok k => .lit (cellAtField h k jr)
    | .error .fieldAmbiguous => .col none "?amb"
    | .error _ => .col (some "?none") n
  | .arith op a b => .arith op (bindCols h jr a) (bindCols h jr b)
  | .cmp op a b => .cmp op (bindCols h jr a) (bindCols h jr b)
  | .and a b => .and (bindCols h jr a) (bindCols h jr b)
  | .or a b => .or (bindCols h jr a) (bindCols h jr b)
  | .not a => .not (bindCols h jr a)
  | .isNull a => .isNull (bindCols h jr a)
  | .cell tbl col k => .cell tbl col (bindCols h jr k)

def condT' (ts : Tables) (e : Ex) : List HField → JRow → Except Err Tern :=
  fun h jr => evalCond ts ambCtx (bindCols h jr e)

def parseTree (ts : Tables) : Nat → List String → Option (Tree × List String)
  | 0, _ => none
  | _, [] => none
  | fuel + 1, tok :: rest =>
    let two (spec : JoinSpec) (r0 : List String) : Option (Tree × List String) :=
      match parseTree ts fuel r0 with
      | none => none
      | some (l, r1) =>
        match parseTree ts fuel r1 with
        | none => none
        | some (r, r2) => some (.join l r spec, r2)
    match tok, rest with
    | "T", n :: r0 => some (.leaf (.table n), r0)
    | "S", a :: src :: r0 => some (.leaf (.inline a src), r0)
    | "X", r0 => two .cross r0
    | "O", d :: r0 =>
      match parseKind d, pEx r0 with
      | some dir, some (on, r1) => two (.on dir (condT' ts on)) r1
      | _, _ => none
    | "U", d :: r0 =>
      match parseKind d, takeN r0 with
      | some dir, some (U, r1) => two (.using dir (some U)) r1
      | _, _ => none
    | "N", d :: r0 =>
      match parseKind d with
      | some dir => two (.using dir none) r0
      | none => none
    | _, _ => none

/-- every updatable table of the FROM clause (and the targets), once: all of them are read back after the statement -/
def treeTables (tree : Tree) (targets : List String) : List String :=
  (tree.leaves.filterMap id ++ targets).foldl (fun acc n => if n ∈ acc then acc else acc ++ [n]) []

def parseSetsT : Nat → List String → Option (List (String × String × Ex) × List String)
  | 0, toks => some ([], toks)
  | k + 1, t :: f :: rest =>
    match pEx rest with
    | none => none
    | some (e, r) => (parseSetsT k r).map fun p => (((if t = "-" then "" else t), f, e) :: p.1, p.2)
  | _, _ => none

/-! ### one operation -/

def runStmt (s : State) (st : Stmt) (targets : List String) : State × String :=
  let r := stmtImpl s st
  (r.1, showResult r.1 r.2 targets)

def step (s : State) (cmd : String) (args : List String) : State × String :=
  let bad : State × String := (s, "bad-op")
  match cmd, args with
  | "table", n :: rest =>
    match takeN rest with
    | none => bad
    | some (cols, cellToks) =>
      match cellToks.mapM parseProfile with
      | none => bad
      | some cells =>
        let t : Table := { header := cols, rows := chunkRows cols.length cells (cells.length + 1) }
        ({ s with tables := setOrAdd s.tables n t, committed := setOrAdd s.committed n t,
                  marks := s.marks.filter (· != n) }, dumpTable n t)
  | "dump", [n] => (s, dumpOf s.tables n)
  | "copysites", [] =>
    (s, if Csvq.CopySites.current.isEmpty then "ok" else String.intercalate " | " Csvq.CopySites.current)
  | "fileinfo", [] =>
    (s, if Csvq.CopySites.currentFileInfo.isEmpty then "ok" else String.intercalate " | " Csvq.CopySites.currentFileInfo)
  | "copydepth", [] =>
    (s, if Csvq.CopySites.currentDepth.isEmpty then "ok" else String.intercalate " | " Csvq.CopySites.currentDepth)
  | "committed", [n] =>
    match lookupT s.committed n with
    | none => (s, n ++ "?")
    | some t => (s, dumpText n t)
  | "setattr", [n] =>
    -- a successful ALTER TABLE n SET attribute: header and records are untouched, the table is marked uncommitted
    match lookupT s.tables n with
    | none => bad
    | some _ =>
      let s' := { s with marks := addMark s.marks n }
      (s', showResult s' (.ok []) [n])
  | "rollback", [] =>
    let s' := rollback s
    (s', "ok " ++ showMarks s'.marks)
  | "commit", [] =>
    let s' := commit s
    (s', "ok " ++ showMarks s'.marks)
  | "insert", n :: rest =>
    match takeFields rest with
    | none => bad
    | some (fields, r1) =>
      match r1 with
      | [] => bad
      | m :: r2 =>
        match m.toNat? with
        | none => bad
        | some m =>
          match parseValueRows m r2 with
          | some (rows, []) => runStmt s (.insert n fields fun ts => rows.map (evalRow ts [])) [n]
          | _ => bad
  | "insertsel", n :: rest =>
    match takeFields rest with
    | none => bad
    | some (fields, r1) =>
      match r1 with
      | src :: k :: r2 =>
        match k.toNat? with
        | none => bad
        | some k =>
          match parseExs k r2 with
          | none => bad
          | some (es, r3) =>
            match pEx r3 with
            | some (cond, []) =>
              let srcFn : Tables → List (Except Err Row) := fun ts =>
                match lookupT ts src with
                | none => [.error .noTable]
                | some t =>
                  match filterView (fun (r : Row) => evalCond ts [(src, t.header, r)] cond) (withIdsFrom t.rows 0) with
                  | .error e => [.error e]
                  | .ok view =>
                    let given := view.map fun x => evalRow ts [(src, t.header, x.2)] es
                    let nf := (fields.getD (headerOf ts n)).length
                    if given.all (fun g => match g with | .ok _ => true | .error _ => false) && k ≠ nf
                    then [.error .selLen] else given
              runStmt s (.insert n fields srcFn) [n]
            | _ => bad
      | _ => bad
  | "replace", n :: rest =>
    match takeFields rest with
    | none => bad
    | some (fields, r1) =>
      match takeN r1 with
      | none => bad
      | some (keys, r2) =>
        match r2 with
        | [] => bad
        | m :: r3 =>
          match m.toNat? with
          | none => bad
          | some m =>
            match parseValueRows m r3 with
            | some (rows, []) => runStmt s (.replace keqSort n fields keys fun ts => rows.map (evalRow ts [])) [n]
            | _ => bad
  | "replacesel", n :: rest =>
    -- REPLACE INTO n (fields) USING (keys) SELECT e… FROM src WHERE cond
    match takeFields rest with
    | none => bad
    | some (fields, r1) =>
      match takeN r1 with
      | none => bad
      | some (keys, r2) =>
        match r2 with
        | src :: k :: r3 =>
          match k.toNat? with
          | none => bad
          | some k =>
            match parseExs k r3 with
            | none => bad
            | some (es, r4) =>
              match pEx r4 with
              | some (cond, []) =>
                let srcFn : Tables → List (Except Err Row) := fun ts =>
                  match lookupT ts src with
                  | none => [.error .noTable]
                  | some t =>
                    match filterView (fun (r : Row) => evalCond ts [(src, t.header, r)] cond) (withIdsFrom t.rows 0) with
                    | .error e => [.error e]
                    | .ok view =>
                      let given := view.map fun x => evalRow ts [(src, t.header, x.2)] es
                      let nf := (fields.getD (headerOf ts n)).length
                      if given.all (fun g => match g with | .ok _ => true | .error _ => false) && k ≠ nf
                      then [.error .selLen] else given
                runStmt s (.replace keqSort n fields keys srcFn) [n]
              | _ => bad
        | _ => bad
  | "update", n :: k :: rest =>
    match k.toNat? with
    | none => bad
    | some k =>
      match parseSets k rest with
      | none => bad
      | some (sets, r1) =>
        match pEx r1 with
        | some (cond, []) =>
          let h := headerOf s.tables n
          runStmt s (.update n (fun r => evalCond s.tables [(n, h, r)] cond)
            (sets.map fun p => { field := p.1, expr := fun r => eval s.tables [(n, h, r)] p.2 })) [n]
        | _ => bad
  | "delete", n :: rest =>
    match pEx rest with
    | some (cond, []) =>
      let h := headerOf s.tables n
      runStmt s (.delete n fun r => evalCond s.tables [(n, h, r)] cond) [n]
    | _ => bad
  | "updatem", rest =>
    match takeN rest with
    | none => bad
    | some (targets, r1) =>
      match takeN r1 with
      | none => bad
      | some (froms, r2) =>
        match r2 with
        | [] => bad
        | k :: r3 =>
          match k.toNat? with
          | none => bad
          | some k =>
            match parseSetsM k r3 with
            | none => bad
            | some (sets, r4) =>
              match pEx r4 with
              | some (cond, []) =>
                let mk (rows : List Row) : Ctx := (froms.zip rows).map fun p => (p.1, headerOf s.tables p.1, p.2)
                runStmt s (.updateMulti targets froms .cross (fun rows => evalCond s.tables (mk rows) cond)
                  (sets.map fun p => (p.1, { field := p.2.1, expr := fun rows => eval s.tables (mk rows) p.2.2 }))) targets
              | _ => bad
  | "deletem", rest =>
    match takeN rest with
    | none => bad
    | some (targets, r1) =>
      match takeN r1 with
      | none => bad
      | some (froms, r2) =>
        match pEx r2 with
        | some (cond, []) =>
          let mk (rows : List Row) : Ctx := (froms.zip rows).map fun p => (p.1, headerOf s.tables p.1, p.2)
          runStmt s (.deleteMulti targets froms .cross fun rows => evalCond s.tables (mk rows) cond) targets
        | _ => bad
  | "updatej", rest =>
    match takeN rest with
    | some (targets, d :: a :: b :: k :: r3) =>
      match parseDir d, k.toNat? with
      | some dir, some k =>
        match parseSetsM k r3 with
        | none => bad
        | some (sets, r4) =>
          match pEx r4 with
          | none => bad
          | some (on, r5) =>
            match pEx r5 with
            | some (cond, []) =>
              let froms := [a, b]
              let mk (rows : List Row) : Ctx := (froms.zip rows).map fun p => (p.1, headerOf s.tables p.1, p.2)
              runStmt s (.updateMulti targets froms (.outer dir fun rows => evalCond s.tables (mk rows) on)
                (fun rows => evalCond s.tables (mk rows) cond)
                (sets.map fun p => (p.1, { field := p.2.1, expr := fun rows => eval s.tables (mk rows) p.2.2 }))) targets
            | _ => bad
      | _, _ => bad
    | _ => bad
  | "deletej", rest =>
    match takeN rest with
    | some (targets, d :: a :: b :: r3) =>
      match parseDir d with
      | none => bad
      | some dir =>
        match pEx r3 with
        | none => bad
        | some (on, r4) =>
          match pEx r4 with
          | some (cond, []) =>
            let froms := [a, b]
            let mk (rows : List Row) : Ctx := (froms.zip rows).map fun p => (p.1, headerOf s.tables p.1, p.2)
            runStmt s (.deleteMulti targets froms (.outer dir fun rows => evalCond s.tables (mk rows) on)
              (fun rows => evalCond s.tables (mk rows) cond)) targets
          | _ => bad
    | _ => bad
  | "updateu", rest =>
    match takeN rest with
    | some (targets, kd :: a :: b :: r2) =>
      match parseKind kd, takeUsing r2 with
      | some dir, some (cols, k :: r3) =>
        match k.toNat? with
        | none => bad
        | some k =>
          match parseSetsM k r3 with
          | none => bad
          | some (sets, r4) =>
            match pEx r4 with
            | some (cond, []) =>
              let ha := headerOf s.tables a
              let hb := headerOf s.tables b
              let U := cols.getD (naturalCols ha hb)
              let mk (rows : List Row) : Ctx := usingCtx a b ha hb dir U rows
              runStmt s (.updateMulti targets [a, b] (.using dir cols eqvCell)
                (fun rows => evalCond s.tables (mk rows) cond)
                (sets.map fun p => (p.1, { field := p.2.1, expr := fun rows => eval s.tables (mk rows) p.2.2 }))) targets
            | _ => bad
      | _, _ => bad
    | _ => bad
  | "deleteu", rest =>
    match takeN rest with
    | some (targets, kd :: a :: b :: r2) =>
      match parseKind kd, takeUsing r2 with
      | some dir, some (cols, r3) =>
        match pEx r3 with
        | some (cond, []) =>
          let ha := headerOf s.tables a
          let hb := headerOf s.tables b
          let U := cols.getD (naturalCols ha hb)
          let mk (rows : List Row) : Ctx := usingCtx a b ha hb dir U rows
          runStmt s (.deleteMulti targets [a, b] (.using dir cols eqvCell)
            (fun rows => evalCond s.tables (mk rows) cond)) targets
        | _ => bad
      | _, _ => bad
    | _ => bad
  | "updatet", rest =>
    match takeN rest with
    | none => bad
    | some (targets, r1) =>
      match parseTree s.tables (r1.length + 1) r1 with
      | some (tree, k :: r2) =>
        match k.toNat? with
        | none => bad
        | some k =>
          match parseSetsT k r2 with
          | none => bad
          | some (sets, r3) =>
            match pEx r3 with
            | some (cond, []) =>
              let r := publishBody s (updateTreeBody s.tables eqvCell targets tree (condT' s.tables cond)
                (sets.map fun p => { view := p.1, field := p.2.1,
                                     expr := fun h jr => eval s.tables ambCtx (bindCols h jr p.2.2) }))
              (r.1, showResult r.1 r.2 (treeTables tree targets))
            | _ => bad
      | _ => bad
  | "deletet", rest =>
    match takeN rest with
    | none => bad
    | some (targets, r1) =>
      match parseTree s.tables (r1.length + 1) r1 with
      | some (tree, r2) =>
        match pEx r2 with
        | some (cond, []) =>
          let r := publishBody s (deleteTreeBody s.tables eqvCell targets tree (condT' s.tables cond))
          (r.1, showResult r.1 r.2 (treeTables tree targets))
        | _ => bad
      | none => bad
  | "addcol", n :: pos :: k :: rest =>
    match parsePos pos, k.toNat? with
    | some pos, some k =>
      match parseColDefs k rest with
      | some (defs, []) =>
        let h := headerOf s.tables n
        runStmt s (.addCols n pos (defs.map fun d => (d.1, d.2.map fun e => fun r => eval s.tables [(n, h, r)] e))) [n]
      | _ => bad
    | _, _ => bad
  | "dropcol", n :: rest =>
    match takeN rest with
    | some (cols, []) => runStmt s (.dropCols n cols) [n]
    | _ => bad
  | "rename", [n, o, nw] => runStmt s (.rename n o nw) [n]
  | "create", n :: rest =>
    match takeN rest with
    | some (cols, []) => runStmt s (.create n cols none) []
    | _ => bad
  | "createas", n :: rest =>
    -- CREATE TABLE n (cols) AS SELECT e… FROM src WHERE cond
    match takeN rest with
    | some (cols, src :: k :: r2) =>
      match k.toNat? with
      | none => bad
      | some k =>
        match parseExs k r2 with
        | none => bad
        | some (es, r3) =>
          match pEx r3 with
          | some (cond, []) =>
            let srcFn : Tables → List (Except Err Row) := fun ts =>
              match lookupT ts src with
              | none => [.error .noTable]
              | some t =>
                match filterView (fun (r : Row) => evalCond ts [(src, t.header, r)] cond) (withIdsFrom t.rows 0) with
                | .error e => [.error e]
                | .ok view => view.map fun x => evalRow ts [(src, t.header, x.2)] es
            let r := stmtImpl s (.create n cols (some (k, srcFn)))
            (r.1, showResult r.1 r.2 (match r.2 with | .ok _ => [n] | .error _ => []))
          | _ => bad
    | _ => bad
  | _, _ => bad

partial def loop (h out : IO.FS.Stream) (s : State) : IO Unit := do
  let line ← h.getLine
  if line.isEmpty then return ()
  let l := (line.dropEndWhile (fun c => c = '\n' || c = '\r')).toString
  match l.splitOn " " with
  | head :: args =>
    match head.splitOn "." with
    | [_, "reset"] =>
      out.putStrLn "ok"
      loop h out { tables := [], marks := [], committed := [] }
    | [_, cmd] =>
      let r := step s cmd args
      out.putStrLn r.2
      loop h out r.1
    | _ =>
      out.putStrLn "bad-op"
      loop h out s
  | [] =>
    out.putStrLn "bad-op"
    loop h out s

def runC05 : IO Unit := do
  let out ← IO.getStdout
  loop (← IO.getStdin) out { tables := [], marks := [], committed := [] }
  out.flush

end Csvq.Drive.C05
