/- Driver handlers for the C07 correspondence streams. -/
import Csvq.Model.Proto
import Csvq.Model.Sort
import Csvq.Model.SortStrict
import Csvq.Model.CellText
namespace Csvq.Drive
open Csvq Csvq.Proto

/-- ORDER BY item token: `a`/`d` followed by `f`/`l`/`-` (default: ASC→FIRST, DESC→LAST as in OrderBy) -/
def parseItem (s : String) : Option OrdItem :=
  match s.toList with
  | [d, n] =>
    let dir? : Option Dir := if d = 'a' then some .asc else if d = 'd' then some .desc else none
    match dir? with
    | none => none
    | some dir =>
      if n = 'f' then some ⟨dir, .first⟩
      else if n = 'l' then some ⟨dir, .last⟩
      else if n = '-' then some ⟨dir, match dir with | .asc => .first | .desc => .last⟩
      else none
  | _ => none

/-- the profile of a cell as the MODEL's own conversions compute it: for a TEXT every rung of NewSortValue's ladder
    (integer, float, boolean, the upper-cased trimmed text) comes from Model/Text, ParseFloat, Unicode applied to
    the raw bytes — not from the implementation's answers in the token; the datetime rung too (Model/ParseTime),
    except for a text that does not begin with a digit: it can only be a datetime through the session's custom
    format (the C07 stream runs under one), which the model does not know — there the token's answer is taken -/
def modelProfile (tok : String) : Option Profile :=
  match tok.splitOn ";" with
  | [r, _, _, d, _, _, _] =>
    match parseVal r with
    | some (.str b) => do
      let d ← parseOpt String.toInt? d
      let p := profileOfText b (Uni.strToUpper (PF.trimSpace b))
      let dt := match PT.strToTime b with
        | some x => some x
        | none => if PT.isDig ((PF.trimSpace b).getD 0 0) then none else d
      pure { p with dt? := dt }
    | _ => parseProfile tok
  | _ => parseProfile tok

/-- the text a sort value keeps for the comparison with a string: for a text the model's own upper-cased trimmed
    text, for a number the token's (upper-cased ToString) -/
def modelTxt (p : Profile) (t : Option Bytes) : Bytes :=
  match p.raw with
  | .str b => Uni.strToUpper (PF.trimSpace b)
  | _ => t.getD []

/-- cell token: profile~txt -/
def parseCell (s : String) : Option SortVal :=
  match s.splitOn "~" with
  | [p, t] => do
    let p ← modelProfile p
    let t ← parseOpt parseHexX t
    pure (toSortVal p (modelTxt p t))
  | _ => none

def showIds (l : List Nat) : String := if l.isEmpty then "-" else String.intercalate "," (l.map toString)

/-- the same cell under --strict-equal: the model builds the identical key from the raw value -/
def parseCellS (s : String) : Option SSortVal :=
  match s.splitOn "~" with
  | [p, t] => do
    let p ← modelProfile p
    let t ← parseOpt parseHexX t
    pure (toSSortVal p (modelTxt p t))
  | _ => none

/-- rows: each `id cell…cell` -/
def parseRowsG {α} (cell : String → Option α) (ncols : Nat) : List String → Option (List (Nat × List α))
  | [] => some []
  | idt :: rest => do
    let id ← idt.toNat?
    let cells ← (rest.take ncols).mapM cell
    if cells.length ≠ ncols then none
    let more ← parseRowsG cell ncols (rest.drop ncols)
    pure ((id, cells) :: more)
termination_by l => l.length
decreasing_by simp_wf; omega

def firstBadG {α} (lt : List α → List α → Bool) : List (Nat × List α) → Nat → Option Nat
  | a :: b :: rest, i => if lt b.2 a.2 then some i else firstBadG lt (b :: rest) (i + 1)
  | _, _ => none

def showSortVal : SortVal → String
  | .null => "N"
  | .int i f t => s!"I {i} {showF f} x{hex t}"
  | .flt f t => s!"F {showF f} x{hex t}"
  | .dt ns => s!"D {ns}"
  | .bool b => if b then "B 1" else "B 0"
  | .str t => "S x" ++ hex t

/-- is the implementation's output order sorted? (`lt` = SortValues.Less of the mode) -/
def opSorted {α} (cell : String → Option α) (lt : List OrdItem → List α → List α → Bool)
    (its nc : String) (rest : List String) : String :=
  match (its.splitOn ",").mapM parseItem, nc.toNat? with
  | some its, some ncols =>
    match parseRowsG cell ncols rest with
    | some rows =>
      match firstBadG (lt its) rows 0 with
      | none => "sorted"
      | some i => s!"unsorted-at:{i}"
    | none => "bad-op"
  | _, _ => "bad-op"

/-- rows in sorted order; apply OFFSET then LIMIT as view.go does (`eqv` = SortValues.EquivalentTo of the mode);
    answer: surviving ids -/
def opCut {α} (cell : String → Option α) (eqv : List α → List α → Bool)
    (its nc wt kind lim off : String) (rest : List String) : String :=
  match (its.splitOn ",").mapM parseItem, nc.toNat?, parseBool wt, off.toInt? with
  | some _, some ncols, some wt, some off =>
    match parseRowsG cell ncols rest with
    | some rows =>
      let afterOff := offsetRows off rows
      let eqv' := fun (a b : Nat × List α) => eqv a.2 b.2
      -- View.Limit takes the percentage of RecordLen() + view.offset
      let total := afterOff.length + (if off < 0 then 0 else off.toNat)
      let k? : Option Nat :=
        if kind = "n" then lim.toInt?.map limitNumber
        else if kind = "p" then (parseF lim).bind (limitPercent total)
        else if kind = "none" then some afterOff.length
        else none
      match k? with
      | some k => showIds ((limitRows eqv' wt k afterOff).map Prod.fst)
      | none => "E"
    | none => "bad-op"
  | _, _, _, _ => "bad-op"


def c07 (cmd : String) (args : List String) : String :=
  let bad := "bad-op"
  let cmd := if cmd = "sorted_mixed" then "sorted" else if cmd = "strict_sorted_mixed" then "strict_sorted" else cmd
  match cmd, args with
  | "sv", [c] =>
    match parseCell c with
    | some v => showSortVal v
    | none => bad
  | "strict_sv", [c] =>
    -- NewSortValue under --strict-equal: the typed fields and the bytes of SerializedKey
    match parseCellS c with
    | some v => showSortVal v.val ++ " k" ++ hex v.key
    | none => bad
  | "less", [x, y] =>
    -- SortValue.Less / EquivalentTo on one pair of values, both ways round
    match parseCell x, parseCell y with
    | some a, some b => s!"{(a.less b).toStr}{(b.less a).toStr} {if a.equiv b then 1 else 0}{if b.equiv a then 1 else 0}"
    | _, _ => bad
  | "strict_less", [x, y] =>
    match parseCellS x, parseCellS y with
    | some a, some b => s!"{(a.less b).toStr}{(b.less a).toStr} {if a.equiv b then 1 else 0}{if b.equiv a then 1 else 0}"
    | _, _ => bad
  | "sorted", its :: nc :: rest => opSorted parseCell rowsLess its nc rest
  | "strict_sorted", its :: nc :: rest => opSorted parseCellS rowsLessS its nc rest
  | "cut", its :: nc :: wt :: kind :: lim :: off :: rest => opCut parseCell rowsEquiv its nc wt kind lim off rest
  | "strict_cut", its :: nc :: wt :: kind :: lim :: off :: rest => opCut parseCellS rowsEquivS its nc wt kind lim off rest
  | "pct", [total, off, p] =>
    -- LIMIT p PERCENT OFFSET off on `total` rows: how many rows survive
    match total.toNat?, off.toNat?, parseF p with
    | some total, some off, some p =>
      let afterOff := total - off
      -- View.Limit takes the percentage of RecordLen() + view.offset
      let base := afterOff + off
      match limitPercent base p with
      | some k => toString (min k afterOff)
      | none => "E"
    | _, _, _ => bad
  | _, _ => bad

end Csvq.Drive
