/- Driver handlers for the C07 correspondence streams. -/
import Csvq.Model.Proto
import Csvq.Model.Sort
namespace Csvq.Drive
open Csvq Csvq.Proto

/-- ORDER BY item token: `a`/`d` followed by `f`/`l`/`-` (default: ASC→FIRST, DESC→LAST as in OrderBy) -/
def parseItem (s : String) : Option OrdItem :=
  match s.toList with
  | [d, n] =>
    let dir? : Option Dir := if d = 'a' then some .asc else if d = 'd' then some .desc else none
    match dir? with
    | none => none
    | some dir =>
      if n = 'f' then some ⟨dir, .first⟩
      else if n = 'l' then some ⟨dir, .last⟩
      else if n = '-' then some ⟨dir, match dir with | .asc => .first | .desc => .last⟩
      else none
  | _ => none

/-- cell token: profile~txt -/
def parseCell (s : String) : Option SortVal :=
  match s.splitOn "~" with
  | [p, t] => do
    let p ← parseProfile p
    let t ← parseOpt parseHexX t
    pure (toSortVal p (t.getD []))
  | _ => none

/-- rows: each `id cell…cell` -/
def parseRows (ncols : Nat) : List String → Option (List (Nat × List SortVal))
  | [] => some []
  | idt :: rest => do
    let id ← idt.toNat?
    let cells ← (rest.take ncols).mapM parseCell
    if cells.length ≠ ncols then none
    let more ← parseRows ncols (rest.drop ncols)
    pure ((id, cells) :: more)
termination_by l => l.length
decreasing_by simp_wf; omega

def firstBad (its : List OrdItem) : List (Nat × List SortVal) → Nat → Option Nat
  | a :: b :: rest, i => if rowsLess its b.2 a.2 then some i else firstBad its (b :: rest) (i + 1)
  | _, _ => none

def showIds (l : List Nat) : String := if l.isEmpty then "-" else String.intercalate "," (l.map toString)

def c07 (cmd : String) (args : List String) : String :=
  let bad := "bad-op"
  let cmd := if cmd = "sorted_mixed" then "sorted" else cmd
  match cmd, args with
  | "sv", [c] =>
    match parseCell c with
    | some .null => "N"
    | some (.int i f t) => s!"I {i} {showF f} x{hex t}"
    | some (.flt f t) => s!"F {showF f} x{hex t}"
    | some (.dt ns) => s!"D {ns}"
    | some (.bool b) => if b then "B 1" else "B 0"
    | some (.str t) => "S x" ++ hex t
    | none => bad
  | "sorted", its :: nc :: rest =>
    -- rows are given in the implementation's output order; answer: is that order sorted?
    match (its.splitOn ",").mapM parseItem, nc.toNat? with
    | some its, some ncols =>
      match parseRows ncols rest with
      | some rows =>
        match firstBad its rows 0 with
        | none => "sorted"
        | some i => s!"unsorted-at:{i}"
      | none => bad
    | _, _ => bad
  | "cut", its :: nc :: wt :: kind :: lim :: off :: rest =>
    -- rows in sorted order; apply OFFSET then LIMIT as view.go does; answer: surviving ids
    match (its.splitOn ",").mapM parseItem, nc.toNat?, parseBool wt, off.toInt? with
    | some _, some ncols, some wt, some off =>
      match parseRows ncols rest with
      | some rows =>
        let afterOff := offsetRows off rows
        let eqv := fun (a b : Nat × List SortVal) => rowsEquiv a.2 b.2
        -- View.Limit takes the percentage of RecordLen() + view.offset
        let total := afterOff.length + (if off < 0 then 0 else off.toNat)
        let k? : Option Nat :=
          if kind = "n" then lim.toInt?.map limitNumber
          else if kind = "p" then (parseF lim).bind (limitPercent total)
          else if kind = "none" then some afterOff.length
          else none
        match k? with
        | some k => showIds ((limitRows eqv wt k afterOff).map Prod.fst)
        | none => "E"
      | none => bad
    | _, _, _, _ => bad
  | "pct", [total, off, p] =>
    -- LIMIT p PERCENT OFFSET off on `total` rows: how many rows survive
    match total.toNat?, off.toNat?, parseF p with
    | some total, some off, some p =>
      let afterOff := total - off
      -- View.Limit takes the percentage of RecordLen() + view.offset
      let base := afterOff + off
      match limitPercent base p with
      | some k => toString (min k afterOff)
      | none => "E"
    | _, _, _ => bad
  | _, _ => bad

end Csvq.Drive
