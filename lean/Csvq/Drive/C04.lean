/- Driver handlers for the C04 correspondence streams. -/
import Csvq.Model.Proto
import Csvq.Model.Group
namespace Csvq.Drive
open Csvq Csvq.Proto

/-- key token: profile~ftext~trim  (ftext/trim: `x<hex>` or `-`) -/
structure KTok where
  p : Profile
  ftext : Option Bytes
  trim : Option Bytes

def parseKTok (s : String) : Option KTok :=
  match s.splitOn "~" with
  | [p, f, t] => do
    let p ← parseProfile p
    let f ← parseOpt parseHexX f
    let t ← parseOpt parseHexX t
    pure { p := p, ftext := f, trim := t }
  | _ => none

/-- serialise one key with the float text supplied by the implementation's strconv -/
def serTok (strict : Bool) (k : KTok) : Bytes :=
  let nk := if strict then normStrict k.p.raw (k.trim.getD []) else norm k.p
  let zeroed : Bool := (k.p.flt? == some FVal.negz) && !strict
  let ft : FVal → Bytes := fun f => if (f == FVal.fin 0) && zeroed then [48] else k.ftext.getD []
  let kt : KeyText := { itext := decText, ftext := ft }
  serKey kt nk

def intercalateSep : List Bytes → Bytes
  | [] => []
  | [x] => x
  | x :: xs => x ++ sepByte :: intercalateSep xs

def rowKey (strict : Bool) (ks : List KTok) : Bytes := intercalateSep (ks.map (serTok strict))

def chunk {α} (n : Nat) : List α → List (List α)
  | [] => []
  | l => if n = 0 then [l] else
    let rec go (fuel : Nat) (l : List α) : List (List α) :=
      match fuel, l with
      | 0, _ => []
      | _, [] => []
      | f + 1, l => l.take n :: go f (l.drop n)
    go l.length l

def showIdx (l : List Nat) : String := String.intercalate "," (l.map toString)
def showBuckets (g : List (Bytes × List Nat)) : String :=
  if g.isEmpty then "-" else String.intercalate "|" (g.map fun b => showIdx b.2)

def keyedRows (strict : Bool) (ncols : Nat) (toks : List KTok) : List (Bytes × Nat) :=
  (chunk ncols toks).zipIdx.map fun (r, i) => (rowKey strict r, i)

def c04 (cmd : String) (args : List String) : String :=
  let bad := "bad-op"
  match cmd, args with
  | "key", s :: toks =>
    match parseBool s, toks.mapM parseKTok with
    | some strict, some ks => hex (rowKey strict ks)
    | _, _ => bad
  | "group", s :: nc :: w :: toks =>
    -- w = number of worker chunks the model cuts the rows into (result must not depend on it)
    match parseBool s, nc.toNat?, w.toNat?, toks.mapM parseKTok with
    | some strict, some ncols, some w, some ks =>
      let rows := keyedRows strict ncols ks
      let per := if w = 0 then rows.length else (rows.length + w - 1) / w
      showBuckets (groupImpl (chunk per rows))
    | _, _, _, _ => bad
  | "distinct", s :: nc :: toks =>
    match parseBool s, nc.toNat?, toks.mapM parseKTok with
    | some strict, some ncols, some ks => showIdx ((keepFirst (keyedRows strict ncols ks)).map Prod.snd)
    | _, _, _ => bad
  | "setop", op :: all :: s :: nc :: na :: toks =>
    -- rows 0..na-1 belong to the left operand, the rest to the right one
    match parseBool all, parseBool s, nc.toNat?, na.toNat?, toks.mapM parseKTok with
    | some all, some strict, some ncols, some na, some ks =>
      let rows := keyedRows strict ncols ks
      let a := rows.take na
      let b := rows.drop na
      let res := match op with
        | "union" => unionImpl all a b
        | "except" => exceptImpl all a b
        | "intersect" => intersectImpl all a b
        | _ => []
      showIdx (res.map Prod.snd)
    | _, _, _, _, _ => bad
  | _, _ => bad

end Csvq.Drive
