/- Driver handlers for the C04 correspondence streams. -/
import Csvq.Model.Proto
import Csvq.Model.Group
import Csvq.Model.FormatFloat
import Csvq.Model.Aggregate
import Csvq.Model.AggEval
import Csvq.Model.KeyOf
namespace Csvq.Drive
open Csvq Csvq.Proto

/-- key token: profile~ftext~trim  (ftext/trim: `x<hex>` or `-`) -/
structure KTok where
  p : Profile
  ftext : Option Bytes
  trim : Option Bytes

def parseKTok (s : String) : Option KTok :=
  match s.splitOn "~" with
  | [p, f, t] => do
    let p ← parseProfile p
    let f ← parseOpt parseHexX f
    let t ← parseOpt parseHexX t
    pure { p := p, ftext := f, trim := t }
  | _ => none

/-- the float text the implementation's strconv supplied with the token is the model's own
    (Model/FormatFloat.lean; `-` exactly when the value has no float reading) -/
def ktokFloatOK (k : KTok) : Bool :=
  match k.p.flt?, k.ftext with
  | some f, some t => t == FF.fmtF f
  | none, none => true
  | _, _ => false

/-- serialise one key; the float payload is the model's own strconv.FormatFloat (`FF.fmtF`, the instance
    `C04.keytext_ok` is about) — the text supplied with the token is only compared with it (`ktokFloatOK`) -/
def serTok (strict : Bool) (k : KTok) : Bytes :=
  let nk := if strict then normStrict k.p.raw (k.trim.getD []) else norm k.p
  let kt : KeyText := { itext := decText, ftext := FF.fmtF }
  serKey kt nk

def intercalateSep : List Bytes → Bytes
  | [] => []
  | [x] => x
  | x :: xs => x ++ sepByte :: intercalateSep xs

def rowKey (strict : Bool) (ks : List KTok) : Bytes := intercalateSep (ks.map (serTok strict))

def chunk {α} (n : Nat) : List α → List (List α)
  | [] => []
  | l => if n = 0 then [l] else
    let rec go (fuel : Nat) (l : List α) : List (List α) :=
      match fuel, l with
      | 0, _ => []
      | _, [] => []
      | f + 1, l => l.take n :: go f (l.drop n)
    go l.length l

def showIdx (l : List Nat) : String := String.intercalate "," (l.map toString)
def showBuckets (g : List (Bytes × List Nat)) : String :=
  if g.isEmpty then "-" else String.intercalate "|" (g.map fun b => showIdx b.2)

def keyedRows (strict : Bool) (ncols : Nat) (toks : List KTok) : List (Bytes × Nat) :=
  (chunk ncols toks).zipIdx.map fun (r, i) => (rowKey strict r, i)

/-! ### aggregates (Model/Aggregate.lean) -/

def showRes : Agg.Res → String
  | .null => "N"
  | .int i => "I" ++ toString i
  | .flt f => "F" ++ showF f
  | .str s => "S" ++ hex s
  | .cell p => showVal p.raw

def showCell : Option Profile → String
  | none => "N"
  | some p => showVal p.raw

/-- the cells the function sees: all of them, or the first of every comparison key (DISTINCT) -/
def aggCells (d : Nat) (ks : List KTok) : List Profile :=
  match d with
  | 0 => ks.map (·.p)
  | 1 => Agg.distinguish (ks.map (·.p))
  | _ => Agg.distinguishStrict (ks.map fun k => (k.p, k.trim.getD []))

/-- the texts LISTAGG joins are the model's own: decText (= strconv.FormatInt) and FF.fmtF
    (= strconv.FormatFloat(f, 'f', -1, 64) = value.Float64ToStr(f, false), Model/FormatFloat.lean) -/
def aggKeyText (_ : List KTok) : KeyText := { itext := decText, ftext := FF.fmtF }

/-- MEDIAN: sort.Float64s leaves the order of -0 and +0 open, so the sign of a zero result is not determined
    when zeros of both signs are among the values; both sides then print +0 -/
def showMedian (cells : List Profile) : String :=
  match Agg.median cells with
  | .flt f =>
    let vs := Agg.medianList cells
    if f.isZero && vs.contains .negz && vs.contains (.fin 0) then "F0" else "F" ++ showF f
  | r => showRes r

def aggOne (sep : Bytes) (cells : List Profile) (ks : List KTok) (fn : String) : Option String :=
  (fun r => fn ++ "=" ++ r) <$> (match fn with
  | "COUNT" => some (showRes (.int (Agg.count cells)))
  | "MAX" => some (showCell (Agg.maxAgg cells))
  | "MIN" => some (showCell (Agg.minAgg cells))
  | "SUM" => some (showRes (Agg.sum cells))
  | "AVG" => some (showRes (Agg.avg cells))
  | "STDEV" => some (showRes (Agg.stdev cells))
  | "STDEVP" => some (showRes (Agg.stdevp cells))
  | "VAR" => some (showRes (Agg.var cells))
  | "VARP" => some (showRes (Agg.varp cells))
  | "MEDIAN" => some (showMedian cells)
  | "LISTAGG" => some (showRes (Agg.listAgg (aggKeyText ks) sep cells))
  | "POW2" =>   -- math.Pow(x, 2) of every float cell, and math.Sqrt of it
    some (String.intercalate "," ((Agg.floatList cells).map fun f => showF (FVal.powTwo f) ++ "/" ++ showF (FVal.sqrt f)))
  | _ => none)

/-! ### GROUP BY → grouped records → evalAggregateFunction / evalListFunction (Model/AggEval.lean) -/

/-- cell of the aggregated column: ktok~dtext (dtext: the RFC 3339 text JSON_AGG writes for a DATETIME cell) -/
structure GTok where
  k : KTok
  dtext : Option Bytes

def parseGTok (s : String) : Option GTok :=
  match s.splitOn "~" with
  | [p, f, t, d] => do
    let p ← parseProfile p
    let f ← parseOpt parseHexX f
    let t ← parseOpt parseHexX t
    let d ← parseOpt parseHexX d
    pure { k := { p := p, ftext := f, trim := t }, dtext := d }
  | _ => none

/-- one table row of a `gagg` line: its grouping key (serialised as for `c04.group`), the value of the aggregated
    expression for this row, the value of the ORDER BY expression of the list functions -/
structure GRow where
  key : Bytes
  arg : GTok
  ord : Int

def parseGRows (strict : Bool) (w : Nat) : Nat → List String → Option (List GRow)
  | 0, _ => some []
  | fuel + 1, toks =>
    if toks.isEmpty then some [] else
    match (toks.take w).mapM parseKTok, (toks.drop w) with
    | some ks, a :: o :: rest => do
      let a ← parseGTok a
      let o ← o.toInt?
      let more ← parseGRows strict w fuel rest
      pure ({ key := rowKey strict ks, arg := a, ord := o } :: more)
    | _, _ => none

/-- a call: function, DISTINCT, ORDER BY of a list function (0 none, 1 ascending, 2 descending), argument -/
structure GCall where
  fn : String
  distinct : Bool
  order : Nat
  arg : Agg.ArgExpr

def argCol : Agg.Row → Profile := fun r => r.getD 0 (profileOf .null)
def ordCol : Agg.Row → Int := fun r => ((r.getD 1 (profileOf .null)).int?).getD 0

def parseGCall (s : String) : Option GCall :=
  match s.splitOn ":" with
  | [fn, d, o, a] => do
    let d ← parseBool d
    let o ← o.toNat?
    let arg ← (if a = "c" then some (Agg.ArgExpr.expr argCol)
               else if a = "s" then some Agg.ArgExpr.star
               else if a.front = 'L' then (parseProfile (a.drop 1).toString).map Agg.ArgExpr.const
               else none)
    pure { fn := fn, distinct := d, order := o, arg := arg }
  | _ => none

def builtinOf (fn : String) : Option Agg.BuiltinAgg :=
  match fn with
  | "COUNT" => some .count | "MAX" => some .max | "MIN" => some .min | "SUM" => some .sum | "AVG" => some .avg
  | "STDEV" => some .stdev | "STDEVP" => some .stdevp | "VAR" => some .var | "VARP" => some .varp
  | "MEDIAN" => some .median | _ => none

/-- the user-defined aggregates the stream declares: the number of values `v` with `v > k` TRUE -/
def udfCountGreater (l : List Profile) (args : List Profile) : Agg.Res :=
  match args with
  | [k] => .int (l.filter fun v => opGt v k == .T).length
  | _ => .null

def showJCell : Agg.JCell → String
  | .null => "N"
  | .bool b => if b then "B1" else "B0"
  | .str s => "S" ++ hex s
  | .num f => "F" ++ showF f

def showListRes : Agg.ListRes → String
  | .res r => showRes r
  | .json none => "N"
  | .json (some a) => "J[" ++ String.intercalate "," (a.map showJCell) ++ "]"

/-- MEDIAN's sign-of-zero rule (see `showMedian`) on a result computed through the glue -/
def showMedianRes (seen : List Profile) (r : Agg.Res) : String :=
  match r with
  | .flt f =>
    let vs := Agg.medianList seen
    if f.isZero && vs.contains .negz && vs.contains (.fin 0) then "F0" else "F" ++ showF f
  | r => showRes r

def gaggCall (strict : Bool) (trims : List (Val × Bytes)) (dtexts : List (Int × Bytes)) (sep : Bytes)
    (record : List (List Profile)) (c : GCall) : String :=
  let trimOf : Val → Bytes := fun v => ((trims.find? fun t => t.1 == v).map (·.2)).getD []
  let dkey : Profile → NKey := fun p => if strict then normStrict p.raw (trimOf p.raw) else norm p
  let dtext : Int → Bytes := fun ns => ((dtexts.find? fun t => t.1 == ns).map (·.2)).getD []
  let ctx : Option Agg.RecCtx := some { isGrouped := true, inRange := true, record := record }
  let kt : KeyText := { itext := decText, ftext := FF.fmtF }
  let less : Option (Agg.Row → Agg.Row → Bool) :=
    match c.order with
    | 1 => some fun a b => decide (ordCol a < ordCol b)
    | 2 => some fun a b => decide (ordCol b < ordCol a)
    | _ => none
  let show1 {α} (f : α → String) : Except Agg.AggErr α → String
    | .ok a => f a
    | .error _ => "E:not-grouping"
  c.fn ++ "=" ++ (
    if c.fn = "LISTAGG" then show1 showListRes (Agg.evalListFunction dkey kt dtext (some sep) less c.distinct c.arg ctx)
    else if c.fn = "JSONAGG" then show1 showListRes (Agg.evalListFunction dkey kt dtext none less c.distinct c.arg ctx)
    else
      let zero := profileOf (.int 0)
      let five := profileOf (.int 5)
      let (fn, args) : Option Agg.BuiltinAgg × List Profile :=
        if c.fn = "CNTPOS" then (none, [zero]) else if c.fn = "CNTGT5" then (none, [five]) else (builtinOf c.fn, [])
      if fn.isNone && args.isEmpty then "bad-fn"
      else
        let r := Agg.evalAggregate dkey fn udfCountGreater args c.distinct c.arg ctx
        if c.fn = "MEDIAN" then
          -- the values MEDIAN saw (for the sign-of-zero rule)
          let seen := Agg.listValues dkey (match c.arg with | .star => .const (profileOf (.int 1)) | a => a) c.distinct
            (Agg.viewFromGrouped record)
          show1 (showMedianRes seen) r
        else show1 showRes r)

def gagg (strict : Bool) (w cpu : Nat) (sep : Bytes) (calls : List GCall) (rows : List GRow) : String :=
  let trims := rows.filterMap fun r => r.arg.k.trim.map fun t => (r.arg.k.p.raw, t)
  let dtexts := rows.filterMap fun r => match r.arg.k.p.raw, r.arg.dtext with
    | .dt ns, some t => some (ns, t) | _, _ => none
  let table : List Agg.Row := rows.map fun r => [r.arg.k.p, profileOf (.int r.ord)]
  let one (members : List Nat) (record : List (List Profile)) : String :=
    String.intercalate ";" (showIdx members :: calls.map (gaggCall strict trims dtexts sep record))
  if w = 0 then
    -- no GROUP BY: all records are one group; without records the placeholder record
    one (List.range table.length) (Agg.groupAllRecord 2 table)
  else
    let keyed : List (Bytes × Nat) := rows.zipIdx.map fun ri => (ri.1.key, ri.2)
    let per := if cpu = 0 then keyed.length else (keyed.length + cpu - 1) / cpu
    let gv := Agg.groupedView 2 table (chunk per keyed)
    let members := (groupImpl (chunk per keyed)).map Prod.snd
    if gv.isEmpty then "-"
    else String.intercalate "|" ((members.zip gv).map fun mb => one mb.1 mb.2.2)

/-! ### spellings: keys computed from RAW values by the model's own conversions (Model/KeyOf.lean) -/

/-- the key bytes of one value; nothing of the implementation's conversions enters -/
def spellKeyBytes (strict : Bool) (v : Val) : Bytes :=
  serKey { itext := decText, ftext := FF.fmtF } (keyOfMode strict v)

def showVals (l : List Val) : String := if l.isEmpty then "-" else String.intercalate "," (l.map showVal)

/-- one key column; rows 0..na-1 are the left operand of a set operator, the rest the right one -/
def spell (kind : String) (strict : Bool) (cpu na : Nat) (vs : List Val) : String :=
  let keyed : List (Bytes × Val) := vs.map fun v => (spellKeyBytes strict v, v)
  let rows : List (Bytes × Nat) := keyed.zipIdx.map fun (kv, i) => (kv.1, i)
  let a := keyed.take na
  let b := keyed.drop na
  match kind with
  | "group" =>
    let per := if cpu = 0 then rows.length else (rows.length + cpu - 1) / cpu
    showBuckets (groupImpl (chunk per rows))
  | "distinct" => showVals ((keepFirst keyed).map Prod.snd)
  | "part" =>
    -- COUNT(*) OVER (PARTITION BY k), per row in row order: the size of the row's bucket
    if keyed.isEmpty then "-" else
    String.intercalate "," (keyed.map fun kv => toString (keyed.filter fun x => x.1 == kv.1).length)
  | "cntd" =>
    -- COUNT(DISTINCT k): the buckets of the non-NULL values
    toString (keepFirst (keyed.filter fun kv => match kv.2 with | .null => false | _ => true)).length
  | "union0" => showVals ((unionImpl false a b).map Prod.snd)
  | "union1" => showVals ((unionImpl true a b).map Prod.snd)
  | "except0" => showVals ((exceptImpl false a b).map Prod.snd)
  | "except1" => showVals ((exceptImpl true a b).map Prod.snd)
  | "intersect0" => showVals ((intersectImpl false a b).map Prod.snd)
  | "intersect1" => showVals ((intersectImpl true a b).map Prod.snd)
  | _ => "bad-op"

/-- an op line may carry a note for the reader of a replay (`q:<hex of the SQL text>`) in front of its arguments -/
def dropNote (args : List String) : List String :=
  match args with
  | a :: rest => if a.startsWith "q:" then rest else args
  | [] => []

def c04core (cmd : String) (args : List String) : String :=
  let bad := "bad-op"
  match cmd, args with
  | "gagg", s :: w :: cpu :: sep :: calls :: toks =>
    match parseBool s, w.toNat?, cpu.toNat?, parseHexX sep, (calls.splitOn ",").mapM parseGCall with
    | some strict, some w, some cpu, some sep, some calls =>
      match parseGRows strict w (toks.length + 1) toks with
      | some rows => gagg strict w cpu sep calls rows
      | none => bad
    | _, _, _, _, _ => bad
  | "skey", s :: vals =>
    match parseBool s, vals.mapM parseVal with
    | some strict, some vs => hex (intercalateSep (vs.map (spellKeyBytes strict)))
    | _, _ => bad
  | "spell", kind :: s :: cpu :: na :: vals =>
    match parseBool s, cpu.toNat?, na.toNat?, vals.mapM parseVal with
    | some strict, some cpu, some na, some vs => spell kind strict cpu na vs
    | _, _, _, _ => bad
  | "key", s :: toks =>
    match parseBool s, toks.mapM parseKTok with
    | some strict, some ks => if ks.all ktokFloatOK then hex (rowKey strict ks) else "float-text-differs"
    | _, _ => bad
  | "group", s :: nc :: w :: toks =>
    -- w = number of worker chunks the model cuts the rows into (result must not depend on it)
    match parseBool s, nc.toNat?, w.toNat?, toks.mapM parseKTok with
    | some strict, some ncols, some w, some ks =>
      let rows := keyedRows strict ncols ks
      let per := if w = 0 then rows.length else (rows.length + w - 1) / w
      showBuckets (groupImpl (chunk per rows))
    | _, _, _, _ => bad
  | "distinct", s :: nc :: toks =>
    match parseBool s, nc.toNat?, toks.mapM parseKTok with
    | some strict, some ncols, some ks => showIdx ((keepFirst (keyedRows strict ncols ks)).map Prod.snd)
    | _, _, _ => bad
  | "setop", op :: all :: s :: nc :: na :: toks =>
    -- rows 0..na-1 belong to the left operand, the rest to the right one
    match parseBool all, parseBool s, nc.toNat?, na.toNat?, toks.mapM parseKTok with
    | some all, some strict, some ncols, some na, some ks =>
      let rows := keyedRows strict ncols ks
      let a := rows.take na
      let b := rows.drop na
      let res := match op with
        | "union" => unionImpl all a b
        | "except" => exceptImpl all a b
        | "intersect" => intersectImpl all a b
        | _ => []
      showIdx (res.map Prod.snd)
    | _, _, _, _, _ => bad
  | "agg", fns :: d :: sep :: toks =>
    -- fns: comma-separated function names; d: 0 = all cells, 1 = DISTINCT, 2 = DISTINCT under --strict-equal;
    -- sep: the separator of LISTAGG (`x<hex>`); toks: the cells of the group in record order
    match d.toNat?, parseHexX sep, toks.mapM parseKTok with
    | some d, some sep, some ks =>
      match (fns.splitOn ",").mapM (aggOne sep (aggCells d ks) ks) with
      | some rs => String.intercalate "|" rs
      | none => bad
    | _, _, _ => bad
  | _, _ => bad

def c04 (cmd : String) (args : List String) : String := c04core cmd (dropNote args)

end Csvq.Drive
